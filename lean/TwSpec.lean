import TwSpec.Driver
