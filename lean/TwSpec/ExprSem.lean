/-
  TwSpec.ExprSem — what an expression *means* (C01): a denotational evaluator on token-free
  expression trees.  Same-typed operands only; wrapping 64-bit integers; IEEE doubles
  (Lean's `Float`, opaque to the kernel); byte strings.  No messages: an error is just `none`.
-/
import TwModel.Builtins

namespace TwSpec
open Tw

inductive SExpr where
  | int (v : Int64)
  | float (v : Float)
  | str (v : Bytes)          -- the text written between the quotes
  | bool (v : Bool)
  | nil
  | var (name : Bytes)
  | neg (e : SExpr)
  | not (e : SExpr)
  | inc (e : SExpr)
  | dec (e : SExpr)
  | bin (op : Bytes) (l r : SExpr)
  | tern (c a b : SExpr)
  | idx (l i : SExpr)
  | dot (l : SExpr) (key : Bytes)
  | call (recv : SExpr) (fn : Bytes) (args : List SExpr)
  | arr (es : List SExpr)
  | obj (kvs : List (Bytes × SExpr))
  deriving Inhabited

/-- arithmetic and comparison on two integers -/
def intOp (op : Bytes) (a c : Int64) : Option Val :=
  if op == b "+" then some (.int (a + c))
  else if op == b "-" then some (.int (a - c))
  else if op == b "*" then some (.int (a * c))
  else if op == b "/" then (if c == 0 then none else some (.int (a / c)))
  else if op == b "%" then (if c == 0 then none else some (.int (a % c)))
  else if op == b "==" then some (.bool (a == c))
  else if op == b "!=" then some (.bool (a != c))
  else if op == b "<" then some (.bool (a < c))
  else if op == b ">" then some (.bool (a > c))
  else if op == b "<=" then some (.bool (a ≤ c))
  else if op == b ">=" then some (.bool (a ≥ c))
  else none

def floatOp (op : Bytes) (a c : Float) : Option Val :=
  if op == b "+" then some (.float (a + c))
  else if op == b "-" then some (.float (a - c))
  else if op == b "*" then some (.float (a * c))
  else if op == b "/" then some (.float (a / c))
  else if op == b "==" then some (.bool (a == c))
  else if op == b "!=" then some (.bool (a != c))
  else if op == b "<" then some (.bool (a < c))
  else if op == b ">" then some (.bool (a > c))
  else if op == b "<=" then some (.bool (a ≤ c))
  else if op == b ">=" then some (.bool (a ≥ c))
  else none

def strOp (op : Bytes) (a c : Bytes) : Option Val :=
  if op == b "+" then some (.str (a ++ c))
  else if op == b "==" then some (.bool (a == c))
  else if op == b "!=" then some (.bool (a != c))
  else none

/-- a binary operator applied to two values: same-typed int / float / string operands only -/
def binOp (op : Bytes) : Val → Val → Option Val
  | .int a, .int c => intOp op a c
  | .float a, .float c => floatOp op a c
  | .str a, .str c => strOp op a c
  | _, _ => none

/-- property access: the key itself, or the key with its first letter upper-cased -/
def getProp (kvs : List (Bytes × Val)) (k : Bytes) : Option Val :=
  match mapGet kvs k with
  | some v => some v
  | none => if k.isEmpty then none else mapGet kvs (toUpper (k.take 1) ++ k.drop 1)

mutual
def seval (env : Env) : SExpr → Option Val
  | .int v => some (.int v)
  | .float v => some (.float v)
  | .str v => some (.str (literalValue v))
  | .bool v => some (.bool v)
  | .nil => some .nil
  | .var n => env.get n
  | .neg e =>
    match seval env e with
    | some (.int v) => some (.int (-v))
    | some (.float v) => some (.float (-v))
    | _ => none
  | .not e =>
    match seval env e with
    | some (.bool v) => some (.bool (!v))
    | some .nil => some (.bool true)
    | _ => none
  | .inc e =>
    match seval env e with
    | some (.int v) => some (.int (v + 1))
    | some (.float v) => some (.float (v + 1.0))
    | _ => none
  | .dec e =>
    match seval env e with
    | some (.int v) => some (.int (v - 1))
    | some (.float v) => some (.float (floatDec v))
    | _ => none
  | .bin op l r =>
    match seval env l with
    | some lv =>
      match seval env r with
      | some rv => binOp op lv rv
      | none => none
    | none => none
  | .tern c a bb =>
    match seval env c with
    | some cv => if isTruthy cv then seval env a else seval env bb
    | none => none
  | .idx l i =>
    match seval env l with
    | some (.arr xs) =>
      match seval env i with
      | some (.int n) => some (if n < 0 || n.toInt ≥ xs.length then .nil else xs.getD n.toInt.toNat .nil)
      | _ => none
    | some (.obj kvs) =>
      match seval env i with
      | some (.str k) => getProp kvs k
      | _ => none
    | some _ => (seval env i).bind fun _ => none
    | none => none
  | .dot l k =>
    match seval env l with
    | some (.obj kvs) => getProp kvs k
    | _ => none
  | .call recv fn args =>
    match seval env recv with
    | some rv =>
      if !hasBuiltinTable rv.type then none
      else
        match sevalList env args with
        | some avs =>
          match callBuiltin rv fn avs with
          | some (.ok v) => some v
          | _ => none
        | none => none
    | none => none
  | .arr es => (sevalList env es).map .arr
  | .obj kvs => (sevalPairs env kvs).map fun ps => .obj (sortByKey (ps.foldl (fun m kv => mapSet m kv.1 kv.2) []))
def sevalList (env : Env) : List SExpr → Option (List Val)
  | [] => some []
  | e :: r =>
    match seval env e with
    | some v => (sevalList env r).map (v :: ·)
    | none => none
def sevalPairs (env : Env) : List (Bytes × SExpr) → Option (List (Bytes × Val))
  | [] => some []
  | (k, e) :: r =>
    match seval env e with
    | some v => (sevalPairs env r).map ((k, v) :: ·)
    | none => none
end

end TwSpec
