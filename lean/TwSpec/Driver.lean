/- TwSpec.Driver — protocol entry for the executable specification oracles. -/
import TwModel.Api
import TwSpec.ExprSem

namespace TwSpec
open Tw

inductive STerm where
  | atom (s : String)
  | list (xs : List STerm)
  deriving Inhabited

partial def parseSTerms (cs : List Char) (acc : List STerm) : List STerm × List Char :=
  match cs with
  | [] => (acc.reverse, [])
  | ' ' :: r => parseSTerms r acc
  | ')' :: r => (acc.reverse, r)
  | '(' :: r =>
    let (inner, rest) := parseSTerms r []
    parseSTerms rest (.list inner :: acc)
  | _ =>
    let a := cs.takeWhile fun c => c != ' ' && c != '(' && c != ')'
    parseSTerms (cs.drop a.length) (.atom (String.ofList a) :: acc)

def parseSTerm (s : String) : STerm :=
  match (parseSTerms s.toList []).1 with
  | [t] => t
  | ts => .list ts

def hexB (s : String) : Bytes := if s == "-" then [] else (ofHex s).getD []

partial def toSExpr : STerm → SExpr
  | .atom "n" => .nil
  | .list [.atom "i", .atom v] => .int (Int64.ofInt (v.toInt?.getD 0))
  | .list [.atom "f", .atom v] =>
    .float (Float.ofBits (UInt64.ofNat (((ofHex v).getD []).foldl (fun a c => a * 256 + c) 0)))
  | .list [.atom "s", .atom v] => .str (hexB v)
  | .list [.atom "b", .atom v] => .bool (v == "1")
  | .list [.atom "v", .atom v] => .var (hexB v)
  | .list [.atom "neg", e] => .neg (toSExpr e)
  | .list [.atom "not", e] => .not (toSExpr e)
  | .list [.atom "inc", e] => .inc (toSExpr e)
  | .list [.atom "dec", e] => .dec (toSExpr e)
  | .list [.atom "bin", .atom op, l, r] => .bin (hexB op) (toSExpr l) (toSExpr r)
  | .list [.atom "tern", c, a, bb] => .tern (toSExpr c) (toSExpr a) (toSExpr bb)
  | .list [.atom "idx", l, i] => .idx (toSExpr l) (toSExpr i)
  | .list [.atom "dot", .atom k, l] => .dot (toSExpr l) (hexB k)
  | .list (.atom "call" :: .atom f :: recv :: args) => .call (toSExpr recv) (hexB f) (args.map toSExpr)
  | .list (.atom "arr" :: es) => .arr (es.map toSExpr)
  | .list (.atom "obj" :: kvs) => .obj (pairs kvs)
  | _ => .nil
where
  pairs : List STerm → List (Bytes × SExpr)
    | .atom k :: v :: r => (hexB k, toSExpr v) :: pairs r
    | _ => []

/-- data terms are parsed by the main driver; the spec handler receives the environment -/
def specExpr (tree : String) (env : Option Env) : String :=
  match env with
  | none => "ERR"
  | some e =>
    match seval e (toSExpr (parseSTerm tree)) with
    | some v => "OK " ++ toHex v.toStr
    | none => "ERR"

end TwSpec
