/- TwSpec.Driver — protocol entry for the executable specification oracles. -/
import TwModel.Api

namespace TwSpec
open Tw

def handleSpec (_fields : List String) : String := "NOSPEC"

end TwSpec
