/-
  TwProofs.C13 — property theorems (see DESIGN.md, section 6).
-/
import TwModel
import TwSpec

namespace Tw.C13
open Tw

end Tw.C13
