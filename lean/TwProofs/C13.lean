/-
  TwProofs.C13 — errors name the line of the offending construct.
-/
import TwProofs.Lemmas.LexSpan
import TwModel

namespace Tw.C13
open Tw Tw.Lx

/-- the line an error reports for a token (`Token.ErrorLine`) is 1 + the number of line feeds
    before the token's last byte: the 1-based line on which the token ends — whatever multi-line
    text, strings, comments or CRLF line ends precede it (every token of every input) -/
theorem token_error_line (inp : Bytes) (t : Token) (a n : Nat) (h : Covers inp t a n) :
    t.errorLine = 1 + (inp.take (a + n - 1)).count 10 := by
  have := h.stop
  unfold posOf at this
  have hl : t.pos.endLine = lineOf (inp.take (a + n - 1)).reverse := (Prod.mk.inj this).1
  unfold Token.errorLine
  rw [hl, lineOf, List.count_reverse]; omega

/-- parser errors are built from the line of the token they complain about -/
theorem expectPeek_error_line (p : PS) (t : TT) (h : p.peekIs t = false) :
    (p.expectPeek t).2.errors = p.errors ++ [PErr.mk p.peek.errorLine "ErrWrongNextToken" [b (tokenString t), b (tokenString p.peek.ty)]] := by
  simp [PS.expectPeek, h, PS.err]

/-- evaluator errors about an identifier carry the line of the identifier's token -/
theorem identifier_error_line (fuel : Nat) (c : Ctx) (env : Env) (t : Token) (name : Bytes) (h : env.get name = none) :
    evalExpr (fuel + 1) c env (.ident t name) = .err "ErrIdentifierNotFound" t.errorLine [name] := by
  simp [evalExpr, h]

/-- division and modulo by zero are reported on the line of the left operand -/
theorem division_by_zero_line (l : Int64) (line : Nat) :
    intInfix (b "/") l 0 line = .err "ErrDivisionByZero" line [] ∧ intInfix (b "%") l 0 line = .err "ErrDivisionByZero" line [] := by
  constructor <;> (unfold intInfix; simp (config := { decide := true }))

/-- a failing render through a Template names the file the template name stands for -/
theorem render_error_path (w : World) (t : Template) (name : Bytes) (data : List (Bytes × GoVal)) (env : Env) (f : Fail)
    (hd : envFromMap data = .ok env) (h : tplString w t name data = .fail f) : f.path = templatePath w.cfg name := by
  unfold tplString envOrFail at h
  simp only [hd] at h
  split at h
  · cases h; rfl
  · unfold resToOut at h
    split at h
    · cases h
    · cases h; rfl
    · cases h
    · cases h

/-- a fault found while loading a file names that file -/
theorem load_error_path (fs : Fs) (p : Bytes) (base : Nat) (f : Fail) (h : parseFile fs p base = .error f) : f.path = p := by
  unfold parseFile at h
  split at h
  · cases h; rfl
  · cases h; rfl
  · split at h
    · cases h
    · cases h; rfl
    · cases h; rfl
    · cases h; rfl

/-- string evaluation has no file: the path of its errors is empty -/
theorem string_error_has_no_path (custom : List ((VType × Bytes) × Nat)) (src : Bytes) (data : List (Bytes × GoVal)) (f : Fail)
    (env : Env) (hd : envFromMap data = .ok env) (h : evaluateStringPure custom src data = .fail f) : f.path = [] := by
  unfold evaluateStringPure envOrFail at h
  split at h
  · cases h; rfl
  · cases h
  · cases h
  · simp only [hd] at h
    unfold resToOut at h
    split at h
    · cases h
    · cases h; rfl
    · cases h
    · cases h


example : (match evaluateStringPure [] (b "line1\n{{ \"a\nb\" }}\n{{-- c\n --}}{{ nosuch }}") [] with
    | .fail f => f.line == 5 | _ => false) = true := by decide

end Tw.C13
