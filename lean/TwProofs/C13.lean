/-
  TwProofs.C13 — errors name the line of the offending construct.
-/
import TwProofs.Lemmas.LexSpan
import TwProofs.Lemmas.ErrLinesStmt
import TwProofs.Lemmas.ParseToks
import TwProofs.Lemmas.LoadToks
import TwModel

namespace Tw.C13
open Tw Tw.Lx

/-- the line an error reports for a token (`Token.ErrorLine`) is 1 + the number of line feeds
    before the token's last byte: the 1-based line on which the token ends — whatever multi-line
    text, strings, comments or CRLF line ends precede it (every token of every input) -/
theorem token_error_line (inp : Bytes) (t : Token) (a n : Nat) (h : Covers inp t a n) :
    t.errorLine = 1 + (inp.take (a + n - 1)).count 10 := by
  have := h.stop
  unfold posOf at this
  have hl : t.pos.endLine = lineOf (inp.take (a + n - 1)).reverse := (Prod.mk.inj this).1
  unfold Token.errorLine
  rw [hl, lineOf, List.count_reverse]; omega

/-- parser errors are built from the line of the token they complain about -/
theorem expectPeek_error_line (p : PS) (t : TT) (h : p.peekIs t = false) :
    (p.expectPeek t).2.errors = p.errors ++ [PErr.mk p.peek.errorLine "ErrWrongNextToken" [b (tokenString t), b (tokenString p.peek.ty)]] := by
  simp [PS.expectPeek, h, PS.err]

/-- evaluator errors about an identifier carry the line of the identifier's token -/
theorem identifier_error_line (fuel : Nat) (c : Ctx) (env : Env) (t : Token) (name : Bytes) (h : env.get name = none) :
    evalExpr (fuel + 1) c env (.ident t name) = .err "ErrIdentifierNotFound" t.errorLine [name] := by
  simp [evalExpr, h]

/-- division and modulo by zero are reported on the line of the left operand -/
theorem division_by_zero_line (l : Int64) (line : Nat) :
    intInfix (b "/") l 0 line = .err "ErrDivisionByZero" line [] ∧ intInfix (b "%") l 0 line = .err "ErrDivisionByZero" line [] := by
  constructor <;> (unfold intInfix; simp (config := { decide := true }))

/-- a failing render through a Template names the file the template name stands for -/
theorem render_error_path (w : World) (t : Template) (name : Bytes) (data : List (Bytes × GoVal)) (env : Env) (f : Fail)
    (hd : envFromMap data = .ok env) (h : tplString w t name data = .fail f) : f.path = templatePath w.cfg name := by
  unfold tplString envOrFail at h
  simp only [hd] at h
  split at h
  · cases h; rfl
  · unfold resToOut at h
    split at h
    · cases h
    · cases h; rfl
    · cases h
    · cases h

/-- a fault found while loading a file names that file -/
theorem load_error_path (fs : Fs) (p : Bytes) (base : Nat) (f : Fail) (h : parseFile fs p base = .error f) : f.path = p := by
  unfold parseFile at h
  split at h
  · cases h; rfl
  · cases h; rfl
  · split at h
    · cases h
    · cases h; rfl
    · cases h; rfl
    · cases h; rfl

/-- string evaluation has no file: the path of its errors is empty -/
theorem string_error_has_no_path (custom : List ((VType × Bytes) × Nat)) (src : Bytes) (data : List (Bytes × GoVal)) (f : Fail)
    (env : Env) (hd : envFromMap data = .ok env) (h : evaluateStringPure custom src data = .fail f) : f.path = [] := by
  unfold evaluateStringPure envOrFail at h
  split at h
  · cases h; rfl
  · cases h
  · cases h
  · simp only [hd] at h
    unfold resToOut at h
    split at h
    · cases h
    · cases h; rfl
    · cases h
    · cases h


/-! ### in general: the evaluator never invents a line -/

/-- **every error raised inside an expression carries the line of a token of that expression**
    (any fuel, context, environment): identifier, operator, index, property, call — the line comes
    from the tree, never from a default or from another construct -/
theorem expression_errors_name_a_token_of_the_expression (fuel : Nat) (c : Ctx) (env : Env) (e : Expr)
    (code : String) (line : Nat) (args : List Bytes) (h : evalExpr fuel c env e = .err code line args) :
    line ∈ e.lines :=
  (el_expr fuel).1 c env e code line args h

/-- **every error raised while statements are evaluated carries the line of a token of those
    statements or of what the loader attached to the page** (layout, inserts, component files) -/
theorem render_errors_name_a_token_of_the_loaded_files (fuel : Nat) (c : Ctx) (env : Env) (ss : List Stmt) (acc : Bytes)
    (code : String) (line : Nat) (args : List Bytes) (h : evalProg fuel c env ss acc = .err code line args) :
    line ∈ Stmt.linesL ss ++ c.lines :=
  (calleesAt_el fuel).prog c env ss acc code line args h

/-- the string API: a render error (the template parsed, the data converted) names a token of the
    parsed template -/
theorem string_render_error_names_a_token_of_the_template (custom : List ((VType × Bytes) × Nat)) (src : Bytes)
    (data : List (Bytes × GoVal)) (prog : Program) (env : Env) (f : Fail)
    (hp : parseSource src = .ok prog) (hd : envFromMap data = .ok env)
    (h : evaluateStringPure custom src data = .fail f) : f.line ∈ Stmt.linesL prog.stmts := by
  unfold evaluateStringPure envOrFail at h
  simp only [hp, hd] at h
  unfold resToOut at h
  split at h
  · cases h
  · rename_i code line args hr
    cases h
    have := render_errors_name_a_token_of_the_loaded_files _ _ _ _ _ _ _ _ hr
    simpa [Ctx.lines, Stmt.linesO, failOf] using this
  · cases h
  · cases h

/-- a Template render: the line is one of the page's, its layout's, its inserts' or its components' -/
theorem template_render_error_names_a_token_of_the_page (w : World) (t : Template) (name : Bytes) (data : List (Bytes × GoVal))
    (pg : Page) (env : Env) (f : Fail) (hpg : mapGet t name = some pg) (hd : envFromMap data = .ok env)
    (h : tplString w t name data = .fail f) : f.line ∈ Stmt.linesL pg.stmts ++ pg.ctx.lines := by
  unfold tplString envOrFail at h
  simp only [hd, hpg] at h
  unfold resToOut at h
  split at h
  · cases h
  · rename_i code line args hr
    cases h
    have := render_errors_name_a_token_of_the_loaded_files _ _ _ _ _ _ _ _ hr
    simpa [Ctx.lines, failOf] using this
  · cases h
  · cases h

/-! ### the lines are lines of the source -/

/-- **the parser never makes a token up**: every token stored in the parsed program (nodes at any
    depth, recorded inserts, component uses and their slots, the `@use`) is one of the tokens the
    lexer produced for this source -/
theorem parsed_tokens_are_tokens_of_the_source (src : Bytes) (base : Nat) (prog : Program)
    (h : parseSource src base = .ok prog) : ∃ lr, tokenize src = some lr ∧ ∀ t ∈ prog.toks, t ∈ lr.toks :=
  parseSource_toks src base prog h

/-- where a token of the token list lies: it covers bytes `[a, a + n)` of the input and its error
    line is 1 + the line feeds before its last byte — or it is the closing EOF, whose line is that
    of the end of the input -/
theorem token_of_the_list_line (inp : Bytes) (r : LexResult) (h : tokenize inp = some r) (t : Token) (ht : t ∈ r.toks) :
    (∃ a n, Covers inp t a n ∧ t.errorLine = 1 + (inp.take (a + n - 1)).count 10) ∨
      (t.ty = .EOF ∧ t.errorLine = 1 + inp.count 10) := by
  have hti := tokenize_tiled inp r h
  generalize r.toks = toks at hti ht
  generalize (0 : Nat) = a0 at hti
  induction hti with
  | eof a e h1 _ _ h4 =>
    have : t = e := by simpa using ht
    subst this
    right
    refine ⟨h1, ?_⟩
    unfold posOf at h4
    have hl : t.pos.endLine = lineOf (inp.take inp.length).reverse := (Prod.mk.inj h4).1
    unfold Token.errorLine
    rw [hl, lineOf, List.count_reverse, List.take_length]; omega
  | tok a a' n x ts _ _ hc _ ih =>
    rcases List.mem_cons.mp ht with hx | hx
    · subst hx
      exact Or.inl ⟨a', n, hc, token_error_line inp t a' n hc⟩
    · exact ih hx

/-- **the string API, from the source**: a render error (the template parsed, the data converted)
    carries the line on which a token of the source text ends — `1 +` the number of line feeds
    before that token's last byte; composed of `render_errors_name_a_token_of_the_loaded_files`
    (the evaluator takes lines from the tree only), `parsed_tokens_are_tokens_of_the_source` (the
    tree holds lexer tokens only) and `token_error_line` (the lexer's positions are exact) -/
theorem string_render_error_names_a_token_of_the_source (custom : List ((VType × Bytes) × Nat)) (src : Bytes)
    (data : List (Bytes × GoVal)) (prog : Program) (env : Env) (f : Fail)
    (hp : parseSource src = .ok prog) (hd : envFromMap data = .ok env)
    (h : evaluateStringPure custom src data = .fail f) :
    ∃ r t, tokenize src = some r ∧ t ∈ r.toks ∧ f.line = t.errorLine ∧
      ((∃ a n, Covers src t a n ∧ f.line = 1 + (src.take (a + n - 1)).count 10) ∨ (t.ty = .EOF ∧ f.line = 1 + src.count 10)) := by
  have hl := string_render_error_names_a_token_of_the_template custom src data prog env f hp hd h
  obtain ⟨r, hr, hall⟩ := parseSource_lines src 0 prog hp
  obtain ⟨t, ht, hte⟩ := hall f.line hl
  refine ⟨r, t, hr, ht, hte, ?_⟩
  rcases token_of_the_list_line src r hr t ht with ⟨a, n, hc, he⟩ | ⟨h1, h2⟩
  · exact Or.inl ⟨a, n, hc, by rw [hte]; exact he⟩
  · exact Or.inr ⟨h1, by rw [hte]; exact h2⟩

/-- in particular the line lies within the source: between 1 and 1 + the number of its line feeds -/
theorem string_render_error_line_within_source (custom : List ((VType × Bytes) × Nat)) (src : Bytes)
    (data : List (Bytes × GoVal)) (prog : Program) (env : Env) (f : Fail)
    (hp : parseSource src = .ok prog) (hd : envFromMap data = .ok env)
    (h : evaluateStringPure custom src data = .fail f) : 1 ≤ f.line ∧ f.line ≤ 1 + src.count 10 := by
  obtain ⟨r, t, _, _, _, hcase⟩ := string_render_error_names_a_token_of_the_source custom src data prog env f hp hd h
  rcases hcase with ⟨a, n, _, he⟩ | ⟨_, he⟩
  · refine ⟨by omega, ?_⟩
    rw [he]
    have : (src.take (a + n - 1)).count 10 ≤ src.count 10 := (List.take_sublist _ _).count_le _
    omega
  · omega

/-- a registered page holds tokens of the files of the tree only: its statements, the layout, the
    bound inserts and the component programs with their slots filled -/
theorem loaded_tokens_are_tokens_of_the_files (w : World) (o : Option Opt) (t : Template)
    (h : (newTemplate w o).2 = .ok t) :
    ∀ x ∈ t, ∀ tk ∈ Stmt.toksL x.2.stmts ++ x.2.ctx.toks, FileTok (configure w o).fs tk :=
  newTemplate_toks w o t h

/-- **a Template render, from the sources**: a render error of a page of a loaded Template carries
    the line on which a token of one of the tree's files ends (the page, its layout or one of its
    components: `1 +` the line feeds before the token's last byte in that file) — composed of
    `render_errors_name_a_token_of_the_loaded_files`, `loaded_tokens_are_tokens_of_the_files`
    (loader and parser make no token up) and `token_error_line` -/
theorem template_render_error_names_a_token_of_a_file (w : World) (o : Option Opt) (t : Template)
    (hnew : (newTemplate w o).2 = .ok t) (w2 : World) (name : Bytes) (data : List (Bytes × GoVal))
    (pg : Page) (env : Env) (f : Fail) (hpg : mapGet t name = some pg) (hd : envFromMap data = .ok env)
    (h : tplString w2 t name data = .fail f) :
    ∃ q src r tk, readFile (configure w o).fs q = .ok src ∧ tokenize src = some r ∧ tk ∈ r.toks ∧ f.line = tk.errorLine ∧
      ((∃ a n, Covers src tk a n ∧ f.line = 1 + (src.take (a + n - 1)).count 10) ∨ (tk.ty = .EOF ∧ f.line = 1 + src.count 10)) := by
  have hl := template_render_error_names_a_token_of_the_page w2 t name data pg env f hpg hd h
  rw [Stmt.linesL_eq, Ctx.lines_eq, ← List.map_append] at hl
  obtain ⟨tk, htk, hte⟩ := List.mem_map.mp hl
  obtain ⟨q, src, r, hq, hr, hm⟩ := newTemplate_toks w o t hnew (name, pg) (mapGet_mem _ _ _ hpg) tk htk
  refine ⟨q, src, r, tk, hq, hr, hm, hte.symm, ?_⟩
  rcases token_of_the_list_line src r hr tk hm with ⟨a, n, hc, he⟩ | ⟨h1, h2⟩
  · exact Or.inl ⟨a, n, hc, by rw [← hte]; exact he⟩
  · exact Or.inr ⟨h1, by rw [← hte]; exact h2⟩

example : (match evaluateStringPure [] (b "line1\n{{ \"a\nb\" }}\n{{-- c\n --}}{{ nosuch }}") [] with
    | .fail f => f.line == 5 | _ => false) = true := by decide


/-- an instance through loader and evaluator: the failing print is in the component file, on its
    third line (the page's own third line holds nothing that can fail) -/
def demoFs : Fs :=
  [ (b "templates", .dir), (b "templates/components", .dir),
    (b "templates/components/c.tw.html", .file (b "<i>\n@slot\n{{ nosuch }}</i>")),
    (b "templates/page.tw.html", .file (b "a\n@component(\"~c\")@slot\nx\n\n@end@end\nz")) ]

example :
    (match newTemplate { fs := demoFs } none with
      | (w, .ok t) =>
        (match tplString w t (b "page") [] with
          | .fail f => f.line == 3
          | _ => false)
      | _ => false) = true := by decide +kernel

end Tw.C13
