/-
  TwProofs.C13 — errors name the line of the offending construct.
-/
import TwProofs.Lemmas.LexSpan
import TwProofs.Lemmas.ErrLinesStmt
import TwModel

namespace Tw.C13
open Tw Tw.Lx

/-- the line an error reports for a token (`Token.ErrorLine`) is 1 + the number of line feeds
    before the token's last byte: the 1-based line on which the token ends — whatever multi-line
    text, strings, comments or CRLF line ends precede it (every token of every input) -/
theorem token_error_line (inp : Bytes) (t : Token) (a n : Nat) (h : Covers inp t a n) :
    t.errorLine = 1 + (inp.take (a + n - 1)).count 10 := by
  have := h.stop
  unfold posOf at this
  have hl : t.pos.endLine = lineOf (inp.take (a + n - 1)).reverse := (Prod.mk.inj this).1
  unfold Token.errorLine
  rw [hl, lineOf, List.count_reverse]; omega

/-- parser errors are built from the line of the token they complain about -/
theorem expectPeek_error_line (p : PS) (t : TT) (h : p.peekIs t = false) :
    (p.expectPeek t).2.errors = p.errors ++ [PErr.mk p.peek.errorLine "ErrWrongNextToken" [b (tokenString t), b (tokenString p.peek.ty)]] := by
  simp [PS.expectPeek, h, PS.err]

/-- evaluator errors about an identifier carry the line of the identifier's token -/
theorem identifier_error_line (fuel : Nat) (c : Ctx) (env : Env) (t : Token) (name : Bytes) (h : env.get name = none) :
    evalExpr (fuel + 1) c env (.ident t name) = .err "ErrIdentifierNotFound" t.errorLine [name] := by
  simp [evalExpr, h]

/-- division and modulo by zero are reported on the line of the left operand -/
theorem division_by_zero_line (l : Int64) (line : Nat) :
    intInfix (b "/") l 0 line = .err "ErrDivisionByZero" line [] ∧ intInfix (b "%") l 0 line = .err "ErrDivisionByZero" line [] := by
  constructor <;> (unfold intInfix; simp (config := { decide := true }))

/-- a failing render through a Template names the file the template name stands for -/
theorem render_error_path (w : World) (t : Template) (name : Bytes) (data : List (Bytes × GoVal)) (env : Env) (f : Fail)
    (hd : envFromMap data = .ok env) (h : tplString w t name data = .fail f) : f.path = templatePath w.cfg name := by
  unfold tplString envOrFail at h
  simp only [hd] at h
  split at h
  · cases h; rfl
  · unfold resToOut at h
    split at h
    · cases h
    · cases h; rfl
    · cases h
    · cases h

/-- a fault found while loading a file names that file -/
theorem load_error_path (fs : Fs) (p : Bytes) (base : Nat) (f : Fail) (h : parseFile fs p base = .error f) : f.path = p := by
  unfold parseFile at h
  split at h
  · cases h; rfl
  · cases h; rfl
  · split at h
    · cases h
    · cases h; rfl
    · cases h; rfl
    · cases h; rfl

/-- string evaluation has no file: the path of its errors is empty -/
theorem string_error_has_no_path (custom : List ((VType × Bytes) × Nat)) (src : Bytes) (data : List (Bytes × GoVal)) (f : Fail)
    (env : Env) (hd : envFromMap data = .ok env) (h : evaluateStringPure custom src data = .fail f) : f.path = [] := by
  unfold evaluateStringPure envOrFail at h
  split at h
  · cases h; rfl
  · cases h
  · cases h
  · simp only [hd] at h
    unfold resToOut at h
    split at h
    · cases h
    · cases h; rfl
    · cases h
    · cases h


/-! ### in general: the evaluator never invents a line -/

/-- **every error raised inside an expression carries the line of a token of that expression**
    (any fuel, context, environment): identifier, operator, index, property, call — the line comes
    from the tree, never from a default or from another construct -/
theorem expression_errors_name_a_token_of_the_expression (fuel : Nat) (c : Ctx) (env : Env) (e : Expr)
    (code : String) (line : Nat) (args : List Bytes) (h : evalExpr fuel c env e = .err code line args) :
    line ∈ e.lines :=
  (el_expr fuel).1 c env e code line args h

/-- **every error raised while statements are evaluated carries the line of a token of those
    statements or of what the loader attached to the page** (layout, inserts, component files) -/
theorem render_errors_name_a_token_of_the_loaded_files (fuel : Nat) (c : Ctx) (env : Env) (ss : List Stmt) (acc : Bytes)
    (code : String) (line : Nat) (args : List Bytes) (h : evalProg fuel c env ss acc = .err code line args) :
    line ∈ Stmt.linesL ss ++ c.lines :=
  (calleesAt_el fuel).prog c env ss acc code line args h

/-- the string API: a render error (the template parsed, the data converted) names a token of the
    parsed template -/
theorem string_render_error_names_a_token_of_the_template (custom : List ((VType × Bytes) × Nat)) (src : Bytes)
    (data : List (Bytes × GoVal)) (prog : Program) (env : Env) (f : Fail)
    (hp : parseSource src = .ok prog) (hd : envFromMap data = .ok env)
    (h : evaluateStringPure custom src data = .fail f) : f.line ∈ Stmt.linesL prog.stmts := by
  unfold evaluateStringPure envOrFail at h
  simp only [hp, hd] at h
  unfold resToOut at h
  split at h
  · cases h
  · rename_i code line args hr
    cases h
    have := render_errors_name_a_token_of_the_loaded_files _ _ _ _ _ _ _ _ hr
    simpa [Ctx.lines, Stmt.linesO, failOf] using this
  · cases h
  · cases h

/-- a Template render: the line is one of the page's, its layout's, its inserts' or its components' -/
theorem template_render_error_names_a_token_of_the_page (w : World) (t : Template) (name : Bytes) (data : List (Bytes × GoVal))
    (pg : Page) (env : Env) (f : Fail) (hpg : mapGet t name = some pg) (hd : envFromMap data = .ok env)
    (h : tplString w t name data = .fail f) : f.line ∈ Stmt.linesL pg.stmts ++ pg.ctx.lines := by
  unfold tplString envOrFail at h
  simp only [hd, hpg] at h
  unfold resToOut at h
  split at h
  · cases h
  · rename_i code line args hr
    cases h
    have := render_errors_name_a_token_of_the_loaded_files _ _ _ _ _ _ _ _ hr
    simpa [Ctx.lines, failOf] using this
  · cases h
  · cases h

example : (match evaluateStringPure [] (b "line1\n{{ \"a\nb\" }}\n{{-- c\n --}}{{ nosuch }}") [] with
    | .fail f => f.line == 5 | _ => false) = true := by decide

end Tw.C13
