/-
  TwProofs.Lemmas.ErrLines — every error the evaluator raises inside an expression carries the
  line of a token of that expression (C13): the lines are never invented, defaulted or taken
  from elsewhere.
-/
import TwProofs.Lemmas.EvalMono
import TwProofs.Lemmas.Sort
namespace Tw

mutual
/-- `Token.ErrorLine` of every token of the tree -/
def Expr.lines : Expr → List Nat
  | .bad => []
  | .ident t _ => [t.errorLine]
  | .int t _ => [t.errorLine]
  | .float t _ => [t.errorLine]
  | .str t _ => [t.errorLine]
  | .nil t => [t.errorLine]
  | .bool t _ => [t.errorLine]
  | .arr t es => t.errorLine :: Expr.linesL es
  | .obj t ps => t.errorLine :: Expr.linesP ps
  | .pre t _ r => t.errorLine :: r.lines
  | .inf t _ l r => t.errorLine :: (l.lines ++ r.lines)
  | .post t _ l => t.errorLine :: l.lines
  | .tern t c a bb => t.errorLine :: (c.lines ++ (a.lines ++ bb.lines))
  | .index t l i => t.errorLine :: (l.lines ++ i.lines)
  | .dot t l _ => t.errorLine :: l.lines
  | .call t r _ args => t.errorLine :: (r.lines ++ Expr.linesL args)
def Expr.linesL : List Expr → List Nat
  | [] => []
  | e :: r => e.lines ++ Expr.linesL r
def Expr.linesP : List (Bytes × Expr) → List Nat
  | [] => []
  | (_, e) :: r => e.lines ++ Expr.linesP r
end

/-- the node's own line is one of its lines -/
theorem Expr.line_mem (e : Expr) (h : e.isBad = false) : e.line ∈ e.lines := by
  cases e <;> first | (simp [Expr.isBad] at h; done) | simp [Expr.line, Expr.tok, Expr.lines]

theorem mem_linesP (x : Nat) : ∀ ps : List (Bytes × Expr), x ∈ Expr.linesP ps ↔ ∃ p ∈ ps, x ∈ p.2.lines
  | [] => by simp [Expr.linesP]
  | (k, e) :: r => by simp [Expr.linesP, mem_linesP x r]

/-- an error of the result carries one of the lines -/
def EL {α} (r : Res α) (L : List Nat) : Prop := ∀ code line args, r = .err code line args → line ∈ L

theorem EL.mono {α} {r : Res α} {L M : List Nat} (h : EL r L) (hs : ∀ x ∈ L, x ∈ M) : EL r M :=
  fun c l a e => hs l (h c l a e)

theorem EL.ok {α} (a : α) (L : List Nat) : EL (Res.ok a) L := fun _ _ _ h => by cases h
theorem EL.oof {α} (L : List Nat) : EL (Res.oof : Res α) L := fun _ _ _ h => by cases h
theorem EL.panic {α} (w : String) (L : List Nat) : EL (Res.panic w : Res α) L := fun _ _ _ h => by cases h
theorem EL.err {α} (c : String) (l : Nat) (a : List Bytes) (L : List Nat) (h : l ∈ L) : EL (Res.err c l a : Res α) L :=
  fun _ _ _ e => by cases e; exact h

theorem el_intInfix (op : Bytes) (l r : Int64) (line : Nat) : EL (intInfix op l r line) [line] := by
  unfold intInfix
  repeat' split
  all_goals first | exact EL.ok _ _ | exact EL.err _ _ _ _ (by simp)

theorem el_floatInfix (op : Bytes) (l r : Float) (line : Nat) : EL (floatInfix op l r line) [line] := by
  unfold floatInfix
  repeat' split
  all_goals first | exact EL.ok _ _ | exact EL.err _ _ _ _ (by simp)

theorem el_strInfix (op : Bytes) (l r : Bytes) (line : Nat) : EL (strInfix op l r line) [line] := by
  unfold strInfix
  repeat' split
  all_goals first | exact EL.ok _ _ | exact EL.err _ _ _ _ (by simp)

theorem el_infixOp (op : Bytes) (l r : Val) (line : Nat) : EL (infixOp op l r line) [line] := by
  unfold infixOp
  split
  · exact EL.err _ _ _ _ (by simp)
  · split
    · exact el_intInfix _ _ _ _
    · exact el_floatInfix _ _ _ _
    · exact el_strInfix _ _ _ _
    · exact EL.err _ _ _ _ (by simp)

theorem el_prefixOp (op : Bytes) (r : Val) (line : Nat) : EL (prefixOp op r line) [line] := by
  unfold prefixOp
  repeat' split
  all_goals first | exact EL.ok _ _ | exact EL.err _ _ _ _ (by simp)

theorem el_postfixOp (op : Bytes) (l : Val) (line : Nat) : EL (postfixOp op l line) [line] := by
  unfold postfixOp
  repeat' split
  all_goals first | exact EL.ok _ _ | exact EL.err _ _ _ _ (by simp)

theorem el_objIndex (kvs : List (Bytes × Val)) (idx : Bytes) (line : Nat) : EL (objIndex kvs idx line) [line] := by
  unfold objIndex
  repeat' split
  all_goals first | exact EL.ok _ _ | exact EL.err _ _ _ _ (by simp)

theorem EL.single {α} {r : Res α} {x : Nat} {L : List Nat} (h : EL r [x]) (hx : x ∈ L) : EL r L :=
  h.mono (fun y hy => by simp at hy; rw [hy]; exact hx)

/-- **expression errors name a token of the expression**, for expressions the parser can produce
    (no `bad` node at the operand positions whose line is used) -/
theorem el_expr : ∀ fuel : Nat,
    (∀ c env e, EL (evalExpr fuel c env e) e.lines) ∧
    (∀ c env es, EL (evalExprs fuel c env es) (Expr.linesL es)) ∧
    (∀ c env ps, EL (evalPairs fuel c env ps) (Expr.linesP ps)) := by
  intro fuel
  induction fuel with
  | zero => exact ⟨fun _ _ _ => EL.oof _, fun _ _ _ => EL.oof _, fun _ _ _ => EL.oof _⟩
  | succ n ih =>
    obtain ⟨ihE, ihL, ihP⟩ := ih
    refine ⟨?_, ?_, ?_⟩
    · intro c env e
      cases e with
      | bad => exact EL.panic _ _
      | ident t name =>
        simp only [evalExpr]
        split
        · exact EL.ok _ _
        · exact EL.err _ _ _ _ (by simp [Expr.lines])
      | int t v => exact EL.ok _ _
      | float t v => exact EL.ok _ _
      | str t v => exact EL.ok _ _
      | nil t => exact EL.ok _ _
      | bool t v => exact EL.ok _ _
      | arr t elems =>
        rw [evalExpr_arr]
        have := ihL c env elems
        cases h : evalExprs n c env elems with
        | ok vs => exact EL.ok _ _
        | err a l as => rw [h] at this; exact EL.err _ _ _ _ (by simp [Expr.lines, this a l as rfl])
        | panic w => exact EL.panic _ _
        | oof => exact EL.oof _
      | obj t pairs =>
        rw [evalExpr_obj]
        have := ihP c env (sortByKey pairs)
        cases h : evalPairs n c env (sortByKey pairs) with
        | ok vs => exact EL.ok _ _
        | err a l as =>
          rw [h] at this
          have hm := this a l as rfl
          rw [mem_linesP] at hm
          obtain ⟨p, hp, hl⟩ := hm
          have hp' : p ∈ pairs := (sortByKey_perm pairs).subset hp
          exact EL.err _ _ _ _ (by simp only [Expr.lines, List.mem_cons]; right; rw [mem_linesP]; exact ⟨p, hp', hl⟩)
        | panic w => exact EL.panic _ _
        | oof => exact EL.oof _
      | pre t op r =>
        rw [evalExpr_pre]
        have := ihE c env r
        cases h : evalExpr n c env r with
        | ok v => exact (el_prefixOp _ _ _).single (by simp [Expr.lines])
        | err a l as => rw [h] at this; exact EL.err _ _ _ _ (by simp [Expr.lines, this a l as rfl])
        | panic w => exact EL.panic _ _
        | oof => exact EL.oof _
      | post t op l =>
        rw [evalExpr_post]
        have := ihE c env l
        cases h : evalExpr n c env l with
        | ok v => exact (el_postfixOp _ _ _).single (by simp [Expr.lines])
        | err a l as => rw [h] at this; exact EL.err _ _ _ _ (by simp [Expr.lines, this a l as rfl])
        | panic w => exact EL.panic _ _
        | oof => exact EL.oof _
      | dot t l key =>
        rw [evalExpr_dot]
        have := ihE c env l
        cases h : evalExpr n c env l with
        | ok v =>
          cases v <;> first
            | exact (el_objIndex _ _ _).single (by simp [Expr.lines])
            | exact EL.err _ _ _ _ (by simp [Expr.lines])
        | err a l as => rw [h] at this; exact EL.err _ _ _ _ (by simp [Expr.lines, this a l as rfl])
        | panic w => exact EL.panic _ _
        | oof => exact EL.oof _
      | tern t cnd a bb =>
        rw [evalExpr_tern]
        have := ihE c env cnd
        cases h : evalExpr n c env cnd with
        | ok v =>
          simp only []
          split
          · exact (ihE c env a).mono (fun x hx => by simp [Expr.lines, hx])
          · exact (ihE c env bb).mono (fun x hx => by simp [Expr.lines, hx])
        | err a l as => rw [h] at this; exact EL.err _ _ _ _ (by simp [Expr.lines, this a l as rfl])
        | panic w => exact EL.panic _ _
        | oof => exact EL.oof _
      | inf t op l r =>
        rw [evalExpr_inf]
        have h1 := ihE c env l
        cases hl : evalExpr n c env l with
        | ok lv =>
          simp only []
          have h2 := ihE c env r
          cases hr : evalExpr n c env r with
          | ok rv =>
            -- the line is the one of the left operand's token: a value came out of it, so it is no `bad` node
            have hb : l.isBad = false := by
              cases l <;> first | rfl | (cases n <;> simp [evalExpr] at hl)
            exact (el_infixOp _ _ _ _).single (by simp [Expr.lines, Expr.line_mem l hb])
          | err a l as => rw [hr] at h2; exact EL.err _ _ _ _ (by simp [Expr.lines, h2 a l as rfl])
          | panic w => exact EL.panic _ _
          | oof => exact EL.oof _
        | err a l as => rw [hl] at h1; exact EL.err _ _ _ _ (by simp [Expr.lines, h1 a l as rfl])
        | panic w => exact EL.panic _ _
        | oof => exact EL.oof _
      | index t l i =>
        rw [evalExpr_index]
        have h1 := ihE c env l
        cases hl : evalExpr n c env l with
        | ok lv =>
          simp only []
          have h2 := ihE c env i
          cases hr : evalExpr n c env i with
          | ok iv =>
            simp only []
            have hb : i.isBad = false := by
              cases i <;> first | rfl | (cases n <;> simp [evalExpr] at hr)
            split
            · exact EL.ok _ _
            · exact (el_objIndex _ _ _).single (by simp [Expr.lines, Expr.line_mem i hb])
            · exact EL.err _ _ _ _ (by simp [Expr.lines])
          | err a l as => rw [hr] at h2; exact EL.err _ _ _ _ (by simp [Expr.lines, h2 a l as rfl])
          | panic w => exact EL.panic _ _
          | oof => exact EL.oof _
        | err a l as => rw [hl] at h1; exact EL.err _ _ _ _ (by simp [Expr.lines, h1 a l as rfl])
        | panic w => exact EL.panic _ _
        | oof => exact EL.oof _
      | call t recv fn args =>
        rw [evalExpr_call]
        have h1 := ihE c env recv
        cases hl : evalExpr n c env recv with
        | ok rv =>
          simp only []
          split
          · exact EL.err _ _ _ _ (by simp [Expr.lines])
          · have h2 := ihL c env args
            cases hr : evalExprs n c env args with
            | ok avs =>
              simp only []
              split
              · exact EL.ok _ _
              · exact EL.err _ _ _ _ (by simp [Expr.lines])
              · split
                · exact EL.ok _ _
                · exact EL.err _ _ _ _ (by simp [Expr.lines])
            | err a l as => rw [hr] at h2; exact EL.err _ _ _ _ (by simp [Expr.lines, h2 a l as rfl])
            | panic w => exact EL.panic _ _
            | oof => exact EL.oof _
        | err a l as => rw [hl] at h1; exact EL.err _ _ _ _ (by simp [Expr.lines, h1 a l as rfl])
        | panic w => exact EL.panic _ _
        | oof => exact EL.oof _
    · intro c env es
      cases es with
      | nil => exact EL.ok _ _
      | cons e r =>
        rw [evalExprs_cons]
        have h1 := ihE c env e
        cases he : evalExpr n c env e with
        | ok v =>
          simp only []
          have h2 := ihL c env r
          cases hr : evalExprs n c env r with
          | ok vs => exact EL.ok _ _
          | err a l as => rw [hr] at h2; exact EL.err _ _ _ _ (by simp [Expr.linesL, h2 a l as rfl])
          | panic w => exact EL.panic _ _
          | oof => exact EL.oof _
        | err a l as => rw [he] at h1; exact EL.err _ _ _ _ (by simp [Expr.linesL, h1 a l as rfl])
        | panic w => exact EL.panic _ _
        | oof => exact EL.oof _
    · intro c env ps
      cases ps with
      | nil => exact EL.ok _ _
      | cons p r =>
        obtain ⟨k, e⟩ := p
        rw [evalPairs_cons]
        have h1 := ihE c env e
        cases he : evalExpr n c env e with
        | ok v =>
          simp only []
          have h2 := ihP c env r
          cases hr : evalPairs n c env r with
          | ok vs => exact EL.ok _ _
          | err a l as => rw [hr] at h2; exact EL.err _ _ _ _ (by simp [Expr.linesP, h2 a l as rfl])
          | panic w => exact EL.panic _ _
          | oof => exact EL.oof _
        | err a l as => rw [he] at h1; exact EL.err _ _ _ _ (by simp [Expr.linesP, h1 a l as rfl])
        | panic w => exact EL.panic _ _
        | oof => exact EL.oof _

end Tw
