/-
  TwProofs.Lemmas.TextDot — `{{ name.field }}` from the source bytes to the output: lexer, parser
  and evaluator composed (C12: a field of a value of the data, under its own name or with its first
  letter in lower case).
-/
import TwProofs.Lemmas.LexAssign
import TwProofs.Lemmas.TextEach
namespace Tw
open Lx

theorem codeStepDesc_dot (s : Lx) (x : Bytes) (hr : s.rest = 46 :: x) :
    codeStepDesc s = { st := s, n := 1, ty := .DOT, lit := [46] } := by
  have hc : s.char = 46 := by simp [Lx.char, hr]
  unfold codeStepDesc
  rw [if_neg (by rw [hc]; simp)]
  unfold codeDesc
  rw [hc]
  have : simpleToken 46 = some .DOT := by decide
  simp only [this]

/-- "." in code -/
theorem code_dot_step (s : Lx) (x : Bytes) (hh : s.isHTML = false) (hr : s.rest = 46 :: x) :
    ∃ t s1, nextStep s = (.tok t, s1) ∧ key t = (.DOT, [46]) ∧ t.ty ≠ .EOF ∧ After s s1 x 46 := by
  have hr' : s.rest = [] ++ (46 :: x) := by rw [hr]; rfl
  obtain ⟨j1, j2⟩ := skipWs_code s hh [] _ (fun _ h => by cases h) hr' (by simp only [List.headD_cons]; decide)
  have hd4 := codeStepDesc_dot (skipWs s) x j1
  have st4 := stepAt_code (skipWs s) (by rw [mode_html j2]; exact hh) (by rw [j1]; simp) (by simp [Lx.char, j1])
  obtain ⟨z1, z2, z3⟩ := emit_after (codeStepDesc (skipWs s)) [46] x (by simp) (by rw [hd4]; simpa using j1) (by rw [hd4]; rfl)
  refine ⟨(codeStepDesc (skipWs s)).emit.1, (codeStepDesc (skipWs s)).emit.2, by unfold nextStep; exact st4, ?_, ?_, ⟨z1, ?_, by rw [z3]; rfl⟩⟩
  · unfold TokDesc.emit; rw [emit_key, hd4]
  · unfold TokDesc.emit; rw [emit_ty, hd4]; exact fun h => by cases h
  · rw [z2, hd4, j2]

/-- `{{ g1 k . f g2 }}` -/
def dotSrc (g1 k f g2 : Bytes) : Bytes := [123, 123] ++ g1 ++ k ++ [46] ++ f ++ g2 ++ [125, 125]

def dotKeys (k f : Bytes) : List (TT × Bytes) :=
  [(.LBRACES, [123, 123]), (.IDENT, k), (.DOT, [46]), (.IDENT, f), (.RBRACES, [125, 125])]

theorem lex_dot (s : Lx) (g1 k f g2 tl : Bytes) (hh : s.isHTML = true) (hb : s.braces = 0) (hg1 : allWs g1) (hg2 : allWs g2)
    (hk : isName k) (hf : isName f) (hr : s.rest = dotSrc g1 k f g2 ++ tl) :
    ∃ toks s5, Run s toks s5 ∧ toks.map key = dotKeys k f ∧ s5.rest = tl ∧ s5.prev = 125 ∧
      mode s5 = (true, s.isDirective, s.parens, 0, s.panicked) := by
  obtain ⟨⟨c, cv, hcv, hc⟩, hall, hkw⟩ := hk
  have hkn : isName k := ⟨⟨c, cv, hcv, hc⟩, hall, hkw⟩
  obtain ⟨⟨d, dv, hdv, hd⟩, hfall, hfkw⟩ := hf
  have hfn : isName f := ⟨⟨d, dv, hdv, hd⟩, hfall, hfkw⟩
  have hnot := identCh_not_special hc
  have hr' : s.rest = 123 :: 123 :: (g1 ++ (k ++ (46 :: ([] ++ (f ++ (g2 ++ (125 :: 125 :: tl))))))) := by
    rw [hr]; simp [dotSrc, List.append_assoc]
  have hx1 : (g1 ++ (k ++ (46 :: ([] ++ (f ++ (g2 ++ (125 :: 125 :: tl))))))).headD 0 ≠ 45 := by
    cases g1 with
    | nil => simp only [List.nil_append, hcv, List.cons_append, List.headD_cons]; exact hnot.2.2.2.2.2.2.2.2.2.2.1
    | cons w t =>
      have hw : isWs w = true := hg1 w List.mem_cons_self
      simp only [List.cons_append, List.headD_cons]
      intro e; rw [e] at hw; cases hw
  obtain ⟨t1, s1, st1, k1, ne1, r1, _, m1⟩ := lex_open s _ hh hr' hx1
  obtain ⟨a1, a2, a3, a4, a5⟩ := mode_fields m1
  obtain ⟨t2, s2, st2, k2, ne2, b2⟩ := code_word_step s1 g1 k _ a1 hg1 (isName_word hkn) r1 (by simp only [List.headD_cons]; decide)
  have h2 : s2.isHTML = false := by rw [mode_html b2.md]; exact a1
  obtain ⟨t3, s3, st3, k3, ne3, b3⟩ := code_dot_step s2 _ h2 b2.rest
  have h3 : s3.isHTML = false := by rw [mode_html b3.md]; exact h2
  have hx4 : (isIdentCh ((g2 ++ (125 :: 125 :: tl)).headD 0) || isNumberCh ((g2 ++ (125 :: 125 :: tl)).headD 0)) = false := by
    cases g2 with
    | nil => simp only [List.nil_append, List.headD_cons]; decide
    | cons w t =>
      have hw : isWs w = true := hg2 w List.mem_cons_self
      simp only [List.cons_append, List.headD_cons]
      rw [ws_not_ident hw, ws_not_number hw]; rfl
  obtain ⟨t4, s4, st4, k4, ne4, b4⟩ := code_word_step s3 [] f _ h3 (fun _ h => by cases h) (isName_word hfn) b3.rest hx4
  have h4 : s4.isHTML = false := by rw [mode_html b4.md]; exact h3
  have br4 : s4.braces = 0 := by rw [mode_braces b4.md, mode_braces b3.md, mode_braces b2.md, a4]; exact hb
  obtain ⟨t5, s5, st5, k5, ne5, r5, pv5, m5⟩ := code_close_step s4 g2 tl h4 br4 hg2 b4.rest
  refine ⟨[t1, t2, t3, t4, t5], s5, ?_, ?_, r5, pv5, ?_⟩
  · exact Run.cons _ _ _ _ _ st1 ne1 (Run.cons _ _ _ _ _ st2 ne2 (Run.cons _ _ _ _ _ st3 ne3 (Run.cons _ _ _ _ _ st4 ne4
      (Run.cons _ _ _ _ _ st5 ne5 (Run.nil _)))))
  · have hk2 : key t2 = (.IDENT, k) := by rw [k2, hkw]
    have hk4 : key t4 = (.IDENT, f) := by rw [k4, hfkw]
    simp [dotKeys, k1, hk2, k3, hk4, k5]
  · rw [m5, mode_dir b4.md, mode_dir b3.md, mode_dir b2.md, a2, mode_parens b4.md, mode_parens b3.md, mode_parens b2.md, a3,
      mode_pan b4.md, mode_pan b3.md, mode_pan b2.md, a5]

def dotCode (g1 k f g2 : Bytes) : Code := { src := dotSrc g1 k f g2, keys := dotKeys k f }

theorem dotCode_ok (g1 k f g2 : Bytes) (hg1 : allWs g1) (hg2 : allWs g2) (hk : isName k) (hf : isName f) : (dotCode g1 k f g2).OK := by
  refine ⟨?_, ?_, ?_⟩
  · intro tl
    exact Or.inr (Or.inl ⟨g1 ++ k ++ [46] ++ f ++ g2 ++ [125, 125] ++ tl, by simp [dotCode, dotSrc, List.append_assoc]⟩)
  · obtain ⟨⟨c, cv, hcv, _⟩, _, _⟩ := hk
    obtain ⟨⟨d, dv, hdv, _⟩, _, _⟩ := hf
    simp [dotCode, dotSrc, dotKeys, hcv, hdv]; omega
  · intro s tl hr hh hb hpa hd _
    obtain ⟨toks, s5, run, hkeys, r5, pv5, m5⟩ := lex_dot s g1 k f g2 tl hh hb hg1 hg2 hk hf hr
    obtain ⟨f1, f2, f3, f4, f5⟩ := mode_fields m5
    exact ⟨toks, s5, run, hkeys, r5, f1, f4, by rw [f3]; exact hpa, by rw [f2]; exact hd, f5, by rw [pv5]; decide⟩

/-- `{{ k.f }}` as a statement -/
theorem parse_dot_stmt (g : Nat) (t1 t2 t3 t4 t5 : Token) (tail : List Token) (h1 : t1.ty = .LBRACES) (h2 : t2.ty = .IDENT) (h3 : t3.ty = .DOT)
    (h4 : t4.ty = .IDENT) (h5 : t5.ty = .RBRACES) (hclean : ∀ x ∈ tail, x.ty ≠ .ILLEGAL) :
    parseStatement (g + 4) ({ toks := t1 :: t2 :: t3 :: t4 :: t5 :: tail } : PS) =
      (.expr t4 (.dot t3 (.ident t2 t2.lit) t4.lit), { toks := t5 :: tail }) := by
  have c5 := noill_cons (t := t5) (by rw [h5]; decide) hclean
  have c4 := noill_cons (t := t4) (by rw [h4]; decide) c5
  have c3 := noill_cons (t := t3) (by rw [h3]; decide) c4
  have c2 := noill_cons (t := t2) (by rw [h2]; decide) c3
  have nx1 : ({ toks := t1 :: t2 :: t3 :: t4 :: t5 :: tail } : PS).next = { toks := t2 :: t3 :: t4 :: t5 :: tail } := ps_next_clean t1 t2 _ c2
  have nx2 : ({ toks := t2 :: t3 :: t4 :: t5 :: tail } : PS).next = { toks := t3 :: t4 :: t5 :: tail } := ps_next_clean t2 t3 _ c3
  have nx3 : ({ toks := t3 :: t4 :: t5 :: tail } : PS).next = { toks := t4 :: t5 :: tail } := ps_next_clean t3 t4 _ c4
  have nx4 : ({ toks := t4 :: t5 :: tail } : PS).next = { toks := t5 :: tail } := ps_next_clean t4 t5 _ c5
  have hex : parseExpression (g + 3) LOWEST ({ toks := t2 :: t3 :: t4 :: t5 :: tail } : PS) =
      (.dot t3 (.ident t2 t2.lit) t4.lit, { toks := t4 :: t5 :: tail }) := by
    rw [parseExpression_succ]
    have hp : prefixBody (parseExpression (g + 2)) (parseExprList (g + 2)) (parseObjLoop (g + 2))
        ({ toks := t2 :: t3 :: t4 :: t5 :: tail } : PS) = some (.ident t2 t2.lit, { toks := t2 :: t3 :: t4 :: t5 :: tail }) := by
      unfold prefixBody
      simp [PS.cur, h2]
    rw [hp]
    simp only []
    rw [prattLoop_succ]
    have e1 : ({ toks := t2 :: t3 :: t4 :: t5 :: tail } : PS).peekIs .RBRACES = false := by simp [PS.peekIs, PS.peek, h3]
    have e2 : ({ toks := t2 :: t3 :: t4 :: t5 :: tail } : PS).peekIs .SEMI = false := by simp [PS.peekIs, PS.peek, h3]
    have e3 : ({ toks := t2 :: t3 :: t4 :: t5 :: tail } : PS).peekIs .RPAREN = false := by simp [PS.peekIs, PS.peek, h3]
    have e4 : ({ toks := t2 :: t3 :: t4 :: t5 :: tail } : PS).peekPrecedence = MEMBER_ACCESS := by simp [PS.peekPrecedence, PS.peek, h3, precedence]
    have e5 : ({ toks := t2 :: t3 :: t4 :: t5 :: tail } : PS).peek.ty = .DOT := by simp [PS.peek, h3]
    simp only [e1, e2, e3, e4, e5, Bool.or_self, Bool.false_or, show (!decide (LOWEST < MEMBER_ACCESS)) = false from by decide,
      Bool.false_eq_true, if_false, show (!hasInfix .DOT) = false from by decide, nx2]
    -- the infix function on "."
    have hinf : infixBody (parseExpression (g + 1)) (parseExprList (g + 1)) (.ident t2 t2.lit) ({ toks := t3 :: t4 :: t5 :: tail } : PS) =
        (.dot t3 (.ident t2 t2.lit) t4.lit, { toks := t4 :: t5 :: tail }) := by
      unfold infixBody
      have c0 : ({ toks := t3 :: t4 :: t5 :: tail } : PS).cur = t3 := rfl
      simp only [c0, h3, show isBinaryOp .DOT = false from by decide, Bool.false_eq_true, if_false,
        show (TT.DOT == TT.QUESTION) = false from by decide, show (TT.DOT == TT.LBRACKET) = false from by decide,
        show (TT.DOT == TT.INC || TT.DOT == TT.DEC) = false from by decide]
      have ep := expectPeek_ok ({ toks := t3 :: t4 :: t5 :: tail } : PS) .IDENT (by simp [PS.peekIs, PS.peek, h4])
      rw [ep, nx3]
      have pk : ({ toks := t4 :: t5 :: tail } : PS).peekIs .LPAREN = false := by simp [PS.peekIs, PS.peek, h5]
      simp [pk, PS.cur]
    rw [hinf]
    simp only []
    rw [prattLoop_succ]
    have : ({ toks := t4 :: t5 :: tail } : PS).peekIs .RBRACES = true := by simp [PS.peekIs, PS.peek, h5]
    simp [this]
  show statementBody (parseExpression (g + 3)) (parseExprList (g + 3)) (parseBody (g + 3)) (parseIfTail (g + 3)) (parseSlots (g + 3))
    ({ toks := t1 :: t2 :: t3 :: t4 :: t5 :: tail } : PS) = _
  have hc : ({ toks := t1 :: t2 :: t3 :: t4 :: t5 :: tail } : PS).cur.ty = .LBRACES := by simp [PS.cur, h1]
  unfold statementBody
  simp only [hc]
  unfold parseEmbeddedCode
  simp only [nx1]
  have c1 : ({ toks := t2 :: t3 :: t4 :: t5 :: tail } : PS).curIs .RBRACES = false := by simp [PS.curIs, PS.cur, h2]
  have c2' : ({ toks := t2 :: t3 :: t4 :: t5 :: tail } : PS).peekIs .ASSIGN = false := by simp [PS.peekIs, PS.peek, h3]
  have c3' : ({ toks := t4 :: t5 :: tail } : PS).peekIs .RBRACES = true := by simp [PS.peekIs, PS.peek, h5]
  simp only [c1, c2', Bool.and_false, Bool.false_eq_true, if_false, hex, c3', if_true, nx4]
  simp [PS.cur]

/-- **`{{ k.f }}`, parsed** -/
theorem parse_dot_source (g1 k f g2 : Bytes) (hg1 : allWs g1) (hg2 : allWs g2) (hk : isName k) (hf : isName f) :
    ∃ prog t2 t3 t4, parseSource (dotSrc g1 k f g2) = .ok prog ∧ prog.stmts = [.expr t4 (.dot t3 (.ident t2 k) f)] := by
  have hok : GItemsOK [.code (dotCode g1 k f g2)] := ⟨dotCode_ok g1 k f g2 hg1 hg2 hk hf, trivial⟩
  obtain ⟨toks, e, htok, hkeys, he⟩ := tokenize_gitems _ hok
  have hsrc : gsrc [.code (dotCode g1 k f g2)] = dotSrc g1 k f g2 := by simp [gsrc, GItem.src, dotCode]
  rw [hsrc] at htok
  have hk' : toks.map key = dotKeys k f := by simpa [gkeys, dotCode] using hkeys
  match toks, hk' with
  | [], hk' => simp [dotKeys] at hk'
  | [_], hk' => simp [dotKeys] at hk'
  | [_, _], hk' => simp [dotKeys] at hk'
  | [_, _, _], hk' => simp [dotKeys] at hk'
  | [_, _, _, _], hk' => simp [dotKeys] at hk'
  | _ :: _ :: _ :: _ :: _ :: _ :: _, hk' => simp [dotKeys] at hk'
  | [t1, t2, t3, t4, t5], hk' =>
    simp only [dotKeys, List.map_cons, List.map_nil, List.cons.injEq, and_true] at hk'
    obtain ⟨hk1, hk2, hk3, hk4, hk5⟩ := hk'
    have ty1 : t1.ty = .LBRACES := congrArg Prod.fst hk1
    have ty2 : t2.ty = .IDENT := congrArg Prod.fst hk2
    have lit2 : t2.lit = k := congrArg Prod.snd hk2
    have ty3 : t3.ty = .DOT := congrArg Prod.fst hk3
    have ty4 : t4.ty = .IDENT := congrArg Prod.fst hk4
    have lit4 : t4.lit = f := congrArg Prod.snd hk4
    have ty5 : t5.ty = .RBRACES := congrArg Prod.fst hk5
    have hce : ∀ x ∈ [e], x.ty ≠ .ILLEGAL := by intro x hx; simp at hx; rw [hx, he]; decide
    have hcl : ∀ x ∈ [t1, t2, t3, t4, t5] ++ [e], x.ty ≠ .ILLEGAL :=
      noill_cons (by rw [ty1]; decide) (noill_cons (by rw [ty2]; decide) (noill_cons (by rw [ty3]; decide)
        (noill_cons (by rw [ty4]; decide) (noill_cons (by rw [ty5]; decide) hce))))
    refine ⟨{ tok := t1, stmts := [.expr t4 (.dot t3 (.ident t2 k) f)] }, t2, t3, t4, ?_, rfl⟩
    unfold parseSource
    rw [htok]
    simp only [Bool.false_eq_true, if_false]
    rw [initParser_clean _ hcl]
    have hfuel : parseFuel ([t1, t2, t3, t4, t5] ++ [e]) = 34 + 6 := by simp [parseFuel]
    rw [hfuel]
    have hst := parse_dot_stmt 35 t1 t2 t3 t4 t5 [e] ty1 ty2 ty3 ty4 ty5 hce
    have hloop : parseProgramLoop (34 + 6) [] ({ toks := [t1, t2, t3, t4, t5] ++ [e] } : PS) =
        (some [.expr t4 (.dot t3 (.ident t2 t2.lit) t4.lit)], { toks := [e] }) := by
      rw [show 34 + 6 = 39 + 1 from rfl, parseProgramLoop]
      have c0 : ({ toks := [t1, t2, t3, t4, t5] ++ [e] } : PS).curIs .EOF = false := by simp [PS.curIs, PS.cur, ty1]
      simp only [c0, Bool.false_eq_true, if_false]
      simp only [List.cons_append, List.nil_append] at hst ⊢
      rw [show 39 = 35 + 4 from rfl, hst]
      have i5 : ({ toks := [t5, e] } : PS).curIs .ILLEGAL = false := by simp [PS.curIs, PS.cur, ty5]
      simp only [i5, Bool.false_eq_true, if_false, Stmt.isBad]
      have nx : ({ toks := [t5, e] } : PS).next = { toks := [e] } := ps_next_clean t5 e [] hce
      rw [nx, show 35 + 4 = 38 + 1 from rfl, parseProgramLoop]
      have ce : ({ toks := [e] } : PS).curIs .EOF = true := by simp [PS.curIs, PS.cur, he]
      simp [ce]
    rw [hloop]
    simp [finishParse, PS.cur, lit2, lit4]

end Tw
