/-
  TwProofs.Lemmas.LexSim — what the lexer does next depends on the remaining bytes, the previous
  byte and the mode flags only: two lexer states that agree on those produce tokens of the same
  kinds and literals (positions aside) and stay in agreement (C01, C19).
-/
import TwProofs.Lemmas.LexProgress
namespace Tw
open Lx

/-- kind and literal of a token: everything but its position -/
def key (t : Token) : TT × Bytes := (t.ty, t.lit)

/-- the two states agree on everything the lexer's decisions read -/
structure Sim (a c : Lx) : Prop where
  rest : a.rest = c.rest
  prev : a.prev = c.prev
  html : a.isHTML = c.isHTML
  dir : a.isDirective = c.isDirective
  parens : a.parens = c.parens
  braces : a.braces = c.braces
  pan : a.panicked = c.panicked

theorem Sim.refl (s : Lx) : Sim s s := ⟨rfl, rfl, rfl, rfl, rfl, rfl, rfl⟩

theorem Sim.char {a c : Lx} (h : Sim a c) : a.char = c.char := by simp [Lx.char, h.rest]
theorem Sim.peek {a c : Lx} (h : Sim a c) : a.peek = c.peek := by simp [Lx.peek, h.rest]
theorem Sim.isEOF {a c : Lx} (h : Sim a c) : a.isEOF = c.isEOF := by simp [Lx.isEOF, h.rest]

/-- the byte before the current one after `n` reads -/
theorem advance_prev_byte (n : Nat) (s : Lx) : (advance s n).prev = ((s.rest.take n).reverse ++ s.pre).headD 0 := by
  rw [Lx.prev, (advance_pre_rest n s).1]

theorem Sim.advance {a c : Lx} (h : Sim a c) (n : Nat) : Sim (advance a n) (advance c n) := by
  obtain ⟨_, _, a3, a4, a5, a6, a7⟩ := advance_frame n a
  obtain ⟨_, _, c3, c4, c5, c6, c7⟩ := advance_frame n c
  refine ⟨?_, ?_, ?_, ?_, ?_, ?_, ?_⟩
  · rw [(advance_pre_rest n a).2, (advance_pre_rest n c).2, h.rest]
  · rw [advance_prev_byte, advance_prev_byte, h.rest]
    cases hr : (c.rest.take n).reverse with
    | nil => simpa [Lx.prev] using h.prev
    | cons x r => simp
  · rw [a3, c3, h.html]
  · rw [a4, c4, h.dir]
  · rw [a5, c5, h.parens]
  · rw [a6, c6, h.braces]
  · rw [a7, c7, h.pan]

theorem Sim.tokenBegins {a c : Lx} (h : Sim a c) : Sim a.tokenBegins c.tokenBegins :=
  ⟨h.rest, h.prev, h.html, h.dir, h.parens, h.braces, h.pan⟩

/-- two descriptions that agree -/
structure DSim (d e : TokDesc) : Prop where
  st : Sim d.st e.st
  n : d.n = e.n
  ty : d.ty = e.ty
  lit : d.lit = e.lit

theorem emit_key (s : Lx) (n : Nat) (ty : TT) (lit : Bytes) : key (emit s n ty lit).1 = (ty, lit) := by
  simp only [emit, key, newToken]; split <;> rfl

theorem emit_sim {a c : Lx} (h : Sim a c) (n : Nat) (ty : TT) (lit : Bytes) :
    key (emit a n ty lit).1 = key (emit c n ty lit).1 ∧ Sim (emit a n ty lit).2 (emit c n ty lit).2 := by
  refine ⟨by rw [emit_key, emit_key], ?_⟩
  exact h.tokenBegins.advance n

theorem DSim.emit {d e : TokDesc} (h : DSim d e) : key d.emit.1 = key e.emit.1 ∧ Sim d.emit.2 e.emit.2 := by
  unfold TokDesc.emit
  rw [h.n, h.ty, h.lit]
  exact emit_sim h.st _ _ _

theorem illegalDesc_sim {a c : Lx} (h : Sim a c) : DSim (illegalDesc a) (illegalDesc c) :=
  ⟨h, rfl, rfl, by simp [illegalDesc, h.char]⟩

theorem wordDesc_sim {a c : Lx} (h : Sim a c) : DSim (wordDesc a) (wordDesc c) := by
  unfold wordDesc
  rw [h.char, h.rest]
  split
  · exact ⟨h, rfl, rfl, rfl⟩
  · split
    · exact ⟨h, rfl, rfl, rfl⟩
    · exact illegalDesc_sim h

theorem opDesc_sim {a c : Lx} (h : Sim a c) : DSim (opDesc a) (opDesc c) := by
  unfold opDesc
  rw [h.char, h.peek]
  repeat' split
  all_goals first | exact ⟨h, rfl, rfl, rfl⟩ | exact wordDesc_sim h

theorem strDesc_sim {a c : Lx} (h : Sim a c) : DSim (strDesc a) (strDesc c) := by
  unfold strDesc
  rw [h.char, h.rest]
  exact ⟨h, rfl, rfl, rfl⟩

macro "sim_fields " h:ident : tactic =>
  `(tactic| (refine ⟨?_, ?_, ?_, ?_, ?_, ?_, ?_⟩ <;>
      first | rfl | exact ($h).rest | exact ($h).prev | exact ($h).html | exact ($h).dir | exact ($h).parens | exact ($h).braces | exact ($h).pan))

theorem bracketDesc_sim {a c : Lx} (h : Sim a c) : DSim (bracketDesc a) (bracketDesc c) := by
  unfold bracketDesc
  rw [h.char, h.dir, h.parens, h.braces]
  split
  · exact ⟨by sim_fields h, rfl, rfl, rfl⟩
  split
  · exact ⟨by sim_fields h, rfl, rfl, rfl⟩
  split
  · refine ⟨?_, rfl, rfl, rfl⟩
    show Sim (if c.isDirective = true then _ else _) (if c.isDirective = true then _ else _)
    split
    · sim_fields h
    · exact h
  split
  · refine ⟨?_, rfl, rfl, rfl⟩
    show Sim (if _ then _ else if _ then _ else _) (if _ then _ else if _ then _ else _)
    split
    · sim_fields h
    · split
      · sim_fields h
      · exact h
  split
  · exact strDesc_sim h
  · exact opDesc_sim h

theorem codeDesc_sim {a c : Lx} (h : Sim a c) : DSim (codeDesc a) (codeDesc c) := by
  unfold codeDesc
  rw [h.char]
  split
  · exact ⟨h, rfl, rfl, rfl⟩
  · exact bracketDesc_sim h

theorem directiveDesc_sim {a c : Lx} (h : Sim a c) : DSim (directiveDesc a) (directiveDesc c) := by
  unfold directiveDesc
  rw [h.char, h.rest]
  split
  · exact illegalDesc_sim h
  · simp only []
    split
    · exact illegalDesc_sim (h.tokenBegins.advance _)
    · exact ⟨h, rfl, rfl, rfl⟩

theorem directiveToken_sim {a c : Lx} (h : Sim a c) :
    key (directiveToken a).1 = key (directiveToken c).1 ∧ Sim (directiveToken a).2 (directiveToken c).2 := by
  have hd := directiveDesc_sim h
  obtain ⟨hk, hs⟩ := hd.emit
  unfold directiveToken
  simp only []
  rw [hd.ty]
  split
  · exact ⟨hk, hs⟩
  · refine ⟨hk, ?_⟩
    rw [hs.char]
    exact ⟨hs.rest, hs.prev, rfl, rfl, hs.parens, hs.braces, hs.pan⟩

theorem htmlToken_sim {a c : Lx} (h : Sim a c) :
    key (htmlToken a).1 = key (htmlToken c).1 ∧ Sim (htmlToken a).2 (htmlToken c).2 := by
  unfold htmlToken
  simp only []
  rw [h.prev, h.rest]
  obtain ⟨hk, hs⟩ := emit_sim h (htmlScan c.prev [] 0 false c.rest).2.1 .HTML (htmlScan c.prev [] 0 false c.rest).1.reverse
  refine ⟨hk, ?_⟩
  exact ⟨hs.rest, hs.prev, hs.html, hs.dir, hs.parens, hs.braces, by simp [hs.pan]⟩

theorem bracesToken_sim {a c : Lx} (h : Sim a c) (ty : TT) (lit : Bytes) :
    key (bracesToken a ty lit).1 = key (bracesToken c ty lit).1 ∧ Sim (bracesToken a ty lit).2 (bracesToken c ty lit).2 := by
  unfold bracesToken
  have hs : Sim { a with isHTML := ty != TT.LBRACES } { c with isHTML := ty != TT.LBRACES } := by sim_fields h
  exact emit_sim hs _ _ _

theorem readChar_eq_advance (s : Lx) : readChar s = advance s 1 := rfl

theorem skipComment_sim {a c : Lx} (h : Sim a c) : Sim (skipComment a) (skipComment c) := by
  unfold skipComment
  simp only []
  have h1 : Sim a.readChar.readChar c.readChar.readChar := by
    simpa [readChar_eq_advance] using (h.advance 1).advance 1
  rw [h1.rest]
  have h2 := h1.advance (commentScan c.readChar.readChar.rest)
  rw [h2.isEOF]
  split
  · exact h2
  · have hs : Sim { a.readChar.readChar.advance (commentScan c.readChar.readChar.rest) with isHTML := true }
        { c.readChar.readChar.advance (commentScan c.readChar.readChar.rest) with isHTML := true } := by sim_fields h2
    exact hs.advance 4

theorem skipWs_sim {a c : Lx} (h : Sim a c) : Sim (skipWs a) (skipWs c) := by
  unfold skipWs
  rw [h.html, h.rest]
  split
  · exact h.advance _
  · exact h

/-- kind and literal of what a step returns -/
def stepKey : LexStep → Option (TT × Bytes)
  | .tok t => some (key t)
  | .again => none

theorem isDirectiveToken_sim {a c : Lx} (h : Sim a c) : isDirectiveToken a = isDirectiveToken c := by
  unfold isDirectiveToken
  rw [h.char, h.isEOF, h.rest, h.prev]

theorem stepAt_sim {a c : Lx} (h : Sim a c) :
    stepKey (stepAt a).1 = stepKey (stepAt c).1 ∧ Sim (stepAt a).2 (stepAt c).2 := by
  unfold stepAt
  rw [h.isEOF, h.char, h.peek, h.html, h.braces, isDirectiveToken_sim h]
  obtain ⟨bk, bs⟩ := bracesToken_sim h .LBRACES [123, 123]
  obtain ⟨rk, rs⟩ := bracesToken_sim h .RBRACES [125, 125]
  obtain ⟨dk, ds⟩ := directiveToken_sim h
  obtain ⟨hk, hs⟩ := htmlToken_sim h
  obtain ⟨ck, cs⟩ := (codeDesc_sim h).emit
  split
  · refine ⟨?_, h.tokenBegins⟩
    simp only [stepKey, key, newToken]; simp
  split
  · rw [bs.char, bs.peek]
    split
    · exact ⟨rfl, skipComment_sim bs⟩
    · exact ⟨by simp only [stepKey]; rw [bk], bs⟩
  split
  · exact ⟨by simp only [stepKey]; rw [rk], rs⟩
  split
  · exact ⟨by simp only [stepKey, embeddedCodeToken]; rw [ck], cs⟩
  split
  · exact ⟨by simp only [stepKey]; rw [dk], ds⟩
  · exact ⟨by simp only [stepKey]; rw [hk], hs⟩

theorem nextStep_sim {a c : Lx} (h : Sim a c) :
    stepKey (nextStep a).1 = stepKey (nextStep c).1 ∧ Sim (nextStep a).2 (nextStep c).2 :=
  stepAt_sim (skipWs_sim h)

theorem stepKey_tok {r : LexStep} {k : TT × Bytes} (h : stepKey r = some k) : ∃ t, r = .tok t ∧ key t = k := by
  cases r with
  | tok t => exact ⟨t, rfl, by simpa [stepKey] using h⟩
  | again => simp [stepKey] at h

/-- **the token kinds and literals depend on the remaining input, the previous byte and the mode
    only**: from two states in agreement the lexer returns lists of the same length with the same
    kinds and literals, and ends in states in agreement -/
theorem lexAll_sim : ∀ (fuel : Nat) (a c : Lx), Sim a c → ∀ ts sf, lexAll fuel a = some (ts, sf) →
    ∃ ts' sf', lexAll fuel c = some (ts', sf') ∧ ts'.map key = ts.map key ∧ Sim sf sf' := by
  intro fuel
  induction fuel with
  | zero => intro a c _ ts sf h; simp [lexAll] at h
  | succ f ih =>
    intro a c hs ts sf h
    obtain ⟨hk, hn⟩ := nextStep_sim hs
    rw [lexAll] at h ⊢
    cases ha : nextStep a with
    | mk ra a1 =>
      cases hc : nextStep c with
      | mk rc c1 =>
        rw [ha] at h hk hn; rw [hc] at hk hn
        simp only [] at h hk hn ⊢
        cases ra with
        | again =>
          cases rc with
          | again => exact ih a1 c1 hn ts sf h
          | tok t => simp [stepKey] at hk
        | tok t =>
          cases rc with
          | again => simp [stepKey] at hk
          | tok t' =>
            have hkk : key t = key t' := by simpa [stepKey] using hk
            have hty : t.ty = t'.ty := congrArg Prod.fst hkk
            simp only [] at h ⊢
            rw [← hty]
            by_cases he : t.ty == .EOF
            · simp only [he, if_true] at h ⊢
              cases h
              exact ⟨[t'], c1, rfl, by simp [hkk], hn⟩
            · simp only [he] at h ⊢
              cases hl : lexAll f a1 with
              | none => simp [hl] at h
              | some p =>
                obtain ⟨ts1, sf1⟩ := p
                simp [hl] at h
                obtain ⟨h1, h2⟩ := h
                obtain ⟨ts1', sf1', e1, e2, e3⟩ := ih a1 c1 hn ts1 sf1 hl
                refine ⟨t' :: ts1', sf1', by simp [e1], ?_, by rw [← h2]; exact e3⟩
                rw [← h1]; simp [e2, hkk]

end Tw
