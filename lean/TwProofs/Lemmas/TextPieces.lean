/-
  TwProofs.Lemmas.TextPieces — the lexer on text that contains a comment, an escaped "{{" or an
  escaped directive: step lemmas for one text token / one comment / the end of the input, and the
  token lists and renders built from them (C05).
-/
import TwProofs.Lemmas.PlainText
import TwProofs.Lemmas.LexNoPanic
namespace Tw
open Lx

/-- **one text token**: in text mode, when `readHTML` stops after the non-empty run `a`
    (nothing escaped inside it), the next token is HTML with literal `a`, the lexer stands right
    behind it, still in text mode -/
theorem nextStep_text (s : Lx) (a bd : Bytes) (hh : s.isHTML = true) (hr : s.rest = a ++ bd) (ha : a ≠ [])
    (hnb : (s.char == 123 && s.peek == 123) = false) (hnd : (isDirectiveToken s).1 = false)
    (hscan : htmlScan s.prev [] 0 false s.rest = (a.reverse, a.length, false)) :
    ∃ t s', nextStep s = (.tok t, s') ∧ t.ty = .HTML ∧ t.lit = a ∧ s'.rest = bd ∧ s'.isHTML = true ∧
      s'.panicked = s.panicked ∧ s'.pre = a.reverse ++ s.pre := by
  have hws : skipWs s = s := by simp [skipWs, hh]
  have hne : s.rest ≠ [] := by rw [hr]; simp [ha]
  have hstep : stepAt s = (.tok (htmlToken s).1, (htmlToken s).2) := by
    unfold stepAt
    rw [if_neg (by rw [isEOF_iff]; exact hne), if_neg (by rw [hnb]; simp),
      if_neg (by simp [hh]), if_neg (by simp [hh]), if_neg (by rw [hnd]; simp)]
  refine ⟨(htmlToken s).1, (htmlToken s).2, by unfold nextStep; rw [hws, hstep], ?_, ?_, ?_, ?_, ?_, ?_⟩
  · unfold htmlToken; simp [emit_ty]
  · unfold htmlToken; simp [emit_lit, hscan]
  · unfold htmlToken
    simp only [emit_rest, hscan]
    rw [hr]; simp
  · unfold htmlToken
    simp only [emit]
    rw [(advance_frame _ _).2.2.1]; exact hh
  · unfold htmlToken
    simp only [emit, hscan, Bool.or_false]
    rw [(advance_frame _ _).2.2.2.2.2.2]; rfl
  · unfold htmlToken
    simp only [emit, hscan]
    rw [(advance_pre_rest _ _).1]
    show (List.take a.length s.tokenBegins.rest).reverse ++ s.tokenBegins.pre = _
    rw [tokenBegins_rest, tokenBegins_pre, hr]; simp

/-- **a comment is skipped**: at "{{--" the lexer emits nothing and resumes, in text mode, right
    behind the first "--}}" -/
theorem nextStep_comment (s : Lx) (cm r : Bytes) (hh : s.isHTML = true)
    (hr : s.rest = [123, 123, 45, 45] ++ cm ++ [45, 45, 125, 125] ++ r)
    (hcm : commentScan (cm ++ [45, 45, 125, 125] ++ r) = cm.length) :
    ∃ s', nextStep s = (.again, s') ∧ s'.rest = r ∧ s'.isHTML = true ∧ s'.panicked = s.panicked ∧ s'.prev = 125 := by
  have hws : skipWs s = s := by simp [skipWs, hh]
  have hchar : s.char = 123 := by simp [Lx.char, hr]
  have hpeek : s.peek = 123 := by simp [Lx.peek, hr]
  -- after "{{"
  have hb_rest : (bracesToken s .LBRACES [123, 123]).2.rest = [45, 45] ++ cm ++ [45, 45, 125, 125] ++ r := by
    unfold bracesToken; rw [emit_rest]; simp [hr]
  have hb_char : (bracesToken s .LBRACES [123, 123]).2.char = 45 := by simp [Lx.char, hb_rest]
  have hb_peek : (bracesToken s .LBRACES [123, 123]).2.peek = 45 := by simp [Lx.peek, hb_rest]
  have hstep : stepAt s = (.again, skipComment (bracesToken s .LBRACES [123, 123]).2) := by
    unfold stepAt
    rw [if_neg (by rw [isEOF_iff, hr]; simp), if_pos (by simp [hchar, hpeek]), if_pos (by simp [hb_char, hb_peek])]
  refine ⟨_, by unfold nextStep; rw [hws, hstep], ?_⟩
  -- inside skipComment
  generalize hs1 : (bracesToken s .LBRACES [123, 123]).2 = s1 at hb_rest
  have hp1 : s1.panicked = s.panicked := by rw [← hs1]; exact lbraces_panicked s
  have h2rest : (readChar (readChar s1)).rest = cm ++ [45, 45, 125, 125] ++ r := by
    rw [readChar_eq_advance, readChar_eq_advance, advance_rest, advance_rest, hb_rest]; simp
  have h3rest : (advance (readChar (readChar s1)) (commentScan (readChar (readChar s1)).rest)).rest = [45, 45, 125, 125] ++ r := by
    rw [advance_rest, h2rest, hcm]; simp
  unfold skipComment
  simp only []
  rw [if_neg (by rw [isEOF_iff, h3rest]; simp)]
  refine ⟨?_, ?_, ?_, ?_⟩
  · rw [advance_rest]
    show List.drop 4 (advance _ _).rest = r
    rw [h3rest]; simp
  · rw [advance_isHTML]
  · rw [advance_panicked]
    show (advance _ _).panicked = _
    rw [advance_panicked, readChar_eq_advance, readChar_eq_advance, advance_panicked, advance_panicked, hp1]
  · have := advance_prev_split
      { advance (readChar (readChar s1)) (commentScan (readChar (readChar s1)).rest) with isHTML := true }
      [45, 45, 125] 125 r (by show (advance _ _).rest = _; rw [h3rest]; rfl)
    simpa using this

/-- at the end of the input the EOF token is produced and the state is kept -/
theorem nextStep_eof (s : Lx) (hh : s.isHTML = true) (hr : s.rest = []) :
    nextStep s = (.tok (s.tokenBegins.newToken .EOF []), s.tokenBegins) := by
  have hws : skipWs s = s := by simp [skipWs, hh]
  unfold nextStep
  rw [hws]
  unfold stepAt
  rw [if_pos (by rw [isEOF_iff]; exact hr)]

end Tw

namespace Tw
open Lx

/-- neither "{{" nor a directive keyword begins inside `a` when `tl` follows it -/
def PlainBefore : Bytes → Bytes → Prop
  | [], _ => True
  | c :: a, tl => ¬ (c = 123 ∧ (a ++ tl).headD 0 = 123) ∧ ¬ (c = 64 ∧ hasDirectivePrefix (c :: (a ++ tl)) = true) ∧ PlainBefore a tl

instance : (a tl : Bytes) → Decidable (PlainBefore a tl)
  | [], _ => isTrue trivial
  | c :: a, tl =>
    have : Decidable (PlainBefore a tl) := instDecidablePlainBefore a tl
    by unfold PlainBefore; exact inferInstance

theorem plainBefore_nil (a : Bytes) : PlainBefore a [] ↔ Plain a := by
  induction a with
  | nil => simp [PlainBefore, Plain]
  | cons c r ih => simp [PlainBefore, Plain, ih]

/-- `readHTML` copies such a run and goes on with what follows -/
theorem htmlScan_plainBefore (a tl : Bytes) : ∀ (prev : Byte) (out : Bytes) (n : Nat) (pan : Bool), PlainBefore a tl →
    htmlScan prev out n pan (a ++ tl) = htmlScan ((a.reverse ++ [prev]).headD 0) (a.reverse ++ out) (n + a.length) pan tl := by
  induction a with
  | nil => intro prev out n pan _; simp
  | cons c r ih =>
    intro prev out n pan h
    obtain ⟨h1, h2, h3⟩ := h
    have hb : (c == 123 && (r ++ tl).headD 0 == 123) = false := by
      cases hc : (c == 123 && (r ++ tl).headD 0 == 123) with
      | false => rfl
      | true => simp only [Bool.and_eq_true, beq_iff_eq] at hc; exact absurd hc h1
    have ha : (c == 64 && hasDirectivePrefix (c :: (r ++ tl))) = false := by
      cases hc : (c == 64 && hasDirectivePrefix (c :: (r ++ tl))) with
      | false => rfl
      | true => simp only [Bool.and_eq_true, beq_iff_eq] at hc; exact absurd hc h2
    simp only [List.cons_append, htmlScan, hb, ha, Bool.or_self, Bool.false_and, if_false]
    rw [ih c (c :: out) (n + 1) pan h3]
    have hprev : ((c :: r).reverse ++ [prev]).headD 0 = (r.reverse ++ [c]).headD 0 := by
      cases hr : r.reverse with
      | nil => simp [hr]
      | cons x xs => simp [hr]
    rw [hprev]
    simp [Nat.add_assoc, Nat.add_comm 1]

theorem htmlScan_stop_braces (prev : Byte) (out : Bytes) (n : Nat) (pan : Bool) (r : Bytes) (h : prev ≠ 92) :
    htmlScan prev out n pan (123 :: 123 :: r) = (out, n, pan) := by
  have : (prev == 92) = false := by simpa using h
  simp [htmlScan, this]

/-- the byte before the position right behind `a` -/
def lastOr (a : Bytes) (prev : Byte) : Byte := (a.reverse ++ [prev]).headD 0

/-- **text, comment, text**: the token list of `a {{-- cm --}} b` is the text `a`, the text `b`
    and EOF — the comment leaves no token -/
theorem tokenize_text_comment_text (a cm b : Bytes) (ha : a ≠ []) (hb : b ≠ [])
    (hpa : PlainBefore a ([123, 123, 45, 45] ++ cm ++ [45, 45, 125, 125] ++ b)) (hesc : lastOr a 0 ≠ 92) (hpb : Plain b)
    (hcm : commentScan (cm ++ [45, 45, 125, 125] ++ b) = cm.length) :
    ∃ t1 t2 e, tokenize (a ++ ([123, 123, 45, 45] ++ cm ++ [45, 45, 125, 125] ++ b)) =
        some { toks := [t1, t2, e], insideCode := false, panicked := false } ∧
      t1.ty = .HTML ∧ t1.lit = a ∧ t2.ty = .HTML ∧ t2.lit = b ∧ e.ty = .EOF := by
  generalize htl : [123, 123, 45, 45] ++ cm ++ [45, 45, 125, 125] ++ b = tl at hpa
  obtain ⟨s0, hs0⟩ : ∃ s0, s0 = Lx.init (a ++ tl) := ⟨_, rfl⟩
  have hr0 : s0.rest = a ++ tl := by rw [hs0]; rfl
  have hh0 : s0.isHTML = true := by rw [hs0]; rfl
  have hp0 : s0.panicked = false := by rw [hs0]; rfl
  have hprev0 : s0.prev = 0 := by rw [hs0]; rfl
  obtain ⟨c, r, hcr⟩ : ∃ c r, a = c :: r := by
    cases a with
    | nil => exact absurd rfl ha
    | cons c r => exact ⟨c, r, rfl⟩
  -- first token
  have hnb0 : (s0.char == 123 && s0.peek == 123) = false := by
    have hc : s0.char = c := by simp [Lx.char, hr0, hcr]
    have hp : s0.peek = (r ++ tl).headD 0 := by simp [Lx.peek, hr0, hcr]
    rw [hc, hp]
    rw [hcr] at hpa
    cases hbb : (c == 123 && (r ++ tl).headD 0 == 123) with
    | false => rfl
    | true => simp only [Bool.and_eq_true, beq_iff_eq] at hbb; exact absurd hbb hpa.1
  have hnd0 : (isDirectiveToken s0).1 = false := by
    have hc : s0.char = c := by simp [Lx.char, hr0, hcr]
    unfold isDirectiveToken
    rw [hcr] at hpa
    by_cases h64 : c = 64
    · have hnp : hasDirectivePrefix s0.rest = false := by
        rw [hr0, hcr]
        cases hp : hasDirectivePrefix (c :: r ++ tl) with
        | false => rfl
        | true => exact absurd ⟨h64, by simpa using hp⟩ hpa.2.1
      have hneof : s0.isEOF = false := by simp [Lx.isEOF, hr0, hcr]
      rw [hc, h64, hneof, hnp]; rfl
    · have : (s0.char != 64) = true := by rw [hc]; simpa using h64
      rw [this]; rfl
  have hscan0 : htmlScan s0.prev [] 0 false s0.rest = (a.reverse, a.length, false) := by
    rw [hr0, htmlScan_plainBefore a tl s0.prev [] 0 false hpa, ← htl]
    have : ((a.reverse ++ [s0.prev]).headD 0) ≠ 92 := by rw [hprev0]; exact hesc
    simp only [List.append_assoc, List.cons_append, List.nil_append]
    rw [htmlScan_stop_braces _ _ _ _ _ this]
    simp
  obtain ⟨t1, s1, hst1, ht1, hl1, hr1, hh1, hp1, _⟩ := nextStep_text s0 a tl hh0 hr0 ha hnb0 hnd0 hscan0
  -- the comment
  obtain ⟨s2, hst2, hr2, hh2, hp2, hprev2⟩ := nextStep_comment s1 cm b hh1 (by rw [hr1, ← htl]) hcm
  -- second token
  obtain ⟨c2, r2, hcr2⟩ : ∃ c r, b = c :: r := by
    cases b with
    | nil => exact absurd rfl hb
    | cons c r => exact ⟨c, r, rfl⟩
  have hscan2 : htmlScan s2.prev [] 0 false s2.rest = (b.reverse, b.length, false) := by
    rw [hr2, htmlScan_plain b s2.prev [] 0 false hpb]; simp
  obtain ⟨t2, s3, hst3, ht2, hl2, hr3, hh3, hp3, _⟩ := nextStep_text s2 b [] hh2 (by rw [hr2]; simp) hb
    (plain_head_not_braces c2 r2 (hcr2 ▸ hpb) s2 (by rw [hr2, hcr2]))
    (plain_head_not_directive c2 r2 (hcr2 ▸ hpb) s2 (by rw [hr2, hcr2])) hscan2
  have hst4 := nextStep_eof s3 hh3 hr3
  refine ⟨t1, t2, s3.tokenBegins.newToken .EOF [], ?_, ht1, hl1, ht2, hl2, by simp [newToken]⟩
  unfold tokenize lexFuel
  rw [← hs0]
  have hlen : (a ++ tl).length + 2 = ((a ++ tl).length - 2) + 1 + 1 + 1 + 1 := by
    rw [← htl, hcr]; simp; omega
  rw [hlen, lexAll, hst1]
  simp only [ht1]
  rw [if_neg (by decide), lexAll, hst2]
  simp only []
  rw [lexAll, hst3]
  simp only [ht2]
  rw [if_neg (by decide), lexAll, hst4]
  simp [newToken, Lx.tokenBegins, hh3, hp3, hp2, hp1, hp0]

end Tw

namespace Tw
open Lx

/-- the program of two text tokens -/
theorem parse_two_texts (src : Bytes) (t1 t2 e : Token)
    (htok : tokenize src = some { toks := [t1, t2, e], insideCode := false, panicked := false })
    (h1 : t1.ty = .HTML) (h2 : t2.ty = .HTML) (he : e.ty = .EOF) :
    parseSource src = .ok { tok := t1, stmts := [.html t1, .html t2] } := by
  unfold parseSource
  rw [htok]
  simp only [Bool.false_eq_true, if_false]
  have n1 : (t1.ty == TT.ILLEGAL) = false := by rw [h1]; rfl
  have n2 : (t2.ty == TT.ILLEGAL) = false := by rw [h2]; rfl
  have n3 : (e.ty == TT.ILLEGAL) = false := by rw [he]; rfl
  have hinit : initParser [t1, t2, e] 0 = { toks := [t1, t2, e] } := by
    simp [initParser, PS.noteIllegal, PS.cur, PS.peek, n1, n2]
  rw [hinit]
  have hfuel : parseFuel [t1, t2, e] = 25 + 1 + 1 + 1 := by simp [parseFuel]
  have stmtAt : ∀ (f : Nat) (t : Token) (rest : List Token), t.ty = .HTML →
      parseStatement (f + 1) ({ toks := t :: rest } : PS) = (.html t, { toks := t :: rest }) := by
    intro f t rest ht
    show statementBody (parseExpression f) (parseExprList f) (parseBody f) (parseIfTail f) (parseSlots f)
      ({ toks := t :: rest } : PS) = _
    simp [statementBody, PS.cur, ht]
  have hloop : parseProgramLoop (parseFuel [t1, t2, e]) [] ({ toks := [t1, t2, e] } : PS) =
      (some [.html t1, .html t2], { toks := [e] }) := by
    rw [hfuel, parseProgramLoop]
    have c1 : ({ toks := [t1, t2, e] } : PS).curIs .EOF = false := by simp [PS.curIs, PS.cur, h1]
    have i1 : ({ toks := [t1, t2, e] } : PS).curIs .ILLEGAL = false := by simp [PS.curIs, PS.cur, h1]
    have nx1 : ({ toks := [t1, t2, e] } : PS).next = { toks := [t2, e] } := by simp [PS.next, PS.noteIllegal, n3]
    have hs1 : parseStatement 27 ({ toks := [t1, t2, e] } : PS) = (.html t1, { toks := [t1, t2, e] }) := stmtAt 26 t1 [t2, e] h1
    have hs2 : parseStatement 26 ({ toks := [t2, e] } : PS) = (.html t2, { toks := [t2, e] }) := stmtAt 25 t2 [e] h2
    simp only [c1, Bool.false_eq_true, if_false, hs1, i1, Stmt.isBad, List.nil_append, nx1]
    rw [parseProgramLoop]
    have c2 : ({ toks := [t2, e] } : PS).curIs .EOF = false := by simp [PS.curIs, PS.cur, h2]
    have i2 : ({ toks := [t2, e] } : PS).curIs .ILLEGAL = false := by simp [PS.curIs, PS.cur, h2]
    have nx2 : ({ toks := [t2, e] } : PS).next = { toks := [e] } := by simp [PS.next]
    simp only [c2, Bool.false_eq_true, if_false, hs2, i2, Stmt.isBad, nx2]
    rw [parseProgramLoop]
    have c3 : ({ toks := [e] } : PS).curIs .EOF = true := by simp [PS.curIs, PS.cur, he]
    simp [c3]
  rw [hloop]
  simp [finishParse, PS.cur]

/-- **a comment renders nothing**: text, a comment, text renders as the two texts, for every
    comment body (whatever it holds: code, directives, braces, newlines) and every data map -/
theorem comment_renders_nothing (custom : List ((VType × Bytes) × Nat)) (a cm b : Bytes) (ha : a ≠ []) (hb : b ≠ [])
    (hpa : PlainBefore a ([123, 123, 45, 45] ++ cm ++ [45, 45, 125, 125] ++ b)) (hesc : lastOr a 0 ≠ 92) (hpb : Plain b)
    (hcm : commentScan (cm ++ [45, 45, 125, 125] ++ b) = cm.length)
    (data : List (Bytes × GoVal)) (env : Env) (henv : envFromMap data = .ok env) :
    evaluateStringPure custom (a ++ ([123, 123, 45, 45] ++ cm ++ [45, 45, 125, 125] ++ b)) data = .ok (a ++ b) := by
  obtain ⟨t1, t2, e, htok, h1, l1, h2, l2, he⟩ := tokenize_text_comment_text a cm b ha hb hpa hesc hpb hcm
  unfold evaluateStringPure
  rw [parse_two_texts _ t1 t2 e htok h1 h2 he]
  simp only [envOrFail, henv]
  have e1 : evalProg (99997 + 1 + 1 + 1) { custom := custom } env [Stmt.html t1, Stmt.html t2] [] = .ok (t1.lit ++ t2.lit, env) := by
    rw [evalProg_cons, evalStmt_html, Res.bind_ok, evalProg_cons, evalStmt_html, Res.bind_ok, evalProg_nil]
    simp
  rw [show evalFuel = 99997 + 1 + 1 + 1 from rfl, e1]
  simp [resToOut, l1, l2]

/-- non-vacuity: a comment that holds code, a directive, braces and a newline -/
example : evaluateStringPure [] (b "one {{-- {{ x }} @if(y) }} \n - --}} two") [] = .ok (b "one  two") := by
  have := comment_renders_nothing [] (b "one ") (b " {{ x }} @if(y) }} \n - ") (b " two") (by decide) (by decide)
    (by decide) (by decide) (by decide) (by decide) [] [[]] rfl
  exact this

end Tw

namespace Tw
open Lx

/-- one text token whose literal differs from the bytes it covers (escapes removed) -/
theorem nextStep_text' (s : Lx) (cons bd lit : Bytes) (hh : s.isHTML = true) (hr : s.rest = cons ++ bd) (ha : cons ≠ [])
    (hnb : (s.char == 123 && s.peek == 123) = false) (hnd : (isDirectiveToken s).1 = false)
    (hscan : htmlScan s.prev [] 0 false s.rest = (lit.reverse, cons.length, false)) :
    ∃ t s', nextStep s = (.tok t, s') ∧ t.ty = .HTML ∧ t.lit = lit ∧ s'.rest = bd ∧ s'.isHTML = true ∧
      s'.panicked = s.panicked := by
  have hws : skipWs s = s := by simp [skipWs, hh]
  have hne : s.rest ≠ [] := by rw [hr]; simp [ha]
  have hstep : stepAt s = (.tok (htmlToken s).1, (htmlToken s).2) := by
    unfold stepAt
    rw [if_neg (by rw [isEOF_iff]; exact hne), if_neg (by rw [hnb]; simp),
      if_neg (by simp [hh]), if_neg (by simp [hh]), if_neg (by rw [hnd]; simp)]
  refine ⟨(htmlToken s).1, (htmlToken s).2, by unfold nextStep; rw [hws, hstep], ?_, ?_, ?_, ?_, ?_⟩
  · unfold htmlToken; simp [emit_ty]
  · unfold htmlToken; simp [emit_lit, hscan]
  · unfold htmlToken
    simp only [emit_rest, hscan]
    rw [hr]; simp
  · unfold htmlToken
    simp only [emit]
    rw [(advance_frame _ _).2.2.1]; exact hh
  · unfold htmlToken
    simp only [emit, hscan, Bool.or_false]
    rw [(advance_frame _ _).2.2.2.2.2.2]; rfl

theorem htmlScan_escaped_braces (out : Bytes) (n : Nat) (pan : Bool) (r : Bytes) (ho : out ≠ []) :
    htmlScan 92 out n pan (123 :: 123 :: r) = htmlScan 123 (123 :: out.tail) (n + 1) pan (123 :: r) := by
  rw [htmlScan]
  have he : out.isEmpty = false := by cases out with | nil => exact absurd rfl ho | cons _ _ => rfl
  simp [he]

/-- **an escaped "{{" is text**: `a \{{ b` is one text token whose literal is `a {{ b` -/
theorem tokenize_escaped_braces (a b : Bytes) (hpa : PlainBefore (a ++ [92]) (123 :: 123 :: b)) (hpb : Plain (123 :: b)) :
    ∃ t e, tokenize ((a ++ [92]) ++ 123 :: 123 :: b) = some { toks := [t, e], insideCode := false, panicked := false } ∧
      t.ty = .HTML ∧ t.lit = a ++ 123 :: 123 :: b ∧ e.ty = .EOF := by
  obtain ⟨s0, hs0⟩ : ∃ s0, s0 = Lx.init ((a ++ [92]) ++ 123 :: 123 :: b) := ⟨_, rfl⟩
  have hr0 : s0.rest = ((a ++ [92]) ++ 123 :: 123 :: b) ++ [] := by rw [hs0]; simp [Lx.init]
  have hh0 : s0.isHTML = true := by rw [hs0]; rfl
  have hp0 : s0.panicked = false := by rw [hs0]; rfl
  obtain ⟨c, r, hcr⟩ : ∃ c r, a ++ [92] = c :: r := by
    cases a with
    | nil => exact ⟨92, [], rfl⟩
    | cons c r => exact ⟨c, r ++ [92], rfl⟩
  have hr0' : s0.rest = c :: (r ++ 123 :: 123 :: b) := by rw [hr0, hcr]; simp
  have hnb0 : (s0.char == 123 && s0.peek == 123) = false := by
    have hc : s0.char = c := by simp [Lx.char, hr0']
    have hp : s0.peek = (r ++ 123 :: 123 :: b).headD 0 := by simp [Lx.peek, hr0']
    rw [hc, hp]
    rw [hcr] at hpa
    cases hbb : (c == 123 && (r ++ 123 :: 123 :: b).headD 0 == 123) with
    | false => rfl
    | true => simp only [Bool.and_eq_true, beq_iff_eq] at hbb; exact absurd hbb hpa.1
  have hnd0 : (isDirectiveToken s0).1 = false := by
    have hc : s0.char = c := by simp [Lx.char, hr0']
    unfold isDirectiveToken
    rw [hcr] at hpa
    by_cases h64 : c = 64
    · have hnp : hasDirectivePrefix s0.rest = false := by
        rw [hr0']
        cases hp : hasDirectivePrefix (c :: (r ++ 123 :: 123 :: b)) with
        | false => rfl
        | true => exact absurd ⟨h64, hp⟩ hpa.2.1
      have hneof : s0.isEOF = false := by simp [Lx.isEOF, hr0']
      rw [hc, h64, hneof, hnp]; rfl
    · have : (s0.char != 64) = true := by rw [hc]; simpa using h64
      rw [this]; rfl
  have hscan0 : htmlScan s0.prev [] 0 false s0.rest =
      ((a ++ 123 :: 123 :: b).reverse, ((a ++ [92]) ++ 123 :: 123 :: b).length, false) := by
    rw [hr0, List.append_nil, htmlScan_plainBefore (a ++ [92]) (123 :: 123 :: b) s0.prev [] 0 false hpa]
    have hlast : (((a ++ [92]).reverse ++ [s0.prev]).headD 0) = 92 := by simp
    rw [hlast]
    -- the escaped "{{": the backslash is dropped, the two braces are copied
    rw [htmlScan_escaped_braces _ _ _ _ (by simp)]
    have hout : ((a ++ [92]).reverse ++ []).tail = a.reverse := by simp
    rw [hout, htmlScan_plain (123 :: b) 123 _ _ false hpb]
    simp
    omega
  obtain ⟨t, s1, hst1, ht, hl, hr1, hh1, hp1⟩ :=
    nextStep_text' s0 ((a ++ [92]) ++ 123 :: 123 :: b) [] (a ++ 123 :: 123 :: b) hh0 hr0 (by simp) hnb0 hnd0 hscan0
  have hst2 := nextStep_eof s1 hh1 hr1
  refine ⟨t, s1.tokenBegins.newToken .EOF [], ?_, ht, hl, by simp [newToken]⟩
  unfold tokenize lexFuel
  rw [← hs0]
  generalize hL : ((a ++ [92]) ++ 123 :: 123 :: b).length = L
  rw [show L + 2 = L + 1 + 1 from rfl, lexAll, hst1]
  simp only [ht]
  rw [if_neg (by decide), lexAll, hst2]
  simp [newToken, Lx.tokenBegins, hh1, hp1, hp0]

end Tw

namespace Tw
open Lx

theorem parse_one_text (src : Bytes) (t e : Token)
    (htok : tokenize src = some { toks := [t, e], insideCode := false, panicked := false })
    (h1 : t.ty = .HTML) (he : e.ty = .EOF) :
    parseSource src = .ok { tok := t, stmts := [.html t] } := by
  unfold parseSource
  rw [htok]
  simp only [Bool.false_eq_true, if_false]
  have n1 : (t.ty == TT.ILLEGAL) = false := by rw [h1]; rfl
  have n2 : (e.ty == TT.ILLEGAL) = false := by rw [he]; rfl
  have hinit : initParser [t, e] 0 = { toks := [t, e] } := by
    simp [initParser, PS.noteIllegal, PS.cur, PS.peek, n1, n2]
  rw [hinit]
  have hfuel : parseFuel [t, e] = 22 + 1 + 1 := by simp [parseFuel]
  have hs1 : parseStatement 23 ({ toks := [t, e] } : PS) = (.html t, { toks := [t, e] }) := by
    show statementBody (parseExpression 22) (parseExprList 22) (parseBody 22) (parseIfTail 22) (parseSlots 22)
      ({ toks := [t, e] } : PS) = _
    simp [statementBody, PS.cur, h1]
  have hloop : parseProgramLoop (parseFuel [t, e]) [] ({ toks := [t, e] } : PS) = (some [.html t], { toks := [e] }) := by
    rw [hfuel, parseProgramLoop]
    have c1 : ({ toks := [t, e] } : PS).curIs .EOF = false := by simp [PS.curIs, PS.cur, h1]
    have i1 : ({ toks := [t, e] } : PS).curIs .ILLEGAL = false := by simp [PS.curIs, PS.cur, h1]
    have nx1 : ({ toks := [t, e] } : PS).next = { toks := [e] } := by simp [PS.next]
    simp only [c1, Bool.false_eq_true, if_false, hs1, i1, Stmt.isBad, List.nil_append, nx1]
    rw [parseProgramLoop]
    have c2 : ({ toks := [e] } : PS).curIs .EOF = true := by simp [PS.curIs, PS.cur, he]
    simp [c2]
  rw [hloop]
  simp [finishParse, PS.cur]

/-- **an escaped "{{" renders as "{{"**: the backslash disappears, nothing is evaluated -/
theorem escaped_braces_render (custom : List ((VType × Bytes) × Nat)) (a b : Bytes)
    (hpa : PlainBefore (a ++ [92]) (123 :: 123 :: b)) (hpb : Plain (123 :: b))
    (data : List (Bytes × GoVal)) (env : Env) (henv : envFromMap data = .ok env) :
    evaluateStringPure custom ((a ++ [92]) ++ 123 :: 123 :: b) data = .ok (a ++ 123 :: 123 :: b) := by
  obtain ⟨t, e, htok, h1, l1, he⟩ := tokenize_escaped_braces a b hpa hpb
  unfold evaluateStringPure
  rw [parse_one_text _ t e htok h1 he]
  simp only [envOrFail, henv]
  have e1 : evalProg (99998 + 1 + 1) { custom := custom } env [Stmt.html t] [] = .ok (t.lit, env) := by
    rw [evalProg_cons, evalStmt_html, Res.bind_ok, evalProg_nil]; simp
  rw [show evalFuel = 99998 + 1 + 1 from rfl, e1]
  simp [resToOut, l1]

example : evaluateStringPure [] (b "use \\{{ name }} here") [] = .ok (b "use {{ name }} here") := by
  have := escaped_braces_render [] (b "use ") (b " name }} here") (by decide) (by decide) [] [[]] rfl
  exact this

end Tw

namespace Tw
open Lx

theorem htmlScan_escaped_directive (out : Bytes) (n : Nat) (pan : Bool) (r : Bytes) (ho : out ≠ [])
    (hd : hasDirectivePrefix (64 :: r) = true) :
    htmlScan 92 out n pan (64 :: r) = htmlScan 64 (64 :: out.tail) (n + 1) pan r := by
  rw [htmlScan]
  have he : out.isEmpty = false := by cases out with | nil => exact absurd rfl ho | cons _ _ => rfl
  simp [he, hd]

/-- **an escaped directive is text**: `a \@if(x) …` is one text token whose literal is `a @if(x) …` -/
theorem tokenize_escaped_directive (a b : Bytes) (hpa : PlainBefore (a ++ [92]) (64 :: b))
    (hd : hasDirectivePrefix (64 :: b) = true) (hpb : Plain b) :
    ∃ t e, tokenize ((a ++ [92]) ++ 64 :: b) = some { toks := [t, e], insideCode := false, panicked := false } ∧
      t.ty = .HTML ∧ t.lit = a ++ 64 :: b ∧ e.ty = .EOF := by
  obtain ⟨s0, hs0⟩ : ∃ s0, s0 = Lx.init ((a ++ [92]) ++ 64 :: b) := ⟨_, rfl⟩
  have hr0 : s0.rest = ((a ++ [92]) ++ 64 :: b) ++ [] := by rw [hs0]; simp [Lx.init]
  have hh0 : s0.isHTML = true := by rw [hs0]; rfl
  have hp0 : s0.panicked = false := by rw [hs0]; rfl
  obtain ⟨c, r, hcr⟩ : ∃ c r, a ++ [92] = c :: r := by
    cases a with
    | nil => exact ⟨92, [], rfl⟩
    | cons c r => exact ⟨c, r ++ [92], rfl⟩
  have hr0' : s0.rest = c :: (r ++ 64 :: b) := by rw [hr0, hcr]; simp
  have hnb0 : (s0.char == 123 && s0.peek == 123) = false := by
    have hc : s0.char = c := by simp [Lx.char, hr0']
    have hp : s0.peek = (r ++ 64 :: b).headD 0 := by simp [Lx.peek, hr0']
    rw [hc, hp]
    rw [hcr] at hpa
    cases hbb : (c == 123 && (r ++ 64 :: b).headD 0 == 123) with
    | false => rfl
    | true => simp only [Bool.and_eq_true, beq_iff_eq] at hbb; exact absurd hbb hpa.1
  have hnd0 : (isDirectiveToken s0).1 = false := by
    have hc : s0.char = c := by simp [Lx.char, hr0']
    unfold isDirectiveToken
    rw [hcr] at hpa
    by_cases h64 : c = 64
    · have hnp : hasDirectivePrefix s0.rest = false := by
        rw [hr0']
        cases hp : hasDirectivePrefix (c :: (r ++ 64 :: b)) with
        | false => rfl
        | true => exact absurd ⟨h64, hp⟩ hpa.2.1
      have hneof : s0.isEOF = false := by simp [Lx.isEOF, hr0']
      rw [hc, h64, hneof, hnp]; rfl
    · have : (s0.char != 64) = true := by rw [hc]; simpa using h64
      rw [this]; rfl
  have hscan0 : htmlScan s0.prev [] 0 false s0.rest =
      ((a ++ 64 :: b).reverse, ((a ++ [92]) ++ 64 :: b).length, false) := by
    rw [hr0, List.append_nil, htmlScan_plainBefore (a ++ [92]) (64 :: b) s0.prev [] 0 false hpa]
    have hlast : (((a ++ [92]).reverse ++ [s0.prev]).headD 0) = 92 := by simp
    rw [hlast, htmlScan_escaped_directive _ _ _ _ (by simp) hd]
    have hout : ((a ++ [92]).reverse ++ []).tail = a.reverse := by simp
    rw [hout, htmlScan_plain b 64 _ _ false hpb]
    simp
    omega
  obtain ⟨t, s1, hst1, ht, hl, hr1, hh1, hp1⟩ :=
    nextStep_text' s0 ((a ++ [92]) ++ 64 :: b) [] (a ++ 64 :: b) hh0 hr0 (by simp) hnb0 hnd0 hscan0
  have hst2 := nextStep_eof s1 hh1 hr1
  refine ⟨t, s1.tokenBegins.newToken .EOF [], ?_, ht, hl, by simp [newToken]⟩
  unfold tokenize lexFuel
  rw [← hs0]
  generalize hL : ((a ++ [92]) ++ 64 :: b).length = L
  rw [show L + 2 = L + 1 + 1 from rfl, lexAll, hst1]
  simp only [ht]
  rw [if_neg (by decide), lexAll, hst2]
  simp [newToken, Lx.tokenBegins, hh1, hp1, hp0]

/-- **an escaped directive renders as written**, without its backslash, and is not executed -/
theorem escaped_directive_render (custom : List ((VType × Bytes) × Nat)) (a b : Bytes)
    (hpa : PlainBefore (a ++ [92]) (64 :: b)) (hd : hasDirectivePrefix (64 :: b) = true) (hpb : Plain b)
    (data : List (Bytes × GoVal)) (env : Env) (henv : envFromMap data = .ok env) :
    evaluateStringPure custom ((a ++ [92]) ++ 64 :: b) data = .ok (a ++ 64 :: b) := by
  obtain ⟨t, e, htok, h1, l1, he⟩ := tokenize_escaped_directive a b hpa hd hpb
  unfold evaluateStringPure
  rw [parse_one_text _ t e htok h1 he]
  simp only [envOrFail, henv]
  have e1 : evalProg (99998 + 1 + 1) { custom := custom } env [Stmt.html t] [] = .ok (t.lit, env) := by
    rw [evalProg_cons, evalStmt_html, Res.bind_ok, evalProg_nil]; simp
  rw [show evalFuel = 99998 + 1 + 1 from rfl, e1]
  simp [resToOut, l1]

example : evaluateStringPure [] (b "write \\@if(x) to branch") [] = .ok (b "write @if(x) to branch") := by
  have := escaped_directive_render [] (b "write ") (b "if(x) to branch") (by decide) (by decide) (by decide) [] [[]] rfl
  exact this

end Tw
