/-
  TwProofs.Lemmas.ParseSimpleGen — the statement loop on text and `{{ name }}` blocks from ANY
  parser state (component files are parsed with another allocation base than pages), and the
  parse of a whole file of that shape with any base.
-/
import TwProofs.Lemmas.ParseComp
import TwProofs.Lemmas.TextLayout
namespace Tw

/-- `{{ name }}` as a statement, from any state -/
theorem parse_print_stmt_gen (k : Nat) (p : PS) (t1 t2 t3 : Token) (tail : List Token) (hp : p.toks = t1 :: t2 :: t3 :: tail)
    (h1 : t1.ty = .LBRACES) (h2 : t2.ty = .IDENT) (h3 : t3.ty = .RBRACES) (hclean : Clean tail) :
    parseStatement (k + 3) p = (.expr t2 (.ident t2 t2.lit), { p with toks := t3 :: tail }) := by
  have c3 : Clean (t3 :: tail) := Clean.cons (by rw [h3]; decide) hclean
  have hex : parseExpression (k + 2) LOWEST ({ p with toks := t2 :: t3 :: tail } : PS) =
      (.ident t2 t2.lit, { p with toks := t2 :: t3 :: tail }) := by
    rw [parseExpression_succ]
    have hpb : prefixBody (parseExpression (k + 1)) (parseExprList (k + 1)) (parseObjLoop (k + 1))
        ({ p with toks := t2 :: t3 :: tail } : PS) = some (.ident t2 t2.lit, { p with toks := t2 :: t3 :: tail }) := by
      unfold prefixBody
      simp [PS.cur, h2]
    rw [hpb]
    simp only []
    rw [prattLoop_succ]
    have : ({ p with toks := t2 :: t3 :: tail } : PS).peekIs .RBRACES = true := by simp [PS.peekIs, PS.peek, h3]
    simp [this]
  show statementBody (parseExpression (k + 2)) (parseExprList (k + 2)) (parseBody (k + 2)) (parseIfTail (k + 2)) (parseSlots (k + 2)) p = _
  have hc : p.cur = t1 := cur_of p t1 _ hp
  unfold statementBody
  simp only [hc, h1]
  unfold parseEmbeddedCode
  simp only [next_toks p t1 t2 _ hp c3]
  have c1 : ({ p with toks := t2 :: t3 :: tail } : PS).curIs .RBRACES = false := by simp [PS.curIs, PS.cur, h2]
  have c2 : ({ p with toks := t2 :: t3 :: tail } : PS).peekIs .ASSIGN = false := by simp [PS.peekIs, PS.peek, h3]
  have c4 : ({ p with toks := t2 :: t3 :: tail } : PS).peekIs .RBRACES = true := by simp [PS.peekIs, PS.peek, h3]
  simp only [c1, c2, Bool.and_false, Bool.false_eq_true, if_false, hex, c4, if_true]
  rw [next_toks { p with toks := t2 :: t3 :: tail } t2 t3 tail rfl hclean]
  simp [PS.cur]

/-- the statement loop over a statement that leaves the cursor on its last token -/
theorem loop_stmt_last (f : Nat) (acc : List Stmt) (p p1 : PS) (st : Stmt) (tf tl tn : Token) (r rest : List Token)
    (hp : p.toks = tf :: r) (hf : tf.ty ≠ .EOF)
    (hst : parseStatement (f + 1) p = (st, p1)) (hbad : st.isBad = false)
    (hp1 : p1.toks = tl :: tn :: rest) (hl : tl.ty ≠ .ILLEGAL) (hclean : Clean rest) :
    parseProgramLoop (f + 2) acc p = parseProgramLoop (f + 1) (acc ++ [st]) { p1 with toks := tn :: rest } := by
  rw [show f + 2 = (f + 1) + 1 from rfl, parseProgramLoop]
  have e0 : p.curIs .EOF = false := by rw [curIs_of p tf r hp]; simpa using hf
  simp only [e0, Bool.false_eq_true, if_false, hst]
  have e1 : p1.curIs .ILLEGAL = false := by rw [curIs_of p1 tl _ hp1]; simpa using hl
  simp only [e1, Bool.false_eq_true, if_false, hbad]
  rw [next_toks p1 tl tn _ hp1 hclean]

theorem parseLoop_vitems_gen : ∀ (items : List VItem) (toks : List Token) (e : Token) (p : PS) (acc : List Stmt) (f : Nat),
    toks.map key = vkeys items → e.ty = .EOF → p.toks = toks ++ [e] → (vpieces items).length + 5 ≤ f →
    ∃ stmts, parseProgramLoop f acc p = (some (acc ++ stmts), { p with toks := [e] }) ∧
      simpleBlock stmts = true ∧ piecesOf stmts = vpieces items
  | [], toks, e, p, acc, f, hk, he, hp, hf => by
    have : toks = [] := by simpa [vkeys] using hk
    subst this
    obtain ⟨g, rfl⟩ : ∃ g, f = g + 1 := ⟨f - 1, by omega⟩
    refine ⟨[], ?_, rfl, rfl⟩
    rw [parseProgramLoop]
    have c : p.curIs .EOF = true := by rw [curIs_of p e [] (by simpa using hp)]; simp [he]
    have hpe : p = { p with toks := [e] } := by
      cases p; simp only [List.nil_append] at hp; subst hp; rfl
    simp only [c, if_true, List.append_nil]
    rw [← hpe]
  | .comment cm :: r, toks, e, p, acc, f, hk, he, hp, hf =>
    parseLoop_vitems_gen r toks e p acc f (by simpa [vkeys] using hk) he hp (by simpa [vpieces] using hf)
  | .text segs :: r, toks, e, p, acc, f, hk, he, hp, hf => by
    cases toks with
    | nil => simp [vkeys] at hk
    | cons t rest =>
      simp only [vkeys, List.map_cons, List.cons.injEq] at hk
      obtain ⟨hkt, hkr⟩ := hk
      have ht : t.ty = .HTML := congrArg Prod.fst hkt
      have hlit : t.lit = segsLit segs := congrArg Prod.snd hkt
      have hcl : Clean (rest ++ [e]) := clean_of_keys hkr (vkeys_no_illegal r) he
      obtain ⟨g, rfl⟩ : ∃ g, f = g + 2 := ⟨f - 2, by simp [vpieces] at hf; omega⟩
      cases hr : rest ++ [e] with
      | nil => simp at hr
      | cons tn rest' =>
        rw [hr] at hcl
        have hp' : p.toks = t :: tn :: rest' := by rw [hp]; simp [hr]
        have hloop := loop_html g acc p t tn rest' hp' ht hcl.tail
        obtain ⟨stmts, h1, h2, h3⟩ := parseLoop_vitems_gen r rest e { p with toks := tn :: rest' } (acc ++ [.html t]) (g + 1) hkr he
          (by simpa using hr.symm) (by simp [vpieces] at hf; omega)
        refine ⟨.html t :: stmts, ?_, by simpa [simpleBlock] using h2, by simp [piecesOf, vpieces, hlit, h3]⟩
        rw [hloop, h1]; simp
  | .print g1 n g2 :: r, toks, e, p, acc, f, hk, he, hp, hf => by
    match toks, hk with
    | [], hk => simp [vkeys] at hk
    | [_], hk => simp [vkeys] at hk
    | [_, _], hk => simp [vkeys] at hk
    | t1 :: t2 :: t3 :: rest, hk =>
      simp only [vkeys, List.map_cons, List.cons.injEq] at hk
      obtain ⟨hk1, hk2, hk3, hkr⟩ := hk
      have ty1 : t1.ty = .LBRACES := congrArg Prod.fst hk1
      have ty2 : t2.ty = .IDENT := congrArg Prod.fst hk2
      have lit2 : t2.lit = n := congrArg Prod.snd hk2
      have ty3 : t3.ty = .RBRACES := congrArg Prod.fst hk3
      have hcl : Clean (rest ++ [e]) := clean_of_keys hkr (vkeys_no_illegal r) he
      obtain ⟨g, rfl⟩ : ∃ g, f = g + 4 := ⟨f - 4, by simp [vpieces] at hf; omega⟩
      have hp' : p.toks = t1 :: t2 :: t3 :: (rest ++ [e]) := by simpa using hp
      have hst := parse_print_stmt_gen g p t1 t2 t3 (rest ++ [e]) hp' ty1 ty2 ty3 hcl
      cases hr : rest ++ [e] with
      | nil => simp at hr
      | cons tn rest' =>
        rw [hr] at hst hcl
        have hloop := loop_stmt_last (g + 2) acc p _ _ t1 t3 tn _ rest' hp' (by rw [ty1]; decide) hst rfl rfl (by rw [ty3]; decide) hcl.tail
        obtain ⟨stmts, h1, h2, h3⟩ := parseLoop_vitems_gen r rest e { p with toks := tn :: rest' } (acc ++ [.expr t2 (.ident t2 t2.lit)]) (g + 3) hkr he
          (by simpa using hr.symm) (by simp [vpieces] at hf; omega)
        refine ⟨.expr t2 (.ident t2 t2.lit) :: stmts, ?_, by simpa [simpleBlock] using h2, by simp [piecesOf, vpieces, lit2, h3]⟩
        rw [show g + 4 = (g + 2) + 2 from rfl, hloop]
        simp only [] at h1 ⊢
        rw [h1]; simp

/-- **a file of text, comments and `{{ name }}` blocks, parsed with any allocation base** -/
theorem parse_vitems_base (items : List VItem) (hok : VItemsOK items) (base : Nat) :
    ∃ prog, parseSource (vitemsSrc items) base = .ok prog ∧ simpleBlock prog.stmts = true ∧ piecesOf prog.stmts = vpieces items := by
  obtain ⟨toks, e, htok, hk, he⟩ := tokenize_vitems items hok
  have hcl : Clean (toks ++ [e]) := clean_of_keys hk (vkeys_no_illegal items) he
  have hlen : toks.length = (vkeys items).length := by rw [← hk]; simp
  have hfuel : (vpieces items).length + 5 ≤ parseFuel (toks ++ [e]) := by
    unfold parseFuel
    have := vpieces_length_le items
    simp
    omega
  obtain ⟨stmts, h1, h2, h3⟩ := parseLoop_vitems_gen items toks e ({ toks := toks ++ [e], nextId := base } : PS) [] (parseFuel (toks ++ [e])) hk he rfl hfuel
  refine ⟨{ tok := (toks ++ [e]).headD e, stmts := stmts, nextId := base }, ?_, h2, h3⟩
  unfold parseSource
  rw [htok]
  simp only [Bool.false_eq_true, if_false]
  rw [initParser_clean_base _ base hcl, h1]
  have hcur : ({ toks := toks ++ [e], nextId := base } : PS).cur = (toks ++ [e]).headD e := by
    cases toks with
    | nil => rfl
    | cons t r => rfl
  rw [hcur]
  simp [finishParse]

end Tw
