/-
  TwProofs.Lemmas.PlainText — text without "{{" and without a directive keyword after '@' is one
  HTML token and renders to itself (C05).
-/
import TwProofs.Lemmas.LexSpan
import TwProofs.Lemmas.EvalStep

namespace Tw
open Lx

/-- no "{{" and no '@' at which a directive keyword starts, anywhere in the bytes -/
def Plain : Bytes → Prop
  | [] => True
  | c :: r => ¬ (c = 123 ∧ r.headD 0 = 123) ∧ ¬ (c = 64 ∧ hasDirectivePrefix (c :: r) = true) ∧ Plain r

instance : (s : Bytes) → Decidable (Plain s)
  | [] => isTrue trivial
  | c :: r =>
    have : Decidable (Plain r) := instDecidablePlain r
    by unfold Plain; exact inferInstance

/-- `readHTML` on plain text copies everything -/
theorem htmlScan_plain (rest : Bytes) : ∀ (prev : Byte) (out : Bytes) (n : Nat) (pan : Bool), Plain rest →
    htmlScan prev out n pan rest = (rest.reverse ++ out, n + rest.length, pan) := by
  induction rest with
  | nil => intro prev out n pan _; simp [htmlScan]
  | cons c r ih =>
    intro prev out n pan h
    obtain ⟨h1, h2, h3⟩ := h
    have hb : (c == 123 && r.headD 0 == 123) = false := by
      cases hc : (c == 123 && r.headD 0 == 123) with
      | false => rfl
      | true => simp only [Bool.and_eq_true, beq_iff_eq] at hc; exact absurd hc h1
    have ha : (c == 64 && hasDirectivePrefix (c :: r)) = false := by
      cases hc : (c == 64 && hasDirectivePrefix (c :: r)) with
      | false => rfl
      | true => simp only [Bool.and_eq_true, beq_iff_eq] at hc; exact absurd hc h2
    simp only [htmlScan, hb, ha, Bool.or_self, Bool.false_and, if_false]
    rw [ih c (c :: out) (n + 1) pan h3]
    simp [Nat.add_assoc, Nat.add_comm 1]

end Tw

namespace Tw
open Lx

theorem plain_head_not_braces (c : Byte) (r : Bytes) (h : Plain (c :: r)) (s : Lx) (hr : s.rest = c :: r) :
    (s.char == 123 && s.peek == 123) = false := by
  have hc : s.char = c := by simp [Lx.char, hr]
  have hp : s.peek = r.headD 0 := by simp [Lx.peek, hr]
  rw [hc, hp]
  cases hb : (c == 123 && r.headD 0 == 123) with
  | false => rfl
  | true => simp only [Bool.and_eq_true, beq_iff_eq] at hb; exact absurd hb h.1

theorem plain_head_not_directive (c : Byte) (r : Bytes) (h : Plain (c :: r)) (s : Lx) (hr : s.rest = c :: r) :
    (isDirectiveToken s).1 = false := by
  have hc : s.char = c := by simp [Lx.char, hr]
  unfold isDirectiveToken
  by_cases h64 : c = 64
  · have hnp : hasDirectivePrefix s.rest = false := by
      rw [hr]
      cases hp : hasDirectivePrefix (c :: r) with
      | false => rfl
      | true => exact absurd ⟨h64, hp⟩ h.2.1
    have hneof : s.isEOF = false := by simp [Lx.isEOF, hr]
    rw [hc, h64, hneof, hnp]
    rfl
  · have : (s.char != 64) = true := by rw [hc]; simpa using h64
    rw [this]
    rfl

/-- the token list of non-empty plain text: one HTML token holding the text, then EOF -/
theorem tokenize_plain (c : Byte) (r : Bytes) (hp : Plain (c :: r)) :
    ∃ t e, tokenize (c :: r) = some { toks := [t, e], insideCode := false, panicked := false } ∧
      t.ty = .HTML ∧ t.lit = c :: r ∧ e.ty = .EOF := by
  obtain ⟨s0, hs0⟩ : ∃ s0, s0 = Lx.init (c :: r) := ⟨_, rfl⟩
  have hr0 : s0.rest = c :: r := by rw [hs0]; rfl
  have hhtml : s0.isHTML = true := by rw [hs0]; rfl
  have hpan0 : s0.panicked = false := by rw [hs0]; rfl
  have hws : skipWs s0 = s0 := by simp [skipWs, hhtml]
  -- first step: the HTML token
  have hstep1 : stepAt s0 = (.tok (htmlToken s0).1, (htmlToken s0).2) := by
    unfold stepAt
    rw [if_neg (by simp [Lx.isEOF, hr0]), if_neg (by rw [plain_head_not_braces c r hp s0 hr0]; simp),
      if_neg (by simp [hhtml]), if_neg (by simp [hhtml]),
      if_neg (by rw [plain_head_not_directive c r hp s0 hr0]; simp)]
  have hscan : htmlScan s0.prev [] 0 false s0.rest = ((c :: r).reverse, (c :: r).length, false) := by
    rw [hr0, htmlScan_plain (c :: r) s0.prev [] 0 false hp]; simp
  have ht1 : (htmlToken s0).1.ty = .HTML ∧ (htmlToken s0).1.lit = c :: r := by
    unfold htmlToken
    simp only [emit_ty, emit_lit, hscan]
    simp
  have hs1rest : (htmlToken s0).2.rest = [] := by
    unfold htmlToken
    simp only [emit_rest, hscan]
    rw [hr0]; simp
  have hs1html : (htmlToken s0).2.isHTML = true := by
    unfold htmlToken
    simp only [emit]
    rw [(advance_frame _ _).2.2.1]; exact hhtml
  have hs1pan : (htmlToken s0).2.panicked = false := by
    unfold htmlToken
    simp only [emit, hscan, Bool.or_false]
    rw [(advance_frame _ _).2.2.2.2.2.2]; exact hpan0
  -- second step: EOF
  obtain ⟨s1, hs1⟩ : ∃ s1, s1 = (htmlToken s0).2 := ⟨_, rfl⟩
  rw [← hs1] at hs1rest hs1html hs1pan hstep1
  have hws1 : skipWs s1 = s1 := by simp [skipWs, hs1html]
  have hstep2 : stepAt s1 = (.tok (s1.tokenBegins.newToken .EOF []), s1.tokenBegins) := by
    unfold stepAt
    rw [if_pos (by simp [Lx.isEOF, hs1rest])]
  refine ⟨(htmlToken s0).1, s1.tokenBegins.newToken .EOF [], ?_, ht1.1, ht1.2, by simp [newToken]⟩
  unfold tokenize lexFuel
  have hl : lexAll ((c :: r).length + 2) s0 = some ([(htmlToken s0).1, s1.tokenBegins.newToken .EOF []], s1.tokenBegins) := by
    rw [show (c :: r).length + 2 = (r.length + 1) + 1 + 1 by simp]
    rw [lexAll]
    simp only [nextStep, hws, hstep1, ht1.1]
    rw [if_neg (by decide)]
    rw [lexAll]
    simp only [nextStep, hws1, hstep2]
    simp [newToken]
  rw [← hs0, hl]
  simp [Lx.tokenBegins, hs1html, hs1pan]

end Tw

namespace Tw

/-- the parse of plain text: a program whose only statement is the text -/
theorem parseSource_plain (c : Byte) (r : Bytes) (hp : Plain (c :: r)) :
    ∃ t, t.lit = c :: r ∧ parseSource (c :: r) = .ok { tok := t, stmts := [.html t] } := by
  obtain ⟨t, e, htok, hty, hlit, hety⟩ := tokenize_plain c r hp
  refine ⟨t, hlit, ?_⟩
  unfold parseSource
  rw [htok]
  simp only [Bool.false_eq_true, if_false]
  have hnill : (t.ty == TT.ILLEGAL) = false := by rw [hty]; rfl
  have hnill2 : (e.ty == TT.ILLEGAL) = false := by rw [hety]; rfl
  have hinit : initParser [t, e] 0 = { toks := [t, e] } := by
    simp [initParser, PS.noteIllegal, PS.cur, PS.peek, hnill, hnill2]
  rw [hinit]
  have hfuel : parseFuel [t, e] = 22 + 1 + 1 := by simp [parseFuel]
  have hcur : ({ toks := [t, e] } : PS).curIs .EOF = false := by simp [PS.curIs, PS.cur, hty]
  have hstmt : parseStatement (22 + 1) ({ toks := [t, e] } : PS) = (.html t, { toks := [t, e] }) := by
    show statementBody (parseExpression 22) (parseExprList 22) (parseBody 22) (parseIfTail 22) (parseSlots 22)
      ({ toks := [t, e] } : PS) = _
    simp [statementBody, PS.cur, hty]
  have hill : ({ toks := [t, e] } : PS).curIs .ILLEGAL = false := by simp [PS.curIs, PS.cur, hty]
  have hnext : ({ toks := [t, e] } : PS).next = { toks := [e] } := by simp [PS.next]
  have hcur2 : ({ toks := [e] } : PS).curIs .EOF = true := by simp [PS.curIs, PS.cur, hety]
  have hloop : parseProgramLoop (parseFuel [t, e]) [] ({ toks := [t, e] } : PS) = (some [.html t], { toks := [e] }) := by
    rw [hfuel, parseProgramLoop]
    simp only [hcur, Bool.false_eq_true, if_false, hstmt, hill, Stmt.isBad, List.nil_append, hnext]
    rw [parseProgramLoop]
    simp [hcur2]
  rw [hloop]
  simp [finishParse, PS.cur]

/-- **plain text renders to itself** (C05): for every byte string without "{{" and without a
    directive keyword after '@' — whatever else it contains: "}}", single braces, backslashes,
    CR, LF, NUL, bytes ≥ 0x80 — and every data map that converts -/
theorem evaluateString_plain (custom : List ((VType × Bytes) × Nat)) (s : Bytes) (hp : Plain s)
    (data : List (Bytes × GoVal)) (env : Env) (henv : envFromMap data = .ok env) :
    ∃ out, evaluateStringPure custom s data = .ok out ∧ out = s := by
  cases s with
  | nil =>
    refine ⟨[], ?_, rfl⟩
    unfold evaluateStringPure
    have h1 : parseSource [] = .ok { tok := { ty := .EOF, lit := [], pos := {} }, stmts := [] } := by rfl
    rw [h1]
    simp only [envOrFail, henv]
    rw [show evalFuel = 99999 + 1 from rfl, evalProg_nil]
    simp [resToOut]
  | cons c r =>
    obtain ⟨t, h3, h1⟩ := parseSource_plain c r hp
    refine ⟨c :: r, ?_, rfl⟩
    unfold evaluateStringPure
    rw [h1]
    simp only [envOrFail, henv]
    have e1 : evalProg (99998 + 1 + 1) { custom := custom } env [Stmt.html t] [] = .ok (t.lit, env) := by
      rw [evalProg_cons, evalStmt_html, Res.bind_ok, evalProg_nil]; simp
    rw [show evalFuel = 99998 + 1 + 1 from rfl, e1]
    simp [resToOut, h3]

end Tw
