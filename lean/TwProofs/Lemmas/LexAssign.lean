/-
  TwProofs.Lemmas.LexAssign — "{{" and "}}" as single steps, "=" in code, and the five tokens of
  `{{ name = "text" }}` (C04).
-/
import TwProofs.Lemmas.LexDirArgs
namespace Tw
open Lx

/-- "{{" in text mode, not the start of a comment -/
theorem lex_open (s : Lx) (x : Bytes) (hh : s.isHTML = true) (hr : s.rest = 123 :: 123 :: x) (hx : x.headD 0 ≠ 45) :
    ∃ t s1, nextStep s = (.tok t, s1) ∧ key t = (.LBRACES, [123, 123]) ∧ t.ty ≠ .EOF ∧ s1.rest = x ∧ s1.prev = 123 ∧
      mode s1 = (false, s.isDirective, s.parens, s.braces, s.panicked) := by
  have hws : skipWs s = s := by simp [skipWs, hh]
  have hchar : s.char = 123 := by simp [Lx.char, hr]
  have hpeek : s.peek = 123 := by simp [Lx.peek, hr]
  obtain ⟨b1, b2, b3⟩ := emit_after ({ st := { s with isHTML := false }, n := 2, ty := .LBRACES, lit := [123, 123] } : TokDesc)
    [123, 123] x (by simp) (by simp [hr]) rfl
  have hbt : bracesToken s .LBRACES [123, 123] =
      ({ st := { s with isHTML := false }, n := 2, ty := .LBRACES, lit := [123, 123] } : TokDesc).emit := rfl
  have hnc : ¬ (((bracesToken s .LBRACES [123, 123]).2.char == 45 && (bracesToken s .LBRACES [123, 123]).2.peek == 45) = true) := by
    rw [hbt]
    simp only [Lx.char, b1]
    intro h
    simp only [Bool.and_eq_true, beq_iff_eq] at h
    exact hx h.1
  have step1 : nextStep s = (.tok (bracesToken s .LBRACES [123, 123]).1, (bracesToken s .LBRACES [123, 123]).2) := by
    unfold nextStep; rw [hws]; unfold stepAt
    rw [if_neg (by simp [Lx.isEOF, hr]), if_pos (by simp [hchar, hpeek]), if_neg hnc]
  refine ⟨_, _, step1, by unfold bracesToken; rw [emit_key], by unfold bracesToken; rw [emit_ty]; decide, ?_, ?_, ?_⟩
  · rw [hbt, b1]
  · rw [hbt, b3]; rfl
  · rw [hbt, b2]; rfl

/-- "}}" after any white space, in code, with no brace open: back to text mode -/
theorem code_close_step (s : Lx) (g tl : Bytes) (hh : s.isHTML = false) (hb : s.braces = 0) (hg : allWs g)
    (hr : s.rest = g ++ (125 :: 125 :: tl)) :
    ∃ t s1, nextStep s = (.tok t, s1) ∧ key t = (.RBRACES, [125, 125]) ∧ t.ty ≠ .EOF ∧ s1.rest = tl ∧ s1.prev = 125 ∧
      mode s1 = (true, s.isDirective, s.parens, 0, s.panicked) := by
  obtain ⟨j1, j2⟩ := skipWs_code s hh g _ hg hr (by simp only [List.headD_cons]; decide)
  have hbr : (skipWs s).braces = 0 := by rw [mode_braces j2]; exact hb
  have hc3 : (skipWs s).char = 125 := by simp [Lx.char, j1]
  have hp3 : (skipWs s).peek = 125 := by simp [Lx.peek, j1]
  have step3 := stepAt_code (skipWs s) (by rw [mode_html j2]; exact hh) (by rw [j1]; simp) (by rw [hc3]; simp)
  have hcs3 : codeStepDesc (skipWs s) = { st := { skipWs s with isHTML := true }, n := 2, ty := .RBRACES, lit := [125, 125] } := by
    unfold codeStepDesc
    rw [if_pos (by simp [hc3, hp3, hbr])]
  obtain ⟨e1, e2, e3⟩ := emit_after (codeStepDesc (skipWs s)) [125, 125] tl (by simp) (by rw [hcs3]; simpa using j1) (by rw [hcs3]; rfl)
  refine ⟨(codeStepDesc (skipWs s)).emit.1, (codeStepDesc (skipWs s)).emit.2, by unfold nextStep; exact step3, ?_, ?_, e1, by rw [e3]; rfl, ?_⟩
  · unfold TokDesc.emit; rw [emit_key, hcs3]
  · unfold TokDesc.emit; rw [emit_ty, hcs3]; exact fun h => by cases h
  · rw [e2, hcs3]
    simp only [mode]
    rw [mode_dir j2, mode_parens j2, mode_pan j2, hbr]

theorem codeStepDesc_assign (s : Lx) (x : Bytes) (hr : s.rest = 61 :: x) (hx : x.headD 0 ≠ 61) :
    codeStepDesc s = { st := s, n := 1, ty := .ASSIGN, lit := [61] } := by
  have hc : s.char = 61 := by simp [Lx.char, hr]
  have hp : s.peek = x.headD 0 := by
    cases x with
    | nil => simp [Lx.peek, hr]
    | cons a t => simp [Lx.peek, hr]
  unfold codeStepDesc
  rw [if_neg (by rw [hc]; simp)]
  unfold codeDesc
  rw [hc]
  have : simpleToken 61 = none := by decide
  simp only [this]
  unfold bracketDesc
  rw [hc]
  simp only [show ((61 : Byte) == 123) = false from by decide, show ((61 : Byte) == 125) = false from by decide,
    show ((61 : Byte) == 40) = false from by decide, show ((61 : Byte) == 41) = false from by decide,
    show ((61 : Byte) == 34 || (61 : Byte) == 39) = false from by decide, Bool.false_eq_true, if_false]
  unfold opDesc
  rw [hc, hp]
  have hne : (x.headD 0 == 61) = false := by simpa using hx
  simp only [show ((61 : Byte) == 60) = false from by decide, show ((61 : Byte) == 62) = false from by decide,
    show ((61 : Byte) == 33) = false from by decide, show ((61 : Byte) == 45) = false from by decide,
    show ((61 : Byte) == 43) = false from by decide, Bool.false_eq_true, if_false, beq_self_eq_true, if_true, hne]

/-- "=" (not "==") after any white space, in code -/
theorem code_assign_step (s : Lx) (g x : Bytes) (hh : s.isHTML = false) (hg : allWs g) (hr : s.rest = g ++ (61 :: x))
    (hx : x.headD 0 ≠ 61) :
    ∃ t s1, nextStep s = (.tok t, s1) ∧ key t = (.ASSIGN, [61]) ∧ t.ty ≠ .EOF ∧ After s s1 x 61 := by
  obtain ⟨j1, j2⟩ := skipWs_code s hh g _ hg hr (by simp only [List.headD_cons]; decide)
  have hd4 := codeStepDesc_assign (skipWs s) x j1 hx
  have st4 := stepAt_code (skipWs s) (by rw [mode_html j2]; exact hh) (by rw [j1]; simp) (by simp [Lx.char, j1])
  obtain ⟨z1, z2, z3⟩ := emit_after (codeStepDesc (skipWs s)) [61] x (by simp) (by rw [hd4]; simpa using j1) (by rw [hd4]; rfl)
  refine ⟨(codeStepDesc (skipWs s)).emit.1, (codeStepDesc (skipWs s)).emit.2, by unfold nextStep; exact st4, ?_, ?_, ⟨z1, ?_, by rw [z3]; rfl⟩⟩
  · unfold TokDesc.emit; rw [emit_key, hd4]
  · unfold TokDesc.emit; rw [emit_ty, hd4]; exact fun h => by cases h
  · rw [z2, hd4, j2]

/-- `{{ g1 n g2 = g3 q v q g4 }}` -/
def assignSrc (g1 n g2 g3 : Bytes) (q : Byte) (v g4 : Bytes) : Bytes :=
  [123, 123] ++ g1 ++ n ++ g2 ++ [61] ++ g3 ++ strLit q v ++ g4 ++ [125, 125]

def assignKeys (n v : Bytes) : List (TT × Bytes) :=
  [(.LBRACES, [123, 123]), (.IDENT, n), (.ASSIGN, [61]), (.STR, v), (.RBRACES, [125, 125])]

theorem lex_assign (s : Lx) (g1 n g2 g3 : Bytes) (q : Byte) (v g4 tl : Bytes) (hh : s.isHTML = true) (hb : s.braces = 0)
    (hg1 : allWs g1) (hg2 : allWs g2) (hg3 : allWs g3) (hg4 : allWs g4) (hn : isName n) (hq : q = 34 ∨ q = 39) (hp : PlainStr q v)
    (hr : s.rest = assignSrc g1 n g2 g3 q v g4 ++ tl) :
    ∃ toks s5, Run s toks s5 ∧ toks.map key = assignKeys n v ∧ s5.rest = tl ∧ s5.prev = 125 ∧
      mode s5 = (true, s.isDirective, s.parens, 0, s.panicked) := by
  obtain ⟨⟨c, cv, hcv, hc⟩, hall, hkw⟩ := hn
  have hnn : isName n := ⟨⟨c, cv, hcv, hc⟩, hall, hkw⟩
  have hnot := identCh_not_special hc
  have hr' : s.rest = 123 :: 123 :: (g1 ++ (n ++ (g2 ++ (61 :: (g3 ++ (q :: (v ++ q :: (g4 ++ (125 :: 125 :: tl))))))))) := by
    rw [hr]; simp [assignSrc, strLit, List.append_assoc]
  have hx1 : (g1 ++ (n ++ (g2 ++ (61 :: (g3 ++ (q :: (v ++ q :: (g4 ++ (125 :: 125 :: tl))))))))).headD 0 ≠ 45 := by
    cases g1 with
    | nil => simp only [List.nil_append, hcv, List.cons_append, List.headD_cons]; exact hnot.2.2.2.2.2.2.2.2.2.2.1
    | cons w t =>
      have hw : isWs w = true := hg1 w List.mem_cons_self
      simp only [List.cons_append, List.headD_cons]
      intro e; rw [e] at hw; cases hw
  obtain ⟨t1, s1, st1, k1, ne1, r1, _, m1⟩ := lex_open s _ hh hr' hx1
  obtain ⟨a1, a2, a3, a4, a5⟩ := mode_fields m1
  -- the name
  have hx2 : (isIdentCh ((g2 ++ (61 :: (g3 ++ (q :: (v ++ q :: (g4 ++ (125 :: 125 :: tl))))))).headD 0) ||
      isNumberCh ((g2 ++ (61 :: (g3 ++ (q :: (v ++ q :: (g4 ++ (125 :: 125 :: tl))))))).headD 0)) = false := by
    cases g2 with
    | nil => simp only [List.nil_append, List.headD_cons]; decide
    | cons w t =>
      have hw : isWs w = true := hg2 w List.mem_cons_self
      simp only [List.cons_append, List.headD_cons]
      rw [ws_not_ident hw, ws_not_number hw]; rfl
  obtain ⟨t2, s2, st2, k2, ne2, b2⟩ := code_word_step s1 g1 n _ a1 hg1 (isName_word hnn) r1 hx2
  have h2 : s2.isHTML = false := by rw [mode_html b2.md]; exact a1
  -- "="
  have hx3 : (g3 ++ (q :: (v ++ q :: (g4 ++ (125 :: 125 :: tl))))).headD 0 ≠ 61 := by
    cases g3 with
    | nil => simp only [List.nil_append, List.headD_cons]; rcases hq with h | h <;> subst h <;> decide
    | cons w t =>
      have hw : isWs w = true := hg3 w List.mem_cons_self
      simp only [List.cons_append, List.headD_cons]
      intro e; rw [e] at hw; cases hw
  obtain ⟨t3, s3, st3, k3, ne3, b3⟩ := code_assign_step s2 g2 _ h2 hg2 b2.rest hx3
  have h3 : s3.isHTML = false := by rw [mode_html b3.md]; exact h2
  -- the literal
  obtain ⟨t4, s4, st4, k4, ne4, b4⟩ := code_str_step s3 g3 q v (g4 ++ (125 :: 125 :: tl)) h3 hg3 hq hp b3.rest
  have h4 : s4.isHTML = false := by rw [mode_html b4.md]; exact h3
  have br4 : s4.braces = 0 := by rw [mode_braces b4.md, mode_braces b3.md, mode_braces b2.md, a4]; exact hb
  -- "}}"
  obtain ⟨t5, s5, st5, k5, ne5, r5, pv5, m5⟩ := code_close_step s4 g4 tl h4 br4 hg4 b4.rest
  refine ⟨[t1, t2, t3, t4, t5], s5, ?_, ?_, r5, pv5, ?_⟩
  · exact Run.cons _ _ _ _ _ st1 ne1 (Run.cons _ _ _ _ _ st2 ne2 (Run.cons _ _ _ _ _ st3 ne3 (Run.cons _ _ _ _ _ st4 ne4
      (Run.cons _ _ _ _ _ st5 ne5 (Run.nil _)))))
  · have hk2 : key t2 = (.IDENT, n) := by rw [k2, hkw]
    simp [assignKeys, k1, hk2, k3, k4, k5]
  · rw [m5, mode_dir b4.md, mode_dir b3.md, mode_dir b2.md, a2, mode_parens b4.md, mode_parens b3.md, mode_parens b2.md, a3,
      mode_pan b4.md, mode_pan b3.md, mode_pan b2.md, a5]

end Tw
