/-
  TwProofs.Lemmas.ParseDir — the parser on `@use("x")`, `@reserve("x")` and `@insert("x", "y")`,
  from any parser state (the tables `useName`, `inserts`, `reserves`, `nextId` are carried along).
-/
import TwProofs.Lemmas.TextEach
namespace Tw

def Clean (l : List Token) : Prop := ∀ x ∈ l, x.ty ≠ .ILLEGAL

theorem Clean.cons {t : Token} {l : List Token} (ht : t.ty ≠ .ILLEGAL) (hl : Clean l) : Clean (t :: l) := noill_cons ht hl
theorem Clean.tail {t : Token} {l : List Token} (h : Clean (t :: l)) : Clean l := fun x hx => h x (List.mem_cons_of_mem _ hx)

/-- `nextToken` from any state: the first token is dropped, nothing is recorded -/
theorem next_toks (p : PS) (t t2 : Token) (r : List Token) (hp : p.toks = t :: t2 :: r) (h : Clean r) :
    p.next = { p with toks := t2 :: r } := by
  unfold PS.next
  rw [hp]
  cases r with
  | nil => rfl
  | cons n r' =>
    have : (n.ty == TT.ILLEGAL) = false := by simpa using h n (by simp)
    simp [PS.noteIllegal, this]

theorem cur_of (p : PS) (t : Token) (r : List Token) (hp : p.toks = t :: r) : p.cur = t := by simp [PS.cur, hp]
theorem peek_of (p : PS) (t t2 : Token) (r : List Token) (hp : p.toks = t :: t2 :: r) : p.peek = t2 := by simp [PS.peek, hp]

/-- a string literal followed by ")" is the whole expression -/
theorem parse_str_rparen (g : Nat) (p : PS) (t3 t4 : Token) (rest : List Token) (hp : p.toks = t3 :: t4 :: rest)
    (h3 : t3.ty = .STR) (h4 : t4.ty = .RPAREN) :
    parseExpression (g + 2) LOWEST p = (.str t3 t3.lit, p) := by
  rw [parseExpression_succ]
  have hc := cur_of p t3 _ hp
  have hpb : prefixBody (parseExpression (g + 1)) (parseExprList (g + 1)) (parseObjLoop (g + 1)) p = some (.str t3 t3.lit, p) := by
    unfold prefixBody
    simp [hc, h3]
  rw [hpb]
  simp only []
  rw [prattLoop_succ]
  have : p.peekIs .RPAREN = true := by simp [PS.peekIs, peek_of p t3 t4 rest hp, h4]
  simp [this]

/-- the name a layout is looked up under: `~x` is `layouts/x` -/
def layoutName (n : Bytes) : Bytes := if n.headD 0 == 126 then b "layouts" ++ [47] ++ n.drop 1 else n

/-- `@use("name")` -/
theorem parse_use_stmt (g : Nat) (p : PS) (t1 t2 t3 t4 : Token) (rest : List Token)
    (hp : p.toks = t1 :: t2 :: t3 :: t4 :: rest) (h1 : t1.ty = .USE) (h2 : t2.ty = .LPAREN) (h3 : t3.ty = .STR) (h4 : t4.ty = .RPAREN)
    (hclean : Clean rest) (hne : t3.lit ≠ []) :
    parseStatement (g + 1) p =
      (.use t1 (layoutName t3.lit), { p with toks := t3 :: t4 :: rest, useName := some (t1, layoutName t3.lit) }) := by
  have c4 : Clean (t4 :: rest) := Clean.cons (by rw [h4]; decide) hclean
  have c3 : Clean (t3 :: t4 :: rest) := Clean.cons (by rw [h3]; decide) c4
  show statementBody (parseExpression g) (parseExprList g) (parseBody g) (parseIfTail g) (parseSlots g) p = _
  have hc : p.cur = t1 := cur_of p t1 _ hp
  unfold statementBody
  simp only [hc, h1]
  have e1 := expectPeek_ok p .LPAREN (by simp [PS.peekIs, peek_of p t1 t2 _ hp, h2])
  rw [e1, next_toks p t1 t2 _ hp c3]
  simp only [Bool.not_true, Bool.false_eq_true, if_false]
  rw [next_toks { p with toks := t2 :: t3 :: t4 :: rest } t2 t3 _ rfl c4]
  unfold aliasPath
  have hcur : ({ p with toks := t3 :: t4 :: rest } : PS).cur = t3 := rfl
  simp only [hcur]
  have : t3.lit.isEmpty = false := by cases h : t3.lit with
    | nil => exact absurd h hne
    | cons a r => rfl
  simp only [this, Bool.false_eq_true, if_false]
  unfold layoutName
  split <;> rfl

/-- `@reserve("name")` -/
theorem parse_reserve_stmt (g : Nat) (p : PS) (t1 t2 t3 t4 : Token) (rest : List Token)
    (hp : p.toks = t1 :: t2 :: t3 :: t4 :: rest) (h1 : t1.ty = .RESERVE) (h2 : t2.ty = .LPAREN) (h4 : t4.ty = .RPAREN)
    (h3 : t3.ty ≠ .ILLEGAL) (hclean : Clean rest) :
    parseStatement (g + 1) p =
      (.reserve t1 t3.lit p.nextId,
        { p with toks := t3 :: t4 :: rest, reserves := mapSet p.reserves t3.lit p.nextId, nextId := p.nextId + 1 }) := by
  have c4 : Clean (t4 :: rest) := Clean.cons (by rw [h4]; decide) hclean
  have c3 : Clean (t3 :: t4 :: rest) := Clean.cons h3 c4
  show statementBody (parseExpression g) (parseExprList g) (parseBody g) (parseIfTail g) (parseSlots g) p = _
  have hc : p.cur = t1 := cur_of p t1 _ hp
  unfold statementBody
  simp only [hc, h1]
  have e1 := expectPeek_ok p .LPAREN (by simp [PS.peekIs, peek_of p t1 t2 _ hp, h2])
  rw [e1, next_toks p t1 t2 _ hp c3]
  simp only [Bool.not_true, Bool.false_eq_true, if_false]
  rw [next_toks { p with toks := t2 :: t3 :: t4 :: rest } t2 t3 _ rfl c4]
  rfl

/-- `@insert("name", "text")` with a name not inserted before -/
theorem parse_insert_stmt (g : Nat) (p : PS) (t1 t2 t3 t4 t5 t6 : Token) (rest : List Token)
    (hp : p.toks = t1 :: t2 :: t3 :: t4 :: t5 :: t6 :: rest) (h1 : t1.ty = .INSERT) (h2 : t2.ty = .LPAREN) (h3 : t3.ty = .STR)
    (h4 : t4.ty = .COMMA) (h5 : t5.ty = .STR) (h6 : t6.ty = .RPAREN) (hclean : Clean rest)
    (hnew : mapGet p.inserts t3.lit = none) :
    parseStatement (g + 3) p =
      (.insert t1 t3.lit (some (.str t5 t5.lit)) none,
        { p with toks := t5 :: t6 :: rest,
                 inserts := mapSet p.inserts t3.lit { tok := t1, name := t3.lit, arg := some (.str t5 t5.lit), block := none } }) := by
  have c6 : Clean (t6 :: rest) := Clean.cons (by rw [h6]; decide) hclean
  have c5 : Clean (t5 :: t6 :: rest) := Clean.cons (by rw [h5]; decide) c6
  have c4 : Clean (t4 :: t5 :: t6 :: rest) := Clean.cons (by rw [h4]; decide) c5
  have c3 : Clean (t3 :: t4 :: t5 :: t6 :: rest) := Clean.cons (by rw [h3]; decide) c4
  show statementBody (parseExpression (g + 2)) (parseExprList (g + 2)) (parseBody (g + 2)) (parseIfTail (g + 2)) (parseSlots (g + 2)) p = _
  have hc : p.cur = t1 := cur_of p t1 _ hp
  unfold statementBody
  simp only [hc, h1]
  unfold parseInsertStmt
  have e1 := expectPeek_ok p .LPAREN (by simp [PS.peekIs, peek_of p t1 t2 _ hp, h2])
  rw [e1, next_toks p t1 t2 _ hp c3]
  simp only [Bool.not_true, Bool.false_eq_true, if_false]
  rw [next_toks { p with toks := t2 :: t3 :: t4 :: t5 :: t6 :: rest } t2 t3 _ rfl c4]
  have hcur : ({ p with toks := t3 :: t4 :: t5 :: t6 :: rest } : PS).cur = t3 := rfl
  have hins : ({ p with toks := t3 :: t4 :: t5 :: t6 :: rest } : PS).inserts = p.inserts := rfl
  simp only [hcur, hnew, Option.isSome_none, Bool.false_eq_true, if_false]
  have hpk : ({ p with toks := t3 :: t4 :: t5 :: t6 :: rest } : PS).peekIs .COMMA = true := by simp [PS.peekIs, PS.peek, h4]
  simp only [hpk, if_true]
  rw [next_toks { p with toks := t3 :: t4 :: t5 :: t6 :: rest } t3 t4 _ rfl c5]
  rw [next_toks { p with toks := t4 :: t5 :: t6 :: rest } t4 t5 _ rfl c6]
  rw [parse_str_rparen g { p with toks := t5 :: t6 :: rest } t5 t6 rest rfl h5 h6]
  simp [Expr.isBad, hc]

/-- a token that starts no statement is skipped -/
theorem parse_rparen_stmt (g : Nat) (p : PS) (t : Token) (r : List Token) (hp : p.toks = t :: r) (h : t.ty = .RPAREN) :
    parseStatement (g + 1) p = (.bad, p) := by
  show statementBody (parseExpression g) (parseExprList g) (parseBody g) (parseIfTail g) (parseSlots g) p = _
  have hc : p.cur = t := cur_of p t _ hp
  unfold statementBody
  simp only [hc, h]

/-- a text token is a text statement -/
theorem parse_html_stmt (g : Nat) (p : PS) (t : Token) (r : List Token) (hp : p.toks = t :: r) (h : t.ty = .HTML) :
    parseStatement (g + 1) p = (.html t, p) := by
  show statementBody (parseExpression g) (parseExprList g) (parseBody g) (parseIfTail g) (parseSlots g) p = _
  have hc : p.cur = t := cur_of p t _ hp
  unfold statementBody
  simp only [hc, h]

/-! ### two iterations of the program loop: the statement, then the ")" left over -/

theorem curIs_of (p : PS) (t : Token) (r : List Token) (hp : p.toks = t :: r) (ty : TT) : p.curIs ty = (t.ty == ty) := by
  simp [PS.curIs, cur_of p t r hp]

/-- the loop over a statement that ends with its cursor on the token before ")" (as `@use`,
    `@reserve` and the expression form of `@insert` do) -/
theorem loop_stmt_rparen (f : Nat) (acc : List Stmt) (p p1 : PS) (st : Stmt) (tf ta t4 tn : Token) (r rest : List Token)
    (hp : p.toks = tf :: r) (hf : tf.ty ≠ .EOF)
    (hst : parseStatement (f + 2) p = (st, p1)) (hbad : st.isBad = false)
    (hp1 : p1.toks = ta :: t4 :: tn :: rest) (ha : ta.ty ≠ .ILLEGAL) (h4 : t4.ty = .RPAREN) (hclean : Clean (tn :: rest)) :
    parseProgramLoop (f + 3) acc p = parseProgramLoop (f + 1) (acc ++ [st]) { p1 with toks := tn :: rest } := by
  have c4 : Clean (t4 :: tn :: rest) := Clean.cons (by rw [h4]; decide) hclean
  rw [show f + 3 = (f + 2) + 1 from rfl, parseProgramLoop]
  have e0 : p.curIs .EOF = false := by rw [curIs_of p tf r hp]; simpa using hf
  simp only [e0, Bool.false_eq_true, if_false, hst]
  have e1 : p1.curIs .ILLEGAL = false := by rw [curIs_of p1 ta _ hp1]; simpa using ha
  simp only [e1, Bool.false_eq_true, if_false, hbad]
  rw [next_toks p1 ta t4 _ hp1 hclean]
  rw [show f + 2 = (f + 1) + 1 from rfl, parseProgramLoop]
  have e2 : ({ p1 with toks := t4 :: tn :: rest } : PS).curIs .EOF = false := by simp [PS.curIs, PS.cur, h4]
  simp only [e2, Bool.false_eq_true, if_false]
  rw [parse_rparen_stmt f { p1 with toks := t4 :: tn :: rest } t4 _ rfl h4]
  have e3 : ({ p1 with toks := t4 :: tn :: rest } : PS).curIs .ILLEGAL = false := by simp [PS.curIs, PS.cur, h4]
  simp only [e3, Bool.false_eq_true, if_false, Stmt.isBad, if_true]
  rw [next_toks { p1 with toks := t4 :: tn :: rest } t4 tn rest rfl hclean.tail]

end Tw
