/-
  TwProofs.Lemmas.TextVars — templates made of text, comments and `{{ name }}` blocks, in general,
  from the source bytes to the rendered output: the lexer yields text tokens and the three tokens
  of each block whatever white space surrounds the name, the parser one statement per text token
  and per block, and the render is the text with the value of each name in its place
  (C05, C12, C01).
-/
import TwProofs.Lemmas.TextRuns
import TwProofs.Lemmas.LexWs
import TwProofs.Lemmas.SimpleBlock
import TwProofs.Lemmas.PrattRoundTrip
namespace Tw
open Lx

/-! ### the lexer on one `{{ name }}` block -/

theorem braces_advance (s : Lx) (n : Nat) : (advance s n).braces = s.braces := (advance_frame n s).2.2.2.2.2.1

/-- in text mode a `NextToken` body leaves the brace counter alone -/
theorem nextStep_html_braces (s : Lx) (hh : s.isHTML = true) : (nextStep s).2.braces = s.braces := by
  have hws : skipWs s = s := by simp [skipWs, hh]
  unfold nextStep
  rw [hws]
  unfold stepAt
  split
  · rfl
  split
  · split
    · -- a comment
      unfold skipComment bracesToken emit
      simp only []
      split
      · simp [braces_advance, readChar_eq_advance, Lx.tokenBegins]
      · simp [braces_advance, readChar_eq_advance, Lx.tokenBegins]
    · unfold bracesToken emit; simp [braces_advance, Lx.tokenBegins]
  split
  · rename_i h; simp [hh] at h
  split
  · rename_i h; simp [hh] at h
  split
  · unfold directiveToken
    simp only []
    have hd : (directiveDesc s).st.braces = s.braces := by
      unfold directiveDesc
      split
      · rfl
      · simp only []
        split
        · simp [illegalDesc, braces_advance, Lx.tokenBegins]
        · rfl
    split
    · unfold TokDesc.emit emit; simp [braces_advance, Lx.tokenBegins, hd]
    · unfold TokDesc.emit emit; simp [braces_advance, Lx.tokenBegins, hd]
  · unfold htmlToken emit; simp [braces_advance, Lx.tokenBegins]

/-- a name: a letter or underscore, then letters, digits, underscores; not a keyword -/
def isName (n : Bytes) : Prop :=
  (∃ c v, n = c :: v ∧ isIdentCh c = true) ∧ (∀ x ∈ n, (isIdentCh x || isNumberCh x) = true) ∧ lookupIdent n = .IDENT

instance (n : Bytes) : Decidable (isName n) := by
  unfold isName
  have : Decidable (∃ c v, n = c :: v ∧ isIdentCh c = true) := by
    cases n with
    | nil => exact isFalse (by simp)
    | cons c v => exact if h : isIdentCh c = true then isTrue ⟨c, v, rfl, h⟩ else isFalse (by simpa using h)
  exact inferInstance

theorem identCh_not_special {c : Nat} (h : isIdentCh c = true) :
    simpleToken c = none ∧ c ≠ 123 ∧ c ≠ 125 ∧ c ≠ 40 ∧ c ≠ 41 ∧ c ≠ 34 ∧ c ≠ 39 ∧ c ≠ 60 ∧ c ≠ 62 ∧ c ≠ 33 ∧ c ≠ 45 ∧ c ≠ 43 ∧ c ≠ 61 ∧
      isWs c = false := by
  have hc : (97 ≤ c ∧ c ≤ 122) ∨ (65 ≤ c ∧ c ≤ 90) ∨ c = 95 := by
    simp only [isIdentCh, Bool.or_eq_true, Bool.and_eq_true, decide_eq_true_eq, beq_iff_eq] at h
    rcases h with (h | h) | h
    · exact Or.inl h
    · exact Or.inr (Or.inl h)
    · exact Or.inr (Or.inr h)
  refine ⟨?_, by omega, by omega, by omega, by omega, by omega, by omega, by omega, by omega, by omega, by omega, by omega, by omega, ?_⟩
  · unfold simpleToken simpleTokens
    have e : ∀ k : Nat, (k = 37 ∨ k = 42 ∨ k = 44 ∨ k = 46 ∨ k = 47 ∨ k = 58 ∨ k = 59 ∨ k = 63 ∨ k = 91 ∨ k = 93) → (k == c) = false := by
      intro k hk; simp only [beq_eq_false_iff_ne, ne_eq]; omega
    simp [List.find?, e]
  · have : c ≠ 32 ∧ c ≠ 9 ∧ c ≠ 10 ∧ c ≠ 13 := by omega
    simp [isWs, this]

/-- the identifier token: in code, at the first byte of a name that is followed by something that
    is neither a letter nor a digit -/
theorem codeStepDesc_name (s : Lx) (n x : Bytes) (hn : isName n) (hr : s.rest = n ++ x)
    (hx : (isIdentCh (x.headD 0) || isNumberCh (x.headD 0)) = false) :
    (codeStepDesc s).n = n.length ∧ (codeStepDesc s).ty = .IDENT ∧ (codeStepDesc s).lit = n ∧ (codeStepDesc s).st = s := by
  obtain ⟨⟨c, v, hcv, hc⟩, hall, hkw⟩ := hn
  obtain ⟨q1, q2, q3, q4, q5, q6, q7, q8, q9, q10, q11, q12, q13, _⟩ := identCh_not_special hc
  have hchar : s.char = c := by simp [Lx.char, hr, hcv]
  have htw : s.rest.takeWhile (fun x => isIdentCh x || isNumberCh x) = n := by
    rw [hr]
    have : ∀ (l : Bytes), (∀ y ∈ l, (isIdentCh y || isNumberCh y) = true) → (l ++ x).takeWhile (fun x => isIdentCh x || isNumberCh x) = l := by
      intro l
      induction l with
      | nil =>
        intro _
        cases x with
        | nil => rfl
        | cons a t => simp only [List.headD_cons] at hx; simp [List.takeWhile_cons, hx]
      | cons a t ih =>
        intro hl
        have ha := hl a List.mem_cons_self
        simp only [List.cons_append, List.takeWhile_cons, ha, if_true]
        rw [ih (fun y hy => hl y (List.mem_cons_of_mem _ hy))]
    exact this n hall
  have hcd : codeStepDesc s = wordDesc s := by
    unfold codeStepDesc
    rw [if_neg (by rw [hchar]; simp [q3])]
    unfold codeDesc
    rw [hchar, q1]
    simp only []
    unfold bracketDesc
    rw [hchar]
    have q67 : (c == 34 || c == 39) = false := by simp [q6, q7]
    simp only [beq_iff_eq, q2, q3, q4, q5, q67, if_false, Bool.false_eq_true]
    unfold opDesc
    rw [hchar]
    simp only [beq_iff_eq, q8, q9, q10, q11, q12, q13, if_false]
  rw [hcd]
  unfold wordDesc
  rw [hchar, if_pos hc, htw]
  exact ⟨rfl, hkw, rfl, rfl⟩

/-- **the three tokens of `{{ name }}`**, whatever white space surrounds the name: from text mode
    with the brace counter at zero the lexer returns LBRACES, IDENT with the name as literal and
    RBRACES, and is back in text mode right behind the block -/
theorem lex_print (s : Lx) (g1 n g2 tl : Bytes) (hh : s.isHTML = true) (hb : s.braces = 0)
    (hg1 : allWs g1) (hg2 : allWs g2) (hn : isName n)
    (hr : s.rest = [123, 123] ++ g1 ++ n ++ g2 ++ [125, 125] ++ tl) :
    ∃ t1 t2 t3 s3, Run s [t1, t2, t3] s3 ∧ key t1 = (.LBRACES, [123, 123]) ∧ key t2 = (.IDENT, n) ∧ key t3 = (.RBRACES, [125, 125]) ∧
      s3.rest = tl ∧ s3.isHTML = true ∧ s3.braces = 0 ∧ s3.panicked = s.panicked ∧ s3.prev = 125 ∧
      s3.isDirective = s.isDirective ∧ s3.parens = s.parens := by
  obtain ⟨⟨c, v, hcv, hc⟩, hall, hkw⟩ := hn
  have hnn : isName n := ⟨⟨c, v, hcv, hc⟩, hall, hkw⟩
  obtain ⟨_, _, _, _, _, _, _, _, _, _, q11, _, _, qws⟩ := identCh_not_special hc
  -- step 1: "{{"
  have hws : skipWs s = s := by simp [skipWs, hh]
  have hchar : s.char = 123 := by simp [Lx.char, hr]
  have hpeek : s.peek = 123 := by simp [Lx.peek, hr]
  have hd1 := emit_after ({ st := { s with isHTML := false }, n := 2, ty := .LBRACES, lit := [123, 123] } : TokDesc)
    [123, 123] (g1 ++ n ++ g2 ++ [125, 125] ++ tl) (by simp) (by simp [hr]) rfl
  obtain ⟨b1, b2, b3⟩ := hd1
  have hbt : bracesToken s .LBRACES [123, 123] =
      ({ st := { s with isHTML := false }, n := 2, ty := .LBRACES, lit := [123, 123] } : TokDesc).emit := rfl
  have hnc : ¬ (((bracesToken s .LBRACES [123, 123]).2.char == 45 && (bracesToken s .LBRACES [123, 123]).2.peek == 45) = true) := by
    rw [hbt]
    simp only [Lx.char, b1]
    intro h
    simp only [Bool.and_eq_true, beq_iff_eq] at h
    cases g1 with
    | nil =>
      rw [hcv] at h
      simp only [List.nil_append, List.cons_append, List.headD_cons] at h
      exact q11 h.1
    | cons w t =>
      have hw : isWs w = true := hg1 w List.mem_cons_self
      simp only [List.cons_append, List.headD_cons] at h
      rw [h.1] at hw; cases hw
  have step1 : nextStep s = (.tok (bracesToken s .LBRACES [123, 123]).1, (bracesToken s .LBRACES [123, 123]).2) := by
    unfold nextStep; rw [hws]; unfold stepAt
    rw [if_neg (by simp [Lx.isEOF, hr]), if_pos (by simp [hchar, hpeek]), if_neg hnc]
  -- step 2: the name
  let s1 := (bracesToken s .LBRACES [123, 123]).2
  have r1 : s1.rest = g1 ++ (n ++ (g2 ++ [125, 125] ++ tl)) := by show (bracesToken s .LBRACES [123, 123]).2.rest = _; rw [hbt, b1]; simp
  have m1 : mode s1 = (false, s.isDirective, s.parens, s.braces, s.panicked) := by
    show mode (bracesToken s .LBRACES [123, 123]).2 = _; rw [hbt, b2]; rfl
  have h1 : s1.isHTML = false := by have := congrArg (·.1) m1; simpa [mode] using this
  have hxh : isWs ((n ++ (g2 ++ [125, 125] ++ tl)).headD 0) = false := by rw [hcv]; simpa using qws
  obtain ⟨k1, k2⟩ := skipWs_code s1 h1 g1 _ hg1 r1 hxh
  have hx2 : (isIdentCh ((g2 ++ [125, 125] ++ tl).headD 0) || isNumberCh ((g2 ++ [125, 125] ++ tl).headD 0)) = false := by
    cases g2 with
    | nil => simp only [List.nil_append, List.cons_append, List.headD_cons]; decide
    | cons w t =>
      have hw : isWs w = true := hg2 w List.mem_cons_self
      simp only [List.cons_append, List.headD_cons]
      rw [ws_not_ident hw, ws_not_number hw]; rfl
  obtain ⟨d1, d2, d3, d4⟩ := codeStepDesc_name (skipWs s1) n (g2 ++ [125, 125] ++ tl) hnn k1 hx2
  have hne2 : (skipWs s1).rest ≠ [] := by rw [k1, hcv]; simp
  have hnb2 : ¬ ((skipWs s1).char = 123 ∧ (skipWs s1).peek = 123) := by
    intro ⟨e, _⟩
    have : (skipWs s1).char = c := by simp [Lx.char, k1, hcv]
    rw [this] at e
    have := (identCh_not_special hc).2.1
    exact this e
  have step2 := stepAt_code (skipWs s1) (by rw [mode_html k2]; exact h1) hne2 hnb2
  obtain ⟨a1, a2, a3⟩ := emit_after (codeStepDesc (skipWs s1)) n (g2 ++ [125, 125] ++ tl) (by rw [hcv]; simp) (by rw [d4]; exact k1) d1
  let s2 := (codeStepDesc (skipWs s1)).emit.2
  have m2 : mode s2 = mode s1 := by show mode (codeStepDesc (skipWs s1)).emit.2 = _; rw [a2, d4, k2]
  have h2 : s2.isHTML = false := by rw [mode_html m2]; exact h1
  -- step 3: "}}"
  have r2 : s2.rest = g2 ++ ([125, 125] ++ tl) := by show (codeStepDesc (skipWs s1)).emit.2.rest = _; rw [a1]; simp
  obtain ⟨j1, j2⟩ := skipWs_code s2 h2 g2 _ hg2 r2 (by simp only [List.cons_append, List.headD_cons]; decide)
  have hbr : (skipWs s2).braces = 0 := by rw [mode_braces j2, mode_braces m2]; have := congrArg (·.2.2.2.1) m1; simp only [mode] at this; rw [this]; exact hb
  have hc3 : (skipWs s2).char = 125 := by simp [Lx.char, j1]
  have hp3 : (skipWs s2).peek = 125 := by simp [Lx.peek, j1]
  have hne3 : (skipWs s2).rest ≠ [] := by rw [j1]; simp
  have step3 := stepAt_code (skipWs s2) (by rw [mode_html j2]; exact h2) hne3 (by rw [hc3]; simp)
  have hcs3 : codeStepDesc (skipWs s2) = { st := { skipWs s2 with isHTML := true }, n := 2, ty := .RBRACES, lit := [125, 125] } := by
    unfold codeStepDesc
    rw [if_pos (by simp [hc3, hp3, hbr])]
  obtain ⟨e1, e2, e3⟩ := emit_after (codeStepDesc (skipWs s2)) [125, 125] tl (by simp) (by rw [hcs3]; simpa using j1) (by rw [hcs3]; rfl)
  refine ⟨(bracesToken s .LBRACES [123, 123]).1, (codeStepDesc (skipWs s1)).emit.1, (codeStepDesc (skipWs s2)).emit.1,
    (codeStepDesc (skipWs s2)).emit.2, ?_, ?_, ?_, ?_, e1, ?_, ?_, ?_, ?_, ?_, ?_⟩
  · refine Run.cons _ _ _ _ _ step1 (by unfold bracesToken; rw [emit_ty]; decide) ?_
    refine Run.cons s1 s2 _ _ _ (by unfold nextStep; exact step2) (by unfold TokDesc.emit; rw [emit_ty, d2]; decide) ?_
    exact Run.cons s2 _ _ _ _ (by unfold nextStep; exact step3) (by unfold TokDesc.emit; rw [emit_ty, hcs3]; exact fun h => by cases h) (Run.nil _)
  · unfold bracesToken; rw [emit_key]
  · unfold TokDesc.emit; rw [emit_key, d2, d3]
  · unfold TokDesc.emit; rw [emit_key, hcs3]
  · rw [mode_html e2, hcs3]
  · rw [mode_braces e2, hcs3]; exact hbr
  · rw [mode_pan e2, hcs3]
    show (skipWs s2).panicked = _
    rw [mode_pan j2, mode_pan m2]
    have := congrArg (·.2.2.2.2) m1; simpa [mode] using this
  · rw [e3]; rfl
  · rw [mode_dir e2, hcs3]
    show (skipWs s2).isDirective = _
    rw [mode_dir j2, mode_dir m2]
    have := congrArg (·.2.1) m1; simpa [mode] using this
  · rw [mode_parens e2, hcs3]
    show (skipWs s2).parens = _
    rw [mode_parens j2, mode_parens m2]
    have := congrArg (·.2.2.1) m1; simpa [mode] using this

/-! ### templates of text, comments and `{{ name }}` blocks -/

inductive VItem where
  | text (segs : List Seg)
  | comment (cm : Bytes)
  | print (g1 n g2 : Bytes)

def VItem.src : VItem → Bytes
  | .text segs => segsSrc segs
  | .comment cm => [123, 123, 45, 45] ++ cm ++ [45, 45, 125, 125]
  | .print g1 n g2 => [123, 123] ++ g1 ++ n ++ g2 ++ [125, 125]

def vitemsSrc : List VItem → Bytes
  | [] => []
  | i :: r => i.src ++ vitemsSrc r

/-- kinds and literals of the tokens the template has, in order (EOF excluded) -/
def vkeys : List VItem → List (TT × Bytes)
  | [] => []
  | .text segs :: r => (.HTML, segsLit segs) :: vkeys r
  | .comment _ :: r => vkeys r
  | .print _ n _ :: r => (.LBRACES, [123, 123]) :: (.IDENT, n) :: (.RBRACES, [125, 125]) :: vkeys r

/-- what may follow a run of text: the end, or a comment or a block (and then the run does not end in a backslash) -/
def afterRunV (segs : List Seg) : List VItem → Prop
  | [] => True
  | .text _ :: _ => False
  | _ :: _ => lastOr (segsSrc segs) 0 ≠ 92

def VItemsOK : List VItem → Prop
  | [] => True
  | .comment cm :: r => commentScan (cm ++ [45, 45, 125, 125] ++ vitemsSrc r) = cm.length ∧ VItemsOK r
  | .text segs :: r => startsRun segs ∧ SegsOK segs (vitemsSrc r) ∧ afterRunV segs r ∧ VItemsOK r
  | .print g1 n g2 :: r => allWs g1 ∧ allWs g2 ∧ isName n ∧ VItemsOK r

instance (g : Bytes) : Decidable (allWs g) := by unfold allWs; exact inferInstance

instance (segs : List Seg) : (r : List VItem) → Decidable (afterRunV segs r)
  | [] => isTrue trivial
  | .text _ :: _ => isFalse (by simp [afterRunV])
  | .comment _ :: _ => by unfold afterRunV; exact inferInstance
  | .print _ _ _ :: _ => by unfold afterRunV; exact inferInstance

instance : (items : List VItem) → Decidable (VItemsOK items)
  | [] => isTrue trivial
  | .comment cm :: r =>
    have : Decidable (VItemsOK r) := instDecidableVItemsOK r
    by unfold VItemsOK; exact inferInstance
  | .text segs :: r =>
    have : Decidable (VItemsOK r) := instDecidableVItemsOK r
    by unfold VItemsOK; exact inferInstance
  | .print g1 n g2 :: r =>
    have : Decidable (VItemsOK r) := instDecidableVItemsOK r
    by unfold VItemsOK; exact inferInstance

/-- `NextToken` bodies the template needs (EOF excluded) -/
def vfuel : List VItem → Nat
  | [] => 0
  | .print _ _ _ :: r => 3 + vfuel r
  | _ :: r => 1 + vfuel r

theorem step_braces {s s1 : Lx} {r : LexStep} (hh : s.isHTML = true) (h : nextStep s = (r, s1)) : s1.braces = s.braces := by
  have := nextStep_html_braces s hh
  rw [h] at this; exact this

/-- **the token list of such a template**: one text token per run, LBRACES IDENT RBRACES per
    block (the name as literal, the white space around it gone), nothing for a comment, then EOF -/
theorem lexAll_vitems : ∀ (items : List VItem), VItemsOK items → ∀ (s : Lx) (fuel : Nat), s.rest = vitemsSrc items →
    s.isHTML = true → s.panicked = false → s.braces = 0 → vfuel items + 1 ≤ fuel →
    ∃ toks e sf, lexAll fuel s = some (toks ++ [e], sf) ∧ toks.map key = vkeys items ∧ e.ty = .EOF ∧ e.lit = [] ∧
      sf.isHTML = true ∧ sf.panicked = false
  | [], _, s, fuel, hr, hh, hp, _, hf => by
    obtain ⟨g, rfl⟩ : ∃ g, fuel = g + 1 := ⟨fuel - 1, by omega⟩
    have hst := nextStep_eof s hh (by simpa [vitemsSrc] using hr)
    refine ⟨[], s.tokenBegins.newToken .EOF [], s.tokenBegins, ?_, rfl, by simp [newToken], by simp [newToken],
      by simpa [Lx.tokenBegins] using hh, by simpa [Lx.tokenBegins] using hp⟩
    rw [lexAll, hst]
    simp [newToken]
  | .comment cm :: r, hok, s, fuel, hr, hh, hp, hb, hf => by
    obtain ⟨hcm, hokr⟩ := hok
    obtain ⟨g, rfl⟩ : ∃ g, fuel = g + 1 := ⟨fuel - 1, by omega⟩
    obtain ⟨s2, hst2, hr2, hh2, hp2, _⟩ := nextStep_comment s cm (vitemsSrc r) hh
      (by rw [hr]; simp [vitemsSrc, VItem.src]) hcm
    obtain ⟨toks, e, sf, hl, hm, he, hel, hhf, hpf⟩ := lexAll_vitems r hokr s2 g hr2 hh2 (by rw [hp2]; exact hp)
      (by rw [step_braces hh hst2]; exact hb) (by simp [vfuel] at hf; omega)
    refine ⟨toks, e, sf, ?_, by simpa [vkeys] using hm, he, hel, hhf, hpf⟩
    rw [lexAll, hst2]
    exact hl
  | .text segs :: r, hok, s, fuel, hr, hh, hp, hb, hf => by
    obtain ⟨hstart, hsegs, hafter, hokr⟩ := hok
    obtain ⟨g, rfl⟩ : ∃ g, fuel = g + 1 := ⟨fuel - 1, by omega⟩
    have hr' : s.rest = segsSrc segs ++ vitemsSrc r := by rw [hr]; simp [vitemsSrc, VItem.src]
    obtain ⟨hne, hnb, hnd⟩ := run_head segs (vitemsSrc r) s hstart hsegs hr'
    have hscan : htmlScan s.prev [] 0 false s.rest = ((segsLit segs).reverse, (segsSrc segs).length, false) := by
      rw [hr', htmlScan_run segs (vitemsSrc r) s.prev [] 0 false hsegs]
      cases r with
      | nil => simp [vitemsSrc, htmlScan]
      | cons it r' =>
        have hl : ∀ (h : lastOr (segsSrc segs) 0 ≠ 92), lastOr (segsSrc segs) s.prev ≠ 92 := by
          intro h; rw [lastOr_nonempty _ s.prev 0 hne]; exact h
        cases it with
        | text _ => exact absurd hafter (by simp [afterRunV])
        | comment cm =>
          simp only [vitemsSrc, VItem.src, List.append_assoc, List.cons_append, List.nil_append]
          rw [htmlScan_stop_braces _ _ _ _ _ (hl hafter)]
          simp
        | print g1 n g2 =>
          simp only [vitemsSrc, VItem.src, List.append_assoc, List.cons_append, List.nil_append]
          rw [htmlScan_stop_braces _ _ _ _ _ (hl hafter)]
          simp
    obtain ⟨t, s1, hst1, ht1, hl1, hr1, hh1, hp1⟩ := nextStep_text' s (segsSrc segs) (vitemsSrc r) (segsLit segs) hh hr' hne hnb hnd hscan
    obtain ⟨toks, e, sf, hl, hm, he, hel, hhf, hpf⟩ := lexAll_vitems r hokr s1 g hr1 hh1 (by rw [hp1]; exact hp)
      (by rw [step_braces hh hst1]; exact hb) (by simp [vfuel] at hf; omega)
    refine ⟨t :: toks, e, sf, ?_, by simp [vkeys, key, ht1, hl1, ← hm], he, hel, hhf, hpf⟩
    rw [lexAll, hst1]
    simp only [ht1]
    rw [if_neg (by decide), hl]
    rfl
  | .print g1 n g2 :: r, hok, s, fuel, hr, hh, hp, hb, hf => by
    obtain ⟨hg1, hg2, hn, hokr⟩ := hok
    obtain ⟨g, rfl⟩ : ∃ g, fuel = 3 + g := ⟨fuel - 3, by simp [vfuel] at hf; omega⟩
    obtain ⟨t1, t2, t3, s3, hrun, k1, k2, k3, r3, h3, b3, p3, _, _, _⟩ := lex_print s g1 n g2 (vitemsSrc r) hh hb hg1 hg2 hn
      (by rw [hr]; simp [vitemsSrc, VItem.src])
    obtain ⟨toks, e, sf, hl, hm, he, hel, hhf, hpf⟩ := lexAll_vitems r hokr s3 g r3 h3 (by rw [p3]; exact hp) b3
      (by simp [vfuel] at hf; omega)
    have := lexAll_run_forward hrun g (toks ++ [e], sf) hl
    refine ⟨t1 :: t2 :: t3 :: toks, e, sf, ?_, by simp [vkeys, k1, k2, k3, hm], he, hel, hhf, hpf⟩
    simpa using this


/-! ### the parser on such a token list -/

/-- the text and the holes of the template, in order -/
def vpieces : List VItem → List Piece
  | [] => []
  | .text segs :: r => .text (segsLit segs) :: vpieces r
  | .comment _ :: r => vpieces r
  | .print _ n _ :: r => .hole n :: vpieces r

theorem vkeys_no_illegal : ∀ (items : List VItem) (x : TT × Bytes), x ∈ vkeys items → x.1 ≠ .ILLEGAL ∧ x.1 ≠ .EOF
  | [], x, h => by simp [vkeys] at h
  | .text _ :: r, x, h => by
    simp only [vkeys, List.mem_cons] at h
    rcases h with h | h
    · rw [h]; exact ⟨by simp, by simp⟩
    · exact vkeys_no_illegal r x h
  | .comment _ :: r, x, h => vkeys_no_illegal r x (by simpa [vkeys] using h)
  | .print _ _ _ :: r, x, h => by
    simp only [vkeys, List.mem_cons] at h
    rcases h with h | h | h | h
    · rw [h]; exact ⟨by simp, by simp⟩
    · rw [h]; exact ⟨by simp, by simp⟩
    · rw [h]; exact ⟨by simp, by simp⟩
    · exact vkeys_no_illegal r x h

theorem ps_next_clean (t t2 : Token) (r : List Token) (h : ∀ x ∈ t2 :: r, x.ty ≠ .ILLEGAL) :
    ({ toks := t :: t2 :: r } : PS).next = { toks := t2 :: r } := ps_next_html t t2 r h

/-- the statement loop: one text statement per text token, one expression statement per block -/
theorem parseLoop_vitems : ∀ (items : List VItem) (toks : List Token) (e : Token) (acc : List Stmt) (f : Nat),
    toks.map key = vkeys items → e.ty = .EOF → (vpieces items).length + 5 ≤ f →
    ∃ stmts, parseProgramLoop f acc ({ toks := toks ++ [e] } : PS) = (some (acc ++ stmts), { toks := [e] }) ∧
      simpleBlock stmts = true ∧ piecesOf stmts = vpieces items
  | [], toks, e, acc, f, hk, he, hf => by
    have : toks = [] := by simpa [vkeys] using hk
    subst this
    obtain ⟨g, rfl⟩ : ∃ g, f = g + 1 := ⟨f - 1, by omega⟩
    refine ⟨[], ?_, rfl, rfl⟩
    rw [parseProgramLoop]
    have c : ({ toks := [e] } : PS).curIs .EOF = true := by simp [PS.curIs, PS.cur, he]
    simp [c]
  | .comment _ :: r, toks, e, acc, f, hk, he, hf => by
    obtain ⟨stmts, h1, h2, h3⟩ := parseLoop_vitems r toks e acc f (by simpa [vkeys] using hk) he (by simpa [vpieces] using hf)
    exact ⟨stmts, h1, h2, by simpa [vpieces] using h3⟩
  | .text segs :: r, toks, e, acc, f, hk, he, hf => by
    cases toks with
    | nil => simp [vkeys] at hk
    | cons t rest =>
      simp only [vkeys, List.map_cons, List.cons.injEq] at hk
      obtain ⟨hkt, hkr⟩ := hk
      have ht : t.ty = .HTML := congrArg Prod.fst hkt
      have hlit : t.lit = segsLit segs := congrArg Prod.snd hkt
      obtain ⟨g, rfl⟩ : ∃ g, f = g + 1 + 1 := ⟨f - 2, by simp [vpieces] at hf; omega⟩
      have hnill : ∀ x ∈ rest ++ [e], x.ty ≠ .ILLEGAL := by
        intro x hx
        rcases List.mem_append.mp hx with h | h
        · have : key x ∈ vkeys r := by rw [← hkr]; exact List.mem_map_of_mem h
          exact (vkeys_no_illegal r _ this).1
        · simp at h; rw [h, he]; decide
      obtain ⟨stmts, h1, h2, h3⟩ := parseLoop_vitems r rest e (acc ++ [Stmt.html t]) (g + 1) hkr he (by simp [vpieces] at hf; omega)
      refine ⟨Stmt.html t :: stmts, ?_, by simpa [simpleBlock] using h2, by simp [piecesOf, vpieces, hlit, h3]⟩
      rw [parseProgramLoop]
      have c1 : ({ toks := t :: rest ++ [e] } : PS).curIs .EOF = false := by simp [PS.curIs, PS.cur, ht]
      have i1 : ({ toks := t :: rest ++ [e] } : PS).curIs .ILLEGAL = false := by simp [PS.curIs, PS.cur, ht]
      have hs1 : parseStatement (g + 1) ({ toks := t :: rest ++ [e] } : PS) = (.html t, { toks := t :: rest ++ [e] }) := by
        show statementBody (parseExpression g) (parseExprList g) (parseBody g) (parseIfTail g) (parseSlots g)
          ({ toks := t :: rest ++ [e] } : PS) = _
        simp [statementBody, PS.cur, ht]
      have nx : ({ toks := t :: rest ++ [e] } : PS).next = { toks := rest ++ [e] } := by
        cases hr : rest ++ [e] with
        | nil => simp at hr
        | cons t2 r2 =>
          have := ps_next_clean t t2 r2 (by rw [← hr]; exact hnill)
          simpa [hr] using this
      simp only [List.cons_append] at c1 i1 hs1 nx ⊢
      simp only [c1, Bool.false_eq_true, if_false, hs1, i1, Stmt.isBad, nx]
      rw [h1]
      simp
  | .print g1 n g2 :: r, toks, e, acc, f, hk, he, hf => by
    cases toks with
    | nil => simp [vkeys] at hk
    | cons t1 rest1 =>
      cases rest1 with
      | nil => simp [vkeys] at hk
      | cons t2 rest2 =>
        cases rest2 with
        | nil => simp [vkeys] at hk
        | cons t3 rest =>
          simp only [vkeys, List.map_cons, List.cons.injEq] at hk
          obtain ⟨hk1, hk2, hk3, hkr⟩ := hk
          have ty1 : t1.ty = .LBRACES := congrArg Prod.fst hk1
          have ty2 : t2.ty = .IDENT := congrArg Prod.fst hk2
          have lit2 : t2.lit = n := congrArg Prod.snd hk2
          have ty3 : t3.ty = .RBRACES := congrArg Prod.fst hk3
          obtain ⟨g, rfl⟩ : ∃ g, f = g + 1 + 1 + 1 + 1 := ⟨f - 4, by simp [vpieces] at hf; omega⟩
          have hnill : ∀ x ∈ rest ++ [e], x.ty ≠ .ILLEGAL := by
            intro x hx
            rcases List.mem_append.mp hx with h | h
            · have : key x ∈ vkeys r := by rw [← hkr]; exact List.mem_map_of_mem h
              exact (vkeys_no_illegal r _ this).1
            · simp at h; rw [h, he]; decide
          have hn3 : ∀ x ∈ t3 :: (rest ++ [e]), x.ty ≠ .ILLEGAL := by
            intro x hx
            rcases List.mem_cons.mp hx with h | h
            · rw [h, ty3]; decide
            · exact hnill x h
          have hn2 : ∀ x ∈ t2 :: t3 :: (rest ++ [e]), x.ty ≠ .ILLEGAL := by
            intro x hx
            rcases List.mem_cons.mp hx with h | h
            · rw [h, ty2]; decide
            · exact hn3 x h
          obtain ⟨stmts, h1, h2, h3⟩ := parseLoop_vitems r rest e (acc ++ [Stmt.expr t2 (.ident t2 n)]) (g + 1 + 1 + 1) hkr he
            (by simp [vpieces] at hf; omega)
          refine ⟨Stmt.expr t2 (.ident t2 n) :: stmts, ?_, by simpa [simpleBlock] using h2, by simp [piecesOf, vpieces, h3]⟩
          -- the states the parser goes through
          have nx1 : ({ toks := t1 :: t2 :: t3 :: (rest ++ [e]) } : PS).next = { toks := t2 :: t3 :: (rest ++ [e]) } :=
            ps_next_clean t1 t2 _ hn2
          have nx2 : ({ toks := t2 :: t3 :: (rest ++ [e]) } : PS).next = { toks := t3 :: (rest ++ [e]) } :=
            ps_next_clean t2 t3 _ hn3
          have nx3 : ({ toks := t3 :: (rest ++ [e]) } : PS).next = { toks := rest ++ [e] } := by
            cases hr : rest ++ [e] with
            | nil => simp at hr
            | cons t4 r4 =>
              have := ps_next_clean t3 t4 r4 (by rw [← hr]; exact hnill)
              simpa [hr] using this
          -- the expression: an identifier, and the loop stops at "}}"
          have hex : parseExpression (g + 1 + 1) LOWEST ({ toks := t2 :: t3 :: (rest ++ [e]) } : PS) =
              (.ident t2 n, { toks := t2 :: t3 :: (rest ++ [e]) }) := by
            rw [parseExpression_succ]
            have hp : prefixBody (parseExpression (g + 1)) (parseExprList (g + 1)) (parseObjLoop (g + 1))
                ({ toks := t2 :: t3 :: (rest ++ [e]) } : PS) = some (.ident t2 t2.lit, { toks := t2 :: t3 :: (rest ++ [e]) }) := by
              unfold prefixBody
              simp [PS.cur, ty2]
            rw [hp]
            simp only []
            rw [prattLoop_succ]
            have : ({ toks := t2 :: t3 :: (rest ++ [e]) } : PS).peekIs .RBRACES = true := by simp [PS.peekIs, PS.peek, ty3]
            simp [this, lit2]
          have hst : parseStatement (g + 1 + 1 + 1) ({ toks := t1 :: t2 :: t3 :: (rest ++ [e]) } : PS) =
              (.expr t2 (.ident t2 n), { toks := t3 :: (rest ++ [e]) }) := by
            show statementBody (parseExpression (g + 1 + 1)) (parseExprList (g + 1 + 1)) (parseBody (g + 1 + 1)) (parseIfTail (g + 1 + 1))
              (parseSlots (g + 1 + 1)) ({ toks := t1 :: t2 :: t3 :: (rest ++ [e]) } : PS) = _
            have hc : ({ toks := t1 :: t2 :: t3 :: (rest ++ [e]) } : PS).cur.ty = .LBRACES := by simp [PS.cur, ty1]
            unfold statementBody
            simp only [hc]
            unfold parseEmbeddedCode
            simp only [nx1]
            have c1 : ({ toks := t2 :: t3 :: (rest ++ [e]) } : PS).curIs .RBRACES = false := by simp [PS.curIs, PS.cur, ty2]
            have c2 : ({ toks := t2 :: t3 :: (rest ++ [e]) } : PS).peekIs .ASSIGN = false := by simp [PS.peekIs, PS.peek, ty3]
            have c3 : ({ toks := t2 :: t3 :: (rest ++ [e]) } : PS).peekIs .RBRACES = true := by simp [PS.peekIs, PS.peek, ty3]
            simp only [c1, c2, Bool.and_false, Bool.false_eq_true, if_false, hex, c3, if_true, nx2]
            simp [PS.cur]
          rw [parseProgramLoop]
          have c0 : ({ toks := t1 :: t2 :: t3 :: (rest ++ [e]) } : PS).curIs .EOF = false := by simp [PS.curIs, PS.cur, ty1]
          have i3 : ({ toks := t3 :: (rest ++ [e]) } : PS).curIs .ILLEGAL = false := by simp [PS.curIs, PS.cur, ty3]
          simp only [List.cons_append] at c0 hst ⊢
          simp only [c0, Bool.false_eq_true, if_false, hst, i3, Stmt.isBad, nx3]
          rw [h1]
          simp


/-! ### from the source to the render -/

theorem vfuel_le_src : ∀ (items : List VItem), VItemsOK items → vfuel items ≤ (vitemsSrc items).length
  | [], _ => by simp [vfuel]
  | .comment cm :: r, hok => by
    have := vfuel_le_src r hok.2
    simp [vitemsSrc, VItem.src, vfuel]; omega
  | .print g1 n g2 :: r, hok => by
    have := vfuel_le_src r hok.2.2.2
    simp [vitemsSrc, VItem.src, vfuel]; omega
  | .text segs :: r, hok => by
    have := vfuel_le_src r hok.2.2.2
    have hne : (segsSrc segs).length ≠ 0 := by
      obtain ⟨hst, _⟩ := hok
      cases segs with
      | nil => exact absurd hst (by simp [startsRun])
      | cons sg r' =>
        cases sg with
        | esc c => simp [segsSrc, Seg.src]
        | plain p =>
          cases p with
          | nil => exact absurd hst (by simp [startsRun])
          | cons c p' => simp [segsSrc, Seg.src]
    simp [vitemsSrc, VItem.src, vfuel]; omega

theorem tokenize_vitems (items : List VItem) (hok : VItemsOK items) :
    ∃ toks e, tokenize (vitemsSrc items) = some { toks := toks ++ [e], insideCode := false, panicked := false } ∧
      toks.map key = vkeys items ∧ e.ty = .EOF := by
  have hlen := vfuel_le_src items hok
  obtain ⟨toks, e, sf, hl, hm, he, _, hhf, hpf⟩ := lexAll_vitems items hok (Lx.init (vitemsSrc items)) (lexFuel (vitemsSrc items))
    rfl rfl rfl rfl (by unfold lexFuel; omega)
  refine ⟨toks, e, ?_, hm, he⟩
  unfold tokenize
  rw [hl]
  simp [hhf, hpf]

theorem initParser_clean (l : List Token) (h : ∀ x ∈ l, x.ty ≠ .ILLEGAL) : initParser l 0 = { toks := l } := by
  have hn : ∀ x ∈ l, (x.ty == TT.ILLEGAL) = false := fun x hx => by simpa using h x hx
  cases l with
  | nil => simp [initParser, PS.noteIllegal, PS.cur, eofTok]
  | cons t r =>
    have h1 := hn t (by simp)
    cases r with
    | nil => simp [initParser, PS.noteIllegal, PS.cur, h1]
    | cons t2 r2 =>
      have h2 := hn t2 (by simp)
      simp [initParser, PS.noteIllegal, PS.cur, PS.peek, h1, h2]

theorem vpieces_length_le : ∀ items : List VItem, (vpieces items).length ≤ (vkeys items).length
  | [] => by simp [vkeys, vpieces]
  | .text _ :: r => by have := vpieces_length_le r; simp [vkeys, vpieces]; omega
  | .comment _ :: r => by have := vpieces_length_le r; simp [vkeys, vpieces]; omega
  | .print _ _ _ :: r => by have := vpieces_length_le r; simp [vkeys, vpieces]; omega

/-- the program of such a template: text statements and `{{ name }}` statements, in order -/
theorem parse_vitems (items : List VItem) (hok : VItemsOK items) :
    ∃ prog, parseSource (vitemsSrc items) = .ok prog ∧ simpleBlock prog.stmts = true ∧ piecesOf prog.stmts = vpieces items := by
  obtain ⟨toks, e, htok, hk, he⟩ := tokenize_vitems items hok
  have hnill : ∀ x ∈ toks ++ [e], x.ty ≠ .ILLEGAL := by
    intro x hx
    rcases List.mem_append.mp hx with h | h
    · have : key x ∈ vkeys items := by rw [← hk]; exact List.mem_map_of_mem h
      exact (vkeys_no_illegal items _ this).1
    · simp at h; rw [h, he]; decide
  have hlen : toks.length = (vkeys items).length := by rw [← hk]; simp
  have hfuel : (vpieces items).length + 5 ≤ parseFuel (toks ++ [e]) := by
    unfold parseFuel
    have := vpieces_length_le items
    simp
    omega
  obtain ⟨stmts, h1, h2, h3⟩ := parseLoop_vitems items toks e [] (parseFuel (toks ++ [e])) hk he hfuel
  refine ⟨{ tok := (toks ++ [e]).headD e, stmts := stmts }, ?_, h2, h3⟩
  unfold parseSource
  rw [htok]
  simp only [Bool.false_eq_true, if_false]
  rw [initParser_clean _ hnill, h1]
  have hcur : ({ toks := toks ++ [e] } : PS).cur = (toks ++ [e]).headD e := by
    cases toks with
    | nil => rfl
    | cons t r => rfl
  rw [hcur]
  simp [finishParse]


theorem evalProg_simple (c : Ctx) (env : Env) : ∀ (ss : List Stmt) (fuel : Nat) (acc : Bytes), simpleBlock ss = true →
    holesBound env (piecesOf ss) → ss.length + 3 ≤ fuel →
    evalProg fuel c env ss acc = .ok (acc ++ fill env (piecesOf ss), env) := by
  intro ss
  induction ss with
  | nil =>
    intro fuel acc _ _ hf
    obtain ⟨f, rfl⟩ : ∃ f, fuel = f + 1 := ⟨fuel - 1, by omega⟩
    rw [evalProg_nil]; simp [piecesOf, fill]
  | cons s r ih =>
    intro fuel acc hs hb hf
    obtain ⟨f, rfl⟩ : ∃ f, fuel = f + 3 := ⟨fuel - 3, by simp at hf; omega⟩
    cases s with
    | html t =>
      have := ih (f + 2) (acc ++ t.lit) (by simpa [simpleBlock] using hs) (by simpa [piecesOf, holesBound] using hb) (by simp at hf; omega)
      rw [show f + 3 = (f + 2) + 1 from rfl, evalProg_cons, show f + 2 = (f + 1) + 1 from rfl, evalStmt_html, Res.bind_ok]
      rw [show f + 1 + 1 = f + 2 from rfl, this]
      simp [piecesOf, fill, List.append_assoc]
    | expr t e =>
      cases e with
      | ident t2 n =>
        have hb' : (env.get n).isSome = true ∧ holesBound env (piecesOf r) := by simpa [piecesOf, holesBound] using hb
        obtain ⟨v, hv⟩ := Option.isSome_iff_exists.mp hb'.1
        have := ih (f + 2) (acc ++ v.toStr) (by simpa [simpleBlock] using hs) hb'.2 (by simp at hf; omega)
        rw [show f + 3 = (f + 2) + 1 from rfl, evalProg_cons, show f + 2 = (f + 1) + 1 from rfl, evalStmt_succ]
        simp only [stmtBody, calleesAt_expr, evalExpr, hv, Res.bind_ok]
        rw [show f + 1 + 1 = f + 2 from rfl, this]
        simp [piecesOf, fill, hv, List.append_assoc]
      | _ => simp [simpleBlock] at hs
    | _ => simp [simpleBlock] at hs

theorem simple_length : ∀ ss : List Stmt, simpleBlock ss = true → ss.length = (piecesOf ss).length
  | [], _ => rfl
  | .html _ :: r, h => by simp [piecesOf, simple_length r (by simpa [simpleBlock] using h)]
  | .expr _ (.ident _ _) :: r, h => by simp [piecesOf, simple_length r (by simpa [simpleBlock] using h)]
  | .expr _ .bad :: _, h => by simp [simpleBlock] at h
  | .expr _ (.int _ _) :: _, h => by simp [simpleBlock] at h
  | .expr _ (.float _ _) :: _, h => by simp [simpleBlock] at h
  | .expr _ (.str _ _) :: _, h => by simp [simpleBlock] at h
  | .expr _ (.nil _) :: _, h => by simp [simpleBlock] at h
  | .expr _ (.bool _ _) :: _, h => by simp [simpleBlock] at h
  | .expr _ (.arr _ _) :: _, h => by simp [simpleBlock] at h
  | .expr _ (.obj _ _) :: _, h => by simp [simpleBlock] at h
  | .expr _ (.pre _ _ _) :: _, h => by simp [simpleBlock] at h
  | .expr _ (.inf _ _ _ _) :: _, h => by simp [simpleBlock] at h
  | .expr _ (.post _ _ _) :: _, h => by simp [simpleBlock] at h
  | .expr _ (.tern _ _ _ _) :: _, h => by simp [simpleBlock] at h
  | .expr _ (.index _ _ _) :: _, h => by simp [simpleBlock] at h
  | .expr _ (.dot _ _ _) :: _, h => by simp [simpleBlock] at h
  | .expr _ (.call _ _ _ _) :: _, h => by simp [simpleBlock] at h
  | .bad :: _, h => by simp [simpleBlock] at h
  | .assign _ _ _ :: _, h => by simp [simpleBlock] at h
  | .ifS _ _ _ _ _ :: _, h => by simp [simpleBlock] at h
  | .forS _ _ _ _ _ _ :: _, h => by simp [simpleBlock] at h
  | .eachS _ _ _ _ _ :: _, h => by simp [simpleBlock] at h
  | .use _ _ :: _, h => by simp [simpleBlock] at h
  | .reserve _ _ _ :: _, h => by simp [simpleBlock] at h
  | .insert _ _ _ _ :: _, h => by simp [simpleBlock] at h
  | .breakIf _ _ :: _, h => by simp [simpleBlock] at h
  | .continueIf _ _ :: _, h => by simp [simpleBlock] at h
  | .component _ _ _ _ :: _, h => by simp [simpleBlock] at h
  | .slot _ _ _ :: _, h => by simp [simpleBlock] at h
  | .dump _ _ :: _, h => by simp [simpleBlock] at h
  | .brk _ :: _, h => by simp [simpleBlock] at h
  | .cont _ :: _, h => by simp [simpleBlock] at h

/-- **text, comments and `{{ name }}` blocks, from the source to the output**: the template made of
    the items — text runs with any number of escaped "{{" and escaped directives, comments with
    arbitrary bodies, blocks that print a name with any white space around it — renders, with
    data whose environment binds every printed name, to the text runs (escaping backslashes
    removed) with the printed value of each name in the place of its block; the comments leave
    nothing.  For every such template of up to `evalFuel - 3` pieces. -/
theorem vitems_render (custom : List ((VType × Bytes) × Nat)) (items : List VItem) (hok : VItemsOK items)
    (hsize : (vpieces items).length + 3 ≤ evalFuel)
    (data : List (Bytes × GoVal)) (env : Env) (henv : envFromMap data = .ok env) (hb : holesBound env (vpieces items)) :
    evaluateStringPure custom (vitemsSrc items) data = .ok (fill env (vpieces items)) := by
  obtain ⟨prog, hp, hs, hpc⟩ := parse_vitems items hok
  unfold evaluateStringPure envOrFail
  rw [hp]
  simp only [henv]
  have hlen : prog.stmts.length = (vpieces items).length := by rw [simple_length _ hs, hpc]
  rw [evalProg_simple _ env prog.stmts evalFuel [] hs (by rw [hpc]; exact hb) (by rw [hlen]; exact hsize)]
  simp [resToOut, hpc]

end Tw
