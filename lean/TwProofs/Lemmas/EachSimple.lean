/-
  TwProofs.Lemmas.EachSimple — the passes of `@each` computed: for a body of text and plain
  variable prints the loop renders, element after element, the body's text with the holes filled
  from the environment of that pass (C03).
-/
import TwProofs.Lemmas.Loops
import TwProofs.Lemmas.SimpleBlock
namespace Tw

/-- the environment of pass `i` of `n` over the element `x`: the loop's own scope holds the
    variable and `loop`, the enclosing scopes are untouched -/
def passEnv (env : Env) (var : Bytes) (x : Val) (i n : Nat) : Env := [(var, x), (b "loop", loopObj i n)] :: env

/-- the scope of the loop before a pass: empty before the first one, the previous pass's afterwards -/
def ScopeOk (var : Bytes) (ty : VType) (sc : List (Bytes × Val)) : Prop :=
  sc = [] ∨ ∃ xp lp, sc = [(var, xp), (b "loop", lp)] ∧ xp.type = ty

theorem setVar_pass (env : Env) (var : Bytes) (ty : VType) (sc : List (Bytes × Val)) (x : Val) (line i n : Nat)
    (hv : (var == b "loop") = false) (hfresh : ∀ old, env.get var = some old → old.type = ty) (hx : x.type = ty)
    (hsc : ScopeOk var ty sc) :
    ∃ env1, setVar (sc :: env) var x line = .ok env1 ∧ env1.setLoop (loopObj i n) = passEnv env var x i n := by
  have hvl : (b "loop" == var) = false := by
    cases h : (b "loop" == var)
    · rfl
    · have : b "loop" = var := by simpa using h
      rw [← this] at hv; simp at hv
  rcases hsc with h | ⟨xp, lp, h, hxp⟩
  · subst h
    unfold setVar Env.set
    simp only [hv, Bool.false_eq_true, if_false, Env.get, mapGet]
    cases hg : env.get var with
    | none =>
      refine ⟨[(var, x)] :: env, rfl, ?_⟩
      simp [Env.setLoop, mapSet, passEnv, hv]
    | some old =>
      have := hfresh old hg
      simp only [this, hx, bne_self_eq_false, Bool.false_eq_true, if_false]
      refine ⟨[(var, x)] :: env, rfl, ?_⟩
      simp [Env.setLoop, mapSet, passEnv, hv]
  · subst h
    unfold setVar Env.set
    simp only [hv, Bool.false_eq_true, if_false, Env.get, mapGet, beq_self_eq_true, if_true, hxp, hx, bne_self_eq_false]
    refine ⟨[(var, x), (b "loop", lp)] :: env, by simp [mapSet], ?_⟩
    simp [Env.setLoop, mapSet, passEnv, hv]

/-- every hole of the body is the loop variable, `loop`, or a variable visible outside the loop -/
def holesVisible (env : Env) (var : Bytes) : List Piece → Prop
  | [] => True
  | .text _ :: r => holesVisible env var r
  | .hole n :: r => (n = var ∨ n = b "loop" ∨ (env.get n).isSome = true) ∧ holesVisible env var r

theorem holesBound_pass (env : Env) (var : Bytes) (x : Val) (i n : Nat) : ∀ ps : List Piece, holesVisible env var ps →
    holesBound (passEnv env var x i n) ps
  | [], _ => trivial
  | .text _ :: r, h => holesBound_pass env var x i n r h
  | .hole k :: r, h => by
    refine ⟨?_, holesBound_pass env var x i n r h.2⟩
    unfold passEnv
    simp only [Env.get, mapGet]
    by_cases h1 : (var == k) = true
    · simp [h1]
    · by_cases h2 : (b "loop" == k) = true
      · simp [h1, h2]
      · simp only [h1, h2, Bool.false_eq_true, if_false]
        rcases h.1 with e | e | e
        · subst e; simp at h1
        · subst e; simp at h2
        · exact e

/-- the texts of the passes over `xs`, the first at position `i` of `n` -/
def passTexts (env : Env) (var : Bytes) (ps : List Piece) (n : Nat) : List Val → Nat → Bytes
  | [], _ => []
  | x :: r, i => fill (passEnv env var x i n) ps ++ passTexts env var ps n r (i + 1)

/-- the passes exist, for every list of elements of one type -/
theorem eachPasses_simple (c : Ctx) (env : Env) (t : Token) (var : Bytes) (body : List Stmt) (ty : VType) (n : Nat)
    (hv : (var == b "loop") = false) (hfresh : ∀ old, env.get var = some old → old.type = ty)
    (hsb : simpleBlock body = true) (hvis : holesVisible env var (piecesOf body)) :
    ∀ (xs : List Val) (i : Nat) (sc : List (Bytes × Val)), (∀ x ∈ xs, x.type = ty) → ScopeOk var ty sc →
      EachPasses (body.length + 3) c t var body n (sc :: env) xs i (passTexts env var (piecesOf body) n xs i) := by
  intro xs
  induction xs with
  | nil => intro i sc _ _; exact EachPasses.done _ _
  | cons x rest ih =>
    intro i sc hty hsc
    have hx : x.type = ty := hty x List.mem_cons_self
    obtain ⟨env1, h1, h2⟩ := setVar_pass env var ty sc x t.errorLine i n hv hfresh hx hsc
    have hblk := evalBlock_simple c (passEnv env var x i n) body (body.length + 2) hsb
      (holesBound_pass env var x i n _ hvis) (Nat.le_refl _)
    have hnext := ih (i + 1) [(var, x), (b "loop", loopObj i n)] (fun y hy => hty y (List.mem_cons_of_mem _ hy))
      (Or.inr ⟨x, loopObj i n, rfl, hx⟩)
    have := EachPasses.pass (f := body.length + 3) (c := c) (t := t) (var := var) (body := body) (n := n)
      (sc :: env) x rest i env1 ({ text := fill (passEnv env var x i n) (piecesOf body) }, passEnv env var x i n)
      (passTexts env var (piecesOf body) n rest (i + 1)) h1 (by rw [h2]; exact hblk) rfl hnext
    exact this

/-- passes found at fuel `f` are passes at any larger fuel -/
theorem eachPasses_lift {f : Nat} {c : Ctx} {t : Token} {var : Bytes} {body : List Stmt} {n : Nat}
    {env : Env} {xs : List Val} {i : Nat} {out : Bytes} (h : EachPasses f c t var body n env xs i out) (k : Nat) :
    EachPasses (f + k) c t var body n env xs i out := by
  induction h with
  | done env i => exact EachPasses.done _ _
  | pass env x rest i env1 r out hs hb hbrk _ ih => exact EachPasses.pass env x rest i env1 r out hs (evalBlock_lift hb k) hbrk ih
  | brk env x rest i env1 r hs hb hbrk => exact EachPasses.brk env x rest i env1 r hs (evalBlock_lift hb k) hbrk

end Tw
