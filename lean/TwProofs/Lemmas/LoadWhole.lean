/-
  TwProofs.Lemmas.LoadWhole — what the loader registers has no `bad` (Go nil) node: the page's
  statements, the layout, the inserts bound to `@reserve` nodes and the component programs with
  their slots filled in.  With `NoPanic` this extends "never panics" from `EvaluateString` to
  `NewTemplate` + `Template.String` (C09).
-/
import TwProofs.Lemmas.ParseBadFree
import TwModel.Api

namespace Tw

theorem foldlM_except_inv {α β ε : Type} (f : β → α → Except ε β) (P : β → Prop) :
    ∀ (l : List α) (b b' : β), (∀ b a b', a ∈ l → P b → f b a = .ok b' → P b') → P b → l.foldlM f b = .ok b' → P b'
  | [], b, b', _, hb, h => by
    simp only [List.foldlM_nil, pure, Except.pure] at h
    cases h; exact hb
  | a :: l, b, b', hf, hb, h => by
    simp only [List.foldlM_cons, bind, Except.bind] at h
    cases hfa : f b a with
    | error e => rw [hfa] at h; cases h
    | ok b1 =>
      rw [hfa] at h
      exact foldlM_except_inv f P l b1 b' (fun b a b' ha => hf b a b' (List.mem_cons_of_mem _ ha))
        (hf b a b1 List.mem_cons_self hb hfa) h

theorem parseFile_whole (fs : Fs) (p : Bytes) (base : Nat) (prog : Program) (h : parseFile fs p base = .ok prog) :
    prog.Whole := by
  unfold parseFile at h
  split at h
  · cases h
  · cases h
  · split at h
    · rename_i prog' hps
      cases h
      exact parseSource_whole _ _ _ hps
    · cases h
    · cases h
    · cases h

theorem fillSlot_whole : ∀ (stmts : List Stmt) (name : Bytes) (body out : List Stmt),
    Stmt.badFreeList stmts = true → Stmt.badFreeList body = true → fillSlot stmts name body = some out →
    Stmt.badFreeList out = true
  | [], _, _, _, _, _, h => by simp [fillSlot] at h
  | s :: r, name, body, out, hs, hb, h => by
    have hs' : s.badFree = true ∧ Stmt.badFreeList r = true := by simpa [Stmt.badFreeList] using hs
    cases s with
    | slot t n bd =>
      simp only [fillSlot] at h
      split at h
      · cases h
        simp [Stmt.badFreeList, Stmt.badFree, Stmt.badFreeOpt, hb, hs'.2]
      · cases hr : fillSlot r name body with
        | none => rw [hr] at h; cases h
        | some o =>
          rw [hr] at h
          cases h
          simp only [Stmt.badFreeList, hs'.1, Bool.true_and]
          exact fillSlot_whole r name body o hs'.2 hb hr
    | _ =>
      simp only [fillSlot] at h
      cases hr : fillSlot r name body with
      | none => rw [hr] at h; cases h
      | some o =>
        rw [hr] at h
        cases h
        simp only [Stmt.badFreeList, hs'.1, Bool.true_and]
        exact fillSlot_whole r name body o hs'.2 hb hr

theorem applyComponent_whole (use : CompUse) (comp : Program) (path : Bytes) (out : List Stmt)
    (hu : SlotsGood use.slots) (hc : Stmt.badFreeList comp.stmts = true)
    (h : applyComponent use comp path = .ok out) : Stmt.badFreeList out = true := by
  unfold applyComponent at h
  split at h
  · cases h
  · refine foldlM_except_inv _ (fun b => Stmt.badFreeList b = true) use.slots comp.stmts out ?_ hc h
    intro b sl b' hsl hb hf
    split at hf
    · rename_i s' hfs
      cases hf
      exact fillSlot_whole b sl.name sl.body _ hb (hu sl hsl) hfs
    · split at hf <;> cases hf

def CompsWhole (cs : List (Nat × List Stmt)) : Prop := ∀ x ∈ cs, Stmt.badFreeList x.2 = true

theorem applyComponents_whole (fs : Fs) (c : Cfg) (uses : List CompUse) (path : Bytes) (out : List (Nat × List Stmt))
    (hu : ∀ cu ∈ uses, SlotsGood cu.slots) (h : applyComponents fs c uses path = .ok out) : CompsWhole out := by
  unfold applyComponents at h
  refine foldlM_except_inv _ CompsWhole uses [] out ?_ (fun x hx => (by cases hx)) h
  intro b use b' huse hb hf
  simp only [] at hf
  split at hf
  · cases hf
  · cases hf
  · split at hf
    · cases hf
    · rename_i comp hpf
      split at hf
      · cases hf
      · rename_i stmts hac
        cases hf
        intro x hx
        rcases List.mem_append.mp hx with hx | hx
        · exact hb x hx
        · rw [List.mem_singleton.mp hx]
          exact applyComponent_whole use comp path stmts (hu use huse) (parseFile_whole _ _ _ _ hpf).stmts hac

/-- a registered page: its statements and everything attached to it are whole -/
def Page.Whole (pg : Page) : Prop := Stmt.badFreeList pg.stmts = true ∧ Ctx.badFree pg.ctx = true

theorem ctx_badFree_iff (c : Ctx) : Ctx.badFree c = true ↔
    Stmt.badFreeOpt c.layout = true ∧ (∀ x ∈ c.inserts, x.2.badFree = true) ∧ (∀ x ∈ c.comps, Stmt.badFreeList x.2 = true) := by
  simp [Ctx.badFree, Bool.and_assoc, List.all_eq_true]

theorem mapGet_mem {α} (m : List (Bytes × α)) (k : Bytes) (v : α) (h : mapGet m k = some v) : (k, v) ∈ m := by
  induction m with
  | nil => simp [mapGet] at h
  | cons x r ih =>
    obtain ⟨k', v'⟩ := x
    unfold mapGet at h
    split at h
    · rename_i hk
      cases h
      have : k' = k := by simpa using hk
      rw [this]; exact List.mem_cons_self
    · exact List.mem_cons_of_mem _ (ih h)

theorem loadPage_whole (fs : Fs) (c : Cfg) (p : Bytes) (pg : Page) (h : loadPage fs c p = .ok (some pg)) :
    pg.Whole := by
  unfold loadPage at h
  split at h
  · cases h
  · rename_i prog hpf
    have hw := parseFile_whole _ _ _ _ hpf
    simp only [] at h
    split at h
    · cases h
    · rename_i layout hlay
      split at h
      · cases h
      · rename_i comps hcomps
        have hcw := applyComponents_whole _ _ _ _ _ hw.slots hcomps
        split at h
        · cases h
        · split at h
          · cases h
            exact ⟨hw.stmts, (ctx_badFree_iff _).mpr ⟨rfl, fun x hx => (by cases hx), hcw⟩⟩
          · rename_i lstmts lhasUse binds
            split at h
            · rename_i ut lname huse
              cases h
              refine ⟨rfl, (ctx_badFree_iff _).mpr ⟨?_, ?_, hcw⟩⟩
              · -- the layout
                rw [huse] at hlay
                simp only [] at hlay
                split at hlay
                · cases hlay
                · rename_i lprog hlp
                  split at hlay
                  · cases hlay
                  · cases hlay
                    exact (parseFile_whole _ _ _ _ hlp).stmts
              · rw [huse] at hlay
                simp only [] at hlay
                split at hlay
                · cases hlay
                · rename_i lprog hlp
                  split at hlay
                  · cases hlay
                  · cases hlay
                    intro x hx
                    obtain ⟨y, _, hy⟩ := List.mem_filterMap.mp hx
                    obtain ⟨n, rid⟩ := y
                    simp only [Option.map_eq_some_iff] at hy
                    obtain ⟨ins, hins, hxe⟩ := hy
                    rw [← hxe]
                    exact hw.inserts _ (mapGet_mem _ _ _ hins)
            · cases h

end Tw

namespace Tw

theorem newTemplate_whole (w : World) (o : Option Opt) (t : Template) (h : (newTemplate w o).2 = .ok t) :
    ∀ x ∈ t, x.2.Whole := by
  unfold newTemplate at h
  simp only [] at h
  split at h
  · cases h
  · refine foldlM_except_inv _ (fun (acc : Template) => ∀ x ∈ acc, x.2.Whole) _ [] t ?_ (fun x hx => (by cases hx)) h
    intro acc np acc' _ hacc hf
    obtain ⟨name, p⟩ := np
    simp only [] at hf
    split at hf
    · cases hf
    · cases hf; exact hacc
    · rename_i pg hl
      cases hf
      intro x hx
      rcases List.mem_append.mp hx with hx | hx
      · exact hacc x hx
      · rw [List.mem_singleton.mp hx]
        exact loadPage_whole _ _ _ _ hl

/-- rendering a registered page never panics, whatever the data and the registered functions -/
theorem tplString_no_panic (w : World) (t : Template) (ht : ∀ x ∈ t, x.2.Whole) (name : Bytes)
    (data : List (Bytes × GoVal)) : ∀ why, tplString w t name data ≠ .panic why := by
  intro why h
  unfold tplString at h
  split at h
  · cases h
  · rename_i env _
    simp only [] at h
    split at h
    · cases h
    · rename_i pg hg
      have hw := ht _ (mapGet_mem _ _ _ hg)
      have hc : Ctx.badFree { pg.ctx with custom := w.custom } = true := by
        have := hw.2
        simpa [Ctx.badFree] using this
      have := (calleesAt_np evalFuel).prog { pg.ctx with custom := w.custom } env pg.stmts [] hc hw.1
      unfold resToOut at h
      split at h
      · cases h
      · cases h
      · rename_i hp
        have hp' : evalProg evalFuel { pg.ctx with custom := w.custom } env pg.stmts [] = .panic why := by
          cases h; exact hp
        change NP (evalProg evalFuel _ env pg.stmts []) at this
        rw [hp'] at this
        simp [NP, Res.isPanic] at this
      · cases h

end Tw
