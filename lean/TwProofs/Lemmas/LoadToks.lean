/-
  TwProofs.Lemmas.LoadToks — every token of a registered page (its statements, the layout, the
  inserts bound to the reserves, the component programs with their slots filled) is a token the
  lexer produced for one of the files of the tree (C13: the lines a Template render reports are
  lines of tokens of the loaded files' sources).
-/
import TwProofs.Lemmas.ParseToks
import TwProofs.Lemmas.LoadWhole

namespace Tw

/-- a token of (the token list of) some readable file of the tree -/
def FileTok (fs : Fs) (t : Token) : Prop :=
  ∃ q src lr, readFile fs q = .ok src ∧ tokenize src = some lr ∧ t ∈ lr.toks

/-- the tokens of everything the loader attached to the page (in the order of `Ctx.lines`) -/
def Ctx.toks (c : Ctx) : List Token :=
  Stmt.toksO c.layout ++ (c.inserts.flatMap (fun p => p.2.toks) ++ c.comps.flatMap (fun p => Stmt.toksL p.2))

theorem InsertDef.lines_eq (i : InsertDef) : i.lines = i.toks.map Token.errorLine := by
  simp [InsertDef.lines, InsertDef.toks, optL_eq _ _ Expr.lines_eq i.arg, Stmt.linesO_eq i.block]

theorem flatMap_lines_eq {α} (l : List α) (f : α → List Nat) (g : α → List Token) (h : ∀ a, f a = (g a).map Token.errorLine) :
    l.flatMap f = (l.flatMap g).map Token.errorLine := by
  induction l with
  | nil => rfl
  | cons a r ih => simp [List.flatMap_cons, h a, ih]

theorem Ctx.lines_eq (c : Ctx) : c.lines = c.toks.map Token.errorLine := by
  unfold Ctx.lines Ctx.toks
  rw [Stmt.linesO_eq, flatMap_lines_eq c.inserts _ (fun p => p.2.toks) (fun p => p.2.lines_eq),
    flatMap_lines_eq c.comps _ (fun p => Stmt.toksL p.2) (fun p => Stmt.linesL_eq p.2)]
  simp

theorem parseFile_toks (fs : Fs) (p : Bytes) (base : Nat) (prog : Program) (h : parseFile fs p base = .ok prog) :
    ∀ t ∈ prog.toks, FileTok fs t := by
  unfold parseFile at h
  split at h
  · cases h
  · cases h
  · rename_i src hr
    split at h
    · rename_i prog' hps
      cases h
      obtain ⟨lr, hlr, hall⟩ := parseSource_toks _ _ _ hps
      intro t ht
      exact ⟨p, src, lr, hr, hlr, hall t ht⟩
    · cases h
    · cases h
    · cases h

theorem prog_stmts_toks (prog : Program) : ∀ t ∈ Stmt.toksL prog.stmts, t ∈ prog.toks := by
  intro t ht
  unfold Program.toks
  exact List.mem_cons_of_mem _ (List.mem_append_left _ ht)

theorem prog_insert_toks (prog : Program) (kv : Bytes × InsertDef) (hkv : kv ∈ prog.inserts) : ∀ t ∈ kv.2.toks, t ∈ prog.toks := by
  intro t ht
  unfold Program.toks
  exact List.mem_cons_of_mem _ (List.mem_append_right _ (List.mem_append_left _ (List.mem_flatMap.mpr ⟨kv, hkv, ht⟩)))

theorem prog_comp_toks (prog : Program) (cu : CompUse) (hcu : cu ∈ prog.components) : ∀ t ∈ cu.toks, t ∈ prog.toks := by
  intro t ht
  unfold Program.toks
  exact List.mem_cons_of_mem _ (List.mem_append_right _ (List.mem_append_right _ (List.mem_append_left _
    (List.mem_flatMap.mpr ⟨cu, hcu, ht⟩))))

theorem prog_use_tok (prog : Program) (u : Token × Bytes) (hu : prog.useName = some u) : u.1 ∈ prog.toks := by
  unfold Program.toks
  refine List.mem_cons_of_mem _ (List.mem_append_right _ (List.mem_append_right _ (List.mem_append_right _ ?_)))
  rw [hu]; simp

/-- filling a slot adds the tokens of the passed body, nothing else -/
theorem fillSlot_toks : ∀ (stmts : List Stmt) (name : Bytes) (body out : List Stmt), fillSlot stmts name body = some out →
    ∀ x ∈ Stmt.toksL out, x ∈ Stmt.toksL stmts ∨ x ∈ Stmt.toksL body
  | [], _, _, _, h => by simp [fillSlot] at h
  | s :: r, name, body, out, h => by
    cases s with
    | slot t n bd =>
      simp only [fillSlot] at h
      split at h
      · cases h
        intro x hx
        simp only [Stmt.toksL, Stmt.toks, Stmt.toksO, List.mem_append, List.mem_cons] at hx ⊢
        rcases hx with (hx | hx) | hx
        · exact Or.inl (Or.inl (Or.inl hx))
        · exact Or.inr hx
        · exact Or.inl (Or.inr hx)
      · cases hr : fillSlot r name body with
        | none => rw [hr] at h; cases h
        | some o =>
          rw [hr] at h
          cases h
          intro x hx
          simp only [Stmt.toksL, List.mem_append] at hx ⊢
          rcases hx with hx | hx
          · exact Or.inl (Or.inl hx)
          · exact (fillSlot_toks r name body o hr x hx).imp Or.inr id
    | _ =>
      simp only [fillSlot] at h
      cases hr : fillSlot r name body with
      | none => rw [hr] at h; cases h
      | some o =>
        rw [hr] at h
        cases h
        intro x hx
        simp only [Stmt.toksL, List.mem_append] at hx ⊢
        rcases hx with hx | hx
        · exact Or.inl (Or.inl hx)
        · exact (fillSlot_toks r name body o hr x hx).imp Or.inr id

theorem slot_toks_of_use (use : CompUse) (sl : SlotUse) (h : sl ∈ use.slots) : ∀ x ∈ Stmt.toksL sl.body, x ∈ use.toks := by
  intro x hx
  unfold CompUse.toks
  exact List.mem_cons_of_mem _ (List.mem_flatMap.mpr ⟨sl, h, by unfold SlotUse.toks; exact List.mem_cons_of_mem _ hx⟩)

/-- the program attached to a component use: tokens of the component file and of the use -/
theorem applyComponent_toks (use : CompUse) (comp : Program) (path : Bytes) (out : List Stmt)
    (h : applyComponent use comp path = .ok out) :
    ∀ x ∈ Stmt.toksL out, x ∈ Stmt.toksL comp.stmts ∨ x ∈ use.toks := by
  unfold applyComponent at h
  split at h
  · cases h
  · refine foldlM_except_inv _ (fun b => ∀ x ∈ Stmt.toksL b, x ∈ Stmt.toksL comp.stmts ∨ x ∈ use.toks) use.slots comp.stmts out ?_
      (fun x hx => Or.inl hx) h
    intro b sl b' hsl hb hf
    split at hf
    · rename_i s' hfs
      cases hf
      intro x hx
      rcases fillSlot_toks b sl.name sl.body _ hfs x hx with h1 | h1
      · exact hb x h1
      · exact Or.inr (slot_toks_of_use use sl hsl x h1)
    · split at hf <;> cases hf

theorem applyComponents_toks (fs : Fs) (c : Cfg) (uses : List CompUse) (path : Bytes) (out : List (Nat × List Stmt))
    (hu : ∀ cu ∈ uses, ∀ x ∈ cu.toks, FileTok fs x) (h : applyComponents fs c uses path = .ok out) :
    ∀ kv ∈ out, ∀ x ∈ Stmt.toksL kv.2, FileTok fs x := by
  unfold applyComponents at h
  refine foldlM_except_inv _ (fun (acc : List (Nat × List Stmt)) => ∀ kv ∈ acc, ∀ x ∈ Stmt.toksL kv.2, FileTok fs x) uses [] out ?_
    (fun x hx => (by cases hx)) h
  intro b use b' huse hb hf
  simp only [] at hf
  split at hf
  · cases hf
  · cases hf
  · split at hf
    · cases hf
    · rename_i comp hpf
      split at hf
      · cases hf
      · rename_i stmts hac
        cases hf
        intro kv hkv
        rcases List.mem_append.mp hkv with hkv | hkv
        · exact hb kv hkv
        · rw [List.mem_singleton.mp hkv]
          intro x hx
          rcases applyComponent_toks use comp path stmts hac x hx with h1 | h1
          · exact parseFile_toks _ _ _ _ hpf x (prog_stmts_toks comp x h1)
          · exact hu use huse x h1

/-- **a registered page holds tokens of the tree's files only** -/
theorem loadPage_toks (fs : Fs) (c : Cfg) (p : Bytes) (pg : Page) (h : loadPage fs c p = .ok (some pg)) :
    ∀ t ∈ Stmt.toksL pg.stmts ++ pg.ctx.toks, FileTok fs t := by
  unfold loadPage at h
  split at h
  · cases h
  · rename_i prog hpf
    have hw := parseFile_toks _ _ _ _ hpf
    simp only [] at h
    split at h
    · cases h
    · rename_i layout hlay
      split at h
      · cases h
      · rename_i comps hcomps
        have hcw := applyComponents_toks _ _ _ _ _ (fun cu hcu x hx => hw x (prog_comp_toks prog cu hcu x hx)) hcomps
        have hcw' : ∀ x ∈ comps.flatMap (fun p => Stmt.toksL p.2), FileTok fs x := by
          intro x hx
          obtain ⟨kv, hkv, hxk⟩ := List.mem_flatMap.mp hx
          exact hcw kv hkv x hxk
        split at h
        · cases h
        · split at h
          · cases h
            intro t ht
            simp only [Ctx.toks, Stmt.toksO, List.flatMap_nil, List.nil_append, List.mem_append] at ht
            rcases ht with ht | ht
            · exact hw t (prog_stmts_toks prog t ht)
            · exact hcw' t ht
          · rename_i lstmts lhasUse binds
            split at h
            · rename_i ut lname huse
              cases h
              rw [huse] at hlay
              simp only [] at hlay
              split at hlay
              · cases hlay
              · rename_i lprog hlp
                have hlw := parseFile_toks _ _ _ _ hlp
                split at hlay
                · cases hlay
                · cases hlay
                  intro t ht
                  simp only [Ctx.toks, Stmt.toksO, Stmt.toksL, Stmt.toks, List.mem_append, List.mem_cons, List.append_nil] at ht
                  rcases ht with ht | ht | ht | ht
                  · rcases ht with ht | ht
                    · rw [ht]; exact hw _ (prog_use_tok prog (ut, lname) huse)
                    · cases ht
                  · exact hlw t (prog_stmts_toks lprog t ht)
                  · obtain ⟨y, hy, hty⟩ := List.mem_flatMap.mp ht
                    obtain ⟨z, _, hz⟩ := List.mem_filterMap.mp hy
                    obtain ⟨n, rid⟩ := z
                    simp only [Option.map_eq_some_iff] at hz
                    obtain ⟨ins, hins, hxe⟩ := hz
                    rw [← hxe] at hty
                    exact hw t (prog_insert_toks prog (n, ins) (mapGet_mem _ _ _ hins) t hty)
                  · exact hcw' t ht
            · cases h

theorem newTemplate_toks (w : World) (o : Option Opt) (t : Template) (h : (newTemplate w o).2 = .ok t) :
    ∀ x ∈ t, ∀ tk ∈ Stmt.toksL x.2.stmts ++ x.2.ctx.toks, FileTok (configure w o).fs tk := by
  unfold newTemplate at h
  simp only [] at h
  split at h
  · cases h
  · refine foldlM_except_inv _ (fun (acc : Template) => ∀ x ∈ acc, ∀ tk ∈ Stmt.toksL x.2.stmts ++ x.2.ctx.toks,
      FileTok (configure w o).fs tk) _ [] t ?_ (fun x hx => (by cases hx)) h
    intro acc np acc' _ hacc hf
    obtain ⟨name, p⟩ := np
    simp only [] at hf
    split at hf
    · cases hf
    · cases hf; exact hacc
    · rename_i pg hl
      cases hf
      intro x hx
      rcases List.mem_append.mp hx with hx | hx
      · exact hacc x hx
      · rw [List.mem_singleton.mp hx]
        exact loadPage_toks _ _ _ _ hl

end Tw
