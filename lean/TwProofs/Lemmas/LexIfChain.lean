/-
  TwProofs.Lemmas.LexIfChain — `@if(c0) t0 @elseif(c1) t1 … [@else te] @end` with plain texts, lexed
  as one piece of code (C02): the keyword `@elseif` is the case in which `@else` is "potentially
  longer".
-/
import TwProofs.Lemmas.LexDirArgs
import TwProofs.Lemmas.TextEach
namespace Tw
open Lx

def kwElseIf : Bytes := [64, 101, 108, 115, 101, 105, 102]

theorem dirScan_elseif (x : Bytes) : dirScan [] .ILLEGAL (kwElseIf ++ x) = (kwElseIf, .ELSE_IF) := by
  have h1 : lookupDirective [64] = .ILLEGAL := by decide
  have h2 : lookupDirective [64, 101] = .ILLEGAL := by decide
  have h3 : lookupDirective [64, 101, 108] = .ILLEGAL := by decide
  have h4 : lookupDirective [64, 101, 108, 115] = .ILLEGAL := by decide
  have h5 : lookupDirective [64, 101, 108, 115, 101] = .ELSE := by decide
  have h6 : lookupDirective [64, 101, 108, 115, 101, 105] = .ILLEGAL := by decide
  have h7 : lookupDirective [64, 101, 108, 115, 101, 105, 102] = .ELSE_IF := by decide
  have l1 : isLetterWord 64 = true := by decide
  have l2 : isLetterWord 101 = true := by decide
  have l3 : isLetterWord 108 = true := by decide
  have l4 : isLetterWord 115 = true := by decide
  have l5 : isLetterWord 105 = true := by decide
  have l6 : isLetterWord 102 = true := by decide
  have hp : isPotentiallyLong .ELSE (105 :: 102 :: x) = true := by simp [isPotentiallyLong]
  simp only [kwElseIf, List.cons_append, List.nil_append, dirScan, l1, l2, l3, l4, l5, l6, if_true, h1, h2, h3, h4, h5, h6, h7, hp]
  simp [isPotentiallyLong]

theorem dirKw_elseif : DirKw kwElseIf .ELSE_IF := ⟨rfl, by decide, by decide, dirScan_elseif, by decide, by decide, by decide, by decide⟩
theorem dirKw_if : DirKw kwIf .IF := ⟨rfl, by decide, by decide, dirScan_if, by decide, by decide, by decide, by decide⟩

/-- `@kw( g1 name g2 )` -/
theorem lex_cond_header (kw : Bytes) (ty : TT) (hk : DirKw kw ty) (s : Lx) (g1 n g2 tl : Bytes) (hh : s.isHTML = true) (hprev : s.prev ≠ 92)
    (hp0 : s.parens = 0) (hg1 : allWs g1) (hg2 : allWs g2) (hn : isName n)
    (hr : s.rest = kw ++ (40 :: (g1 ++ (n ++ (g2 ++ (41 :: tl)))))) :
    ∃ t1 t2 t3 t4 s4, Run s [t1, t2, t3, t4] s4 ∧ key t1 = (ty, kw) ∧ key t2 = (.LPAREN, [40]) ∧ key t3 = (.IDENT, n) ∧
      key t4 = (.RPAREN, [41]) ∧ s4.rest = tl ∧ s4.prev = 41 ∧ mode s4 = (true, false, 0, s.braces, s.panicked) := by
  obtain ⟨t1, t2, s2, run2, k1, k2, r2, m2⟩ := lex_dir_open kw ty hk s _ hh hprev hp0 hr
  obtain ⟨f1, f2, f3, f4, f5⟩ := mode_fields m2
  have hx : (isIdentCh ((g2 ++ (41 :: tl)).headD 0) || isNumberCh ((g2 ++ (41 :: tl)).headD 0)) = false := by
    cases g2 with
    | nil => simp only [List.nil_append, List.headD_cons]; decide
    | cons w t =>
      have hw : isWs w = true := hg2 w List.mem_cons_self
      simp only [List.cons_append, List.headD_cons]
      rw [ws_not_ident hw, ws_not_number hw]; rfl
  obtain ⟨t3, s3, st3, k3, ne3, a3⟩ := code_word_step s2 g1 n _ f1 hg1 (isName_word hn) r2 hx
  have h3 : s3.isHTML = false := by rw [mode_html a3.md]; exact f1
  have d3 : s3.isDirective = true := by rw [mode_dir a3.md]; exact f2
  have p3 : s3.parens = 1 := by rw [mode_parens a3.md]; exact f3
  obtain ⟨t4, s4, st4, k4, ne4, r4, pv4, m4⟩ := code_rparen_close s3 g2 tl h3 d3 p3 hg2 a3.rest
  refine ⟨t1, t2, t3, t4, s4, ?_, k1, k2, ?_, k4, r4, pv4, ?_⟩
  · have := run_snoc (run_snoc run2 st3 ne3) st4 ne4
    simpa using this
  · rw [k3, hn.2.2]
  · rw [m4, mode_braces a3.md, f4, mode_pan a3.md, f5]

/-- text without "{", "@" and backslash: plain whatever follows it -/
def VeryPlain (t : Bytes) : Prop := ∀ c ∈ t, c ≠ 123 ∧ c ≠ 64 ∧ c ≠ 92

instance VeryPlain.dec (t : Bytes) : Decidable (VeryPlain t) := by unfold VeryPlain; exact inferInstance

theorem veryPlain_before : ∀ (t tl : Bytes), VeryPlain t → PlainBefore t tl
  | [], _, _ => trivial
  | c :: a, tl, h => by
    have hc := h c (by simp)
    exact ⟨fun e => hc.1 e.1, fun e => hc.2.1 e.1, veryPlain_before a tl (fun x hx => h x (List.mem_cons_of_mem _ hx))⟩

theorem veryPlain_last (t : Bytes) (h : VeryPlain t) (hne : t ≠ []) : lastOr t 0 ≠ 92 := by
  unfold lastOr
  cases hr : t.reverse with
  | nil => exact absurd (by simpa using hr) hne
  | cons c r =>
    simp only [List.cons_append, List.headD_cons]
    have : c ∈ t := by rw [← List.mem_reverse, hr]; simp
    exact (h c this).2.2

/-- a run of such text in text mode: one text token -/
theorem lex_vplain (s : Lx) (t tl : Bytes) (hh : s.isHTML = true) (ht : VeryPlain t) (hne : t ≠ []) (hr : s.rest = t ++ tl)
    (hstop : Stops tl) :
    ∃ tk s1, nextStep s = (.tok tk, s1) ∧ key tk = (.HTML, t) ∧ tk.ty ≠ .EOF ∧ s1.rest = tl ∧ s1.prev ≠ 92 ∧ mode s1 = mode s := by
  have hst : startsRun [.plain t] := by
    cases t with
    | nil => exact absurd rfl hne
    | cons c a => trivial
  have hok : SegsOK [.plain t] tl := ⟨by simpa [segsSrc] using veryPlain_before t tl ht, trivial⟩
  obtain ⟨tk, s1, h1, h2, h3, h4, h5, h6, h7, h8, h9, h10⟩ := lex_run s [.plain t] tl hh hst hok (by simpa [segsSrc, Seg.src] using hr) hstop
    (fun _ => by simpa [segsSrc, Seg.src] using veryPlain_last t ht hne)
  refine ⟨tk, s1, h1, by simpa [segsLit, Seg.lit] using h2, h3, h4, ?_, ?_⟩
  · rw [h10]; simpa [segsSrc, Seg.src] using veryPlain_last t ht hne
  · simp only [mode, h5, hh, h9, h8, h7, h6]

/-- one `@elseif(c) t` -/
structure Alt where
  g1 : Bytes
  c : Bytes
  g2 : Bytes
  t : Bytes

def Alt.OK (a : Alt) : Prop := allWs a.g1 ∧ allWs a.g2 ∧ isName a.c ∧ VeryPlain a.t ∧ a.t ≠ []
instance Alt.decOK (a : Alt) : Decidable a.OK := by unfold Alt.OK; exact inferInstance

def Alt.src (a : Alt) : Bytes := kwElseIf ++ (40 :: (a.g1 ++ (a.c ++ (a.g2 ++ (41 :: a.t)))))
def Alt.keys (a : Alt) : List (TT × Bytes) := [(.ELSE_IF, kwElseIf), (.LPAREN, [40]), (.IDENT, a.c), (.RPAREN, [41]), (.HTML, a.t)]

def altsSrc : List Alt → Bytes
  | [] => []
  | a :: r => a.src ++ altsSrc r
def altsKeys : List Alt → List (TT × Bytes)
  | [] => []
  | a :: r => a.keys ++ altsKeys r

/-- the end of the chain: `[@else te] @end` -/
def tailSrc (els : Option Bytes) : Bytes := (match els with | some te => kwElse ++ te | none => []) ++ kwEnd
def tailKeys (els : Option Bytes) : List (TT × Bytes) :=
  (match els with | some te => [(.ELSE, kwElse), (.HTML, te)] | none => []) ++ [(.END, kwEnd)]

/-- the `@else` text does not begin with "if" (that would be `@elseif`) -/
def ElseTextOK (els : Option Bytes) : Prop :=
  match els with
  | some te => VeryPlain te ∧ te ≠ [] ∧ ¬ (te.headD 0 = 105 ∧ (te.drop 1).headD 0 = 102)
  | none => True
instance ElseTextOK.dec (els : Option Bytes) : Decidable (ElseTextOK els) := by unfold ElseTextOK; cases els <;> exact inferInstance

theorem stops_tail (els : Option Bytes) (tl : Bytes) : Stops (tailSrc els ++ tl) := by
  cases els with
  | none => simpa [tailSrc] using stops_kw kwEnd tl rfl (by decide) (by decide) (by decide)
  | some te =>
    have := stops_kw kwElse (te ++ kwEnd ++ tl) rfl (by decide) (by decide) (by decide)
    simpa [tailSrc, List.append_assoc] using this

theorem stops_alts (alts : List Alt) (els : Option Bytes) (tl : Bytes) : Stops (altsSrc alts ++ (tailSrc els ++ tl)) := by
  cases alts with
  | nil => simpa [altsSrc] using stops_tail els tl
  | cons a r =>
    have := stops_kw kwElseIf ((40 :: (a.g1 ++ (a.c ++ (a.g2 ++ (41 :: a.t))))) ++ (altsSrc r ++ (tailSrc els ++ tl))) rfl (by decide) (by decide) (by decide)
    simpa [altsSrc, Alt.src, List.append_assoc] using this

/-- the end of the chain, lexed: text mode in, text mode out -/
theorem lex_tail (els : Option Bytes) (hok : ElseTextOK els) (s : Lx) (tl : Bytes) (hh : s.isHTML = true) (hprev : s.prev ≠ 92)
    (hd : s.isDirective = false) (hr : s.rest = tailSrc els ++ tl) :
    ∃ toks s1, Run s toks s1 ∧ toks.map key = tailKeys els ∧ s1.rest = tl ∧ s1.prev ≠ 92 ∧
      mode s1 = (true, false, s.parens, s.braces, s.panicked) := by
  cases els with
  | none =>
    obtain ⟨t, s1, st, k, ne, r1, h1, d1, pa1, b1, p1, pv1⟩ := lex_keyword s kwEnd tl .END hh hprev (by simpa [tailSrc] using hr)
      rfl (by decide) (by decide) (dirScan_end _) (by decide) (by decide) (by decide)
    refine ⟨[t], s1, Run.cons _ _ _ _ _ st ne (Run.nil _), by simp [tailKeys, k], r1, by rw [pv1]; decide, ?_⟩
    simp only [mode, h1, d1, pa1, b1, p1]
    rfl
  | some te =>
    obtain ⟨hvp, hne, hnif⟩ := hok
    have hr' : s.rest = kwElse ++ (te ++ (kwEnd ++ tl)) := by rw [hr]; simp [tailSrc, List.append_assoc]
    obtain ⟨t1, s1, st1, k1, ne1, r1, h1, d1, pa1, b1, p1, pv1⟩ := lex_keyword s kwElse _ .ELSE hh hprev hr'
      rfl (by decide) (by decide) (dirScan_else _ (by
        intro ⟨e1, e2⟩
        apply hnif
        cases te with
        | nil => exact absurd rfl hne
        | cons a r =>
          cases r with
          | nil => simp only [List.cons_append, List.nil_append, List.headD_cons, List.drop_succ_cons, List.drop_zero] at e1 e2 ⊢
                   -- one byte of text, then "@end": the second byte is '@', not 'f'
                   simp [kwEnd] at e2
          | cons a2 r2 => simpa using ⟨e1, e2⟩)) (by decide) (by decide) (by decide)
    have h1' : s1.isHTML = true := by rw [h1]; rfl
    obtain ⟨t2, s2, st2, k2, ne2, r2, pv2, m2⟩ := lex_vplain s1 te (kwEnd ++ tl) h1' hvp hne r1
      (stops_kw kwEnd tl rfl (by decide) (by decide) (by decide))
    obtain ⟨t3, s3, st3, k3, ne3, r3, h3, d3, pa3, b3, p3, pv3⟩ := lex_keyword s2 kwEnd tl .END (by rw [mode_html m2]; exact h1') pv2 r2
      rfl (by decide) (by decide) (dirScan_end _) (by decide) (by decide) (by decide)
    refine ⟨[t1, t2, t3], s3, Run.cons _ _ _ _ _ st1 ne1 (Run.cons _ _ _ _ _ st2 ne2 (Run.cons _ _ _ _ _ st3 ne3 (Run.nil _))),
      by simp [tailKeys, k1, k2, k3], r3, by rw [pv3]; decide, ?_⟩
    simp only [mode, h3, d3, pa3, b3, p3, mode_parens m2, mode_braces m2, mode_pan m2, pa1, b1, p1]
    rfl

/-- the `@elseif` branches and the end of the chain, lexed -/
theorem lex_alts (els : Option Bytes) (hels : ElseTextOK els) : ∀ (alts : List Alt), (∀ a ∈ alts, a.OK) → ∀ (s : Lx) (tl : Bytes),
    s.isHTML = true → s.prev ≠ 92 → s.isDirective = false → s.parens = 0 → s.rest = altsSrc alts ++ (tailSrc els ++ tl) →
    ∃ toks s1, Run s toks s1 ∧ toks.map key = altsKeys alts ++ tailKeys els ∧ s1.rest = tl ∧ s1.prev ≠ 92 ∧
      mode s1 = (true, false, 0, s.braces, s.panicked)
  | [], _, s, tl, hh, hpv, hd, hp0, hr => by
    obtain ⟨toks, s1, run, hk, r1, pv1, m1⟩ := lex_tail els hels s tl hh hpv hd (by simpa [altsSrc] using hr)
    exact ⟨toks, s1, run, by simpa [altsKeys] using hk, r1, pv1, by rw [m1, hp0]⟩
  | a :: r, hok, s, tl, hh, hpv, hd, hp0, hr => by
    obtain ⟨a1, a2, a3, a4, a5⟩ := hok a (by simp)
    have hr' : s.rest = kwElseIf ++ (40 :: (a.g1 ++ (a.c ++ (a.g2 ++ (41 :: (a.t ++ (altsSrc r ++ (tailSrc els ++ tl)))))))) := by
      rw [hr]; simp [altsSrc, Alt.src, List.append_assoc]
    obtain ⟨t1, t2, t3, t4, s4, run4, k1, k2, k3, k4, r4, pv4, m4⟩ := lex_cond_header kwElseIf .ELSE_IF dirKw_elseif s a.g1 a.c a.g2 _ hh hpv hp0 a1 a2 a3 hr'
    obtain ⟨f1, f2, f3, f4, f5⟩ := mode_fields m4
    obtain ⟨t5, s5, st5, k5, ne5, r5, pv5, m5⟩ := lex_vplain s4 a.t _ f1 a4 a5 r4 (stops_alts r els tl)
    obtain ⟨toks, s6, run6, hk6, r6, pv6, m6⟩ := lex_alts els hels r (fun x hx => hok x (List.mem_cons_of_mem _ hx)) s5 tl
      (by rw [mode_html m5]; exact f1) pv5 (by rw [mode_dir m5]; exact f2) (by rw [mode_parens m5]; exact f3) r5
    refine ⟨[t1, t2, t3, t4, t5] ++ toks, s6, ?_, ?_, r6, pv6, ?_⟩
    · exact Run.append (run_snoc run4 st5 ne5) run6
    · simp [altsKeys, Alt.keys, k1, k2, k3, k4, k5, hk6]
    · rw [m6, mode_braces m5, f4, mode_pan m5, f5]

/-- the whole chain -/
structure Chain where
  g1 : Bytes
  c : Bytes
  g2 : Bytes
  t : Bytes
  alts : List Alt
  els : Option Bytes

def Chain.OK (ch : Chain) : Prop :=
  allWs ch.g1 ∧ allWs ch.g2 ∧ isName ch.c ∧ VeryPlain ch.t ∧ ch.t ≠ [] ∧ (∀ a ∈ ch.alts, a.OK) ∧ ElseTextOK ch.els
instance Chain.decOK (ch : Chain) : Decidable ch.OK := by unfold Chain.OK; exact inferInstance

def Chain.code (ch : Chain) : Code :=
  { src := kwIf ++ (40 :: (ch.g1 ++ (ch.c ++ (ch.g2 ++ (41 :: (ch.t ++ (altsSrc ch.alts ++ tailSrc ch.els))))))),
    keys := [(.IF, kwIf), (.LPAREN, [40]), (.IDENT, ch.c), (.RPAREN, [41]), (.HTML, ch.t)] ++ (altsKeys ch.alts ++ tailKeys ch.els) }

theorem altsKeys_length (alts : List Alt) : (altsKeys alts).length ≤ (altsSrc alts).length := by
  induction alts with
  | nil => simp [altsKeys, altsSrc]
  | cons a r ih => simp [altsKeys, altsSrc, Alt.keys, Alt.src, kwElseIf]; omega

theorem tailKeys_length (els : Option Bytes) (h : ElseTextOK els) : (tailKeys els).length ≤ (tailSrc els).length := by
  cases els with
  | none => simp [tailKeys, tailSrc, kwEnd]
  | some te => simp [tailKeys, tailSrc, kwEnd, kwElse] <;> omega

theorem chain_ok (ch : Chain) (h : ch.OK) : ch.code.OK := by
  obtain ⟨a1, a2, a3, a4, a5, a6, a7⟩ := h
  refine ⟨?_, ?_, ?_⟩
  · intro tl
    have := stops_kw kwIf ((40 :: (ch.g1 ++ (ch.c ++ (ch.g2 ++ (41 :: (ch.t ++ (altsSrc ch.alts ++ tailSrc ch.els))))))) ++ tl) rfl (by decide) (by decide) (by decide)
    simpa [Chain.code, List.append_assoc] using this
  · have h1 := altsKeys_length ch.alts
    have h2 := tailKeys_length ch.els a7
    simp [Chain.code, kwIf]; omega
  · intro s tl hr hh hb hpa hd hpv
    have hr' : s.rest = kwIf ++ (40 :: (ch.g1 ++ (ch.c ++ (ch.g2 ++ (41 :: (ch.t ++ (altsSrc ch.alts ++ (tailSrc ch.els ++ tl)))))))) := by
      rw [hr]; simp [Chain.code, List.append_assoc]
    obtain ⟨t1, t2, t3, t4, s4, run4, k1, k2, k3, k4, r4, pv4, m4⟩ := lex_cond_header kwIf .IF dirKw_if s ch.g1 ch.c ch.g2 _ hh hpv hpa a1 a2 a3 hr'
    obtain ⟨f1, f2, f3, f4, f5⟩ := mode_fields m4
    obtain ⟨t5, s5, st5, k5, ne5, r5, pv5, m5⟩ := lex_vplain s4 ch.t _ f1 a4 a5 r4 (stops_alts ch.alts ch.els tl)
    obtain ⟨toks, s6, run6, hk6, r6, pv6, m6⟩ := lex_alts ch.els a7 ch.alts a6 s5 tl
      (by rw [mode_html m5]; exact f1) pv5 (by rw [mode_dir m5]; exact f2) (by rw [mode_parens m5]; exact f3) r5
    obtain ⟨u1, u2, u3, u4, u5⟩ := mode_fields m6
    refine ⟨[t1, t2, t3, t4, t5] ++ toks, s6, Run.append (run_snoc run4 st5 ne5) run6, ?_, r6, u1, ?_, u3, u2, ?_, pv6⟩
    · simp [Chain.code, k1, k2, k3, k4, k5, hk6]
    · rw [u4, mode_braces m5, f4]; exact hb
    · rw [u5, mode_pan m5, f5]

end Tw
