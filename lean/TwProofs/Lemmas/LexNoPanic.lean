/-
  TwProofs.Lemmas.LexNoPanic — the lexer never reaches `out.Truncate(-1)` in `readHTML`:
  a text token never starts right after a backslash (the only place where the buffer could be
  empty when an escaped "{{" or directive is met).
-/
import TwProofs.Lemmas.LexDirective
import TwProofs.Lemmas.LexSpan

namespace Tw
open Lx

/-- no panic so far, and in text mode with input left the previous byte is not a backslash -/
def HInv (s : Lx) : Prop := s.panicked = false ∧ (s.isHTML = true → s.rest ≠ [] → s.prev ≠ 92)

theorem hinv_of_notHTML (s : Lx) (hp : s.panicked = false) (hh : s.isHTML = false) : HInv s :=
  ⟨hp, fun h => by rw [hh] at h; cases h⟩

theorem advance_panicked (s : Lx) (n : Nat) : (advance s n).panicked = s.panicked := (advance_frame n s).2.2.2.2.2.2
theorem advance_isHTML (s : Lx) (n : Nat) : (advance s n).isHTML = s.isHTML := (advance_frame n s).2.2.1

theorem advance_prev_split (s : Lx) (a : Bytes) (c : Byte) (r : Bytes) (h : s.rest = a ++ c :: r) :
    (advance s (a.length + 1)).prev = c := by
  unfold Lx.prev
  rw [(advance_pre_rest _ s).1, h]
  have : ∀ a : Bytes, List.take (a.length + 1) (a ++ c :: r) = a ++ [c] := by
    intro a
    induction a with
    | nil => simp
    | cons x xs ih => simpa using ih
  rw [this]
  simp

theorem emit_panicked (s : Lx) (n : Nat) (ty : TT) (lit : Bytes) : (emit s n ty lit).2.panicked = s.panicked := by
  unfold emit; exact advance_panicked _ _
theorem emit_isHTML (s : Lx) (n : Nat) (ty : TT) (lit : Bytes) : (emit s n ty lit).2.isHTML = s.isHTML := by
  unfold emit; exact advance_isHTML _ _
theorem emit_prev_split (s : Lx) (ty : TT) (lit : Bytes) (a : Bytes) (c : Byte) (r : Bytes) (h : s.rest = a ++ c :: r) :
    (emit s (a.length + 1) ty lit).2.prev = c := by
  unfold emit; exact advance_prev_split _ a c r h

/-! ### text -/

theorem htmlScan_pan_out (prev : Byte) (out : Bytes) (n : Nat) (pan : Bool) (rest : Bytes) (ho : out ≠ []) :
    (htmlScan prev out n pan rest).2.2 = pan := by
  induction rest generalizing prev out n pan with
  | nil => simp [htmlScan]
  | cons c r ih =>
    simp only [htmlScan]
    split
    · rfl
    · split
      · rw [ih _ _ _ _ (by simp)]
        cases out with
        | nil => exact absurd rfl ho
        | cons x xs => simp
      · exact ih _ _ _ _ (by simp)

theorem htmlScan_nopanic (prev : Byte) (rest : Bytes) (hp : prev ≠ 92) :
    (htmlScan prev [] 0 false rest).2.2 = false := by
  cases rest with
  | nil => simp [htmlScan]
  | cons c r =>
    simp only [htmlScan]
    have hesc : (prev == 92) = false := by simpa using hp
    split
    · rfl
    · rename_i h1
      split
      · rename_i h2
        simp only [hesc, Bool.not_false, Bool.and_true] at h1
        exact absurd h2 h1
      · exact htmlScan_pan_out _ _ _ _ _ (by simp)

/-- where `readHTML` stops before the end of the input, the byte before is not a backslash -/
theorem htmlScan_stop (rest : Bytes) : ∀ (prev : Byte) (out : Bytes) (n : Nat) (pan : Bool),
    (rest.drop ((htmlScan prev out n pan rest).2.1 - n) ≠ [] →
      ((rest.take ((htmlScan prev out n pan rest).2.1 - n)).reverse ++ [prev]).headD 0 ≠ 92) := by
  induction rest with
  | nil => intro prev out n pan h; simp at h
  | cons c r ih =>
    intro prev out n pan
    simp only [htmlScan]
    have step : ∀ (o : Bytes) (pn : Bool),
        ((c :: r).drop ((htmlScan c o (n + 1) pn r).2.1 - n) ≠ [] →
          (((c :: r).take ((htmlScan c o (n + 1) pn r).2.1 - n)).reverse ++ [prev]).headD 0 ≠ 92) := by
      intro o pn
      have hc := htmlScan_count c o (n + 1) pn r
      have hk : (htmlScan c o (n + 1) pn r).2.1 - n = ((htmlScan c o (n + 1) pn r).2.1 - (n + 1)) + 1 := by omega
      rw [hk]
      intro hd
      have := ih c o (n + 1) pn (by simpa using hd)
      simp only [List.take_succ_cons, List.reverse_cons, List.append_assoc]
      cases hrev : (List.take ((htmlScan c o (n + 1) pn r).2.1 - (n + 1)) r).reverse with
      | nil => rw [hrev] at this; simpa using this
      | cons x xs => rw [hrev] at this; simpa using this
    split
    · rename_i hstop
      intro _
      simp only [Nat.sub_self, List.take_zero, List.reverse_nil, List.nil_append, List.headD_cons]
      intro h92
      simp [h92] at hstop
    · split
      · exact step _ _
      · exact step _ _

theorem htmlToken_hinv (s : Lx) (h : HInv s) (hh : s.isHTML = true) (hne : s.rest ≠ []) : HInv (htmlToken s).2 := by
  have hprev := h.2 hh hne
  unfold htmlToken
  simp only []
  refine ⟨?_, ?_⟩
  · show ((emit s _ TT.HTML _).2.panicked || _) = false
    rw [emit_panicked, h.1, htmlScan_nopanic _ _ hprev]; rfl
  · intro _ hrest
    show (emit s _ TT.HTML _).2.prev ≠ 92
    have hrest' : (emit s (htmlScan s.prev [] 0 false s.rest).2.1 TT.HTML (htmlScan s.prev [] 0 false s.rest).1.reverse).2.rest ≠ [] := hrest
    rw [emit_rest] at hrest'
    have := htmlScan_stop s.rest s.prev [] 0 false (by simpa using hrest')
    simp only [Nat.sub_zero] at this
    unfold emit Lx.prev
    rw [(advance_pre_rest _ _).1]
    show ((List.take (htmlScan s.prev [] 0 false s.rest).2.1 s.rest).reverse ++ s.pre).headD 0 ≠ 92
    generalize (List.take (htmlScan s.prev [] 0 false s.rest).2.1 s.rest).reverse = rv at this ⊢
    cases rv with
    | nil => simpa [Lx.prev] using this
    | cons x xs => simpa using this

/-! ### comments -/

theorem commentScan_stop (l : Bytes) : l.drop (commentScan l) = [] ∨ ∃ r, l.drop (commentScan l) = 45 :: 45 :: 125 :: 125 :: r := by
  induction l with
  | nil => left; simp [commentScan]
  | cons c t ih =>
    unfold commentScan
    split
    · rename_i hp
      right
      simp only [List.drop_zero]
      -- the prefix test
      have : ∃ r, c :: t = 45 :: 45 :: 125 :: 125 :: r := by
        match c, t, hp with
        | c, a :: b2 :: d :: r, hp =>
          simp [isPrefixOf] at hp
          obtain ⟨h1, h2, h3, h4⟩ := hp
          exact ⟨r, by subst h1 h2 h3 h4; rfl⟩
        | c, [], hp => simp [isPrefixOf] at hp
        | c, [a], hp => simp [isPrefixOf] at hp
        | c, [a, b2], hp => simp [isPrefixOf] at hp
      exact this
    · rw [show 1 + commentScan t = commentScan t + 1 by omega, List.drop_succ_cons]
      exact ih

end Tw

namespace Tw
open Lx

/-! ### code tokens -/

theorem wordDesc_st (s : Lx) : (wordDesc s).st = s := by
  unfold wordDesc
  split
  · rfl
  · split <;> rfl

theorem opDesc_st (s : Lx) : (opDesc s).st = s := by
  unfold opDesc
  split
  · split <;> rfl
  · split
    · split <;> rfl
    · split
      · split <;> rfl
      · split
        · split <;> rfl
        · split
          · split <;> rfl
          · split
            · split <;> rfl
            · exact wordDesc_st s

theorem strDesc_st (s : Lx) : (strDesc s).st = s := rfl

/-- what a code token may do to the mode: only ")" can switch to text -/
theorem bracketDesc_flags (s : Lx) :
    (bracketDesc s).st.panicked = s.panicked ∧ (bracketDesc s).st.rest = s.rest ∧ (bracketDesc s).st.pre = s.pre ∧
    ((bracketDesc s).st.isHTML = s.isHTML ∨ ((bracketDesc s).n = 1 ∧ s.char = 41)) := by
  unfold bracketDesc
  split
  · exact ⟨rfl, rfl, rfl, Or.inl rfl⟩
  · split
    · exact ⟨rfl, rfl, rfl, Or.inl rfl⟩
    · split
      · refine ⟨?_, ?_, ?_, Or.inl ?_⟩ <;> (simp only []; split <;> rfl)
      · split
        · rename_i h41
          refine ⟨?_, ?_, ?_, Or.inr ⟨rfl, by simpa using h41⟩⟩ <;>
            (simp only []; split; · rfl
             split <;> rfl)
        · split
          · exact ⟨rfl, rfl, rfl, Or.inl rfl⟩
          · rw [opDesc_st]; exact ⟨rfl, rfl, rfl, Or.inl rfl⟩

theorem codeDesc_flags (s : Lx) :
    (codeDesc s).st.panicked = s.panicked ∧ (codeDesc s).st.rest = s.rest ∧ (codeDesc s).st.pre = s.pre ∧
    ((codeDesc s).st.isHTML = s.isHTML ∨ ((codeDesc s).n = 1 ∧ s.char = 41)) := by
  unfold codeDesc
  split
  · exact ⟨rfl, rfl, rfl, Or.inl rfl⟩
  · exact bracketDesc_flags s

theorem char_eq_split (s : Lx) (hne : s.rest ≠ []) : ∃ r, s.rest = [] ++ s.char :: r := by
  obtain ⟨c, r, hcr, hc⟩ := rest_cons s hne
  exact ⟨r, by rw [hcr, hc]; rfl⟩

theorem embeddedCodeToken_hinv (s : Lx) (h : HInv s) (hh : s.isHTML = false) (hne : s.rest ≠ []) :
    HInv (embeddedCodeToken s).2 := by
  obtain ⟨hp, hr, hpre, hf⟩ := codeDesc_flags s
  unfold embeddedCodeToken TokDesc.emit
  rcases hf with hf | ⟨hn, h41⟩
  · exact hinv_of_notHTML _ (by rw [emit_panicked, hp]; exact h.1) (by rw [emit_isHTML, hf]; exact hh)
  · refine ⟨by rw [emit_panicked, hp]; exact h.1, fun _ _ => ?_⟩
    obtain ⟨r, hr'⟩ := char_eq_split s hne
    rw [hn]
    have := emit_prev_split (codeDesc s).st (codeDesc s).ty (codeDesc s).lit [] s.char r (by rw [hr]; exact hr')
    simp only [List.length_nil, Nat.zero_add] at this
    rw [this, h41]; decide

/-! ### "{{", "}}" and comments -/

theorem rest_two (s : Lx) (a c : Byte) (h1 : (s.char == a) = true) (h2 : (s.peek == c) = true) (hne : s.rest ≠ []) :
    s.rest = [a] ∨ ∃ r, s.rest = [a] ++ c :: r ∨ (s.rest = [a] ∧ c = 0) := by
  obtain ⟨x, r, hcr, hc⟩ := rest_cons s hne
  have hx : x = a := by rw [← hc]; simpa using h1
  cases r with
  | nil => left; rw [hcr, hx]
  | cons y r' =>
    right
    refine ⟨r', Or.inl ?_⟩
    have : s.peek = y := by simp [Lx.peek, hcr]
    rw [hcr, hx]
    have hy : y = c := by rw [← this]; simpa using h2
    rw [hy]; rfl

theorem rbraces_hinv (s : Lx) (h : HInv s) (h1 : (s.char == 125) = true) (h2 : (s.peek == 125) = true) (hne : s.rest ≠ []) :
    HInv (bracesToken s .RBRACES [125, 125]).2 := by
  unfold bracesToken
  refine ⟨by rw [emit_panicked]; exact h.1, fun _ hrest => ?_⟩
  rw [emit_rest] at hrest
  rcases rest_two s 125 125 h1 h2 hne with hr | ⟨r, hr | ⟨hr, h0⟩⟩
  · exfalso; apply hrest; show List.drop 2 s.rest = []; rw [hr]; rfl
  · have := emit_prev_split { s with isHTML := (TT.RBRACES != TT.LBRACES) } .RBRACES [125, 125] [125] 125 r hr
    simp only [List.length_cons, List.length_nil] at this
    rw [this]; decide
  · cases h0

theorem lbraces_notHTML (s : Lx) : (bracesToken s .LBRACES [123, 123]).2.isHTML = false := by
  unfold bracesToken; rw [emit_isHTML]; rfl

theorem lbraces_panicked (s : Lx) : (bracesToken s .LBRACES [123, 123]).2.panicked = s.panicked := by
  unfold bracesToken; rw [emit_panicked]

theorem readChar_eq_advance (s : Lx) : readChar s = advance s 1 := rfl

theorem skipComment_hinv (s : Lx) (hp : s.panicked = false) (hh : s.isHTML = false) : HInv (skipComment s) := by
  unfold skipComment
  simp only []
  have hp2 : (readChar (readChar s)).panicked = false := by
    rw [readChar_eq_advance, readChar_eq_advance, advance_panicked, advance_panicked]; exact hp
  have hh2 : (readChar (readChar s)).isHTML = false := by
    rw [readChar_eq_advance, readChar_eq_advance, advance_isHTML, advance_isHTML]; exact hh
  split
  · exact hinv_of_notHTML _ (by rw [advance_panicked]; exact hp2) (by rw [advance_isHTML]; exact hh2)
  · rename_i hneof
    refine ⟨by rw [advance_panicked]; show (advance _ _).panicked = false; rw [advance_panicked]; exact hp2, fun _ _ => ?_⟩
    have hrest : (advance (readChar (readChar s)) (commentScan (readChar (readChar s)).rest)).rest =
        (readChar (readChar s)).rest.drop (commentScan (readChar (readChar s)).rest) := advance_rest _ _
    rcases commentScan_stop (readChar (readChar s)).rest with hnil | ⟨r, hr⟩
    · exfalso; apply hneof
      rw [isEOF_iff, hrest]; exact hnil
    · have := advance_prev_split
        { advance (readChar (readChar s)) (commentScan (readChar (readChar s)).rest) with isHTML := true }
        [45, 45, 125] 125 r (by show (advance _ _).rest = _; rw [hrest, hr]; rfl)
      simp only [List.length_cons, List.length_nil] at this
      rw [this]; decide

end Tw

namespace Tw
open Lx

/-! ### directives -/

theorem advance_prev_mem (s : Lx) (n : Nat) (h1 : 1 ≤ n) (h2 : n ≤ s.rest.length) :
    (advance s n).prev ∈ s.rest.take n := by
  unfold Lx.prev
  rw [(advance_pre_rest _ s).1]
  have hne : (s.rest.take n).reverse ≠ [] := by
    intro h
    have : (s.rest.take n).length = 0 := by simpa using congrArg List.length h
    rw [List.length_take] at this
    omega
  cases hr : (s.rest.take n).reverse with
  | nil => exact absurd hr hne
  | cons x xs =>
    simp only [List.cons_append, List.headD_cons]
    have : x ∈ (s.rest.take n).reverse := by rw [hr]; exact List.mem_cons_self
    exact List.mem_reverse.mp this

theorem dirScan_prefix (rest : Bytes) : ∀ (kw : Bytes) (tok : TT),
    ∃ m, (dirScan kw tok rest).1 = kw ++ rest.take m ∧ m ≤ rest.length := by
  induction rest with
  | nil => intro kw tok; exact ⟨0, by simp [dirScan], Nat.le_refl _⟩
  | cons c r ih =>
    intro kw tok
    simp only [dirScan]
    split
    · split
      · exact ⟨1, by simp, by simp⟩
      · obtain ⟨m, hm, hle⟩ := ih (kw ++ [c]) (lookupDirective (kw ++ [c]))
        exact ⟨m + 1, by rw [hm]; simp, by simp; omega⟩
    · exact ⟨0, by simp, Nat.zero_le _⟩

theorem dirScan_letters (rest : Bytes) : ∀ (kw : Bytes) (tok : TT), kw.all isLetterWord = true →
    (dirScan kw tok rest).1.all isLetterWord = true := by
  induction rest with
  | nil => intro kw tok h; simpa [dirScan] using h
  | cons c r ih =>
    intro kw tok h
    simp only [dirScan]
    split
    · rename_i hc
      have h' : (kw ++ [c]).all isLetterWord = true := by simp [List.all_append, h, hc]
      split
      · exact h'
      · exact ih _ _ h'
    · exact h

theorem letter_ne_backslash (c : Byte) (h : isLetterWord c = true) : c ≠ 92 := by
  intro h92; rw [h92] at h; revert h; decide

theorem directiveToken_hinv (s : Lx) (h : HInv s) (hd : (isDirectiveToken s).1 = true) (hne : s.rest ≠ []) :
    HInv (directiveToken s).2 := by
  have hfound := directive_found s hd
  have h64 : s.char = 64 := by
    unfold isDirectiveToken at hd
    by_cases h64 : s.char = 64
    · exact h64
    · simp [h64] at hd
  have hdesc : directiveDesc s =
      { st := s, n := (dirScan [] .ILLEGAL s.rest).1.length, ty := (dirScan [] .ILLEGAL s.rest).2,
        lit := (dirScan [] .ILLEGAL s.rest).1 } := by
    have hf := hfound
    unfold directiveDesc at hf ⊢
    rw [if_neg (by simp [h64])] at hf ⊢
    simp only [] at hf ⊢
    split
    · rename_i hill
      rw [if_pos hill] at hf
      exact absurd rfl hf
    · rfl
  obtain ⟨m, hm, hmle⟩ := dirScan_prefix s.rest [] .ILLEGAL
  simp only [List.nil_append] at hm
  have hlen : (dirScan [] .ILLEGAL s.rest).1.length = m := by rw [hm, List.length_take]; omega
  have hpos : 1 ≤ m := by
    obtain ⟨c, r, hcr, hc⟩ := rest_cons s hne
    rw [← hlen, hcr]
    exact dirScan_pos c r (by rw [← hc, h64]; decide)
  have hall := dirScan_letters s.rest [] .ILLEGAL rfl
  unfold directiveToken
  rw [hdesc]
  simp only [TokDesc.emit]
  have hprev : (emit s (dirScan [] .ILLEGAL s.rest).1.length (dirScan [] .ILLEGAL s.rest).2 (dirScan [] .ILLEGAL s.rest).1).2.prev ≠ 92 := by
    unfold emit
    rw [hlen]
    have hmem := advance_prev_mem s.tokenBegins m hpos hmle
    rw [tokenBegins_rest, ← hm] at hmem
    exact letter_ne_backslash _ (List.all_eq_true.mp hall _ hmem)
  split
  · exact ⟨by rw [emit_panicked]; exact h.1, fun _ _ => hprev⟩
  · exact ⟨by show (emit _ _ _ _).2.panicked = false; rw [emit_panicked]; exact h.1, fun _ _ => hprev⟩

/-! ### the whole lexer -/

theorem skipWs_hinv (s : Lx) (h : HInv s) : HInv (skipWs s) ∧ (skipWs s).isHTML = s.isHTML := by
  unfold skipWs
  split
  · rename_i hh
    have hh' : s.isHTML = false := by simpa using hh
    exact ⟨hinv_of_notHTML _ (by rw [advance_panicked]; exact h.1) (by rw [advance_isHTML]; exact hh'), advance_isHTML _ _⟩
  · exact ⟨h, rfl⟩

theorem stepAt_hinv (s : Lx) (h : HInv s) : HInv (stepAt s).2 := by
  unfold stepAt
  split
  · rename_i heof
    exact ⟨h.1, fun _ hr => absurd ((isEOF_iff s).mp heof) hr⟩
  · rename_i hneof
    have hne : s.rest ≠ [] := fun hr => hneof ((isEOF_iff s).mpr hr)
    split
    · split
      · exact skipComment_hinv _ (by rw [lbraces_panicked]; exact h.1) (lbraces_notHTML s)
      · exact hinv_of_notHTML _ (by rw [lbraces_panicked]; exact h.1) (lbraces_notHTML s)
    · split
      · rename_i hrb
        simp only [Bool.and_eq_true] at hrb
        exact rbraces_hinv s h hrb.1.1.2 hrb.1.2 hne
      · split
        · rename_i hh
          exact embeddedCodeToken_hinv s h (by simpa using hh) hne
        · rename_i hh
          have hh' : s.isHTML = true := by simpa using hh
          split
          · rename_i hd
            exact directiveToken_hinv s h hd hne
          · exact htmlToken_hinv s h hh' hne

theorem nextStep_hinv (s : Lx) (h : HInv s) : HInv (nextStep s).2 := stepAt_hinv _ (skipWs_hinv s h).1

theorem lexAll_hinv : ∀ (fuel : Nat) (s : Lx) (ts : List Token) (sf : Lx), HInv s → lexAll fuel s = some (ts, sf) → HInv sf
  | 0, _, _, _, _, h => by simp [lexAll] at h
  | fuel + 1, s, ts, sf, hi, h => by
    unfold lexAll at h
    have hn := nextStep_hinv s hi
    split at h
    · rename_i s1 heq
      rw [heq] at hn
      exact lexAll_hinv fuel s1 ts sf hn h
    · rename_i t s1 heq
      rw [heq] at hn
      split at h
      · cases h; exact hn
      · cases hl : lexAll fuel s1 with
        | none => rw [hl] at h; cases h
        | some r =>
          obtain ⟨ts', sf'⟩ := r
          rw [hl] at h
          cases h
          exact lexAll_hinv fuel s1 ts' sf hn hl

/-- **the lexer never panics** -/
theorem tokenize_no_panic (inp : Bytes) (r : LexResult) (h : tokenize inp = some r) : r.panicked = false := by
  unfold tokenize at h
  cases hl : lexAll (lexFuel inp) (Lx.init inp) with
  | none => rw [hl] at h; cases h
  | some p =>
    obtain ⟨ts, sf⟩ := p
    rw [hl] at h
    cases h
    exact (lexAll_hinv _ _ _ _ ⟨rfl, fun _ _ => by simp [Lx.prev, Lx.init]⟩ hl).1

end Tw
