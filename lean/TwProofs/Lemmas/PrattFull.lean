/-
  TwProofs.Lemmas.PrattFull — the Pratt round trip for the whole expression language of the
  model: literals, identifiers, prefix `-` `!`, binary operators, the ternary, postfix `++` `--`,
  index, property access, calls with argument lists, array literals and parentheses (C01).

  The printer places parentheses by the two quantities the grammar really depends on:
  `lastLevel` (the level of the loop that is still open at the right end of an expression: an
  operator that follows binds into the expression when its precedence is higher) and `spine`
  (the lowest operator on the left spine: the loop of the surrounding position has to consume
  every one of them).  So `a.b[0]`, `-a.b`, `-a++`, `a[0].b.c(1)[2]++` are printed without
  parentheses and `(-a)[0]`, `(a + b).c`, `-(a.b)` with them.
-/
import TwProofs.Lemmas.PrattRoundTrip

namespace Tw

/-! ### one-step lemmas for the constructs beyond the first fragment -/

/-- the tree of a one-token expression -/
def atomExpr (t : Token) : Option Expr :=
  match t.ty with
  | .IDENT => some (.ident t t.lit)
  | .INT => (parseInt64 t.lit).map (Expr.int t)
  | .FLOAT => (parseFloat64 t.lit).map (Expr.float t)
  | .STR => some (.str t t.lit)
  | .NIL => some (.nil t)
  | .TRUE => some (.bool t true)
  | .FALSE => some (.bool t false)
  | _ => none

theorem parses_atom {prec : Nat} {t : Token} {k : List Token} {a ex : Expr} {ts' : List Token} (ht : atomExpr t = some a)
    (h : RLoops prec a (t :: k) ex ts') : RParses prec (t :: k) ex ts' := by
  obtain ⟨N, hN⟩ := h
  refine ⟨N + 1, fun f hf p => ?_⟩
  obtain ⟨g, rfl⟩ : ∃ g, f = g + 1 := ⟨f - 1, by omega⟩
  rw [parseExpression_succ]
  have : prefixBody (parseExpression g) (parseExprList g) (parseObjLoop g) (p.withToks (t :: k)) =
      some (a, p.withToks (t :: k)) := by
    unfold prefixBody
    unfold atomExpr at ht
    simp only [withToks_cur]
    cases hty : t.ty <;> rw [hty] at ht <;> simp only [] at ht ⊢ <;> first | (cases ht; done) | (cases ht; rfl) | skip
    · cases hv : parseInt64 t.lit with
      | none => rw [hv] at ht; cases ht
      | some v => rw [hv] at ht; cases ht; rfl
    · cases hv : parseFloat64 t.lit with
      | none => rw [hv] at ht; cases ht
      | some v => rw [hv] at ht; cases ht; rfl
  rw [this]
  exact hN g (by omega) p


def RList (endTok : TT) (ts : List Token) (es : List Expr) (ts' : List Token) : Prop :=
  ∃ N, ∀ f, N ≤ f → ∀ p : PS, parseExprList f endTok (p.withToks ts) = (es, p.withToks ts')

def RListLoop (endTok : TT) (acc : List Expr) (ts : List Token) (es : List Expr) (ts' : List Token) : Prop :=
  ∃ N, ∀ f, N ≤ f → ∀ p : PS, exprListLoop f endTok acc (p.withToks ts) = (es, p.withToks ts')

theorem parseExprList_succ (f : Nat) (endTok : TT) (p : PS) :
    parseExprList (f + 1) endTok p =
      if p.peekIs endTok then ([], p.next)
      else exprListLoop f endTok [(parseExpression f LOWEST p.next).1] (parseExpression f LOWEST p.next).2 := rfl

theorem exprListLoop_succ (f : Nat) (endTok : TT) (acc : List Expr) (p : PS) :
    exprListLoop (f + 1) endTok acc p =
      if p.peekIs .COMMA then
        if p.next.peekIs endTok then
          if (p.next.expectPeek endTok).1 then (acc, (p.next.expectPeek endTok).2) else ([], (p.next.expectPeek endTok).2)
        else exprListLoop f endTok (acc ++ [(parseExpression f LOWEST p.next.next).1]) (parseExpression f LOWEST p.next.next).2
      else if (p.expectPeek endTok).1 then (acc, (p.expectPeek endTok).2) else ([], (p.expectPeek endTok).2) := rfl

theorem loops_post {prec : Nat} {l : Expr} {x op : Token} {k : List Token} {ex : Expr} {ts'' : List Token}
    (hop : op.ty = .INC ∨ op.ty = .DEC) (hlt : prec < POSTFIX) (hk : NoIll k)
    (h : RLoops prec (.post op op.lit l) (op :: k) ex ts'') : RLoops prec l (x :: op :: k) ex ts'' := by
  obtain ⟨N, hN⟩ := h
  refine ⟨N + 1, fun f hf p => ?_⟩
  obtain ⟨g, rfl⟩ : ∃ g, f = g + 1 := ⟨f - 1, by omega⟩
  rw [prattLoop_succ]
  have hprec : precedence op.ty = POSTFIX := by rcases hop with h | h <;> rw [h] <;> rfl
  have hstop : ((p.withToks (x :: op :: k)).peekIs .RBRACES || (p.withToks (x :: op :: k)).peekIs .SEMI ||
      (p.withToks (x :: op :: k)).peekIs .RPAREN || !(decide (prec < (p.withToks (x :: op :: k)).peekPrecedence))) = false := by
    simp only [PS.peekIs, withToks_peek, PS.peekPrecedence, hprec]
    rcases hop with h | h <;> simp [h, hlt]
  rw [if_neg (by rw [hstop]; simp)]
  have hinf : hasInfix op.ty = true := by rcases hop with h | h <;> rw [h] <;> rfl
  rw [if_neg (by simp [withToks_peek, hinf])]
  rw [withToks_next p x op k hk]
  have hinfix : infixBody (parseExpression g) (parseExprList g) l (p.withToks (op :: k)) =
      (.post op op.lit l, p.withToks (op :: k)) := by
    unfold infixBody
    rcases hop with h | h <;> simp [withToks_cur, h, isBinaryOp]
  rw [hinfix]
  exact hN g (by omega) p

theorem loops_index {prec : Nat} {l i : Expr} {y lb x rb : Token} {restI k : List Token} {ex : Expr} {ts'' : List Token}
    (hlb : lb.ty = .LBRACKET) (hrb : rb.ty = .RBRACKET) (hlt : prec < INDEX)
    (hI : NoIll restI) (hne : restI ≠ []) (hk : NoIll k)
    (hi : RParses LOWEST restI i (x :: rb :: k)) (h : RLoops prec (.index lb l i) (rb :: k) ex ts'') :
    RLoops prec l (y :: lb :: restI) ex ts'' := by
  obtain ⟨N1, h1⟩ := hi
  obtain ⟨N2, h2⟩ := h
  refine ⟨max N1 N2 + 1, fun f hf p => ?_⟩
  obtain ⟨g, rfl⟩ : ∃ g, f = g + 1 := ⟨f - 1, by omega⟩
  rw [prattLoop_succ]
  obtain ⟨r0, rr, hr0⟩ : ∃ r0 rr, restI = r0 :: rr := by
    cases restI with
    | nil => exact absurd rfl hne
    | cons a c => exact ⟨a, c, rfl⟩
  subst hr0
  have hstop : ((p.withToks (y :: lb :: r0 :: rr)).peekIs .RBRACES || (p.withToks (y :: lb :: r0 :: rr)).peekIs .SEMI ||
      (p.withToks (y :: lb :: r0 :: rr)).peekIs .RPAREN || !(decide (prec < (p.withToks (y :: lb :: r0 :: rr)).peekPrecedence))) = false := by
    simp only [PS.peekIs, withToks_peek, PS.peekPrecedence, hlb]
    have : prec < precedence TT.LBRACKET := hlt
    simp [this]
  rw [if_neg (by rw [hstop]; simp)]
  rw [if_neg (by simp [withToks_peek, hlb, hasInfix])]
  rw [withToks_next p y lb _ hI]
  have hnext2 : (p.withToks (lb :: r0 :: rr)).next = p.withToks (r0 :: rr) := withToks_next p lb r0 _ hI.tail
  have hexp := withToks_expectPeek p x rb k hk
  rw [hrb] at hexp
  have hinfix : infixBody (parseExpression g) (parseExprList g) l (p.withToks (lb :: r0 :: rr)) =
      (.index lb l i, p.withToks (rb :: k)) := by
    unfold infixBody
    have hnb : isBinaryOp TT.LBRACKET = false := rfl
    have hnq : (TT.LBRACKET == TT.QUESTION) = false := rfl
    simp only [withToks_cur, hlb, hnb, hnq, Bool.false_eq_true, if_false, beq_self_eq_true, if_true, hnext2,
      h1 g (by omega) p, hexp]
  rw [hinfix]
  exact h2 g (by omega) p

theorem loops_dot {prec : Nat} {l : Expr} {y d name : Token} {k : List Token} {ex : Expr} {ts'' : List Token}
    (hd : d.ty = .DOT) (hname : name.ty = .IDENT) (hlt : prec < MEMBER_ACCESS) (hk : NoIll k)
    (hnolp : ∀ t, k.head? = some t → t.ty ≠ .LPAREN)
    (h : RLoops prec (.dot d l name.lit) (name :: k) ex ts'') : RLoops prec l (y :: d :: name :: k) ex ts'' := by
  obtain ⟨N, hN⟩ := h
  refine ⟨N + 1, fun f hf p => ?_⟩
  obtain ⟨g, rfl⟩ : ∃ g, f = g + 1 := ⟨f - 1, by omega⟩
  rw [prattLoop_succ]
  have hnameI : NoIll (name :: k) := fun t ht => by
    rcases List.mem_cons.mp ht with h | h
    · rw [h, hname]; decide
    · exact hk t h
  have hstop : ((p.withToks (y :: d :: name :: k)).peekIs .RBRACES || (p.withToks (y :: d :: name :: k)).peekIs .SEMI ||
      (p.withToks (y :: d :: name :: k)).peekIs .RPAREN || !(decide (prec < (p.withToks (y :: d :: name :: k)).peekPrecedence))) = false := by
    simp only [PS.peekIs, withToks_peek, PS.peekPrecedence, hd]
    have : prec < precedence TT.DOT := hlt
    simp [this]
  rw [if_neg (by rw [hstop]; simp)]
  rw [if_neg (by simp [withToks_peek, hd, hasInfix])]
  rw [withToks_next p y d _ hnameI]
  have hexp := withToks_expectPeek p d name k hk
  rw [hname] at hexp
  have hpk : (p.withToks (name :: k)).peekIs .LPAREN = false := by
    cases k with
    | nil => simp [PS.peekIs, PS.peek, PS.withToks, hname]
    | cons t r =>
      have := hnolp t rfl
      simp [PS.peekIs, withToks_peek, this]
  have hinfix : infixBody (parseExpression g) (parseExprList g) l (p.withToks (d :: name :: k)) =
      (.dot d l name.lit, p.withToks (name :: k)) := by
    unfold infixBody
    have hnb : isBinaryOp TT.DOT = false := rfl
    have h1 : (TT.DOT == TT.QUESTION) = false := rfl
    have h2 : (TT.DOT == TT.LBRACKET) = false := rfl
    have h3 : (TT.DOT == TT.INC) = false := rfl
    have h4 : (TT.DOT == TT.DEC) = false := rfl
    simp only [withToks_cur, hd, hnb, h1, h2, h3, h4, Bool.false_eq_true, if_false, Bool.or_self, hexp, Bool.not_true, hpk]
  rw [hinfix]
  exact hN g (by omega) p

theorem loops_call {prec : Nat} {l : Expr} {y d name lpt : Token} {restArgs : List Token} {args : List Expr} {ts' : List Token}
    {ex : Expr} {ts'' : List Token}
    (hd : d.ty = .DOT) (hname : name.ty = .IDENT) (hlpt : lpt.ty = .LPAREN) (hlt : prec < MEMBER_ACCESS) (hR : NoIll restArgs)
    (hargs : RList .RPAREN (lpt :: restArgs) args ts')
    (h : RLoops prec (.call name l name.lit args) ts' ex ts'') : RLoops prec l (y :: d :: name :: lpt :: restArgs) ex ts'' := by
  obtain ⟨N1, h1⟩ := hargs
  obtain ⟨N2, h2⟩ := h
  refine ⟨max N1 N2 + 1, fun f hf p => ?_⟩
  obtain ⟨g, rfl⟩ : ∃ g, f = g + 1 := ⟨f - 1, by omega⟩
  rw [prattLoop_succ]
  have hlpI : NoIll (lpt :: restArgs) := fun t ht => by
    rcases List.mem_cons.mp ht with h | h
    · rw [h, hlpt]; decide
    · exact hR t h
  have hnameI : NoIll (name :: lpt :: restArgs) := fun t ht => by
    rcases List.mem_cons.mp ht with h | h
    · rw [h, hname]; decide
    · exact hlpI t h
  have hstop : ((p.withToks (y :: d :: name :: lpt :: restArgs)).peekIs .RBRACES || (p.withToks (y :: d :: name :: lpt :: restArgs)).peekIs .SEMI ||
      (p.withToks (y :: d :: name :: lpt :: restArgs)).peekIs .RPAREN ||
      !(decide (prec < (p.withToks (y :: d :: name :: lpt :: restArgs)).peekPrecedence))) = false := by
    simp only [PS.peekIs, withToks_peek, PS.peekPrecedence, hd]
    have : prec < precedence TT.DOT := hlt
    simp [this]
  rw [if_neg (by rw [hstop]; simp)]
  rw [if_neg (by simp [withToks_peek, hd, hasInfix])]
  rw [withToks_next p y d _ hnameI]
  have hexp := withToks_expectPeek p d name (lpt :: restArgs) hlpI
  rw [hname] at hexp
  have hexp2 := withToks_expectPeek p name lpt restArgs hR
  rw [hlpt] at hexp2
  have hpk : (p.withToks (name :: lpt :: restArgs)).peekIs .LPAREN = true := by simp [PS.peekIs, withToks_peek, hlpt]
  have hinfix : infixBody (parseExpression g) (parseExprList g) l (p.withToks (d :: name :: lpt :: restArgs)) =
      (.call name l name.lit args, p.withToks ts') := by
    unfold infixBody
    have hnb : isBinaryOp TT.DOT = false := rfl
    have e1 : (TT.DOT == TT.QUESTION) = false := rfl
    have e2 : (TT.DOT == TT.LBRACKET) = false := rfl
    have e3 : (TT.DOT == TT.INC) = false := rfl
    have e4 : (TT.DOT == TT.DEC) = false := rfl
    simp only [withToks_cur, hd, hnb, e1, e2, e3, e4, Bool.false_eq_true, if_false, Bool.or_self, hexp, Bool.not_true, hpk,
      if_true, hexp2, h1 g (by omega) p]
  rw [hinfix]
  exact h2 g (by omega) p

theorem parses_arr {prec : Nat} {lb : Token} {rest : List Token} {els : List Expr} {ts' : List Token} {ex : Expr} {ts'' : List Token}
    (hlb : lb.ty = .LBRACKET) (hl : RList .RBRACKET (lb :: rest) els ts') (h : RLoops prec (.arr lb els) ts' ex ts'') :
    RParses prec (lb :: rest) ex ts'' := by
  obtain ⟨N1, h1⟩ := hl
  obtain ⟨N2, h2⟩ := h
  refine ⟨max N1 N2 + 1, fun f hf p => ?_⟩
  obtain ⟨g, rfl⟩ : ∃ g, f = g + 1 := ⟨f - 1, by omega⟩
  rw [parseExpression_succ]
  have : prefixBody (parseExpression g) (parseExprList g) (parseObjLoop g) (p.withToks (lb :: rest)) =
      some (.arr lb els, p.withToks ts') := by
    unfold prefixBody
    simp only [withToks_cur, hlb, h1 g (by omega) p]
  rw [this]
  exact h2 g (by omega) p

/-! argument lists -/

theorem list_empty {op endT : Token} {k : List Token} (hk : NoIll k) :
    RList endT.ty (op :: endT :: k) [] (endT :: k) := by
  refine ⟨1, fun f hf p => ?_⟩
  obtain ⟨g, rfl⟩ : ∃ g, f = g + 1 := ⟨f - 1, by omega⟩
  rw [parseExprList_succ]
  have : (p.withToks (op :: endT :: k)).peekIs endT.ty = true := by simp [PS.peekIs, withToks_peek]
  rw [if_pos this, withToks_next p op endT k hk]

theorem list_first {endTok : TT} {op : Token} {rest : List Token} {e : Expr} {ts1 : List Token} {es : List Expr} {ts' : List Token}
    (hrest : NoIll rest.tail) (hne : rest ≠ []) (hhead : ∀ t, rest.head? = some t → t.ty ≠ endTok)
    (he : RParses LOWEST rest e ts1) (hl : RListLoop endTok [e] ts1 es ts') : RList endTok (op :: rest) es ts' := by
  obtain ⟨N1, h1⟩ := he
  obtain ⟨N2, h2⟩ := hl
  refine ⟨max N1 N2 + 1, fun f hf p => ?_⟩
  obtain ⟨g, rfl⟩ : ∃ g, f = g + 1 := ⟨f - 1, by omega⟩
  rw [parseExprList_succ]
  obtain ⟨r0, rr, hr0⟩ : ∃ r0 rr, rest = r0 :: rr := by
    cases rest with
    | nil => exact absurd rfl hne
    | cons a c => exact ⟨a, c, rfl⟩
  subst hr0
  have : (p.withToks (op :: r0 :: rr)).peekIs endTok = false := by
    have := hhead r0 rfl
    simp [PS.peekIs, withToks_peek, this]
  rw [if_neg (by rw [this]; simp), withToks_next p op r0 rr hrest, h1 g (by omega) p]
  exact h2 g (by omega) p

theorem listloop_end {endT x : Token} {acc : List Expr} {k : List Token} (hk : NoIll k) (hnc : endT.ty ≠ .COMMA) :
    RListLoop endT.ty acc (x :: endT :: k) acc (endT :: k) := by
  refine ⟨1, fun f hf p => ?_⟩
  obtain ⟨g, rfl⟩ : ∃ g, f = g + 1 := ⟨f - 1, by omega⟩
  rw [exprListLoop_succ]
  have : (p.withToks (x :: endT :: k)).peekIs .COMMA = false := by simp [PS.peekIs, withToks_peek, hnc]
  rw [if_neg (by rw [this]; simp), withToks_expectPeek p x endT k hk]
  simp

theorem listloop_more {endTok : TT} {x cm : Token} {acc : List Expr} {rest : List Token} {e : Expr} {ts1 : List Token}
    {es : List Expr} {ts' : List Token}
    (hcm : cm.ty = .COMMA) (hrest : NoIll rest) (hne : rest ≠ []) (hhead : ∀ t, rest.head? = some t → t.ty ≠ endTok)
    (he : RParses LOWEST rest e ts1) (hl : RListLoop endTok (acc ++ [e]) ts1 es ts') :
    RListLoop endTok acc (x :: cm :: rest) es ts' := by
  obtain ⟨N1, h1⟩ := he
  obtain ⟨N2, h2⟩ := hl
  refine ⟨max N1 N2 + 1, fun f hf p => ?_⟩
  obtain ⟨g, rfl⟩ : ∃ g, f = g + 1 := ⟨f - 1, by omega⟩
  rw [exprListLoop_succ]
  obtain ⟨r0, rr, hr0⟩ : ∃ r0 rr, rest = r0 :: rr := by
    cases rest with
    | nil => exact absurd rfl hne
    | cons a c => exact ⟨a, c, rfl⟩
  subst hr0
  have hc : (p.withToks (x :: cm :: r0 :: rr)).peekIs .COMMA = true := by simp [PS.peekIs, withToks_peek, hcm]
  rw [if_pos hc, withToks_next p x cm _ hrest]
  have : (p.withToks (cm :: r0 :: rr)).peekIs endTok = false := by
    have := hhead r0 rfl
    simp [PS.peekIs, withToks_peek, this]
  rw [if_neg (by rw [this]; simp), withToks_next p cm r0 rr hrest.tail, h1 g (by omega) p]
  exact h2 g (by omega) p


/-! object literals -/

def RObj (t : Token) (pairs : List (Bytes × Expr)) (ts : List Token) (ex : Expr) (ts' : List Token) : Prop :=
  ∃ N, ∀ f, N ≤ f → ∀ p : PS, parseObjLoop f t pairs (p.withToks ts) = (ex, p.withToks ts')

theorem parseObjLoop_succ (f : Nat) (t : Token) (pairs : List (Bytes × Expr)) (p : PS) :
    parseObjLoop (f + 1) t pairs p =
      if p.curIs .RBRACE then (.obj t pairs, p)
      else if p.curIs .EOF || p.curIs .ILLEGAL then
        (.bad, p.err p.cur.errorLine "ErrWrongNextToken" [b (tokenString .RBRACE), b (tokenString p.cur.ty)])
      else
        if (parseExpression f LOWEST (if p.peekIs .COLON then p.next.next else p)).2.peekIs .RBRACE then
          (.obj t (mapSet pairs p.cur.lit (parseExpression f LOWEST (if p.peekIs .COLON then p.next.next else p)).1),
            (parseExpression f LOWEST (if p.peekIs .COLON then p.next.next else p)).2.next)
        else if !((parseExpression f LOWEST (if p.peekIs .COLON then p.next.next else p)).2.expectPeek .COMMA).1 then
          (.bad, ((parseExpression f LOWEST (if p.peekIs .COLON then p.next.next else p)).2.expectPeek .COMMA).2)
        else parseObjLoop f t (mapSet pairs p.cur.lit (parseExpression f LOWEST (if p.peekIs .COLON then p.next.next else p)).1)
          ((parseExpression f LOWEST (if p.peekIs .COLON then p.next.next else p)).2.expectPeek .COMMA).2.next := rfl

theorem objloop_head {key colon : Token} {restV : List Token} (p : PS) (hkey : key.ty = .IDENT ∨ key.ty = .STR) (hcolon : colon.ty = .COLON)
    (hV : NoIll restV) (hne : restV ≠ []) :
    (p.withToks (key :: colon :: restV)).curIs .RBRACE = false ∧
    ((p.withToks (key :: colon :: restV)).curIs .EOF || (p.withToks (key :: colon :: restV)).curIs .ILLEGAL) = false ∧
    (if (p.withToks (key :: colon :: restV)).peekIs .COLON then (p.withToks (key :: colon :: restV)).next.next
      else p.withToks (key :: colon :: restV)) = p.withToks restV := by
  obtain ⟨r0, rr, hr0⟩ : ∃ r0 rr, restV = r0 :: rr := by
    cases restV with
    | nil => exact absurd rfl hne
    | cons a c => exact ⟨a, c, rfl⟩
  subst hr0
  refine ⟨?_, ?_, ?_⟩
  · rcases hkey with h | h <;> simp [PS.curIs, h]
  · rcases hkey with h | h <;> simp [PS.curIs, h]
  · have : (p.withToks (key :: colon :: r0 :: rr)).peekIs .COLON = true := by simp [PS.peekIs, withToks_peek, hcolon]
    rw [if_pos this, withToks_next p key colon _ hV, withToks_next p colon r0 _ hV.tail]

theorem objloop_last {t key colon x rbrT : Token} {restV k : List Token} {pairs : List (Bytes × Expr)} {v : Expr}
    (hkey : key.ty = .IDENT ∨ key.ty = .STR) (hcolon : colon.ty = .COLON) (hrbr : rbrT.ty = .RBRACE)
    (hV : NoIll restV) (hne : restV ≠ []) (hk : NoIll k)
    (hv : RParses LOWEST restV v (x :: rbrT :: k)) :
    RObj t pairs (key :: colon :: restV) (.obj t (mapSet pairs key.lit v)) (rbrT :: k) := by
  obtain ⟨N1, h1⟩ := hv
  refine ⟨N1 + 1, fun f hf p => ?_⟩
  obtain ⟨g, rfl⟩ : ∃ g, f = g + 1 := ⟨f - 1, by omega⟩
  rw [parseObjLoop_succ]
  obtain ⟨ha, hb, hc⟩ := objloop_head p hkey hcolon hV hne
  rw [if_neg (by rw [ha]; simp), if_neg (by rw [hb]; simp), hc, h1 g (by omega) p]
  have : (p.withToks (x :: rbrT :: k)).peekIs .RBRACE = true := by simp [PS.peekIs, withToks_peek, hrbr]
  rw [if_pos this, withToks_next p x rbrT k hk]
  rfl

theorem objloop_more {t key colon x cmT : Token} {restV rest2 : List Token} {pairs : List (Bytes × Expr)} {v ex : Expr} {ts' : List Token}
    (hkey : key.ty = .IDENT ∨ key.ty = .STR) (hcolon : colon.ty = .COLON) (hcm : cmT.ty = .COMMA)
    (hV : NoIll restV) (hne : restV ≠ []) (h2 : NoIll rest2) (hne2 : rest2 ≠ [])
    (hv : RParses LOWEST restV v (x :: cmT :: rest2))
    (hrest : RObj t (mapSet pairs key.lit v) rest2 ex ts') :
    RObj t pairs (key :: colon :: restV) ex ts' := by
  obtain ⟨N1, h1⟩ := hv
  obtain ⟨N2, hN2⟩ := hrest
  refine ⟨max N1 N2 + 1, fun f hf p => ?_⟩
  obtain ⟨g, rfl⟩ : ∃ g, f = g + 1 := ⟨f - 1, by omega⟩
  rw [parseObjLoop_succ]
  obtain ⟨ha, hb, hc⟩ := objloop_head p hkey hcolon hV hne
  rw [if_neg (by rw [ha]; simp), if_neg (by rw [hb]; simp), hc, h1 g (by omega) p]
  obtain ⟨k0, kr, hk0⟩ : ∃ r0 rr, rest2 = r0 :: rr := by
    cases rest2 with
    | nil => exact absurd rfl hne2
    | cons a c => exact ⟨a, c, rfl⟩
  subst hk0
  have : (p.withToks (x :: cmT :: k0 :: kr)).peekIs .RBRACE = false := by simp [PS.peekIs, withToks_peek, hcm]
  rw [if_neg (by rw [this]; simp)]
  have hexp := withToks_expectPeek p x cmT (k0 :: kr) h2
  rw [hcm] at hexp
  rw [hexp]
  simp only [Bool.not_true, Bool.false_eq_true, if_false]
  rw [withToks_next p cmT k0 kr h2.tail]
  exact hN2 g (by omega) p

theorem parses_obj_empty {prec : Nat} {lbr rbrT : Token} {k : List Token} {ex : Expr} {ts'' : List Token}
    (hlbr : lbr.ty = .LBRACE) (hrbr : rbrT.ty = .RBRACE) (hk : NoIll k)
    (h : RLoops prec (.obj lbr []) (rbrT :: k) ex ts'') : RParses prec (lbr :: rbrT :: k) ex ts'' := by
  obtain ⟨N, hN⟩ := h
  refine ⟨N + 1, fun f hf p => ?_⟩
  obtain ⟨g, rfl⟩ : ∃ g, f = g + 1 := ⟨f - 1, by omega⟩
  rw [parseExpression_succ]
  have : prefixBody (parseExpression g) (parseExprList g) (parseObjLoop g) (p.withToks (lbr :: rbrT :: k)) =
      some (.obj lbr [], p.withToks (rbrT :: k)) := by
    unfold prefixBody
    simp only [withToks_cur, hlbr, withToks_next p lbr rbrT k hk, PS.curIs, hrbr, beq_self_eq_true, if_true]
  rw [this]
  exact hN g (by omega) p

theorem parses_obj {prec : Nat} {lbr key : Token} {rest : List Token} {ex1 : Expr} {ts' : List Token} {ex : Expr} {ts'' : List Token}
    (hlbr : lbr.ty = .LBRACE) (hkey : key.ty ≠ .RBRACE) (hrest : NoIll rest)
    (ho : RObj lbr [] (key :: rest) ex1 ts') (h : RLoops prec ex1 ts' ex ts'') : RParses prec (lbr :: key :: rest) ex ts'' := by
  obtain ⟨N1, h1⟩ := ho
  obtain ⟨N2, h2⟩ := h
  refine ⟨max N1 N2 + 1, fun f hf p => ?_⟩
  obtain ⟨g, rfl⟩ : ∃ g, f = g + 1 := ⟨f - 1, by omega⟩
  rw [parseExpression_succ]
  have : prefixBody (parseExpression g) (parseExprList g) (parseObjLoop g) (p.withToks (lbr :: key :: rest)) =
      some (ex1, p.withToks ts') := by
    unfold prefixBody
    have hk : ((p.withToks (key :: rest)).curIs .RBRACE) = false := by simp [PS.curIs, hkey]
    simp only [withToks_cur, hlbr, withToks_next p lbr key rest hrest, hk, Bool.false_eq_true, if_false, h1 g (by omega) p]
  rw [this]
  exact h2 g (by omega) p

/-! ### the expression language and its printer -/

mutual
inductive FE where
  | atom (t : Token)
  | pre (op : Token) (r : FE)
  | bin (op : Token) (l r : FE)
  | tern (q c : Token) (cnd a b : FE)
  | post (op : Token) (l : FE)
  | index (lb : Token) (l i : FE)
  | dot (d name : Token) (l : FE)
  | call (d name : Token) (l : FE) (args : FEs)
  | arr (lb : Token) (els : FEs)
  | obj (lbr : Token) (ps : FPs)
inductive FEs where
  | nil
  | cons (e : FE) (rest : FEs)
inductive FPs where
  | nil
  | cons (key colon : Token) (v : FE) (rest : FPs)
end

mutual
def FE.ok : FE → Prop
  | .atom t => (atomExpr t).isSome = true
  | .pre op r => (op.ty = .SUB ∨ op.ty = .NOT) ∧ r.ok
  | .bin op l r => isBinaryOp op.ty = true ∧ l.ok ∧ r.ok
  | .tern q c cnd a b => q.ty = .QUESTION ∧ c.ty = .COLON ∧ cnd.ok ∧ a.ok ∧ b.ok
  | .post op l => (op.ty = .INC ∨ op.ty = .DEC) ∧ l.ok
  | .index lb l i => lb.ty = .LBRACKET ∧ l.ok ∧ i.ok
  | .dot d name l => d.ty = .DOT ∧ name.ty = .IDENT ∧ l.ok
  | .call d name l args => d.ty = .DOT ∧ name.ty = .IDENT ∧ l.ok ∧ args.ok
  | .arr lb els => lb.ty = .LBRACKET ∧ els.ok
  | .obj lbr ps => lbr.ty = .LBRACE ∧ ps.ok
def FEs.ok : FEs → Prop
  | .nil => True
  | .cons e r => e.ok ∧ r.ok
def FPs.ok : FPs → Prop
  | .nil => True
  | .cons key colon v r => (key.ty = .IDENT ∨ key.ty = .STR) ∧ colon.ty = .COLON ∧ v.ok ∧ r.ok
end

mutual
/-- the tree the parser is expected to build -/
def FE.toExpr : FE → Expr
  | .atom t => (atomExpr t).getD .bad
  | .pre op r => .pre op op.lit r.toExpr
  | .bin op l r => .inf op op.lit l.toExpr r.toExpr
  | .tern q _ cnd a b => .tern q cnd.toExpr a.toExpr b.toExpr
  | .post op l => .post op op.lit l.toExpr
  | .index lb l i => .index lb l.toExpr i.toExpr
  | .dot d name l => .dot d l.toExpr name.lit
  | .call _ name l args => .call name l.toExpr name.lit args.toExprs
  | .arr lb els => .arr lb els.toExprs
  | .obj lbr ps => .obj lbr (ps.toPairs [])
def FEs.toExprs : FEs → List Expr
  | .nil => []
  | .cons e r => e.toExpr :: r.toExprs
/-- the pairs in the order the parser's table holds them (a repeated key keeps its first place and takes the last value) -/
def FPs.toPairs : FPs → List (Bytes × Expr) → List (Bytes × Expr)
  | .nil, acc => acc
  | .cons key _ v r, acc => r.toPairs (mapSet acc key.lit v.toExpr)
end

/-- "no loop is open at the right end" -/
def CLOSED : Nat := 100

/-- the level of the loop that is still running at the right end of the bare form -/
def FE.lastLevel : FE → Nat
  | .pre _ _ => PREFIX
  | .bin op _ _ => opPrec op
  | .tern _ _ _ _ _ => LOWEST
  | .atom _ => CLOSED
  | .post _ _ => CLOSED
  | .index _ _ _ => CLOSED
  | .dot _ _ _ => CLOSED
  | .call _ _ _ _ => CLOSED
  | .arr _ _ => CLOSED
  | .obj _ _ => CLOSED

namespace Full
section printer
variable (lp rp rbk rbr cm : Token) (extra : FE → Bool)

/-- may `l` stand bare as the left operand of an operator of precedence `pn` -/
def bareL (pn : Nat) (l : FE) : Bool := decide (pn ≤ l.lastLevel) && !extra l

/-- the lowest operator on the left spine of the bare form (`CLOSED` when the form starts with a
    prefix construct): a loop at level `m` consumes the whole form iff `m < spine` -/
def spine : FE → Nat
  | .bin op l _ => min (opPrec op) (if bareL extra (opPrec op) l then spine l else CLOSED)
  | .tern _ _ cnd _ _ => min TERNARY (if bareL extra TERNARY cnd then spine cnd else CLOSED)
  | .post _ l => min POSTFIX (if bareL extra POSTFIX l then spine l else CLOSED)
  | .index _ l _ => min INDEX (if bareL extra INDEX l then spine l else CLOSED)
  | .dot _ _ l => min MEMBER_ACCESS (if bareL extra MEMBER_ACCESS l then spine l else CLOSED)
  | .call _ _ l _ => min MEMBER_ACCESS (if bareL extra MEMBER_ACCESS l then spine l else CLOSED)
  | .atom _ => CLOSED
  | .pre _ _ => CLOSED
  | .arr _ _ => CLOSED
  | .obj _ _ => CLOSED

/-- may `e` stand bare where `parseExpression(m - 1)` is called -/
def bareAt (m : Nat) (e : FE) : Bool := decide (m ≤ spine extra e) && !extra e

def wrap (bare : Bool) (ts : List Token) : List Token := if bare then ts else lp :: (ts ++ [rp])

mutual
/-- the bare form (no outer parentheses) -/
def body : FE → List Token
  | .atom t => [t]
  | .pre op r => op :: wrap lp rp (bareAt extra (PREFIX + 1) r) (body r)
  | .bin op l r => wrap lp rp (bareL extra (opPrec op) l) (body l) ++ op :: wrap lp rp (bareAt extra (opPrec op + 1) r) (body r)
  | .tern q c cnd a b =>
    wrap lp rp (bareL extra TERNARY cnd) (body cnd) ++ q :: (wrap lp rp (bareAt extra (TERNARY + 1) a) (body a) ++
      c :: wrap lp rp (bareAt extra (LOWEST + 1) b) (body b))
  | .post op l => wrap lp rp (bareL extra POSTFIX l) (body l) ++ [op]
  | .index lb l i => wrap lp rp (bareL extra INDEX l) (body l) ++ lb :: (wrap lp rp (bareAt extra (LOWEST + 1) i) (body i) ++ [rbk])
  | .dot d name l => wrap lp rp (bareL extra MEMBER_ACCESS l) (body l) ++ [d, name]
  | .call d name l args => wrap lp rp (bareL extra MEMBER_ACCESS l) (body l) ++ d :: name :: lp :: (bodyList true args ++ [rp])
  | .arr lb els => lb :: (bodyList true els ++ [rbk])
  | .obj lbr ps => lbr :: (bodyPairs true ps ++ [rbr])
/-- the elements, separated by commas -/
def bodyList : Bool → FEs → List Token
  | _, .nil => []
  | first, .cons e r => (if first then [] else [cm]) ++ wrap lp rp (bareAt extra (LOWEST + 1) e) (body e) ++ bodyList false r
/-- `key : value` pairs, separated by commas -/
def bodyPairs : Bool → FPs → List Token
  | _, .nil => []
  | first, .cons key colon v r =>
    (if first then [] else [cm]) ++ key :: colon :: (wrap lp rp (bareAt extra (LOWEST + 1) v) (body v) ++ bodyPairs false r)
end

/-- the printed form where `parseExpression(m - 1)` is called -/
def showAt (m : Nat) (e : FE) : List Token := wrap lp rp (bareAt extra m e) (body lp rp rbk rbr cm extra e)
/-- the printed form of a left operand in front of an operator of precedence `pn` -/
def showL (pn : Nat) (e : FE) : List Token := wrap lp rp (bareL extra pn e) (body lp rp rbk rbr cm extra e)

end printer
end Full


namespace Full
section lemmas
variable (lp rp rbk rbr cm : Token) (extra : FE → Bool)

theorem body_atom (t : Token) : body lp rp rbk rbr cm extra (.atom t) = [t] := by rw [body]
theorem body_pre (op : Token) (r : FE) :
    body lp rp rbk rbr cm extra (.pre op r) = op :: showAt lp rp rbk rbr cm extra (PREFIX + 1) r := by rw [body]; rfl
theorem body_bin (op : Token) (l r : FE) :
    body lp rp rbk rbr cm extra (.bin op l r) =
      showL lp rp rbk rbr cm extra (opPrec op) l ++ op :: showAt lp rp rbk rbr cm extra (opPrec op + 1) r := by rw [body]; rfl
theorem body_tern (q c : Token) (cnd a b : FE) :
    body lp rp rbk rbr cm extra (.tern q c cnd a b) =
      showL lp rp rbk rbr cm extra TERNARY cnd ++ q :: (showAt lp rp rbk rbr cm extra (TERNARY + 1) a ++
        c :: showAt lp rp rbk rbr cm extra (LOWEST + 1) b) := by rw [body]; rfl
theorem body_post (op : Token) (l : FE) :
    body lp rp rbk rbr cm extra (.post op l) = showL lp rp rbk rbr cm extra POSTFIX l ++ [op] := by rw [body]; rfl
theorem body_index (lb : Token) (l i : FE) :
    body lp rp rbk rbr cm extra (.index lb l i) =
      showL lp rp rbk rbr cm extra INDEX l ++ lb :: (showAt lp rp rbk rbr cm extra (LOWEST + 1) i ++ [rbk]) := by rw [body]; rfl
theorem body_dot (d name : Token) (l : FE) :
    body lp rp rbk rbr cm extra (.dot d name l) = showL lp rp rbk rbr cm extra MEMBER_ACCESS l ++ [d, name] := by rw [body]; rfl
theorem body_call (d name : Token) (l : FE) (args : FEs) :
    body lp rp rbk rbr cm extra (.call d name l args) =
      showL lp rp rbk rbr cm extra MEMBER_ACCESS l ++ d :: name :: lp :: (bodyList lp rp rbk rbr cm extra true args ++ [rp]) := by
  rw [body]; rfl
theorem body_arr (lb : Token) (els : FEs) :
    body lp rp rbk rbr cm extra (.arr lb els) = lb :: (bodyList lp rp rbk rbr cm extra true els ++ [rbk]) := by rw [body]
theorem body_obj (lbr : Token) (ps : FPs) :
    body lp rp rbk rbr cm extra (.obj lbr ps) = lbr :: (bodyPairs lp rp rbk rbr cm extra true ps ++ [rbr]) := by rw [body]
theorem bodyPairs_nil (first : Bool) : bodyPairs lp rp rbk rbr cm extra first .nil = [] := by rw [bodyPairs]
theorem bodyPairs_cons (first : Bool) (key colon : Token) (v : FE) (r : FPs) :
    bodyPairs lp rp rbk rbr cm extra first (.cons key colon v r) =
      (if first then [] else [cm]) ++ key :: colon :: (showAt lp rp rbk rbr cm extra (LOWEST + 1) v ++ bodyPairs lp rp rbk rbr cm extra false r) := by
  rw [bodyPairs]; rfl
theorem bodyList_nil (first : Bool) : bodyList lp rp rbk rbr cm extra first .nil = [] := by rw [bodyList]
theorem bodyList_cons (first : Bool) (e : FE) (r : FEs) :
    bodyList lp rp rbk rbr cm extra first (.cons e r) =
      (if first then [] else [cm]) ++ showAt lp rp rbk rbr cm extra (LOWEST + 1) e ++ bodyList lp rp rbk rbr cm extra false r := by
  rw [bodyList]; rfl

theorem wrap_cases (bare : Bool) (ts : List Token) :
    (bare = true ∧ wrap lp rp bare ts = ts) ∨ (bare = false ∧ wrap lp rp bare ts = lp :: (ts ++ [rp])) := by
  cases bare <;> simp [wrap]

theorem body_ne_nil : ∀ (e : FE), body lp rp rbk rbr cm extra e ≠ []
  | .atom t => by rw [body_atom]; simp
  | .pre op r => by rw [body_pre]; simp
  | .bin op l r => by rw [body_bin]; simp
  | .tern q c cnd a b => by rw [body_tern]; simp
  | .post op l => by rw [body_post]; simp
  | .index lb l i => by rw [body_index]; simp
  | .dot d name l => by rw [body_dot]; simp
  | .call d name l args => by rw [body_call]; simp
  | .arr lb els => by rw [body_arr]; simp
  | .obj lbr ps => by rw [body_obj]; simp

theorem wrap_ne_nil (bare : Bool) (ts : List Token) (h : ts ≠ []) : wrap lp rp bare ts ≠ [] := by
  cases bare <;> simp [wrap, h]

theorem showAt_ne_nil (m : Nat) (e : FE) : showAt lp rp rbk rbr cm extra m e ≠ [] :=
  wrap_ne_nil lp rp _ _ (body_ne_nil lp rp rbk rbr cm extra e)
theorem showL_ne_nil (m : Nat) (e : FE) : showL lp rp rbk rbr cm extra m e ≠ [] :=
  wrap_ne_nil lp rp _ _ (body_ne_nil lp rp rbk rbr cm extra e)

end lemmas
end Full


/-! ### shape of the printed forms -/

def NoLP (k : List Token) : Prop := ∀ t, k.head? = some t → t.ty ≠ .LPAREN

/-- tokens that can start an expression -/
def StartTok (t : Token) : Prop :=
  (atomExpr t).isSome = true ∨ t.ty = .SUB ∨ t.ty = .NOT ∨ t.ty = .LPAREN ∨ t.ty = .LBRACKET ∨ t.ty = .LBRACE

theorem StartTok.not_closing {t : Token} (h : StartTok t) :
    t.ty ≠ .RBRACES ∧ t.ty ≠ .RPAREN ∧ t.ty ≠ .RBRACKET ∧ t.ty ≠ .COMMA ∧ t.ty ≠ .ILLEGAL := by
  rcases h with h | h | h | h | h | h
  · unfold atomExpr at h
    cases hty : t.ty <;> rw [hty] at h <;> simp at h <;> simp
  all_goals (rw [h]; simp)

theorem stopR_noLP {prec : Nat} {k : List Token} (h : StopR prec k) (hp : prec ≤ PREFIX) : NoLP k := by
  intro t ht
  cases k with
  | nil => cases ht
  | cons a r =>
    simp at ht
    subst ht
    intro hl
    rcases h with h | h | h | h
    · rw [hl] at h; cases h
    · rw [hl] at h; cases h
    · rw [hl] at h; cases h
    · rw [hl] at h
      have : precedence TT.LPAREN = CALL := rfl
      rw [this] at h
      unfold CALL at h; unfold PREFIX at hp; omega

theorem stopR_closed {k : List Token} (h : k ≠ []) : StopR CLOSED k := by
  cases k with
  | nil => exact absurd rfl h
  | cons t r =>
    refine Or.inr (Or.inr (Or.inr ?_))
    cases t.ty <;> decide

namespace Full
section shape
set_option linter.unusedSectionVars false
variable (lp rp rbk rbr cm : Token) (extra : FE → Bool)

theorem two_le_spine : ∀ (e : FE), e.ok → 2 ≤ spine extra e
  | .atom _, _ => by rw [spine]; decide
  | .pre _ _, _ => by rw [spine]; decide
  | .arr _ _, _ => by rw [spine]; decide
  | .obj _ _, _ => by rw [spine]; decide
  | .bin op l r, hok => by
    rw [spine]
    rw [FE.ok] at hok
    have := two_le_spine l hok.2.1
    have h3 := binop_prec_ge hok.1
    split <;> simp [CLOSED] <;> omega
  | .tern _ _ cnd _ _, hok => by
    rw [spine]
    rw [FE.ok] at hok
    have := two_le_spine cnd hok.2.2.1
    split <;> simp [TERNARY, CLOSED] <;> omega
  | .post _ l, hok => by
    rw [spine]
    rw [FE.ok] at hok
    have := two_le_spine l hok.2
    split <;> simp [POSTFIX, CLOSED] <;> omega
  | .index _ l _, hok => by
    rw [spine]
    rw [FE.ok] at hok
    have := two_le_spine l hok.2.1
    split <;> simp [INDEX, CLOSED] <;> omega
  | .dot _ _ l, hok => by
    rw [spine]
    rw [FE.ok] at hok
    have := two_le_spine l hok.2.2
    split <;> simp [MEMBER_ACCESS, CLOSED] <;> omega
  | .call _ _ l _, hok => by
    rw [spine]
    rw [FE.ok] at hok
    have := two_le_spine l hok.2.2.1
    split <;> simp [MEMBER_ACCESS, CLOSED] <;> omega

theorem le_lastLevel_of_spine (e : FE) (prec : Nat) (hs : prec + 1 ≤ spine extra e) (hp : prec ≤ PREFIX) :
    prec ≤ e.lastLevel := by
  cases e with
  | pre _ _ => simpa [FE.lastLevel] using hp
  | bin op l r =>
    rw [spine] at hs
    rw [FE.lastLevel]
    have := Nat.min_le_left (opPrec op) (if bareL extra (opPrec op) l = true then spine extra l else CLOSED)
    omega
  | tern q c cnd a b =>
    rw [spine] at hs
    rw [FE.lastLevel]
    have := Nat.min_le_left TERNARY (if bareL extra TERNARY cnd = true then spine extra cnd else CLOSED)
    have h2 : TERNARY = 2 := rfl
    have h1 : LOWEST = 1 := rfl
    omega
  | _ => rw [FE.lastLevel]; unfold PREFIX at hp; unfold CLOSED; omega

variable (hlp : lp.ty = .LPAREN) (hrp : rp.ty = .RPAREN) (hrbk : rbk.ty = .RBRACKET) (hrbr : rbr.ty = .RBRACE) (hcm : cm.ty = .COMMA)
include hlp hrp hrbk hrbr hcm

omit hlp hrp hrbk hrbr hcm in
theorem noIll_one {t : Token} (h : t.ty ≠ .ILLEGAL) : NoIll [t] := fun x hx => by simp at hx; rw [hx]; exact h

omit hlp hrp hrbk hrbr hcm in
theorem noIll_cons {t : Token} {k : List Token} (h : t.ty ≠ .ILLEGAL) (hk : NoIll k) : NoIll (t :: k) := fun x hx => by
  rcases List.mem_cons.mp hx with h1 | h1
  · rw [h1]; exact h
  · exact hk x h1

omit hrbk hrbr hcm in
theorem noIll_wrap (bare : Bool) {ts : List Token} (h : NoIll ts) : NoIll (wrap lp rp bare ts) := by
  cases bare
  · simp only [wrap, Bool.false_eq_true, if_false]
    exact noIll_cons (by rw [hlp]; decide) (h.append (noIll_one (by rw [hrp]; decide)))
  · simpa [wrap] using h

mutual
theorem noIll_body : ∀ (e : FE), e.ok → NoIll (body lp rp rbk rbr cm extra e)
  | .atom t, hok => by
    rw [body_atom]
    rw [FE.ok] at hok
    refine noIll_one ?_
    intro h
    unfold atomExpr at hok
    rw [h] at hok
    simp at hok
  | .pre op r, hok => by
    rw [body_pre]
    rw [FE.ok] at hok
    refine noIll_cons ?_ (noIll_wrap lp rp hlp hrp _ (noIll_body r hok.2))
    rcases hok.1 with h | h <;> rw [h] <;> decide
  | .bin op l r, hok => by
    rw [body_bin]
    rw [FE.ok] at hok
    exact (noIll_wrap lp rp hlp hrp _ (noIll_body l hok.2.1)).append
      (noIll_cons (binop_not_ill hok.1) (noIll_wrap lp rp hlp hrp _ (noIll_body r hok.2.2)))
  | .tern q c cnd a b, hok => by
    rw [body_tern]
    rw [FE.ok] at hok
    obtain ⟨hq, hc, h1, h2, h3⟩ := hok
    exact (noIll_wrap lp rp hlp hrp _ (noIll_body cnd h1)).append
      (noIll_cons (by rw [hq]; decide) ((noIll_wrap lp rp hlp hrp _ (noIll_body a h2)).append
        (noIll_cons (by rw [hc]; decide) (noIll_wrap lp rp hlp hrp _ (noIll_body b h3)))))
  | .post op l, hok => by
    rw [body_post]
    rw [FE.ok] at hok
    refine (noIll_wrap lp rp hlp hrp _ (noIll_body l hok.2)).append (noIll_one ?_)
    rcases hok.1 with h | h <;> rw [h] <;> decide
  | .index lb l i, hok => by
    rw [body_index]
    rw [FE.ok] at hok
    exact (noIll_wrap lp rp hlp hrp _ (noIll_body l hok.2.1)).append
      (noIll_cons (by rw [hok.1]; decide) ((noIll_wrap lp rp hlp hrp _ (noIll_body i hok.2.2)).append
        (noIll_one (by rw [hrbk]; decide))))
  | .dot d name l, hok => by
    rw [body_dot]
    rw [FE.ok] at hok
    exact (noIll_wrap lp rp hlp hrp _ (noIll_body l hok.2.2)).append
      (noIll_cons (by rw [hok.1]; decide) (noIll_one (by rw [hok.2.1]; decide)))
  | .call d name l args, hok => by
    rw [body_call]
    rw [FE.ok] at hok
    exact (noIll_wrap lp rp hlp hrp _ (noIll_body l hok.2.2.1)).append
      (noIll_cons (by rw [hok.1]; decide) (noIll_cons (by rw [hok.2.1]; decide) (noIll_cons (by rw [hlp]; decide)
        ((noIll_bodyList true args hok.2.2.2).append (noIll_one (by rw [hrp]; decide))))))
  | .arr lb els, hok => by
    rw [body_arr]
    rw [FE.ok] at hok
    exact noIll_cons (by rw [hok.1]; decide) ((noIll_bodyList true els hok.2).append (noIll_one (by rw [hrbk]; decide)))
  | .obj lbr ps, hok => by
    rw [body_obj]
    rw [FE.ok] at hok
    exact noIll_cons (by rw [hok.1]; decide) ((noIll_bodyPairs true ps hok.2).append (noIll_one (by rw [hrbr]; decide)))
theorem noIll_bodyPairs : ∀ (first : Bool) (ps : FPs), ps.ok → NoIll (bodyPairs lp rp rbk rbr cm extra first ps)
  | _, .nil, _ => by rw [bodyPairs_nil]; intro x hx; cases hx
  | first, .cons key colon v r, hok => by
    rw [bodyPairs_cons]
    rw [FPs.ok] at hok
    have h1 : NoIll (if first then [] else [cm]) := by
      cases first
      · simpa using noIll_one (by rw [hcm]; decide)
      · intro x hx; simp at hx
    refine h1.append (noIll_cons ?_ (noIll_cons (by rw [hok.2.1]; decide)
      ((noIll_wrap lp rp hlp hrp _ (noIll_body v hok.2.2.1)).append (noIll_bodyPairs false r hok.2.2.2))))
    rcases hok.1 with h | h <;> rw [h] <;> decide
theorem noIll_bodyList : ∀ (first : Bool) (es : FEs), es.ok → NoIll (bodyList lp rp rbk rbr cm extra first es)
  | _, .nil, _ => by rw [bodyList_nil]; intro x hx; cases hx
  | first, .cons e r, hok => by
    rw [bodyList_cons]
    rw [FEs.ok] at hok
    have h1 : NoIll (if first then [] else [cm]) := by
      cases first
      · simpa using noIll_one (by rw [hcm]; decide)
      · intro x hx; simp at hx
    exact (h1.append (noIll_wrap lp rp hlp hrp _ (noIll_body e hok.1))).append (noIll_bodyList false r hok.2)
end

theorem noIll_showAt (m : Nat) (e : FE) (hok : e.ok) : NoIll (showAt lp rp rbk rbr cm extra m e) :=
  noIll_wrap lp rp hlp hrp _ (noIll_body lp rp rbk rbr cm extra hlp hrp hrbk hrbr hcm e hok)
theorem noIll_showL (m : Nat) (e : FE) (hok : e.ok) : NoIll (showL lp rp rbk rbr cm extra m e) :=
  noIll_wrap lp rp hlp hrp _ (noIll_body lp rp rbk rbr cm extra hlp hrp hrbk hrbr hcm e hok)

omit hrp hrbk hrbr hcm in
theorem head_wrap (bare : Bool) {ts : List Token} (h : ∀ t, ts.head? = some t → StartTok t) :
    ∀ t, (wrap lp rp bare ts).head? = some t → StartTok t := by
  intro t ht
  cases bare
  · simp [wrap] at ht
    rw [← ht]
    exact Or.inr (Or.inr (Or.inr (Or.inl hlp)))
  · exact h t (by simpa [wrap] using ht)

omit hlp hrp hrbk hrbr hcm in
theorem head_append {a c : List Token} (ha : a ≠ []) (h : ∀ t, a.head? = some t → StartTok t) :
    ∀ t, (a ++ c).head? = some t → StartTok t := by
  intro t ht
  cases a with
  | nil => exact absurd rfl ha
  | cons x r => exact h t (by simpa using ht)

omit hrp hrbk hrbr hcm in
theorem head_body : ∀ (e : FE), e.ok → ∀ t, (body lp rp rbk rbr cm extra e).head? = some t → StartTok t
  | .atom t, hok => by
    rw [body_atom]; rw [FE.ok] at hok
    intro x hx; simp at hx; rw [← hx]; exact Or.inl hok
  | .pre op r, hok => by
    rw [body_pre]; rw [FE.ok] at hok
    intro x hx; simp at hx; rw [← hx]
    rcases hok.1 with h | h
    · exact Or.inr (Or.inl h)
    · exact Or.inr (Or.inr (Or.inl h))
  | .bin op l r, hok => by
    rw [body_bin]; rw [FE.ok] at hok
    exact head_append (showL_ne_nil lp rp rbk rbr cm extra _ l) (head_wrap lp rp hlp _ (head_body l hok.2.1))
  | .tern q c cnd a b, hok => by
    rw [body_tern]; rw [FE.ok] at hok
    exact head_append (showL_ne_nil lp rp rbk rbr cm extra _ cnd) (head_wrap lp rp hlp _ (head_body cnd hok.2.2.1))
  | .post op l, hok => by
    rw [body_post]; rw [FE.ok] at hok
    exact head_append (showL_ne_nil lp rp rbk rbr cm extra _ l) (head_wrap lp rp hlp _ (head_body l hok.2))
  | .index lb l i, hok => by
    rw [body_index]; rw [FE.ok] at hok
    exact head_append (showL_ne_nil lp rp rbk rbr cm extra _ l) (head_wrap lp rp hlp _ (head_body l hok.2.1))
  | .dot d name l, hok => by
    rw [body_dot]; rw [FE.ok] at hok
    exact head_append (showL_ne_nil lp rp rbk rbr cm extra _ l) (head_wrap lp rp hlp _ (head_body l hok.2.2))
  | .call d name l args, hok => by
    rw [body_call]; rw [FE.ok] at hok
    exact head_append (showL_ne_nil lp rp rbk rbr cm extra _ l) (head_wrap lp rp hlp _ (head_body l hok.2.2.1))
  | .arr lb els, hok => by
    rw [body_arr]; rw [FE.ok] at hok
    intro x hx; simp at hx; rw [← hx]
    exact Or.inr (Or.inr (Or.inr (Or.inr (Or.inl hok.1))))
  | .obj lbr ps, hok => by
    rw [body_obj]; rw [FE.ok] at hok
    intro x hx; simp at hx; rw [← hx]
    exact Or.inr (Or.inr (Or.inr (Or.inr (Or.inr hok.1))))

omit hrp hrbk hrbr hcm in
theorem head_showAt (m : Nat) (e : FE) (hok : e.ok) : ∀ t, (showAt lp rp rbk rbr cm extra m e).head? = some t → StartTok t :=
  head_wrap lp rp hlp _ (head_body lp rp rbk rbr cm extra hlp e hok)

/-! ### the two induction statements and the passage between them -/

/-- the bare form followed by a continuation at which its open loop stops -/
def PStmt (e : FE) : Prop :=
  ∀ prec k ex ts', prec + 1 ≤ spine extra e → StopR e.lastLevel k → NoLP k → NoIll k →
    RLoops prec e.toExpr (lastTok (body lp rp rbk rbr cm extra e) :: k) ex ts' →
    RParses prec (body lp rp rbk rbr cm extra e ++ k) ex ts'

/-- the printed form where `parseExpression(prec)` is called -/
def QStmt (e : FE) : Prop :=
  ∀ prec k, prec ≤ PREFIX → StopR prec k → NoIll k →
    RParses prec (showAt lp rp rbk rbr cm extra (prec + 1) e ++ k) e.toExpr (lastTok (showAt lp rp rbk rbr cm extra (prec + 1) e) :: k)

omit hlp hrbk hrbr hcm in
theorem noIll_rp {k : List Token} (hk : NoIll k) : NoIll (rp :: k) := noIll_cons (by rw [hrp]; decide) hk

omit hlp hrbk hrbr hcm in
theorem stopR_rp (n : Nat) (k : List Token) : StopR n (rp :: k) := Or.inr (Or.inr (Or.inl hrp))

omit hlp hrbk hrbr hcm in
theorem noLP_rp (k : List Token) : NoLP (rp :: k) := fun t ht => by simp at ht; rw [← ht, hrp]; decide

/-- the parenthesised bare form -/
theorem paren_of_P (e : FE) (hok : e.ok) (hP : PStmt lp rp rbk rbr cm extra e) (prec : Nat) (k : List Token) (hk : NoIll k)
    (ex : Expr) (ts' : List Token) (hloop : RLoops prec e.toExpr (rp :: k) ex ts') :
    RParses prec (lp :: (body lp rp rbk rbr cm extra e ++ [rp]) ++ k) ex ts' := by
  have hb := noIll_body lp rp rbk rbr cm extra hlp hrp hrbk hrbr hcm e hok
  have hrk := noIll_rp rp hrp hk
  simp only [List.append_assoc, List.cons_append, List.nil_append, List.singleton_append]
  refine parses_paren (x := lastTok (body lp rp rbk rbr cm extra e)) hlp hrp ?_ hk ?_ hloop (by simp [body_ne_nil])
  · intro x hx
    exact (hb.append hrk) x (List.mem_of_mem_tail hx)
  · refine hP LOWEST (rp :: k) _ _ ?_ (stopR_rp rp hrp _ k) (noLP_rp rp hrp k) hrk (loops_stop (stopR_rp rp hrp _ k))
    have := two_le_spine extra e hok
    unfold LOWEST; omega

theorem Q_of_P (e : FE) (hok : e.ok) (hP : PStmt lp rp rbk rbr cm extra e) : QStmt lp rp rbk rbr cm extra e := by
  intro prec k hple hs hk
  unfold showAt
  rcases wrap_cases lp rp (bareAt extra (prec + 1) e) (body lp rp rbk rbr cm extra e) with ⟨hb, hw⟩ | ⟨hb, hw⟩
  · rw [hw]
    have hsp : prec + 1 ≤ spine extra e := by
      simp only [bareAt, Bool.and_eq_true, decide_eq_true_eq] at hb
      exact hb.1
    exact hP prec k _ _ hsp (stopR_mono hs (le_lastLevel_of_spine extra e prec hsp hple)) (stopR_noLP hs hple) hk (loops_stop hs)
  · rw [hw]
    have hl : lastTok (lp :: (body lp rp rbk rbr cm extra e ++ [rp])) = rp := by
      have := lastTok_append_singleton (lp :: body lp rp rbk rbr cm extra e) rp
      simpa using this
    rw [hl]
    exact paren_of_P lp rp rbk rbr cm extra hlp hrp hrbk hrbr hcm e hok hP prec k hk _ _ (loops_stop hs)

/-- a left operand in front of an operator token `t0` of precedence at most `pn` -/
theorem left_operand (l : FE) (hok : l.ok) (hP : PStmt lp rp rbk rbr cm extra l) (pn prec : Nat) (t0 : Token) (T : List Token)
    (hp : precedence t0.ty ≤ pn) (hnlp : t0.ty ≠ .LPAREN) (hTI : NoIll (t0 :: T))
    (hsp : bareL extra pn l = true → prec + 1 ≤ spine extra l)
    (ex : Expr) (ts' : List Token) (hloop : ∀ x, RLoops prec l.toExpr (x :: t0 :: T) ex ts') :
    RParses prec (showL lp rp rbk rbr cm extra pn l ++ t0 :: T) ex ts' := by
  unfold showL
  rcases wrap_cases lp rp (bareL extra pn l) (body lp rp rbk rbr cm extra l) with ⟨hb, hw⟩ | ⟨hb, hw⟩
  · rw [hw]
    have hll : pn ≤ l.lastLevel := by
      simp only [bareL, Bool.and_eq_true, decide_eq_true_eq] at hb
      exact hb.1
    refine hP prec (t0 :: T) _ _ (hsp hb) (Or.inr (Or.inr (Or.inr (by omega)))) ?_ hTI (hloop _)
    intro t ht; simp at ht; rw [← ht]; exact hnlp
  · rw [hw]
    exact paren_of_P lp rp rbk rbr cm extra hlp hrp hrbk hrbr hcm l hok hP prec (t0 :: T) hTI _ _ (hloop rp)

/-! ### the main induction -/

/-- the remaining elements of a list, after an element whose last token is `x` -/
def LStmt (es : FEs) : Prop :=
  ∀ (endT x : Token) (acc : List Expr) (k : List Token), (endT.ty = .RPAREN ∨ endT.ty = .RBRACKET) → NoIll k →
    RListLoop endT.ty acc (x :: (bodyList lp rp rbk rbr cm extra false es ++ endT :: k)) (acc ++ es.toExprs) (endT :: k)

/-- the whole list after its opening token -/
def LFirst (es : FEs) : Prop :=
  ∀ (endT op : Token) (k : List Token), (endT.ty = .RPAREN ∨ endT.ty = .RBRACKET) → NoIll k →
    RList endT.ty (op :: (bodyList lp rp rbk rbr cm extra true es ++ endT :: k)) es.toExprs (endT :: k)

/-- the pairs of an object literal after the opening brace, into the table `acc` -/
def OStmt (ps : FPs) : Prop :=
  ∀ (t : Token) (acc : List (Bytes × Expr)) (k : List Token), NoIll k → ps ≠ .nil →
    RObj t acc (bodyPairs lp rp rbk rbr cm extra true ps ++ rbr :: k) (.obj t (ps.toPairs acc)) (rbr :: k)

/-- the whole object literal as a prefix form -/
def OAll (ps : FPs) : Prop :=
  ∀ (t : Token) (k : List Token) (prec : Nat) (ex : Expr) (ts' : List Token), t.ty = .LBRACE → NoIll k →
    RLoops prec (.obj t (ps.toPairs [])) (rbr :: k) ex ts' →
    RParses prec (t :: (bodyPairs lp rp rbk rbr cm extra true ps ++ rbr :: k)) ex ts'

omit hlp hrp hrbk hrbr in
theorem stopR_listTail (r : FEs) (endT : Token) (k : List Token) (hend : endT.ty = .RPAREN ∨ endT.ty = .RBRACKET) :
    StopR LOWEST (bodyList lp rp rbk rbr cm extra false r ++ endT :: k) := by
  cases r with
  | nil =>
    rw [bodyList_nil]
    rcases hend with h | h
    · exact Or.inr (Or.inr (Or.inl h))
    · exact Or.inr (Or.inr (Or.inr (by rw [h]; decide)))
  | cons e r' =>
    rw [bodyList_cons]
    simp only [Bool.false_eq_true, if_false, List.append_assoc, List.singleton_append, List.cons_append, List.nil_append]
    exact Or.inr (Or.inr (Or.inr (by rw [hcm]; decide)))

omit hlp hrp hrbk hrbr hcm in
theorem noIll_end {endT : Token} {k : List Token} (hend : endT.ty = .RPAREN ∨ endT.ty = .RBRACKET) (hk : NoIll k) :
    NoIll (endT :: k) := noIll_cons (by rcases hend with h | h <;> rw [h] <;> decide) hk

mutual
theorem pratt_P : ∀ (e : FE), e.ok → PStmt lp rp rbk rbr cm extra e
  | .atom t, hok => by
    intro prec k ex ts' _ _ _ _ hl
    rw [FE.ok] at hok
    obtain ⟨a, ha⟩ := Option.isSome_iff_exists.mp hok
    rw [body_atom] at hl ⊢
    have hte : (FE.atom t).toExpr = a := by rw [FE.toExpr, ha]; rfl
    rw [hte] at hl
    exact parses_atom ha (by simpa [lastTok] using hl)
  | .pre op r, hok => by
    intro prec k ex ts' _ hst _ hk hl
    rw [FE.ok] at hok
    have hQ := Q_of_P lp rp rbk rbr cm extra hlp hrp hrbk hrbr hcm r hok.2 (pratt_P r hok.2)
    have hst' : StopR PREFIX k := by simpa [FE.lastLevel] using hst
    have hR := hQ PREFIX k (Nat.le_refl _) hst' hk
    have hne := showAt_ne_nil lp rp rbk rbr cm extra (PREFIX + 1) r
    rw [body_pre] at hl ⊢
    rw [lastTok_cons _ _ hne] at hl
    rw [FE.toExpr] at hl
    simp only [List.cons_append]
    refine parses_pre hok.1 ?_ (by simp [hne]) hR hl
    intro x hx
    exact ((noIll_showAt lp rp rbk rbr cm extra hlp hrp hrbk hrbr hcm _ r hok.2).append hk) x (List.mem_of_mem_tail hx)
  | .bin op l r, hok => by
    intro prec k ex ts' hs hst _ hk hl
    rw [FE.ok] at hok
    obtain ⟨hop, hokl, hokr⟩ := hok
    have hQ := Q_of_P lp rp rbk rbr cm extra hlp hrp hrbk hrbr hcm r hokr (pratt_P r hokr)
    rw [spine] at hs
    have hq : prec < opPrec op := by
      have := Nat.min_le_left (opPrec op) (if bareL extra (opPrec op) l = true then spine extra l else CLOSED)
      omega
    have hst' : StopR (opPrec op) k := by simpa [FE.lastLevel] using hst
    have hR := hQ (opPrec op) k (by have := binop_prec_le hop; unfold PREFIX; omega) hst' hk
    have hne := showAt_ne_nil lp rp rbk rbr cm extra (opPrec op + 1) r
    have hrestIll : NoIll (showAt lp rp rbk rbr cm extra (opPrec op + 1) r ++ k) :=
      (noIll_showAt lp rp rbk rbr cm extra hlp hrp hrbk hrbr hcm _ r hokr).append hk
    have hnb : ∀ t, (showAt lp rp rbk rbr cm extra (opPrec op + 1) r ++ k).head? = some t → t.ty ≠ .RBRACES := by
      intro t ht
      exact (head_append hne (head_showAt lp rp rbk rbr cm extra hlp _ r hokr) t ht).not_closing.1
    rw [body_bin] at hl ⊢
    rw [lastTok_append _ _ (by simp), lastTok_cons _ _ hne] at hl
    rw [FE.toExpr] at hl
    have hloopL : ∀ x, RLoops prec l.toExpr (x :: op :: (showAt lp rp rbk rbr cm extra (opPrec op + 1) r ++ k)) ex ts' :=
      fun x => loops_op hop hq hrestIll (by simp [hne]) hnb hR hl
    simp only [List.append_assoc, List.cons_append]
    refine left_operand lp rp rbk rbr cm extra hlp hrp hrbk hrbr hcm l hokl (pratt_P l hokl) (opPrec op) prec op _ (Nat.le_refl _) ?_
      (noIll_cons (binop_not_ill hop) hrestIll) ?_ ex ts' hloopL
    · intro h; rw [h] at hop; cases hop
    · intro hb
      rw [if_pos hb] at hs
      have := Nat.min_le_right (opPrec op) (spine extra l)
      omega
  | .tern q c cnd a b, hok => by
    intro prec k ex ts' hs hst _ hk hl
    rw [FE.ok] at hok
    obtain ⟨hq, hc, hokc, hoka, hokb⟩ := hok
    have hQa := Q_of_P lp rp rbk rbr cm extra hlp hrp hrbk hrbr hcm a hoka (pratt_P a hoka)
    have hQb := Q_of_P lp rp rbk rbr cm extra hlp hrp hrbk hrbr hcm b hokb (pratt_P b hokb)
    rw [spine] at hs
    have hq2 : prec < TERNARY := by
      have := Nat.min_le_left TERNARY (if bareL extra TERNARY cnd = true then spine extra cnd else CLOSED)
      omega
    have hst' : StopR LOWEST k := by simpa [FE.lastLevel] using hst
    have hB := hQb LOWEST k (by decide) hst' hk
    have hneB := showAt_ne_nil lp rp rbk rbr cm extra (LOWEST + 1) b
    have hneA := showAt_ne_nil lp rp rbk rbr cm extra (TERNARY + 1) a
    have hBI : NoIll (showAt lp rp rbk rbr cm extra (LOWEST + 1) b ++ k) :=
      (noIll_showAt lp rp rbk rbr cm extra hlp hrp hrbk hrbr hcm _ b hokb).append hk
    have hcI : NoIll (c :: (showAt lp rp rbk rbr cm extra (LOWEST + 1) b ++ k)) := noIll_cons (by rw [hc]; decide) hBI
    have hcStop : StopR TERNARY (c :: (showAt lp rp rbk rbr cm extra (LOWEST + 1) b ++ k)) :=
      Or.inr (Or.inr (Or.inr (by rw [hc]; decide)))
    have hA := hQa TERNARY _ (by decide) hcStop hcI
    have hAI : NoIll (showAt lp rp rbk rbr cm extra (TERNARY + 1) a ++ c :: (showAt lp rp rbk rbr cm extra (LOWEST + 1) b ++ k)) :=
      (noIll_showAt lp rp rbk rbr cm extra hlp hrp hrbk hrbr hcm _ a hoka).append hcI
    rw [body_tern] at hl ⊢
    rw [lastTok_append _ _ (by simp), lastTok_cons _ _ (by simp), lastTok_append _ _ (by simp), lastTok_cons _ _ hneB] at hl
    rw [FE.toExpr] at hl
    have hloopC : ∀ y, RLoops prec cnd.toExpr
        (y :: q :: (showAt lp rp rbk rbr cm extra (TERNARY + 1) a ++ c :: (showAt lp rp rbk rbr cm extra (LOWEST + 1) b ++ k))) ex ts' :=
      fun y => loops_tern hq hc hq2 hAI (by simp [hneA]) hBI (by simp [hneB]) hA hB hl
    simp only [List.append_assoc, List.cons_append]
    refine left_operand lp rp rbk rbr cm extra hlp hrp hrbk hrbr hcm cnd hokc (pratt_P cnd hokc) TERNARY prec q _ ?_ ?_
      (noIll_cons (by rw [hq]; decide) hAI) ?_ ex ts' hloopC
    · rw [hq]; decide
    · rw [hq]; decide
    · intro hb
      rw [if_pos hb] at hs
      have := Nat.min_le_right TERNARY (spine extra cnd)
      omega
  | .post op l, hok => by
    intro prec k ex ts' hs _ _ hk hl
    rw [FE.ok] at hok
    rw [spine] at hs
    have hlt : prec < POSTFIX := by
      have := Nat.min_le_left POSTFIX (if bareL extra POSTFIX l = true then spine extra l else CLOSED)
      omega
    rw [body_post] at hl ⊢
    rw [lastTok_append_singleton] at hl
    rw [FE.toExpr] at hl
    have hopI : op.ty ≠ .ILLEGAL := by rcases hok.1 with h | h <;> rw [h] <;> decide
    have hprec : precedence op.ty ≤ POSTFIX := by rcases hok.1 with h | h <;> rw [h] <;> decide
    simp only [List.append_assoc, List.singleton_append]
    refine left_operand lp rp rbk rbr cm extra hlp hrp hrbk hrbr hcm l hok.2 (pratt_P l hok.2) POSTFIX prec op k hprec ?_
      (noIll_cons hopI hk) ?_ ex ts' (fun x => loops_post hok.1 hlt hk hl)
    · rcases hok.1 with h | h <;> rw [h] <;> decide
    · intro hb
      rw [if_pos hb] at hs
      have := Nat.min_le_right POSTFIX (spine extra l)
      omega
  | .index lb l i, hok => by
    intro prec k ex ts' hs _ _ hk hl
    rw [FE.ok] at hok
    obtain ⟨hlb, hokl, hoki⟩ := hok
    have hQ := Q_of_P lp rp rbk rbr cm extra hlp hrp hrbk hrbr hcm i hoki (pratt_P i hoki)
    rw [spine] at hs
    have hlt : prec < INDEX := by
      have := Nat.min_le_left INDEX (if bareL extra INDEX l = true then spine extra l else CLOSED)
      omega
    have hrk : NoIll (rbk :: k) := noIll_cons (by rw [hrbk]; decide) hk
    have hI := hQ LOWEST (rbk :: k) (by decide) (Or.inr (Or.inr (Or.inr (by rw [hrbk]; decide)))) hrk
    have hne := showAt_ne_nil lp rp rbk rbr cm extra (LOWEST + 1) i
    have hII : NoIll (showAt lp rp rbk rbr cm extra (LOWEST + 1) i ++ rbk :: k) :=
      (noIll_showAt lp rp rbk rbr cm extra hlp hrp hrbk hrbr hcm _ i hoki).append hrk
    rw [body_index] at hl ⊢
    rw [lastTok_append _ _ (by simp), lastTok_cons _ _ (by simp), lastTok_append_singleton] at hl
    rw [FE.toExpr] at hl
    simp only [List.append_assoc, List.cons_append, List.singleton_append]
    refine left_operand lp rp rbk rbr cm extra hlp hrp hrbk hrbr hcm l hokl (pratt_P l hokl) INDEX prec lb _ ?_ ?_
      (noIll_cons (by rw [hlb]; decide) hII) ?_ ex ts' (fun y => loops_index hlb hrbk hlt hII (by simp [hne]) hk hI hl)
    · rw [hlb]; decide
    · rw [hlb]; decide
    · intro hb
      rw [if_pos hb] at hs
      have := Nat.min_le_right INDEX (spine extra l)
      omega
  | .dot d name l, hok => by
    intro prec k ex ts' hs _ hnlp hk hl
    rw [FE.ok] at hok
    obtain ⟨hd, hname, hokl⟩ := hok
    rw [spine] at hs
    have hlt : prec < MEMBER_ACCESS := by
      have := Nat.min_le_left MEMBER_ACCESS (if bareL extra MEMBER_ACCESS l = true then spine extra l else CLOSED)
      omega
    rw [body_dot] at hl ⊢
    have hlast : lastTok (showL lp rp rbk rbr cm extra MEMBER_ACCESS l ++ [d, name]) = name := by
      have := lastTok_append_singleton (showL lp rp rbk rbr cm extra MEMBER_ACCESS l ++ [d]) name
      simpa using this
    rw [hlast] at hl
    rw [FE.toExpr] at hl
    simp only [List.append_assoc, List.cons_append, List.nil_append]
    refine left_operand lp rp rbk rbr cm extra hlp hrp hrbk hrbr hcm l hokl (pratt_P l hokl) MEMBER_ACCESS prec d _ ?_ ?_
      (noIll_cons (by rw [hd]; decide) (noIll_cons (by rw [hname]; decide) hk)) ?_ ex ts'
      (fun y => loops_dot hd hname hlt hk hnlp hl)
    · rw [hd]; decide
    · rw [hd]; decide
    · intro hb
      rw [if_pos hb] at hs
      have := Nat.min_le_right MEMBER_ACCESS (spine extra l)
      omega
  | .call d name l args, hok => by
    intro prec k ex ts' hs _ _ hk hl
    rw [FE.ok] at hok
    obtain ⟨hd, hname, hokl, hoka⟩ := hok
    rw [spine] at hs
    have hlt : prec < MEMBER_ACCESS := by
      have := Nat.min_le_left MEMBER_ACCESS (if bareL extra MEMBER_ACCESS l = true then spine extra l else CLOSED)
      omega
    have hrk : NoIll (rp :: k) := noIll_rp rp hrp hk
    have hargs := (pratt_L args hoka).2 rp lp k (Or.inl hrp) hk
    rw [hrp] at hargs
    have hAI : NoIll (bodyList lp rp rbk rbr cm extra true args ++ rp :: k) :=
      (noIll_bodyList lp rp rbk rbr cm extra hlp hrp hrbk hrbr hcm true args hoka).append hrk
    rw [body_call] at hl ⊢
    have hlast : lastTok (showL lp rp rbk rbr cm extra MEMBER_ACCESS l ++ d :: name :: lp :: (bodyList lp rp rbk rbr cm extra true args ++ [rp])) = rp := by
      have := lastTok_append_singleton (showL lp rp rbk rbr cm extra MEMBER_ACCESS l ++ d :: name :: lp :: bodyList lp rp rbk rbr cm extra true args) rp
      simpa using this
    rw [hlast] at hl
    rw [FE.toExpr] at hl
    simp only [List.append_assoc, List.cons_append, List.nil_append, List.singleton_append]
    refine left_operand lp rp rbk rbr cm extra hlp hrp hrbk hrbr hcm l hokl (pratt_P l hokl) MEMBER_ACCESS prec d _ ?_ ?_
      (noIll_cons (by rw [hd]; decide) (noIll_cons (by rw [hname]; decide) (noIll_cons (by rw [hlp]; decide) hAI))) ?_ ex ts'
      (fun y => loops_call hd hname hlp hlt hAI hargs hl)
    · rw [hd]; decide
    · rw [hd]; decide
    · intro hb
      rw [if_pos hb] at hs
      have := Nat.min_le_right MEMBER_ACCESS (spine extra l)
      omega
  | .arr lb els, hok => by
    intro prec k ex ts' _ _ _ hk hl
    rw [FE.ok] at hok
    have hels := (pratt_L els hok.2).2 rbk lb k (Or.inr hrbk) hk
    rw [hrbk] at hels
    rw [body_arr] at hl ⊢
    have hlast : lastTok (lb :: (bodyList lp rp rbk rbr cm extra true els ++ [rbk])) = rbk := by
      have := lastTok_append_singleton (lb :: bodyList lp rp rbk rbr cm extra true els) rbk
      simpa using this
    rw [hlast] at hl
    rw [FE.toExpr] at hl
    simp only [List.append_assoc, List.cons_append, List.nil_append, List.singleton_append]
    exact parses_arr hok.1 hels hl
  | .obj lbr ps, hok => by
    intro prec k ex ts' _ _ _ hk hl
    rw [FE.ok] at hok
    rw [body_obj] at hl ⊢
    have hlast : lastTok (lbr :: (bodyPairs lp rp rbk rbr cm extra true ps ++ [rbr])) = rbr := by
      have := lastTok_append_singleton (lbr :: bodyPairs lp rp rbk rbr cm extra true ps) rbr
      simpa using this
    rw [hlast] at hl
    rw [FE.toExpr] at hl
    simp only [List.append_assoc, List.cons_append, List.nil_append, List.singleton_append]
    exact (pratt_O ps hok.2).2 lbr k prec ex ts' hok.1 hk hl
theorem pratt_O : ∀ (ps : FPs), ps.ok → OStmt lp rp rbk rbr cm extra ps ∧ OAll lp rp rbk rbr cm extra ps
  | .nil, _ => by
    constructor
    · intro t acc k _ hne; exact absurd rfl hne
    · intro t k prec ex ts' ht hk hl
      rw [bodyPairs_nil, FPs.toPairs] at *
      exact parses_obj_empty ht hrbr hk hl
  | .cons key colon v r, hok => by
    rw [FPs.ok] at hok
    obtain ⟨hkey, hcolon, hokv, hokr⟩ := hok
    have hQ := Q_of_P lp rp rbk rbr cm extra hlp hrp hrbk hrbr hcm v hokv (pratt_P v hokv)
    have ih := (pratt_O r hokr).1
    have hne := showAt_ne_nil lp rp rbk rbr cm extra (LOWEST + 1) v
    have hVI := noIll_showAt lp rp rbk rbr cm extra hlp hrp hrbk hrbr hcm (LOWEST + 1) v hokv
    have hO : OStmt lp rp rbk rbr cm extra (.cons key colon v r) := by
      intro t acc k hk _
      have hrk : NoIll (rbr :: k) := noIll_cons (by rw [hrbr]; decide) hk
      rw [bodyPairs_cons, FPs.toPairs]
      simp only [if_true, List.nil_append, List.cons_append, List.append_assoc]
      cases r with
      | nil =>
        rw [bodyPairs_nil, FPs.toPairs]
        simp only [List.nil_append]
        have hv := hQ LOWEST (rbr :: k) (by decide) (Or.inr (Or.inr (Or.inr (by rw [hrbr]; decide)))) hrk
        exact objloop_last hkey hcolon hrbr (hVI.append hrk) (by simp [hne]) hk hv
      | cons key2 colon2 v2 r2 =>
        have hR := ih t (mapSet acc key.lit v.toExpr) k hk (by intro h; cases h)
        have hcons : bodyPairs lp rp rbk rbr cm extra false (.cons key2 colon2 v2 r2) =
            cm :: bodyPairs lp rp rbk rbr cm extra true (.cons key2 colon2 v2 r2) := by
          rw [bodyPairs_cons, bodyPairs_cons]; simp
        rw [hcons]
        simp only [List.cons_append]
        have h2I : NoIll (bodyPairs lp rp rbk rbr cm extra true (.cons key2 colon2 v2 r2) ++ rbr :: k) :=
          (noIll_bodyPairs lp rp rbk rbr cm extra hlp hrp hrbk hrbr hcm true _ hokr).append hrk
        have hcI : NoIll (cm :: (bodyPairs lp rp rbk rbr cm extra true (.cons key2 colon2 v2 r2) ++ rbr :: k)) :=
          noIll_cons (by rw [hcm]; decide) h2I
        have hv := hQ LOWEST (cm :: (bodyPairs lp rp rbk rbr cm extra true (.cons key2 colon2 v2 r2) ++ rbr :: k)) (by decide)
          (Or.inr (Or.inr (Or.inr (by rw [hcm]; decide)))) hcI
        refine objloop_more hkey hcolon hcm (hVI.append hcI) (by simp [hne]) h2I ?_ hv hR
        rw [bodyPairs_cons]; simp
    refine ⟨hO, ?_⟩
    intro t k prec ex ts' ht hk hl
    have hrk : NoIll (rbr :: k) := noIll_cons (by rw [hrbr]; decide) hk
    have hobj := hO t [] k hk (by intro h; cases h)
    have hI := (noIll_bodyPairs lp rp rbk rbr cm extra hlp hrp hrbk hrbr hcm true (.cons key colon v r) ⟨hkey, hcolon, hokv, hokr⟩).append hrk
    rw [bodyPairs_cons] at hobj hI ⊢
    simp only [if_true, List.nil_append, List.cons_append, List.append_assoc] at hobj hI ⊢
    refine parses_obj ht ?_ hI.tail hobj hl
    rcases hkey with h | h <;> rw [h] <;> decide
theorem pratt_L : ∀ (es : FEs), es.ok → LStmt lp rp rbk rbr cm extra es ∧ LFirst lp rp rbk rbr cm extra es
  | .nil, _ => by
    constructor
    · intro endT x acc k hend hk
      rw [bodyList_nil, FEs.toExprs]
      simp only [List.nil_append, List.append_nil]
      exact listloop_end hk (by rcases hend with h | h <;> rw [h] <;> decide)
    · intro endT op k hend hk
      rw [bodyList_nil, FEs.toExprs]
      exact list_empty hk
  | .cons e r, hok => by
    rw [FEs.ok] at hok
    have hQ := Q_of_P lp rp rbk rbr cm extra hlp hrp hrbk hrbr hcm e hok.1 (pratt_P e hok.1)
    have hL := (pratt_L r hok.2).1
    have hne := showAt_ne_nil lp rp rbk rbr cm extra (LOWEST + 1) e
    have key : ∀ (endT : Token) (k : List Token), (endT.ty = .RPAREN ∨ endT.ty = .RBRACKET) → NoIll k →
        NoIll (showAt lp rp rbk rbr cm extra (LOWEST + 1) e ++ (bodyList lp rp rbk rbr cm extra false r ++ endT :: k)) ∧
        (∀ t, (showAt lp rp rbk rbr cm extra (LOWEST + 1) e ++ (bodyList lp rp rbk rbr cm extra false r ++ endT :: k)).head? = some t → t.ty ≠ endT.ty) ∧
        RParses LOWEST (showAt lp rp rbk rbr cm extra (LOWEST + 1) e ++ (bodyList lp rp rbk rbr cm extra false r ++ endT :: k)) e.toExpr
          (lastTok (showAt lp rp rbk rbr cm extra (LOWEST + 1) e) :: (bodyList lp rp rbk rbr cm extra false r ++ endT :: k)) := by
      intro endT k hend hk
      have hKI : NoIll (bodyList lp rp rbk rbr cm extra false r ++ endT :: k) :=
        (noIll_bodyList lp rp rbk rbr cm extra hlp hrp hrbk hrbr hcm false r hok.2).append (noIll_end hend hk)
      refine ⟨(noIll_showAt lp rp rbk rbr cm extra hlp hrp hrbk hrbr hcm _ e hok.1).append hKI, ?_, ?_⟩
      · intro t ht
        have hs := (head_append hne (head_showAt lp rp rbk rbr cm extra hlp _ e hok.1) t ht).not_closing
        rcases hend with h | h
        · rw [h]; exact hs.2.1
        · rw [h]; exact hs.2.2.1
      · exact hQ LOWEST _ (by decide) (stopR_listTail lp rp rbk rbr cm extra hcm r endT k hend) hKI
    constructor
    · intro endT x acc k hend hk
      obtain ⟨hI, hh, hp⟩ := key endT k hend hk
      rw [bodyList_cons, FEs.toExprs]
      simp only [Bool.false_eq_true, if_false, List.append_assoc, List.singleton_append]
      have hl := hL endT (lastTok (showAt lp rp rbk rbr cm extra (LOWEST + 1) e)) (acc ++ [e.toExpr]) k hend hk
      rw [List.append_assoc] at hl
      exact listloop_more hcm hI (by simp [hne]) hh hp hl
    · intro endT op k hend hk
      obtain ⟨hI, hh, hp⟩ := key endT k hend hk
      rw [bodyList_cons, FEs.toExprs]
      simp only [if_true, List.nil_append, List.append_assoc]
      have hl := hL endT (lastTok (showAt lp rp rbk rbr cm extra (LOWEST + 1) e)) [e.toExpr] k hend hk
      refine list_first ?_ (by simp [hne]) hh hp hl
      intro x hx
      exact hI x (List.mem_of_mem_tail hx)
end

end shape
end Full


/-! ### the round trip -/

namespace Full

/-- **round trip for the whole expression language**: every tree of literals, identifiers, prefix
    and binary operators, ternaries, postfix `++`/`--`, index and property access, calls, array
    and object literals, printed with the parentheses the grammar needs plus any redundant pairs
    and followed by any continuation at which the loop stops, is parsed by the model's
    `parseExpression(LOWEST)` — from every parser state, with enough fuel — to exactly that
    tree; the parser stops on the last token of the expression and records no error. -/
theorem parse_print (lp rp rbk rbr cm : Token) (hlp : lp.ty = .LPAREN) (hrp : rp.ty = .RPAREN) (hrbk : rbk.ty = .RBRACKET)
    (hrbr : rbr.ty = .RBRACE) (hcm : cm.ty = .COMMA) (extra : FE → Bool)
    (e : FE) (hok : e.ok) (k : List Token) (hk : NoIll k) (hstop : StopR LOWEST k) :
    RParses LOWEST (showAt lp rp rbk rbr cm extra (LOWEST + 1) e ++ k) e.toExpr
      (lastTok (showAt lp rp rbk rbr cm extra (LOWEST + 1) e) :: k) :=
  Q_of_P lp rp rbk rbr cm extra hlp hrp hrbk hrbr hcm e hok (pratt_P lp rp rbk rbr cm extra hlp hrp hrbk hrbr hcm e hok)
    LOWEST k (by decide) hstop hk

/-- two printings of one tree that differ only in redundant parentheses parse to the same tree -/
theorem redundant_parentheses_irrelevant (lp rp rbk rbr cm : Token) (hlp : lp.ty = .LPAREN) (hrp : rp.ty = .RPAREN)
    (hrbk : rbk.ty = .RBRACKET) (hrbr : rbr.ty = .RBRACE) (hcm : cm.ty = .COMMA)
    (extra1 extra2 : FE → Bool) (e : FE) (hok : e.ok) (k : List Token) (hk : NoIll k) (hstop : StopR LOWEST k) :
    ∃ N, ∀ f, N ≤ f → ∀ p : PS,
      (parseExpression f LOWEST (p.withToks (showAt lp rp rbk rbr cm extra1 (LOWEST + 1) e ++ k))).1 =
      (parseExpression f LOWEST (p.withToks (showAt lp rp rbk rbr cm extra2 (LOWEST + 1) e ++ k))).1 := by
  obtain ⟨N1, h1⟩ := parse_print lp rp rbk rbr cm hlp hrp hrbk hrbr hcm extra1 e hok k hk hstop
  obtain ⟨N2, h2⟩ := parse_print lp rp rbk rbr cm hlp hrp hrbk hrbr hcm extra2 e hok k hk hstop
  exact ⟨max N1 N2, fun f hf p => by rw [h1 f (by omega) p, h2 f (by omega) p]⟩

/-- different trees print differently (with the minimal parentheses): both parse back to themselves -/
theorem print_injective (lp rp rbk rbr cm : Token) (hlp : lp.ty = .LPAREN) (hrp : rp.ty = .RPAREN)
    (hrbk : rbk.ty = .RBRACKET) (hrbr : rbr.ty = .RBRACE) (hcm : cm.ty = .COMMA)
    (e1 e2 : FE) (h1 : e1.ok) (h2 : e2.ok) (k : List Token) (hk : NoIll k) (hstop : StopR LOWEST k)
    (heq : showAt lp rp rbk rbr cm (fun _ => false) (LOWEST + 1) e1 = showAt lp rp rbk rbr cm (fun _ => false) (LOWEST + 1) e2) :
    e1.toExpr = e2.toExpr := by
  obtain ⟨N1, p1⟩ := parse_print lp rp rbk rbr cm hlp hrp hrbk hrbr hcm (fun _ => false) e1 h1 k hk hstop
  obtain ⟨N2, p2⟩ := parse_print lp rp rbk rbr cm hlp hrp hrbk hrbr hcm (fun _ => false) e2 h2 k hk hstop
  have a := p1 (max N1 N2) (by omega) default
  have c := p2 (max N1 N2) (by omega) default
  rw [heq] at a
  rw [a] at c
  exact (Prod.mk.inj c).1

end Full

end Tw
