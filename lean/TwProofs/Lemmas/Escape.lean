/-
  TwProofs.Lemmas.Escape — `html.EscapeString` + quote restoration = escaping of `<`, `>`, `&`
  only; `html.UnescapeString` is its inverse (C10).
-/
import TwModel

namespace Tw

/-- the escaping the statement describes: `<`, `>`, `&` become entities, nothing else changes -/
def esc3c (c : Byte) : Bytes :=
  if c == 38 then b "&amp;" else if c == 60 then b "&lt;" else if c == 62 then b "&gt;" else [c]

def esc3 (s : Bytes) : Bytes := s.flatMap esc3c

/-- `html.EscapeString` of one byte -/
def esc5c (c : Byte) : Bytes :=
  if c == 38 then b "&amp;" else if c == 39 then b "&#39;" else if c == 60 then b "&lt;"
  else if c == 62 then b "&gt;" else if c == 34 then b "&#34;" else [c]

theorem htmlEscape_eq (s : Bytes) : htmlEscape s = s.flatMap esc5c := rfl

/-- after the first restoration pass: double quotes are back -/
def esc4c (c : Byte) : Bytes :=
  if c == 38 then b "&amp;" else if c == 39 then b "&#39;" else if c == 60 then b "&lt;"
  else if c == 62 then b "&gt;" else [c]

theorem b_amp : b "&amp;" = [38, 97, 109, 112, 59] := by decide
theorem b_lt : b "&lt;" = [38, 108, 116, 59] := by decide
theorem b_gt : b "&gt;" = [38, 103, 116, 59] := by decide
theorem b_q34 : b "&#34;" = [38, 35, 51, 52, 59] := by decide
theorem b_q39 : b "&#39;" = [38, 35, 51, 57, 59] := by decide

/-- first pass: replacing "&#34;" in the escaped text restores exactly the double quotes -/
theorem restore34 (s : Bytes) :
    replaceGo [38, 35, 51, 52, 59] [34] 0 (s.flatMap esc5c) = s.flatMap esc4c := by
  induction s with
  | nil => rfl
  | cons c r ih =>
    simp only [List.flatMap_cons]
    by_cases h38 : c = 38
    · subst h38; simp [esc5c, esc4c, b_amp, replaceGo, isPrefixOf, ih]
    by_cases h39 : c = 39
    · subst h39; simp [esc5c, esc4c, b_q39, replaceGo, isPrefixOf, ih]
    by_cases h60 : c = 60
    · subst h60; simp [esc5c, esc4c, b_lt, replaceGo, isPrefixOf, ih]
    by_cases h62 : c = 62
    · subst h62; simp [esc5c, esc4c, b_gt, replaceGo, isPrefixOf, ih]
    by_cases h34 : c = 34
    · subst h34; simp [esc5c, esc4c, b_q34, replaceGo, isPrefixOf, ih]
    · simp [esc5c, esc4c, h38, h39, h60, h62, h34, replaceGo, isPrefixOf, ih]
      intro h; exact absurd h.symm h38

/-- second pass: replacing "&#39;" restores exactly the single quotes -/
theorem restore39 (s : Bytes) :
    replaceGo [38, 35, 51, 57, 59] [39] 0 (s.flatMap esc4c) = s.flatMap esc3c := by
  induction s with
  | nil => rfl
  | cons c r ih =>
    simp only [List.flatMap_cons]
    by_cases h38 : c = 38
    · subst h38; simp [esc4c, esc3c, b_amp, replaceGo, isPrefixOf, ih]
    by_cases h39 : c = 39
    · subst h39; simp [esc4c, esc3c, b_q39, replaceGo, isPrefixOf, ih]
    by_cases h60 : c = 60
    · subst h60; simp [esc4c, esc3c, b_lt, replaceGo, isPrefixOf, ih]
    by_cases h62 : c = 62
    · subst h62; simp [esc4c, esc3c, b_gt, replaceGo, isPrefixOf, ih]
    · simp [esc4c, esc3c, h38, h39, h60, h62, replaceGo, isPrefixOf, ih]
      intro h; exact absurd h.symm h38

/-- the value of a string literal is its text with `<`, `>`, `&` escaped and nothing else -/
theorem literalValue_eq_esc3 (s : Bytes) : literalValue s = esc3 s := by
  unfold literalValue replaceAll
  rw [b_q34, b_q39]
  simp only [List.isEmpty_cons, Bool.false_eq_true, if_false]
  rw [htmlEscape_eq, restore34, restore39]
  rfl

end Tw

namespace Tw

theorem unescapeAt_amp (rest : Bytes) : unescapeAt (97 :: 109 :: 112 :: 59 :: rest) = some ([38], 4) := by
  simp [unescapeAt, isAlnum, List.takeWhile, lookupEntity, entitySemi, b, utf8Bytes, encodeRune, List.find?]

theorem unescapeAt_lt (rest : Bytes) : unescapeAt (108 :: 116 :: 59 :: rest) = some ([60], 3) := by
  simp [unescapeAt, isAlnum, List.takeWhile, lookupEntity, entitySemi, b, utf8Bytes, encodeRune, List.find?]

theorem unescapeAt_gt (rest : Bytes) : unescapeAt (103 :: 116 :: 59 :: rest) = some ([62], 3) := by
  simp [unescapeAt, isAlnum, List.takeWhile, lookupEntity, entitySemi, b, utf8Bytes, encodeRune, List.find?]

/-- unescaping the escaped text gives back the original, byte for byte -/
theorem unescape_esc3 (s : Bytes) : htmlUnescape (esc3 s) = s := by
  unfold htmlUnescape esc3
  induction s with
  | nil => rfl
  | cons c r ih =>
    simp only [List.flatMap_cons]
    by_cases h38 : c = 38
    · subst h38
      simp only [esc3c, beq_self_eq_true, if_true, b_amp, List.cons_append, List.nil_append]
      simp only [unescapeGo, beq_self_eq_true, if_true, unescapeAt_amp, List.cons_append, List.nil_append, ih]
    by_cases h60 : c = 60
    · subst h60
      have e : esc3c 60 = [38, 108, 116, 59] := by decide
      rw [e]
      simp only [List.cons_append, List.nil_append, unescapeGo, beq_self_eq_true, if_true, unescapeAt_lt, ih]
    by_cases h62 : c = 62
    · subst h62
      have e : esc3c 62 = [38, 103, 116, 59] := by decide
      rw [e]
      simp only [List.cons_append, List.nil_append, unescapeGo, beq_self_eq_true, if_true, unescapeAt_gt, ih]
    · have hne : (c == 38) = false := by simpa using h38
      simp [esc3c, h38, h60, h62, unescapeGo, hne, ih]

/-- no raw angle bracket survives -/
theorem esc3_no_angle (s : Bytes) : ∀ x ∈ esc3 s, x ≠ 60 ∧ x ≠ 62 := by
  intro x hx
  unfold esc3 at hx
  rw [List.mem_flatMap] at hx
  obtain ⟨c, _, hc⟩ := hx
  unfold esc3c at hc
  split at hc
  · rw [b_amp] at hc; simp at hc; rcases hc with h | h | h | h | h <;> subst h <;> decide
  split at hc
  · rw [b_lt] at hc; simp at hc; rcases hc with h | h | h | h <;> subst h <;> decide
  split at hc
  · rw [b_gt] at hc; simp at hc; rcases hc with h | h | h | h <;> subst h <;> decide
  · rename_i h1 h2 h3
    simp at hc; subst hc
    exact ⟨by simpa using h2, by simpa using h3⟩

/-- quotes stay as written: as many double and single quotes after escaping as before -/
theorem esc3_quotes (s : Bytes) : (esc3 s).count 34 = s.count 34 ∧ (esc3 s).count 39 = s.count 39 := by
  unfold esc3
  induction s with
  | nil => simp
  | cons c r ih =>
    simp only [List.flatMap_cons, List.count_append, ih.1, ih.2, List.count_cons]
    unfold esc3c
    split
    · rename_i h; have : c = 38 := by simpa using h
      subst this; rw [b_amp]; simp
    split
    · rename_i _ h; have : c = 60 := by simpa using h
      subst this; rw [b_lt]; simp
    split
    · rename_i _ _ h; have : c = 62 := by simpa using h
      subst this; rw [b_gt]; simp
    · simp [List.count_cons]; omega

/-- escaping distributes over concatenation (so concatenated literals stay escaped) -/
theorem esc3_append (s t : Bytes) : esc3 (s ++ t) = esc3 s ++ esc3 t := by
  simp [esc3, List.flatMap_append]

end Tw
