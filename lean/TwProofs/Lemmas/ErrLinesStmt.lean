/-
  TwProofs.Lemmas.ErrLinesStmt — every error raised while a statement is evaluated carries the
  line of a token of that statement or of what the loader attached to the page (the layout, the
  inserts, the component files): the evaluator never invents or defaults a line (C13).
-/
import TwProofs.Lemmas.ErrLines
import TwProofs.Lemmas.EvalStep
namespace Tw

def optL {α} (f : α → List Nat) : Option α → List Nat
  | none => []
  | some a => f a

mutual
def Stmt.lines : Stmt → List Nat
  | .bad => []
  | .html t => [t.errorLine]
  | .expr t e => t.errorLine :: e.lines
  | .assign t _ e => t.errorLine :: e.lines
  | .ifS t c cons alts alt => t.errorLine :: (c.lines ++ (Stmt.linesL cons ++ (Stmt.linesA alts ++ Stmt.linesO alt)))
  | .forS t init cnd post body alt =>
    t.errorLine :: (Stmt.linesOS init ++ (optL Expr.lines cnd ++ (Stmt.linesOS post ++ (Stmt.linesL body ++ Stmt.linesO alt))))
  | .eachS t _ arr body alt => t.errorLine :: (arr.lines ++ (Stmt.linesL body ++ Stmt.linesO alt))
  | .use t _ => [t.errorLine]
  | .reserve t _ _ => [t.errorLine]
  | .insert t _ arg block => t.errorLine :: (optL Expr.lines arg ++ Stmt.linesO block)
  | .breakIf t c => t.errorLine :: c.lines
  | .continueIf t c => t.errorLine :: c.lines
  | .component t _ arg _ => t.errorLine :: optL Expr.linesP arg
  | .slot t _ body => t.errorLine :: Stmt.linesO body
  | .dump t args => t.errorLine :: Expr.linesL args
  | .brk t => [t.errorLine]
  | .cont t => [t.errorLine]
def Stmt.linesL : List Stmt → List Nat
  | [] => []
  | s :: r => s.lines ++ Stmt.linesL r
def Stmt.linesO : Option (List Stmt) → List Nat
  | none => []
  | some ss => Stmt.linesL ss
def Stmt.linesOS : Option Stmt → List Nat
  | none => []
  | some s => s.lines
def Stmt.linesA : List (Expr × List Stmt) → List Nat
  | [] => []
  | (e, ss) :: r => e.lines ++ (Stmt.linesL ss ++ Stmt.linesA r)
end

def InsertDef.lines (i : InsertDef) : List Nat := i.tok.errorLine :: (optL Expr.lines i.arg ++ Stmt.linesO i.block)

/-- the lines of everything the loader attached to the page -/
def Ctx.lines (c : Ctx) : List Nat :=
  Stmt.linesO c.layout ++ (c.inserts.flatMap (fun p => p.2.lines) ++ c.comps.flatMap (fun p => Stmt.linesL p.2))

theorem EL.bind {α β} {r : Res α} {f : α → Res β} {L : List Nat} (h : EL r L) (hf : ∀ a, EL (f a) L) : EL (r.bind f) L := by
  cases r with
  | ok a => exact hf a
  | err e l as => exact fun c ln a he => h c ln a (by cases he; rfl)
  | panic w => exact EL.panic _ _
  | oof => exact EL.oof _

theorem lookupNat_mem' {α} (m : List (Nat × α)) (k : Nat) (v : α) (h : lookupNat m k = some v) : ∃ p ∈ m, p.2 = v := by
  unfold lookupNat at h
  cases hf : m.find? (fun p => p.1 == k) with
  | none => simp [hf] at h
  | some p => simp [hf] at h; exact ⟨p, List.mem_of_find?_eq_some hf, h⟩

theorem el_setVar (env : Env) (k : Bytes) (v : Val) (line : Nat) : EL (setVar env k v line) [line] := by
  unfold setVar; split
  · exact EL.ok _ _
  · exact EL.err _ _ _ _ (by simp)

theorem el_bindArgs : ∀ (kvs : List (Bytes × Val)) (env : Env) (line : Nat), EL (bindArgs env kvs line) [line]
  | [], _, _ => EL.ok _ _
  | (k, v) :: r, env, line => by
    unfold bindArgs
    split
    · exact el_bindArgs r _ line
    · exact EL.err _ _ _ _ (by simp)

theorem el_condTruth {r : Res Val} {L : List Nat} (h : EL r L) : EL (condTruth r) L := h.bind fun _ => EL.ok _ _

/-- the errors of the functions `k` carry lines of their arguments or of the context -/
structure KEL (k : Callees) : Prop where
  expr : ∀ c env e, EL (k.expr c env e) e.lines
  exprs : ∀ c env es, EL (k.exprs c env es) (Expr.linesL es)
  pairs : ∀ c env ps, EL (k.pairs c env ps) (Expr.linesP ps)
  stmt : ∀ c env s, EL (k.stmt c env s) (s.lines ++ c.lines)
  elseIfs : ∀ c env a b, EL (k.elseIfs c env a b) (Stmt.linesA a ++ (Stmt.linesO b ++ c.lines))
  block : ∀ c env ss, EL (k.block c env ss) (Stmt.linesL ss ++ c.lines)
  prog : ∀ c env ss acc, EL (k.prog c env ss acc) (Stmt.linesL ss ++ c.lines)
  forL : ∀ c env t i cn p b acc, EL (k.forL c env t i cn p b acc)
    (t.errorLine :: (Stmt.linesOS i ++ (optL Expr.lines cn ++ (Stmt.linesOS p ++ (Stmt.linesL b ++ c.lines)))))
  eachL : ∀ c env t v b xs i n acc, EL (k.eachL c env t v b xs i n acc) (t.errorLine :: (Stmt.linesL b ++ c.lines))

/-- closes `x ∈ …` goals from a hypothesis `hx : x ∈ …` after the list functions are unfolded -/
macro "lines_mem" : tactic =>
  `(tactic| (intro x hx
             simp only [Stmt.lines, Stmt.linesL, Stmt.linesO, Stmt.linesOS, Stmt.linesA, optL, List.mem_append, List.mem_cons,
               List.mem_singleton, List.not_mem_nil, or_false, false_or] at hx ⊢
             grind))

theorem ctx_layout_lines (c : Ctx) (prog : List Stmt) (h : c.layout = some prog) : ∀ x ∈ Stmt.linesL prog, x ∈ c.lines := by
  intro x hx
  unfold Ctx.lines
  rw [h]
  simp only [Stmt.linesO, List.mem_append]
  exact Or.inl hx

theorem ctx_insert_lines (c : Ctx) (rid : Nat) (ins : InsertDef) (h : lookupNat c.inserts rid = some ins) :
    ∀ x ∈ ins.lines, x ∈ c.lines := by
  intro x hx
  obtain ⟨p, hp, hp2⟩ := lookupNat_mem' _ _ _ h
  unfold Ctx.lines
  simp only [List.mem_append, List.mem_flatMap]
  exact Or.inr (Or.inl ⟨p, hp, by rw [hp2]; exact hx⟩)

theorem ctx_comp_lines (c : Ctx) (cid : Nat) (prog : List Stmt) (h : lookupNat c.comps cid = some prog) :
    ∀ x ∈ Stmt.linesL prog, x ∈ c.lines := by
  intro x hx
  obtain ⟨p, hp, hp2⟩ := lookupNat_mem' _ _ _ h
  unfold Ctx.lines
  simp only [List.mem_append, List.mem_flatMap]
  exact Or.inr (Or.inr ⟨p, hp, by rw [hp2]; exact hx⟩)

theorem linesP_sort (pairs : List (Bytes × Expr)) : ∀ x ∈ Expr.linesP (sortByKey pairs), x ∈ Expr.linesP pairs := by
  intro x hx
  rw [mem_linesP] at hx ⊢
  obtain ⟨p, hp, hl⟩ := hx
  exact ⟨p, (sortByKey_perm pairs).subset hp, hl⟩

theorem stmtBody_el {k : Callees} (h : KEL k) (c : Ctx) (env : Env) (s : Stmt) : EL (stmtBody k c env s) (s.lines ++ c.lines) := by
  cases s with
  | bad => exact EL.panic _ _
  | html t => exact EL.ok _ _
  | expr t e => exact ((h.expr c env e).mono (by lines_mem)).bind fun _ => EL.ok _ _
  | assign t name e =>
    exact ((h.expr c env e).mono (by lines_mem)).bind fun _ =>
      ((el_setVar _ _ _ _).mono (by lines_mem)).bind fun _ => EL.ok _ _
  | ifS t cnd cons alts alt =>
    refine ((h.expr c env cnd).mono (by lines_mem)).bind fun v => ?_
    try dsimp only
    split
    · exact ((h.block _ _ cons).mono (by lines_mem)).bind fun _ => EL.ok _ _
    · exact (h.elseIfs _ _ alts alt).mono (by lines_mem)
  | forS t init cnd post body alt =>
    simp only [stmtBody]
    refine EL.bind ?_ fun env1 => EL.bind ?_ fun entry => ?_
    · cases init with
      | none => exact EL.ok _ _
      | some i => exact ((h.stmt _ _ i).mono (by lines_mem)).bind fun _ => EL.ok _ _
    · cases cnd with
      | none => exact EL.ok _ _
      | some ce => exact el_condTruth ((h.expr _ _ ce).mono (by lines_mem))
    · split
      · exact ((h.forL _ _ t init cnd post body _).mono (by lines_mem)).bind fun _ => EL.ok _ _
      · cases alt with
        | none => exact EL.ok _ _
        | some ab => exact ((h.block _ _ ab).mono (by lines_mem)).bind fun _ => EL.ok _ _
  | eachS t var arrE body alt =>
    simp only [stmtBody]
    refine ((h.expr _ _ arrE).mono (by lines_mem)).bind fun av => ?_
    cases av with
    | arr xs =>
      try dsimp only
      split
      · cases alt with
        | none => exact EL.ok _ _
        | some ab => exact ((h.block _ _ ab).mono (by lines_mem)).bind fun _ => EL.ok _ _
      · exact ((h.eachL _ _ t var body xs _ _ _).mono (by lines_mem)).bind fun _ => EL.ok _ _
    | _ => exact EL.err _ _ _ _ (by simp [Stmt.lines])
  | use t name =>
    simp only [stmtBody]
    cases hl : c.layout with
    | none => exact EL.err _ _ _ _ (by simp [Stmt.lines])
    | some prog =>
      try dsimp only
      split
      · exact EL.err _ _ _ _ (by simp [Stmt.lines])
      · refine ((h.prog _ _ prog _).mono ?_).bind fun _ => EL.ok _ _
        intro x hx
        rcases List.mem_append.mp hx with h1 | h1
        · exact List.mem_append.mpr (Or.inr (ctx_layout_lines c prog hl x h1))
        · exact List.mem_append.mpr (Or.inr h1)
  | reserve t name rid =>
    simp only [stmtBody]
    cases hl : lookupNat c.inserts rid with
    | none => exact EL.ok _ _
    | some ins =>
      have hin := ctx_insert_lines c rid ins hl
      try dsimp only
      cases hb : ins.block with
      | some blk =>
        refine ((h.block _ _ blk).mono ?_).bind fun _ => EL.ok _ _
        intro x hx
        rcases List.mem_append.mp hx with h1 | h1
        · exact List.mem_append.mpr (Or.inr (hin x (by simp [InsertDef.lines, hb, Stmt.linesO, h1])))
        · exact List.mem_append.mpr (Or.inr h1)
      | none =>
        try dsimp only
        cases ha : ins.arg with
        | none => exact EL.err _ _ _ _ (List.mem_append.mpr (Or.inr (hin _ (by simp [InsertDef.lines]))))
        | some ae =>
          refine ((h.expr _ _ ae).mono ?_).bind fun _ => EL.ok _ _
          intro x hx
          exact List.mem_append.mpr (Or.inr (hin x (by simp [InsertDef.lines, ha, optL, hx])))
  | insert t name arg block => exact EL.ok _ _
  | breakIf t cnd => exact ((h.expr c env cnd).mono (by lines_mem)).bind fun _ => EL.ok _ _
  | continueIf t cnd => exact ((h.expr c env cnd).mono (by lines_mem)).bind fun _ => EL.ok _ _
  | component t name arg cid =>
    simp only [stmtBody]
    cases hl : lookupNat c.comps cid with
    | none => exact EL.err _ _ _ _ (by simp [Stmt.lines])
    | some prog =>
      have hcp := ctx_comp_lines c cid prog hl
      try dsimp only
      refine EL.bind ?_ fun kvs => EL.bind ((el_bindArgs _ _ _).mono (by lines_mem)) fun env1 =>
        EL.bind ((h.prog _ _ prog _).mono ?_) fun _ => EL.ok _ _
      · cases arg with
        | none => exact EL.ok _ _
        | some pairs =>
          refine (h.pairs _ _ (sortByKey pairs)).mono ?_
          intro x hx
          have := linesP_sort pairs x hx
          simp [Stmt.lines, optL, this]
      · intro x hx
        rcases List.mem_append.mp hx with h1 | h1
        · exact List.mem_append.mpr (Or.inr (hcp x h1))
        · exact List.mem_append.mpr (Or.inr h1)
  | slot t name body =>
    simp only [stmtBody]
    cases body with
    | none => exact EL.ok _ _
    | some blk => exact ((h.block _ _ blk).mono (by lines_mem)).bind fun _ => EL.ok _ _
  | dump t args =>
    simp only [stmtBody]
    have := h.exprs c env args
    cases he : k.exprs c env args with
    | ok vs => exact EL.ok _ _
    | err a l as => rw [he] at this; exact EL.err _ _ _ _ (by simp [Stmt.lines, this a l as rfl])
    | panic w => exact EL.panic _ _
    | oof => exact EL.oof _
  | brk t => exact EL.ok _ _
  | cont t => exact EL.ok _ _

theorem elseIfsBody_el {k : Callees} (h : KEL k) (c : Ctx) (env : Env) (alts : List (Expr × List Stmt)) (alt : Option (List Stmt)) :
    EL (elseIfsBody k c env alts alt) (Stmt.linesA alts ++ (Stmt.linesO alt ++ c.lines)) := by
  cases alts with
  | nil =>
    cases alt with
    | none => exact EL.ok _ _
    | some ab => exact ((h.block _ _ ab).mono (by lines_mem)).bind fun _ => EL.ok _ _
  | cons p rest =>
    obtain ⟨ce, body⟩ := p
    refine ((h.expr _ _ ce).mono (by lines_mem)).bind fun v => ?_
    try dsimp only
    split
    · exact ((h.block _ _ body).mono (by lines_mem)).bind fun _ => EL.ok _ _
    · exact (h.elseIfs _ _ rest alt).mono (by lines_mem)

theorem blockBody_el {k : Callees} (h : KEL k) (c : Ctx) (env : Env) (ss : List Stmt) :
    EL (blockBody k c env ss) (Stmt.linesL ss ++ c.lines) := by
  cases ss with
  | nil => exact EL.ok _ _
  | cons s r =>
    refine ((h.stmt _ _ s).mono (by lines_mem)).bind fun r1 => ?_
    try dsimp only
    split
    · exact EL.ok _ _
    · exact ((h.block _ _ r).mono (by lines_mem)).bind fun _ => EL.ok _ _

theorem progBody_el {k : Callees} (h : KEL k) (c : Ctx) (env : Env) (ss : List Stmt) (acc : Bytes) :
    EL (progBody k c env ss acc) (Stmt.linesL ss ++ c.lines) := by
  cases ss with
  | nil => exact EL.ok _ _
  | cons s r =>
    exact ((h.stmt _ _ s).mono (by lines_mem)).bind fun _ => (h.prog _ _ r _).mono (by lines_mem)

theorem forBody_el {k : Callees} (h : KEL k) (c : Ctx) (env : Env) (t : Token) (init : Option Stmt) (cnd : Option Expr)
    (post : Option Stmt) (body : List Stmt) (acc : Bytes) :
    EL (forBody k c env t init cnd post body acc)
      (t.errorLine :: (Stmt.linesOS init ++ (optL Expr.lines cnd ++ (Stmt.linesOS post ++ (Stmt.linesL body ++ c.lines))))) := by
  simp only [forBody]
  refine EL.bind ?_ fun go => ?_
  · cases cnd with
    | none => exact EL.ok _ _
    | some ce => exact el_condTruth ((h.expr _ _ ce).mono (by lines_mem))
  · split
    · exact EL.ok _ _
    · refine ((h.block _ _ body).mono (by lines_mem)).bind fun r => ?_
      try dsimp only
      split
      · exact EL.ok _ _
      · cases post with
        | none => exact h.forL _ _ _ _ _ _ _ _
        | some ps =>
          cases ps with
          | expr t2 pe =>
            refine ((h.expr _ _ pe).mono (by lines_mem)).bind fun pv => ?_
            cases init with
            | none => exact h.forL _ _ _ _ _ _ _ _
            | some i =>
              cases i with
              | assign t3 name e3 =>
                exact ((el_setVar _ _ _ _).mono (by lines_mem)).bind fun _ => h.forL _ _ _ _ _ _ _ _
              | _ => exact h.forL _ _ _ _ _ _ _ _
          | _ => exact ((h.stmt _ _ _).mono (by lines_mem)).bind fun _ => h.forL _ _ _ _ _ _ _ _

theorem eachBody_el {k : Callees} (h : KEL k) (c : Ctx) (env : Env) (t : Token) (var : Bytes) (body : List Stmt)
    (xs : List Val) (i n : Nat) (acc : Bytes) :
    EL (eachBody k c env t var body xs i n acc) (t.errorLine :: (Stmt.linesL body ++ c.lines)) := by
  cases xs with
  | nil => exact EL.ok _ _
  | cons x rest =>
    refine ((el_setVar _ _ _ _).mono (by lines_mem)).bind fun env1 => ((h.block _ _ body).mono (by lines_mem)).bind fun r => ?_
    try dsimp only
    split
    · exact EL.ok _ _
    · exact h.eachL _ _ _ _ _ _ _ _ _

/-- at every fuel: the evaluator's errors carry lines of the program or of the context -/
theorem calleesAt_el : ∀ n : Nat, KEL (calleesAt n) := by
  intro n
  induction n with
  | zero =>
    obtain ⟨e1, e2, e3⟩ := el_expr 0
    exact ⟨e1, e2, e3, fun _ _ _ => EL.oof _, fun _ _ _ _ => EL.oof _, fun _ _ _ => EL.oof _, fun _ _ _ _ => EL.oof _,
      fun _ _ _ _ _ _ _ _ => EL.oof _, fun _ _ _ _ _ _ _ _ _ => EL.oof _⟩
  | succ n ih =>
    obtain ⟨e1, e2, e3⟩ := el_expr (n + 1)
    exact ⟨e1, e2, e3,
      fun c env s => stmtBody_el ih c env s,
      fun c env a b => elseIfsBody_el ih c env a b,
      fun c env ss => blockBody_el ih c env ss,
      fun c env ss acc => progBody_el ih c env ss acc,
      fun c env t i cn p b acc => forBody_el ih c env t i cn p b acc,
      fun c env t v b xs i n acc => eachBody_el ih c env t v b xs i n acc⟩

end Tw
