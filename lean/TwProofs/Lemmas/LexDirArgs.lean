/-
  TwProofs.Lemmas.LexDirArgs — a directive with one or two string literals in its argument list
  (`@use("x")`, `@reserve("x")`, `@insert("x", "y")`), lexed from text mode back to text mode.
-/
import TwProofs.Lemmas.GenItems
namespace Tw
open Lx

def kwUse : Bytes := [64, 117, 115, 101]
def kwReserve : Bytes := [64, 114, 101, 115, 101, 114, 118, 101]
def kwInsert : Bytes := [64, 105, 110, 115, 101, 114, 116]

theorem dirScan_use (x : Bytes) : dirScan [] .ILLEGAL (kwUse ++ x) = (kwUse, .USE) := by
  have h1 : lookupDirective [64] = .ILLEGAL := by decide
  have h2 : lookupDirective [64, 117] = .ILLEGAL := by decide
  have h3 : lookupDirective [64, 117, 115] = .ILLEGAL := by decide
  have h4 : lookupDirective [64, 117, 115, 101] = .USE := by decide
  have l1 : isLetterWord 64 = true := by decide
  have l2 : isLetterWord 117 = true := by decide
  have l3 : isLetterWord 115 = true := by decide
  have l4 : isLetterWord 101 = true := by decide
  simp only [kwUse, List.cons_append, List.nil_append, dirScan, l1, l2, l3, l4, if_true, h1, h2, h3, h4]
  simp [isPotentiallyLong]

theorem dirScan_reserve (x : Bytes) : dirScan [] .ILLEGAL (kwReserve ++ x) = (kwReserve, .RESERVE) := by
  have h1 : lookupDirective [64] = .ILLEGAL := by decide
  have h2 : lookupDirective [64, 114] = .ILLEGAL := by decide
  have h3 : lookupDirective [64, 114, 101] = .ILLEGAL := by decide
  have h4 : lookupDirective [64, 114, 101, 115] = .ILLEGAL := by decide
  have h5 : lookupDirective [64, 114, 101, 115, 101] = .ILLEGAL := by decide
  have h6 : lookupDirective [64, 114, 101, 115, 101, 114] = .ILLEGAL := by decide
  have h7 : lookupDirective [64, 114, 101, 115, 101, 114, 118] = .ILLEGAL := by decide
  have h8 : lookupDirective [64, 114, 101, 115, 101, 114, 118, 101] = .RESERVE := by decide
  have l1 : isLetterWord 64 = true := by decide
  have l2 : isLetterWord 114 = true := by decide
  have l3 : isLetterWord 101 = true := by decide
  have l4 : isLetterWord 115 = true := by decide
  have l5 : isLetterWord 118 = true := by decide
  simp only [kwReserve, List.cons_append, List.nil_append, dirScan, l1, l2, l3, l4, l5, if_true, h1, h2, h3, h4, h5, h6, h7, h8]
  simp [isPotentiallyLong]

theorem dirScan_insert (x : Bytes) : dirScan [] .ILLEGAL (kwInsert ++ x) = (kwInsert, .INSERT) := by
  have h1 : lookupDirective [64] = .ILLEGAL := by decide
  have h2 : lookupDirective [64, 105] = .ILLEGAL := by decide
  have h3 : lookupDirective [64, 105, 110] = .ILLEGAL := by decide
  have h4 : lookupDirective [64, 105, 110, 115] = .ILLEGAL := by decide
  have h5 : lookupDirective [64, 105, 110, 115, 101] = .ILLEGAL := by decide
  have h6 : lookupDirective [64, 105, 110, 115, 101, 114] = .ILLEGAL := by decide
  have h7 : lookupDirective [64, 105, 110, 115, 101, 114, 116] = .INSERT := by decide
  have l1 : isLetterWord 64 = true := by decide
  have l2 : isLetterWord 105 = true := by decide
  have l3 : isLetterWord 110 = true := by decide
  have l4 : isLetterWord 115 = true := by decide
  have l5 : isLetterWord 101 = true := by decide
  have l6 : isLetterWord 114 = true := by decide
  have l7 : isLetterWord 116 = true := by decide
  simp only [kwInsert, List.cons_append, List.nil_append, dirScan, l1, l2, l3, l4, l5, l6, l7, if_true, h1, h2, h3, h4, h5, h6, h7]
  simp [isPotentiallyLong]

/-- a string literal: quote, text without that quote and without backslash, quote -/
def strLit (q : Byte) (c : Bytes) : Bytes := q :: (c ++ [q])

/-- what a directive keyword must satisfy to open an argument list -/
structure DirKw (kw : Bytes) (ty : TT) : Prop where
  hat : kw.headD 0 = 64
  len1 : 1 ≤ kw.length
  len2 : kw.length ≤ longestDirective
  scan : ∀ x, dirScan [] .ILLEGAL (kw ++ x) = (kw, ty)
  ty1 : ty ≠ .ILLEGAL
  lk : lookupDirective kw ≠ .ILLEGAL
  ty2 : ty ≠ .EOF
  paren : tokensWithoutParens.contains ty = false

theorem dirKw_use : DirKw kwUse .USE := ⟨rfl, by decide, by decide, dirScan_use, by decide, by decide, by decide, by decide⟩
theorem dirKw_reserve : DirKw kwReserve .RESERVE := ⟨rfl, by decide, by decide, dirScan_reserve, by decide, by decide, by decide, by decide⟩
theorem dirKw_insert : DirKw kwInsert .INSERT := ⟨rfl, by decide, by decide, dirScan_insert, by decide, by decide, by decide, by decide⟩

/-- the keyword and "(" -/
theorem lex_dir_open (kw : Bytes) (ty : TT) (hk : DirKw kw ty) (s : Lx) (x : Bytes) (hh : s.isHTML = true) (hprev : s.prev ≠ 92)
    (hp0 : s.parens = 0) (hr : s.rest = kw ++ (40 :: x)) :
    ∃ t1 t2 s2, Run s [t1, t2] s2 ∧ key t1 = (ty, kw) ∧ key t2 = (.LPAREN, [40]) ∧ s2.rest = x ∧
      mode s2 = (false, true, 1, s.braces, s.panicked) := by
  obtain ⟨t1, s1, st1, k1, ne1, r1, h1, d1, p1, b1, pa1, _⟩ := lex_keyword s kw _ ty hh hprev hr hk.hat hk.len1 hk.len2
    (hk.scan _) hk.ty1 hk.lk hk.ty2
  have h1' : s1.isHTML = false := by rw [h1, hk.paren]; rfl
  have d1' : s1.isDirective = true := by rw [d1, hk.paren]; rfl
  obtain ⟨t2, s2, st2, k2, ne2, r2, _, m2⟩ := code_lparen_step s1 x h1' d1' r1
  refine ⟨t1, t2, s2, Run.cons _ _ _ _ _ st1 ne1 (Run.cons _ _ _ _ _ st2 ne2 (Run.nil _)), k1, k2, r2, ?_⟩
  rw [m2, p1, hp0, b1, pa1]
  rfl

/-- **`@kw("text")`** -/
theorem lex_dir1 (kw : Bytes) (ty : TT) (hk : DirKw kw ty) (s : Lx) (g1 : Bytes) (q : Byte) (c g2 tl : Bytes)
    (hh : s.isHTML = true) (hprev : s.prev ≠ 92) (hp0 : s.parens = 0) (hg1 : allWs g1) (hg2 : allWs g2)
    (hq : q = 34 ∨ q = 39) (hp : PlainStr q c)
    (hr : s.rest = kw ++ (40 :: (g1 ++ (strLit q c ++ (g2 ++ (41 :: tl)))))) :
    ∃ t1 t2 t3 t4 s4, Run s [t1, t2, t3, t4] s4 ∧ key t1 = (ty, kw) ∧ key t2 = (.LPAREN, [40]) ∧ key t3 = (.STR, c) ∧
      key t4 = (.RPAREN, [41]) ∧ s4.rest = tl ∧ s4.prev = 41 ∧ mode s4 = (true, false, 0, s.braces, s.panicked) := by
  obtain ⟨t1, t2, s2, run2, k1, k2, r2, m2⟩ := lex_dir_open kw ty hk s _ hh hprev hp0 hr
  have h2 : s2.isHTML = false := by have := congrArg (·.1) m2; simpa [mode] using this
  obtain ⟨t3, s3, st3, k3, ne3, a3⟩ := code_str_step s2 g1 q c (g2 ++ (41 :: tl)) h2 hg1 hq hp (by rw [r2]; simp [strLit])
  have m3 : mode s3 = (false, true, 1, s.braces, s.panicked) := by rw [a3.md, m2]
  have h3 : s3.isHTML = false := by have := congrArg (·.1) m3; simpa [mode] using this
  have d3 : s3.isDirective = true := by have := congrArg (·.2.1) m3; simpa [mode] using this
  have p3 : s3.parens = 1 := by have := congrArg (·.2.2.1) m3; simpa [mode] using this
  obtain ⟨t4, s4, st4, k4, ne4, r4, pv4, m4⟩ := code_rparen_close s3 g2 tl h3 d3 p3 hg2 a3.rest
  refine ⟨t1, t2, t3, t4, s4, ?_, k1, k2, k3, k4, r4, pv4, ?_⟩
  · have := run_snoc (run_snoc run2 st3 ne3) st4 ne4
    simpa using this
  · rw [m4]
    have e1 := congrArg (·.2.2.2.1) m3
    have e2 := congrArg (·.2.2.2.2) m3
    simp only [mode] at e1 e2
    rw [e1, e2]

/-- **`@kw("text", "text")`** -/
theorem lex_dir2 (kw : Bytes) (ty : TT) (hk : DirKw kw ty) (s : Lx) (g1 : Bytes) (q1 : Byte) (c1 g2 g3 : Bytes) (q2 : Byte) (c2 g4 tl : Bytes)
    (hh : s.isHTML = true) (hprev : s.prev ≠ 92) (hp0 : s.parens = 0) (hg1 : allWs g1) (hg2 : allWs g2) (hg3 : allWs g3) (hg4 : allWs g4)
    (hq1 : q1 = 34 ∨ q1 = 39) (hp1 : PlainStr q1 c1) (hq2 : q2 = 34 ∨ q2 = 39) (hp2 : PlainStr q2 c2)
    (hr : s.rest = kw ++ (40 :: (g1 ++ (strLit q1 c1 ++ (g2 ++ (44 :: (g3 ++ (strLit q2 c2 ++ (g4 ++ (41 :: tl)))))))))) :
    ∃ t1 t2 t3 t4 t5 t6 s6, Run s [t1, t2, t3, t4, t5, t6] s6 ∧ key t1 = (ty, kw) ∧ key t2 = (.LPAREN, [40]) ∧ key t3 = (.STR, c1) ∧
      key t4 = (.COMMA, [44]) ∧ key t5 = (.STR, c2) ∧ key t6 = (.RPAREN, [41]) ∧ s6.rest = tl ∧ s6.prev = 41 ∧
      mode s6 = (true, false, 0, s.braces, s.panicked) := by
  obtain ⟨t1, t2, s2, run2, k1, k2, r2, m2⟩ := lex_dir_open kw ty hk s _ hh hprev hp0 hr
  have h2 : s2.isHTML = false := by have := congrArg (·.1) m2; simpa [mode] using this
  obtain ⟨t3, s3, st3, k3, ne3, a3⟩ := code_str_step s2 g1 q1 c1 (g2 ++ (44 :: (g3 ++ (strLit q2 c2 ++ (g4 ++ (41 :: tl)))))) h2 hg1 hq1 hp1
    (by rw [r2]; simp [strLit])
  have m3 : mode s3 = (false, true, 1, s.braces, s.panicked) := by rw [a3.md, m2]
  have h3 : s3.isHTML = false := by have := congrArg (·.1) m3; simpa [mode] using this
  obtain ⟨t4, s4, st4, k4, ne4, a4⟩ := code_comma_step s3 g2 _ h3 hg2 a3.rest
  have m4 : mode s4 = (false, true, 1, s.braces, s.panicked) := by rw [a4.md, m3]
  have h4 : s4.isHTML = false := by have := congrArg (·.1) m4; simpa [mode] using this
  obtain ⟨t5, s5, st5, k5, ne5, a5⟩ := code_str_step s4 g3 q2 c2 (g4 ++ (41 :: tl)) h4 hg3 hq2 hp2 (by rw [a4.rest]; simp [strLit])
  have m5 : mode s5 = (false, true, 1, s.braces, s.panicked) := by rw [a5.md, m4]
  have h5 : s5.isHTML = false := by have := congrArg (·.1) m5; simpa [mode] using this
  have d5 : s5.isDirective = true := by have := congrArg (·.2.1) m5; simpa [mode] using this
  have p5 : s5.parens = 1 := by have := congrArg (·.2.2.1) m5; simpa [mode] using this
  obtain ⟨t6, s6, st6, k6, ne6, r6, pv6, m6⟩ := code_rparen_close s5 g4 tl h5 d5 p5 hg4 a5.rest
  refine ⟨t1, t2, t3, t4, t5, t6, s6, ?_, k1, k2, k3, k4, k5, k6, r6, pv6, ?_⟩
  · have := run_snoc (run_snoc (run_snoc (run_snoc run2 st3 ne3) st4 ne4) st5 ne5) st6 ne6
    simpa using this
  · rw [m6]
    have e1 := congrArg (·.2.2.2.1) m5
    have e2 := congrArg (·.2.2.2.2) m5
    simp only [mode] at e1 e2
    rw [e1, e2]

/-! ### as pieces of code -/

/-- `@kw(g1 "c" g2)` -/
def dir1Code (kw : Bytes) (ty : TT) (g1 : Bytes) (q : Byte) (c g2 : Bytes) : Code :=
  { src := kw ++ (40 :: (g1 ++ (strLit q c ++ (g2 ++ [41])))), keys := [(ty, kw), (.LPAREN, [40]), (.STR, c), (.RPAREN, [41])] }

/-- `@kw(g1 "c1" g2 , g3 "c2" g4)` -/
def dir2Code (kw : Bytes) (ty : TT) (g1 : Bytes) (q1 : Byte) (c1 g2 g3 : Bytes) (q2 : Byte) (c2 g4 : Bytes) : Code :=
  { src := kw ++ (40 :: (g1 ++ (strLit q1 c1 ++ (g2 ++ (44 :: (g3 ++ (strLit q2 c2 ++ (g4 ++ [41])))))))),
    keys := [(ty, kw), (.LPAREN, [40]), (.STR, c1), (.COMMA, [44]), (.STR, c2), (.RPAREN, [41])] }

theorem mode_fields {s : Lx} {h d : Bool} {p b : Int} {pn : Bool} (m : mode s = (h, d, p, b, pn)) :
    s.isHTML = h ∧ s.isDirective = d ∧ s.parens = p ∧ s.braces = b ∧ s.panicked = pn := by
  simp only [mode, Prod.mk.injEq] at m
  exact m

theorem dir1Code_ok (kw : Bytes) (ty : TT) (hk : DirKw kw ty) (g1 : Bytes) (q : Byte) (c g2 : Bytes) (hg1 : allWs g1) (hg2 : allWs g2)
    (hq : q = 34 ∨ q = 39) (hp : PlainStr q c) : (dir1Code kw ty g1 q c g2).OK := by
  refine ⟨?_, ?_, ?_⟩
  · intro tl
    have := stops_kw kw ((40 :: (g1 ++ (strLit q c ++ (g2 ++ [41])))) ++ tl) hk.hat hk.lk hk.len1 hk.len2
    simpa [dir1Code, List.append_assoc] using this
  · have := hk.len1
    simp [dir1Code, strLit]; omega
  · intro s tl hr hh hb hpa hd hpv
    obtain ⟨t1, t2, t3, t4, s4, run, k1, k2, k3, k4, r4, pv4, m4⟩ := lex_dir1 kw ty hk s g1 q c g2 tl hh hpv hpa hg1 hg2 hq hp
      (by rw [hr]; simp [dir1Code, List.append_assoc])
    obtain ⟨f1, f2, f3, f4, f5⟩ := mode_fields m4
    exact ⟨[t1, t2, t3, t4], s4, run, by simp [dir1Code, k1, k2, k3, k4], r4, f1, by rw [f4]; exact hb, f3, f2, f5, by rw [pv4]; decide⟩

theorem dir2Code_ok (kw : Bytes) (ty : TT) (hk : DirKw kw ty) (g1 : Bytes) (q1 : Byte) (c1 g2 g3 : Bytes) (q2 : Byte) (c2 g4 : Bytes)
    (hg1 : allWs g1) (hg2 : allWs g2) (hg3 : allWs g3) (hg4 : allWs g4)
    (hq1 : q1 = 34 ∨ q1 = 39) (hp1 : PlainStr q1 c1) (hq2 : q2 = 34 ∨ q2 = 39) (hp2 : PlainStr q2 c2) :
    (dir2Code kw ty g1 q1 c1 g2 g3 q2 c2 g4).OK := by
  refine ⟨?_, ?_, ?_⟩
  · intro tl
    have := stops_kw kw ((40 :: (g1 ++ (strLit q1 c1 ++ (g2 ++ (44 :: (g3 ++ (strLit q2 c2 ++ (g4 ++ [41])))))))) ++ tl) hk.hat hk.lk hk.len1 hk.len2
    simpa [dir2Code, List.append_assoc] using this
  · have := hk.len1
    simp [dir2Code, strLit]; omega
  · intro s tl hr hh hb hpa hd hpv
    obtain ⟨t1, t2, t3, t4, t5, t6, s6, run, k1, k2, k3, k4, k5, k6, r6, pv6, m6⟩ := lex_dir2 kw ty hk s g1 q1 c1 g2 g3 q2 c2 g4 tl hh hpv hpa
      hg1 hg2 hg3 hg4 hq1 hp1 hq2 hp2 (by rw [hr]; simp [dir2Code, List.append_assoc])
    obtain ⟨f1, f2, f3, f4, f5⟩ := mode_fields m6
    exact ⟨[t1, t2, t3, t4, t5, t6], s6, run, by simp [dir2Code, k1, k2, k3, k4, k5, k6], r6, f1, by rw [f4]; exact hb, f3, f2, f5,
      by rw [pv6]; decide⟩

end Tw
