/-
  TwProofs.Lemmas.ScopeTop — templates of text, `{{ name }}`, `{{ name = "text" }}` and
  `@if(name) body @end`: the statement loop and the evaluation with its scopes (C04).
-/
import TwProofs.Lemmas.ScopeParse
import TwProofs.Lemmas.ParseSimpleGen
namespace Tw
open Lx

inductive SItem where
  | text (segs : List Seg)
  | print (g1 n g2 : Bytes)
  | assign (g1 n g2 g3 : Bytes) (q : Byte) (v g4 : Bytes)
  | ifb (g1 c g2 : Bytes) (body : List AItem)

def SItem.g : SItem → GItem
  | .text segs => .text segs
  | .print g1 n g2 => .code (printCode g1 n g2)
  | .assign g1 n g2 g3 q v g4 => .code (assignCode g1 n g2 g3 q v g4)
  | .ifb g1 c g2 body => .code (ifbCode g1 c g2 body)

/-- the template -/
def scopeSrc (items : List SItem) : Bytes := gsrc (items.map SItem.g)

def afterRunS (segs : List Seg) : List SItem → Prop
  | [] => True
  | .text _ :: _ => False
  | _ :: _ => lastOr (segsSrc segs) 0 ≠ 92

def SItemsOK : List SItem → Prop
  | [] => True
  | .text segs :: r => startsRun segs ∧ SegsOK segs (scopeSrc r) ∧ afterRunS segs r ∧ SItemsOK r
  | .print g1 n g2 :: r => allWs g1 ∧ allWs g2 ∧ isName n ∧ SItemsOK r
  | .assign g1 n g2 g3 q v g4 :: r =>
    allWs g1 ∧ allWs g2 ∧ allWs g3 ∧ allWs g4 ∧ isName n ∧ (q = 34 ∨ q = 39) ∧ PlainStr q v ∧ SItemsOK r
  | .ifb g1 c g2 body :: r => allWs g1 ∧ allWs g2 ∧ isName c ∧ AOK body ∧ SItemsOK r

instance afterRunS.dec (segs : List Seg) : (r : List SItem) → Decidable (afterRunS segs r)
  | [] => isTrue trivial
  | .text _ :: _ => isFalse (by simp [afterRunS])
  | .print _ _ _ :: _ => by unfold afterRunS; exact inferInstance
  | .assign _ _ _ _ _ _ _ :: _ => by unfold afterRunS; exact inferInstance
  | .ifb _ _ _ _ :: _ => by unfold afterRunS; exact inferInstance

instance SItemsOK.dec : (items : List SItem) → Decidable (SItemsOK items)
  | [] => isTrue trivial
  | .text segs :: r => by have := SItemsOK.dec r; unfold SItemsOK; exact inferInstance
  | .print g1 n g2 :: r => by have := SItemsOK.dec r; unfold SItemsOK; exact inferInstance
  | .assign g1 n g2 g3 q v g4 :: r => by have := SItemsOK.dec r; unfold SItemsOK; exact inferInstance
  | .ifb g1 c g2 body :: r => by have := SItemsOK.dec r; unfold SItemsOK; exact inferInstance

theorem sitems_ok : ∀ items : List SItem, SItemsOK items → GItemsOK (items.map SItem.g)
  | [], _ => trivial
  | .text segs :: r, h => by
    refine ⟨h.1, h.2.1, ?_, sitems_ok r h.2.2.2⟩
    cases r with
    | nil => trivial
    | cons it r' =>
      cases it with
      | text _ => exact absurd h.2.2.1 (by simp [afterRunS])
      | print _ _ _ => exact h.2.2.1
      | assign _ _ _ _ _ _ _ => exact h.2.2.1
      | ifb _ _ _ _ => exact h.2.2.1
  | .print g1 n g2 :: r, h => ⟨printCode_ok g1 n g2 h.1 h.2.1 h.2.2.1, sitems_ok r h.2.2.2⟩
  | .assign g1 n g2 g3 q v g4 :: r, h => by
    obtain ⟨a1, a2, a3, a4, a5, a6, a7, a8⟩ := h
    exact ⟨assignCode_ok g1 n g2 g3 q v g4 a1 a2 a3 a4 a5 a6 a7, sitems_ok r a8⟩
  | .ifb g1 c g2 body :: r, h => ⟨ifbCode_ok g1 c g2 body h.1 h.2.1 h.2.2.1 h.2.2.2.1, sitems_ok r h.2.2.2.2⟩

def skeys : List SItem → List (TT × Bytes)
  | [] => []
  | .text segs :: r => (.HTML, segsLit segs) :: skeys r
  | .print g1 n g2 :: r => (printCode g1 n g2).keys ++ skeys r
  | .assign g1 n g2 g3 q v g4 :: r => assignKeys n v ++ skeys r
  | .ifb g1 c g2 body :: r => (ifbCode g1 c g2 body).keys ++ skeys r

theorem gkeys_sitems : ∀ items : List SItem, gkeys (items.map SItem.g) = skeys items
  | [] => rfl
  | .text segs :: r => by simp [gkeys, skeys, SItem.g, gkeys_sitems r]
  | .print g1 n g2 :: r => by simp [gkeys, skeys, SItem.g, gkeys_sitems r]
  | .assign g1 n g2 g3 q v g4 :: r => by simp [gkeys, skeys, SItem.g, assignCode, gkeys_sitems r]
  | .ifb g1 c g2 body :: r => by simp [gkeys, skeys, SItem.g, gkeys_sitems r]

theorem skeys_clean : ∀ (items : List SItem) (x : TT × Bytes), x ∈ skeys items → x.1 ≠ .ILLEGAL ∧ x.1 ≠ .EOF
  | [], x, h => by simp [skeys] at h
  | .text _ :: r, x, h => by
    simp only [skeys, List.mem_cons] at h
    rcases h with h | h
    · rw [h]; exact ⟨by simp, by simp⟩
    · exact skeys_clean r x h
  | .print g1 n g2 :: r, x, h => by
    simp only [skeys, printCode, List.cons_append, List.nil_append, List.mem_cons] at h
    rcases h with h | h | h | h
    · rw [h]; exact ⟨by simp, by simp⟩
    · rw [h]; exact ⟨by simp, by simp⟩
    · rw [h]; exact ⟨by simp, by simp⟩
    · exact skeys_clean r x h
  | .assign g1 n g2 g3 q v g4 :: r, x, h => by
    simp only [skeys, assignKeys, List.cons_append, List.nil_append, List.mem_cons] at h
    rcases h with h | h | h | h | h | h
    · rw [h]; exact ⟨by simp, by simp⟩
    · rw [h]; exact ⟨by simp, by simp⟩
    · rw [h]; exact ⟨by simp, by simp⟩
    · rw [h]; exact ⟨by simp, by simp⟩
    · rw [h]; exact ⟨by simp, by simp⟩
    · exact skeys_clean r x h
  | .ifb g1 c g2 body :: r, x, h => by
    simp only [skeys, ifbCode, List.cons_append, List.nil_append, List.mem_cons, List.mem_append, List.not_mem_nil, or_false] at h
    rcases h with h | h | h | h | (h | h) | h
    · rw [h]; exact ⟨by simp, by simp⟩
    · rw [h]; exact ⟨by simp, by simp⟩
    · rw [h]; exact ⟨by simp, by simp⟩
    · rw [h]; exact ⟨by simp, by simp⟩
    · have := akeys_clean body x h; exact ⟨this.1, this.2.1⟩
    · rw [h]; exact ⟨by simp, by simp⟩
    · exact skeys_clean r x h

inductive SMatch : List Stmt → List SItem → Prop
  | nil : SMatch [] []
  | text (t : Token) (segs : List Seg) (ss : List Stmt) (r : List SItem) : t.lit = segsLit segs → SMatch ss r →
      SMatch (.html t :: ss) (.text segs :: r)
  | print (t t2 : Token) (g1 n g2 : Bytes) (ss : List Stmt) (r : List SItem) : SMatch ss r →
      SMatch (.expr t (.ident t2 n) :: ss) (.print g1 n g2 :: r)
  | assign (t tv : Token) (g1 n g2 g3 : Bytes) (q : Byte) (v g4 : Bytes) (ss : List Stmt) (r : List SItem) : SMatch ss r →
      SMatch (.assign t n (.str tv v) :: ss) (.assign g1 n g2 g3 q v g4 :: r)
  | ifb (t1 t3 : Token) (g1 c g2 : Bytes) (body : List AItem) (bs : List Stmt) (ss : List Stmt) (r : List SItem) : AMatch bs body → SMatch ss r →
      SMatch (.ifS t1 (.ident t3 c) bs [] none :: ss) (.ifb g1 c g2 body :: r)

def spfuel : List SItem → Nat
  | [] => 1
  | .text _ :: r => 2 + spfuel r
  | .print _ _ _ :: r => 5 + spfuel r
  | .assign _ _ _ _ _ _ _ :: r => 5 + spfuel r
  | .ifb _ _ _ body :: r => 2 * body.length + 10 + spfuel r

/-- the statement loop over a statement after which a "}}" is left over (the assignment) -/
theorem loop_stmt_rbraces (f : Nat) (acc : List Stmt) (st : Stmt) (tf ta t5 tn : Token) (r rest : List Token)
    (hf : tf.ty ≠ .EOF) (hst : parseStatement (f + 2) ({ toks := tf :: r } : PS) = (st, { toks := ta :: t5 :: tn :: rest })) (hbad : st.isBad = false)
    (ha : ta.ty ≠ .ILLEGAL) (h5 : t5.ty = .RBRACES) (hclean : Clean (tn :: rest)) :
    parseProgramLoop (f + 3) acc ({ toks := tf :: r } : PS) = parseProgramLoop (f + 1) (acc ++ [st]) { toks := tn :: rest } := by
  have c5 : Clean (t5 :: tn :: rest) := Clean.cons (by rw [h5]; decide) hclean
  rw [show f + 3 = (f + 2) + 1 from rfl, parseProgramLoop]
  have e0 : ({ toks := tf :: r } : PS).curIs .EOF = false := by simp [PS.curIs, PS.cur]; exact hf
  simp only [e0, Bool.false_eq_true, if_false, hst]
  have e1 : ({ toks := ta :: t5 :: tn :: rest } : PS).curIs .ILLEGAL = false := by simp [PS.curIs, PS.cur]; exact ha
  simp only [e1, Bool.false_eq_true, if_false, hbad]
  rw [ps_next_clean ta t5 _ c5]
  rw [show f + 2 = (f + 1) + 1 from rfl, parseProgramLoop]
  have e2 : ({ toks := t5 :: tn :: rest } : PS).curIs .EOF = false := by simp [PS.curIs, PS.cur, h5]
  simp only [e2, Bool.false_eq_true, if_false]
  rw [parse_rbraces_stmt f t5 _ h5]
  have e3 : ({ toks := t5 :: tn :: rest } : PS).curIs .ILLEGAL = false := by simp [PS.curIs, PS.cur, h5]
  simp only [e3, Bool.false_eq_true, if_false, Stmt.isBad, if_true]
  rw [ps_next_clean t5 tn rest hclean]

theorem parseLoop_sitems : ∀ (items : List SItem) (toks : List Token) (e : Token) (acc : List Stmt) (f : Nat),
    toks.map key = skeys items → e.ty = .EOF → spfuel items ≤ f →
    ∃ stmts, parseProgramLoop f acc ({ toks := toks ++ [e] } : PS) = (some (acc ++ stmts), { toks := [e] }) ∧ SMatch stmts items
  | [], toks, e, acc, f, hk, he, hf => by
    have : toks = [] := by simpa [skeys] using hk
    subst this
    obtain ⟨g, rfl⟩ : ∃ g, f = g + 1 := ⟨f - 1, by simp [spfuel] at hf; omega⟩
    refine ⟨[], ?_, .nil⟩
    rw [parseProgramLoop]
    have c : ({ toks := [e] } : PS).curIs .EOF = true := by simp [PS.curIs, PS.cur, he]
    simp [c]
  | .text segs :: r, toks, e, acc, f, hk, he, hf => by
    cases toks with
    | nil => simp [skeys] at hk
    | cons t rest =>
      simp only [skeys, List.map_cons, List.cons.injEq] at hk
      obtain ⟨hkt, hkr⟩ := hk
      have ht : t.ty = .HTML := congrArg Prod.fst hkt
      have hlit : t.lit = segsLit segs := congrArg Prod.snd hkt
      have hcl : Clean (rest ++ [e]) := clean_of_keys hkr (skeys_clean r) he
      obtain ⟨g, rfl⟩ : ∃ g, f = g + 2 := ⟨f - 2, by simp [spfuel] at hf; omega⟩
      cases hr : rest ++ [e] with
      | nil => simp at hr
      | cons tn rest' =>
        rw [hr] at hcl
        have hloop := loop_html g acc ({ toks := t :: rest ++ [e] } : PS) t tn rest' (by simp [hr]) ht hcl.tail
        obtain ⟨stmts, h1, h2⟩ := parseLoop_sitems r rest e (acc ++ [.html t]) (g + 1) hkr he (by simp [spfuel] at hf; omega)
        refine ⟨.html t :: stmts, ?_, .text t segs stmts r hlit h2⟩
        rw [hloop]
        have : ({ ({ toks := t :: rest ++ [e] } : PS) with toks := tn :: rest' } : PS) = { toks := rest ++ [e] } := by rw [hr]
        rw [this, h1]
        simp
  | .print g1 n g2 :: r, toks, e, acc, f, hk, he, hf => by
    match toks, hk with
    | [], hk => simp [skeys, printCode] at hk
    | [_], hk => simp [skeys, printCode] at hk
    | [_, _], hk => simp [skeys, printCode] at hk
    | t1 :: t2 :: t3 :: rest, hk =>
      simp only [skeys, printCode, List.cons_append, List.nil_append, List.map_cons, List.cons.injEq] at hk
      obtain ⟨hk1, hk2, hk3, hkr⟩ := hk
      have ty1 : t1.ty = .LBRACES := congrArg Prod.fst hk1
      have ty2 : t2.ty = .IDENT := congrArg Prod.fst hk2
      have lit2 : t2.lit = n := congrArg Prod.snd hk2
      have ty3 : t3.ty = .RBRACES := congrArg Prod.fst hk3
      have hcl : Clean (rest ++ [e]) := clean_of_keys hkr (skeys_clean r) he
      obtain ⟨g, rfl⟩ : ∃ g, f = g + 4 := ⟨f - 4, by simp [spfuel] at hf; omega⟩
      have hst := parse_print_stmt g t1 t2 t3 (rest ++ [e]) ty1 ty2 ty3 hcl
      cases hr : rest ++ [e] with
      | nil => simp at hr
      | cons tn rest' =>
        rw [hr] at hst hcl
        have hloop := loop_stmt_last (g + 2) acc ({ toks := t1 :: t2 :: t3 :: tn :: rest' } : PS) _ _ t1 t3 tn _ rest' rfl (by rw [ty1]; decide) hst rfl rfl
          (by rw [ty3]; decide) hcl.tail
        obtain ⟨stmts, h1, h2⟩ := parseLoop_sitems r rest e (acc ++ [.expr t2 (.ident t2 t2.lit)]) (g + 3) hkr he (by simp [spfuel] at hf; omega)
        refine ⟨.expr t2 (.ident t2 t2.lit) :: stmts, ?_, by rw [lit2]; exact .print t2 t2 g1 n g2 stmts r h2⟩
        have e0 : ({ toks := t1 :: t2 :: t3 :: rest ++ [e] } : PS) = { toks := t1 :: t2 :: t3 :: tn :: rest' } := by simp [hr]
        rw [e0, show g + 4 = (g + 2) + 2 from rfl, hloop]
        have e1 : ({ ({ toks := t3 :: tn :: rest' } : PS) with toks := tn :: rest' } : PS) = { toks := rest ++ [e] } := by rw [hr]
        rw [e1, h1]
        simp
  | .assign g1 n g2 g3 q v g4 :: r, toks, e, acc, f, hk, he, hf => by
    match toks, hk with
    | [], hk => simp [skeys, assignKeys] at hk
    | [_], hk => simp [skeys, assignKeys] at hk
    | [_, _], hk => simp [skeys, assignKeys] at hk
    | [_, _, _], hk => simp [skeys, assignKeys] at hk
    | [_, _, _, _], hk => simp [skeys, assignKeys] at hk
    | t1 :: t2 :: t3 :: t4 :: t5 :: rest, hk =>
      simp only [skeys, assignKeys, List.cons_append, List.nil_append, List.map_cons, List.cons.injEq] at hk
      obtain ⟨hk1, hk2, hk3, hk4, hk5, hkr⟩ := hk
      have ty1 : t1.ty = .LBRACES := congrArg Prod.fst hk1
      have ty2 : t2.ty = .IDENT := congrArg Prod.fst hk2
      have lit2 : t2.lit = n := congrArg Prod.snd hk2
      have ty3 : t3.ty = .ASSIGN := congrArg Prod.fst hk3
      have ty4 : t4.ty = .STR := congrArg Prod.fst hk4
      have lit4 : t4.lit = v := congrArg Prod.snd hk4
      have ty5 : t5.ty = .RBRACES := congrArg Prod.fst hk5
      have hcl : Clean (rest ++ [e]) := clean_of_keys hkr (skeys_clean r) he
      obtain ⟨g, rfl⟩ : ∃ g, f = g + 4 := ⟨f - 4, by simp [spfuel] at hf; omega⟩
      have hst := parse_assign_stmt g t1 t2 t3 t4 t5 (rest ++ [e]) ty1 ty2 ty3 ty4 ty5 hcl
      cases hr : rest ++ [e] with
      | nil => simp at hr
      | cons tn rest' =>
        rw [hr] at hst hcl
        have hloop := loop_stmt_rbraces (g + 1) acc _ t1 t4 t5 tn (t2 :: t3 :: t4 :: t5 :: tn :: rest') rest' (by rw [ty1]; decide) hst rfl
          (by rw [ty4]; decide) ty5 hcl
        obtain ⟨stmts, h1, h2⟩ := parseLoop_sitems r rest e (acc ++ [.assign t2 t2.lit (.str t4 t4.lit)]) (g + 2) hkr he (by simp [spfuel] at hf; omega)
        refine ⟨.assign t2 t2.lit (.str t4 t4.lit) :: stmts, ?_, by rw [lit2, lit4]; exact .assign t2 t4 g1 n g2 g3 q v g4 stmts r h2⟩
        have e0 : ({ toks := t1 :: t2 :: t3 :: t4 :: t5 :: rest ++ [e] } : PS) = { toks := t1 :: t2 :: t3 :: t4 :: t5 :: tn :: rest' } := by simp [hr]
        rw [e0, show g + 4 = (g + 1) + 3 from rfl, hloop, ← hr, show g + 1 + 1 = g + 2 from rfl, h1]
        simp
  | .ifb g1 c g2 body :: r, toks, e, acc, f, hk, he, hf => by
    match toks, hk with
    | [], hk => simp [skeys, ifbCode] at hk
    | [_], hk => simp [skeys, ifbCode] at hk
    | [_, _], hk => simp [skeys, ifbCode] at hk
    | [_, _, _], hk => simp [skeys, ifbCode] at hk
    | t1 :: t2 :: t3 :: t4 :: tail, hk =>
      simp only [skeys, ifbCode, List.cons_append, List.nil_append, List.map_cons, List.cons.injEq, List.append_assoc] at hk
      obtain ⟨hk1, hk2, hk3, hk4, hkt⟩ := hk
      obtain ⟨bt, tail2, rfl, hkb, hk2'⟩ := take_map_key hkt
      cases tail2 with
      | nil => simp at hk2'
      | cons tEnd rest =>
        simp only [List.map_cons, List.cons.injEq] at hk2'
        obtain ⟨hkE, hkr⟩ := hk2'
        have ty1 : t1.ty = .IF := congrArg Prod.fst hk1
        have ty2 : t2.ty = .LPAREN := congrArg Prod.fst hk2
        have ty3 : t3.ty = .IDENT := congrArg Prod.fst hk3
        have lit3 : t3.lit = c := congrArg Prod.snd hk3
        have ty4 : t4.ty = .RPAREN := congrArg Prod.fst hk4
        have hEnd : tEnd.ty = .END := congrArg Prod.fst hkE
        have hcl : Clean (rest ++ [e]) := clean_of_keys hkr (skeys_clean r) he
        obtain ⟨g, hg⟩ : ∃ g, f = (g + 2 * body.length + 8) + 1 := ⟨f - (2 * body.length + 9), by simp [spfuel] at hf; omega⟩
        obtain ⟨bs, hst, hm⟩ := parse_ifb_stmt g t1 t2 t3 t4 tEnd body bt (rest ++ [e]) ty1 ty2 ty3 ty4 hEnd hkb hcl
        obtain ⟨stmts, h1, h2⟩ := parseLoop_sitems r rest e (acc ++ [.ifS t1 (.ident t3 t3.lit) bs [] none]) (g + 2 * body.length + 8) hkr he
          (by simp [spfuel] at hf; omega)
        refine ⟨.ifS t1 (.ident t3 t3.lit) bs [] none :: stmts, ?_, by rw [lit3]; exact .ifb t1 t3 g1 c g2 body bs stmts r hm h2⟩
        rw [hg, parseProgramLoop]
        have c0 : ({ toks := t1 :: t2 :: t3 :: t4 :: (bt ++ tEnd :: rest) ++ [e] } : PS).curIs .EOF = false := by simp [PS.curIs, PS.cur, ty1]
        simp only [c0, Bool.false_eq_true, if_false]
        have e0 : ({ toks := t1 :: t2 :: t3 :: t4 :: (bt ++ tEnd :: rest) ++ [e] } : PS) = { toks := t1 :: t2 :: t3 :: t4 :: (bt ++ tEnd :: (rest ++ [e])) } := by
          simp [List.append_assoc]
        rw [e0, hst]
        have i1 : ({ toks := tEnd :: (rest ++ [e]) } : PS).curIs .ILLEGAL = false := by simp [PS.curIs, PS.cur, hEnd]
        simp only [i1, Bool.false_eq_true, if_false, Stmt.isBad]
        have nx : ({ toks := tEnd :: (rest ++ [e]) } : PS).next = { toks := rest ++ [e] } := by
          cases hr : rest ++ [e] with
          | nil => simp at hr
          | cons t2' r2 =>
            have := ps_next_clean tEnd t2' r2 (by rw [← hr]; exact hcl)
            simpa [hr] using this
        rw [nx, h1]
        simp

/-- **the template, parsed** -/
theorem parse_sitems (items : List SItem) (hok : SItemsOK items) :
    ∃ prog, parseSource (scopeSrc items) = .ok prog ∧ SMatch prog.stmts items := by
  obtain ⟨toks, e, htok, hk, he⟩ := tokenize_gitems _ (sitems_ok items hok)
  rw [gkeys_sitems] at hk
  have hcl : Clean (toks ++ [e]) := clean_of_keys hk (skeys_clean items) he
  have hfuel : spfuel items ≤ parseFuel (toks ++ [e]) := by
    have hlen : toks.length = (skeys items).length := by rw [← hk]; simp
    have : spfuel items ≤ 4 * (skeys items).length + 1 := by
      clear hok htok hk hcl hlen
      induction items with
      | nil => simp [spfuel, skeys]
      | cons it r ih =>
        cases it with
        | text _ => simp [spfuel, skeys]; omega
        | print _ _ _ => simp [spfuel, skeys, printCode]; omega
        | assign _ _ _ _ _ _ _ => simp [spfuel, skeys, assignKeys]; omega
        | ifb g1 c g2 body =>
          have : body.length ≤ (akeys body).length := by
            generalize body = bb
            induction bb with
            | nil => simp [akeys]
            | cons a r' ih' => cases a <;> simp [akeys, assignKeys] <;> omega
          simp [spfuel, skeys, ifbCode]; omega
    unfold parseFuel
    simp
    omega
  obtain ⟨stmts, h1, h2⟩ := parseLoop_sitems items toks e [] (parseFuel (toks ++ [e])) hk he hfuel
  refine ⟨{ tok := (toks ++ [e]).headD e, stmts := stmts }, ?_, h2⟩
  unfold scopeSrc parseSource
  rw [htok]
  simp only [Bool.false_eq_true, if_false]
  rw [initParser_clean _ hcl, h1]
  have hcur : ({ toks := toks ++ [e] } : PS).cur = (toks ++ [e]).headD e := by
    cases toks with
    | nil => rfl
    | cons t r => rfl
  rw [hcur]
  simp [finishParse]

end Tw
