/-
  TwProofs.Lemmas.Sort — `bytesLt` is a strict total order; `sortByKey` (insertion sort, the
  model of "collect the keys, sort.Strings, iterate") yields the same list for every order in
  which a Go map hands out its entries (C14), and is the identity on sorted lists.
-/
import TwModel

namespace Tw

theorem bytesLt_irrefl : ∀ a : Bytes, bytesLt a a = false
  | [] => rfl
  | x :: xs => by simp [bytesLt, bytesLt_irrefl xs]

theorem bytesLt_trans : ∀ a c d : Bytes, bytesLt a c = true → bytesLt c d = true → bytesLt a d = true
  | [], [], _, h, _ => by simp [bytesLt] at h
  | [], _ :: _, [], _, h => by simp [bytesLt] at h
  | [], _ :: _, _ :: _, _, _ => by simp [bytesLt]
  | _ :: _, [], _, h, _ => by simp [bytesLt] at h
  | _ :: _, _ :: _, [], _, h => by simp [bytesLt] at h
  | x :: xs, y :: ys, z :: zs, h1, h2 => by
    simp only [bytesLt] at h1 h2 ⊢
    by_cases hxy : x < y
    · by_cases hyz : y < z
      · have : x < z := Nat.lt_trans hxy hyz
        simp [this]
      · have hzy : ¬ z < y ∨ True := Or.inr trivial
        simp only [hyz, if_false] at h2
        by_cases hzy' : z < y
        · simp [hzy'] at h2
        · have : y = z := by omega
          subst this; simp [hxy]
    · simp only [hxy, if_false] at h1
      by_cases hyx : y < x
      · simp [hyx] at h1
      · have hxy' : x = y := by omega
        subst hxy'
        simp only [hyx, if_false] at h1
        by_cases hxz : x < z
        · simp [hxz]
        · simp only [hxz, if_false] at h2 ⊢
          by_cases hzx : z < x
          · simp [hzx] at h2
          · simp only [hzx, if_false] at h2 ⊢
            exact bytesLt_trans xs ys zs h1 h2

theorem bytesLt_trichotomy : ∀ a c : Bytes, bytesLt a c = true ∨ a = c ∨ bytesLt c a = true
  | [], [] => Or.inr (Or.inl rfl)
  | [], _ :: _ => Or.inl (by simp [bytesLt])
  | _ :: _, [] => Or.inr (Or.inr (by simp [bytesLt]))
  | x :: xs, y :: ys => by
    simp only [bytesLt]
    by_cases hxy : x < y
    · left; simp [hxy]
    · by_cases hyx : y < x
      · right; right; simp [hyx]
      · have : x = y := by omega
        subst this
        simp only [hxy, if_false]
        rcases bytesLt_trichotomy xs ys with h | h | h
        · left; exact h
        · right; left; rw [h]
        · right; right; exact h

theorem bytesLt_asymm (a c : Bytes) (h : bytesLt a c = true) : bytesLt c a = false := by
  cases hc : bytesLt c a with
  | false => rfl
  | true => have := bytesLt_trans a c a h hc; rw [bytesLt_irrefl] at this; exact absurd this (by decide)

/-- strictly increasing keys -/
def KeySorted {α} (l : List (Bytes × α)) : Prop := l.Pairwise fun x y => bytesLt x.1 y.1 = true

theorem insertByKey_perm {α} (kv : Bytes × α) : ∀ l : List (Bytes × α), (insertByKey kv l).Perm (kv :: l)
  | [] => by simp [insertByKey]
  | x :: r => by
    simp only [insertByKey]
    split
    · exact List.Perm.refl _
    · exact ((insertByKey_perm kv r).cons x).trans (List.Perm.swap kv x r)

theorem sortByKey_perm {α} : ∀ l : List (Bytes × α), (sortByKey l).Perm l
  | [] => List.Perm.refl _
  | x :: r => by
    show (insertByKey x (sortByKey r)).Perm (x :: r)
    exact (insertByKey_perm x _).trans ((sortByKey_perm r).cons x)

theorem insertByKey_sorted {α} (kv : Bytes × α) : ∀ l : List (Bytes × α), KeySorted l → (∀ x ∈ l, x.1 ≠ kv.1) →
    KeySorted (insertByKey kv l)
  | [], _, _ => by simp [insertByKey, KeySorted]
  | x :: r, hs, hne => by
    simp only [insertByKey]
    have hs' := List.pairwise_cons.mp hs
    split
    · rename_i hlt
      refine List.pairwise_cons.mpr ⟨?_, hs⟩
      intro y hy
      rcases List.mem_cons.mp hy with rfl | hy
      · exact hlt
      · exact bytesLt_trans _ _ _ hlt (hs'.1 y hy)
    · rename_i hnlt
      have hx : bytesLt x.1 kv.1 = true := by
        rcases bytesLt_trichotomy kv.1 x.1 with h | h | h
        · exact absurd h hnlt
        · exact absurd h.symm (hne x (List.mem_cons_self))
        · exact h
      refine List.pairwise_cons.mpr ⟨?_, insertByKey_sorted kv r hs'.2 (fun y hy => hne y (List.mem_cons_of_mem _ hy))⟩
      intro y hy
      rcases List.mem_cons.mp ((insertByKey_perm kv r).subset hy) with rfl | hy
      · exact hx
      · exact hs'.1 y hy

/-- the keys are pairwise different (a Go map) -/
def KeysDistinct {α} (l : List (Bytes × α)) : Prop := l.Pairwise fun x y => x.1 ≠ y.1

theorem sortByKey_sorted {α} : ∀ l : List (Bytes × α), KeysDistinct l → KeySorted (sortByKey l)
  | [], _ => by simp [sortByKey, KeySorted]
  | x :: r, hd => by
    have hd' := List.pairwise_cons.mp hd
    show KeySorted (insertByKey x (sortByKey r))
    refine insertByKey_sorted x _ (sortByKey_sorted r hd'.2) ?_
    intro y hy
    exact fun h => hd'.1 y ((sortByKey_perm r).subset hy) h.symm

/-- **order independence**: whatever order the entries of a map with distinct keys arrive in,
    sorting by key gives the same list -/
theorem sortByKey_perm_invariant {α} (l1 l2 : List (Bytes × α)) (hp : l1.Perm l2) (hd : KeysDistinct l1) :
    sortByKey l1 = sortByKey l2 := by
  have hd2 : KeysDistinct l2 := List.Pairwise.perm hd hp (fun h => fun e => h e.symm)
  apply List.Perm.eq_of_pairwise (le := fun x y => bytesLt x.1 y.1 = true)
  · intro a c _ _ h1 h2
    rw [bytesLt_asymm _ _ h1] at h2
    exact absurd h2 (by decide)
  · exact sortByKey_sorted l1 hd
  · exact sortByKey_sorted l2 hd2
  · exact (sortByKey_perm l1).trans (hp.trans (sortByKey_perm l2).symm)

theorem keysDistinct_of_sorted {α} (l : List (Bytes × α)) (h : KeySorted l) : KeysDistinct l :=
  List.Pairwise.imp (fun {x y} hxy => fun e => by rw [e, bytesLt_irrefl] at hxy; exact absurd hxy (by decide)) h

/-- sorting a list whose keys are already strictly increasing changes nothing -/
theorem sortByKey_of_sorted {α} (l : List (Bytes × α)) (h : KeySorted l) : sortByKey l = l := by
  apply List.Perm.eq_of_pairwise (le := fun x y => bytesLt x.1 y.1 = true)
  · intro a c _ _ h1 h2
    rw [bytesLt_asymm _ _ h1] at h2
    exact absurd h2 (by decide)
  · exact sortByKey_sorted l (keysDistinct_of_sorted l h)
  · exact h
  · exact sortByKey_perm l

end Tw
