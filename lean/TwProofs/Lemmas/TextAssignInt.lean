/-
  TwProofs.Lemmas.TextAssignInt — `{{ name = digits }}` from the source bytes to the parsed program (C04:
  an assignment keeps the type the variable already has).
-/
import TwProofs.Lemmas.TextArith3
import TwProofs.Lemmas.ScopeTop
namespace Tw
open Lx

/-- `{{ g1 n g2 = g3 d g4 }}` -/
def assignIntSrc (g1 n g2 g3 d g4 : Bytes) : Bytes := [123, 123] ++ g1 ++ n ++ g2 ++ [61] ++ g3 ++ d ++ g4 ++ [125, 125]

def assignIntKeys (n d : Bytes) : List (TT × Bytes) :=
  [(.LBRACES, [123, 123]), (.IDENT, n), (.ASSIGN, [61]), (.INT, d), (.RBRACES, [125, 125])]

theorem lex_assign_int (s : Lx) (g1 n g2 g3 d g4 tl : Bytes) (hh : s.isHTML = true) (hb : s.braces = 0)
    (hg1 : allWs g1) (hg2 : allWs g2) (hg3 : allWs g3) (hg4 : allWs g4) (hn : isName n) (hd : isDigits d)
    (hr : s.rest = assignIntSrc g1 n g2 g3 d g4 ++ tl) :
    ∃ toks s5, Run s toks s5 ∧ toks.map key = assignIntKeys n d ∧ s5.rest = tl ∧ s5.prev = 125 ∧
      mode s5 = (true, s.isDirective, s.parens, 0, s.panicked) := by
  obtain ⟨⟨c, cv, hcv, hc⟩, hall, hkw⟩ := hn
  have hnn : isName n := ⟨⟨c, cv, hcv, hc⟩, hall, hkw⟩
  have hnot := identCh_not_special hc
  have hr' : s.rest = 123 :: 123 :: (g1 ++ (n ++ (g2 ++ (61 :: (g3 ++ (d ++ (g4 ++ (125 :: 125 :: tl)))))))) := by
    rw [hr]; simp [assignIntSrc, List.append_assoc]
  have hx1 : (g1 ++ (n ++ (g2 ++ (61 :: (g3 ++ (d ++ (g4 ++ (125 :: 125 :: tl)))))))).headD 0 ≠ 45 := by
    cases g1 with
    | nil => simp only [List.nil_append, hcv, List.cons_append, List.headD_cons]; exact hnot.2.2.2.2.2.2.2.2.2.2.1
    | cons w t =>
      have hw : isWs w = true := hg1 w List.mem_cons_self
      simp only [List.cons_append, List.headD_cons]
      intro e; rw [e] at hw; cases hw
  obtain ⟨t1, s1, st1, k1, ne1, r1, _, m1⟩ := lex_open s _ hh hr' hx1
  obtain ⟨a1, a2, a3, a4, a5⟩ := mode_fields m1
  have hx2 : (isIdentCh ((g2 ++ (61 :: (g3 ++ (d ++ (g4 ++ (125 :: 125 :: tl)))))).headD 0) ||
      isNumberCh ((g2 ++ (61 :: (g3 ++ (d ++ (g4 ++ (125 :: 125 :: tl)))))).headD 0)) = false := by
    cases g2 with
    | nil => simp only [List.nil_append, List.headD_cons]; decide
    | cons w t =>
      have hw : isWs w = true := hg2 w List.mem_cons_self
      simp only [List.cons_append, List.headD_cons]
      rw [ws_not_ident hw, ws_not_number hw]; rfl
  obtain ⟨t2, s2, st2, k2, ne2, b2⟩ := code_word_step s1 g1 n _ a1 hg1 (isName_word hnn) r1 hx2
  have h2 : s2.isHTML = false := by rw [mode_html b2.md]; exact a1
  have hx3 := ws_then_digits_not_op g3 d (g4 ++ (125 :: 125 :: tl)) 61 hg3 hd (by decide) (by decide)
  obtain ⟨t3, s3, st3, k3, ne3, b3⟩ := code_assign_step s2 g2 _ h2 hg2 b2.rest hx3
  have h3 : s3.isHTML = false := by rw [mode_html b3.md]; exact h2
  have hx4 := ws_or_brace_not_number g4 tl hg4
  obtain ⟨t4, s4, st4, k4, ne4, b4⟩ := code_int_step s3 g3 d _ h3 hg3 hd b3.rest hx4.1 hx4.2
  have h4 : s4.isHTML = false := by rw [mode_html b4.md]; exact h3
  have br4 : s4.braces = 0 := by rw [mode_braces b4.md, mode_braces b3.md, mode_braces b2.md, a4]; exact hb
  obtain ⟨t5, s5, st5, k5, ne5, r5, pv5, m5⟩ := code_close_step s4 g4 tl h4 br4 hg4 b4.rest
  refine ⟨[t1, t2, t3, t4, t5], s5, ?_, ?_, r5, pv5, ?_⟩
  · exact Run.cons _ _ _ _ _ st1 ne1 (Run.cons _ _ _ _ _ st2 ne2 (Run.cons _ _ _ _ _ st3 ne3 (Run.cons _ _ _ _ _ st4 ne4
      (Run.cons _ _ _ _ _ st5 ne5 (Run.nil _)))))
  · have hk2 : key t2 = (.IDENT, n) := by rw [k2, hkw]
    simp [assignIntKeys, k1, hk2, k3, k4, k5]
  · rw [m5, mode_dir b4.md, mode_dir b3.md, mode_dir b2.md, a2, mode_parens b4.md, mode_parens b3.md, mode_parens b2.md, a3,
      mode_pan b4.md, mode_pan b3.md, mode_pan b2.md, a5]

def assignIntCode (g1 n g2 g3 d g4 : Bytes) : Code := { src := assignIntSrc g1 n g2 g3 d g4, keys := assignIntKeys n d }

theorem assignIntCode_ok (g1 n g2 g3 d g4 : Bytes) (hg1 : allWs g1) (hg2 : allWs g2) (hg3 : allWs g3) (hg4 : allWs g4) (hn : isName n)
    (hd : isDigits d) : (assignIntCode g1 n g2 g3 d g4).OK := by
  refine ⟨?_, ?_, ?_⟩
  · intro tl
    exact Or.inr (Or.inl ⟨g1 ++ n ++ g2 ++ [61] ++ g3 ++ d ++ g4 ++ [125, 125] ++ tl, by simp [assignIntCode, assignIntSrc, List.append_assoc]⟩)
  · obtain ⟨⟨c, cv, hcv, _⟩, _, _⟩ := hn
    simp [assignIntCode, assignIntSrc, assignIntKeys, hcv]; omega
  · intro s tl hr hh hb hpa hdi _
    obtain ⟨toks, s5, run, hkeys, r5, pv5, m5⟩ := lex_assign_int s g1 n g2 g3 d g4 tl hh hb hg1 hg2 hg3 hg4 hn hd hr
    obtain ⟨f1, f2, f3, f4, f5⟩ := mode_fields m5
    exact ⟨toks, s5, run, hkeys, r5, f1, f4, by rw [f3]; exact hpa, by rw [f2]; exact hdi, f5, by rw [pv5]; decide⟩

/-- `{{ n = d }}` as a statement: the parser stops on the number, the "}}" is left for the statement loop -/
theorem parse_assign_int_stmt (g : Nat) (t1 t2 t3 t4 t5 : Token) (tail : List Token) (v : Int64) (h1 : t1.ty = .LBRACES) (h2 : t2.ty = .IDENT)
    (h3 : t3.ty = .ASSIGN) (h4 : t4.ty = .INT) (h5 : t5.ty = .RBRACES) (hv : parseInt64 t4.lit = some v) (hclean : ∀ x ∈ tail, x.ty ≠ .ILLEGAL) :
    parseStatement (g + 3) ({ toks := t1 :: t2 :: t3 :: t4 :: t5 :: tail } : PS) =
      (.assign t2 t2.lit (.int t4 v), { toks := t4 :: t5 :: tail }) := by
  have c5 := noill_cons (t := t5) (by rw [h5]; decide) hclean
  have c4 := noill_cons (t := t4) (by rw [h4]; decide) c5
  have c3 := noill_cons (t := t3) (by rw [h3]; decide) c4
  have c2 := noill_cons (t := t2) (by rw [h2]; decide) c3
  have nx1 : ({ toks := t1 :: t2 :: t3 :: t4 :: t5 :: tail } : PS).next = { toks := t2 :: t3 :: t4 :: t5 :: tail } := ps_next_clean t1 t2 _ c2
  have nx2 : ({ toks := t2 :: t3 :: t4 :: t5 :: tail } : PS).next = { toks := t3 :: t4 :: t5 :: tail } := ps_next_clean t2 t3 _ c3
  have nx3 : ({ toks := t3 :: t4 :: t5 :: tail } : PS).next = { toks := t4 :: t5 :: tail } := ps_next_clean t3 t4 _ c4
  show statementBody (parseExpression (g + 2)) (parseExprList (g + 2)) (parseBody (g + 2)) (parseIfTail (g + 2)) (parseSlots (g + 2))
    ({ toks := t1 :: t2 :: t3 :: t4 :: t5 :: tail } : PS) = _
  have hc : ({ toks := t1 :: t2 :: t3 :: t4 :: t5 :: tail } : PS).cur.ty = .LBRACES := by simp [PS.cur, h1]
  unfold statementBody
  simp only [hc]
  unfold parseEmbeddedCode
  simp only [nx1]
  have c1 : ({ toks := t2 :: t3 :: t4 :: t5 :: tail } : PS).curIs .RBRACES = false := by simp [PS.curIs, PS.cur, h2]
  have c2' : ({ toks := t2 :: t3 :: t4 :: t5 :: tail } : PS).peekIs .ASSIGN = true := by simp [PS.peekIs, PS.peek, h3]
  have c0 : ({ toks := t2 :: t3 :: t4 :: t5 :: tail } : PS).cur = t2 := rfl
  have ep := expectPeek_ok ({ toks := t2 :: t3 :: t4 :: t5 :: tail } : PS) .ASSIGN c2'
  have c3' : ({ toks := t4 :: t5 :: tail } : PS).curIs .RBRACES = false := by simp [PS.curIs, PS.cur, h4]
  simp only [c1, c0, h2, c2', beq_self_eq_true, Bool.and_self, Bool.false_eq_true, if_false, if_true, ep, nx2, nx3, c3',
    parse_int_operand g LOWEST t4 t5 tail v h4 hv (Or.inl h5)]

/-- **`{{ n = d }}`, parsed** -/
theorem parse_assign_int_source (g1 n g2 g3 d g4 : Bytes) (hg1 : allWs g1) (hg2 : allWs g2) (hg3 : allWs g3) (hg4 : allWs g4) (hn : isName n)
    (hd : isDigits d) (hb : digitsToNat d ≤ 9223372036854775807) :
    ∃ prog t2 t4, parseSource (assignIntSrc g1 n g2 g3 d g4) = .ok prog ∧
      prog.stmts = [.assign t2 n (.int t4 (Int64.ofNat (digitsToNat d)))] := by
  have hok : GItemsOK [.code (assignIntCode g1 n g2 g3 d g4)] := ⟨assignIntCode_ok g1 n g2 g3 d g4 hg1 hg2 hg3 hg4 hn hd, trivial⟩
  obtain ⟨toks, e, htok, hkeys, he⟩ := tokenize_gitems _ hok
  have hsrc : gsrc [.code (assignIntCode g1 n g2 g3 d g4)] = assignIntSrc g1 n g2 g3 d g4 := by simp [gsrc, GItem.src, assignIntCode]
  rw [hsrc] at htok
  have hk' : toks.map key = assignIntKeys n d := by simpa [gkeys, assignIntCode] using hkeys
  match toks, hk' with
  | [], hk' => simp [assignIntKeys] at hk'
  | [_], hk' => simp [assignIntKeys] at hk'
  | [_, _], hk' => simp [assignIntKeys] at hk'
  | [_, _, _], hk' => simp [assignIntKeys] at hk'
  | [_, _, _, _], hk' => simp [assignIntKeys] at hk'
  | _ :: _ :: _ :: _ :: _ :: _ :: _, hk' => simp [assignIntKeys] at hk'
  | [t1, t2, t3, t4, t5], hk' =>
    simp only [assignIntKeys, List.map_cons, List.map_nil, List.cons.injEq, and_true] at hk'
    obtain ⟨hk1, hk2, hk3, hk4, hk5⟩ := hk'
    have ty1 : t1.ty = .LBRACES := congrArg Prod.fst hk1
    have ty2 : t2.ty = .IDENT := congrArg Prod.fst hk2
    have lit2 : t2.lit = n := congrArg Prod.snd hk2
    have ty3 : t3.ty = .ASSIGN := congrArg Prod.fst hk3
    have ty4 : t4.ty = .INT := congrArg Prod.fst hk4
    have lit4 : t4.lit = d := congrArg Prod.snd hk4
    have ty5 : t5.ty = .RBRACES := congrArg Prod.fst hk5
    have hce : ∀ x ∈ [e], x.ty ≠ .ILLEGAL := by intro x hx; simp at hx; rw [hx, he]; decide
    have hcl : ∀ x ∈ [t1, t2, t3, t4, t5] ++ [e], x.ty ≠ .ILLEGAL :=
      noill_cons (by rw [ty1]; decide) (noill_cons (by rw [ty2]; decide) (noill_cons (by rw [ty3]; decide)
        (noill_cons (by rw [ty4]; decide) (noill_cons (by rw [ty5]; decide) hce))))
    refine ⟨{ tok := t1, stmts := [.assign t2 n (.int t4 (Int64.ofNat (digitsToNat d)))] }, t2, t4, ?_, rfl⟩
    unfold parseSource
    rw [htok]
    simp only [Bool.false_eq_true, if_false]
    rw [initParser_clean _ hcl]
    have hfuel : parseFuel ([t1, t2, t3, t4, t5] ++ [e]) = 37 + 3 := by simp [parseFuel]
    rw [hfuel]
    have hst := parse_assign_int_stmt 36 t1 t2 t3 t4 t5 [e] _ ty1 ty2 ty3 ty4 ty5 (by rw [lit4]; exact parseInt64_digits d hd hb) hce
    have hloop : parseProgramLoop (37 + 3) [] ({ toks := [t1, t2, t3, t4, t5] ++ [e] } : PS) =
        (some [.assign t2 t2.lit (.int t4 (Int64.ofNat (digitsToNat d)))], { toks := [e] }) := by
      simp only [List.cons_append, List.nil_append] at hst ⊢
      rw [loop_stmt_rbraces 37 [] _ t1 t4 t5 e _ [] (by rw [ty1]; decide) hst rfl (by rw [ty4]; decide) ty5
        hce]
      rw [parseProgramLoop]
      have ce : ({ toks := [e] } : PS).curIs .EOF = true := by simp [PS.curIs, PS.cur, he]
      simp [ce]
    rw [hloop]
    simp [finishParse, PS.cur, lit2]

end Tw
