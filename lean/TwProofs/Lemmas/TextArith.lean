/-
  TwProofs.Lemmas.TextArith — `{{ digits }}` and `{{ digits op digits }}` (op one of `*`, `/`, `%`) from
  the source bytes to the parsed program (C01: integer literals are decimal; the operator applies to two
  integers).
-/
import TwProofs.Lemmas.TextIndex
namespace Tw
open Lx

/-- `{{ g1 d g2 }}` -/
def intSrc (g1 d g2 : Bytes) : Bytes := [123, 123] ++ g1 ++ d ++ g2 ++ [125, 125]

def intKeys (d : Bytes) : List (TT × Bytes) := [(.LBRACES, [123, 123]), (.INT, d), (.RBRACES, [125, 125])]

theorem ws_or_brace_not_number (g tl : Bytes) (hg : allWs g) :
    isNumberCh ((g ++ (125 :: 125 :: tl)).headD 0) = false ∧ (g ++ (125 :: 125 :: tl)).headD 0 ≠ 46 := by
  cases g with
  | nil => simp only [List.nil_append, List.headD_cons]; decide
  | cons w t =>
    have hw : isWs w = true := hg w List.mem_cons_self
    simp only [List.cons_append, List.headD_cons]
    exact ⟨ws_not_number hw, fun e => by rw [e] at hw; cases hw⟩

theorem lex_int_block (s : Lx) (g1 d g2 tl : Bytes) (hh : s.isHTML = true) (hb : s.braces = 0) (hg1 : allWs g1) (hg2 : allWs g2)
    (hd : isDigits d) (hr : s.rest = intSrc g1 d g2 ++ tl) :
    ∃ toks s3, Run s toks s3 ∧ toks.map key = intKeys d ∧ s3.rest = tl ∧ s3.prev = 125 ∧
      mode s3 = (true, s.isDirective, s.parens, 0, s.panicked) := by
  obtain ⟨hne, hall⟩ := hd
  have hdd : isDigits d := ⟨hne, hall⟩
  have hr' : s.rest = 123 :: 123 :: (g1 ++ (d ++ (g2 ++ (125 :: 125 :: tl)))) := by
    rw [hr]; simp [intSrc, List.append_assoc]
  have hx1 : (g1 ++ (d ++ (g2 ++ (125 :: 125 :: tl)))).headD 0 ≠ 45 := by
    cases g1 with
    | nil =>
      match d, hne, hall with
      | c :: v, _, hall =>
        simp only [List.nil_append, List.cons_append, List.headD_cons]
        exact (digit_not_special (hall c List.mem_cons_self)).2.2.2.2.2.2.2.2.2.2.1
    | cons w t =>
      have hw : isWs w = true := hg1 w List.mem_cons_self
      simp only [List.cons_append, List.headD_cons]
      intro e; rw [e] at hw; cases hw
  obtain ⟨t1, s1, st1, k1, ne1, r1, _, m1⟩ := lex_open s _ hh hr' hx1
  obtain ⟨a1, a2, a3, a4, a5⟩ := mode_fields m1
  have hx2 := ws_or_brace_not_number g2 tl hg2
  obtain ⟨t2, s2, st2, k2, ne2, b2⟩ := code_int_step s1 g1 d _ a1 hg1 hdd r1 hx2.1 hx2.2
  have h2 : s2.isHTML = false := by rw [mode_html b2.md]; exact a1
  have br2 : s2.braces = 0 := by rw [mode_braces b2.md, a4]; exact hb
  obtain ⟨t3, s3, st3, k3, ne3, r3, pv3, m3⟩ := code_close_step s2 g2 tl h2 br2 hg2 b2.rest
  refine ⟨[t1, t2, t3], s3, ?_, ?_, r3, pv3, ?_⟩
  · exact Run.cons _ _ _ _ _ st1 ne1 (Run.cons _ _ _ _ _ st2 ne2 (Run.cons _ _ _ _ _ st3 ne3 (Run.nil _)))
  · simp [intKeys, k1, k2, k3]
  · rw [m3, mode_dir b2.md, a2, mode_parens b2.md, a3, mode_pan b2.md, a5]

def intCode (g1 d g2 : Bytes) : Code := { src := intSrc g1 d g2, keys := intKeys d }

theorem intCode_ok (g1 d g2 : Bytes) (hg1 : allWs g1) (hg2 : allWs g2) (hd : isDigits d) : (intCode g1 d g2).OK := by
  refine ⟨?_, ?_, ?_⟩
  · intro tl
    exact Or.inr (Or.inl ⟨g1 ++ d ++ g2 ++ [125, 125] ++ tl, by simp [intCode, intSrc, List.append_assoc]⟩)
  · simp [intCode, intSrc, intKeys]; omega
  · intro s tl hr hh hb hpa hdi _
    obtain ⟨toks, s3, run, hkeys, r3, pv3, m3⟩ := lex_int_block s g1 d g2 tl hh hb hg1 hg2 hd hr
    obtain ⟨f1, f2, f3, f4, f5⟩ := mode_fields m3
    exact ⟨toks, s3, run, hkeys, r3, f1, f4, by rw [f3]; exact hpa, by rw [f2]; exact hdi, f5, by rw [pv3]; decide⟩

/-- `{{ d }}` as a statement -/
theorem parse_int_stmt (g : Nat) (t1 t2 t3 : Token) (tail : List Token) (v : Int64) (h1 : t1.ty = .LBRACES) (h2 : t2.ty = .INT)
    (h3 : t3.ty = .RBRACES) (hv : parseInt64 t2.lit = some v) (hclean : ∀ x ∈ tail, x.ty ≠ .ILLEGAL) :
    parseStatement (g + 3) ({ toks := t1 :: t2 :: t3 :: tail } : PS) = (.expr t2 (.int t2 v), { toks := t3 :: tail }) := by
  have c3 := noill_cons (t := t3) (by rw [h3]; decide) hclean
  have c2 := noill_cons (t := t2) (by rw [h2]; decide) c3
  have nx1 : ({ toks := t1 :: t2 :: t3 :: tail } : PS).next = { toks := t2 :: t3 :: tail } := ps_next_clean t1 t2 _ c2
  have nx2 : ({ toks := t2 :: t3 :: tail } : PS).next = { toks := t3 :: tail } := ps_next_clean t2 t3 _ c3
  have hex : parseExpression (g + 2) LOWEST ({ toks := t2 :: t3 :: tail } : PS) = (.int t2 v, { toks := t2 :: t3 :: tail }) := by
    rw [parseExpression_succ]
    have hp : prefixBody (parseExpression (g + 1)) (parseExprList (g + 1)) (parseObjLoop (g + 1))
        ({ toks := t2 :: t3 :: tail } : PS) = some (.int t2 v, { toks := t2 :: t3 :: tail }) := by
      unfold prefixBody
      simp [PS.cur, h2, hv]
    rw [hp]
    simp only []
    rw [prattLoop_succ]
    have : ({ toks := t2 :: t3 :: tail } : PS).peekIs .RBRACES = true := by simp [PS.peekIs, PS.peek, h3]
    simp [this]
  show statementBody (parseExpression (g + 2)) (parseExprList (g + 2)) (parseBody (g + 2)) (parseIfTail (g + 2)) (parseSlots (g + 2))
    ({ toks := t1 :: t2 :: t3 :: tail } : PS) = _
  have hc : ({ toks := t1 :: t2 :: t3 :: tail } : PS).cur.ty = .LBRACES := by simp [PS.cur, h1]
  unfold statementBody
  simp only [hc]
  unfold parseEmbeddedCode
  simp only [nx1]
  have c1 : ({ toks := t2 :: t3 :: tail } : PS).curIs .RBRACES = false := by simp [PS.curIs, PS.cur, h2]
  have c2' : (({ toks := t2 :: t3 :: tail } : PS).cur.ty == .IDENT) = false := by simp [PS.cur, h2]
  have c3' : ({ toks := t2 :: t3 :: tail } : PS).peekIs .RBRACES = true := by simp [PS.peekIs, PS.peek, h3]
  simp only [c1, c2', Bool.false_and, Bool.false_eq_true, if_false, hex, c3', if_true, nx2]
  simp [PS.cur]

/-- **`{{ d }}`, parsed** -/
theorem parse_int_source (g1 d g2 : Bytes) (hg1 : allWs g1) (hg2 : allWs g2) (hd : isDigits d) (hb : digitsToNat d ≤ 9223372036854775807) :
    ∃ prog t2, parseSource (intSrc g1 d g2) = .ok prog ∧ prog.stmts = [.expr t2 (.int t2 (Int64.ofNat (digitsToNat d)))] := by
  have hok : GItemsOK [.code (intCode g1 d g2)] := ⟨intCode_ok g1 d g2 hg1 hg2 hd, trivial⟩
  obtain ⟨toks, e, htok, hkeys, he⟩ := tokenize_gitems _ hok
  have hsrc : gsrc [.code (intCode g1 d g2)] = intSrc g1 d g2 := by simp [gsrc, GItem.src, intCode]
  rw [hsrc] at htok
  have hk' : toks.map key = intKeys d := by simpa [gkeys, intCode] using hkeys
  match toks, hk' with
  | [], hk' => simp [intKeys] at hk'
  | [_], hk' => simp [intKeys] at hk'
  | [_, _], hk' => simp [intKeys] at hk'
  | _ :: _ :: _ :: _ :: _, hk' => simp [intKeys] at hk'
  | [t1, t2, t3], hk' =>
    simp only [intKeys, List.map_cons, List.map_nil, List.cons.injEq, and_true] at hk'
    obtain ⟨hk1, hk2, hk3⟩ := hk'
    have ty1 : t1.ty = .LBRACES := congrArg Prod.fst hk1
    have ty2 : t2.ty = .INT := congrArg Prod.fst hk2
    have lit2 : t2.lit = d := congrArg Prod.snd hk2
    have ty3 : t3.ty = .RBRACES := congrArg Prod.fst hk3
    have hce : ∀ x ∈ [e], x.ty ≠ .ILLEGAL := by intro x hx; simp at hx; rw [hx, he]; decide
    have hcl : ∀ x ∈ [t1, t2, t3] ++ [e], x.ty ≠ .ILLEGAL :=
      noill_cons (by rw [ty1]; decide) (noill_cons (by rw [ty2]; decide) (noill_cons (by rw [ty3]; decide) hce))
    refine ⟨{ tok := t1, stmts := [.expr t2 (.int t2 (Int64.ofNat (digitsToNat d)))] }, t2, ?_, rfl⟩
    unfold parseSource
    rw [htok]
    simp only [Bool.false_eq_true, if_false]
    rw [initParser_clean _ hcl]
    have hfuel : parseFuel ([t1, t2, t3] ++ [e]) = 26 + 6 := by simp [parseFuel]
    rw [hfuel]
    have hst := parse_int_stmt 28 t1 t2 t3 [e] _ ty1 ty2 ty3 (by rw [lit2]; exact parseInt64_digits d hd hb) hce
    have hloop : parseProgramLoop (26 + 6) [] ({ toks := [t1, t2, t3] ++ [e] } : PS) =
        (some [.expr t2 (.int t2 (Int64.ofNat (digitsToNat d)))], { toks := [e] }) := by
      rw [show 26 + 6 = 31 + 1 from rfl, parseProgramLoop]
      have c0 : ({ toks := [t1, t2, t3] ++ [e] } : PS).curIs .EOF = false := by simp [PS.curIs, PS.cur, ty1]
      simp only [c0, Bool.false_eq_true, if_false]
      simp only [List.cons_append, List.nil_append] at hst ⊢
      rw [show 31 = 28 + 3 from rfl, hst]
      have i5 : ({ toks := [t3, e] } : PS).curIs .ILLEGAL = false := by simp [PS.curIs, PS.cur, ty3]
      simp only [i5, Bool.false_eq_true, if_false, Stmt.isBad]
      have nx : ({ toks := [t3, e] } : PS).next = { toks := [e] } := ps_next_clean t3 e [] hce
      rw [nx, show 28 + 3 = 30 + 1 from rfl, parseProgramLoop]
      have ce : ({ toks := [e] } : PS).curIs .EOF = true := by simp [PS.curIs, PS.cur, he]
      simp [ce]
    rw [hloop]
    simp [finishParse, PS.cur]

/-! ### `{{ a op b }}` for the operators of the product level -/

/-- the three operators that are one-byte tokens of the table: `*`, `/`, `%` -/
def ProdOp (c : Byte) (ty : TT) : Prop := (c = 42 ∧ ty = .MUL) ∨ (c = 47 ∧ ty = .DIV) ∨ (c = 37 ∧ ty = .MOD)

theorem ProdOp.facts {c : Byte} {ty : TT} (h : ProdOp c ty) :
    simpleToken c = some ty ∧ isNumberCh c = false ∧ c ≠ 46 ∧ (ty == .RBRACES) = false ∧ (ty == .SEMI) = false ∧ (ty == .RPAREN) = false ∧
      precedence ty = PRODUCT ∧ hasInfix ty = true ∧ isBinaryOp ty = true ∧ ty ≠ .ILLEGAL ∧ ty ≠ .EOF := by
  rcases h with ⟨rfl, rfl⟩ | ⟨rfl, rfl⟩ | ⟨rfl, rfl⟩ <;> decide

/-- `{{ g1 a g3 c g4 b g2 }}` -/
def arithSrc (g1 a g3 : Bytes) (c : Byte) (g4 b' g2 : Bytes) : Bytes := [123, 123] ++ g1 ++ a ++ g3 ++ [c] ++ g4 ++ b' ++ g2 ++ [125, 125]

def arithKeys (a : Bytes) (c : Byte) (ty : TT) (b' : Bytes) : List (TT × Bytes) :=
  [(.LBRACES, [123, 123]), (.INT, a), (ty, [c]), (.INT, b'), (.RBRACES, [125, 125])]

theorem lex_arith (s : Lx) (g1 a g3 : Bytes) (c : Byte) (ty : TT) (g4 b' g2 tl : Bytes) (hh : s.isHTML = true) (hb : s.braces = 0)
    (hg1 : allWs g1) (hg2 : allWs g2) (hg3 : allWs g3) (hg4 : allWs g4) (ha : isDigits a) (hbd : isDigits b') (hop : ProdOp c ty)
    (hr : s.rest = arithSrc g1 a g3 c g4 b' g2 ++ tl) :
    ∃ toks s5, Run s toks s5 ∧ toks.map key = arithKeys a c ty b' ∧ s5.rest = tl ∧ s5.prev = 125 ∧
      mode s5 = (true, s.isDirective, s.parens, 0, s.panicked) := by
  obtain ⟨f1, f2, f3, _, _, _, _, _, _, f10, f11⟩ := hop.facts
  obtain ⟨hne, hall⟩ := ha
  have hda : isDigits a := ⟨hne, hall⟩
  have hr' : s.rest = 123 :: 123 :: (g1 ++ (a ++ (g3 ++ (c :: (g4 ++ (b' ++ (g2 ++ (125 :: 125 :: tl)))))))) := by
    rw [hr]; simp [arithSrc, List.append_assoc]
  have hx1 : (g1 ++ (a ++ (g3 ++ (c :: (g4 ++ (b' ++ (g2 ++ (125 :: 125 :: tl)))))))).headD 0 ≠ 45 := by
    cases g1 with
    | nil =>
      match a, hne, hall with
      | c0 :: v, _, hall =>
        simp only [List.nil_append, List.cons_append, List.headD_cons]
        exact (digit_not_special (hall c0 List.mem_cons_self)).2.2.2.2.2.2.2.2.2.2.1
    | cons w t =>
      have hw : isWs w = true := hg1 w List.mem_cons_self
      simp only [List.cons_append, List.headD_cons]
      intro e; rw [e] at hw; cases hw
  obtain ⟨t1, s1, st1, k1, ne1, r1, _, m1⟩ := lex_open s _ hh hr' hx1
  obtain ⟨a1, a2, a3, a4, a5⟩ := mode_fields m1
  have hx2 : isNumberCh ((g3 ++ (c :: (g4 ++ (b' ++ (g2 ++ (125 :: 125 :: tl)))))).headD 0) = false ∧
      (g3 ++ (c :: (g4 ++ (b' ++ (g2 ++ (125 :: 125 :: tl)))))).headD 0 ≠ 46 := by
    cases g3 with
    | nil => simp only [List.nil_append, List.headD_cons]; exact ⟨f2, f3⟩
    | cons w t =>
      have hw : isWs w = true := hg3 w List.mem_cons_self
      simp only [List.cons_append, List.headD_cons]
      exact ⟨ws_not_number hw, fun e => by rw [e] at hw; cases hw⟩
  obtain ⟨t2, s2, st2, k2, ne2, b2⟩ := code_int_step s1 g1 a _ a1 hg1 hda r1 hx2.1 hx2.2
  have h2 : s2.isHTML = false := by rw [mode_html b2.md]; exact a1
  obtain ⟨t3, s3, st3, k3, ty3, b3⟩ := code_simple_step s2 c ty g3 _ f1 h2 hg3 b2.rest
  have h3 : s3.isHTML = false := by rw [mode_html b3.md]; exact h2
  have hx4 := ws_or_brace_not_number g2 tl hg2
  obtain ⟨t4, s4, st4, k4, ne4, b4⟩ := code_int_step s3 g4 b' _ h3 hg4 hbd b3.rest hx4.1 hx4.2
  have h4 : s4.isHTML = false := by rw [mode_html b4.md]; exact h3
  have br4 : s4.braces = 0 := by rw [mode_braces b4.md, mode_braces b3.md, mode_braces b2.md, a4]; exact hb
  obtain ⟨t5, s5, st5, k5, ne5, r5, pv5, m5⟩ := code_close_step s4 g2 tl h4 br4 hg2 b4.rest
  refine ⟨[t1, t2, t3, t4, t5], s5, ?_, ?_, r5, pv5, ?_⟩
  · exact Run.cons _ _ _ _ _ st1 ne1 (Run.cons _ _ _ _ _ st2 ne2 (Run.cons _ _ _ _ _ st3 (by rw [ty3]; exact f11) (Run.cons _ _ _ _ _ st4 ne4
      (Run.cons _ _ _ _ _ st5 ne5 (Run.nil _)))))
  · simp [arithKeys, k1, k2, k3, k4, k5]
  · rw [m5, mode_dir b4.md, mode_dir b3.md, mode_dir b2.md, a2, mode_parens b4.md, mode_parens b3.md, mode_parens b2.md, a3,
      mode_pan b4.md, mode_pan b3.md, mode_pan b2.md, a5]

def arithCode (g1 a g3 : Bytes) (c : Byte) (ty : TT) (g4 b' g2 : Bytes) : Code :=
  { src := arithSrc g1 a g3 c g4 b' g2, keys := arithKeys a c ty b' }

theorem arithCode_ok (g1 a g3 : Bytes) (c : Byte) (ty : TT) (g4 b' g2 : Bytes) (hg1 : allWs g1) (hg2 : allWs g2) (hg3 : allWs g3)
    (hg4 : allWs g4) (ha : isDigits a) (hbd : isDigits b') (hop : ProdOp c ty) : (arithCode g1 a g3 c ty g4 b' g2).OK := by
  refine ⟨?_, ?_, ?_⟩
  · intro tl
    exact Or.inr (Or.inl ⟨g1 ++ a ++ g3 ++ [c] ++ g4 ++ b' ++ g2 ++ [125, 125] ++ tl, by simp [arithCode, arithSrc, List.append_assoc]⟩)
  · simp [arithCode, arithSrc, arithKeys]; omega
  · intro s tl hr hh hb hpa hdi _
    obtain ⟨toks, s5, run, hkeys, r5, pv5, m5⟩ := lex_arith s g1 a g3 c ty g4 b' g2 tl hh hb hg1 hg2 hg3 hg4 ha hbd hop hr
    obtain ⟨f1, f2, f3, f4, f5⟩ := mode_fields m5
    exact ⟨toks, s5, run, hkeys, r5, f1, f4, by rw [f3]; exact hpa, by rw [f2]; exact hdi, f5, by rw [pv5]; decide⟩

/-- `{{ a op b }}` as a statement -/
theorem parse_arith_stmt (g : Nat) (t1 t2 t3 t4 t5 : Token) (tail : List Token) (va vb : Int64) (c : Byte) (ty : TT) (hop : ProdOp c ty)
    (h1 : t1.ty = .LBRACES) (h2 : t2.ty = .INT) (h3 : t3.ty = ty) (h4 : t4.ty = .INT) (h5 : t5.ty = .RBRACES)
    (hva : parseInt64 t2.lit = some va) (hvb : parseInt64 t4.lit = some vb) (hclean : ∀ x ∈ tail, x.ty ≠ .ILLEGAL) :
    parseStatement (g + 5) ({ toks := t1 :: t2 :: t3 :: t4 :: t5 :: tail } : PS) =
      (.expr t4 (.inf t3 t3.lit (.int t2 va) (.int t4 vb)), { toks := t5 :: tail }) := by
  obtain ⟨_, _, _, f4, f5, f6, f7, f8, f9, f10, _⟩ := hop.facts
  have c5 := noill_cons (t := t5) (by rw [h5]; decide) hclean
  have c4 := noill_cons (t := t4) (by rw [h4]; decide) c5
  have c3 := noill_cons (t := t3) (by rw [h3]; exact f10) c4
  have c2 := noill_cons (t := t2) (by rw [h2]; decide) c3
  have nx1 : ({ toks := t1 :: t2 :: t3 :: t4 :: t5 :: tail } : PS).next = { toks := t2 :: t3 :: t4 :: t5 :: tail } := ps_next_clean t1 t2 _ c2
  have nx2 : ({ toks := t2 :: t3 :: t4 :: t5 :: tail } : PS).next = { toks := t3 :: t4 :: t5 :: tail } := ps_next_clean t2 t3 _ c3
  have nx3 : ({ toks := t3 :: t4 :: t5 :: tail } : PS).next = { toks := t4 :: t5 :: tail } := ps_next_clean t3 t4 _ c4
  have nx4 : ({ toks := t4 :: t5 :: tail } : PS).next = { toks := t5 :: tail } := ps_next_clean t4 t5 _ c5
  have hright : parseExpression (g + 2) PRODUCT ({ toks := t4 :: t5 :: tail } : PS) = (.int t4 vb, { toks := t4 :: t5 :: tail }) := by
    rw [parseExpression_succ]
    have hp : prefixBody (parseExpression (g + 1)) (parseExprList (g + 1)) (parseObjLoop (g + 1))
        ({ toks := t4 :: t5 :: tail } : PS) = some (.int t4 vb, { toks := t4 :: t5 :: tail }) := by
      unfold prefixBody
      simp [PS.cur, h4, hvb]
    rw [hp]
    simp only []
    rw [prattLoop_succ]
    have : ({ toks := t4 :: t5 :: tail } : PS).peekIs .RBRACES = true := by simp [PS.peekIs, PS.peek, h5]
    simp [this]
  have hex : parseExpression (g + 4) LOWEST ({ toks := t2 :: t3 :: t4 :: t5 :: tail } : PS) =
      (.inf t3 t3.lit (.int t2 va) (.int t4 vb), { toks := t4 :: t5 :: tail }) := by
    rw [parseExpression_succ]
    have hp : prefixBody (parseExpression (g + 3)) (parseExprList (g + 3)) (parseObjLoop (g + 3))
        ({ toks := t2 :: t3 :: t4 :: t5 :: tail } : PS) = some (.int t2 va, { toks := t2 :: t3 :: t4 :: t5 :: tail }) := by
      unfold prefixBody
      simp [PS.cur, h2, hva]
    rw [hp]
    simp only []
    rw [prattLoop_succ]
    have e1 : ({ toks := t2 :: t3 :: t4 :: t5 :: tail } : PS).peekIs .RBRACES = false := by simp [PS.peekIs, PS.peek, h3, f4]
    have e2 : ({ toks := t2 :: t3 :: t4 :: t5 :: tail } : PS).peekIs .SEMI = false := by simp [PS.peekIs, PS.peek, h3, f5]
    have e3 : ({ toks := t2 :: t3 :: t4 :: t5 :: tail } : PS).peekIs .RPAREN = false := by simp [PS.peekIs, PS.peek, h3, f6]
    have e4 : ({ toks := t2 :: t3 :: t4 :: t5 :: tail } : PS).peekPrecedence = PRODUCT := by simp [PS.peekPrecedence, PS.peek, h3, f7]
    have e5 : ({ toks := t2 :: t3 :: t4 :: t5 :: tail } : PS).peek.ty = ty := by simp [PS.peek, h3]
    simp only [e1, e2, e3, e4, e5, Bool.or_self, show (!decide (LOWEST < PRODUCT)) = false from by decide,
      Bool.false_eq_true, if_false, f8, Bool.not_true, nx2]
    have hinf : infixBody (parseExpression (g + 2)) (parseExprList (g + 2)) (.int t2 va) ({ toks := t3 :: t4 :: t5 :: tail } : PS) =
        (.inf t3 t3.lit (.int t2 va) (.int t4 vb), { toks := t4 :: t5 :: tail }) := by
      unfold infixBody
      have c0 : ({ toks := t3 :: t4 :: t5 :: tail } : PS).cur = t3 := rfl
      have cp : ({ toks := t3 :: t4 :: t5 :: tail } : PS).curPrecedence = PRODUCT := by simp [PS.curPrecedence, PS.cur, h3, f7]
      have cr : ({ toks := t4 :: t5 :: tail } : PS).curIs .RBRACES = false := by simp [PS.curIs, PS.cur, h4]
      simp only [c0, h3, f9, if_true, nx3, cr, Bool.false_eq_true, if_false, cp, hright]
    rw [hinf]
    simp only []
    rw [prattLoop_succ]
    have : ({ toks := t4 :: t5 :: tail } : PS).peekIs .RBRACES = true := by simp [PS.peekIs, PS.peek, h5]
    simp [this]
  show statementBody (parseExpression (g + 4)) (parseExprList (g + 4)) (parseBody (g + 4)) (parseIfTail (g + 4)) (parseSlots (g + 4))
    ({ toks := t1 :: t2 :: t3 :: t4 :: t5 :: tail } : PS) = _
  have hc : ({ toks := t1 :: t2 :: t3 :: t4 :: t5 :: tail } : PS).cur.ty = .LBRACES := by simp [PS.cur, h1]
  unfold statementBody
  simp only [hc]
  unfold parseEmbeddedCode
  simp only [nx1]
  have c1 : ({ toks := t2 :: t3 :: t4 :: t5 :: tail } : PS).curIs .RBRACES = false := by simp [PS.curIs, PS.cur, h2]
  have c2' : (({ toks := t2 :: t3 :: t4 :: t5 :: tail } : PS).cur.ty == .IDENT) = false := by simp [PS.cur, h2]
  have c3' : ({ toks := t4 :: t5 :: tail } : PS).peekIs .RBRACES = true := by simp [PS.peekIs, PS.peek, h5]
  simp only [c1, c2', Bool.false_and, Bool.false_eq_true, if_false, hex, c3', if_true, nx4]
  simp [PS.cur]

/-- **`{{ a op b }}`, parsed** -/
theorem parse_arith_source (g1 a g3 : Bytes) (c : Byte) (ty : TT) (g4 b' g2 : Bytes) (hg1 : allWs g1) (hg2 : allWs g2) (hg3 : allWs g3)
    (hg4 : allWs g4) (ha : isDigits a) (hbd : isDigits b') (hop : ProdOp c ty) (hba : digitsToNat a ≤ 9223372036854775807)
    (hbb : digitsToNat b' ≤ 9223372036854775807) :
    ∃ prog t2 t3 t4, parseSource (arithSrc g1 a g3 c g4 b' g2) = .ok prog ∧
      prog.stmts = [.expr t4 (.inf t3 [c] (.int t2 (Int64.ofNat (digitsToNat a))) (.int t4 (Int64.ofNat (digitsToNat b'))))] := by
  obtain ⟨_, _, _, _, _, _, _, _, _, f10, _⟩ := hop.facts
  have hok : GItemsOK [.code (arithCode g1 a g3 c ty g4 b' g2)] := ⟨arithCode_ok g1 a g3 c ty g4 b' g2 hg1 hg2 hg3 hg4 ha hbd hop, trivial⟩
  obtain ⟨toks, e, htok, hkeys, he⟩ := tokenize_gitems _ hok
  have hsrc : gsrc [.code (arithCode g1 a g3 c ty g4 b' g2)] = arithSrc g1 a g3 c g4 b' g2 := by simp [gsrc, GItem.src, arithCode]
  rw [hsrc] at htok
  have hk' : toks.map key = arithKeys a c ty b' := by simpa [gkeys, arithCode] using hkeys
  match toks, hk' with
  | [], hk' => simp [arithKeys] at hk'
  | [_], hk' => simp [arithKeys] at hk'
  | [_, _], hk' => simp [arithKeys] at hk'
  | [_, _, _], hk' => simp [arithKeys] at hk'
  | [_, _, _, _], hk' => simp [arithKeys] at hk'
  | _ :: _ :: _ :: _ :: _ :: _ :: _, hk' => simp [arithKeys] at hk'
  | [t1, t2, t3, t4, t5], hk' =>
    simp only [arithKeys, List.map_cons, List.map_nil, List.cons.injEq, and_true] at hk'
    obtain ⟨hk1, hk2, hk3, hk4, hk5⟩ := hk'
    have ty1 : t1.ty = .LBRACES := congrArg Prod.fst hk1
    have ty2 : t2.ty = .INT := congrArg Prod.fst hk2
    have lit2 : t2.lit = a := congrArg Prod.snd hk2
    have ty3 : t3.ty = ty := congrArg Prod.fst hk3
    have lit3 : t3.lit = [c] := congrArg Prod.snd hk3
    have ty4 : t4.ty = .INT := congrArg Prod.fst hk4
    have lit4 : t4.lit = b' := congrArg Prod.snd hk4
    have ty5 : t5.ty = .RBRACES := congrArg Prod.fst hk5
    have hce : ∀ x ∈ [e], x.ty ≠ .ILLEGAL := by intro x hx; simp at hx; rw [hx, he]; decide
    have hcl : ∀ x ∈ [t1, t2, t3, t4, t5] ++ [e], x.ty ≠ .ILLEGAL :=
      noill_cons (by rw [ty1]; decide) (noill_cons (by rw [ty2]; decide) (noill_cons (by rw [ty3]; exact f10)
        (noill_cons (by rw [ty4]; decide) (noill_cons (by rw [ty5]; decide) hce))))
    refine ⟨{ tok := t1, stmts := [.expr t4 (.inf t3 [c] (.int t2 (Int64.ofNat (digitsToNat a))) (.int t4 (Int64.ofNat (digitsToNat b'))))] },
      t2, t3, t4, ?_, rfl⟩
    unfold parseSource
    rw [htok]
    simp only [Bool.false_eq_true, if_false]
    rw [initParser_clean _ hcl]
    have hfuel : parseFuel ([t1, t2, t3, t4, t5] ++ [e]) = 34 + 6 := by simp [parseFuel]
    rw [hfuel]
    have hst := parse_arith_stmt 34 t1 t2 t3 t4 t5 [e] _ _ c ty hop ty1 ty2 ty3 ty4 ty5
      (by rw [lit2]; exact parseInt64_digits a ha hba) (by rw [lit4]; exact parseInt64_digits b' hbd hbb) hce
    have hloop : parseProgramLoop (34 + 6) [] ({ toks := [t1, t2, t3, t4, t5] ++ [e] } : PS) =
        (some [.expr t4 (.inf t3 t3.lit (.int t2 (Int64.ofNat (digitsToNat a))) (.int t4 (Int64.ofNat (digitsToNat b'))))], { toks := [e] }) := by
      rw [show 34 + 6 = 39 + 1 from rfl, parseProgramLoop]
      have c0 : ({ toks := [t1, t2, t3, t4, t5] ++ [e] } : PS).curIs .EOF = false := by simp [PS.curIs, PS.cur, ty1]
      simp only [c0, Bool.false_eq_true, if_false]
      simp only [List.cons_append, List.nil_append] at hst ⊢
      rw [show 39 = 34 + 5 from rfl, hst]
      have i5 : ({ toks := [t5, e] } : PS).curIs .ILLEGAL = false := by simp [PS.curIs, PS.cur, ty5]
      simp only [i5, Bool.false_eq_true, if_false, Stmt.isBad]
      have nx : ({ toks := [t5, e] } : PS).next = { toks := [e] } := ps_next_clean t5 e [] hce
      rw [nx, show 34 + 5 = 38 + 1 from rfl, parseProgramLoop]
      have ce : ({ toks := [e] } : PS).curIs .EOF = true := by simp [PS.curIs, PS.cur, he]
      simp [ce]
    rw [hloop]
    simp [finishParse, PS.cur, lit3]

end Tw
