/-
  TwProofs.Lemmas.TextArith4 — `{{ a op1 ( b op2 d ) }}`: parentheses around the right operand, from the
  source bytes to the parsed program (C01: parentheses override the binding powers).
-/
import TwProofs.Lemmas.TextArith3
import TwProofs.Lemmas.TextCallNum
namespace Tw
open Lx

/-- "(" after any white space, in code outside a directive's argument list -/
theorem code_lparen_plain_ws_step (s : Lx) (g x : Bytes) (hh : s.isHTML = false) (hd : s.isDirective = false) (hg : allWs g)
    (hr : s.rest = g ++ (40 :: x)) :
    ∃ t s1, nextStep s = (.tok t, s1) ∧ key t = (.LPAREN, [40]) ∧ t.ty ≠ .EOF ∧ After s s1 x 40 := by
  obtain ⟨w1, w2⟩ := skipWs_code s hh g _ hg hr (by simp only [List.headD_cons]; decide)
  have hd2 := codeStepDesc_lparen (skipWs s) _ w1
  have hdir2 : (skipWs s).isDirective = false := by rw [mode_dir w2]; exact hd
  rw [hdir2] at hd2
  simp only [Bool.false_eq_true, if_false] at hd2
  have st2 := stepAt_code (skipWs s) (by rw [mode_html w2]; exact hh) (by rw [w1]; simp) (by simp [Lx.char, w1])
  obtain ⟨a1, a2, a3⟩ := emit_after (codeStepDesc (skipWs s)) [40] x (by simp) (by rw [hd2]; simpa using w1) (by rw [hd2]; rfl)
  refine ⟨(codeStepDesc (skipWs s)).emit.1, (codeStepDesc (skipWs s)).emit.2, by unfold nextStep; exact st2, ?_, ?_, ⟨a1, ?_, by rw [a3]; rfl⟩⟩
  · unfold TokDesc.emit; rw [emit_key, hd2]
  · unfold TokDesc.emit; rw [emit_ty, hd2]; exact fun h => by cases h
  · rw [a2, hd2, w2]

/-- `{{ g1 a g3 c1 g4 ( g5 b g6 c2 g7 d g8 ) g2 }}` -/
def parenSrc (g1 a g3 : Bytes) (c1 : Byte) (g4 g5 b' g6 : Bytes) (c2 : Byte) (g7 d g8 g2 : Bytes) : Bytes :=
  [123, 123] ++ g1 ++ a ++ g3 ++ [c1] ++ g4 ++ [40] ++ g5 ++ b' ++ g6 ++ [c2] ++ g7 ++ d ++ g8 ++ [41] ++ g2 ++ [125, 125]

def parenKeys (a : Bytes) (c1 : Byte) (ty1 : TT) (b' : Bytes) (c2 : Byte) (ty2 : TT) (d : Bytes) : List (TT × Bytes) :=
  [(.LBRACES, [123, 123]), (.INT, a), (ty1, [c1]), (.LPAREN, [40]), (.INT, b'), (ty2, [c2]), (.INT, d), (.RPAREN, [41]), (.RBRACES, [125, 125])]

theorem lex_paren (s : Lx) (g1 a g3 : Bytes) (c1 : Byte) (ty1 : TT) (pr1 : Nat) (g4 g5 b' g6 : Bytes) (c2 : Byte) (ty2 : TT) (pr2 : Nat)
    (g7 d g8 g2 tl : Bytes) (hh : s.isHTML = true) (hb : s.braces = 0) (hdir : s.isDirective = false)
    (hg1 : allWs g1) (hg2 : allWs g2) (hg3 : allWs g3) (hg4 : allWs g4) (hg5 : allWs g5) (hg6 : allWs g6) (hg7 : allWs g7) (hg8 : allWs g8)
    (ha : isDigits a) (hbd : isDigits b') (hdd : isDigits d) (hop1 : ArithOp c1 ty1 pr1) (hop2 : ArithOp c2 ty2 pr2)
    (hr : s.rest = parenSrc g1 a g3 c1 g4 g5 b' g6 c2 g7 d g8 g2 ++ tl) :
    ∃ toks s9, Run s toks s9 ∧ toks.map key = parenKeys a c1 ty1 b' c2 ty2 d ∧ s9.rest = tl ∧ s9.prev = 125 ∧
      mode s9 = (true, false, s.parens, 0, s.panicked) := by
  obtain ⟨p1, p2, p3, _, _, _, _, _, _, _, p11, _⟩ := hop1.facts
  obtain ⟨q1, q2, q3, _, _, _, _, _, _, _, q11, _⟩ := hop2.facts
  obtain ⟨hne, hall⟩ := ha
  have hda : isDigits a := ⟨hne, hall⟩
  have hr' : s.rest = 123 :: 123 :: (g1 ++ (a ++ (g3 ++ (c1 :: (g4 ++ (40 :: (g5 ++ (b' ++ (g6 ++ (c2 :: (g7 ++ (d ++ (g8 ++ (41 :: (g2 ++ (125 :: 125 :: tl)))))))))))))))) := by
    rw [hr]; simp only [parenSrc, List.append_assoc, List.cons_append, List.nil_append]
  obtain ⟨t1, s1, st1, k1, ne1, r1, _, m1⟩ := lex_open s _ hh hr' (ws_then_digits_not_op g1 a _ 45 hg1 hda (by decide) (by decide))
  obtain ⟨a1, a2, a3, a4, a5⟩ := mode_fields m1
  have hx2 := ws_then_op_not_number g3 (g4 ++ (40 :: (g5 ++ (b' ++ (g6 ++ (c2 :: (g7 ++ (d ++ (g8 ++ (41 :: (g2 ++ (125 :: 125 :: tl)))))))))))) c1 hg3 p2 p3
  obtain ⟨t2, s2, st2, k2, ne2, b2⟩ := code_int_step s1 g1 a _ a1 hg1 hda r1 hx2.1 hx2.2
  have h2 : s2.isHTML = false := by rw [mode_html b2.md]; exact a1
  have d2 : s2.isDirective = false := by rw [mode_dir b2.md, a2]; exact hdir
  have hx3 : (g4 ++ (40 :: (g5 ++ (b' ++ (g6 ++ (c2 :: (g7 ++ (d ++ (g8 ++ (41 :: (g2 ++ (125 :: 125 :: tl)))))))))))).headD 0 ≠ c1 := by
    cases g4 with
    | nil =>
      simp only [List.nil_append, List.headD_cons]
      intro e
      have := hop1.facts.2.2.2.2.2.2.2.2.1
      rcases hop1 with ⟨⟨rfl, _⟩ | ⟨rfl, _⟩ | ⟨rfl, _⟩, _⟩ | ⟨⟨rfl, _⟩ | ⟨rfl, _⟩, _⟩ <;> cases e
    | cons w t =>
      have hw : isWs w = true := hg4 w List.mem_cons_self
      simp only [List.cons_append, List.headD_cons]
      intro e; rw [e, p1] at hw; cases hw
  obtain ⟨t3, s3, st3, k3, ty3, b3⟩ := code_arithop_step s2 c1 ty1 pr1 g3 _ hop1 h2 hg3 b2.rest hx3
  have h3 : s3.isHTML = false := by rw [mode_html b3.md]; exact h2
  have d3 : s3.isDirective = false := by rw [mode_dir b3.md]; exact d2
  obtain ⟨t4, s4, st4, k4, ne4, b4⟩ := code_lparen_plain_ws_step s3 g4 _ h3 d3 hg4 b3.rest
  have h4 : s4.isHTML = false := by rw [mode_html b4.md]; exact h3
  have hx5 := ws_then_op_not_number g6 (g7 ++ (d ++ (g8 ++ (41 :: (g2 ++ (125 :: 125 :: tl)))))) c2 hg6 q2 q3
  obtain ⟨t5, s5, st5, k5, ne5, b5⟩ := code_int_step s4 g5 b' _ h4 hg5 hbd b4.rest hx5.1 hx5.2
  have h5 : s5.isHTML = false := by rw [mode_html b5.md]; exact h4
  have hx6 := ws_then_digits_not_op g7 d (g8 ++ (41 :: (g2 ++ (125 :: 125 :: tl)))) c2 hg7 hdd q1 q2
  obtain ⟨t6, s6, st6, k6, ty6, b6⟩ := code_arithop_step s5 c2 ty2 pr2 g6 _ hop2 h5 hg6 b5.rest hx6
  have h6 : s6.isHTML = false := by rw [mode_html b6.md]; exact h5
  have hx7 := ws_then_op_not_number g8 (g2 ++ (125 :: 125 :: tl)) 41 hg8 (by decide) (by decide)
  obtain ⟨t7, s7, st7, k7, ne7, b7⟩ := code_int_step s6 g7 d _ h6 hg7 hdd b6.rest hx7.1 hx7.2
  have h7 : s7.isHTML = false := by rw [mode_html b7.md]; exact h6
  have d7 : s7.isDirective = false := by rw [mode_dir b7.md, mode_dir b6.md, mode_dir b5.md, mode_dir b4.md]; exact d3
  obtain ⟨t8, s8, st8, k8, ne8, b8⟩ := code_rparen_plain_ws_step s7 g8 _ h7 d7 hg8 b7.rest
  have h8 : s8.isHTML = false := by rw [mode_html b8.md]; exact h7
  have br8 : s8.braces = 0 := by
    rw [mode_braces b8.md, mode_braces b7.md, mode_braces b6.md, mode_braces b5.md, mode_braces b4.md, mode_braces b3.md, mode_braces b2.md, a4]
    exact hb
  obtain ⟨t9, s9, st9, k9, ne9, r9, pv9, m9⟩ := code_close_step s8 g2 tl h8 br8 hg2 b8.rest
  refine ⟨[t1, t2, t3, t4, t5, t6, t7, t8, t9], s9, ?_, ?_, r9, pv9, ?_⟩
  · exact Run.cons _ _ _ _ _ st1 ne1 (Run.cons _ _ _ _ _ st2 ne2 (Run.cons _ _ _ _ _ st3 (by rw [ty3]; exact p11) (Run.cons _ _ _ _ _ st4 ne4
      (Run.cons _ _ _ _ _ st5 ne5 (Run.cons _ _ _ _ _ st6 (by rw [ty6]; exact q11) (Run.cons _ _ _ _ _ st7 ne7
        (Run.cons _ _ _ _ _ st8 ne8 (Run.cons _ _ _ _ _ st9 ne9 (Run.nil _)))))))))
  · simp [parenKeys, k1, k2, k3, k4, k5, k6, k7, k8, k9]
  · rw [m9, mode_dir b8.md, d7, mode_parens b8.md, mode_parens b7.md, mode_parens b6.md, mode_parens b5.md, mode_parens b4.md,
      mode_parens b3.md, mode_parens b2.md, a3, mode_pan b8.md, mode_pan b7.md, mode_pan b6.md, mode_pan b5.md, mode_pan b4.md,
      mode_pan b3.md, mode_pan b2.md, a5]

def parenCode (g1 a g3 : Bytes) (c1 : Byte) (ty1 : TT) (g4 g5 b' g6 : Bytes) (c2 : Byte) (ty2 : TT) (g7 d g8 g2 : Bytes) : Code :=
  { src := parenSrc g1 a g3 c1 g4 g5 b' g6 c2 g7 d g8 g2, keys := parenKeys a c1 ty1 b' c2 ty2 d }

theorem parenCode_ok (g1 a g3 : Bytes) (c1 : Byte) (ty1 : TT) (pr1 : Nat) (g4 g5 b' g6 : Bytes) (c2 : Byte) (ty2 : TT) (pr2 : Nat) (g7 d g8 g2 : Bytes)
    (hg1 : allWs g1) (hg2 : allWs g2) (hg3 : allWs g3) (hg4 : allWs g4) (hg5 : allWs g5) (hg6 : allWs g6) (hg7 : allWs g7) (hg8 : allWs g8)
    (ha : isDigits a) (hbd : isDigits b') (hdd : isDigits d) (hop1 : ArithOp c1 ty1 pr1) (hop2 : ArithOp c2 ty2 pr2) :
    (parenCode g1 a g3 c1 ty1 g4 g5 b' g6 c2 ty2 g7 d g8 g2).OK := by
  refine ⟨?_, ?_, ?_⟩
  · intro tl
    exact Or.inr (Or.inl ⟨g1 ++ a ++ g3 ++ [c1] ++ g4 ++ [40] ++ g5 ++ b' ++ g6 ++ [c2] ++ g7 ++ d ++ g8 ++ [41] ++ g2 ++ [125, 125] ++ tl,
      by simp [parenCode, parenSrc, List.append_assoc]⟩)
  · have la : 0 < a.length := List.length_pos_iff.mpr ha.1
    simp [parenCode, parenSrc, parenKeys]; omega
  · intro s tl hr hh hb hpa hdi _
    obtain ⟨toks, s9, run, hkeys, r9, pv9, m9⟩ := lex_paren s g1 a g3 c1 ty1 pr1 g4 g5 b' g6 c2 ty2 pr2 g7 d g8 g2 tl hh hb hdi
      hg1 hg2 hg3 hg4 hg5 hg6 hg7 hg8 ha hbd hdd hop1 hop2 hr
    obtain ⟨f1, f2, f3, f4, f5⟩ := mode_fields m9
    exact ⟨toks, s9, run, hkeys, r9, f1, f4, by rw [f3]; exact hpa, f2, f5, by rw [pv9]; decide⟩

/-- the loop stops before a closing parenthesis -/
theorem prattLoop_stop_rparen (f prec : Nat) (left : Expr) (t tn : Token) (rest : List Token) (h : tn.ty = .RPAREN) :
    prattLoop (f + 1) prec left ({ toks := t :: tn :: rest } : PS) = (left, { toks := t :: tn :: rest }) := by
  rw [prattLoop_succ]
  have : ({ toks := t :: tn :: rest } : PS).peekIs .RPAREN = true := by simp [PS.peekIs, PS.peek, h]
  simp [this]

/-- `a op1 ( b op2 d )`: the parenthesised part is one operand, whatever the binding powers -/
theorem parse_paren_expr (k : Nat) (t2 t3 t4 t5 t6 t7 t8 t9 : Token) (tail : List Token) (va vb vd : Int64)
    (c1 : Byte) (ty1 : TT) (pr1 : Nat) (c2 : Byte) (ty2 : TT) (pr2 : Nat) (hop1 : ArithOp c1 ty1 pr1) (hop2 : ArithOp c2 ty2 pr2)
    (h2 : t2.ty = .INT) (h3 : t3.ty = ty1) (h4 : t4.ty = .LPAREN) (h5 : t5.ty = .INT) (h6 : t6.ty = ty2) (h7 : t7.ty = .INT)
    (h8 : t8.ty = .RPAREN) (h9 : t9.ty = .RBRACES)
    (hva : parseInt64 t2.lit = some va) (hvb : parseInt64 t5.lit = some vb) (hvd : parseInt64 t7.lit = some vd)
    (hclean : ∀ x ∈ tail, x.ty ≠ .ILLEGAL) :
    parseExpression (k + 7) LOWEST ({ toks := t2 :: t3 :: t4 :: t5 :: t6 :: t7 :: t8 :: t9 :: tail } : PS) =
      (.inf t3 t3.lit (.int t2 va) (.inf t6 t6.lit (.int t5 vb) (.int t7 vd)), { toks := t8 :: t9 :: tail }) := by
  obtain ⟨_, _, _, _, _, _, p7, _, _, p10, _, p12⟩ := hop1.facts
  obtain ⟨_, _, _, _, _, _, q7, _, _, q10, _, q12⟩ := hop2.facts
  have l1 : LOWEST < pr1 := by simpa using p12
  have l2 : LOWEST < pr2 := by simpa using q12
  have c9 := noill_cons (t := t9) (by rw [h9]; decide) hclean
  have c8 := noill_cons (t := t8) (by rw [h8]; decide) c9
  have c7 := noill_cons (t := t7) (by rw [h7]; decide) c8
  have c6 := noill_cons (t := t6) (by rw [h6]; exact q10) c7
  have c5 := noill_cons (t := t5) (by rw [h5]; decide) c6
  have c4 := noill_cons (t := t4) (by rw [h4]; decide) c5
  have nx4 : ({ toks := t4 :: t5 :: t6 :: t7 :: t8 :: t9 :: tail } : PS).next = { toks := t5 :: t6 :: t7 :: t8 :: t9 :: tail } := ps_next_clean t4 t5 _ c5
  have nx7 : ({ toks := t7 :: t8 :: t9 :: tail } : PS).next = { toks := t8 :: t9 :: tail } := ps_next_clean t7 t8 _ c8
  have n4 : t4.ty ≠ .RBRACES := by rw [h4]; decide
  have n7 : t7.ty ≠ .RBRACES := by rw [h7]; decide
  -- the last number, up to ")"
  have hd : parseExpression (k + 2) pr2 ({ toks := t7 :: t8 :: t9 :: tail } : PS) = (.int t7 vd, { toks := t7 :: t8 :: t9 :: tail }) :=
    parse_int_operand k pr2 t7 t8 (t9 :: tail) vd h7 hvd (Or.inr (by rw [h8, show precedence TT.RPAREN = LOWEST from by decide]; omega))
  -- inside the parentheses
  have hin : parseExpression (k + 4) LOWEST ({ toks := t5 :: t6 :: t7 :: t8 :: t9 :: tail } : PS) =
      (.inf t6 t6.lit (.int t5 vb) (.int t7 vd), { toks := t7 :: t8 :: t9 :: tail }) := by
    rw [parseExpression_succ]
    have hp5 : prefixBody (parseExpression (k + 3)) (parseExprList (k + 3)) (parseObjLoop (k + 3))
        ({ toks := t5 :: t6 :: t7 :: t8 :: t9 :: tail } : PS) = some (.int t5 vb, { toks := t5 :: t6 :: t7 :: t8 :: t9 :: tail }) := by
      unfold prefixBody
      simp [PS.cur, h5, hvb]
    rw [hp5]
    simp only []
    rw [prattLoop_arith_step (k + 2) LOWEST (.int t5 vb) (.int t7 vd) t5 t6 t7 (t8 :: t9 :: tail) (t7 :: t8 :: t9 :: tail) c2 ty2 pr2 hop2 h6 l2 n7 c7 hd]
    exact prattLoop_stop_rparen (k + 1) LOWEST _ t7 t8 (t9 :: tail) h8
  -- the parenthesised operand
  have hpar : parseExpression (k + 5) pr1 ({ toks := t4 :: t5 :: t6 :: t7 :: t8 :: t9 :: tail } : PS) =
      (.inf t6 t6.lit (.int t5 vb) (.int t7 vd), { toks := t8 :: t9 :: tail }) := by
    rw [parseExpression_succ]
    have hp4 : prefixBody (parseExpression (k + 4)) (parseExprList (k + 4)) (parseObjLoop (k + 4))
        ({ toks := t4 :: t5 :: t6 :: t7 :: t8 :: t9 :: tail } : PS) = some (.inf t6 t6.lit (.int t5 vb) (.int t7 vd), { toks := t8 :: t9 :: tail }) := by
      unfold prefixBody
      have c0 : ({ toks := t4 :: t5 :: t6 :: t7 :: t8 :: t9 :: tail } : PS).cur.ty = .LPAREN := by simp [PS.cur, h4]
      simp only [c0, nx4, hin]
      have ep := expectPeek_ok ({ toks := t7 :: t8 :: t9 :: tail } : PS) .RPAREN (by simp [PS.peekIs, PS.peek, h8])
      simp [ep, nx7]
    rw [hp4]
    simp only []
    exact prattLoop_stop_rbraces (k + 3) pr1 _ t8 t9 tail h9
  rw [parseExpression_succ]
  have hp : prefixBody (parseExpression (k + 6)) (parseExprList (k + 6)) (parseObjLoop (k + 6))
      ({ toks := t2 :: t3 :: t4 :: t5 :: t6 :: t7 :: t8 :: t9 :: tail } : PS) =
        some (.int t2 va, { toks := t2 :: t3 :: t4 :: t5 :: t6 :: t7 :: t8 :: t9 :: tail }) := by
    unfold prefixBody
    simp [PS.cur, h2, hva]
  rw [hp]
  simp only []
  rw [prattLoop_arith_step (k + 5) LOWEST (.int t2 va) _ t2 t3 t4 (t5 :: t6 :: t7 :: t8 :: t9 :: tail) (t8 :: t9 :: tail) c1 ty1 pr1 hop1 h3 l1 n4 c4 hpar]
  exact prattLoop_stop_rbraces (k + 4) LOWEST _ t8 t9 tail h9

/-- **`{{ a op1 ( b op2 d ) }}`, parsed** -/
theorem parse_paren_source (g1 a g3 : Bytes) (c1 : Byte) (ty1 : TT) (pr1 : Nat) (g4 g5 b' g6 : Bytes) (c2 : Byte) (ty2 : TT) (pr2 : Nat)
    (g7 d g8 g2 : Bytes)
    (hg1 : allWs g1) (hg2 : allWs g2) (hg3 : allWs g3) (hg4 : allWs g4) (hg5 : allWs g5) (hg6 : allWs g6) (hg7 : allWs g7) (hg8 : allWs g8)
    (ha : isDigits a) (hbd : isDigits b') (hdd : isDigits d) (hop1 : ArithOp c1 ty1 pr1) (hop2 : ArithOp c2 ty2 pr2)
    (hba : digitsToNat a ≤ 9223372036854775807) (hbb : digitsToNat b' ≤ 9223372036854775807) (hbd' : digitsToNat d ≤ 9223372036854775807) :
    ∃ prog t2 t3 t5 t6 t7 t8, parseSource (parenSrc g1 a g3 c1 g4 g5 b' g6 c2 g7 d g8 g2) = .ok prog ∧
      prog.stmts = [.expr t8 (.inf t3 [c1] (.int t2 (Int64.ofNat (digitsToNat a)))
        (.inf t6 [c2] (.int t5 (Int64.ofNat (digitsToNat b'))) (.int t7 (Int64.ofNat (digitsToNat d)))))] := by
  obtain ⟨_, _, _, _, _, _, _, _, _, p10, _, _⟩ := hop1.facts
  obtain ⟨_, _, _, _, _, _, _, _, _, q10, _, _⟩ := hop2.facts
  have hok : GItemsOK [.code (parenCode g1 a g3 c1 ty1 g4 g5 b' g6 c2 ty2 g7 d g8 g2)] :=
    ⟨parenCode_ok g1 a g3 c1 ty1 pr1 g4 g5 b' g6 c2 ty2 pr2 g7 d g8 g2 hg1 hg2 hg3 hg4 hg5 hg6 hg7 hg8 ha hbd hdd hop1 hop2, trivial⟩
  obtain ⟨toks, e, htok, hkeys, he⟩ := tokenize_gitems _ hok
  have hsrc : gsrc [.code (parenCode g1 a g3 c1 ty1 g4 g5 b' g6 c2 ty2 g7 d g8 g2)] = parenSrc g1 a g3 c1 g4 g5 b' g6 c2 g7 d g8 g2 := by
    simp [gsrc, GItem.src, parenCode]
  rw [hsrc] at htok
  have hk' : toks.map key = parenKeys a c1 ty1 b' c2 ty2 d := by simpa [gkeys, parenCode] using hkeys
  match toks, hk' with
  | [], hk' => simp [parenKeys] at hk'
  | [_], hk' => simp [parenKeys] at hk'
  | [_, _], hk' => simp [parenKeys] at hk'
  | [_, _, _], hk' => simp [parenKeys] at hk'
  | [_, _, _, _], hk' => simp [parenKeys] at hk'
  | [_, _, _, _, _], hk' => simp [parenKeys] at hk'
  | [_, _, _, _, _, _], hk' => simp [parenKeys] at hk'
  | [_, _, _, _, _, _, _], hk' => simp [parenKeys] at hk'
  | [_, _, _, _, _, _, _, _], hk' => simp [parenKeys] at hk'
  | _ :: _ :: _ :: _ :: _ :: _ :: _ :: _ :: _ :: _ :: _, hk' => simp [parenKeys] at hk'
  | [t1, t2, t3, t4, t5, t6, t7, t8, t9], hk' =>
    simp only [parenKeys, List.map_cons, List.map_nil, List.cons.injEq, and_true] at hk'
    obtain ⟨hk1, hk2, hk3, hk4, hk5, hk6, hk7, hk8, hk9⟩ := hk'
    have ty1' : t1.ty = .LBRACES := congrArg Prod.fst hk1
    have ty2' : t2.ty = .INT := congrArg Prod.fst hk2
    have lit2 : t2.lit = a := congrArg Prod.snd hk2
    have ty3' : t3.ty = ty1 := congrArg Prod.fst hk3
    have lit3 : t3.lit = [c1] := congrArg Prod.snd hk3
    have ty4' : t4.ty = .LPAREN := congrArg Prod.fst hk4
    have ty5' : t5.ty = .INT := congrArg Prod.fst hk5
    have lit5 : t5.lit = b' := congrArg Prod.snd hk5
    have ty6' : t6.ty = ty2 := congrArg Prod.fst hk6
    have lit6 : t6.lit = [c2] := congrArg Prod.snd hk6
    have ty7' : t7.ty = .INT := congrArg Prod.fst hk7
    have lit7 : t7.lit = d := congrArg Prod.snd hk7
    have ty8' : t8.ty = .RPAREN := congrArg Prod.fst hk8
    have ty9' : t9.ty = .RBRACES := congrArg Prod.fst hk9
    have hce : ∀ x ∈ [e], x.ty ≠ .ILLEGAL := by intro x hx; simp at hx; rw [hx, he]; decide
    have c9 := noill_cons (t := t9) (by rw [ty9']; decide) hce
    have c8 := noill_cons (t := t8) (by rw [ty8']; decide) c9
    have c7 := noill_cons (t := t7) (by rw [ty7']; decide) c8
    have c6 := noill_cons (t := t6) (by rw [ty6']; exact q10) c7
    have c5 := noill_cons (t := t5) (by rw [ty5']; decide) c6
    have c4 := noill_cons (t := t4) (by rw [ty4']; decide) c5
    have c3 := noill_cons (t := t3) (by rw [ty3']; exact p10) c4
    have c2' := noill_cons (t := t2) (by rw [ty2']; decide) c3
    have hcl : ∀ x ∈ [t1, t2, t3, t4, t5, t6, t7, t8, t9] ++ [e], x.ty ≠ .ILLEGAL := noill_cons (by rw [ty1']; decide) c2'
    refine ⟨{ tok := t1, stmts := [.expr t8 (.inf t3 [c1] (.int t2 (Int64.ofNat (digitsToNat a)))
      (.inf t6 [c2] (.int t5 (Int64.ofNat (digitsToNat b'))) (.int t7 (Int64.ofNat (digitsToNat d)))))] }, t2, t3, t5, t6, t7, t8, ?_, rfl⟩
    unfold parseSource
    rw [htok]
    simp only [Bool.false_eq_true, if_false]
    rw [initParser_clean _ hcl]
    have hfuel : parseFuel ([t1, t2, t3, t4, t5, t6, t7, t8, t9] ++ [e]) = 50 + 6 := by simp [parseFuel]
    rw [hfuel]
    have hex := parse_paren_expr 47 t2 t3 t4 t5 t6 t7 t8 t9 [e] _ _ _ c1 ty1 pr1 c2 ty2 pr2 hop1 hop2 ty2' ty3' ty4' ty5' ty6' ty7' ty8' ty9'
      (by rw [lit2]; exact parseInt64_digits a ha hba) (by rw [lit5]; exact parseInt64_digits b' hbd hbb)
      (by rw [lit7]; exact parseInt64_digits d hdd hbd') hce
    have hst := parse_expr_stmt_of 54 t1 t2 t8 t9 [t3, t4, t5, t6, t7, t8, t9, e] [e] _ ty1' ty2' ty9' c2' c8 hex
    have hloop : parseProgramLoop (50 + 6) [] ({ toks := [t1, t2, t3, t4, t5, t6, t7, t8, t9] ++ [e] } : PS) =
        (some [.expr t8 (.inf t3 t3.lit (.int t2 (Int64.ofNat (digitsToNat a)))
          (.inf t6 t6.lit (.int t5 (Int64.ofNat (digitsToNat b'))) (.int t7 (Int64.ofNat (digitsToNat d)))))], { toks := [e] }) := by
      rw [show 50 + 6 = 55 + 1 from rfl, parseProgramLoop]
      have c0 : ({ toks := [t1, t2, t3, t4, t5, t6, t7, t8, t9] ++ [e] } : PS).curIs .EOF = false := by simp [PS.curIs, PS.cur, ty1']
      simp only [c0, Bool.false_eq_true, if_false]
      simp only [List.cons_append, List.nil_append] at hst ⊢
      rw [show 55 = 54 + 1 from rfl, hst]
      have i5 : ({ toks := [t9, e] } : PS).curIs .ILLEGAL = false := by simp [PS.curIs, PS.cur, ty9']
      simp only [i5, Bool.false_eq_true, if_false, Stmt.isBad]
      have nx : ({ toks := [t9, e] } : PS).next = { toks := [e] } := ps_next_clean t9 e [] hce
      rw [nx, parseProgramLoop]
      have ce : ({ toks := [e] } : PS).curIs .EOF = true := by simp [PS.curIs, PS.cur, he]
      simp [ce]
    rw [hloop]
    simp [finishParse, PS.cur, lit3, lit6]

end Tw
