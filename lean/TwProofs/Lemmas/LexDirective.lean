/-
  TwProofs.Lemmas.LexDirective — `readDirective` finds a directive whenever
  `isDirectiveToken` saw one: the ILLEGAL branch of `directiveToken` is unreachable.
-/
import TwProofs.Lemmas.LexProgress

namespace Tw
open Lx

theorem lookupAssoc_key (tbl : List (Bytes × TT)) (k : Bytes) (t : TT) (h : lookupAssoc tbl k = some t) :
    (k, t) ∈ tbl := by
  induction tbl with
  | nil => simp [lookupAssoc] at h
  | cons p r ih =>
    obtain ⟨k', t'⟩ := p
    simp only [lookupAssoc] at h
    split at h
    · rename_i hk
      have : k' = k := by simpa using hk
      have ht : t' = t := by simpa using h
      subst this; subst ht; simp
    · exact List.mem_cons_of_mem _ (ih h)

theorem lookupDirective_key (k : Bytes) (h : lookupDirective k ≠ .ILLEGAL) : (k, lookupDirective k) ∈ directivesB := by
  unfold lookupDirective at h ⊢
  cases hl : lookupAssoc directivesB k with
  | none => simp [hl] at h
  | some t => simpa using lookupAssoc_key _ _ _ hl

/-- directive keywords consist of '@' and letters -/
theorem directive_letters (k : Bytes) (h : lookupDirective k ≠ .ILLEGAL) : k.all isLetterWord = true := by
  have hall : ∀ p ∈ directivesB, p.1.all isLetterWord = true := by decide
  exact hall _ (lookupDirective_key k h)

/-- the three keywords that are prefixes of longer ones -/
theorem potentiallyLong_key (k : Bytes) (after : Bytes) (h : isPotentiallyLong (lookupDirective k) after = true)
    (hk : lookupDirective k ≠ .ILLEGAL) :
    ∃ c r2, after = c :: 102 :: r2 ∧ isLetterWord c = true ∧
      lookupDirective (k ++ [c]) = .ILLEGAL ∧ lookupDirective (k ++ [c, 102]) ≠ .ILLEGAL ∧
      ∀ a, isPotentiallyLong (lookupDirective (k ++ [c, 102])) a = false := by
  have hmem := lookupDirective_key k hk
  -- every table entry: if the value is ELSE / BREAK / CONTINUE then the claim holds for it
  have hall : ∀ p ∈ directivesB, ∀ c : Byte, (c = 105 ∨ c = 73) →
      ((p.2 == .ELSE && c == 105) || (p.2 == .BREAK && c == 73) || (p.2 == .CONTINUE && c == 73)) = true →
      lookupDirective (p.1 ++ [c]) = .ILLEGAL ∧ lookupDirective (p.1 ++ [c, 102]) ≠ .ILLEGAL ∧
      (lookupDirective (p.1 ++ [c, 102]) != .ELSE && lookupDirective (p.1 ++ [c, 102]) != .BREAK &&
        lookupDirective (p.1 ++ [c, 102]) != .CONTINUE) = true := by
    intro p hp c hc
    rcases hc with rfl | rfl <;> revert p <;> decide
  unfold isPotentiallyLong at h
  simp only at h
  cases after with
  | nil => simp at h
  | cons c t =>
    cases t with
    | nil => simp at h
    | cons f r2 =>
      simp only [List.headD_cons, List.drop_succ_cons, List.drop_zero] at h
      have hf : f = 102 := by
        simp only [Bool.or_eq_true, Bool.and_eq_true, beq_iff_eq] at h
        rcases h with (⟨_, h⟩ | ⟨_, h⟩) | ⟨_, h⟩ <;> exact h
      subst hf
      have hc : c = 105 ∨ c = 73 := by
        simp only [Bool.or_eq_true, Bool.and_eq_true, beq_iff_eq] at h
        rcases h with (⟨⟨_, h⟩, _⟩ | ⟨⟨_, h⟩, _⟩) | ⟨⟨_, h⟩, _⟩
        · exact Or.inl h
        · exact Or.inr h
        · exact Or.inr h
      have hcond : ((lookupDirective k == .ELSE && c == 105) || (lookupDirective k == .BREAK && c == 73) ||
          (lookupDirective k == .CONTINUE && c == 73)) = true := by
        simp only [Bool.or_eq_true, Bool.and_eq_true, beq_iff_eq] at h ⊢
        rcases h with (⟨⟨h1, h2⟩, _⟩ | ⟨⟨h1, h2⟩, _⟩) | ⟨⟨h1, h2⟩, _⟩
        · exact Or.inl (Or.inl ⟨h1, h2⟩)
        · exact Or.inl (Or.inr ⟨h1, h2⟩)
        · exact Or.inr ⟨h1, h2⟩
      obtain ⟨h1, h2, h3⟩ := hall _ hmem c hc hcond
      refine ⟨c, r2, rfl, ?_, h1, h2, ?_⟩
      · rcases hc with rfl | rfl <;> decide
      · intro a
        simp only [Bool.and_eq_true, bne_iff_ne, ne_eq] at h3
        unfold isPotentiallyLong
        simp [h3.1.1, h3.1.2, h3.2]

/-- some prefix of `rest` (appended to the keyword read so far) is a directive keyword made of
    letters -/
def DirGood (kw rest : Bytes) : Prop :=
  ∃ i, 1 ≤ i ∧ i ≤ rest.length ∧ lookupDirective (kw ++ rest.take i) ≠ .ILLEGAL ∧ (rest.take i).all isLetterWord = true

theorem dirScan_finds (rest : Bytes) : ∀ (kw : Bytes) (tok : TT), DirGood kw rest → (dirScan kw tok rest).2 ≠ .ILLEGAL := by
  induction rest with
  | nil => intro kw tok ⟨i, h1, h2, _⟩; simp at h2; omega
  | cons c r ih =>
    intro kw tok ⟨i, h1, h2, h3, h4⟩
    obtain ⟨j, rfl⟩ : ∃ j, i = j + 1 := ⟨i - 1, by omega⟩
    simp only [List.take_succ_cons, List.all_cons, Bool.and_eq_true] at h3 h4
    have hc : isLetterWord c = true := h4.1
    simp only [dirScan, hc, if_true]
    by_cases htok : lookupDirective (kw ++ [c]) = .ILLEGAL
    · -- not yet a keyword: continue
      simp only [htok, bne_self_eq_false, Bool.and_false, if_false]
      apply ih
      have hj : 1 ≤ j := by
        cases j with
        | zero => simp at h3; exact absurd htok h3
        | succ j => omega
      refine ⟨j, hj, by simpa using h2, ?_, h4.2⟩
      simpa [List.append_assoc] using h3
    · by_cases hlong : isPotentiallyLong (lookupDirective (kw ++ [c])) r = true
      · obtain ⟨c2, r2, hr, hl2, hi1, hi2, hnl⟩ := potentiallyLong_key _ _ hlong htok
        subst hr
        have hf : isLetterWord 102 = true := by decide
        simp only [List.append_assoc, List.cons_append, List.nil_append] at hi1 hi2 hnl
        simp only [hlong, Bool.not_true, Bool.false_and, if_false]
        have step2 : dirScan (kw ++ [c]) (lookupDirective (kw ++ [c])) (c2 :: 102 :: r2) =
            dirScan (kw ++ [c, c2]) .ILLEGAL (102 :: r2) := by
          rw [dirScan]
          simp only [hl2, if_true, List.append_assoc, List.cons_append, List.nil_append, hi1, bne_self_eq_false,
            Bool.and_false, if_false]
          simp
        have step3 : dirScan (kw ++ [c, c2]) .ILLEGAL (102 :: r2) =
            (kw ++ [c, c2, 102], lookupDirective (kw ++ [c, c2, 102])) := by
          rw [dirScan]
          simp only [hf, if_true, List.append_assoc, List.cons_append, List.nil_append]
          have : (!isPotentiallyLong (lookupDirective (kw ++ [c, c2, 102])) r2 && lookupDirective (kw ++ [c, c2, 102]) != .ILLEGAL) = true := by
            simp [hnl r2, hi2]
          rw [if_pos this]
        rw [step2, step3]
        exact hi2
      · have : (!isPotentiallyLong (lookupDirective (kw ++ [c])) r && lookupDirective (kw ++ [c]) != .ILLEGAL) = true := by
          simp [hlong, htok]
        rw [if_pos this]
        exact htok

/-- when `isDirectiveToken` answers yes, `directiveToken` produces that directive -/
theorem directive_found (s : Lx) (h : (isDirectiveToken s).1 = true) : (directiveDesc s).ty ≠ .ILLEGAL := by
  unfold isDirectiveToken at h
  by_cases h64 : s.char = 64
  · have hneof : s.isEOF = false := by
      cases he : s.isEOF with
      | false => rfl
      | true => simp [h64, he] at h
    simp only [h64, bne_self_eq_false, hneof, Bool.or_self, if_false] at h
    have hp : hasDirectivePrefix s.rest = true := by
      by_cases hp : hasDirectivePrefix s.rest = true
      · exact hp
      · simp [hp] at h
    -- a prefix that is a keyword
    unfold hasDirectivePrefix at hp
    rw [List.any_eq_true] at hp
    obtain ⟨i, _, hi⟩ := hp
    simp only [Bool.and_eq_true, decide_eq_true_eq, bne_iff_ne, ne_eq] at hi
    have hgood : DirGood [] s.rest :=
      ⟨i + 1, by omega, hi.1, by simpa using hi.2, directive_letters _ hi.2⟩
    have hfind := dirScan_finds s.rest [] .ILLEGAL hgood
    unfold directiveDesc
    rw [if_neg (by simp [h64])]
    simp only
    split
    · rename_i hill
      exact absurd (by simpa using hill) hfind
    · exact hfind
  · simp [h64] at h

end Tw
