/-
  TwProofs.Lemmas.TextAssignExpr — `{{ name = a op b }}{{ name }}`: the right-hand side of an assignment is a
  complete expression, from the source bytes to the parsed program (C01 / C04).
-/
import TwProofs.Lemmas.TextAssignInt
import TwProofs.Lemmas.ScopeLex
namespace Tw
open Lx

/-- `{{ g1 n g2 = g3 a g4 c g5 b g6 }}` -/
def assignExprSrc (g1 n g2 g3 a g4 : Bytes) (c : Byte) (g5 b' g6 : Bytes) : Bytes :=
  [123, 123] ++ g1 ++ n ++ g2 ++ [61] ++ g3 ++ a ++ g4 ++ [c] ++ g5 ++ b' ++ g6 ++ [125, 125]

def assignExprKeys (n a : Bytes) (c : Byte) (ty : TT) (b' : Bytes) : List (TT × Bytes) :=
  [(.LBRACES, [123, 123]), (.IDENT, n), (.ASSIGN, [61]), (.INT, a), (ty, [c]), (.INT, b'), (.RBRACES, [125, 125])]

theorem lex_assignExpr (s : Lx) (g1 n g2 g3 a g4 : Bytes) (c : Byte) (ty : TT) (pr : Nat) (g5 b' g6 tl : Bytes) (hh : s.isHTML = true)
    (hb : s.braces = 0) (hg1 : allWs g1) (hg2 : allWs g2) (hg3 : allWs g3) (hg4 : allWs g4) (hg5 : allWs g5) (hg6 : allWs g6)
    (hn : isName n) (ha : isDigits a) (hbd : isDigits b') (hop : ArithOp c ty pr)
    (hr : s.rest = assignExprSrc g1 n g2 g3 a g4 c g5 b' g6 ++ tl) :
    ∃ toks s7, Run s toks s7 ∧ toks.map key = assignExprKeys n a c ty b' ∧ s7.rest = tl ∧ s7.prev = 125 ∧
      mode s7 = (true, s.isDirective, s.parens, 0, s.panicked) := by
  obtain ⟨p1, p2, p3, _, _, _, _, _, _, _, p11, _⟩ := hop.facts
  obtain ⟨⟨c0, cv, hcv, hc⟩, hall, hkw⟩ := hn
  have hnn : isName n := ⟨⟨c0, cv, hcv, hc⟩, hall, hkw⟩
  have hnot := identCh_not_special hc
  have hr' : s.rest = 123 :: 123 :: (g1 ++ (n ++ (g2 ++ (61 :: (g3 ++ (a ++ (g4 ++ (c :: (g5 ++ (b' ++ (g6 ++ (125 :: 125 :: tl)))))))))))) :=
    hr.trans (by unfold assignExprSrc; simp only [List.append_assoc, List.cons_append, List.nil_append])
  have hx1 : (g1 ++ (n ++ (g2 ++ (61 :: (g3 ++ (a ++ (g4 ++ (c :: (g5 ++ (b' ++ (g6 ++ (125 :: 125 :: tl)))))))))))).headD 0 ≠ 45 := by
    cases g1 with
    | nil => simp only [List.nil_append, hcv, List.cons_append, List.headD_cons]; exact hnot.2.2.2.2.2.2.2.2.2.2.1
    | cons w t =>
      have hw : isWs w = true := hg1 w List.mem_cons_self
      simp only [List.cons_append, List.headD_cons]
      intro e; rw [e] at hw; cases hw
  obtain ⟨t1, s1, st1, k1, ne1, r1, _, m1⟩ := lex_open s _ hh hr' hx1
  obtain ⟨a1, a2, a3, a4, a5⟩ := mode_fields m1
  have hx2 : (isIdentCh ((g2 ++ (61 :: (g3 ++ (a ++ (g4 ++ (c :: (g5 ++ (b' ++ (g6 ++ (125 :: 125 :: tl)))))))))).headD 0) ||
      isNumberCh ((g2 ++ (61 :: (g3 ++ (a ++ (g4 ++ (c :: (g5 ++ (b' ++ (g6 ++ (125 :: 125 :: tl)))))))))).headD 0)) = false := by
    cases g2 with
    | nil => simp only [List.nil_append, List.headD_cons]; decide
    | cons w t =>
      have hw : isWs w = true := hg2 w List.mem_cons_self
      simp only [List.cons_append, List.headD_cons]
      rw [ws_not_ident hw, ws_not_number hw]; rfl
  obtain ⟨t2, s2, st2, k2, ne2, b2⟩ := code_word_step s1 g1 n _ a1 hg1 (isName_word hnn) r1 hx2
  have h2 : s2.isHTML = false := by rw [mode_html b2.md]; exact a1
  have hx3 := ws_then_digits_not_op g3 a (g4 ++ (c :: (g5 ++ (b' ++ (g6 ++ (125 :: 125 :: tl)))))) 61 hg3 ha (by decide) (by decide)
  obtain ⟨t3, s3, st3, k3, ne3, b3⟩ := code_assign_step s2 g2 _ h2 hg2 b2.rest hx3
  have h3 : s3.isHTML = false := by rw [mode_html b3.md]; exact h2
  have hx4 := ws_then_op_not_number g4 (g5 ++ (b' ++ (g6 ++ (125 :: 125 :: tl)))) c hg4 p2 p3
  obtain ⟨t4, s4, st4, k4, ne4, b4⟩ := code_int_step s3 g3 a _ h3 hg3 ha b3.rest hx4.1 hx4.2
  have h4 : s4.isHTML = false := by rw [mode_html b4.md]; exact h3
  have hx5 := ws_then_digits_not_op g5 b' (g6 ++ (125 :: 125 :: tl)) c hg5 hbd p1 p2
  obtain ⟨t5, s5, st5, k5, ty5, b5⟩ := code_arithop_step s4 c ty pr g4 _ hop h4 hg4 b4.rest hx5
  have h5 : s5.isHTML = false := by rw [mode_html b5.md]; exact h4
  have hx6 := ws_or_brace_not_number g6 tl hg6
  obtain ⟨t6, s6, st6, k6, ne6, b6⟩ := code_int_step s5 g5 b' _ h5 hg5 hbd b5.rest hx6.1 hx6.2
  have h6 : s6.isHTML = false := by rw [mode_html b6.md]; exact h5
  have br6 : s6.braces = 0 := by
    rw [mode_braces b6.md, mode_braces b5.md, mode_braces b4.md, mode_braces b3.md, mode_braces b2.md, a4]; exact hb
  obtain ⟨t7, s7, st7, k7, ne7, r7, pv7, m7⟩ := code_close_step s6 g6 tl h6 br6 hg6 b6.rest
  refine ⟨[t1, t2, t3, t4, t5, t6, t7], s7, ?_, ?_, r7, pv7, ?_⟩
  · exact Run.cons _ _ _ _ _ st1 ne1 (Run.cons _ _ _ _ _ st2 ne2 (Run.cons _ _ _ _ _ st3 ne3 (Run.cons _ _ _ _ _ st4 ne4
      (Run.cons _ _ _ _ _ st5 (by rw [ty5]; exact p11) (Run.cons _ _ _ _ _ st6 ne6 (Run.cons _ _ _ _ _ st7 ne7 (Run.nil _)))))))
  · have hk2 : key t2 = (.IDENT, n) := by rw [k2, hkw]
    simp [assignExprKeys, k1, hk2, k3, k4, k5, k6, k7]
  · rw [m7, mode_dir b6.md, mode_dir b5.md, mode_dir b4.md, mode_dir b3.md, mode_dir b2.md, a2, mode_parens b6.md, mode_parens b5.md,
      mode_parens b4.md, mode_parens b3.md, mode_parens b2.md, a3, mode_pan b6.md, mode_pan b5.md, mode_pan b4.md, mode_pan b3.md,
      mode_pan b2.md, a5]

def assignExprCode (g1 n g2 g3 a g4 : Bytes) (c : Byte) (ty : TT) (g5 b' g6 : Bytes) : Code :=
  { src := assignExprSrc g1 n g2 g3 a g4 c g5 b' g6, keys := assignExprKeys n a c ty b' }

theorem assignExprCode_ok (g1 n g2 g3 a g4 : Bytes) (c : Byte) (ty : TT) (pr : Nat) (g5 b' g6 : Bytes) (hg1 : allWs g1) (hg2 : allWs g2)
    (hg3 : allWs g3) (hg4 : allWs g4) (hg5 : allWs g5) (hg6 : allWs g6) (hn : isName n) (ha : isDigits a) (hbd : isDigits b')
    (hop : ArithOp c ty pr) : (assignExprCode g1 n g2 g3 a g4 c ty g5 b' g6).OK := by
  refine ⟨?_, ?_, ?_⟩
  · intro tl
    refine Or.inr (Or.inl ⟨(g1 ++ n ++ g2 ++ [61] ++ g3 ++ a ++ g4 ++ [c] ++ g5 ++ b' ++ g6 ++ [125, 125]) ++ tl, ?_⟩)
    show assignExprSrc g1 n g2 g3 a g4 c g5 b' g6 ++ tl = _
    unfold assignExprSrc
    simp only [List.append_assoc, List.cons_append, List.nil_append]
  · have la : 0 < a.length := List.length_pos_iff.mpr ha.1
    have lb : 0 < b'.length := List.length_pos_iff.mpr hbd.1
    show (assignExprKeys n a c ty b').length ≤ (assignExprSrc g1 n g2 g3 a g4 c g5 b' g6).length
    have h7 : (assignExprKeys n a c ty b').length = 7 := rfl
    rw [h7]
    unfold assignExprSrc
    simp only [List.length_append, List.length_cons, List.length_nil]
    omega
  · intro s tl hr hh hb hpa hdi _
    obtain ⟨toks, s7, run, hkeys, r7, pv7, m7⟩ := lex_assignExpr s g1 n g2 g3 a g4 c ty pr g5 b' g6 tl hh hb hg1 hg2 hg3 hg4 hg5 hg6 hn ha hbd hop hr
    obtain ⟨f1, f2, f3, f4, f5⟩ := mode_fields m7
    exact ⟨toks, s7, run, hkeys, r7, f1, f4, by rw [f3]; exact hpa, by rw [f2]; exact hdi, f5, by rw [pv7]; decide⟩

/-- `{{ n = a op b }}` as a statement -/
theorem parse_assignExpr_stmt (g : Nat) (t1 t2 t3 t4 t5 t6 t7 : Token) (tail : List Token) (va vb : Int64) (c : Byte) (ty : TT) (pr : Nat)
    (hop : ArithOp c ty pr) (h1 : t1.ty = .LBRACES) (h2 : t2.ty = .IDENT) (h3 : t3.ty = .ASSIGN) (h4 : t4.ty = .INT) (h5 : t5.ty = ty)
    (h6 : t6.ty = .INT) (h7 : t7.ty = .RBRACES) (hva : parseInt64 t4.lit = some va) (hvb : parseInt64 t6.lit = some vb)
    (hclean : ∀ x ∈ tail, x.ty ≠ .ILLEGAL) :
    parseStatement (g + 5) ({ toks := t1 :: t2 :: t3 :: t4 :: t5 :: t6 :: t7 :: tail } : PS) =
      (.assign t2 t2.lit (.inf t5 t5.lit (.int t4 va) (.int t6 vb)), { toks := t6 :: t7 :: tail }) := by
  obtain ⟨_, _, _, _, _, _, _, _, _, f10, _, f12⟩ := hop.facts
  have l1 : LOWEST < pr := by simpa using f12
  have c7 := noill_cons (t := t7) (by rw [h7]; decide) hclean
  have c6 := noill_cons (t := t6) (by rw [h6]; decide) c7
  have c5 := noill_cons (t := t5) (by rw [h5]; exact f10) c6
  have c4 := noill_cons (t := t4) (by rw [h4]; decide) c5
  have c3 := noill_cons (t := t3) (by rw [h3]; decide) c4
  have c2 := noill_cons (t := t2) (by rw [h2]; decide) c3
  have nx1 : ({ toks := t1 :: t2 :: t3 :: t4 :: t5 :: t6 :: t7 :: tail } : PS).next = { toks := t2 :: t3 :: t4 :: t5 :: t6 :: t7 :: tail } := ps_next_clean t1 t2 _ c2
  have nx2 : ({ toks := t2 :: t3 :: t4 :: t5 :: t6 :: t7 :: tail } : PS).next = { toks := t3 :: t4 :: t5 :: t6 :: t7 :: tail } := ps_next_clean t2 t3 _ c3
  have nx3 : ({ toks := t3 :: t4 :: t5 :: t6 :: t7 :: tail } : PS).next = { toks := t4 :: t5 :: t6 :: t7 :: tail } := ps_next_clean t3 t4 _ c4
  have hright : parseExpression (g + 2) pr ({ toks := t6 :: t7 :: tail } : PS) = (.int t6 vb, { toks := t6 :: t7 :: tail }) :=
    parse_int_operand g pr t6 t7 tail vb h6 hvb (Or.inl h7)
  have hex : parseExpression (g + 4) LOWEST ({ toks := t4 :: t5 :: t6 :: t7 :: tail } : PS) =
      (.inf t5 t5.lit (.int t4 va) (.int t6 vb), { toks := t6 :: t7 :: tail }) := by
    rw [parseExpression_succ]
    have hp : prefixBody (parseExpression (g + 3)) (parseExprList (g + 3)) (parseObjLoop (g + 3))
        ({ toks := t4 :: t5 :: t6 :: t7 :: tail } : PS) = some (.int t4 va, { toks := t4 :: t5 :: t6 :: t7 :: tail }) := by
      unfold prefixBody
      simp [PS.cur, h4, hva]
    rw [hp]
    simp only []
    rw [prattLoop_arith_step (g + 2) LOWEST (.int t4 va) (.int t6 vb) t4 t5 t6 (t7 :: tail) (t6 :: t7 :: tail) c ty pr hop h5 l1
      (by rw [h6]; decide) c6 hright]
    exact prattLoop_stop_rbraces (g + 1) LOWEST _ t6 t7 tail h7
  show statementBody (parseExpression (g + 4)) (parseExprList (g + 4)) (parseBody (g + 4)) (parseIfTail (g + 4)) (parseSlots (g + 4))
    ({ toks := t1 :: t2 :: t3 :: t4 :: t5 :: t6 :: t7 :: tail } : PS) = _
  have hc : ({ toks := t1 :: t2 :: t3 :: t4 :: t5 :: t6 :: t7 :: tail } : PS).cur.ty = .LBRACES := by simp [PS.cur, h1]
  unfold statementBody
  simp only [hc]
  unfold parseEmbeddedCode
  simp only [nx1]
  have c1 : ({ toks := t2 :: t3 :: t4 :: t5 :: t6 :: t7 :: tail } : PS).curIs .RBRACES = false := by simp [PS.curIs, PS.cur, h2]
  have c2' : ({ toks := t2 :: t3 :: t4 :: t5 :: t6 :: t7 :: tail } : PS).peekIs .ASSIGN = true := by simp [PS.peekIs, PS.peek, h3]
  have c0 : ({ toks := t2 :: t3 :: t4 :: t5 :: t6 :: t7 :: tail } : PS).cur = t2 := rfl
  have ep := expectPeek_ok ({ toks := t2 :: t3 :: t4 :: t5 :: t6 :: t7 :: tail } : PS) .ASSIGN c2'
  have c3' : ({ toks := t4 :: t5 :: t6 :: t7 :: tail } : PS).curIs .RBRACES = false := by simp [PS.curIs, PS.cur, h4]
  simp only [c1, c0, h2, c2', beq_self_eq_true, Bool.and_self, Bool.false_eq_true, if_false, if_true, ep, nx2, nx3, c3', hex]

/-- **`{{ n = a op b }}{{ n }}`, parsed** -/
theorem parse_assignExpr_source (g1 n g2 g3 a g4 : Bytes) (c : Byte) (ty : TT) (pr : Nat) (g5 b' g6 h1 h2 : Bytes)
    (hg1 : allWs g1) (hg2 : allWs g2) (hg3 : allWs g3) (hg4 : allWs g4) (hg5 : allWs g5) (hg6 : allWs g6) (hh1 : allWs h1) (hh2 : allWs h2)
    (hn : isName n) (ha : isDigits a) (hbd : isDigits b') (hop : ArithOp c ty pr)
    (hba : digitsToNat a ≤ 9223372036854775807) (hbb : digitsToNat b' ≤ 9223372036854775807) :
    ∃ prog t2 t4 t5 t6 t9, parseSource (assignExprSrc g1 n g2 g3 a g4 c g5 b' g6 ++ ([123, 123] ++ h1 ++ n ++ h2 ++ [125, 125])) = .ok prog ∧
      prog.stmts = [.assign t2 n (.inf t5 [c] (.int t4 (Int64.ofNat (digitsToNat a))) (.int t6 (Int64.ofNat (digitsToNat b')))),
                    .expr t9 (.ident t9 n)] := by
  obtain ⟨_, _, _, _, _, _, _, _, _, f10, _, _⟩ := hop.facts
  have hok : GItemsOK [.code (assignExprCode g1 n g2 g3 a g4 c ty g5 b' g6), .code (printCode h1 n h2)] :=
    ⟨assignExprCode_ok g1 n g2 g3 a g4 c ty pr g5 b' g6 hg1 hg2 hg3 hg4 hg5 hg6 hn ha hbd hop, printCode_ok h1 n h2 hh1 hh2 hn, trivial⟩
  obtain ⟨toks, e, htok, hkeys, he⟩ := tokenize_gitems _ hok
  have hsrc : gsrc [.code (assignExprCode g1 n g2 g3 a g4 c ty g5 b' g6), .code (printCode h1 n h2)] =
      assignExprSrc g1 n g2 g3 a g4 c g5 b' g6 ++ ([123, 123] ++ h1 ++ n ++ h2 ++ [125, 125]) := by
    simp [gsrc, GItem.src, assignExprCode, printCode]
  rw [hsrc] at htok
  have hk' : toks.map key = assignExprKeys n a c ty b' ++ [(.LBRACES, [123, 123]), (.IDENT, n), (.RBRACES, [125, 125])] := by
    simpa [gkeys, assignExprCode, printCode] using hkeys
  match toks, hk' with
  | [], hk' => simp [assignExprKeys] at hk'
  | [_], hk' => simp [assignExprKeys] at hk'
  | [_, _], hk' => simp [assignExprKeys] at hk'
  | [_, _, _], hk' => simp [assignExprKeys] at hk'
  | [_, _, _, _], hk' => simp [assignExprKeys] at hk'
  | [_, _, _, _, _], hk' => simp [assignExprKeys] at hk'
  | [_, _, _, _, _, _], hk' => simp [assignExprKeys] at hk'
  | [_, _, _, _, _, _, _], hk' => simp [assignExprKeys] at hk'
  | [_, _, _, _, _, _, _, _], hk' => simp [assignExprKeys] at hk'
  | [_, _, _, _, _, _, _, _, _], hk' => simp [assignExprKeys] at hk'
  | _ :: _ :: _ :: _ :: _ :: _ :: _ :: _ :: _ :: _ :: _ :: _, hk' => simp [assignExprKeys] at hk'
  | [t1, t2, t3, t4, t5, t6, t7, t8, t9, t10], hk' =>
    simp only [assignExprKeys, List.cons_append, List.nil_append, List.map_cons, List.map_nil, List.cons.injEq, and_true] at hk'
    obtain ⟨hk1, hk2, hk3, hk4, hk5, hk6, hk7, hk8, hk9, hk10⟩ := hk'
    have ty1 : t1.ty = .LBRACES := congrArg Prod.fst hk1
    have ty2 : t2.ty = .IDENT := congrArg Prod.fst hk2
    have lit2 : t2.lit = n := congrArg Prod.snd hk2
    have ty3 : t3.ty = .ASSIGN := congrArg Prod.fst hk3
    have ty4 : t4.ty = .INT := congrArg Prod.fst hk4
    have lit4 : t4.lit = a := congrArg Prod.snd hk4
    have ty5 : t5.ty = ty := congrArg Prod.fst hk5
    have lit5 : t5.lit = [c] := congrArg Prod.snd hk5
    have ty6 : t6.ty = .INT := congrArg Prod.fst hk6
    have lit6 : t6.lit = b' := congrArg Prod.snd hk6
    have ty7 : t7.ty = .RBRACES := congrArg Prod.fst hk7
    have ty8 : t8.ty = .LBRACES := congrArg Prod.fst hk8
    have ty9 : t9.ty = .IDENT := congrArg Prod.fst hk9
    have lit9 : t9.lit = n := congrArg Prod.snd hk9
    have ty10 : t10.ty = .RBRACES := congrArg Prod.fst hk10
    have hce : ∀ x ∈ [e], x.ty ≠ .ILLEGAL := by intro x hx; simp at hx; rw [hx, he]; decide
    have c10 := noill_cons (t := t10) (by rw [ty10]; decide) hce
    have c9 := noill_cons (t := t9) (by rw [ty9]; decide) c10
    have c8 := noill_cons (t := t8) (by rw [ty8]; decide) c9
    have c7 := noill_cons (t := t7) (by rw [ty7]; decide) c8
    have c6 := noill_cons (t := t6) (by rw [ty6]; decide) c7
    have c5 := noill_cons (t := t5) (by rw [ty5]; exact f10) c6
    have c4 := noill_cons (t := t4) (by rw [ty4]; decide) c5
    have c3 := noill_cons (t := t3) (by rw [ty3]; decide) c4
    have c2' := noill_cons (t := t2) (by rw [ty2]; decide) c3
    have hcl : ∀ x ∈ [t1, t2, t3, t4, t5, t6, t7, t8, t9, t10] ++ [e], x.ty ≠ .ILLEGAL := noill_cons (by rw [ty1]; decide) c2'
    refine ⟨{ tok := t1, stmts := [.assign t2 n (.inf t5 [c] (.int t4 (Int64.ofNat (digitsToNat a))) (.int t6 (Int64.ofNat (digitsToNat b')))),
      .expr t9 (.ident t9 n)] }, t2, t4, t5, t6, t9, ?_, rfl⟩
    unfold parseSource
    rw [htok]
    simp only [Bool.false_eq_true, if_false]
    rw [initParser_clean _ hcl]
    have hfuel : parseFuel ([t1, t2, t3, t4, t5, t6, t7, t8, t9, t10] ++ [e]) = 57 + 3 := by simp [parseFuel]
    rw [hfuel]
    have hst := parse_assignExpr_stmt 54 t1 t2 t3 t4 t5 t6 t7 [t8, t9, t10, e] _ _ c ty pr hop ty1 ty2 ty3 ty4 ty5 ty6 ty7
      (by rw [lit4]; exact parseInt64_digits a ha hba) (by rw [lit6]; exact parseInt64_digits b' hbd hbb) c8
    have hpr := parse_print_stmt 54 t8 t9 t10 [e] ty8 ty9 ty10 hce
    have hloop : parseProgramLoop (57 + 3) [] ({ toks := [t1, t2, t3, t4, t5, t6, t7, t8, t9, t10] ++ [e] } : PS) =
        (some [.assign t2 t2.lit (.inf t5 t5.lit (.int t4 (Int64.ofNat (digitsToNat a))) (.int t6 (Int64.ofNat (digitsToNat b')))),
          .expr t9 (.ident t9 t9.lit)], { toks := [e] }) := by
      simp only [List.cons_append, List.nil_append] at hst ⊢
      rw [loop_stmt_rbraces 57 [] _ t1 t6 t7 t8 _ [t9, t10, e] (by rw [ty1]; decide) hst rfl (by rw [ty6]; decide) ty7 c8]
      rw [show 57 + 1 = 57 + 1 from rfl, parseProgramLoop]
      have c0 : ({ toks := [t8, t9, t10, e] } : PS).curIs .EOF = false := by simp [PS.curIs, PS.cur, ty8]
      simp only [c0, Bool.false_eq_true, if_false]
      rw [show 57 = 54 + 3 from rfl, hpr]
      have i5 : ({ toks := [t10, e] } : PS).curIs .ILLEGAL = false := by simp [PS.curIs, PS.cur, ty10]
      simp only [i5, Bool.false_eq_true, if_false, Stmt.isBad]
      have nx : ({ toks := [t10, e] } : PS).next = { toks := [e] } := ps_next_clean t10 e [] hce
      rw [nx, parseProgramLoop]
      have ce : ({ toks := [e] } : PS).curIs .EOF = true := by simp [PS.curIs, PS.cur, he]
      simp [ce]
    rw [hloop]
    simp [finishParse, PS.cur, lit2, lit5, lit9]

end Tw
