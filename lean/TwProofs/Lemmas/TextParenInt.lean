/-
  TwProofs.Lemmas.TextParenInt — `{{ ( digits ) }}`: a literal in redundant parentheses, from the source
  bytes to the parsed program (C01: redundant parentheses change nothing).
-/
import TwProofs.Lemmas.TextArith4
import TwProofs.Lemmas.TextConcat
namespace Tw
open Lx

/-- `{{ g1 ( g3 d g4 ) g2 }}` -/
def parenIntSrc (g1 g3 d g4 g2 : Bytes) : Bytes := [123, 123] ++ g1 ++ [40] ++ g3 ++ d ++ g4 ++ [41] ++ g2 ++ [125, 125]

def parenIntKeys (d : Bytes) : List (TT × Bytes) :=
  [(.LBRACES, [123, 123]), (.LPAREN, [40]), (.INT, d), (.RPAREN, [41]), (.RBRACES, [125, 125])]

theorem lex_parenInt (s : Lx) (g1 g3 d g4 g2 tl : Bytes) (hh : s.isHTML = true) (hb : s.braces = 0) (hdir : s.isDirective = false)
    (hg1 : allWs g1) (hg2 : allWs g2) (hg3 : allWs g3) (hg4 : allWs g4) (hd : isDigits d) (hr : s.rest = parenIntSrc g1 g3 d g4 g2 ++ tl) :
    ∃ toks s5, Run s toks s5 ∧ toks.map key = parenIntKeys d ∧ s5.rest = tl ∧ s5.prev = 125 ∧
      mode s5 = (true, false, s.parens, 0, s.panicked) := by
  have hr' : s.rest = 123 :: 123 :: (g1 ++ (40 :: (g3 ++ (d ++ (g4 ++ (41 :: (g2 ++ (125 :: 125 :: tl)))))))) := by
    rw [hr]; simp [parenIntSrc, List.append_assoc]
  have hx1 : (g1 ++ (40 :: (g3 ++ (d ++ (g4 ++ (41 :: (g2 ++ (125 :: 125 :: tl)))))))).headD 0 ≠ 45 := by
    cases g1 with
    | nil => simp only [List.nil_append, List.headD_cons]; decide
    | cons w t =>
      have hw : isWs w = true := hg1 w List.mem_cons_self
      simp only [List.cons_append, List.headD_cons]
      intro e; rw [e] at hw; cases hw
  obtain ⟨t1, s1, st1, k1, ne1, r1, _, m1⟩ := lex_open s _ hh hr' hx1
  obtain ⟨a1, a2, a3, a4, a5⟩ := mode_fields m1
  have d1 : s1.isDirective = false := by rw [a2]; exact hdir
  obtain ⟨t2, s2, st2, k2, ne2, b2⟩ := code_lparen_plain_ws_step s1 g1 _ a1 d1 hg1 r1
  have h2 : s2.isHTML = false := by rw [mode_html b2.md]; exact a1
  have hx3 := ws_then_op_not_number g4 (g2 ++ (125 :: 125 :: tl)) 41 hg4 (by decide) (by decide)
  obtain ⟨t3, s3, st3, k3, ne3, b3⟩ := code_int_step s2 g3 d _ h2 hg3 hd b2.rest hx3.1 hx3.2
  have h3 : s3.isHTML = false := by rw [mode_html b3.md]; exact h2
  have d3 : s3.isDirective = false := by rw [mode_dir b3.md, mode_dir b2.md]; exact d1
  obtain ⟨t4, s4, st4, k4, ne4, b4⟩ := code_rparen_plain_ws_step s3 g4 _ h3 d3 hg4 b3.rest
  have h4 : s4.isHTML = false := by rw [mode_html b4.md]; exact h3
  have br4 : s4.braces = 0 := by rw [mode_braces b4.md, mode_braces b3.md, mode_braces b2.md, a4]; exact hb
  obtain ⟨t5, s5, st5, k5, ne5, r5, pv5, m5⟩ := code_close_step s4 g2 tl h4 br4 hg2 b4.rest
  refine ⟨[t1, t2, t3, t4, t5], s5, ?_, ?_, r5, pv5, ?_⟩
  · exact Run.cons _ _ _ _ _ st1 ne1 (Run.cons _ _ _ _ _ st2 ne2 (Run.cons _ _ _ _ _ st3 ne3 (Run.cons _ _ _ _ _ st4 ne4
      (Run.cons _ _ _ _ _ st5 ne5 (Run.nil _)))))
  · simp [parenIntKeys, k1, k2, k3, k4, k5]
  · rw [m5, mode_dir b4.md, d3, mode_parens b4.md, mode_parens b3.md, mode_parens b2.md, a3, mode_pan b4.md, mode_pan b3.md, mode_pan b2.md, a5]

def parenIntCode (g1 g3 d g4 g2 : Bytes) : Code := { src := parenIntSrc g1 g3 d g4 g2, keys := parenIntKeys d }

theorem parenIntCode_ok (g1 g3 d g4 g2 : Bytes) (hg1 : allWs g1) (hg2 : allWs g2) (hg3 : allWs g3) (hg4 : allWs g4) (hd : isDigits d) :
    (parenIntCode g1 g3 d g4 g2).OK := by
  refine ⟨?_, ?_, ?_⟩
  · intro tl
    exact Or.inr (Or.inl ⟨g1 ++ [40] ++ g3 ++ d ++ g4 ++ [41] ++ g2 ++ [125, 125] ++ tl, by simp [parenIntCode, parenIntSrc, List.append_assoc]⟩)
  · simp [parenIntCode, parenIntSrc, parenIntKeys]; omega
  · intro s tl hr hh hb hpa hdi _
    obtain ⟨toks, s5, run, hkeys, r5, pv5, m5⟩ := lex_parenInt s g1 g3 d g4 g2 tl hh hb hdi hg1 hg2 hg3 hg4 hd hr
    obtain ⟨f1, f2, f3, f4, f5⟩ := mode_fields m5
    exact ⟨toks, s5, run, hkeys, r5, f1, f4, by rw [f3]; exact hpa, f2, f5, by rw [pv5]; decide⟩

/-- `( d )` -/
theorem parse_parenInt_expr (k : Nat) (t2 t3 t4 t5 : Token) (tail : List Token) (v : Int64) (h2 : t2.ty = .LPAREN) (h3 : t3.ty = .INT)
    (h4 : t4.ty = .RPAREN) (h5 : t5.ty = .RBRACES) (hv : parseInt64 t3.lit = some v) (hclean : ∀ x ∈ tail, x.ty ≠ .ILLEGAL) :
    parseExpression (k + 3) LOWEST ({ toks := t2 :: t3 :: t4 :: t5 :: tail } : PS) = (.int t3 v, { toks := t4 :: t5 :: tail }) := by
  have c5 := noill_cons (t := t5) (by rw [h5]; decide) hclean
  have c4 := noill_cons (t := t4) (by rw [h4]; decide) c5
  have c3 := noill_cons (t := t3) (by rw [h3]; decide) c4
  have nx2 : ({ toks := t2 :: t3 :: t4 :: t5 :: tail } : PS).next = { toks := t3 :: t4 :: t5 :: tail } := ps_next_clean t2 t3 _ c3
  have nx3 : ({ toks := t3 :: t4 :: t5 :: tail } : PS).next = { toks := t4 :: t5 :: tail } := ps_next_clean t3 t4 _ c4
  have hin : parseExpression (k + 2) LOWEST ({ toks := t3 :: t4 :: t5 :: tail } : PS) = (.int t3 v, { toks := t3 :: t4 :: t5 :: tail }) :=
    parse_int_operand k LOWEST t3 t4 (t5 :: tail) v h3 hv (Or.inr (by rw [h4]; decide))
  rw [parseExpression_succ]
  have hp : prefixBody (parseExpression (k + 2)) (parseExprList (k + 2)) (parseObjLoop (k + 2))
      ({ toks := t2 :: t3 :: t4 :: t5 :: tail } : PS) = some (.int t3 v, { toks := t4 :: t5 :: tail }) := by
    unfold prefixBody
    have c0 : ({ toks := t2 :: t3 :: t4 :: t5 :: tail } : PS).cur.ty = .LPAREN := by simp [PS.cur, h2]
    simp only [c0, nx2, hin]
    have ep := expectPeek_ok ({ toks := t3 :: t4 :: t5 :: tail } : PS) .RPAREN (by simp [PS.peekIs, PS.peek, h4])
    simp [ep, nx3]
  rw [hp]
  simp only []
  exact prattLoop_stop_rbraces (k + 1) LOWEST _ t4 t5 tail h5

/-- **`{{ ( d ) }}`, parsed**: the same expression as `{{ d }}` -/
theorem parse_parenInt_source (g1 g3 d g4 g2 : Bytes) (hg1 : allWs g1) (hg2 : allWs g2) (hg3 : allWs g3) (hg4 : allWs g4) (hd : isDigits d)
    (hb : digitsToNat d ≤ 9223372036854775807) :
    ∃ prog t3 t4, parseSource (parenIntSrc g1 g3 d g4 g2) = .ok prog ∧ prog.stmts = [.expr t4 (.int t3 (Int64.ofNat (digitsToNat d)))] := by
  have hok : GItemsOK [.code (parenIntCode g1 g3 d g4 g2)] := ⟨parenIntCode_ok g1 g3 d g4 g2 hg1 hg2 hg3 hg4 hd, trivial⟩
  obtain ⟨toks, e, htok, hkeys, he⟩ := tokenize_gitems _ hok
  have hsrc : gsrc [.code (parenIntCode g1 g3 d g4 g2)] = parenIntSrc g1 g3 d g4 g2 := by simp [gsrc, GItem.src, parenIntCode]
  rw [hsrc] at htok
  have hk' : toks.map key = parenIntKeys d := by simpa [gkeys, parenIntCode] using hkeys
  match toks, hk' with
  | [], hk' => simp [parenIntKeys] at hk'
  | [_], hk' => simp [parenIntKeys] at hk'
  | [_, _], hk' => simp [parenIntKeys] at hk'
  | [_, _, _], hk' => simp [parenIntKeys] at hk'
  | [_, _, _, _], hk' => simp [parenIntKeys] at hk'
  | _ :: _ :: _ :: _ :: _ :: _ :: _, hk' => simp [parenIntKeys] at hk'
  | [t1, t2, t3, t4, t5], hk' =>
    simp only [parenIntKeys, List.map_cons, List.map_nil, List.cons.injEq, and_true] at hk'
    obtain ⟨hk1, hk2, hk3, hk4, hk5⟩ := hk'
    have ty1 : t1.ty = .LBRACES := congrArg Prod.fst hk1
    have ty2 : t2.ty = .LPAREN := congrArg Prod.fst hk2
    have ty3 : t3.ty = .INT := congrArg Prod.fst hk3
    have lit3 : t3.lit = d := congrArg Prod.snd hk3
    have ty4 : t4.ty = .RPAREN := congrArg Prod.fst hk4
    have ty5 : t5.ty = .RBRACES := congrArg Prod.fst hk5
    have hce : ∀ x ∈ [e], x.ty ≠ .ILLEGAL := by intro x hx; simp at hx; rw [hx, he]; decide
    have c5 := noill_cons (t := t5) (by rw [ty5]; decide) hce
    have c4 := noill_cons (t := t4) (by rw [ty4]; decide) c5
    have c3 := noill_cons (t := t3) (by rw [ty3]; decide) c4
    have c2' := noill_cons (t := t2) (by rw [ty2]; decide) c3
    have hcl : ∀ x ∈ [t1, t2, t3, t4, t5] ++ [e], x.ty ≠ .ILLEGAL := noill_cons (by rw [ty1]; decide) c2'
    refine ⟨{ tok := t1, stmts := [.expr t4 (.int t3 (Int64.ofNat (digitsToNat d)))] }, t3, t4, ?_, rfl⟩
    unfold parseSource
    rw [htok]
    simp only [Bool.false_eq_true, if_false]
    rw [initParser_clean _ hcl]
    have hfuel : parseFuel ([t1, t2, t3, t4, t5] ++ [e]) = 34 + 6 := by simp [parseFuel]
    rw [hfuel]
    have hex := parse_parenInt_expr 35 t2 t3 t4 t5 [e] _ ty2 ty3 ty4 ty5 (by rw [lit3]; exact parseInt64_digits d hd hb) hce
    have hst := parse_expr_stmt_of' 38 t1 t2 t4 t5 [t3, t4, t5, e] [e] _ ty1 (by rw [ty2]; decide) (by rw [ty2]; decide) ty5 c2' c4 hex
    have hloop : parseProgramLoop (34 + 6) [] ({ toks := [t1, t2, t3, t4, t5] ++ [e] } : PS) =
        (some [.expr t4 (.int t3 (Int64.ofNat (digitsToNat d)))], { toks := [e] }) := by
      rw [show 34 + 6 = 39 + 1 from rfl, parseProgramLoop]
      have c0 : ({ toks := [t1, t2, t3, t4, t5] ++ [e] } : PS).curIs .EOF = false := by simp [PS.curIs, PS.cur, ty1]
      simp only [c0, Bool.false_eq_true, if_false]
      simp only [List.cons_append, List.nil_append] at hst ⊢
      rw [show 39 = 38 + 1 from rfl, hst]
      have i5 : ({ toks := [t5, e] } : PS).curIs .ILLEGAL = false := by simp [PS.curIs, PS.cur, ty5]
      simp only [i5, Bool.false_eq_true, if_false, Stmt.isBad]
      have nx : ({ toks := [t5, e] } : PS).next = { toks := [e] } := ps_next_clean t5 e [] hce
      rw [nx, parseProgramLoop]
      have ce : ({ toks := [e] } : PS).curIs .EOF = true := by simp [PS.curIs, PS.cur, he]
      simp [ce]
    rw [hloop]
    simp [finishParse, PS.cur]

end Tw
