/-
  TwProofs.Lemmas.TrimSplit — `trim*` and `split` (C11): the characters of a string partition it,
  `trimLeft` returns a suffix and `trimRight` a prefix of the receiver cut at a character boundary,
  both keep UTF-8 valid, and joining the parts of `split` with the separator gives the receiver back.
-/
import TwModel
import TwProofs.Lemmas.Utf8Valid
namespace Tw

theorem runeChunks_go_nil (f : Nat) : runeChunks.go f [] = [] := by cases f <;> rfl

theorem runeChunks_go_cons (f : Nat) (c : Byte) (t : Bytes) :
    runeChunks.go (f + 1) (c :: t) =
      ((decodeRune (c :: t)).1, (c :: t).take (decodeRune (c :: t)).2) :: runeChunks.go f ((c :: t).drop (decodeRune (c :: t)).2) := rfl

/-- enough fuel is enough -/
theorem runeChunks_go_fuel : ∀ (f1 f2 : Nat) (s : Bytes), s.length ≤ f1 → s.length ≤ f2 → runeChunks.go f1 s = runeChunks.go f2 s := by
  intro f1
  induction f1 with
  | zero =>
    intro f2 s h1 _
    have : s = [] := by cases s with | nil => rfl | cons _ _ => simp at h1
    rw [this, runeChunks_go_nil, runeChunks_go_nil]
  | succ f1 ih =>
    intro f2 s h1 h2
    cases s with
    | nil => rw [runeChunks_go_nil, runeChunks_go_nil]
    | cons c t =>
      obtain ⟨g2, rfl⟩ : ∃ g, f2 = g + 1 := ⟨f2 - 1, by simp at h2; omega⟩
      rw [runeChunks_go_cons, runeChunks_go_cons]
      have hw := decodeRune_width_pos c t
      have hl : ((c :: t).drop (decodeRune (c :: t)).2).length ≤ t.length := by
        simp only [List.length_drop, List.length_cons]; omega
      rw [ih g2 _ (by simp at h1; omega) (by simp at h2; omega)]

theorem runeChunks_cons (c : Byte) (t : Bytes) :
    runeChunks (c :: t) =
      ((decodeRune (c :: t)).1, (c :: t).take (decodeRune (c :: t)).2) :: runeChunks ((c :: t).drop (decodeRune (c :: t)).2) := by
  unfold runeChunks
  rw [List.length_cons, runeChunks_go_cons]
  have hw := decodeRune_width_pos c t
  rw [runeChunks_go_fuel t.length ((c :: t).drop (decodeRune (c :: t)).2).length _ (by simp only [List.length_drop, List.length_cons]; omega)
    (Nat.le_refl _)]

theorem runeChunks_nil : runeChunks [] = [] := rfl

/-- **the characters of a string partition it** -/
theorem runeChunks_flatten : ∀ (n : Nat) (s : Bytes), s.length ≤ n → (runeChunks s).flatMap (·.2) = s := by
  intro n
  induction n with
  | zero => intro s h; have : s = [] := by cases s with | nil => rfl | cons _ _ => simp at h
            rw [this]; rfl
  | succ n ih =>
    intro s h
    cases s with
    | nil => rfl
    | cons c t =>
      rw [runeChunks_cons, List.flatMap_cons]
      have hw := decodeRune_width_pos c t
      rw [ih _ (by simp only [List.length_drop, List.length_cons] at h ⊢; omega)]
      exact List.take_append_drop _ _

/-- `trimLeft` cuts a prefix off: the result is a suffix of the receiver -/
theorem trimLeft_suffix (s cut : Bytes) : ∃ p, s = p ++ trimLeftSet s cut := by
  unfold trimLeftSet
  simp only []
  refine ⟨((runeChunks s).takeWhile fun p => (decodeRunes cut).contains p.1).flatMap (·.2), ?_⟩
  rw [← List.flatMap_append, List.takeWhile_append_dropWhile]
  exact (runeChunks_flatten s.length s (Nat.le_refl _)).symm

/-- `trimRight` cuts a suffix off: the result is a prefix of the receiver -/
theorem trimRight_prefix (s cut : Bytes) : ∃ q, s = trimRightSet s cut ++ q := by
  unfold trimRightSet
  simp only []
  refine ⟨(((runeChunks s).reverse.takeWhile fun p => (decodeRunes cut).contains p.1).reverse).flatMap (·.2), ?_⟩
  rw [← List.flatMap_append, ← List.reverse_append, List.takeWhile_append_dropWhile, List.reverse_reverse]
  exact (runeChunks_flatten s.length s (Nat.le_refl _)).symm

/-- whatever is dropped from the front of the characters of valid UTF-8, the rest is valid UTF-8 -/
theorem dropWhile_chunks_valid (p : Rune × Bytes → Bool) : ∀ (n : Nat) (s : Bytes), s.length ≤ n → validUtf8 s = true →
    validUtf8 (((runeChunks s).dropWhile p).flatMap (·.2)) = true := by
  intro n
  induction n with
  | zero => intro s h _; have : s = [] := by cases s with | nil => rfl | cons _ _ => simp at h
            rw [this]; rfl
  | succ n ih =>
    intro s h hv
    cases s with
    | nil => rfl
    | cons c t =>
      rw [runeChunks_cons, List.dropWhile_cons]
      have hw := decodeRune_width_pos c t
      split
      · exact ih _ (by simp only [List.length_drop, List.length_cons] at h ⊢; omega) (validUtf8_drop_first c t hv)
      · rw [← runeChunks_cons, runeChunks_flatten _ _ (Nat.le_refl _)]; exact hv

/-- **`trimLeft` keeps UTF-8 valid** -/
theorem trimLeft_valid (s cut : Bytes) (h : validUtf8 s = true) : validUtf8 (trimLeftSet s cut) = true := by
  unfold trimLeftSet
  exact dropWhile_chunks_valid _ s.length s (Nat.le_refl _) h


/-! ### split -/

theorem isPrefixOf_eq : ∀ (sep s : Bytes), isPrefixOf sep s = true → s = sep ++ s.drop sep.length
  | [], s, _ => by simp
  | x :: xs, [], h => by simp [isPrefixOf] at h
  | x :: xs, y :: ys, h => by
    simp only [isPrefixOf, Bool.and_eq_true, beq_iff_eq] at h
    have := isPrefixOf_eq xs ys h.2
    simp only [List.cons_append, List.length_cons, List.drop_succ_cons]
    rw [h.1, ← this]

theorem splitGo_ne_nil (sep : Bytes) : ∀ (f : Nat) (s cur : Bytes), splitBytes.go sep f s cur ≠ [] := by
  intro f
  induction f with
  | zero => intro s cur; simp [splitBytes.go]
  | succ f ih =>
    intro s cur
    cases s with
    | nil => simp [splitBytes.go]
    | cons c t =>
      simp only [splitBytes.go]
      split
      · simp
      · exact ih _ _

theorem joinBytes_cons (sep a : Bytes) (l : List Bytes) (h : l ≠ []) : joinBytes sep (a :: l) = a ++ sep ++ joinBytes sep l := by
  cases l with
  | nil => exact absurd rfl h
  | cons x r => rfl

/-- the loop of `strings.Split`: joining what it returns gives the pending piece and the rest back -/
theorem splitGo_join (sep : Bytes) (hsep : sep ≠ []) : ∀ (f : Nat) (s cur : Bytes), s.length ≤ f →
    joinBytes sep (splitBytes.go sep f s cur) = cur ++ s := by
  intro f
  induction f with
  | zero =>
    intro s cur h
    have : s = [] := by cases s with | nil => rfl | cons _ _ => simp at h
    rw [this]; simp [splitBytes.go, joinBytes]
  | succ f ih =>
    intro s cur h
    cases s with
    | nil => simp [splitBytes.go, joinBytes]
    | cons c t =>
      simp only [splitBytes.go]
      split
      · rename_i hp
        have heq := isPrefixOf_eq sep (c :: t) hp
        have hlen : 1 ≤ sep.length := by cases sep with | nil => exact absurd rfl hsep | cons _ _ => simp
        rw [joinBytes_cons _ _ _ (splitGo_ne_nil sep f _ _)]
        rw [ih _ [] (by simp only [List.length_drop, List.length_cons] at h ⊢; omega)]
        rw [List.nil_append, List.append_assoc, ← heq]
      · rw [ih t (cur ++ [c]) (by simp at h; omega)]
        simp

/-- **joining the parts of `split` with the separator gives the receiver back** -/
theorem split_join (s sep : Bytes) : joinBytes sep (splitBytes s sep) = s := by
  unfold splitBytes
  split
  · rename_i he
    have hsep : sep = [] := by simpa using he
    rw [hsep]
    have hj : ∀ l : List Bytes, joinBytes [] l = l.flatMap id := by
      intro l
      induction l with
      | nil => rfl
      | cons a r ih =>
        cases r with
        | nil => simp [joinBytes]
        | cons x r' => simp only [joinBytes, List.append_nil, List.flatMap_cons, id]; rw [ih]; simp
    rw [hj, List.flatMap_map]
    exact runeChunks_flatten s.length s (Nat.le_refl _)
  · rename_i he
    have hsep : sep ≠ [] := by intro h; apply he; rw [h]; rfl
    have := splitGo_join sep hsep s.length s [] (Nat.le_refl _)
    simpa using this


/-! ### `trimRight` keeps UTF-8 valid -/

/-- the bytes of the first character decode to that character -/
theorem decodeRune_take (c : Byte) (t : Bytes)
    (hv : ¬ ((decodeRune (c :: t)).1 = runeError ∧ (decodeRune (c :: t)).2 = 1)) :
    decodeRune ((c :: t).take (decodeRune (c :: t)).2) = decodeRune (c :: t) := by
  by_cases h1 : c < 0x80
  · simp [decodeRune, h1]
  by_cases h2 : (0xC2 ≤ c && c ≤ 0xDF) = true
  · cases t with
    | nil => exfalso; apply hv; simp [decodeRune, h1, h2]
    | cons c1 r =>
      by_cases hc : isCont c1 = true
      · simp [decodeRune, h1, h2, hc]
      · exfalso; apply hv; simp [decodeRune, h1, h2, hc]
  by_cases h3 : (0xE0 ≤ c && c ≤ 0xEF) = true
  · cases t with
    | nil => exfalso; apply hv; simp [decodeRune, h1, h2, h3]
    | cons c1 r =>
      cases r with
      | nil => exfalso; apply hv; simp [decodeRune, h1, h2, h3]
      | cons c2 r2 =>
        by_cases hc : ((if c == 0xE0 then 0xA0 else 0x80) ≤ c1 && c1 ≤ (if c == 0xED then 0x9F else 0xBF) && isCont c2) = true
        · simp only [decodeRune, h1, h2, h3, hc, if_true, if_false, Bool.false_eq_true]
          simp [decodeRune, h1, h2, h3]
          simpa [and_assoc] using hc
        · exfalso; apply hv; simp only [decodeRune, h1, h2, h3, hc, if_true, if_false, Bool.false_eq_true]; simp
  by_cases h4 : (0xF0 ≤ c && c ≤ 0xF4) = true
  · cases t with
    | nil => exfalso; apply hv; simp [decodeRune, h1, h2, h3, h4]
    | cons c1 r =>
      cases r with
      | nil => exfalso; apply hv; simp [decodeRune, h1, h2, h3, h4]
      | cons c2 r2 =>
        cases r2 with
        | nil => exfalso; apply hv; simp [decodeRune, h1, h2, h3, h4]
        | cons c3 r3 =>
          by_cases hc : ((if c == 0xF0 then 0x90 else 0x80) ≤ c1 && c1 ≤ (if c == 0xF4 then 0x8F else 0xBF) && isCont c2 && isCont c3) = true
          · simp only [decodeRune, h1, h2, h3, h4, hc, if_true, if_false, Bool.false_eq_true]
            simp [decodeRune, h1, h2, h3, h4]
            simpa [and_assoc] using hc
          · exfalso; apply hv; simp only [decodeRune, h1, h2, h3, h4, hc, if_true, if_false, Bool.false_eq_true]; simp
  · exfalso; apply hv; simp [decodeRune, h1, h2, h3, h4]


/-- the bytes of one well-formed character are valid UTF-8 -/
theorem first_chunk_valid (c : Byte) (t : Bytes)
    (hv : ¬ ((decodeRune (c :: t)).1 = runeError ∧ (decodeRune (c :: t)).2 = 1)) :
    validUtf8 ((c :: t).take (decodeRune (c :: t)).2) = true := by
  have hw := decodeRune_width_pos c t
  obtain ⟨w, hwe⟩ : ∃ w, (decodeRune (c :: t)).2 = w + 1 := ⟨(decodeRune (c :: t)).2 - 1, by omega⟩
  have hd := decodeRune_take c t hv
  have hle := (decodeRune_append c t [] hv).2
  rw [hwe] at hd hle ⊢
  simp only [List.take_succ_cons] at hd ⊢
  unfold validUtf8
  rw [List.length_cons, validGo_cons, hd]
  have hne : ¬ (((decodeRune (c :: t)).1 == runeError && (decodeRune (c :: t)).2 == 1) = true) := by
    intro h; apply hv; simpa using h
  rw [if_neg hne, hwe]
  have : List.drop (w + 1) (c :: List.take w t) = [] := by
    simp only [List.drop_succ_cons]
    apply List.drop_eq_nil_of_le
    simp [List.length_take]; omega
  rw [this, validGo_nil]

/-- a run of leading characters of valid UTF-8 is valid UTF-8 -/
theorem take_chunks_valid : ∀ (n : Nat) (s : Bytes) (k : Nat), s.length ≤ n → validUtf8 s = true →
    validUtf8 (((runeChunks s).take k).flatMap (·.2)) = true := by
  intro n
  induction n with
  | zero => intro s k h _; have : s = [] := by cases s with | nil => rfl | cons _ _ => simp at h
            rw [this]; simp [runeChunks_nil]; rfl
  | succ n ih =>
    intro s k h hv
    cases s with
    | nil => simp [runeChunks_nil]; rfl
    | cons c t =>
      cases k with
      | zero => simp; rfl
      | succ k =>
        rw [runeChunks_cons, List.take_succ_cons, List.flatMap_cons]
        have hw := decodeRune_width_pos c t
        have hne : ¬ ((decodeRune (c :: t)).1 = runeError ∧ (decodeRune (c :: t)).2 = 1) := by
          intro ⟨h1, h2⟩
          unfold validUtf8 at hv
          rw [List.length_cons, validGo_cons] at hv
          simp [h1, h2] at hv
        exact validUtf8_append _ _ (first_chunk_valid c t hne)
          (ih _ k (by simp only [List.length_drop, List.length_cons] at h ⊢; omega) (validUtf8_drop_first c t hv))

theorem dropWhile_eq_drop {α} (p : α → Bool) : ∀ l : List α, ∃ j, l.dropWhile p = l.drop j
  | [] => ⟨0, rfl⟩
  | a :: r => by
    rw [List.dropWhile_cons]
    split
    · obtain ⟨j, hj⟩ := dropWhile_eq_drop p r
      exact ⟨j + 1, by rw [hj]; rfl⟩
    · exact ⟨0, rfl⟩

/-- **`trimRight` keeps UTF-8 valid** -/
theorem trimRight_valid (s cut : Bytes) (h : validUtf8 s = true) : validUtf8 (trimRightSet s cut) = true := by
  unfold trimRightSet
  simp only []
  obtain ⟨j, hj⟩ := dropWhile_eq_drop (fun p : Rune × Bytes => (decodeRunes cut).contains p.1) (runeChunks s).reverse
  rw [hj]
  have : ((runeChunks s).reverse.drop j).reverse = (runeChunks s).take ((runeChunks s).length - j) := by
    rw [List.drop_reverse, List.reverse_reverse]
  rw [this]
  exact take_chunks_valid s.length s _ (Nat.le_refl _) h

/-- **`trim` keeps UTF-8 valid** (it is `trimLeft` of `trimRight`, or the other way round) -/
theorem trim_valid (s cut : Bytes) (h : validUtf8 s = true) : validUtf8 (trimRightSet (trimLeftSet s cut) cut) = true :=
  trimRight_valid _ cut (trimLeft_valid s cut h)

end Tw
