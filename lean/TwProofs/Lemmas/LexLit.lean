/-
  TwProofs.Lemmas.LexLit — the literal of a token is the text it covers (C19): for every token
  other than a string or a text token (whose literals are the covered bytes with the quotes and
  the escaping backslashes removed) the literal equals the bytes between its start and its end.
-/
import TwProofs.Lemmas.LexSpan
import TwProofs.Lemmas.LexNoPanic

namespace Tw
open Lx

/-- the literal of the descriptor is the run of bytes it covers -/
def DescLit (d : TokDesc) : Prop := d.ty ≠ .STR → d.lit = d.st.rest.take d.n

theorem illegalDesc_lit (s : Lx) (hne : s.rest ≠ []) : DescLit (illegalDesc s) := by
  obtain ⟨c, r, hcr, hchar⟩ := rest_cons s hne
  intro _
  simp [illegalDesc, hcr, hchar]

theorem take_takeWhile_length {α} (p : α → Bool) (l : List α) : l.take (l.takeWhile p).length = l.takeWhile p := by
  induction l with
  | nil => simp
  | cons a r ih =>
    simp only [List.takeWhile_cons]
    split
    · simp [ih]
    · simp

theorem wordDesc_lit (s : Lx) (hne : s.rest ≠ []) : DescLit (wordDesc s) := by
  unfold wordDesc
  split
  · intro _; exact (take_takeWhile_length _ _).symm
  · split
    · intro _; rfl
    · exact illegalDesc_lit s hne

theorem two_of_char_peek (s : Lx) (hne : s.rest ≠ []) (a c : Byte) (ha : s.char = a) (hc : s.peek = c) (hc0 : c ≠ 0) :
    s.rest.take 2 = [a, c] := by
  obtain ⟨x, r, hcr, hchar⟩ := rest_cons s hne
  cases r with
  | nil =>
    have : s.peek = 0 := by simp [Lx.peek, hcr]
    rw [this] at hc; exact absurd hc.symm hc0
  | cons y r' =>
    have hp : s.peek = y := by simp [Lx.peek, hcr]
    rw [hcr]
    simp [← hchar, ha, ← hp, hc]

theorem one_of_char (s : Lx) (hne : s.rest ≠ []) (a : Byte) (ha : s.char = a) : s.rest.take 1 = [a] := by
  obtain ⟨x, r, hcr, hchar⟩ := rest_cons s hne
  rw [hcr]; simp [← hchar, ha]

theorem opDesc_lit (s : Lx) (hne : s.rest ≠ []) : DescLit (opDesc s) := by
  unfold opDesc
  split
  · rename_i h1
    split
    · rename_i h2; intro _; exact (two_of_char_peek s hne 60 61 (by simpa using h1) (by simpa using h2) (by decide)).symm
    · intro _; exact (one_of_char s hne 60 (by simpa using h1)).symm
  split
  · rename_i h1
    split
    · rename_i h2; intro _; exact (two_of_char_peek s hne 62 61 (by simpa using h1) (by simpa using h2) (by decide)).symm
    · intro _; exact (one_of_char s hne 62 (by simpa using h1)).symm
  split
  · rename_i h1
    split
    · rename_i h2; intro _; exact (two_of_char_peek s hne 33 61 (by simpa using h1) (by simpa using h2) (by decide)).symm
    · intro _; exact (one_of_char s hne 33 (by simpa using h1)).symm
  split
  · rename_i h1
    split
    · rename_i h2; intro _; exact (two_of_char_peek s hne 45 45 (by simpa using h1) (by simpa using h2) (by decide)).symm
    · intro _; exact (one_of_char s hne 45 (by simpa using h1)).symm
  split
  · rename_i h1
    split
    · rename_i h2; intro _; exact (two_of_char_peek s hne 43 43 (by simpa using h1) (by simpa using h2) (by decide)).symm
    · intro _; exact (one_of_char s hne 43 (by simpa using h1)).symm
  split
  · rename_i h1
    split
    · rename_i h2; intro _; exact (two_of_char_peek s hne 61 61 (by simpa using h1) (by simpa using h2) (by decide)).symm
    · intro _; exact (one_of_char s hne 61 (by simpa using h1)).symm
  · exact wordDesc_lit s hne

theorem bracketDesc_lit (s : Lx) (hne : s.rest ≠ []) : DescLit (bracketDesc s) := by
  unfold bracketDesc
  split
  · rename_i h1; intro _; exact (one_of_char s hne 123 (by simpa using h1)).symm
  split
  · rename_i h1; intro _; exact (one_of_char s hne 125 (by simpa using h1)).symm
  split
  · rename_i h1
    intro _
    show [40] = (if s.isDirective = true then _ else s).rest.take 1
    have : (if s.isDirective = true then ({ s with parens := s.parens + 1 } : Lx) else s).rest = s.rest := by split <;> rfl
    rw [this]; exact (one_of_char s hne 40 (by simpa using h1)).symm
  split
  · rename_i h1
    intro _
    show [41] = (if _ then _ else if _ then _ else s).rest.take 1
    have : (if (s.isDirective && s.parens - 1 == 0) = true then
        ({ s with parens := s.parens - 1, isDirective := false, isHTML := true } : Lx)
      else if s.isDirective = true then ({ s with parens := s.parens - 1 } : Lx) else s).rest = s.rest := by
      split
      · rfl
      · split <;> rfl
    rw [this]; exact (one_of_char s hne 41 (by simpa using h1)).symm
  split
  · intro h; exact absurd rfl h
  · exact opDesc_lit s hne

theorem codeDesc_lit (s : Lx) (hne : s.rest ≠ []) : DescLit (codeDesc s) := by
  unfold codeDesc
  split
  · intro _; exact (one_of_char s hne s.char rfl).symm
  · exact bracketDesc_lit s hne

theorem directiveDesc_lit (s : Lx) (hne : s.rest ≠ []) (hf : (directiveDesc s).ty ≠ .ILLEGAL) :
    (directiveDesc s).lit = s.rest.take (directiveDesc s).n ∧ (directiveDesc s).st = s := by
  unfold directiveDesc at hf ⊢
  split
  · rename_i h; rw [if_pos h] at hf; exact absurd rfl hf
  · rename_i h
    rw [if_neg h] at hf
    simp only at hf ⊢
    split
    · rename_i hill; rw [if_pos hill] at hf; exact absurd rfl hf
    · refine ⟨?_, rfl⟩
      show (dirScan [] TT.ILLEGAL s.rest).1 = s.rest.take (dirScan [] TT.ILLEGAL s.rest).1.length
      obtain ⟨m, hm, hle⟩ := dirScan_prefix s.rest [] .ILLEGAL
      rw [hm]
      simp [List.length_take, Nat.min_eq_left hle]

/-- **a token's literal is the text it covers**: from every state, the token a `NextToken` body
    returns (other than a string or a text token) has as its literal exactly the bytes it
    consumes -/
theorem stepAt_lit (s : Lx) (hne : s.rest ≠ []) (t : Token) (h : (stepAt s).1 = .tok t) (hs : t.ty ≠ .STR) (hh : t.ty ≠ .HTML) :
    ∃ n, t.lit = s.rest.take n ∧ (stepAt s).2.rest = s.rest.drop n := by
  have hneof : ¬ s.isEOF = true := fun h => hne ((isEOF_iff s).mp h)
  unfold stepAt at h ⊢
  rw [if_neg hneof] at h ⊢
  split at h
  · rename_i hbr
    split at h
    · cases h
    · rename_i hnc
      cases h
      rw [if_pos hbr, if_neg hnc]
      refine ⟨2, ?_, ?_⟩
      · simp only [bracesToken, emit_lit]
        simp only [Bool.and_eq_true, beq_iff_eq] at hbr
        exact (two_of_char_peek s hne 123 123 hbr.1 hbr.2 (by decide)).symm
      · simp only [bracesToken, emit_rest]
  · rename_i hnb
    rw [if_neg hnb]
    split at h
    · rename_i hcl
      cases h
      rw [if_pos hcl]
      refine ⟨2, ?_, ?_⟩
      · simp only [bracesToken, emit_lit]
        simp only [Bool.and_eq_true, beq_iff_eq, Bool.not_eq_true'] at hcl
        exact (two_of_char_peek s hne 125 125 hcl.1.1.2 hcl.1.2 (by decide)).symm
      · simp only [bracesToken, emit_rest]
    · rename_i hncl
      rw [if_neg hncl]
      split at h
      · rename_i hcode
        cases h
        rw [if_pos hcode]
        have hty : (codeDesc s).ty ≠ .STR := by
          intro he; apply hs; simp only [embeddedCodeToken, TokDesc.emit, emit_ty]; exact he
        have hl := codeDesc_lit s hne hty
        have hst : (codeDesc s).st.rest = s.rest := (codeDesc_ok s hne).1.2.1
        refine ⟨(codeDesc s).n, ?_, ?_⟩
        · simp only [embeddedCodeToken, TokDesc.emit, emit_lit]; rw [hl, hst]
        · simp only [embeddedCodeToken, TokDesc.emit, emit_rest]; rw [hst]
      · rename_i hncode
        rw [if_neg hncode]
        split at h
        · rename_i hdir
          cases h
          rw [if_pos hdir]
          have hfound := directive_found s hdir
          obtain ⟨hl, hst⟩ := directiveDesc_lit s hne hfound
          refine ⟨(directiveDesc s).n, ?_, ?_⟩
          · unfold directiveToken
            simp only
            rw [if_neg (by simpa using hfound)]
            simp only [TokDesc.emit, emit_lit]
            exact hl
          · unfold directiveToken
            simp only
            rw [if_neg (by simpa using hfound)]
            simp only [TokDesc.emit, emit_rest, hst]
        · rename_i hndir
          cases h
          exfalso; apply hh
          unfold htmlToken; simp [emit_ty]


/-! ### the whole token list: positions, literals and gaps -/

/-- what may lie between two tokens: white space and comments (an unterminated comment runs to the end) -/
inductive Gap : Bytes → Prop
  | nil : Gap []
  | ws (c : Byte) (g : Bytes) : isWs c = true → Gap g → Gap (c :: g)
  | comment (body g : Bytes) : Gap g → Gap ([123, 123, 45, 45] ++ body ++ [45, 45, 125, 125] ++ g)
  | opened (body : Bytes) : Gap ([123, 123, 45, 45] ++ body)

theorem Gap.ws_run (w g : Bytes) (hw : ∀ c ∈ w, isWs c = true) (hg : Gap g) : Gap (w ++ g) := by
  induction w with
  | nil => exact hg
  | cons c r ih => exact .ws c _ (hw c (by simp)) (ih (fun x hx => hw x (by simp [hx])))

/-- the bytes `[a, b)` of the input -/
def slice (inp : Bytes) (a b : Nat) : Bytes := (inp.drop a).take (b - a)

theorem slice_append (inp : Bytes) (a m b : Nat) (h1 : a ≤ m) (h2 : m ≤ b) : slice inp a b = slice inp a m ++ slice inp m b := by
  unfold slice
  have : b - a = (m - a) + (b - m) := by omega
  rw [this, List.take_add]
  congr 1
  rw [List.drop_drop]
  congr 2
  omega

/-- tokens in source order from offset `a` on: between the offset and the token only white space
    and comments, the token covers `[a', a' + n)` with exact start and end positions, its literal
    (unless it is a string or a text token) is exactly these bytes; closed by EOF after a last gap -/
inductive FullTiled (inp : Bytes) : Nat → List Token → Prop where
  | eof (a : Nat) (t : Token) : t.ty = .EOF → a ≤ inp.length → Gap (inp.drop a) →
      (t.pos.startLine, t.pos.startCol) = posOf inp inp.length →
      (t.pos.endLine, t.pos.endCol) = posOf inp inp.length → FullTiled inp a [t]
  | tok (a a' n : Nat) (t : Token) (ts : List Token) : a ≤ a' → Gap (slice inp a a') → t.ty ≠ .EOF → Covers inp t a' n →
      (t.ty ≠ .STR → t.ty ≠ .HTML → t.lit = slice inp a' (a' + n)) →
      FullTiled inp (a' + n) ts → FullTiled inp a (t :: ts)

/-- a run of gap bytes in front -/
theorem FullTiled.prepend {inp : Bytes} {a a2 : Nat} {ts : List Token} (h : FullTiled inp a2 ts) (ha : a ≤ a2) (hl : a2 ≤ inp.length)
    (hw : ∀ g, Gap g → Gap (slice inp a a2 ++ g)) : FullTiled inp a ts := by
  cases h with
  | eof _ t h1 h2 h3 h4 h5 =>
    refine .eof a t h1 (by omega) ?_ h4 h5
    have : inp.drop a = slice inp a a2 ++ inp.drop a2 := by
      unfold slice
      have := List.take_append_drop (a2 - a) (inp.drop a)
      rw [List.drop_drop] at this
      rw [show a + (a2 - a) = a2 by omega] at this
      exact this.symm
    rw [this]; exact hw _ h3
  | tok _ a' n t ts h1 h2 h3 h4 h5 h6 =>
    refine .tok a a' n t ts (by omega) ?_ h3 h4 h5 h6
    rw [slice_append inp a a2 a' ha h1]
    exact hw _ h2

theorem src_drop (inp : Bytes) (s : Lx) (h : Src inp s) : inp.drop s.pre.length = s.rest := by
  unfold Src at h
  rw [← h]
  simp

theorem src_len (inp : Bytes) (s : Lx) (h : Src inp s) : s.pre.length + s.rest.length = inp.length := by
  unfold Src at h; rw [← h]; simp

/-- the bytes between two states of one run of the lexer -/
theorem slice_of_states (inp : Bytes) (s s' : Lx) (hs : Src inp s) (hs' : Src inp s') (w : Bytes) (hw : s.rest = w ++ s'.rest) :
    s'.pre.length = s.pre.length + w.length ∧ slice inp s.pre.length s'.pre.length = w := by
  have l1 := src_len inp s hs
  have l2 := src_len inp s' hs'
  have hl : s.rest.length = w.length + s'.rest.length := by rw [hw]; simp
  have hoff : s'.pre.length = s.pre.length + w.length := by omega
  refine ⟨hoff, ?_⟩
  unfold slice
  rw [src_drop inp s hs, hw, hoff]
  simp

theorem takeWhile_all {α} (p : α → Bool) : ∀ (l : List α) (x : α), x ∈ l.takeWhile p → p x = true
  | [], _, h => by simp at h
  | a :: r, x, h => by
    simp only [List.takeWhile_cons] at h
    split at h
    · rename_i ha
      rcases List.mem_cons.mp h with h1 | h1
      · rw [h1]; exact ha
      · exact takeWhile_all p r x h1
    · simp at h

theorem skipWs_consumed (s : Lx) : ∃ w, s.rest = w ++ (skipWs s).rest ∧ ∀ c ∈ w, isWs c = true := by
  unfold skipWs
  split
  · refine ⟨s.rest.takeWhile isWs, ?_, ?_⟩
    · rw [advance_rest]
      have := List.take_append_drop (s.rest.takeWhile isWs).length s.rest
      rw [take_takeWhile_length] at this
      exact this.symm
    · intro c hc
      exact takeWhile_all isWs s.rest c hc
  · exact ⟨[], by simp, by simp⟩

/-- the bytes a skipped comment consumes -/
theorem comment_consumed (s : Lx) (hb : (s.char == 123 && s.peek == 123) = true)
    (hc : ((bracesToken s .LBRACES [123, 123]).2.char == 45 && (bracesToken s .LBRACES [123, 123]).2.peek == 45) = true) :
    ∃ cm, s.rest = cm ++ (skipComment (bracesToken s .LBRACES [123, 123]).2).rest ∧ ∀ g, Gap g → Gap (cm ++ g) := by
  have hbr : (bracesToken s .LBRACES [123, 123]).2.rest = s.rest.drop 2 := by unfold bracesToken; rw [emit_rest]
  generalize (bracesToken s .LBRACES [123, 123]).2 = s1 at hbr hc ⊢
  simp only [Bool.and_eq_true, beq_iff_eq] at hb hc
  -- the input starts with "{{--"
  obtain ⟨r, hr⟩ : ∃ r, s.rest = 123 :: 123 :: 45 :: 45 :: r := by
    have h1 := hb.1; have h2 := hb.2; have h3 := hc.1; have h4 := hc.2
    unfold Lx.char at h1 h3; unfold Lx.peek at h2 h4
    rw [hbr] at h3 h4
    cases hs : s.rest with
    | nil => rw [hs] at h1; simp at h1
    | cons a t1 =>
      cases t1 with
      | nil => rw [hs] at h2; simp at h2
      | cons b t2 =>
        cases t2 with
        | nil => rw [hs] at h3; simp at h3
        | cons c t3 =>
          cases t3 with
          | nil => rw [hs] at h4; simp at h4
          | cons d t4 =>
            rw [hs] at h1 h2 h3 h4
            simp at h1 h2 h3 h4
            exact ⟨t4, by rw [h1, h2, h3, h4]⟩
  have h1rest : s1.rest = 45 :: 45 :: r := by rw [hbr, hr]; rfl
  have h2rest : (readChar (readChar s1)).rest = r := by
    rw [readChar_eq_advance, readChar_eq_advance, advance_rest, advance_rest, h1rest]; rfl
  unfold skipComment
  simp only []
  have h3rest : (advance (readChar (readChar s1)) (commentScan (readChar (readChar s1)).rest)).rest = r.drop (commentScan r) := by
    rw [advance_rest, h2rest]
  split
  · rename_i heof
    have hnil : r.drop (commentScan r) = [] := by rw [← h3rest]; exact (isEOF_iff _).mp heof
    refine ⟨s.rest, by rw [h3rest, hnil]; simp, ?_⟩
    intro g _
    rw [hr]
    exact .opened (r ++ g)
  · rename_i hneof
    rcases commentScan_stop r with hnil | ⟨r', hr'⟩
    · exfalso; apply hneof; rw [isEOF_iff, h3rest]; exact hnil
    · refine ⟨[123, 123, 45, 45] ++ r.take (commentScan r) ++ [45, 45, 125, 125], ?_, ?_⟩
      · rw [advance_rest]
        show s.rest = _ ++ List.drop 4 (advance _ _).rest
        rw [h3rest, hr', hr]
        have e : r = r.take (commentScan r) ++ 45 :: 45 :: 125 :: 125 :: r' := by
          have := List.take_append_drop (commentScan r) r
          rw [hr'] at this
          exact this.symm
        simp only [List.append_assoc, List.cons_append, List.nil_append, List.drop_succ_cons, List.drop_zero]
        exact congrArg (fun x => 123 :: 123 :: 45 :: 45 :: x) e
      · intro g hg
        have := Gap.comment (r.take (commentScan r)) g hg
        simpa [List.append_assoc] using this

theorem take_eq_of_drop_eq {α} (l : List α) (n n' : Nat) (hn : n ≤ l.length) (h : l.drop n = l.drop n') : l.take n' = l.take n := by
  have h1 : (l.drop n).length = (l.drop n').length := by rw [h]
  simp only [List.length_drop] at h1
  by_cases hle : n' ≤ l.length
  · have : n = n' := by omega
    rw [this]
  · have hn' : l.length ≤ n' := by omega
    have : n = l.length := by omega
    rw [this, List.take_of_length_le hn', List.take_length]

/-- **C19, the whole statement about the token list**: tokens in source order without overlap,
    each with the exact positions of its first and last byte, its literal the bytes in between
    (strings and text tokens excepted), only white space and comments in the gaps, EOF at the end -/
theorem lexAll_fullTiled (inp : Bytes) : ∀ (fuel : Nat) (s : Lx) (ts : List Token) (sf : Lx),
    PosInv s → Src inp s → lexAll fuel s = some (ts, sf) → FullTiled inp s.pre.length ts := by
  intro fuel
  induction fuel with
  | zero => intro s ts sf _ _ h; simp [lexAll] at h
  | succ fuel ih =>
    intro s ts sf hp hs h
    unfold lexAll at h
    obtain ⟨wp, ws, wl⟩ := skipWs_inv inp s hp hs
    obtain ⟨w, hwr, hwws⟩ := skipWs_consumed s
    obtain ⟨hwoff, hwslice⟩ := slice_of_states inp s (skipWs s) hs ws w hwr
    have hwl : (skipWs s).pre.length ≤ inp.length := by have := src_len inp _ ws; omega
    have hstep : nextStep s = stepAt (skipWs s) := rfl
    -- everything below is proved from the state after the white space, then the white space is put in front
    suffices hmain : FullTiled inp (skipWs s).pre.length ts by
      exact hmain.prepend wl hwl (fun g hg => by rw [hwslice]; exact Gap.ws_run w g hwws hg)
    by_cases hnil : (skipWs s).rest = []
    · obtain ⟨⟨t, ht, hty⟩, hrest⟩ := (stepAt_progress (skipWs s)).1 hnil
      have hisEOF : (skipWs s).isEOF = true := (isEOF_iff _).mpr hnil
      have htdef : t = (skipWs s).tokenBegins.newToken .EOF [] := by
        have : (stepAt (skipWs s)).1 = .tok ((skipWs s).tokenBegins.newToken .EOF []) := by
          unfold stepAt; rw [if_pos hisEOF]
        rw [this] at ht; cases ht; rfl
      rw [hstep] at h
      cases hst : stepAt (skipWs s) with
      | mk st s1 =>
        rw [hst] at h ht
        simp only at ht
        subst ht
        simp only [hty, beq_self_eq_true, if_true, Option.some.injEq, Prod.mk.injEq] at h
        obtain ⟨rfl, _⟩ := h
        have hlen : (skipWs s).pre.length = inp.length := by
          have := src_len inp _ ws; rw [hnil] at this; simpa using this
        have hpos : posOf inp inp.length = ((skipWs s).line, (skipWs s).col) := by
          unfold posOf
          have := src_take inp (skipWs s) ws 0
          simp only [Nat.add_zero, List.take_zero, List.reverse_nil, List.nil_append, hlen] at this
          rw [this, wp.line, wp.col]
        refine .eof _ t hty (by omega) ?_ ?_ ?_
        · rw [src_drop inp _ ws, hnil]; exact .nil
        · rw [hpos, htdef]; simp [newToken, Lx.tokenBegins]
        · rw [hpos, htdef]; simp [newToken, Lx.tokenBegins]
    · obtain ⟨hlt, hne⟩ := (stepAt_progress (skipWs s)).2 hnil
      rw [hstep] at h
      cases hst : stepAt (skipWs s) with
      | mk st s1 =>
        rw [hst] at h hlt hne
        cases st with
        | again =>
          simp only at h
          -- which branch of `stepAt` skips: "{{" followed by "--"
          have hbranch : (((skipWs s).char == 123 && (skipWs s).peek == 123) = true) ∧
              (((bracesToken (skipWs s) .LBRACES [123, 123]).2.char == 45 && (bracesToken (skipWs s) .LBRACES [123, 123]).2.peek == 45) = true) ∧
              s1 = skipComment (bracesToken (skipWs s) .LBRACES [123, 123]).2 := by
            have := hst
            unfold stepAt at this
            rw [if_neg (fun hh => hnil ((isEOF_iff _).mp hh))] at this
            split at this
            · rename_i hb
              split at this
              · rename_i hc; cases this; exact ⟨hb, hc, rfl⟩
              · cases this
            · split at this
              · cases this
              · split at this
                · cases this
                · split at this <;> cases this
          obtain ⟨hb, hc, hs1⟩ := hbranch
          have hbsp : Spans (skipWs s) (bracesToken (skipWs s) .LBRACES [123, 123]).1 (bracesToken (skipWs s) .LBRACES [123, 123]).2 (min 2 (skipWs s).rest.length) :=
            descEmit_spans_min (skipWs s) wp hnil ⟨{ (skipWs s) with isHTML := TT.LBRACES != TT.LBRACES }, 2, .LBRACES, [123, 123]⟩
              ⟨⟨rfl, rfl, rfl, rfl, rfl⟩, by simp, by simp⟩
          have sb : Src inp (bracesToken (skipWs s) .LBRACES [123, 123]).2 := by
            unfold Src; rw [hbsp.pre, hbsp.rest]
            have := ws; unfold Src at this
            simp [← this, List.append_assoc]
          obtain ⟨cp, cs, cl⟩ := skipComment_inv inp _ hbsp.inv sb
          obtain ⟨cm, hcm, hcmgap⟩ := comment_consumed (skipWs s) hb hc
          rw [← hs1] at cp cs hcm
          obtain ⟨hcoff, hcslice⟩ := slice_of_states inp (skipWs s) s1 ws cs cm hcm
          have hrecT := ih s1 ts sf cp cs h
          have hl1 : s1.pre.length ≤ inp.length := by have := src_len inp _ cs; omega
          exact hrecT.prepend (by omega) hl1 (fun g hg => by rw [hcslice]; exact hcmgap g hg)
        | tok t =>
          have hteof : t.ty ≠ .EOF := hne t rfl
          simp only [beq_iff_eq, hteof, if_false] at h
          cases hrec : lexAll fuel s1 with
          | none => simp [hrec] at h
          | some r =>
            obtain ⟨ts1, sf1⟩ := r
            simp only [hrec, Option.map_some, Option.some.injEq, Prod.mk.injEq] at h
            obtain ⟨rfl, _⟩ := h
            have htk : (stepAt (skipWs s)).1 = .tok t := by rw [hst]
            obtain ⟨n, hsp⟩ := stepAt_spans (skipWs s) wp hnil t htk
            rw [hst] at hsp
            simp only at hsp
            have s1src : Src inp s1 := by
              unfold Src; rw [hsp.pre, hsp.rest]
              have := ws; unfold Src at this
              simp [← this, List.append_assoc]
            have hrecT := ih s1 ts1 sf1 hsp.inv s1src hrec
            have hpre1 : s1.pre.length = (skipWs s).pre.length + n := by
              rw [hsp.pre]; simp [List.length_take, Nat.min_eq_left hsp.n_le]; omega
            rw [hpre1] at hrecT
            refine .tok _ _ n t ts1 (Nat.le_refl _) ?_ hteof (covers_of_spans inp (skipWs s) ws t s1 n hsp) ?_ hrecT
            · have : slice inp (skipWs s).pre.length (skipWs s).pre.length = [] := by simp [slice]
              rw [this]; exact .nil
            · intro hs' hh'
              obtain ⟨n', hl, hr'⟩ := stepAt_lit (skipWs s) hnil t htk hs' hh'
              rw [hst] at hr'
              simp only at hr'
              have heq := take_eq_of_drop_eq (skipWs s).rest n n' hsp.n_le (by rw [← hsp.rest, hr'])
              rw [hl, heq]
              unfold slice
              rw [src_drop inp _ ws]
              simp

/-- the token list of a whole input -/
theorem tokenize_fullTiled (inp : Bytes) (r : LexResult) (h : tokenize inp = some r) : FullTiled inp 0 r.toks := by
  unfold tokenize at h
  cases hl : lexAll (lexFuel inp) (Lx.init inp) with
  | none => simp [hl] at h
  | some p =>
    obtain ⟨ts, sf⟩ := p
    simp only [hl, Option.map_some, Option.some.injEq] at h
    subst h
    exact lexAll_fullTiled inp _ (Lx.init inp) ts sf (posInv_init inp) (src_init inp) hl

end Tw
