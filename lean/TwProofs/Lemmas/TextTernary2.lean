/-
  TwProofs.Lemmas.TextTernary2 — `{{ k ? a : j ? b : d }}`: a ternary in the else part of a ternary, from the
  source bytes to the parsed program (C01: the ternary nests to the right).
-/
import TwProofs.Lemmas.TextCmp
import TwProofs.Lemmas.TextTernary
namespace Tw
open Lx

/-- `{{ g1 k g3 ? g4 a g5 : g6 j g7 ? g8 b g9 : g10 d g2 }}` -/
def tern2Src (g1 k g3 g4 a g5 g6 j g7 g8 b' g9 g10 d g2 : Bytes) : Bytes :=
  [123, 123] ++ g1 ++ k ++ g3 ++ [63] ++ g4 ++ a ++ g5 ++ [58] ++ g6 ++ j ++ g7 ++ [63] ++ g8 ++ b' ++ g9 ++ [58] ++ g10 ++ d ++ g2 ++ [125, 125]

def tern2Keys (k a j b' d : Bytes) : List (TT × Bytes) :=
  [(.LBRACES, [123, 123]), (.IDENT, k), (.QUESTION, [63]), (.INT, a), (.COLON, [58]), (.IDENT, j), (.QUESTION, [63]), (.INT, b'), (.COLON, [58]),
   (.INT, d), (.RBRACES, [125, 125])]

/-- after a name comes white space or "?": no identifier byte, no digit -/
theorem ws_then_q_not_word (g x : Bytes) (hg : allWs g) :
    (isIdentCh ((g ++ (63 :: x)).headD 0) || isNumberCh ((g ++ (63 :: x)).headD 0)) = false := by
  cases g with
  | nil => simp only [List.nil_append, List.headD_cons]; decide
  | cons w t =>
    have hw : isWs w = true := hg w List.mem_cons_self
    simp only [List.cons_append, List.headD_cons]
    rw [ws_not_ident hw, ws_not_number hw]; rfl

theorem lex_tern2 (s : Lx) (g1 k g3 g4 a g5 g6 j g7 g8 b' g9 g10 d g2 tl : Bytes) (hh : s.isHTML = true) (hb : s.braces = 0)
    (hg1 : allWs g1) (hg2 : allWs g2) (hg3 : allWs g3) (hg4 : allWs g4) (hg5 : allWs g5) (hg6 : allWs g6) (hg7 : allWs g7) (hg8 : allWs g8)
    (hg9 : allWs g9) (hg10 : allWs g10) (hk : isName k) (hj : isName j) (ha : isDigits a) (hbd : isDigits b') (hdd : isDigits d)
    (hr : s.rest = tern2Src g1 k g3 g4 a g5 g6 j g7 g8 b' g9 g10 d g2 ++ tl) :
    ∃ toks s11, Run s toks s11 ∧ toks.map key = tern2Keys k a j b' d ∧ s11.rest = tl ∧ s11.prev = 125 ∧
      mode s11 = (true, s.isDirective, s.parens, 0, s.panicked) := by
  obtain ⟨⟨c, cv, hcv, hc⟩, hall, hkw⟩ := hk
  have hkn : isName k := ⟨⟨c, cv, hcv, hc⟩, hall, hkw⟩
  obtain ⟨⟨e, ev, hev, he⟩, hjall, hjkw⟩ := hj
  have hjn : isName j := ⟨⟨e, ev, hev, he⟩, hjall, hjkw⟩
  have hnot := identCh_not_special hc
  have hr' : s.rest = 123 :: 123 :: (g1 ++ (k ++ (g3 ++ (63 :: (g4 ++ (a ++ (g5 ++ (58 :: (g6 ++ (j ++ (g7 ++ (63 :: (g8 ++ (b' ++ (g9 ++ (58 :: (g10 ++ (d ++ (g2 ++ (125 :: 125 :: tl)))))))))))))))))))) :=
    hr.trans (by unfold tern2Src; simp only [List.append_assoc, List.cons_append, List.nil_append])
  have hx1 : (g1 ++ (k ++ (g3 ++ (63 :: (g4 ++ (a ++ (g5 ++ (58 :: (g6 ++ (j ++ (g7 ++ (63 :: (g8 ++ (b' ++ (g9 ++ (58 :: (g10 ++ (d ++ (g2 ++ (125 :: 125 :: tl)))))))))))))))))))).headD 0 ≠ 45 := by
    cases g1 with
    | nil => simp only [List.nil_append, hcv, List.cons_append, List.headD_cons]; exact hnot.2.2.2.2.2.2.2.2.2.2.1
    | cons w t =>
      have hw : isWs w = true := hg1 w List.mem_cons_self
      simp only [List.cons_append, List.headD_cons]
      intro e; rw [e] at hw; cases hw
  obtain ⟨t1, s1, st1, k1, ne1, r1, _, m1⟩ := lex_open s _ hh hr' hx1
  obtain ⟨a1, a2, a3, a4, a5⟩ := mode_fields m1
  obtain ⟨t2, s2, st2, k2, ne2, b2⟩ := code_word_step s1 g1 k _ a1 hg1 (isName_word hkn) r1 (ws_then_q_not_word g3 _ hg3)
  have h2 : s2.isHTML = false := by rw [mode_html b2.md]; exact a1
  obtain ⟨t3, s3, st3, k3, ty3, b3⟩ := code_simple_step s2 63 .QUESTION g3 _ (by decide) h2 hg3 b2.rest
  have h3 : s3.isHTML = false := by rw [mode_html b3.md]; exact h2
  have hx4 := ws_then_op_not_number g5 (g6 ++ (j ++ (g7 ++ (63 :: (g8 ++ (b' ++ (g9 ++ (58 :: (g10 ++ (d ++ (g2 ++ (125 :: 125 :: tl)))))))))))) 58 hg5 (by decide) (by decide)
  obtain ⟨t4, s4, st4, k4, ne4, b4⟩ := code_int_step s3 g4 a _ h3 hg4 ha b3.rest hx4.1 hx4.2
  have h4 : s4.isHTML = false := by rw [mode_html b4.md]; exact h3
  obtain ⟨t5, s5, st5, k5, ty5, b5⟩ := code_simple_step s4 58 .COLON g5 _ (by decide) h4 hg5 b4.rest
  have h5 : s5.isHTML = false := by rw [mode_html b5.md]; exact h4
  obtain ⟨t6, s6, st6, k6, ne6, b6⟩ := code_word_step s5 g6 j _ h5 hg6 (isName_word hjn) b5.rest (ws_then_q_not_word g7 _ hg7)
  have h6 : s6.isHTML = false := by rw [mode_html b6.md]; exact h5
  obtain ⟨t7, s7, st7, k7, ty7, b7⟩ := code_simple_step s6 63 .QUESTION g7 _ (by decide) h6 hg7 b6.rest
  have h7 : s7.isHTML = false := by rw [mode_html b7.md]; exact h6
  have hx8 := ws_then_op_not_number g9 (g10 ++ (d ++ (g2 ++ (125 :: 125 :: tl)))) 58 hg9 (by decide) (by decide)
  obtain ⟨t8, s8, st8, k8, ne8, b8⟩ := code_int_step s7 g8 b' _ h7 hg8 hbd b7.rest hx8.1 hx8.2
  have h8 : s8.isHTML = false := by rw [mode_html b8.md]; exact h7
  obtain ⟨t9, s9, st9, k9, ty9, b9⟩ := code_simple_step s8 58 .COLON g9 _ (by decide) h8 hg9 b8.rest
  have h9 : s9.isHTML = false := by rw [mode_html b9.md]; exact h8
  have hx10 := ws_or_brace_not_number g2 tl hg2
  obtain ⟨t10, s10, st10, k10, ne10, b10⟩ := code_int_step s9 g10 d _ h9 hg10 hdd b9.rest hx10.1 hx10.2
  have h10 : s10.isHTML = false := by rw [mode_html b10.md]; exact h9
  have br10 : s10.braces = 0 := by
    rw [mode_braces b10.md, mode_braces b9.md, mode_braces b8.md, mode_braces b7.md, mode_braces b6.md, mode_braces b5.md, mode_braces b4.md,
      mode_braces b3.md, mode_braces b2.md, a4]; exact hb
  obtain ⟨t11, s11, st11, k11, ne11, r11, pv11, m11⟩ := code_close_step s10 g2 tl h10 br10 hg2 b10.rest
  refine ⟨[t1, t2, t3, t4, t5, t6, t7, t8, t9, t10, t11], s11, ?_, ?_, r11, pv11, ?_⟩
  · exact Run.cons _ _ _ _ _ st1 ne1 (Run.cons _ _ _ _ _ st2 ne2 (Run.cons _ _ _ _ _ st3 (by rw [ty3]; decide) (Run.cons _ _ _ _ _ st4 ne4
      (Run.cons _ _ _ _ _ st5 (by rw [ty5]; decide) (Run.cons _ _ _ _ _ st6 ne6 (Run.cons _ _ _ _ _ st7 (by rw [ty7]; decide)
        (Run.cons _ _ _ _ _ st8 ne8 (Run.cons _ _ _ _ _ st9 (by rw [ty9]; decide) (Run.cons _ _ _ _ _ st10 ne10
          (Run.cons _ _ _ _ _ st11 ne11 (Run.nil _)))))))))))
  · have hk2 : key t2 = (.IDENT, k) := by rw [k2, hkw]
    have hk6 : key t6 = (.IDENT, j) := by rw [k6, hjkw]
    simp [tern2Keys, k1, hk2, k3, k4, k5, hk6, k7, k8, k9, k10, k11]
  · rw [m11, mode_dir b10.md, mode_dir b9.md, mode_dir b8.md, mode_dir b7.md, mode_dir b6.md, mode_dir b5.md, mode_dir b4.md, mode_dir b3.md,
      mode_dir b2.md, a2, mode_parens b10.md, mode_parens b9.md, mode_parens b8.md, mode_parens b7.md, mode_parens b6.md, mode_parens b5.md,
      mode_parens b4.md, mode_parens b3.md, mode_parens b2.md, a3, mode_pan b10.md, mode_pan b9.md, mode_pan b8.md, mode_pan b7.md,
      mode_pan b6.md, mode_pan b5.md, mode_pan b4.md, mode_pan b3.md, mode_pan b2.md, a5]

def tern2Code (g1 k g3 g4 a g5 g6 j g7 g8 b' g9 g10 d g2 : Bytes) : Code :=
  { src := tern2Src g1 k g3 g4 a g5 g6 j g7 g8 b' g9 g10 d g2, keys := tern2Keys k a j b' d }

theorem tern2Code_ok (g1 k g3 g4 a g5 g6 j g7 g8 b' g9 g10 d g2 : Bytes)
    (hg1 : allWs g1) (hg2 : allWs g2) (hg3 : allWs g3) (hg4 : allWs g4) (hg5 : allWs g5) (hg6 : allWs g6) (hg7 : allWs g7) (hg8 : allWs g8)
    (hg9 : allWs g9) (hg10 : allWs g10) (hk : isName k) (hj : isName j) (ha : isDigits a) (hbd : isDigits b') (hdd : isDigits d) :
    (tern2Code g1 k g3 g4 a g5 g6 j g7 g8 b' g9 g10 d g2).OK := by
  refine ⟨?_, ?_, ?_⟩
  · intro tl
    refine Or.inr (Or.inl ⟨(g1 ++ k ++ g3 ++ [63] ++ g4 ++ a ++ g5 ++ [58] ++ g6 ++ j ++ g7 ++ [63] ++ g8 ++ b' ++ g9 ++ [58] ++ g10 ++ d ++ g2 ++ [125, 125]) ++ tl, ?_⟩)
    show tern2Src g1 k g3 g4 a g5 g6 j g7 g8 b' g9 g10 d g2 ++ tl = _
    unfold tern2Src
    simp only [List.append_assoc, List.cons_append, List.nil_append]
  · have la : 0 < a.length := List.length_pos_iff.mpr ha.1
    have lb : 0 < b'.length := List.length_pos_iff.mpr hbd.1
    have ld : 0 < d.length := List.length_pos_iff.mpr hdd.1
    show (tern2Keys k a j b' d).length ≤ (tern2Src g1 k g3 g4 a g5 g6 j g7 g8 b' g9 g10 d g2).length
    have h11 : (tern2Keys k a j b' d).length = 11 := rfl
    rw [h11]
    unfold tern2Src
    simp only [List.length_append, List.length_cons, List.length_nil]
    omega
  · intro s tl hr hh hb hpa hdi _
    obtain ⟨toks, s11, run, hkeys, r11, pv11, m11⟩ := lex_tern2 s g1 k g3 g4 a g5 g6 j g7 g8 b' g9 g10 d g2 tl hh hb hg1 hg2 hg3 hg4 hg5 hg6 hg7
      hg8 hg9 hg10 hk hj ha hbd hdd hr
    obtain ⟨f1, f2, f3, f4, f5⟩ := mode_fields m11
    exact ⟨toks, s11, run, hkeys, r11, f1, f4, by rw [f3]; exact hpa, by rw [f2]; exact hdi, f5, by rw [pv11]; decide⟩

/-- `k ? a : j ? b : d`: the else part is the whole second ternary -/
theorem parse_tern2_expr (k : Nat) (t2 t3 t4 t5 t6 t7 t8 t9 t10 t11 : Token) (tail : List Token) (va vb vd : Int64)
    (h2 : t2.ty = .IDENT) (h3 : t3.ty = .QUESTION) (h4 : t4.ty = .INT) (h5 : t5.ty = .COLON) (h6 : t6.ty = .IDENT) (h7 : t7.ty = .QUESTION)
    (h8 : t8.ty = .INT) (h9 : t9.ty = .COLON) (h10 : t10.ty = .INT) (h11 : t11.ty = .RBRACES)
    (hva : parseInt64 t4.lit = some va) (hvb : parseInt64 t8.lit = some vb) (hvd : parseInt64 t10.lit = some vd)
    (hclean : ∀ x ∈ tail, x.ty ≠ .ILLEGAL) :
    parseExpression (k + 6) LOWEST ({ toks := t2 :: t3 :: t4 :: t5 :: t6 :: t7 :: t8 :: t9 :: t10 :: t11 :: tail } : PS) =
      (.tern t3 (.ident t2 t2.lit) (.int t4 va) (.tern t7 (.ident t6 t6.lit) (.int t8 vb) (.int t10 vd)), { toks := t10 :: t11 :: tail }) := by
  have c11 := noill_cons (t := t11) (by rw [h11]; decide) hclean
  have c10 := noill_cons (t := t10) (by rw [h10]; decide) c11
  have c9 := noill_cons (t := t9) (by rw [h9]; decide) c10
  have c8 := noill_cons (t := t8) (by rw [h8]; decide) c9
  have c7 := noill_cons (t := t7) (by rw [h7]; decide) c8
  have c6 := noill_cons (t := t6) (by rw [h6]; decide) c7
  have c5 := noill_cons (t := t5) (by rw [h5]; decide) c6
  have c4 := noill_cons (t := t4) (by rw [h4]; decide) c5
  have c3 := noill_cons (t := t3) (by rw [h3]; decide) c4
  have nx2 : ({ toks := t2 :: t3 :: t4 :: t5 :: t6 :: t7 :: t8 :: t9 :: t10 :: t11 :: tail } : PS).next =
      { toks := t3 :: t4 :: t5 :: t6 :: t7 :: t8 :: t9 :: t10 :: t11 :: tail } := ps_next_clean t2 t3 _ c3
  have nx3 : ({ toks := t3 :: t4 :: t5 :: t6 :: t7 :: t8 :: t9 :: t10 :: t11 :: tail } : PS).next =
      { toks := t4 :: t5 :: t6 :: t7 :: t8 :: t9 :: t10 :: t11 :: tail } := ps_next_clean t3 t4 _ c4
  have nx4 : ({ toks := t4 :: t5 :: t6 :: t7 :: t8 :: t9 :: t10 :: t11 :: tail } : PS).next =
      { toks := t5 :: t6 :: t7 :: t8 :: t9 :: t10 :: t11 :: tail } := ps_next_clean t4 t5 _ c5
  have nx5 : ({ toks := t5 :: t6 :: t7 :: t8 :: t9 :: t10 :: t11 :: tail } : PS).next =
      { toks := t6 :: t7 :: t8 :: t9 :: t10 :: t11 :: tail } := ps_next_clean t5 t6 _ c6
  have ha : parseExpression (k + 4) TERNARY ({ toks := t4 :: t5 :: t6 :: t7 :: t8 :: t9 :: t10 :: t11 :: tail } : PS) =
      (.int t4 va, { toks := t4 :: t5 :: t6 :: t7 :: t8 :: t9 :: t10 :: t11 :: tail }) :=
    parse_int_operand (k + 2) TERNARY t4 t5 _ va h4 hva (Or.inr (by rw [h5]; decide))
  have hb := parse_tern_expr k t6 t7 t8 t9 t10 t11 tail vb vd h6 h7 h8 h9 h10 h11 hvb hvd hclean
  rw [parseExpression_succ]
  have hp : prefixBody (parseExpression (k + 5)) (parseExprList (k + 5)) (parseObjLoop (k + 5))
      ({ toks := t2 :: t3 :: t4 :: t5 :: t6 :: t7 :: t8 :: t9 :: t10 :: t11 :: tail } : PS) =
        some (.ident t2 t2.lit, { toks := t2 :: t3 :: t4 :: t5 :: t6 :: t7 :: t8 :: t9 :: t10 :: t11 :: tail }) := by
    unfold prefixBody
    simp [PS.cur, h2]
  rw [hp]
  simp only []
  rw [prattLoop_succ]
  have e1 : ({ toks := t2 :: t3 :: t4 :: t5 :: t6 :: t7 :: t8 :: t9 :: t10 :: t11 :: tail } : PS).peekIs .RBRACES = false := by simp [PS.peekIs, PS.peek, h3]
  have e2 : ({ toks := t2 :: t3 :: t4 :: t5 :: t6 :: t7 :: t8 :: t9 :: t10 :: t11 :: tail } : PS).peekIs .SEMI = false := by simp [PS.peekIs, PS.peek, h3]
  have e3 : ({ toks := t2 :: t3 :: t4 :: t5 :: t6 :: t7 :: t8 :: t9 :: t10 :: t11 :: tail } : PS).peekIs .RPAREN = false := by simp [PS.peekIs, PS.peek, h3]
  have e4 : ({ toks := t2 :: t3 :: t4 :: t5 :: t6 :: t7 :: t8 :: t9 :: t10 :: t11 :: tail } : PS).peekPrecedence = TERNARY := by
    simp [PS.peekPrecedence, PS.peek, h3, precedence]
  have e5 : ({ toks := t2 :: t3 :: t4 :: t5 :: t6 :: t7 :: t8 :: t9 :: t10 :: t11 :: tail } : PS).peek.ty = .QUESTION := by simp [PS.peek, h3]
  simp only [e1, e2, e3, e4, e5, Bool.or_self, show (!decide (LOWEST < TERNARY)) = false from by decide,
    Bool.false_eq_true, if_false, show (!hasInfix .QUESTION) = false from by decide, nx2]
  have hinf : infixBody (parseExpression (k + 4)) (parseExprList (k + 4)) (.ident t2 t2.lit)
      ({ toks := t3 :: t4 :: t5 :: t6 :: t7 :: t8 :: t9 :: t10 :: t11 :: tail } : PS) =
      (.tern t3 (.ident t2 t2.lit) (.int t4 va) (.tern t7 (.ident t6 t6.lit) (.int t8 vb) (.int t10 vd)), { toks := t10 :: t11 :: tail }) := by
    unfold infixBody
    have c0 : ({ toks := t3 :: t4 :: t5 :: t6 :: t7 :: t8 :: t9 :: t10 :: t11 :: tail } : PS).cur = t3 := rfl
    have ep := expectPeek_ok ({ toks := t4 :: t5 :: t6 :: t7 :: t8 :: t9 :: t10 :: t11 :: tail } : PS) .COLON (by simp [PS.peekIs, PS.peek, h5])
    simp only [c0, h3, show isBinaryOp .QUESTION = false from by decide, Bool.false_eq_true, if_false,
      show (TT.QUESTION == TT.QUESTION) = true from by decide, if_true, nx3, ha, ep, nx4, nx5, hb, Bool.not_true]
  rw [hinf]
  simp only []
  exact prattLoop_stop_rbraces (k + 3) LOWEST _ t10 t11 tail h11

/-- **`{{ k ? a : j ? b : d }}`, parsed** -/
theorem parse_tern2_source (g1 k g3 g4 a g5 g6 j g7 g8 b' g9 g10 d g2 : Bytes)
    (hg1 : allWs g1) (hg2 : allWs g2) (hg3 : allWs g3) (hg4 : allWs g4) (hg5 : allWs g5) (hg6 : allWs g6) (hg7 : allWs g7) (hg8 : allWs g8)
    (hg9 : allWs g9) (hg10 : allWs g10) (hk : isName k) (hj : isName j) (ha : isDigits a) (hbd : isDigits b') (hdd : isDigits d)
    (hba : digitsToNat a ≤ 9223372036854775807) (hbb : digitsToNat b' ≤ 9223372036854775807) (hbd' : digitsToNat d ≤ 9223372036854775807) :
    ∃ prog t2 t3 t4 t6 t7 t8 t10, parseSource (tern2Src g1 k g3 g4 a g5 g6 j g7 g8 b' g9 g10 d g2) = .ok prog ∧
      prog.stmts = [.expr t10 (.tern t3 (.ident t2 k) (.int t4 (Int64.ofNat (digitsToNat a)))
        (.tern t7 (.ident t6 j) (.int t8 (Int64.ofNat (digitsToNat b'))) (.int t10 (Int64.ofNat (digitsToNat d)))))] := by
  have hok : GItemsOK [.code (tern2Code g1 k g3 g4 a g5 g6 j g7 g8 b' g9 g10 d g2)] :=
    ⟨tern2Code_ok g1 k g3 g4 a g5 g6 j g7 g8 b' g9 g10 d g2 hg1 hg2 hg3 hg4 hg5 hg6 hg7 hg8 hg9 hg10 hk hj ha hbd hdd, trivial⟩
  obtain ⟨toks, e, htok, hkeys, he⟩ := tokenize_gitems _ hok
  have hsrc : gsrc [.code (tern2Code g1 k g3 g4 a g5 g6 j g7 g8 b' g9 g10 d g2)] = tern2Src g1 k g3 g4 a g5 g6 j g7 g8 b' g9 g10 d g2 := by
    simp [gsrc, GItem.src, tern2Code]
  rw [hsrc] at htok
  have hk' : toks.map key = tern2Keys k a j b' d := by simpa [gkeys, tern2Code] using hkeys
  match toks, hk' with
  | [], hk' => simp [tern2Keys] at hk'
  | [_], hk' => simp [tern2Keys] at hk'
  | [_, _], hk' => simp [tern2Keys] at hk'
  | [_, _, _], hk' => simp [tern2Keys] at hk'
  | [_, _, _, _], hk' => simp [tern2Keys] at hk'
  | [_, _, _, _, _], hk' => simp [tern2Keys] at hk'
  | [_, _, _, _, _, _], hk' => simp [tern2Keys] at hk'
  | [_, _, _, _, _, _, _], hk' => simp [tern2Keys] at hk'
  | [_, _, _, _, _, _, _, _], hk' => simp [tern2Keys] at hk'
  | [_, _, _, _, _, _, _, _, _], hk' => simp [tern2Keys] at hk'
  | [_, _, _, _, _, _, _, _, _, _], hk' => simp [tern2Keys] at hk'
  | _ :: _ :: _ :: _ :: _ :: _ :: _ :: _ :: _ :: _ :: _ :: _ :: _, hk' => simp [tern2Keys] at hk'
  | [t1, t2, t3, t4, t5, t6, t7, t8, t9, t10, t11], hk' =>
    simp only [tern2Keys, List.map_cons, List.map_nil, List.cons.injEq, and_true] at hk'
    obtain ⟨hk1, hk2, hk3, hk4, hk5, hk6, hk7, hk8, hk9, hk10, hk11⟩ := hk'
    have ty1 : t1.ty = .LBRACES := congrArg Prod.fst hk1
    have ty2 : t2.ty = .IDENT := congrArg Prod.fst hk2
    have lit2 : t2.lit = k := congrArg Prod.snd hk2
    have ty3 : t3.ty = .QUESTION := congrArg Prod.fst hk3
    have ty4 : t4.ty = .INT := congrArg Prod.fst hk4
    have lit4 : t4.lit = a := congrArg Prod.snd hk4
    have ty5 : t5.ty = .COLON := congrArg Prod.fst hk5
    have ty6 : t6.ty = .IDENT := congrArg Prod.fst hk6
    have lit6 : t6.lit = j := congrArg Prod.snd hk6
    have ty7 : t7.ty = .QUESTION := congrArg Prod.fst hk7
    have ty8 : t8.ty = .INT := congrArg Prod.fst hk8
    have lit8 : t8.lit = b' := congrArg Prod.snd hk8
    have ty9 : t9.ty = .COLON := congrArg Prod.fst hk9
    have ty10 : t10.ty = .INT := congrArg Prod.fst hk10
    have lit10 : t10.lit = d := congrArg Prod.snd hk10
    have ty11 : t11.ty = .RBRACES := congrArg Prod.fst hk11
    have hce : ∀ x ∈ [e], x.ty ≠ .ILLEGAL := by intro x hx; simp at hx; rw [hx, he]; decide
    have c11 := noill_cons (t := t11) (by rw [ty11]; decide) hce
    have c10 := noill_cons (t := t10) (by rw [ty10]; decide) c11
    have c9 := noill_cons (t := t9) (by rw [ty9]; decide) c10
    have c8 := noill_cons (t := t8) (by rw [ty8]; decide) c9
    have c7 := noill_cons (t := t7) (by rw [ty7]; decide) c8
    have c6 := noill_cons (t := t6) (by rw [ty6]; decide) c7
    have c5 := noill_cons (t := t5) (by rw [ty5]; decide) c6
    have c4 := noill_cons (t := t4) (by rw [ty4]; decide) c5
    have c3 := noill_cons (t := t3) (by rw [ty3]; decide) c4
    have c2' := noill_cons (t := t2) (by rw [ty2]; decide) c3
    have hcl : ∀ x ∈ [t1, t2, t3, t4, t5, t6, t7, t8, t9, t10, t11] ++ [e], x.ty ≠ .ILLEGAL := noill_cons (by rw [ty1]; decide) c2'
    refine ⟨{ tok := t1, stmts := [.expr t10 (.tern t3 (.ident t2 k) (.int t4 (Int64.ofNat (digitsToNat a)))
      (.tern t7 (.ident t6 j) (.int t8 (Int64.ofNat (digitsToNat b'))) (.int t10 (Int64.ofNat (digitsToNat d)))))] },
      t2, t3, t4, t6, t7, t8, t10, ?_, rfl⟩
    unfold parseSource
    rw [htok]
    simp only [Bool.false_eq_true, if_false]
    rw [initParser_clean _ hcl]
    have hfuel : parseFuel ([t1, t2, t3, t4, t5, t6, t7, t8, t9, t10, t11] ++ [e]) = 58 + 6 := by simp [parseFuel]
    rw [hfuel]
    have hex := parse_tern2_expr 56 t2 t3 t4 t5 t6 t7 t8 t9 t10 t11 [e] _ _ _ ty2 ty3 ty4 ty5 ty6 ty7 ty8 ty9 ty10 ty11
      (by rw [lit4]; exact parseInt64_digits a ha hba) (by rw [lit8]; exact parseInt64_digits b' hbd hbb)
      (by rw [lit10]; exact parseInt64_digits d hdd hbd') hce
    have hst := parse_expr_stmt_ident 62 t1 t2 t3 t10 t11 [t4, t5, t6, t7, t8, t9, t10, t11, e] [e] _ ty1 ty2 (by rw [ty3]; decide) ty11 c2' c10 hex
    have hloop : parseProgramLoop (58 + 6) [] ({ toks := [t1, t2, t3, t4, t5, t6, t7, t8, t9, t10, t11] ++ [e] } : PS) =
        (some [.expr t10 (.tern t3 (.ident t2 t2.lit) (.int t4 (Int64.ofNat (digitsToNat a)))
          (.tern t7 (.ident t6 t6.lit) (.int t8 (Int64.ofNat (digitsToNat b'))) (.int t10 (Int64.ofNat (digitsToNat d)))))], { toks := [e] }) := by
      rw [show 58 + 6 = 63 + 1 from rfl, parseProgramLoop]
      have c0 : ({ toks := [t1, t2, t3, t4, t5, t6, t7, t8, t9, t10, t11] ++ [e] } : PS).curIs .EOF = false := by simp [PS.curIs, PS.cur, ty1]
      simp only [c0, Bool.false_eq_true, if_false]
      simp only [List.cons_append, List.nil_append] at hst ⊢
      rw [show 63 = 62 + 1 from rfl, hst]
      have i5 : ({ toks := [t11, e] } : PS).curIs .ILLEGAL = false := by simp [PS.curIs, PS.cur, ty11]
      simp only [i5, Bool.false_eq_true, if_false, Stmt.isBad]
      have nx : ({ toks := [t11, e] } : PS).next = { toks := [e] } := ps_next_clean t11 e [] hce
      rw [nx, parseProgramLoop]
      have ce : ({ toks := [e] } : PS).curIs .EOF = true := by simp [PS.curIs, PS.cur, he]
      simp [ce]
    rw [hloop]
    simp [finishParse, PS.cur, lit2, lit6]

end Tw
