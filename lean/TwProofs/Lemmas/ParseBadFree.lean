/-
  TwProofs.Lemmas.ParseBadFree — a parse that records no error yields a tree without `bad`
  (Go nil) nodes: wherever the Go parser returns nil it has recorded an error (or the node is
  dropped by the caller's nil check).  Together with `NoPanic` this gives "a template that
  parses never panics when rendered" (C09).
-/
import TwProofs.Lemmas.NoPanic

namespace Tw

/-- an error was recorded (or the model ran out of fuel): `parseSource` will not return a program -/
def Dirty (p : PS) : Prop := p.errors ≠ [] ∨ p.oof = true

/-- what the expression parser may change: it records errors, it leaves the tables alone -/
structure Frame (p p' : PS) : Prop where
  ins : p'.inserts = p.inserts
  comps : p'.components = p.components
  dirty : Dirty p → Dirty p'

theorem Frame.rfl' (p : PS) : Frame p p := ⟨rfl, rfl, id⟩
theorem Frame.trans {p q r : PS} (h1 : Frame p q) (h2 : Frame q r) : Frame p r :=
  ⟨h2.ins.trans h1.ins, h2.comps.trans h1.comps, fun h => h2.dirty (h1.dirty h)⟩

theorem dirty_err (p : PS) (l : Nat) (c : String) (a : List Bytes) : Dirty (p.err l c a) := by
  left; simp [PS.err]
theorem dirty_oof (p : PS) : Dirty p.outOfFuel := Or.inr rfl

theorem frame_err (p : PS) (l : Nat) (c : String) (a : List Bytes) : Frame p (p.err l c a) :=
  ⟨rfl, rfl, fun _ => dirty_err p l c a⟩
theorem frame_oof (p : PS) : Frame p p.outOfFuel := ⟨rfl, rfl, fun _ => dirty_oof p⟩
theorem frame_noteIllegal (p : PS) (t : Token) : Frame p (p.noteIllegal t) := by
  unfold PS.noteIllegal; split
  · exact frame_err _ _ _ _
  · exact Frame.rfl' p
theorem frame_toks (p : PS) (ts : List Token) : Frame p { p with toks := ts } :=
  ⟨rfl, rfl, fun h => h⟩
theorem frame_next (p : PS) : Frame p p.next := by
  unfold PS.next
  split
  · split
    · exact (frame_toks p _).trans (frame_noteIllegal _ _)
    · exact frame_toks p _
  · exact Frame.rfl' p
theorem frame_expectPeek (p : PS) (t : TT) : Frame p (p.expectPeek t).2 := by
  unfold PS.expectPeek; split
  · exact frame_next p
  · exact frame_err _ _ _ _
theorem expectPeek_false (p : PS) (t : TT) (h : (p.expectPeek t).1 = false) : Dirty (p.expectPeek t).2 := by
  unfold PS.expectPeek at h ⊢
  split
  · rename_i hp; simp [hp] at h
  · exact dirty_err _ _ _ _

/-- the node is whole, or an error was recorded -/
def DB (p : PS) (e : Expr) : Prop := Dirty p ∨ e.badFree = true
def DBL (p : PS) (es : List Expr) : Prop := Dirty p ∨ Expr.badFreeList es = true
def DBP (p : PS) (ps : List (Bytes × Expr)) : Prop := Dirty p ∨ Expr.badFreePairs ps = true

theorem DB.mono {p p' : PS} {e : Expr} (f : Frame p p') (h : DB p e) : DB p' e := h.imp f.dirty id
theorem DBL.mono {p p' : PS} {es : List Expr} (f : Frame p p') (h : DBL p es) : DBL p' es := h.imp f.dirty id
theorem DBP.mono {p p' : PS} {es : List (Bytes × Expr)} (f : Frame p p') (h : DBP p es) : DBP p' es := h.imp f.dirty id
theorem DB.dirty {p : PS} (h : Dirty p) (e : Expr) : DB p e := Or.inl h
theorem DB.leaf {p : PS} {e : Expr} (h : e.badFree = true) : DB p e := Or.inr h

theorem DB.one {p : PS} {e r : Expr} (h : DB p e) (hr : e.badFree = true → r.badFree = true) : DB p r :=
  h.imp id hr
theorem DB.two {p : PS} {e1 e2 r : Expr} (h1 : DB p e1) (h2 : DB p e2)
    (hr : e1.badFree = true → e2.badFree = true → r.badFree = true) : DB p r := by
  rcases h1 with h1 | h1
  · exact Or.inl h1
  · exact h2.imp id (hr h1)

def EOk (p : PS) (r : Expr × PS) : Prop := Frame p r.2 ∧ DB r.2 r.1
def LOk (p : PS) (r : List Expr × PS) : Prop := Frame p r.2 ∧ DBL r.2 r.1

theorem EOk.trans {p q : PS} {r : Expr × PS} (f : Frame p q) (h : EOk q r) : EOk p r := ⟨f.trans h.1, h.2⟩
theorem LOk.trans {p q : PS} {r : List Expr × PS} (f : Frame p q) (h : LOk q r) : LOk p r := ⟨f.trans h.1, h.2⟩

theorem badFreeList_append (a c : List Expr) :
    Expr.badFreeList (a ++ c) = (Expr.badFreeList a && Expr.badFreeList c) := by
  induction a with
  | nil => simp [Expr.badFreeList]
  | cons x r ih => simp [Expr.badFreeList, ih, Bool.and_assoc]

theorem badFreePairs_mapSet (ps : List (Bytes × Expr)) (k : Bytes) (v : Expr)
    (h : Expr.badFreePairs ps = true) (hv : v.badFree = true) : Expr.badFreePairs (mapSet ps k v) = true := by
  induction ps with
  | nil => simp [mapSet, Expr.badFreePairs, hv]
  | cons x r ih =>
    obtain ⟨k', e⟩ := x
    have hh : e.badFree = true ∧ Expr.badFreePairs r = true := by simpa [Expr.badFreePairs] using h
    unfold mapSet
    split
    · simp [Expr.badFreePairs, hv, hh.2]
    · simp [Expr.badFreePairs, hh.1, ih hh.2]

section bodies
variable {pe : Nat → PS → Expr × PS} {pl : TT → PS → List Expr × PS}
  {po : Token → List (Bytes × Expr) → PS → Expr × PS}

theorem prefixBody_ok (hpe : ∀ prec p, EOk p (pe prec p)) (hpl : ∀ t p, LOk p (pl t p))
    (hpo : ∀ t ps p, DBP p ps → EOk p (po t ps p)) (p : PS) :
    ∀ r, prefixBody pe pl po p = some r → EOk p r := by
  intro r h
  unfold prefixBody at h
  split at h
  · cases h; exact ⟨Frame.rfl' p, DB.leaf rfl⟩
  · split at h <;> cases h
    · exact ⟨Frame.rfl' p, DB.leaf rfl⟩
    · exact ⟨frame_err _ _ _ _, DB.dirty (dirty_err _ _ _ _) _⟩
  · split at h <;> cases h
    · exact ⟨Frame.rfl' p, DB.leaf rfl⟩
    · exact ⟨frame_err _ _ _ _, DB.dirty (dirty_err _ _ _ _) _⟩
  · cases h; exact ⟨Frame.rfl' p, DB.leaf rfl⟩
  · cases h; exact ⟨Frame.rfl' p, DB.leaf rfl⟩
  · cases h; exact ⟨Frame.rfl' p, DB.leaf rfl⟩
  · cases h; exact ⟨Frame.rfl' p, DB.leaf rfl⟩
  · cases h
    have := hpe PREFIX p.next
    exact ⟨(frame_next p).trans this.1, this.2.one (by simp [Expr.badFree])⟩
  · cases h
    have := hpe PREFIX p.next
    exact ⟨(frame_next p).trans this.1, this.2.one (by simp [Expr.badFree])⟩
  · have := hpe LOWEST p.next
    have fe := frame_expectPeek (pe LOWEST p.next).2 .RPAREN
    split at h <;> cases h
    · exact ⟨((frame_next p).trans this.1).trans fe, this.2.mono fe⟩
    · rename_i hok
      exact ⟨((frame_next p).trans this.1).trans fe, DB.dirty (expectPeek_false _ _ (by simpa using hok)) _⟩
  · cases h
    have := hpl .RBRACKET p
    exact ⟨this.1, this.2.imp id (by simp [Expr.badFree])⟩
  · split at h <;> cases h
    · exact ⟨frame_next p, DB.leaf rfl⟩
    · exact EOk.trans (frame_next p) (hpo _ _ _ (Or.inr rfl))
  · cases h

theorem infixBody_ok (hpe : ∀ prec p, EOk p (pe prec p)) (hpl : ∀ t p, LOk p (pl t p))
    (left : Expr) (p : PS) (hl : DB p left) : EOk p (infixBody pe pl left p) := by
  unfold infixBody
  split
  · split
    · exact ⟨(frame_next p).trans (frame_err _ _ _ _), DB.dirty (dirty_err _ _ _ _) _⟩
    · have := hpe p.curPrecedence p.next
      have f := (frame_next p).trans this.1
      exact ⟨f, (hl.mono f).two this.2 (by intro a c; simp [Expr.badFree, a, c])⟩
  · split
    · have h1 := hpe TERNARY p.next
      have fe := frame_expectPeek (pe TERNARY p.next).2 .COLON
      split
      · rename_i hok
        exact ⟨((frame_next p).trans h1.1).trans fe, DB.dirty (expectPeek_false _ _ (by simpa using hok)) _⟩
      · have h2 := hpe LOWEST ((pe TERNARY p.next).2.expectPeek .COLON).2.next
        have f2 := (fe.trans (frame_next _)).trans h2.1
        have f := ((frame_next p).trans h1.1).trans f2
        refine ⟨f, ?_⟩
        have a := hl.mono f
        have c := h1.2.mono f2
        rcases a with a | a
        · exact Or.inl a
        · exact c.two h2.2 (by intro x y; simp [Expr.badFree, a, x, y])
    · split
      · have h1 := hpe LOWEST p.next
        have fe := frame_expectPeek (pe LOWEST p.next).2 .RBRACKET
        have f := ((frame_next p).trans h1.1).trans fe
        split
        · exact ⟨f, (hl.mono f).two (h1.2.mono fe) (by intro a c; simp [Expr.badFree, a, c])⟩
        · rename_i hok
          exact ⟨f, DB.dirty (expectPeek_false _ _ (by simpa using hok)) _⟩
      · split
        · exact ⟨Frame.rfl' p, hl.one (by simp [Expr.badFree])⟩
        · have fe := frame_expectPeek p .IDENT
          split
          · rename_i hok
            exact ⟨fe, DB.dirty (expectPeek_false _ _ (by simpa using hok)) _⟩
          · split
            · have fe2 := frame_expectPeek (p.expectPeek .IDENT).2 .LPAREN
              have h1 := hpl .RPAREN ((p.expectPeek .IDENT).2.expectPeek .LPAREN).2
              have f := (fe.trans fe2).trans h1.1
              refine ⟨f, ?_⟩
              rcases hl.mono f with a | a
              · exact Or.inl a
              · exact h1.2.imp id (by intro x; simp [Expr.badFree, a, x])
            · exact ⟨fe, (hl.mono fe).one (by simp [Expr.badFree])⟩

end bodies

/-- the expression parser at every fuel: frames the state, and the node is whole unless an
    error was recorded -/
theorem parseExpr_ok : ∀ fuel : Nat,
    (∀ prec p, EOk p (parseExpression fuel prec p)) ∧
    (∀ prec left p, DB p left → EOk p (prattLoop fuel prec left p)) ∧
    (∀ t p, LOk p (parseExprList fuel t p)) ∧
    (∀ t acc p, DBL p acc → LOk p (exprListLoop fuel t acc p)) ∧
    (∀ t ps p, DBP p ps → EOk p (parseObjLoop fuel t ps p)) := by
  intro fuel
  induction fuel with
  | zero =>
    refine ⟨?_, ?_, ?_, ?_, ?_⟩
    · intro prec p; exact ⟨frame_oof p, DB.dirty (dirty_oof p) _⟩
    · intro prec left p _; exact ⟨frame_oof p, DB.dirty (dirty_oof p) _⟩
    · intro t p; exact ⟨frame_oof p, Or.inl (dirty_oof p)⟩
    · intro t acc p _; exact ⟨frame_oof p, Or.inl (dirty_oof p)⟩
    · intro t ps p _; exact ⟨frame_oof p, DB.dirty (dirty_oof p) _⟩
  | succ n ih =>
    obtain ⟨ihE, ihL, ihX, ihXL, ihO⟩ := ih
    refine ⟨?_, ?_, ?_, ?_, ?_⟩
    · intro prec p
      show EOk p (match prefixBody (parseExpression n) (parseExprList n) (parseObjLoop n) p with
        | none => (Expr.bad, p.err p.cur.errorLine "ErrNoPrefixParseFunc" [b (tokenString p.cur.ty)])
        | some r => prattLoop n prec r.1 r.2)
      have hb := prefixBody_ok ihE ihX ihO p
      cases hp : prefixBody (parseExpression n) (parseExprList n) (parseObjLoop n) p with
      | none => exact ⟨frame_err _ _ _ _, DB.dirty (dirty_err _ _ _ _) _⟩
      | some r =>
        have := hb r hp
        exact EOk.trans this.1 (ihL prec r.1 r.2 this.2)
    · intro prec left p hl
      show EOk p (if (p.peekIs .RBRACES || p.peekIs .SEMI || p.peekIs .RPAREN || !(decide (prec < p.peekPrecedence))) = true then (left, p)
        else if (!hasInfix p.peek.ty) = true then (left, p)
        else prattLoop n prec (infixBody (parseExpression n) (parseExprList n) left p.next).1
          (infixBody (parseExpression n) (parseExprList n) left p.next).2)
      split
      · exact ⟨Frame.rfl' p, hl⟩
      · split
        · exact ⟨Frame.rfl' p, hl⟩
        · have fi := infixBody_ok ihE ihX left p.next (hl.mono (frame_next p))
          exact EOk.trans ((frame_next p).trans fi.1) (ihL _ _ _ fi.2)
    · intro t p
      show LOk p (if p.peekIs t = true then ([], p.next)
        else
          match parseExpression n LOWEST p.next with
          | (e, p1) => exprListLoop n t [e] p1)
      split
      · exact ⟨frame_next p, Or.inr rfl⟩
      · have := ihE LOWEST p.next
        cases hq : parseExpression n LOWEST p.next with
        | mk e p1 =>
          rw [hq] at this
          exact LOk.trans ((frame_next p).trans this.1) (ihXL t [e] p1 (this.2.imp id (by intro x; simp [Expr.badFreeList, x])))
    · intro t acc p hacc
      show LOk p (if p.peekIs .COMMA = true then
          (if p.next.peekIs t = true then
            (match p.next.expectPeek t with
             | (ok, p2) => if ok = true then (acc, p2) else ([], p2))
          else
            match parseExpression n LOWEST p.next.next with
            | (e, p2) => exprListLoop n t (acc ++ [e]) p2)
        else
          match p.expectPeek t with
          | (ok, p1) => if ok = true then (acc, p1) else ([], p1))
      split
      · split
        · have fe := frame_expectPeek p.next t
          cases hq : p.next.expectPeek t with
          | mk ok p2 =>
            rw [hq] at fe
            have f := (frame_next p).trans fe
            dsimp only
            split
            · exact ⟨f, hacc.mono f⟩
            · exact ⟨f, Or.inr rfl⟩
        · have := ihE LOWEST p.next.next
          cases hq : parseExpression n LOWEST p.next.next with
          | mk e p2 =>
            rw [hq] at this
            have f := ((frame_next p).trans (frame_next _)).trans this.1
            refine LOk.trans f (ihXL t _ p2 ?_)
            rcases hacc.mono f with a | a
            · exact Or.inl a
            · exact this.2.imp id (by intro x; simp [badFreeList_append, Expr.badFreeList, a, x])
      · have fe := frame_expectPeek p t
        cases hq : p.expectPeek t with
        | mk ok p1 =>
          rw [hq] at fe
          dsimp only
          split
          · exact ⟨fe, hacc.mono fe⟩
          · exact ⟨fe, Or.inr rfl⟩
    · intro t ps p hps
      show EOk p (if p.curIs .RBRACE = true then (.obj t ps, p)
        else if (p.curIs .EOF || p.curIs .ILLEGAL) = true then
          (.bad, p.err p.cur.errorLine "ErrWrongNextToken" [b (tokenString .RBRACE), b (tokenString p.cur.ty)])
        else
          match parseExpression n LOWEST (if p.peekIs .COLON = true then p.next.next else p) with
          | (v, p1) =>
            if p1.peekIs .RBRACE = true then (.obj t (mapSet ps p.cur.lit v), p1.next)
            else
              match p1.expectPeek .COMMA with
              | (ok, p2) => if (!ok) = true then (.bad, p2) else parseObjLoop n t (mapSet ps p.cur.lit v) p2.next)
      split
      · exact ⟨Frame.rfl' p, hps.imp id (by intro x; simpa [Expr.badFree] using x)⟩
      · split
        · exact ⟨frame_err _ _ _ _, DB.dirty (dirty_err _ _ _ _) _⟩
        · have f0 : Frame p (if p.peekIs .COLON = true then p.next.next else p) := by
            split
            · exact (frame_next p).trans (frame_next _)
            · exact Frame.rfl' p
          have := ihE LOWEST (if p.peekIs .COLON = true then p.next.next else p)
          cases hq : parseExpression n LOWEST (if p.peekIs .COLON = true then p.next.next else p) with
          | mk v p1 =>
            rw [hq] at this
            have f1 := f0.trans this.1
            have hps' : DBP p1 (mapSet ps p.cur.lit v) := by
              rcases hps.mono f1 with a | a
              · exact Or.inl a
              · exact this.2.imp id (fun x => badFreePairs_mapSet _ _ _ a x)
            dsimp only
            split
            · have f2 := f1.trans (frame_next p1)
              exact ⟨f2, (hps'.mono (frame_next p1)).imp id (by intro x; simpa [Expr.badFree] using x)⟩
            · have fe := frame_expectPeek p1 .COMMA
              cases hq2 : p1.expectPeek .COMMA with
              | mk ok p2 =>
                rw [hq2] at fe
                dsimp only
                split
                · rename_i hok
                  have : (p1.expectPeek .COMMA).1 = false := by rw [hq2]; simpa using hok
                  have hd := expectPeek_false _ _ this
                  rw [hq2] at hd
                  exact ⟨f1.trans fe, DB.dirty hd _⟩
                · have f3 := fe.trans (frame_next p2)
                  exact EOk.trans (f1.trans f3) (ihO t _ _ (hps'.mono f3))

end Tw
