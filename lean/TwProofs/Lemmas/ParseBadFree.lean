/-
  TwProofs.Lemmas.ParseBadFree — a parse that records no error yields a tree without `bad`
  (Go nil) nodes: wherever the Go parser returns nil it has recorded an error (or the node is
  dropped by the caller's nil check).  Together with `NoPanic` this gives "a template that
  parses never panics when rendered" (C09).
-/
import TwProofs.Lemmas.NoPanic

namespace Tw

/-- an error was recorded (or the model ran out of fuel): `parseSource` will not return a program -/
def Dirty (p : PS) : Prop := p.errors ≠ [] ∨ p.oof = true

/-- what the expression parser may change: it records errors, it leaves the tables alone -/
structure Frame (p p' : PS) : Prop where
  ins : p'.inserts = p.inserts
  comps : p'.components = p.components
  res : p'.reserves = p.reserves
  nid : p'.nextId = p.nextId
  dirty : Dirty p → Dirty p'

theorem Frame.rfl' (p : PS) : Frame p p := ⟨rfl, rfl, rfl, rfl, id⟩
theorem Frame.trans {p q r : PS} (h1 : Frame p q) (h2 : Frame q r) : Frame p r :=
  ⟨h2.ins.trans h1.ins, h2.comps.trans h1.comps, h2.res.trans h1.res, h2.nid.trans h1.nid, fun h => h2.dirty (h1.dirty h)⟩

theorem dirty_err (p : PS) (l : Nat) (c : String) (a : List Bytes) : Dirty (p.err l c a) := by
  left; simp [PS.err]
theorem dirty_oof (p : PS) : Dirty p.outOfFuel := Or.inr rfl

theorem frame_err (p : PS) (l : Nat) (c : String) (a : List Bytes) : Frame p (p.err l c a) :=
  ⟨rfl, rfl, rfl, rfl, fun _ => dirty_err p l c a⟩
theorem frame_oof (p : PS) : Frame p p.outOfFuel := ⟨rfl, rfl, rfl, rfl, fun _ => dirty_oof p⟩
theorem frame_noteIllegal (p : PS) (t : Token) : Frame p (p.noteIllegal t) := by
  unfold PS.noteIllegal; split
  · exact frame_err _ _ _ _
  · exact Frame.rfl' p
theorem frame_toks (p : PS) (ts : List Token) : Frame p { p with toks := ts } :=
  ⟨rfl, rfl, rfl, rfl, fun h => h⟩
theorem frame_next (p : PS) : Frame p p.next := by
  unfold PS.next
  split
  · split
    · exact (frame_toks p _).trans (frame_noteIllegal _ _)
    · exact frame_toks p _
  · exact Frame.rfl' p
theorem frame_expectPeek (p : PS) (t : TT) : Frame p (p.expectPeek t).2 := by
  unfold PS.expectPeek; split
  · exact frame_next p
  · exact frame_err _ _ _ _
theorem expectPeek_false (p : PS) (t : TT) (h : (p.expectPeek t).1 = false) : Dirty (p.expectPeek t).2 := by
  unfold PS.expectPeek at h ⊢
  split
  · rename_i hp; simp [hp] at h
  · exact dirty_err _ _ _ _

/-- the node is whole, or an error was recorded -/
def DB (p : PS) (e : Expr) : Prop := Dirty p ∨ e.badFree = true
def DBL (p : PS) (es : List Expr) : Prop := Dirty p ∨ Expr.badFreeList es = true
def DBP (p : PS) (ps : List (Bytes × Expr)) : Prop := Dirty p ∨ Expr.badFreePairs ps = true

theorem DB.mono {p p' : PS} {e : Expr} (f : Frame p p') (h : DB p e) : DB p' e := h.imp f.dirty id
theorem DBL.mono {p p' : PS} {es : List Expr} (f : Frame p p') (h : DBL p es) : DBL p' es := h.imp f.dirty id
theorem DBP.mono {p p' : PS} {es : List (Bytes × Expr)} (f : Frame p p') (h : DBP p es) : DBP p' es := h.imp f.dirty id
theorem DB.dirty {p : PS} (h : Dirty p) (e : Expr) : DB p e := Or.inl h
theorem DB.leaf {p : PS} {e : Expr} (h : e.badFree = true) : DB p e := Or.inr h

theorem DB.one {p : PS} {e r : Expr} (h : DB p e) (hr : e.badFree = true → r.badFree = true) : DB p r :=
  h.imp id hr
theorem DB.two {p : PS} {e1 e2 r : Expr} (h1 : DB p e1) (h2 : DB p e2)
    (hr : e1.badFree = true → e2.badFree = true → r.badFree = true) : DB p r := by
  rcases h1 with h1 | h1
  · exact Or.inl h1
  · exact h2.imp id (hr h1)

def EOk (p : PS) (r : Expr × PS) : Prop := Frame p r.2 ∧ DB r.2 r.1
def LOk (p : PS) (r : List Expr × PS) : Prop := Frame p r.2 ∧ DBL r.2 r.1

theorem EOk.trans {p q : PS} {r : Expr × PS} (f : Frame p q) (h : EOk q r) : EOk p r := ⟨f.trans h.1, h.2⟩
theorem LOk.trans {p q : PS} {r : List Expr × PS} (f : Frame p q) (h : LOk q r) : LOk p r := ⟨f.trans h.1, h.2⟩

theorem badFreeList_append (a c : List Expr) :
    Expr.badFreeList (a ++ c) = (Expr.badFreeList a && Expr.badFreeList c) := by
  induction a with
  | nil => simp [Expr.badFreeList]
  | cons x r ih => simp [Expr.badFreeList, ih, Bool.and_assoc]

theorem badFreePairs_mapSet (ps : List (Bytes × Expr)) (k : Bytes) (v : Expr)
    (h : Expr.badFreePairs ps = true) (hv : v.badFree = true) : Expr.badFreePairs (mapSet ps k v) = true := by
  induction ps with
  | nil => simp [mapSet, Expr.badFreePairs, hv]
  | cons x r ih =>
    obtain ⟨k', e⟩ := x
    have hh : e.badFree = true ∧ Expr.badFreePairs r = true := by simpa [Expr.badFreePairs] using h
    unfold mapSet
    split
    · simp [Expr.badFreePairs, hv, hh.2]
    · simp [Expr.badFreePairs, hh.1, ih hh.2]

section bodies
variable {pe : Nat → PS → Expr × PS} {pl : TT → PS → List Expr × PS}
  {po : Token → List (Bytes × Expr) → PS → Expr × PS}

theorem prefixBody_ok (hpe : ∀ prec p, EOk p (pe prec p)) (hpl : ∀ t p, LOk p (pl t p))
    (hpo : ∀ t ps p, DBP p ps → EOk p (po t ps p)) (p : PS) :
    ∀ r, prefixBody pe pl po p = some r → EOk p r := by
  intro r h
  unfold prefixBody at h
  split at h
  · cases h; exact ⟨Frame.rfl' p, DB.leaf rfl⟩
  · split at h <;> cases h
    · exact ⟨Frame.rfl' p, DB.leaf rfl⟩
    · exact ⟨frame_err _ _ _ _, DB.dirty (dirty_err _ _ _ _) _⟩
  · split at h <;> cases h
    · exact ⟨Frame.rfl' p, DB.leaf rfl⟩
    · exact ⟨frame_err _ _ _ _, DB.dirty (dirty_err _ _ _ _) _⟩
  · cases h; exact ⟨Frame.rfl' p, DB.leaf rfl⟩
  · cases h; exact ⟨Frame.rfl' p, DB.leaf rfl⟩
  · cases h; exact ⟨Frame.rfl' p, DB.leaf rfl⟩
  · cases h; exact ⟨Frame.rfl' p, DB.leaf rfl⟩
  · cases h
    have := hpe PREFIX p.next
    exact ⟨(frame_next p).trans this.1, this.2.one (by simp [Expr.badFree])⟩
  · cases h
    have := hpe PREFIX p.next
    exact ⟨(frame_next p).trans this.1, this.2.one (by simp [Expr.badFree])⟩
  · have := hpe LOWEST p.next
    have fe := frame_expectPeek (pe LOWEST p.next).2 .RPAREN
    split at h <;> cases h
    · exact ⟨((frame_next p).trans this.1).trans fe, this.2.mono fe⟩
    · rename_i hok
      exact ⟨((frame_next p).trans this.1).trans fe, DB.dirty (expectPeek_false _ _ (by simpa using hok)) _⟩
  · cases h
    have := hpl .RBRACKET p
    exact ⟨this.1, this.2.imp id (by simp [Expr.badFree])⟩
  · split at h <;> cases h
    · exact ⟨frame_next p, DB.leaf rfl⟩
    · exact EOk.trans (frame_next p) (hpo _ _ _ (Or.inr rfl))
  · cases h

theorem infixBody_ok (hpe : ∀ prec p, EOk p (pe prec p)) (hpl : ∀ t p, LOk p (pl t p))
    (left : Expr) (p : PS) (hl : DB p left) : EOk p (infixBody pe pl left p) := by
  unfold infixBody
  split
  · split
    · exact ⟨(frame_next p).trans (frame_err _ _ _ _), DB.dirty (dirty_err _ _ _ _) _⟩
    · have := hpe p.curPrecedence p.next
      have f := (frame_next p).trans this.1
      exact ⟨f, (hl.mono f).two this.2 (by intro a c; simp [Expr.badFree, a, c])⟩
  · split
    · have h1 := hpe TERNARY p.next
      have fe := frame_expectPeek (pe TERNARY p.next).2 .COLON
      split
      · rename_i hok
        exact ⟨((frame_next p).trans h1.1).trans fe, DB.dirty (expectPeek_false _ _ (by simpa using hok)) _⟩
      · have h2 := hpe LOWEST ((pe TERNARY p.next).2.expectPeek .COLON).2.next
        have f2 := (fe.trans (frame_next _)).trans h2.1
        have f := ((frame_next p).trans h1.1).trans f2
        refine ⟨f, ?_⟩
        have a := hl.mono f
        have c := h1.2.mono f2
        rcases a with a | a
        · exact Or.inl a
        · exact c.two h2.2 (by intro x y; simp [Expr.badFree, a, x, y])
    · split
      · have h1 := hpe LOWEST p.next
        have fe := frame_expectPeek (pe LOWEST p.next).2 .RBRACKET
        have f := ((frame_next p).trans h1.1).trans fe
        split
        · exact ⟨f, (hl.mono f).two (h1.2.mono fe) (by intro a c; simp [Expr.badFree, a, c])⟩
        · rename_i hok
          exact ⟨f, DB.dirty (expectPeek_false _ _ (by simpa using hok)) _⟩
      · split
        · exact ⟨Frame.rfl' p, hl.one (by simp [Expr.badFree])⟩
        · have fe := frame_expectPeek p .IDENT
          split
          · rename_i hok
            exact ⟨fe, DB.dirty (expectPeek_false _ _ (by simpa using hok)) _⟩
          · split
            · have fe2 := frame_expectPeek (p.expectPeek .IDENT).2 .LPAREN
              have h1 := hpl .RPAREN ((p.expectPeek .IDENT).2.expectPeek .LPAREN).2
              have f := (fe.trans fe2).trans h1.1
              refine ⟨f, ?_⟩
              rcases hl.mono f with a | a
              · exact Or.inl a
              · exact h1.2.imp id (by intro x; simp [Expr.badFree, a, x])
            · exact ⟨fe, (hl.mono fe).one (by simp [Expr.badFree])⟩

end bodies

/-- the expression parser at every fuel: frames the state, and the node is whole unless an
    error was recorded -/
theorem parseExpr_ok : ∀ fuel : Nat,
    (∀ prec p, EOk p (parseExpression fuel prec p)) ∧
    (∀ prec left p, DB p left → EOk p (prattLoop fuel prec left p)) ∧
    (∀ t p, LOk p (parseExprList fuel t p)) ∧
    (∀ t acc p, DBL p acc → LOk p (exprListLoop fuel t acc p)) ∧
    (∀ t ps p, DBP p ps → EOk p (parseObjLoop fuel t ps p)) := by
  intro fuel
  induction fuel with
  | zero =>
    refine ⟨?_, ?_, ?_, ?_, ?_⟩
    · intro prec p; exact ⟨frame_oof p, DB.dirty (dirty_oof p) _⟩
    · intro prec left p _; exact ⟨frame_oof p, DB.dirty (dirty_oof p) _⟩
    · intro t p; exact ⟨frame_oof p, Or.inl (dirty_oof p)⟩
    · intro t acc p _; exact ⟨frame_oof p, Or.inl (dirty_oof p)⟩
    · intro t ps p _; exact ⟨frame_oof p, DB.dirty (dirty_oof p) _⟩
  | succ n ih =>
    obtain ⟨ihE, ihL, ihX, ihXL, ihO⟩ := ih
    refine ⟨?_, ?_, ?_, ?_, ?_⟩
    · intro prec p
      show EOk p (match prefixBody (parseExpression n) (parseExprList n) (parseObjLoop n) p with
        | none => (Expr.bad, p.err p.cur.errorLine "ErrNoPrefixParseFunc" [b (tokenString p.cur.ty)])
        | some r => prattLoop n prec r.1 r.2)
      have hb := prefixBody_ok ihE ihX ihO p
      cases hp : prefixBody (parseExpression n) (parseExprList n) (parseObjLoop n) p with
      | none => exact ⟨frame_err _ _ _ _, DB.dirty (dirty_err _ _ _ _) _⟩
      | some r =>
        have := hb r hp
        exact EOk.trans this.1 (ihL prec r.1 r.2 this.2)
    · intro prec left p hl
      show EOk p (if (p.peekIs .RBRACES || p.peekIs .SEMI || p.peekIs .RPAREN || !(decide (prec < p.peekPrecedence))) = true then (left, p)
        else if (!hasInfix p.peek.ty) = true then (left, p)
        else prattLoop n prec (infixBody (parseExpression n) (parseExprList n) left p.next).1
          (infixBody (parseExpression n) (parseExprList n) left p.next).2)
      split
      · exact ⟨Frame.rfl' p, hl⟩
      · split
        · exact ⟨Frame.rfl' p, hl⟩
        · have fi := infixBody_ok ihE ihX left p.next (hl.mono (frame_next p))
          exact EOk.trans ((frame_next p).trans fi.1) (ihL _ _ _ fi.2)
    · intro t p
      show LOk p (if p.peekIs t = true then ([], p.next)
        else
          match parseExpression n LOWEST p.next with
          | (e, p1) => exprListLoop n t [e] p1)
      split
      · exact ⟨frame_next p, Or.inr rfl⟩
      · have := ihE LOWEST p.next
        cases hq : parseExpression n LOWEST p.next with
        | mk e p1 =>
          rw [hq] at this
          exact LOk.trans ((frame_next p).trans this.1) (ihXL t [e] p1 (this.2.imp id (by intro x; simp [Expr.badFreeList, x])))
    · intro t acc p hacc
      show LOk p (if p.peekIs .COMMA = true then
          (if p.next.peekIs t = true then
            (match p.next.expectPeek t with
             | (ok, p2) => if ok = true then (acc, p2) else ([], p2))
          else
            match parseExpression n LOWEST p.next.next with
            | (e, p2) => exprListLoop n t (acc ++ [e]) p2)
        else
          match p.expectPeek t with
          | (ok, p1) => if ok = true then (acc, p1) else ([], p1))
      split
      · split
        · have fe := frame_expectPeek p.next t
          cases hq : p.next.expectPeek t with
          | mk ok p2 =>
            rw [hq] at fe
            have f := (frame_next p).trans fe
            dsimp only
            split
            · exact ⟨f, hacc.mono f⟩
            · exact ⟨f, Or.inr rfl⟩
        · have := ihE LOWEST p.next.next
          cases hq : parseExpression n LOWEST p.next.next with
          | mk e p2 =>
            rw [hq] at this
            have f := ((frame_next p).trans (frame_next _)).trans this.1
            refine LOk.trans f (ihXL t _ p2 ?_)
            rcases hacc.mono f with a | a
            · exact Or.inl a
            · exact this.2.imp id (by intro x; simp [badFreeList_append, Expr.badFreeList, a, x])
      · have fe := frame_expectPeek p t
        cases hq : p.expectPeek t with
        | mk ok p1 =>
          rw [hq] at fe
          dsimp only
          split
          · exact ⟨fe, hacc.mono fe⟩
          · exact ⟨fe, Or.inr rfl⟩
    · intro t ps p hps
      show EOk p (if p.curIs .RBRACE = true then (.obj t ps, p)
        else if (p.curIs .EOF || p.curIs .ILLEGAL) = true then
          (.bad, p.err p.cur.errorLine "ErrWrongNextToken" [b (tokenString .RBRACE), b (tokenString p.cur.ty)])
        else
          match parseExpression n LOWEST (if p.peekIs .COLON = true then p.next.next else p) with
          | (v, p1) =>
            if p1.peekIs .RBRACE = true then (.obj t (mapSet ps p.cur.lit v), p1.next)
            else
              match p1.expectPeek .COMMA with
              | (ok, p2) => if (!ok) = true then (.bad, p2) else parseObjLoop n t (mapSet ps p.cur.lit v) p2.next)
      split
      · exact ⟨Frame.rfl' p, hps.imp id (by intro x; simpa [Expr.badFree] using x)⟩
      · split
        · exact ⟨frame_err _ _ _ _, DB.dirty (dirty_err _ _ _ _) _⟩
        · have f0 : Frame p (if p.peekIs .COLON = true then p.next.next else p) := by
            split
            · exact (frame_next p).trans (frame_next _)
            · exact Frame.rfl' p
          have := ihE LOWEST (if p.peekIs .COLON = true then p.next.next else p)
          cases hq : parseExpression n LOWEST (if p.peekIs .COLON = true then p.next.next else p) with
          | mk v p1 =>
            rw [hq] at this
            have f1 := f0.trans this.1
            have hps' : DBP p1 (mapSet ps p.cur.lit v) := by
              rcases hps.mono f1 with a | a
              · exact Or.inl a
              · exact this.2.imp id (fun x => badFreePairs_mapSet _ _ _ a x)
            dsimp only
            split
            · have f2 := f1.trans (frame_next p1)
              exact ⟨f2, (hps'.mono (frame_next p1)).imp id (by intro x; simpa [Expr.badFree] using x)⟩
            · have fe := frame_expectPeek p1 .COMMA
              cases hq2 : p1.expectPeek .COMMA with
              | mk ok p2 =>
                rw [hq2] at fe
                dsimp only
                split
                · rename_i hok
                  have : (p1.expectPeek .COMMA).1 = false := by rw [hq2]; simpa using hok
                  have hd := expectPeek_false _ _ this
                  rw [hq2] at hd
                  exact ⟨f1.trans fe, DB.dirty hd _⟩
                · have f3 := fe.trans (frame_next p2)
                  exact EOk.trans (f1.trans f3) (ihO t _ _ (hps'.mono f3))

end Tw

/-! ### statements -/

namespace Tw

def SlotsGood (sl : List SlotUse) : Prop := ∀ s ∈ sl, Stmt.badFreeList s.body = true

/-- what the loader reads besides the statements: the `@insert` table and the slots of each
    component use -/
def TablesGood (p : PS) : Prop :=
  (∀ x ∈ p.inserts, x.2.badFree = true) ∧ (∀ cu ∈ p.components, SlotsGood cu.slots)

def Good (p : PS) : Prop := Dirty p ∨ TablesGood p

/-- the allocation numbers of the `@reserve` nodes recorded so far are below the next free
    number and pairwise different -/
def RInv (p : PS) : Prop :=
  (∀ x ∈ p.reserves, x.2 < p.nextId) ∧ p.reserves.Pairwise (fun x y => x.2 ≠ y.2)

structure Ext (p p' : PS) : Prop where
  dirty : Dirty p → Dirty p'
  good : Good p → Good p'
  rinv : RInv p → RInv p'

theorem Ext.rfl' (p : PS) : Ext p p := ⟨id, id, id⟩
theorem Ext.trans {p q r : PS} (h1 : Ext p q) (h2 : Ext q r) : Ext p r :=
  ⟨fun h => h2.dirty (h1.dirty h), fun h => h2.good (h1.good h), fun h => h2.rinv (h1.rinv h)⟩
theorem Frame.ext {p p' : PS} (f : Frame p p') : Ext p p' :=
  ⟨f.dirty, fun h => h.elim (fun d => Or.inl (f.dirty d)) fun g => Or.inr (by
    unfold TablesGood at g ⊢; rw [f.ins, f.comps]; exact g),
   fun h => by unfold RInv at h ⊢; rw [f.res, f.nid]; exact h⟩

/-- `b` holds unless an error was recorded -/
def DG (p : PS) (b : Bool) : Prop := Dirty p ∨ b = true

theorem DG.mono {p p' : PS} {b : Bool} (e : Ext p p') (h : DG p b) : DG p' b := h.imp e.dirty id
theorem DG.and {p : PS} {a c : Bool} (h1 : DG p a) (h2 : DG p c) : DG p (a && c) := by
  rcases h1 with h1 | h1
  · exact Or.inl h1
  · exact h2.imp id (by intro x; simp [h1, x])
theorem DG.tt (p : PS) : DG p true := Or.inr rfl
theorem DG.dirty {p : PS} (h : Dirty p) (b : Bool) : DG p b := Or.inl h

def SOk (p : PS) (r : Stmt × PS) : Prop := Ext p r.2 ∧ (r.1.isBad = true ∨ DG r.2 r.1.badFree)
def BOk (p : PS) (r : List Stmt × PS) : Prop := Ext p r.2 ∧ DG r.2 (Stmt.badFreeList r.1)

theorem stmt_badFreeList_append (a c : List Stmt) :
    Stmt.badFreeList (a ++ c) = (Stmt.badFreeList a && Stmt.badFreeList c) := by
  induction a with
  | nil => simp [Stmt.badFreeList]
  | cons x r ih => simp [Stmt.badFreeList, ih, Bool.and_assoc]

theorem badFreeAlts_append (a c : List (Expr × List Stmt)) :
    Stmt.badFreeAlts (a ++ c) = (Stmt.badFreeAlts a && Stmt.badFreeAlts c) := by
  induction a with
  | nil => simp [Stmt.badFreeAlts]
  | cons x r ih => obtain ⟨e, ss⟩ := x; simp [Stmt.badFreeAlts, ih, Bool.and_assoc]

theorem expectPeek_cases {p : PS} {t : TT} {ok : Bool} {p1 : PS} (h : p.expectPeek t = (ok, p1)) :
    Ext p p1 ∧ (ok = false → Dirty p1) := by
  have f := frame_expectPeek p t
  have d := expectPeek_false p t
  rw [h] at f d
  exact ⟨f.ext, d⟩

theorem ext_next (p : PS) : Ext p p.next := (frame_next p).ext
theorem ext_err (p : PS) (l : Nat) (c : String) (a : List Bytes) : Ext p (p.err l c a) := (frame_err p l c a).ext

theorem isBad_or_badFree_opt (s : Stmt) {p : PS} (h : s.isBad = true ∨ DG p s.badFree) :
    DG p (Stmt.badFreeOptS (if s.isBad = true then none else some s)) := by
  split
  · exact DG.tt p
  · rename_i hb
    rcases h with h | h
    · exact absurd h hb
    · exact h

theorem mapSet_mem {α} (m : List (Bytes × α)) (k : Bytes) (v : α) (x : Bytes × α) (h : x ∈ mapSet m k v) :
    x ∈ m ∨ x = (k, v) := by
  induction m with
  | nil => simp [mapSet] at h; exact Or.inr h
  | cons y r ih =>
    unfold mapSet at h
    split at h
    · rcases List.mem_cons.mp h with h | h
      · exact Or.inr h
      · exact Or.inl (List.mem_cons_of_mem _ h)
    · rcases List.mem_cons.mp h with h | h
      · exact Or.inl (h ▸ List.mem_cons_self)
      · exact (ih h).imp (List.mem_cons_of_mem _) id

end Tw

namespace Tw

theorem ext_expectPeek (p : PS) (t : TT) : Ext p (p.expectPeek t).2 := (frame_expectPeek p t).ext
theorem dirty_expectPeek {p : PS} {t : TT} (h : (!(p.expectPeek t).1) = true) : Dirty (p.expectPeek t).2 :=
  expectPeek_false p t (by simpa using h)
theorem dirty_expectPeek' {p : PS} {t : TT} (h : ¬ (p.expectPeek t).1 = true) : Dirty (p.expectPeek t).2 :=
  expectPeek_false p t (by simpa using h)

theorem frame_aliasPath (p : PS) (s : String) : Frame p (aliasPath p s).2 := by
  unfold aliasPath
  simp only []
  split
  · exact frame_err _ _ _ _
  · split <;> exact Frame.rfl' p

def SlOk (p : PS) (r : List SlotUse × PS) : Prop := Ext p r.2 ∧ (Dirty r.2 ∨ SlotsGood r.1)

section
variable {pe : Nat → PS → Expr × PS} {pl : TT → PS → List Expr × PS} {pst : PS → Stmt × PS}
  {pbody : PS → List Stmt × PS} {pblock : List Stmt → PS → List Stmt × PS}
  {ptail : Token → Expr → List Stmt → List (Expr × List Stmt) → PS → Stmt × PS}
  {pslots : List SlotUse → PS → List SlotUse × PS} {pskip : PS → PS}

theorem embeddedCode_ok (hpe : ∀ prec p, EOk p (pe prec p)) (p : PS) : SOk p (parseEmbeddedCode pe p) := by
  unfold parseEmbeddedCode
  simp only []
  split
  · exact ⟨(ext_next p).trans (ext_err _ _ _ _), Or.inl rfl⟩
  · split
    · split
      · exact ⟨(ext_next _).trans ((ext_expectPeek _ _).trans ((ext_next _).trans (ext_err _ _ _ _))), Or.inl rfl⟩
      · exact ⟨(ext_next _).trans ((ext_expectPeek _ _).trans ((ext_next _).trans (hpe _ _).1.ext)),
          Or.inr (by simp only [Stmt.badFree]; exact (hpe _ _).2)⟩
    · refine ⟨?_, Or.inr ?_⟩
      · split
        · exact (ext_next _).trans ((hpe _ _).1.ext.trans (ext_next _))
        · exact (ext_next _).trans (hpe _ _).1.ext
      · simp only [Stmt.badFree]
        split
        · exact DG.mono (ext_next _) (hpe _ _).2
        · exact (hpe _ _).2

theorem condDirective_ok (hpe : ∀ prec p, EOk p (pe prec p)) (p : PS) (mk : Token → Expr → Stmt)
    (hmk : ∀ t e, (mk t e).badFree = e.badFree) : SOk p (parseCondDirective pe p mk) := by
  unfold parseCondDirective
  simp only []
  split
  · exact ⟨ext_expectPeek _ _, Or.inl rfl⟩
  · exact ⟨(ext_expectPeek _ _).trans ((ext_next _).trans (hpe _ _).1.ext),
      Or.inr (by simp only [hmk]; exact (hpe _ _).2)⟩

theorem ifStmt_ok (hpe : ∀ prec p, EOk p (pe prec p)) (hbody : ∀ p, BOk p (pbody p))
    (htail : ∀ t c cons alts p, DG p c.badFree → DG p (Stmt.badFreeList cons) → DG p (Stmt.badFreeAlts alts) →
      SOk p (ptail t c cons alts p)) (p : PS) : SOk p (parseIfStmt pe pbody ptail p) := by
  unfold parseIfStmt
  simp only []
  have e1 := ext_expectPeek p .LPAREN
  generalize p.expectPeek .LPAREN = q1 at e1 ⊢
  split
  · exact ⟨e1, Or.inl rfl⟩
  · have h2 := hpe LOWEST q1.2.next
    generalize pe LOWEST q1.2.next = q2 at h2 ⊢
    have e3 := ext_expectPeek q2.2 .RPAREN
    generalize q2.2.expectPeek .RPAREN = q3 at e3 ⊢
    have e13 := (e1.trans ((ext_next _).trans h2.1.ext)).trans e3
    split
    · exact ⟨e13, Or.inl rfl⟩
    · have h4 := hbody q3.2
      generalize pbody q3.2 = q4 at h4 ⊢
      have ht := htail p.cur q2.1 q4.1 [] q4.2 (DG.mono (e3.trans h4.1) h2.2) h4.2 (DG.tt _)
      exact ⟨(e13.trans h4.1).trans ht.1, ht.2⟩

theorem loopElse_ok (hbody : ∀ p, BOk p (pbody p)) (p : PS) :
    Ext p (loopElse pbody p).2 ∧ DG (loopElse pbody p).2 (Stmt.badFreeOpt (loopElse pbody p).1) := by
  unfold loopElse
  simp only []
  split
  · exact ⟨(ext_next _).trans (hbody _).1, (hbody _).2⟩
  · exact ⟨Ext.rfl' p, DG.tt _⟩

theorem forClause_ok (hpe : ∀ prec p, EOk p (pe prec p)) (stop : TT) (p : PS) :
    Ext p (forClause pe stop p).2 ∧ DG (forClause pe stop p).2 (Stmt.badFreeOptS (forClause pe stop p).1) := by
  unfold forClause
  simp only []
  split
  · exact ⟨(embeddedCode_ok hpe p).1, isBad_or_badFree_opt _ (embeddedCode_ok hpe p).2⟩
  · exact ⟨Ext.rfl' p, DG.tt _⟩

theorem forCond_ok (hpe : ∀ prec p, EOk p (pe prec p)) (p : PS) :
    Ext p (forCond pe p).2 ∧ DG (forCond pe p).2 (optBF Expr.badFree (forCond pe p).1) := by
  unfold forCond
  simp only []
  split
  · refine ⟨(ext_next _).trans (hpe _ _).1.ext, ?_⟩
    show DG _ (optBF Expr.badFree (if _ then none else some _))
    split
    · exact DG.tt _
    · exact (hpe _ _).2
  · exact ⟨Ext.rfl' p, DG.tt _⟩

theorem loopBody_ok (hbody : ∀ p, BOk p (pbody p)) (p : PS) :
    Ext p (parseLoopBody pbody p).2 ∧
      ∀ body alt, (parseLoopBody pbody p).1 = some (body, alt) →
        DG (parseLoopBody pbody p).2 (Stmt.badFreeList body) ∧ DG (parseLoopBody pbody p).2 (Stmt.badFreeOpt alt) := by
  unfold parseLoopBody
  simp only []
  have h1 := hbody p
  generalize pbody p = q1 at h1 ⊢
  have h2 := loopElse_ok hbody q1.2
  generalize loopElse pbody q1.2 = q2 at h2 ⊢
  have e3 := ext_expectPeek q2.2 .END
  generalize q2.2.expectPeek .END = q3 at e3 ⊢
  split
  · refine ⟨(h1.1.trans h2.1).trans e3, ?_⟩
    intro b a h
    cases h
    exact ⟨DG.mono (h2.1.trans e3) h1.2, DG.mono e3 h2.2⟩
  · exact ⟨(h1.1.trans h2.1).trans e3, by intro b a h; cases h⟩

theorem forStmt_ok (hpe : ∀ prec p, EOk p (pe prec p)) (hbody : ∀ p, BOk p (pbody p)) (p : PS) :
    SOk p (parseForStmt pe pbody p) := by
  unfold parseForStmt
  simp only []
  have e1 := ext_expectPeek p .LPAREN
  generalize p.expectPeek .LPAREN = q1 at e1 ⊢
  split
  · exact ⟨e1, Or.inl rfl⟩
  · have h2 := forClause_ok hpe .SEMI q1.2
    generalize forClause pe .SEMI q1.2 = q2 at h2 ⊢
    have e3 := ext_expectPeek q2.2 .SEMI
    generalize q2.2.expectPeek .SEMI = q3 at e3 ⊢
    split
    · exact ⟨(e1.trans h2.1).trans e3, Or.inl rfl⟩
    · have h4 := forCond_ok hpe q3.2
      generalize forCond pe q3.2 = q4 at h4 ⊢
      have e5 := ext_expectPeek q4.2 .SEMI
      generalize q4.2.expectPeek .SEMI = q5 at e5 ⊢
      split
      · exact ⟨(((e1.trans h2.1).trans e3).trans h4.1).trans e5, Or.inl rfl⟩
      · have h6 := forClause_ok hpe .RPAREN q5.2
        generalize forClause pe .RPAREN q5.2 = q6 at h6 ⊢
        have e7 := ext_expectPeek q6.2 .RPAREN
        generalize q6.2.expectPeek .RPAREN = q7 at e7 ⊢
        have e17 := (((((e1.trans h2.1).trans e3).trans h4.1).trans e5).trans h6.1).trans e7
        split
        · exact ⟨e17, Or.inl rfl⟩
        · have h8 := loopBody_ok hbody q7.2
          generalize parseLoopBody pbody q7.2 = q8 at h8 ⊢
          obtain ⟨o, p8⟩ := q8
          cases o with
          | none => exact ⟨e17.trans h8.1, Or.inl rfl⟩
          | some ba =>
            obtain ⟨body, alt⟩ := ba
            obtain ⟨hb, ha⟩ := h8.2 body alt rfl
            refine ⟨e17.trans h8.1, Or.inr ?_⟩
            simp only [Stmt.badFree]
            exact ((((DG.mono (((e3.trans h4.1).trans e5).trans ((h6.1.trans e7).trans h8.1)) h2.2).and
              (DG.mono ((e5.trans h6.1).trans (e7.trans h8.1)) h4.2)).and (DG.mono (e7.trans h8.1) h6.2)).and hb).and ha

theorem eachStmt_ok (hpe : ∀ prec p, EOk p (pe prec p)) (hbody : ∀ p, BOk p (pbody p)) (p : PS) :
    SOk p (parseEachStmt pe pbody p) := by
  unfold parseEachStmt
  simp only []
  have e1 := ext_expectPeek p .LPAREN
  generalize p.expectPeek .LPAREN = q1 at e1 ⊢
  split
  · exact ⟨e1, Or.inl rfl⟩
  · have e3 := ext_expectPeek q1.2.next .IN
    generalize q1.2.next.expectPeek .IN = q3 at e3 ⊢
    have e13 := (e1.trans (ext_next _)).trans e3
    split
    · exact ⟨e13, Or.inl rfl⟩
    · have h4 := hpe LOWEST q3.2.next
      generalize pe LOWEST q3.2.next = q4 at h4 ⊢
      have e5 := ext_expectPeek q4.2 .RPAREN
      generalize q4.2.expectPeek .RPAREN = q5 at e5 ⊢
      have e15 := ((e13.trans (ext_next _)).trans h4.1.ext).trans e5
      split
      · exact ⟨e15, Or.inl rfl⟩
      · have h8 := loopBody_ok hbody q5.2
        generalize parseLoopBody pbody q5.2 = q8 at h8 ⊢
        obtain ⟨o, p8⟩ := q8
        cases o with
        | none => exact ⟨e15.trans h8.1, Or.inl rfl⟩
        | some ba =>
          obtain ⟨body, alt⟩ := ba
          obtain ⟨hb, ha⟩ := h8.2 body alt rfl
          refine ⟨e15.trans h8.1, Or.inr ?_⟩
          simp only [Stmt.badFree]
          exact ((DG.mono (e5.trans h8.1) h4.2).and hb).and ha

end
end Tw

namespace Tw

theorem mapSet_rids (m : List (Bytes × Nat)) (k : Bytes) (rid : Nat) (hlt : ∀ x ∈ m, x.2 < rid)
    (hp : m.Pairwise (fun x y => x.2 ≠ y.2)) : (mapSet m k rid).Pairwise (fun x y => x.2 ≠ y.2) := by
  induction m with
  | nil => simp [mapSet]
  | cons x r ih =>
    obtain ⟨k', v'⟩ := x
    have hp' := List.pairwise_cons.mp hp
    unfold mapSet
    split
    · refine List.pairwise_cons.mpr ⟨?_, hp'.2⟩
      intro y hy
      have := hlt y (List.mem_cons_of_mem _ hy)
      show rid ≠ y.2
      omega
    · refine List.pairwise_cons.mpr ⟨?_, ih (fun y hy => hlt y (List.mem_cons_of_mem _ hy)) hp'.2⟩
      intro y hy
      rcases mapSet_mem _ _ _ _ hy with hy | hy
      · exact hp'.1 y hy
      · rw [hy]
        have := hlt (k', v') List.mem_cons_self
        show v' ≠ rid
        omega

/-- `@reserve`: the node gets the next free number -/
theorem ext_reserve (p : PS) (name : Bytes) :
    Ext p { p with reserves := mapSet p.reserves name p.nextId, nextId := p.nextId + 1 } := by
  refine ⟨fun d => d, fun g => g, fun r => ⟨?_, mapSet_rids _ _ _ r.1 r.2⟩⟩
  intro x hx
  rcases mapSet_mem _ _ _ _ hx with hx | hx
  · exact Nat.lt_succ_of_lt (r.1 x hx)
  · rw [hx]; exact Nat.lt_succ_self _

theorem ext_setInsert (p : PS) (name : Bytes) (ins : InsertDef) (h : DG p ins.badFree) :
    Ext p { p with inserts := mapSet p.inserts name ins } := by
  refine ⟨fun d => d, fun g => ?_, fun r => r⟩
  rcases h with h | h
  · exact Or.inl h
  · rcases g with g | g
    · exact Or.inl g
    · refine Or.inr ⟨?_, g.2⟩
      intro x hx
      rcases mapSet_mem _ _ _ _ hx with hx | hx
      · exact g.1 x hx
      · rw [hx]; exact h

theorem ext_addComponent (p : PS) (cu : CompUse) (n : Nat) (hn : p.nextId ≤ n) (h : Dirty p ∨ SlotsGood cu.slots) :
    Ext p { p with components := p.components ++ [cu], nextId := n } := by
  refine ⟨fun d => d, fun g => ?_, fun r => ⟨fun x hx => Nat.lt_of_lt_of_le (r.1 x hx) hn, r.2⟩⟩
  rcases h with h | h
  · exact Or.inl h
  · rcases g with g | g
    · exact Or.inl g
    · refine Or.inr ⟨g.1, ?_⟩
      intro x hx
      rcases List.mem_append.mp hx with hx | hx
      · exact g.2 x hx
      · rw [List.mem_singleton.mp hx]; exact h

section
variable {pe : Nat → PS → Expr × PS} {pl : TT → PS → List Expr × PS} {pst : PS → Stmt × PS}
  {pbody : PS → List Stmt × PS} {pblock : List Stmt → PS → List Stmt × PS}
  {ptail : Token → Expr → List Stmt → List (Expr × List Stmt) → PS → Stmt × PS}
  {pslots : List SlotUse → PS → List SlotUse × PS} {pskip : PS → PS}

theorem insertStmt_ok (hpe : ∀ prec p, EOk p (pe prec p)) (hbody : ∀ p, BOk p (pbody p)) (p : PS) :
    SOk p (parseInsertStmt pe pbody p) := by
  unfold parseInsertStmt
  simp only []
  have e1 := ext_expectPeek p .LPAREN
  generalize p.expectPeek .LPAREN = q1 at e1 ⊢
  split
  · exact ⟨e1, Or.inl rfl⟩
  · split
    · exact ⟨e1.trans ((ext_next _).trans (ext_err _ _ _ _)), Or.inl rfl⟩
    · split
      · have h3 := hpe LOWEST q1.2.next.next.next
        generalize pe LOWEST q1.2.next.next.next = q3 at h3 ⊢
        have harg : DG q3.2 (optBF Expr.badFree (if q3.1.isBad = true then none else some q3.1)) := by
          split
          · exact DG.tt _
          · exact h3.2
        have e3 := (e1.trans ((ext_next _).trans ((ext_next _).trans (ext_next _)))).trans h3.1.ext
        refine ⟨e3.trans (ext_setInsert _ _ _ ?_), Or.inr ?_⟩
        · simp only [InsertDef.badFree, Stmt.badFreeOpt, Bool.and_true]
          exact harg
        · simp only [Stmt.badFree, Stmt.badFreeOpt, Bool.and_true]
          exact harg
      · have e3 := ext_expectPeek q1.2.next .RPAREN
        generalize q1.2.next.expectPeek .RPAREN = q3 at e3 ⊢
        have e13 := (e1.trans (ext_next _)).trans e3
        split
        · exact ⟨e13, Or.inl rfl⟩
        · have h4 := hbody q3.2
          generalize pbody q3.2 = q4 at h4 ⊢
          refine ⟨(e13.trans h4.1).trans (ext_setInsert _ _ _ ?_), Or.inr ?_⟩
          · simp only [InsertDef.badFree, optBF, Stmt.badFreeOpt, Bool.true_and]
            exact h4.2
          · simp only [Stmt.badFree, optBF, Stmt.badFreeOpt, Bool.true_and]
            exact h4.2

theorem componentArg_ok (hpe : ∀ prec p, EOk p (pe prec p)) (p : PS) :
    Ext p (componentArg pe p).2 ∧
      ∀ arg, (componentArg pe p).1 = some arg → DG (componentArg pe p).2 (optBF Expr.badFreePairs arg) := by
  unfold componentArg
  simp only []
  split
  · have h := hpe LOWEST p.next.next
    generalize pe LOWEST p.next.next = q at h ⊢
    have e := ((ext_next p).trans (ext_next _)).trans h.1.ext
    split
    · rename_i t pairs heq
      refine ⟨e, ?_⟩
      intro arg ha
      cases ha
      have := h.2
      rw [heq] at this
      simp only [optBF]
      unfold DB at this
      simp only [Expr.badFree] at this
      exact this
    · exact ⟨e.trans (ext_err _ _ _ _), by intro arg ha; cases ha⟩
  · exact ⟨Ext.rfl' p, by intro arg ha; cases ha; exact DG.tt _⟩

theorem componentSlots_ok (hslots : ∀ acc p, (Dirty p ∨ SlotsGood acc) → SlOk p (pslots acc p)) (p : PS) :
    SlOk p (componentSlots pslots p) := by
  have hnil : ∀ q : PS, Dirty q ∨ SlotsGood [] := fun q => Or.inr (by intro s hs; cases hs)
  unfold componentSlots
  split
  · have := hslots [] p.next (hnil _)
    exact ⟨(ext_next p).trans this.1, this.2⟩
  · split
    · split
      · have := hslots [] p.next.next (hnil _)
        exact ⟨((ext_next p).trans (ext_next _)).trans this.1, this.2⟩
      · exact ⟨Ext.rfl' p, hnil _⟩
    · exact ⟨Ext.rfl' p, hnil _⟩

theorem componentStmt_ok (hpe : ∀ prec p, EOk p (pe prec p))
    (hslots : ∀ acc p, (Dirty p ∨ SlotsGood acc) → SlOk p (pslots acc p)) (p : PS) :
    SOk p (parseComponentStmt pe pslots p) := by
  unfold parseComponentStmt
  simp only []
  have e1 := ext_expectPeek p .LPAREN
  generalize p.expectPeek .LPAREN = q1 at e1 ⊢
  split
  · exact ⟨e1, Or.inl rfl⟩
  · have e2 := (frame_aliasPath q1.2.next "components").ext
    generalize aliasPath q1.2.next "components" = q2 at e2 ⊢
    have h3 := componentArg_ok hpe q2.2
    generalize componentArg pe q2.2 = q3 at h3 ⊢
    obtain ⟨argR, p3⟩ := q3
    have e13 := (e1.trans ((ext_next _).trans e2)).trans h3.1
    cases argR with
    | none => exact ⟨e13, Or.inl rfl⟩
    | some arg =>
      simp only []
      have e4 := ext_expectPeek p3 .RPAREN
      generalize p3.expectPeek .RPAREN = q4 at e4 ⊢
      split
      · exact ⟨e13.trans e4, Or.inl rfl⟩
      · have h5 := componentSlots_ok hslots q4.2
        generalize componentSlots pslots q4.2 = q5 at h5 ⊢
        refine ⟨((e13.trans e4).trans h5.1).trans (ext_addComponent _ _ _ (Nat.le_succ _) h5.2), Or.inr ?_⟩
        simp only [Stmt.badFree]
        exact DG.mono ((e4.trans h5.1).trans (ext_addComponent _ _ _ (Nat.le_succ _) h5.2)) (h3.2 arg rfl)

theorem statementBody_ok (hpe : ∀ prec p, EOk p (pe prec p)) (hpl : ∀ t p, LOk p (pl t p))
    (hbody : ∀ p, BOk p (pbody p))
    (htail : ∀ t c cons alts p, DG p c.badFree → DG p (Stmt.badFreeList cons) → DG p (Stmt.badFreeAlts alts) →
      SOk p (ptail t c cons alts p))
    (hslots : ∀ acc p, (Dirty p ∨ SlotsGood acc) → SlOk p (pslots acc p)) (p : PS) :
    SOk p (statementBody pe pl pbody ptail pslots p) := by
  unfold statementBody
  simp only []
  split
  · exact ⟨Ext.rfl' p, Or.inr (DG.tt _)⟩
  · exact embeddedCode_ok hpe p
  · exact embeddedCode_ok hpe p
  · exact ifStmt_ok hpe hbody htail p
  · exact forStmt_ok hpe hbody p
  · exact eachStmt_ok hpe hbody p
  · -- @use
    split
    · exact ⟨ext_expectPeek _ _, Or.inl rfl⟩
    · exact ⟨(ext_expectPeek _ _).trans ((ext_next _).trans ((frame_aliasPath _ _).ext.trans ⟨fun d => d, fun g => g, fun r => r⟩)),
        Or.inr (DG.tt _)⟩
  · -- @reserve
    split
    · exact ⟨ext_expectPeek _ _, Or.inl rfl⟩
    · exact ⟨(ext_expectPeek _ _).trans ((ext_next _).trans (ext_reserve _ _)), Or.inr (DG.tt _)⟩
  · exact insertStmt_ok hpe hbody p
  · exact condDirective_ok hpe p _ (fun _ _ => by simp [Stmt.badFree])
  · exact condDirective_ok hpe p _ (fun _ _ => by simp [Stmt.badFree])
  · exact componentStmt_ok hpe hslots p
  · -- @slot
    split
    · exact ⟨Ext.rfl' p, Or.inr (DG.tt _)⟩
    · split
      · exact ⟨(ext_next _).trans ((ext_next _).trans (ext_expectPeek _ _)), Or.inr (DG.tt _)⟩
      · exact ⟨(ext_next _).trans ((ext_next _).trans (ext_expectPeek _ _)), Or.inl rfl⟩
  · -- @dump
    split
    · exact ⟨ext_expectPeek _ _, Or.inl rfl⟩
    · exact ⟨(ext_expectPeek _ _).trans (hpl _ _).1.ext, Or.inr (by simp only [Stmt.badFree]; exact (hpl _ _).2)⟩
  · exact ⟨Ext.rfl' p, Or.inr (DG.tt _)⟩
  · exact ⟨Ext.rfl' p, Or.inr (DG.tt _)⟩
  · exact ⟨Ext.rfl' p, Or.inl rfl⟩

theorem bodyBody_ok (hblock : ∀ acc p, DG p (Stmt.badFreeList acc) → BOk p (pblock acc p)) (p : PS) :
    BOk p (bodyBody pblock p) := by
  unfold bodyBody
  split
  · exact ⟨Ext.rfl' p, DG.tt _⟩
  · have := hblock [] p.next (DG.tt _)
    exact ⟨(ext_next p).trans this.1, this.2⟩

theorem blockStmtBody_ok (hst : ∀ p, SOk p (pst p))
    (hblock : ∀ acc p, DG p (Stmt.badFreeList acc) → BOk p (pblock acc p)) (acc : List Stmt) (p : PS)
    (hacc : DG p (Stmt.badFreeList acc)) : BOk p (blockStmtBody pst pblock acc p) := by
  unfold blockStmtBody
  simp only []
  split
  · exact ⟨Ext.rfl' p, hacc⟩
  · split
    · exact ⟨ext_err _ _ _ _, DG.dirty (dirty_err _ _ _ _) _⟩
    · split
      · exact ⟨ext_err _ _ _ _, DG.dirty (dirty_err _ _ _ _) _⟩
      · have h1 := hst p
        generalize pst p = q1 at h1 ⊢
        have hacc' : DG q1.2 (Stmt.badFreeList (if q1.1.isBad = true then acc else acc ++ [q1.1])) := by
          split
          · exact hacc.mono h1.1
          · rename_i hb
            rw [stmt_badFreeList_append]
            refine (hacc.mono h1.1).and ?_
            rcases h1.2 with h | h
            · exact absurd h hb
            · simpa [Stmt.badFreeList] using h
        split
        · exact ⟨h1.1, hacc'⟩
        · have := hblock _ q1.2.next (hacc'.mono (ext_next _))
          exact ⟨(h1.1.trans (ext_next _)).trans this.1, this.2⟩

theorem ifTailBody_ok (hpe : ∀ prec p, EOk p (pe prec p)) (hbody : ∀ p, BOk p (pbody p))
    (htail : ∀ t c cons alts p, DG p c.badFree → DG p (Stmt.badFreeList cons) → DG p (Stmt.badFreeAlts alts) →
      SOk p (ptail t c cons alts p))
    (t : Token) (c : Expr) (cons : List Stmt) (alts : List (Expr × List Stmt)) (p : PS)
    (hc : DG p c.badFree) (hcons : DG p (Stmt.badFreeList cons)) (halts : DG p (Stmt.badFreeAlts alts)) :
    SOk p (ifTailBody pe pbody ptail t c cons alts p) := by
  unfold ifTailBody
  simp only []
  split
  · have e1 := ext_expectPeek p .ELSE_IF
    generalize p.expectPeek .ELSE_IF = q1 at e1 ⊢
    have h3 := hpe LOWEST q1.2.next.next
    generalize pe LOWEST q1.2.next.next = q3 at h3 ⊢
    have e4 := ext_expectPeek q3.2 .RPAREN
    generalize q3.2.expectPeek .RPAREN = q4 at e4 ⊢
    have e14 := ((e1.trans ((ext_next _).trans (ext_next _))).trans h3.1.ext).trans e4
    split
    · exact ⟨e14, Or.inl rfl⟩
    · have h5 := hbody q4.2
      generalize pbody q4.2 = q5 at h5 ⊢
      have e15 := e14.trans h5.1
      have := htail t c cons (alts ++ [(q3.1, q5.1)]) q5.2 (hc.mono e15) (hcons.mono e15) (by
        rw [badFreeAlts_append]
        refine (halts.mono e15).and ?_
        simp only [Stmt.badFreeAlts, Bool.and_true]
        exact (DG.mono (e4.trans h5.1) h3.2).and h5.2)
      exact ⟨e15.trans this.1, this.2⟩
  · split
    · have h1 := hbody p.next
      generalize pbody p.next = q1 at h1 ⊢
      have e1 := (ext_next p).trans h1.1
      split
      · exact ⟨e1.trans (ext_err _ _ _ _), Or.inl rfl⟩
      · have e2 := ext_expectPeek q1.2 .END
        generalize q1.2.expectPeek .END = q2 at e2 ⊢
        split
        · refine ⟨e1.trans e2, Or.inr ?_⟩
          simp only [Stmt.badFree, Stmt.badFreeOpt]
          exact ((((hc.mono (e1.trans e2)).and (hcons.mono (e1.trans e2))).and (halts.mono (e1.trans e2))).and (h1.2.mono e2))
        · exact ⟨e1.trans e2, Or.inl rfl⟩
    · have e2 := ext_expectPeek p .END
      generalize p.expectPeek .END = q2 at e2 ⊢
      split
      · refine ⟨e2, Or.inr ?_⟩
        simp only [Stmt.badFree, Stmt.badFreeOpt, Bool.and_true]
        exact (((hc.mono e2).and (hcons.mono e2)).and (halts.mono e2))
      · exact ⟨e2, Or.inl rfl⟩

theorem slotHeader_ok (p : PS) : Ext p (slotHeader p).2 := by
  unfold slotHeader
  simp only []
  split
  · split <;> exact (ext_next _).trans ((ext_next _).trans (ext_expectPeek _ _))
  · exact Ext.rfl' p

theorem slotsBody_ok (hbody : ∀ p, BOk p (pbody p))
    (hslots : ∀ acc p, (Dirty p ∨ SlotsGood acc) → SlOk p (pslots acc p)) (hskip : ∀ p, Ext p (pskip p))
    (acc : List SlotUse) (p : PS) (hacc : Dirty p ∨ SlotsGood acc) : SlOk p (slotsBody pbody pslots pskip acc p) := by
  unfold slotsBody
  simp only []
  split
  · exact ⟨Ext.rfl' p, hacc⟩
  · have e1 := slotHeader_ok p
    generalize slotHeader p = q1 at e1 ⊢
    obtain ⟨hdr, p1⟩ := q1
    cases hdr with
    | none => exact ⟨e1, Or.inr (by intro s hs; cases hs)⟩
    | some name =>
      simp only []
      have h2 := hbody p1
      generalize pbody p1 = q2 at h2 ⊢
      have e3 : Ext p1 (pskip q2.2.next.next) := h2.1.trans ((ext_next _).trans ((ext_next _).trans (hskip _)))
      have := hslots (acc ++ [{ tok := p.cur, name := name, body := q2.1 }]) (pskip q2.2.next.next) (by
        rcases hacc with h | h
        · exact Or.inl ((e1.trans e3).dirty h)
        · rcases h2.2 with h' | h'
          · exact Or.inl (((ext_next _).trans ((ext_next _).trans (hskip _))).dirty h')
          · right
            intro s hs
            rcases List.mem_append.mp hs with hs | hs
            · exact h s hs
            · rw [List.mem_singleton.mp hs]; exact h')
      exact ⟨(e1.trans e3).trans this.1, this.2⟩

theorem skipHtmlBody_ok (hskip : ∀ p, Ext p (pskip p)) (p : PS) : Ext p (skipHtmlBody pskip p) := by
  unfold skipHtmlBody
  split
  · exact (ext_next p).trans (hskip _)
  · exact Ext.rfl' p

end

/-- the statement parser at every fuel -/
theorem parseStmt_ok : ∀ fuel : Nat,
    (∀ p, SOk p (parseStatement fuel p)) ∧
    (∀ p, BOk p (parseBody fuel p)) ∧
    (∀ acc p, DG p (Stmt.badFreeList acc) → BOk p (parseBlockStmt fuel acc p)) ∧
    (∀ t c cons alts p, DG p c.badFree → DG p (Stmt.badFreeList cons) → DG p (Stmt.badFreeAlts alts) →
      SOk p (parseIfTail fuel t c cons alts p)) ∧
    (∀ acc p, (Dirty p ∨ SlotsGood acc) → SlOk p (parseSlots fuel acc p)) ∧
    (∀ p, Ext p (skipHtml fuel p)) := by
  intro fuel
  induction fuel with
  | zero =>
    refine ⟨?_, ?_, ?_, ?_, ?_, ?_⟩
    · intro p; exact ⟨(frame_oof p).ext, Or.inl rfl⟩
    · intro p; exact ⟨(frame_oof p).ext, DG.dirty (dirty_oof p) _⟩
    · intro acc p _; exact ⟨(frame_oof p).ext, DG.dirty (dirty_oof p) _⟩
    · intro t c cons alts p _ _ _; exact ⟨(frame_oof p).ext, Or.inl rfl⟩
    · intro acc p _; exact ⟨(frame_oof p).ext, Or.inl (dirty_oof p)⟩
    · intro p; exact (frame_oof p).ext
  | succ n ih =>
    obtain ⟨ihS, ihB, ihBl, ihT, ihSl, ihSk⟩ := ih
    obtain ⟨hE, _, hL, _, _⟩ := parseExpr_ok n
    exact ⟨fun p => statementBody_ok hE hL ihB ihT ihSl p,
      fun p => bodyBody_ok ihBl p,
      fun acc p h => blockStmtBody_ok ihS ihBl acc p h,
      fun t c cons alts p h1 h2 h3 => ifTailBody_ok hE ihB ihT t c cons alts p h1 h2 h3,
      fun acc p h => slotsBody_ok ihB ihSl ihSk acc p h,
      fun p => skipHtmlBody_ok ihSk p⟩

end Tw

namespace Tw

theorem parseProgramLoop_ok : ∀ (fuel : Nat) (acc : List Stmt) (p : PS), DG p (Stmt.badFreeList acc) →
    Ext p (parseProgramLoop fuel acc p).2 ∧
      ∀ ss, (parseProgramLoop fuel acc p).1 = some ss → DG (parseProgramLoop fuel acc p).2 (Stmt.badFreeList ss)
  | 0, acc, p, _ => ⟨(frame_oof p).ext, fun _ _ => DG.dirty (dirty_oof p) _⟩
  | fuel + 1, acc, p, hacc => by
    unfold parseProgramLoop
    simp only []
    split
    · exact ⟨Ext.rfl' p, by intro ss h; cases h; exact hacc⟩
    · have h1 := (parseStmt_ok fuel).1 p
      generalize parseStatement fuel p = q1 at h1 ⊢
      split
      · exact ⟨h1.1.trans (ext_err _ _ _ _), by intro ss h; cases h⟩
      · have hacc' : DG q1.2.next (Stmt.badFreeList (if q1.1.isBad = true then acc else acc ++ [q1.1])) := by
          split
          · exact hacc.mono (h1.1.trans (ext_next _))
          · rename_i hb
            rw [stmt_badFreeList_append]
            refine (hacc.mono (h1.1.trans (ext_next _))).and ?_
            rcases h1.2 with h | h
            · exact absurd h hb
            · exact DG.mono (ext_next _) (by simpa [Stmt.badFreeList] using h)
        have := parseProgramLoop_ok fuel _ q1.2.next hacc'
        exact ⟨(h1.1.trans (ext_next _)).trans this.1, this.2⟩

/-- what `parseSource` returns as a program has no `bad` node anywhere: not in its statements,
    not in the `@insert` table, not in the slot bodies of its component uses -/
structure Program.Whole (prog : Program) : Prop where
  stmts : Stmt.badFreeList prog.stmts = true
  inserts : ∀ x ∈ prog.inserts, x.2.badFree = true
  slots : ∀ cu ∈ prog.components, SlotsGood cu.slots
  reserveIds : prog.reserves.Pairwise (fun x y => x.2 ≠ y.2)

theorem finishParse_ok (ic : Bool) (first : Token) (stmts : Option (List Stmt)) (p1 : PS) (prog : Program)
    (h : finishParse ic first stmts p1 = .ok prog) :
    ¬ Dirty p1 ∧ prog.stmts = stmts.getD [] ∧ prog.inserts = p1.inserts ∧ prog.components = p1.components ∧
      prog.reserves = p1.reserves := by
  have clean : ∀ q : PS, ¬ q.oof = true → q.errors = [] → ¬ Dirty q := by
    intro q h1 h2 hd
    rcases hd with hd | hd
    · exact hd h2
    · exact h1 hd
  unfold finishParse at h
  cases stmts with
  | none =>
    simp only [] at h
    split at h
    · cases h
    · split at h
      · cases h
      · cases h
        exact ⟨clean p1 ‹_› ‹_›, rfl, rfl, rfl, rfl⟩
  | some ss =>
    cases ic with
    | true =>
      simp only [if_true] at h
      split at h
      · cases h
      · split at h
        · cases h
        · rename_i he
          exact absurd he (by simp [PS.err])
    | false =>
      simp only [Bool.false_eq_true, if_false] at h
      split at h
      · cases h
      · split at h
        · cases h
        · cases h
          exact ⟨clean p1 ‹_› ‹_›, rfl, rfl, rfl, rfl⟩

theorem parseSource_whole (src : Bytes) (base : Nat) (prog : Program) (h : parseSource src base = .ok prog) :
    prog.Whole := by
  unfold parseSource at h
  split at h
  · cases h
  · rename_i lr _
    split at h
    · cases h
    · have hg0 : Good (initParser lr.toks base) := by
        have f : Frame ({ toks := lr.toks, nextId := base } : PS) (initParser lr.toks base) := by
          unfold initParser
          simp only []
          split
          · exact (frame_noteIllegal _ _).trans (frame_noteIllegal _ _)
          · exact frame_noteIllegal _ _
        exact f.ext.good (Or.inr ⟨fun x hx => (by cases hx), fun x hx => (by cases hx)⟩)
      have hl := parseProgramLoop_ok (parseFuel lr.toks) [] (initParser lr.toks base) (DG.tt _)
      obtain ⟨hc, h1, h2, h3, h4⟩ := finishParse_ok _ _ _ _ _ h
      have hg := (hl.1.good hg0).resolve_left hc
      have hr0 : RInv (initParser lr.toks base) := by
        have f : Frame ({ toks := lr.toks, nextId := base } : PS) (initParser lr.toks base) := by
          unfold initParser
          simp only []
          split
          · exact (frame_noteIllegal _ _).trans (frame_noteIllegal _ _)
          · exact frame_noteIllegal _ _
        exact f.ext.rinv ⟨fun x hx => (by cases hx), List.Pairwise.nil⟩
      have hr := hl.1.rinv hr0
      refine ⟨?_, by rw [h2]; exact hg.1, by rw [h3]; exact hg.2, by rw [h4]; exact hr.2⟩
      rw [h1]
      cases hs : (parseProgramLoop (parseFuel lr.toks) [] (initParser lr.toks base)).1 with
      | none => rfl
      | some ss => exact (hl.2 ss hs).resolve_left hc

end Tw
