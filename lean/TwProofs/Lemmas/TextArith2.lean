/-
  TwProofs.Lemmas.TextArith2 — "+" and "-" between two integer literals, lexed (C01).
-/
import TwProofs.Lemmas.TextArith
namespace Tw
open Lx

/-- "+" or "-" that is not doubled -/
def SumOp (c : Byte) (ty : TT) : Prop := (c = 43 ∧ ty = .ADD) ∨ (c = 45 ∧ ty = .SUB)

theorem codeStepDesc_sumop (s : Lx) (c : Byte) (ty : TT) (x : Bytes) (hop : SumOp c ty) (hr : s.rest = c :: x) (hx : x.headD 0 ≠ c) :
    codeStepDesc s = { st := s, n := 1, ty := ty, lit := [c] } := by
  have hchar : s.char = c := by simp [Lx.char, hr]
  have hpeek : s.peek = x.headD 0 := by
    cases x with
    | nil => simp [Lx.peek, hr]
    | cons a t => simp [Lx.peek, hr]
  rcases hop with ⟨rfl, rfl⟩ | ⟨rfl, rfl⟩
  · unfold codeStepDesc
    rw [if_neg (by rw [hchar]; simp)]
    unfold codeDesc
    rw [hchar, show simpleToken 43 = none from by decide]
    simp only []
    unfold bracketDesc
    rw [hchar]
    simp only [show ((43 : Byte) == 123) = false from by decide, show ((43 : Byte) == 125) = false from by decide,
      show ((43 : Byte) == 40) = false from by decide, show ((43 : Byte) == 41) = false from by decide,
      show ((43 : Byte) == 34 || (43 : Byte) == 39) = false from by decide, Bool.false_eq_true, if_false]
    unfold opDesc
    rw [hchar, hpeek]
    have hp : (x.headD 0 == 43) = false := by simpa using hx
    simp only [show ((43 : Byte) == 60) = false from by decide, show ((43 : Byte) == 62) = false from by decide,
      show ((43 : Byte) == 33) = false from by decide, show ((43 : Byte) == 45) = false from by decide,
      show ((43 : Byte) == 43) = true from by decide, Bool.false_eq_true, if_false, if_true, hp]
  · unfold codeStepDesc
    rw [if_neg (by rw [hchar]; simp)]
    unfold codeDesc
    rw [hchar, show simpleToken 45 = none from by decide]
    simp only []
    unfold bracketDesc
    rw [hchar]
    simp only [show ((45 : Byte) == 123) = false from by decide, show ((45 : Byte) == 125) = false from by decide,
      show ((45 : Byte) == 40) = false from by decide, show ((45 : Byte) == 41) = false from by decide,
      show ((45 : Byte) == 34 || (45 : Byte) == 39) = false from by decide, Bool.false_eq_true, if_false]
    unfold opDesc
    rw [hchar, hpeek]
    have hp : (x.headD 0 == 45) = false := by simpa using hx
    simp only [show ((45 : Byte) == 60) = false from by decide, show ((45 : Byte) == 62) = false from by decide,
      show ((45 : Byte) == 33) = false from by decide, show ((45 : Byte) == 45) = true from by decide,
      Bool.false_eq_true, if_false, if_true, hp]

/-- the five arithmetic operators with their binding power -/
def ArithOp (c : Byte) (ty : TT) (pr : Nat) : Prop := (ProdOp c ty ∧ pr = PRODUCT) ∨ (SumOp c ty ∧ pr = SUM)

theorem ArithOp.facts {c : Byte} {ty : TT} {pr : Nat} (h : ArithOp c ty pr) :
    isWs c = false ∧ isNumberCh c = false ∧ c ≠ 46 ∧ (ty == .RBRACES) = false ∧ (ty == .SEMI) = false ∧ (ty == .RPAREN) = false ∧
      precedence ty = pr ∧ hasInfix ty = true ∧ isBinaryOp ty = true ∧ ty ≠ .ILLEGAL ∧ ty ≠ .EOF ∧ (!decide (LOWEST < pr)) = false := by
  rcases h with ⟨⟨rfl, rfl⟩ | ⟨rfl, rfl⟩ | ⟨rfl, rfl⟩, rfl⟩ | ⟨⟨rfl, rfl⟩ | ⟨rfl, rfl⟩, rfl⟩ <;> decide

/-- one of the five operators after any white space, in code, when the byte after it is not the same byte
    (`++` and `--` are other tokens) -/
theorem code_arithop_step (s : Lx) (c : Byte) (ty : TT) (pr : Nat) (g x : Bytes) (hop : ArithOp c ty pr) (hh : s.isHTML = false) (hg : allWs g)
    (hr : s.rest = g ++ (c :: x)) (hx : x.headD 0 ≠ c) :
    ∃ t s1, nextStep s = (.tok t, s1) ∧ key t = (ty, [c]) ∧ t.ty = ty ∧ After s s1 x c := by
  rcases hop with ⟨hp, _⟩ | ⟨hs, _⟩
  · exact code_simple_step s c ty g x hp.facts.1 hh hg hr
  · have hws : isWs c = false := by rcases hs with ⟨rfl, _⟩ | ⟨rfl, _⟩ <;> decide
    have h123 : c ≠ 123 := by rcases hs with ⟨rfl, _⟩ | ⟨rfl, _⟩ <;> decide
    obtain ⟨j1, j2⟩ := skipWs_code s hh g _ hg hr (by simpa using hws)
    have hd4 := codeStepDesc_sumop (skipWs s) c ty x hs j1 hx
    have st4 := stepAt_code (skipWs s) (by rw [mode_html j2]; exact hh) (by rw [j1]; simp) (by simp [Lx.char, j1, h123])
    obtain ⟨z1, z2, z3⟩ := emit_after (codeStepDesc (skipWs s)) [c] x (by simp) (by rw [hd4]; simpa using j1) (by rw [hd4]; rfl)
    refine ⟨(codeStepDesc (skipWs s)).emit.1, (codeStepDesc (skipWs s)).emit.2, by unfold nextStep; exact st4, ?_, ?_, ⟨z1, ?_, by rw [z3]; rfl⟩⟩
    · unfold TokDesc.emit; rw [emit_key, hd4]
    · unfold TokDesc.emit; rw [emit_ty, hd4]
    · rw [z2, hd4, j2]

theorem lex_arith2 (s : Lx) (g1 a g3 : Bytes) (c : Byte) (ty : TT) (g4 b' g2 tl : Bytes) (hh : s.isHTML = true) (hb : s.braces = 0)
    (hg1 : allWs g1) (hg2 : allWs g2) (hg3 : allWs g3) (hg4 : allWs g4) (ha : isDigits a) (hbd : isDigits b') (pr : Nat) (hop : ArithOp c ty pr)
    (hr : s.rest = arithSrc g1 a g3 c g4 b' g2 ++ tl) :
    ∃ toks s5, Run s toks s5 ∧ toks.map key = arithKeys a c ty b' ∧ s5.rest = tl ∧ s5.prev = 125 ∧
      mode s5 = (true, s.isDirective, s.parens, 0, s.panicked) := by
  obtain ⟨f1, f2, f3, _, _, _, _, _, _, f10, f11, _⟩ := hop.facts
  obtain ⟨hne, hall⟩ := ha
  have hda : isDigits a := ⟨hne, hall⟩
  have hr' : s.rest = 123 :: 123 :: (g1 ++ (a ++ (g3 ++ (c :: (g4 ++ (b' ++ (g2 ++ (125 :: 125 :: tl)))))))) := by
    rw [hr]; simp [arithSrc, List.append_assoc]
  have hx1 : (g1 ++ (a ++ (g3 ++ (c :: (g4 ++ (b' ++ (g2 ++ (125 :: 125 :: tl)))))))).headD 0 ≠ 45 := by
    cases g1 with
    | nil =>
      match a, hne, hall with
      | c0 :: v, _, hall =>
        simp only [List.nil_append, List.cons_append, List.headD_cons]
        exact (digit_not_special (hall c0 List.mem_cons_self)).2.2.2.2.2.2.2.2.2.2.1
    | cons w t =>
      have hw : isWs w = true := hg1 w List.mem_cons_self
      simp only [List.cons_append, List.headD_cons]
      intro e; rw [e] at hw; cases hw
  obtain ⟨t1, s1, st1, k1, ne1, r1, _, m1⟩ := lex_open s _ hh hr' hx1
  obtain ⟨a1, a2, a3, a4, a5⟩ := mode_fields m1
  have hx2 : isNumberCh ((g3 ++ (c :: (g4 ++ (b' ++ (g2 ++ (125 :: 125 :: tl)))))).headD 0) = false ∧
      (g3 ++ (c :: (g4 ++ (b' ++ (g2 ++ (125 :: 125 :: tl)))))).headD 0 ≠ 46 := by
    cases g3 with
    | nil => simp only [List.nil_append, List.headD_cons]; exact ⟨f2, f3⟩
    | cons w t =>
      have hw : isWs w = true := hg3 w List.mem_cons_self
      simp only [List.cons_append, List.headD_cons]
      exact ⟨ws_not_number hw, fun e => by rw [e] at hw; cases hw⟩
  obtain ⟨t2, s2, st2, k2, ne2, b2⟩ := code_int_step s1 g1 a _ a1 hg1 hda r1 hx2.1 hx2.2
  have h2 : s2.isHTML = false := by rw [mode_html b2.md]; exact a1
  have hx3 : (g4 ++ (b' ++ (g2 ++ (125 :: 125 :: tl)))).headD 0 ≠ c := by
    cases g4 with
    | nil =>
      obtain ⟨hnb, hallb⟩ := hbd
      match b', hnb, hallb with
      | c0 :: v, _, hallb =>
        simp only [List.nil_append, List.cons_append, List.headD_cons]
        intro e
        have := hallb c0 List.mem_cons_self
        rw [e, f2] at this; cases this
    | cons w t =>
      have hw : isWs w = true := hg4 w List.mem_cons_self
      simp only [List.cons_append, List.headD_cons]
      intro e; rw [e, f1] at hw; cases hw
  obtain ⟨t3, s3, st3, k3, ty3, b3⟩ := code_arithop_step s2 c ty pr g3 _ hop h2 hg3 b2.rest hx3
  have h3 : s3.isHTML = false := by rw [mode_html b3.md]; exact h2
  have hx4 := ws_or_brace_not_number g2 tl hg2
  obtain ⟨t4, s4, st4, k4, ne4, b4⟩ := code_int_step s3 g4 b' _ h3 hg4 hbd b3.rest hx4.1 hx4.2
  have h4 : s4.isHTML = false := by rw [mode_html b4.md]; exact h3
  have br4 : s4.braces = 0 := by rw [mode_braces b4.md, mode_braces b3.md, mode_braces b2.md, a4]; exact hb
  obtain ⟨t5, s5, st5, k5, ne5, r5, pv5, m5⟩ := code_close_step s4 g2 tl h4 br4 hg2 b4.rest
  refine ⟨[t1, t2, t3, t4, t5], s5, ?_, ?_, r5, pv5, ?_⟩
  · exact Run.cons _ _ _ _ _ st1 ne1 (Run.cons _ _ _ _ _ st2 ne2 (Run.cons _ _ _ _ _ st3 (by rw [ty3]; exact f11) (Run.cons _ _ _ _ _ st4 ne4
      (Run.cons _ _ _ _ _ st5 ne5 (Run.nil _)))))
  · simp [arithKeys, k1, k2, k3, k4, k5]
  · rw [m5, mode_dir b4.md, mode_dir b3.md, mode_dir b2.md, a2, mode_parens b4.md, mode_parens b3.md, mode_parens b2.md, a3,
      mode_pan b4.md, mode_pan b3.md, mode_pan b2.md, a5]

def arith2Code (g1 a g3 : Bytes) (c : Byte) (ty : TT) (g4 b' g2 : Bytes) : Code :=
  { src := arithSrc g1 a g3 c g4 b' g2, keys := arithKeys a c ty b' }

theorem arith2Code_ok (g1 a g3 : Bytes) (c : Byte) (ty : TT) (g4 b' g2 : Bytes) (hg1 : allWs g1) (hg2 : allWs g2) (hg3 : allWs g3)
    (hg4 : allWs g4) (ha : isDigits a) (hbd : isDigits b') (pr : Nat) (hop : ArithOp c ty pr) : (arith2Code g1 a g3 c ty g4 b' g2).OK := by
  refine ⟨?_, ?_, ?_⟩
  · intro tl
    exact Or.inr (Or.inl ⟨g1 ++ a ++ g3 ++ [c] ++ g4 ++ b' ++ g2 ++ [125, 125] ++ tl, by simp [arith2Code, arithSrc, List.append_assoc]⟩)
  · simp [arith2Code, arithSrc, arithKeys]; omega
  · intro s tl hr hh hb hpa hdi _
    obtain ⟨toks, s5, run, hkeys, r5, pv5, m5⟩ := lex_arith2 s g1 a g3 c ty g4 b' g2 tl hh hb hg1 hg2 hg3 hg4 ha hbd pr hop hr
    obtain ⟨f1, f2, f3, f4, f5⟩ := mode_fields m5
    exact ⟨toks, s5, run, hkeys, r5, f1, f4, by rw [f3]; exact hpa, by rw [f2]; exact hdi, f5, by rw [pv5]; decide⟩

/-- `{{ a op b }}` as a statement -/
theorem parse_arith2_stmt (g : Nat) (t1 t2 t3 t4 t5 : Token) (tail : List Token) (va vb : Int64) (c : Byte) (ty : TT) (pr : Nat) (hop : ArithOp c ty pr)
    (h1 : t1.ty = .LBRACES) (h2 : t2.ty = .INT) (h3 : t3.ty = ty) (h4 : t4.ty = .INT) (h5 : t5.ty = .RBRACES)
    (hva : parseInt64 t2.lit = some va) (hvb : parseInt64 t4.lit = some vb) (hclean : ∀ x ∈ tail, x.ty ≠ .ILLEGAL) :
    parseStatement (g + 5) ({ toks := t1 :: t2 :: t3 :: t4 :: t5 :: tail } : PS) =
      (.expr t4 (.inf t3 t3.lit (.int t2 va) (.int t4 vb)), { toks := t5 :: tail }) := by
  obtain ⟨_, _, _, f4, f5, f6, f7, f8, f9, f10, _, f12⟩ := hop.facts
  have c5 := noill_cons (t := t5) (by rw [h5]; decide) hclean
  have c4 := noill_cons (t := t4) (by rw [h4]; decide) c5
  have c3 := noill_cons (t := t3) (by rw [h3]; exact f10) c4
  have c2 := noill_cons (t := t2) (by rw [h2]; decide) c3
  have nx1 : ({ toks := t1 :: t2 :: t3 :: t4 :: t5 :: tail } : PS).next = { toks := t2 :: t3 :: t4 :: t5 :: tail } := ps_next_clean t1 t2 _ c2
  have nx2 : ({ toks := t2 :: t3 :: t4 :: t5 :: tail } : PS).next = { toks := t3 :: t4 :: t5 :: tail } := ps_next_clean t2 t3 _ c3
  have nx3 : ({ toks := t3 :: t4 :: t5 :: tail } : PS).next = { toks := t4 :: t5 :: tail } := ps_next_clean t3 t4 _ c4
  have nx4 : ({ toks := t4 :: t5 :: tail } : PS).next = { toks := t5 :: tail } := ps_next_clean t4 t5 _ c5
  have hright : parseExpression (g + 2) pr ({ toks := t4 :: t5 :: tail } : PS) = (.int t4 vb, { toks := t4 :: t5 :: tail }) := by
    rw [parseExpression_succ]
    have hp : prefixBody (parseExpression (g + 1)) (parseExprList (g + 1)) (parseObjLoop (g + 1))
        ({ toks := t4 :: t5 :: tail } : PS) = some (.int t4 vb, { toks := t4 :: t5 :: tail }) := by
      unfold prefixBody
      simp [PS.cur, h4, hvb]
    rw [hp]
    simp only []
    rw [prattLoop_succ]
    have : ({ toks := t4 :: t5 :: tail } : PS).peekIs .RBRACES = true := by simp [PS.peekIs, PS.peek, h5]
    simp [this]
  have hex : parseExpression (g + 4) LOWEST ({ toks := t2 :: t3 :: t4 :: t5 :: tail } : PS) =
      (.inf t3 t3.lit (.int t2 va) (.int t4 vb), { toks := t4 :: t5 :: tail }) := by
    rw [parseExpression_succ]
    have hp : prefixBody (parseExpression (g + 3)) (parseExprList (g + 3)) (parseObjLoop (g + 3))
        ({ toks := t2 :: t3 :: t4 :: t5 :: tail } : PS) = some (.int t2 va, { toks := t2 :: t3 :: t4 :: t5 :: tail }) := by
      unfold prefixBody
      simp [PS.cur, h2, hva]
    rw [hp]
    simp only []
    rw [prattLoop_succ]
    have e1 : ({ toks := t2 :: t3 :: t4 :: t5 :: tail } : PS).peekIs .RBRACES = false := by simp [PS.peekIs, PS.peek, h3, f4]
    have e2 : ({ toks := t2 :: t3 :: t4 :: t5 :: tail } : PS).peekIs .SEMI = false := by simp [PS.peekIs, PS.peek, h3, f5]
    have e3 : ({ toks := t2 :: t3 :: t4 :: t5 :: tail } : PS).peekIs .RPAREN = false := by simp [PS.peekIs, PS.peek, h3, f6]
    have e4 : ({ toks := t2 :: t3 :: t4 :: t5 :: tail } : PS).peekPrecedence = pr := by simp [PS.peekPrecedence, PS.peek, h3, f7]
    have e5 : ({ toks := t2 :: t3 :: t4 :: t5 :: tail } : PS).peek.ty = ty := by simp [PS.peek, h3]
    simp only [e1, e2, e3, e4, e5, Bool.or_self, f12,
      Bool.false_eq_true, if_false, f8, Bool.not_true, nx2]
    have hinf : infixBody (parseExpression (g + 2)) (parseExprList (g + 2)) (.int t2 va) ({ toks := t3 :: t4 :: t5 :: tail } : PS) =
        (.inf t3 t3.lit (.int t2 va) (.int t4 vb), { toks := t4 :: t5 :: tail }) := by
      unfold infixBody
      have c0 : ({ toks := t3 :: t4 :: t5 :: tail } : PS).cur = t3 := rfl
      have cp : ({ toks := t3 :: t4 :: t5 :: tail } : PS).curPrecedence = pr := by simp [PS.curPrecedence, PS.cur, h3, f7]
      have cr : ({ toks := t4 :: t5 :: tail } : PS).curIs .RBRACES = false := by simp [PS.curIs, PS.cur, h4]
      simp only [c0, h3, f9, if_true, nx3, cr, Bool.false_eq_true, if_false, cp, hright]
    rw [hinf]
    simp only []
    rw [prattLoop_succ]
    have : ({ toks := t4 :: t5 :: tail } : PS).peekIs .RBRACES = true := by simp [PS.peekIs, PS.peek, h5]
    simp [this]
  show statementBody (parseExpression (g + 4)) (parseExprList (g + 4)) (parseBody (g + 4)) (parseIfTail (g + 4)) (parseSlots (g + 4))
    ({ toks := t1 :: t2 :: t3 :: t4 :: t5 :: tail } : PS) = _
  have hc : ({ toks := t1 :: t2 :: t3 :: t4 :: t5 :: tail } : PS).cur.ty = .LBRACES := by simp [PS.cur, h1]
  unfold statementBody
  simp only [hc]
  unfold parseEmbeddedCode
  simp only [nx1]
  have c1 : ({ toks := t2 :: t3 :: t4 :: t5 :: tail } : PS).curIs .RBRACES = false := by simp [PS.curIs, PS.cur, h2]
  have c2' : (({ toks := t2 :: t3 :: t4 :: t5 :: tail } : PS).cur.ty == .IDENT) = false := by simp [PS.cur, h2]
  have c3' : ({ toks := t4 :: t5 :: tail } : PS).peekIs .RBRACES = true := by simp [PS.peekIs, PS.peek, h5]
  simp only [c1, c2', Bool.false_and, Bool.false_eq_true, if_false, hex, c3', if_true, nx4]
  simp [PS.cur]

/-- **`{{ a op b }}`, parsed** -/
theorem parse_arith2_source (g1 a g3 : Bytes) (c : Byte) (ty : TT) (g4 b' g2 : Bytes) (hg1 : allWs g1) (hg2 : allWs g2) (hg3 : allWs g3)
    (hg4 : allWs g4) (ha : isDigits a) (hbd : isDigits b') (pr : Nat) (hop : ArithOp c ty pr) (hba : digitsToNat a ≤ 9223372036854775807)
    (hbb : digitsToNat b' ≤ 9223372036854775807) :
    ∃ prog t2 t3 t4, parseSource (arithSrc g1 a g3 c g4 b' g2) = .ok prog ∧
      prog.stmts = [.expr t4 (.inf t3 [c] (.int t2 (Int64.ofNat (digitsToNat a))) (.int t4 (Int64.ofNat (digitsToNat b'))))] := by
  obtain ⟨_, _, _, _, _, _, _, _, _, f10, _, _⟩ := hop.facts
  have hok : GItemsOK [.code (arith2Code g1 a g3 c ty g4 b' g2)] := ⟨arith2Code_ok g1 a g3 c ty g4 b' g2 hg1 hg2 hg3 hg4 ha hbd pr hop, trivial⟩
  obtain ⟨toks, e, htok, hkeys, he⟩ := tokenize_gitems _ hok
  have hsrc : gsrc [.code (arith2Code g1 a g3 c ty g4 b' g2)] = arithSrc g1 a g3 c g4 b' g2 := by simp [gsrc, GItem.src, arith2Code]
  rw [hsrc] at htok
  have hk' : toks.map key = arithKeys a c ty b' := by simpa [gkeys, arith2Code] using hkeys
  match toks, hk' with
  | [], hk' => simp [arithKeys] at hk'
  | [_], hk' => simp [arithKeys] at hk'
  | [_, _], hk' => simp [arithKeys] at hk'
  | [_, _, _], hk' => simp [arithKeys] at hk'
  | [_, _, _, _], hk' => simp [arithKeys] at hk'
  | _ :: _ :: _ :: _ :: _ :: _ :: _, hk' => simp [arithKeys] at hk'
  | [t1, t2, t3, t4, t5], hk' =>
    simp only [arithKeys, List.map_cons, List.map_nil, List.cons.injEq, and_true] at hk'
    obtain ⟨hk1, hk2, hk3, hk4, hk5⟩ := hk'
    have ty1 : t1.ty = .LBRACES := congrArg Prod.fst hk1
    have ty2 : t2.ty = .INT := congrArg Prod.fst hk2
    have lit2 : t2.lit = a := congrArg Prod.snd hk2
    have ty3 : t3.ty = ty := congrArg Prod.fst hk3
    have lit3 : t3.lit = [c] := congrArg Prod.snd hk3
    have ty4 : t4.ty = .INT := congrArg Prod.fst hk4
    have lit4 : t4.lit = b' := congrArg Prod.snd hk4
    have ty5 : t5.ty = .RBRACES := congrArg Prod.fst hk5
    have hce : ∀ x ∈ [e], x.ty ≠ .ILLEGAL := by intro x hx; simp at hx; rw [hx, he]; decide
    have hcl : ∀ x ∈ [t1, t2, t3, t4, t5] ++ [e], x.ty ≠ .ILLEGAL :=
      noill_cons (by rw [ty1]; decide) (noill_cons (by rw [ty2]; decide) (noill_cons (by rw [ty3]; exact f10)
        (noill_cons (by rw [ty4]; decide) (noill_cons (by rw [ty5]; decide) hce))))
    refine ⟨{ tok := t1, stmts := [.expr t4 (.inf t3 [c] (.int t2 (Int64.ofNat (digitsToNat a))) (.int t4 (Int64.ofNat (digitsToNat b'))))] },
      t2, t3, t4, ?_, rfl⟩
    unfold parseSource
    rw [htok]
    simp only [Bool.false_eq_true, if_false]
    rw [initParser_clean _ hcl]
    have hfuel : parseFuel ([t1, t2, t3, t4, t5] ++ [e]) = 34 + 6 := by simp [parseFuel]
    rw [hfuel]
    have hst := parse_arith2_stmt 34 t1 t2 t3 t4 t5 [e] _ _ c ty pr hop ty1 ty2 ty3 ty4 ty5
      (by rw [lit2]; exact parseInt64_digits a ha hba) (by rw [lit4]; exact parseInt64_digits b' hbd hbb) hce
    have hloop : parseProgramLoop (34 + 6) [] ({ toks := [t1, t2, t3, t4, t5] ++ [e] } : PS) =
        (some [.expr t4 (.inf t3 t3.lit (.int t2 (Int64.ofNat (digitsToNat a))) (.int t4 (Int64.ofNat (digitsToNat b'))))], { toks := [e] }) := by
      rw [show 34 + 6 = 39 + 1 from rfl, parseProgramLoop]
      have c0 : ({ toks := [t1, t2, t3, t4, t5] ++ [e] } : PS).curIs .EOF = false := by simp [PS.curIs, PS.cur, ty1]
      simp only [c0, Bool.false_eq_true, if_false]
      simp only [List.cons_append, List.nil_append] at hst ⊢
      rw [show 39 = 34 + 5 from rfl, hst]
      have i5 : ({ toks := [t5, e] } : PS).curIs .ILLEGAL = false := by simp [PS.curIs, PS.cur, ty5]
      simp only [i5, Bool.false_eq_true, if_false, Stmt.isBad]
      have nx : ({ toks := [t5, e] } : PS).next = { toks := [e] } := ps_next_clean t5 e [] hce
      rw [nx, show 34 + 5 = 38 + 1 from rfl, parseProgramLoop]
      have ce : ({ toks := [e] } : PS).curIs .EOF = true := by simp [PS.curIs, PS.cur, he]
      simp [ce]
    rw [hloop]
    simp [finishParse, PS.cur, lit3]


end Tw
