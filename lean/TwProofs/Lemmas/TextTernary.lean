/-
  TwProofs.Lemmas.TextTernary — `{{ name ? a : b }}` with two integer literals, from the source bytes to
  the parsed program (C01 / C02: the ternary selects by the truthiness of its condition).
-/
import TwProofs.Lemmas.TextConcat
namespace Tw
open Lx

/-- `{{ g1 k g3 ? g4 a g5 : g6 b g2 }}` -/
def ternSrc (g1 k g3 g4 a g5 g6 b' g2 : Bytes) : Bytes :=
  [123, 123] ++ g1 ++ k ++ g3 ++ [63] ++ g4 ++ a ++ g5 ++ [58] ++ g6 ++ b' ++ g2 ++ [125, 125]

def ternKeys (k a b' : Bytes) : List (TT × Bytes) :=
  [(.LBRACES, [123, 123]), (.IDENT, k), (.QUESTION, [63]), (.INT, a), (.COLON, [58]), (.INT, b'), (.RBRACES, [125, 125])]

theorem lex_tern (s : Lx) (g1 k g3 g4 a g5 g6 b' g2 tl : Bytes) (hh : s.isHTML = true) (hb : s.braces = 0)
    (hg1 : allWs g1) (hg2 : allWs g2) (hg3 : allWs g3) (hg4 : allWs g4) (hg5 : allWs g5) (hg6 : allWs g6)
    (hk : isName k) (ha : isDigits a) (hbd : isDigits b') (hr : s.rest = ternSrc g1 k g3 g4 a g5 g6 b' g2 ++ tl) :
    ∃ toks s7, Run s toks s7 ∧ toks.map key = ternKeys k a b' ∧ s7.rest = tl ∧ s7.prev = 125 ∧
      mode s7 = (true, s.isDirective, s.parens, 0, s.panicked) := by
  obtain ⟨⟨c, cv, hcv, hc⟩, hall, hkw⟩ := hk
  have hkn : isName k := ⟨⟨c, cv, hcv, hc⟩, hall, hkw⟩
  have hnot := identCh_not_special hc
  have hr' : s.rest = 123 :: 123 :: (g1 ++ (k ++ (g3 ++ (63 :: (g4 ++ (a ++ (g5 ++ (58 :: (g6 ++ (b' ++ (g2 ++ (125 :: 125 :: tl)))))))))))) := by
    rw [hr]; simp [ternSrc, List.append_assoc]
  have hx1 : (g1 ++ (k ++ (g3 ++ (63 :: (g4 ++ (a ++ (g5 ++ (58 :: (g6 ++ (b' ++ (g2 ++ (125 :: 125 :: tl)))))))))))).headD 0 ≠ 45 := by
    cases g1 with
    | nil => simp only [List.nil_append, hcv, List.cons_append, List.headD_cons]; exact hnot.2.2.2.2.2.2.2.2.2.2.1
    | cons w t =>
      have hw : isWs w = true := hg1 w List.mem_cons_self
      simp only [List.cons_append, List.headD_cons]
      intro e; rw [e] at hw; cases hw
  obtain ⟨t1, s1, st1, k1, ne1, r1, _, m1⟩ := lex_open s _ hh hr' hx1
  obtain ⟨a1, a2, a3, a4, a5⟩ := mode_fields m1
  have hx2 : (isIdentCh ((g3 ++ (63 :: (g4 ++ (a ++ (g5 ++ (58 :: (g6 ++ (b' ++ (g2 ++ (125 :: 125 :: tl)))))))))).headD 0) ||
      isNumberCh ((g3 ++ (63 :: (g4 ++ (a ++ (g5 ++ (58 :: (g6 ++ (b' ++ (g2 ++ (125 :: 125 :: tl)))))))))).headD 0)) = false := by
    cases g3 with
    | nil => simp only [List.nil_append, List.headD_cons]; decide
    | cons w t =>
      have hw : isWs w = true := hg3 w List.mem_cons_self
      simp only [List.cons_append, List.headD_cons]
      rw [ws_not_ident hw, ws_not_number hw]; rfl
  obtain ⟨t2, s2, st2, k2, ne2, b2⟩ := code_word_step s1 g1 k _ a1 hg1 (isName_word hkn) r1 hx2
  have h2 : s2.isHTML = false := by rw [mode_html b2.md]; exact a1
  obtain ⟨t3, s3, st3, k3, ty3, b3⟩ := code_simple_step s2 63 .QUESTION g3 _ (by decide) h2 hg3 b2.rest
  have h3 : s3.isHTML = false := by rw [mode_html b3.md]; exact h2
  have hx4 := ws_then_op_not_number g5 (g6 ++ (b' ++ (g2 ++ (125 :: 125 :: tl)))) 58 hg5 (by decide) (by decide)
  obtain ⟨t4, s4, st4, k4, ne4, b4⟩ := code_int_step s3 g4 a _ h3 hg4 ha b3.rest hx4.1 hx4.2
  have h4 : s4.isHTML = false := by rw [mode_html b4.md]; exact h3
  obtain ⟨t5, s5, st5, k5, ty5, b5⟩ := code_simple_step s4 58 .COLON g5 _ (by decide) h4 hg5 b4.rest
  have h5 : s5.isHTML = false := by rw [mode_html b5.md]; exact h4
  have hx6 := ws_or_brace_not_number g2 tl hg2
  obtain ⟨t6, s6, st6, k6, ne6, b6⟩ := code_int_step s5 g6 b' _ h5 hg6 hbd b5.rest hx6.1 hx6.2
  have h6 : s6.isHTML = false := by rw [mode_html b6.md]; exact h5
  have br6 : s6.braces = 0 := by
    rw [mode_braces b6.md, mode_braces b5.md, mode_braces b4.md, mode_braces b3.md, mode_braces b2.md, a4]; exact hb
  obtain ⟨t7, s7, st7, k7, ne7, r7, pv7, m7⟩ := code_close_step s6 g2 tl h6 br6 hg2 b6.rest
  refine ⟨[t1, t2, t3, t4, t5, t6, t7], s7, ?_, ?_, r7, pv7, ?_⟩
  · exact Run.cons _ _ _ _ _ st1 ne1 (Run.cons _ _ _ _ _ st2 ne2 (Run.cons _ _ _ _ _ st3 (by rw [ty3]; decide) (Run.cons _ _ _ _ _ st4 ne4
      (Run.cons _ _ _ _ _ st5 (by rw [ty5]; decide) (Run.cons _ _ _ _ _ st6 ne6 (Run.cons _ _ _ _ _ st7 ne7 (Run.nil _)))))))
  · have hk2 : key t2 = (.IDENT, k) := by rw [k2, hkw]
    simp [ternKeys, k1, hk2, k3, k4, k5, k6, k7]
  · rw [m7, mode_dir b6.md, mode_dir b5.md, mode_dir b4.md, mode_dir b3.md, mode_dir b2.md, a2, mode_parens b6.md, mode_parens b5.md,
      mode_parens b4.md, mode_parens b3.md, mode_parens b2.md, a3, mode_pan b6.md, mode_pan b5.md, mode_pan b4.md, mode_pan b3.md,
      mode_pan b2.md, a5]

def ternCode (g1 k g3 g4 a g5 g6 b' g2 : Bytes) : Code := { src := ternSrc g1 k g3 g4 a g5 g6 b' g2, keys := ternKeys k a b' }

theorem ternCode_ok (g1 k g3 g4 a g5 g6 b' g2 : Bytes) (hg1 : allWs g1) (hg2 : allWs g2) (hg3 : allWs g3) (hg4 : allWs g4) (hg5 : allWs g5)
    (hg6 : allWs g6) (hk : isName k) (ha : isDigits a) (hbd : isDigits b') : (ternCode g1 k g3 g4 a g5 g6 b' g2).OK := by
  refine ⟨?_, ?_, ?_⟩
  · intro tl
    exact Or.inr (Or.inl ⟨g1 ++ k ++ g3 ++ [63] ++ g4 ++ a ++ g5 ++ [58] ++ g6 ++ b' ++ g2 ++ [125, 125] ++ tl,
      by simp [ternCode, ternSrc, List.append_assoc]⟩)
  · have la : 0 < a.length := List.length_pos_iff.mpr ha.1
    have lb : 0 < b'.length := List.length_pos_iff.mpr hbd.1
    obtain ⟨⟨c, cv, hcv, _⟩, _, _⟩ := hk
    simp [ternCode, ternSrc, ternKeys, hcv]; omega
  · intro s tl hr hh hb hpa hdi _
    obtain ⟨toks, s7, run, hkeys, r7, pv7, m7⟩ := lex_tern s g1 k g3 g4 a g5 g6 b' g2 tl hh hb hg1 hg2 hg3 hg4 hg5 hg6 hk ha hbd hr
    obtain ⟨f1, f2, f3, f4, f5⟩ := mode_fields m7
    exact ⟨toks, s7, run, hkeys, r7, f1, f4, by rw [f3]; exact hpa, by rw [f2]; exact hdi, f5, by rw [pv7]; decide⟩

/-- `k ? a : b` -/
theorem parse_tern_expr (k : Nat) (t2 t3 t4 t5 t6 t7 : Token) (tail : List Token) (va vb : Int64)
    (h2 : t2.ty = .IDENT) (h3 : t3.ty = .QUESTION) (h4 : t4.ty = .INT) (h5 : t5.ty = .COLON) (h6 : t6.ty = .INT) (h7 : t7.ty = .RBRACES)
    (hva : parseInt64 t4.lit = some va) (hvb : parseInt64 t6.lit = some vb) (hclean : ∀ x ∈ tail, x.ty ≠ .ILLEGAL) :
    parseExpression (k + 4) LOWEST ({ toks := t2 :: t3 :: t4 :: t5 :: t6 :: t7 :: tail } : PS) =
      (.tern t3 (.ident t2 t2.lit) (.int t4 va) (.int t6 vb), { toks := t6 :: t7 :: tail }) := by
  have c7 := noill_cons (t := t7) (by rw [h7]; decide) hclean
  have c6 := noill_cons (t := t6) (by rw [h6]; decide) c7
  have c5 := noill_cons (t := t5) (by rw [h5]; decide) c6
  have c4 := noill_cons (t := t4) (by rw [h4]; decide) c5
  have c3 := noill_cons (t := t3) (by rw [h3]; decide) c4
  have nx2 : ({ toks := t2 :: t3 :: t4 :: t5 :: t6 :: t7 :: tail } : PS).next = { toks := t3 :: t4 :: t5 :: t6 :: t7 :: tail } := ps_next_clean t2 t3 _ c3
  have nx3 : ({ toks := t3 :: t4 :: t5 :: t6 :: t7 :: tail } : PS).next = { toks := t4 :: t5 :: t6 :: t7 :: tail } := ps_next_clean t3 t4 _ c4
  have nx4 : ({ toks := t4 :: t5 :: t6 :: t7 :: tail } : PS).next = { toks := t5 :: t6 :: t7 :: tail } := ps_next_clean t4 t5 _ c5
  have nx5 : ({ toks := t5 :: t6 :: t7 :: tail } : PS).next = { toks := t6 :: t7 :: tail } := ps_next_clean t5 t6 _ c6
  have ha : parseExpression (k + 2) TERNARY ({ toks := t4 :: t5 :: t6 :: t7 :: tail } : PS) = (.int t4 va, { toks := t4 :: t5 :: t6 :: t7 :: tail }) :=
    parse_int_operand k TERNARY t4 t5 (t6 :: t7 :: tail) va h4 hva (Or.inr (by rw [h5]; decide))
  have hb : parseExpression (k + 2) LOWEST ({ toks := t6 :: t7 :: tail } : PS) = (.int t6 vb, { toks := t6 :: t7 :: tail }) :=
    parse_int_operand k LOWEST t6 t7 tail vb h6 hvb (Or.inl h7)
  rw [parseExpression_succ]
  have hp : prefixBody (parseExpression (k + 3)) (parseExprList (k + 3)) (parseObjLoop (k + 3))
      ({ toks := t2 :: t3 :: t4 :: t5 :: t6 :: t7 :: tail } : PS) = some (.ident t2 t2.lit, { toks := t2 :: t3 :: t4 :: t5 :: t6 :: t7 :: tail }) := by
    unfold prefixBody
    simp [PS.cur, h2]
  rw [hp]
  simp only []
  rw [prattLoop_succ]
  have e1 : ({ toks := t2 :: t3 :: t4 :: t5 :: t6 :: t7 :: tail } : PS).peekIs .RBRACES = false := by simp [PS.peekIs, PS.peek, h3]
  have e2 : ({ toks := t2 :: t3 :: t4 :: t5 :: t6 :: t7 :: tail } : PS).peekIs .SEMI = false := by simp [PS.peekIs, PS.peek, h3]
  have e3 : ({ toks := t2 :: t3 :: t4 :: t5 :: t6 :: t7 :: tail } : PS).peekIs .RPAREN = false := by simp [PS.peekIs, PS.peek, h3]
  have e4 : ({ toks := t2 :: t3 :: t4 :: t5 :: t6 :: t7 :: tail } : PS).peekPrecedence = TERNARY := by simp [PS.peekPrecedence, PS.peek, h3, precedence]
  have e5 : ({ toks := t2 :: t3 :: t4 :: t5 :: t6 :: t7 :: tail } : PS).peek.ty = .QUESTION := by simp [PS.peek, h3]
  simp only [e1, e2, e3, e4, e5, Bool.or_self, show (!decide (LOWEST < TERNARY)) = false from by decide,
    Bool.false_eq_true, if_false, show (!hasInfix .QUESTION) = false from by decide, nx2]
  have hinf : infixBody (parseExpression (k + 2)) (parseExprList (k + 2)) (.ident t2 t2.lit) ({ toks := t3 :: t4 :: t5 :: t6 :: t7 :: tail } : PS) =
      (.tern t3 (.ident t2 t2.lit) (.int t4 va) (.int t6 vb), { toks := t6 :: t7 :: tail }) := by
    unfold infixBody
    have c0 : ({ toks := t3 :: t4 :: t5 :: t6 :: t7 :: tail } : PS).cur = t3 := rfl
    have ep := expectPeek_ok ({ toks := t4 :: t5 :: t6 :: t7 :: tail } : PS) .COLON (by simp [PS.peekIs, PS.peek, h5])
    simp only [c0, h3, show isBinaryOp .QUESTION = false from by decide, Bool.false_eq_true, if_false,
      show (TT.QUESTION == TT.QUESTION) = true from by decide, if_true, nx3, ha, ep, nx4, nx5, hb, Bool.not_true]
  rw [hinf]
  simp only []
  exact prattLoop_stop_rbraces (k + 1) LOWEST _ t6 t7 tail h7

/-- `{{ expr }}` as a statement whose expression starts with a name that is not assigned to -/
theorem parse_expr_stmt_ident (g : Nat) (t1 t2 t3 tl t7 : Token) (mid tail : List Token) (e : Expr) (h1 : t1.ty = .LBRACES)
    (h2 : t2.ty = .IDENT) (h3 : t3.ty ≠ .ASSIGN)
    (h7 : t7.ty = .RBRACES) (hclean : ∀ x ∈ t2 :: t3 :: mid, x.ty ≠ .ILLEGAL) (hclean2 : ∀ x ∈ tl :: t7 :: tail, x.ty ≠ .ILLEGAL)
    (hex : parseExpression g LOWEST ({ toks := t2 :: t3 :: mid } : PS) = (e, { toks := tl :: t7 :: tail })) :
    parseStatement (g + 1) ({ toks := t1 :: t2 :: t3 :: mid } : PS) = (.expr tl e, { toks := t7 :: tail }) := by
  have nx1 : ({ toks := t1 :: t2 :: t3 :: mid } : PS).next = { toks := t2 :: t3 :: mid } := ps_next_clean t1 t2 _ hclean
  have nx7 : ({ toks := tl :: t7 :: tail } : PS).next = { toks := t7 :: tail } :=
    ps_next_clean tl t7 _ (fun x hx => hclean2 x (List.mem_cons_of_mem _ hx))
  show statementBody (parseExpression g) (parseExprList g) (parseBody g) (parseIfTail g) (parseSlots g) ({ toks := t1 :: t2 :: t3 :: mid } : PS) = _
  have hc : ({ toks := t1 :: t2 :: t3 :: mid } : PS).cur.ty = .LBRACES := by simp [PS.cur, h1]
  unfold statementBody
  simp only [hc]
  unfold parseEmbeddedCode
  simp only [nx1]
  have c1 : ({ toks := t2 :: t3 :: mid } : PS).curIs .RBRACES = false := by simp [PS.curIs, PS.cur, h2]
  have c2' : ({ toks := t2 :: t3 :: mid } : PS).peekIs .ASSIGN = false := by simp [PS.peekIs, PS.peek, h3]
  have c3' : ({ toks := tl :: t7 :: tail } : PS).peekIs .RBRACES = true := by simp [PS.peekIs, PS.peek, h7]
  simp only [c1, c2', Bool.and_false, Bool.false_eq_true, if_false, hex, c3', if_true, nx7]
  simp [PS.cur]

/-- **`{{ k ? a : b }}`, parsed** -/
theorem parse_tern_source (g1 k g3 g4 a g5 g6 b' g2 : Bytes) (hg1 : allWs g1) (hg2 : allWs g2) (hg3 : allWs g3) (hg4 : allWs g4) (hg5 : allWs g5)
    (hg6 : allWs g6) (hk : isName k) (ha : isDigits a) (hbd : isDigits b')
    (hba : digitsToNat a ≤ 9223372036854775807) (hbb : digitsToNat b' ≤ 9223372036854775807) :
    ∃ prog t2 t3 t4 t6, parseSource (ternSrc g1 k g3 g4 a g5 g6 b' g2) = .ok prog ∧
      prog.stmts = [.expr t6 (.tern t3 (.ident t2 k) (.int t4 (Int64.ofNat (digitsToNat a))) (.int t6 (Int64.ofNat (digitsToNat b'))))] := by
  have hok : GItemsOK [.code (ternCode g1 k g3 g4 a g5 g6 b' g2)] := ⟨ternCode_ok g1 k g3 g4 a g5 g6 b' g2 hg1 hg2 hg3 hg4 hg5 hg6 hk ha hbd, trivial⟩
  obtain ⟨toks, e, htok, hkeys, he⟩ := tokenize_gitems _ hok
  have hsrc : gsrc [.code (ternCode g1 k g3 g4 a g5 g6 b' g2)] = ternSrc g1 k g3 g4 a g5 g6 b' g2 := by simp [gsrc, GItem.src, ternCode]
  rw [hsrc] at htok
  have hk' : toks.map key = ternKeys k a b' := by simpa [gkeys, ternCode] using hkeys
  match toks, hk' with
  | [], hk' => simp [ternKeys] at hk'
  | [_], hk' => simp [ternKeys] at hk'
  | [_, _], hk' => simp [ternKeys] at hk'
  | [_, _, _], hk' => simp [ternKeys] at hk'
  | [_, _, _, _], hk' => simp [ternKeys] at hk'
  | [_, _, _, _, _], hk' => simp [ternKeys] at hk'
  | [_, _, _, _, _, _], hk' => simp [ternKeys] at hk'
  | _ :: _ :: _ :: _ :: _ :: _ :: _ :: _ :: _, hk' => simp [ternKeys] at hk'
  | [t1, t2, t3, t4, t5, t6, t7], hk' =>
    simp only [ternKeys, List.map_cons, List.map_nil, List.cons.injEq, and_true] at hk'
    obtain ⟨hk1, hk2, hk3, hk4, hk5, hk6, hk7⟩ := hk'
    have ty1 : t1.ty = .LBRACES := congrArg Prod.fst hk1
    have ty2 : t2.ty = .IDENT := congrArg Prod.fst hk2
    have lit2 : t2.lit = k := congrArg Prod.snd hk2
    have ty3 : t3.ty = .QUESTION := congrArg Prod.fst hk3
    have ty4 : t4.ty = .INT := congrArg Prod.fst hk4
    have lit4 : t4.lit = a := congrArg Prod.snd hk4
    have ty5 : t5.ty = .COLON := congrArg Prod.fst hk5
    have ty6 : t6.ty = .INT := congrArg Prod.fst hk6
    have lit6 : t6.lit = b' := congrArg Prod.snd hk6
    have ty7 : t7.ty = .RBRACES := congrArg Prod.fst hk7
    have hce : ∀ x ∈ [e], x.ty ≠ .ILLEGAL := by intro x hx; simp at hx; rw [hx, he]; decide
    have c7 := noill_cons (t := t7) (by rw [ty7]; decide) hce
    have c6 := noill_cons (t := t6) (by rw [ty6]; decide) c7
    have c5 := noill_cons (t := t5) (by rw [ty5]; decide) c6
    have c4 := noill_cons (t := t4) (by rw [ty4]; decide) c5
    have c3 := noill_cons (t := t3) (by rw [ty3]; decide) c4
    have c2' := noill_cons (t := t2) (by rw [ty2]; decide) c3
    have hcl : ∀ x ∈ [t1, t2, t3, t4, t5, t6, t7] ++ [e], x.ty ≠ .ILLEGAL := noill_cons (by rw [ty1]; decide) c2'
    refine ⟨{ tok := t1, stmts := [.expr t6 (.tern t3 (.ident t2 k) (.int t4 (Int64.ofNat (digitsToNat a))) (.int t6 (Int64.ofNat (digitsToNat b'))))] },
      t2, t3, t4, t6, ?_, rfl⟩
    unfold parseSource
    rw [htok]
    simp only [Bool.false_eq_true, if_false]
    rw [initParser_clean _ hcl]
    have hfuel : parseFuel ([t1, t2, t3, t4, t5, t6, t7] ++ [e]) = 42 + 6 := by simp [parseFuel]
    rw [hfuel]
    have hex := parse_tern_expr 42 t2 t3 t4 t5 t6 t7 [e] _ _ ty2 ty3 ty4 ty5 ty6 ty7
      (by rw [lit4]; exact parseInt64_digits a ha hba) (by rw [lit6]; exact parseInt64_digits b' hbd hbb) hce
    have hst := parse_expr_stmt_ident 46 t1 t2 t3 t6 t7 [t4, t5, t6, t7, e] [e] _ ty1 ty2 (by rw [ty3]; decide) ty7 c2' c6 hex
    have hloop : parseProgramLoop (42 + 6) [] ({ toks := [t1, t2, t3, t4, t5, t6, t7] ++ [e] } : PS) =
        (some [.expr t6 (.tern t3 (.ident t2 t2.lit) (.int t4 (Int64.ofNat (digitsToNat a))) (.int t6 (Int64.ofNat (digitsToNat b'))))], { toks := [e] }) := by
      rw [show 42 + 6 = 47 + 1 from rfl, parseProgramLoop]
      have c0 : ({ toks := [t1, t2, t3, t4, t5, t6, t7] ++ [e] } : PS).curIs .EOF = false := by simp [PS.curIs, PS.cur, ty1]
      simp only [c0, Bool.false_eq_true, if_false]
      simp only [List.cons_append, List.nil_append] at hst ⊢
      rw [show 47 = 46 + 1 from rfl, hst]
      have i5 : ({ toks := [t7, e] } : PS).curIs .ILLEGAL = false := by simp [PS.curIs, PS.cur, ty7]
      simp only [i5, Bool.false_eq_true, if_false, Stmt.isBad]
      have nx : ({ toks := [t7, e] } : PS).next = { toks := [e] } := ps_next_clean t7 e [] hce
      rw [nx, parseProgramLoop]
      have ce : ({ toks := [e] } : PS).curIs .EOF = true := by simp [PS.curIs, PS.cur, he]
      simp [ce]
    rw [hloop]
    simp [finishParse, PS.cur, lit2]

end Tw
