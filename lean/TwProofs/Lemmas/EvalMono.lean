/-
  TwProofs.Lemmas.EvalMono — fuel monotonicity of the evaluator: a result that is not
  "out of fuel" is the same for every larger fuel.
-/
import TwModel

namespace Tw

/-- `r'` (computed with more fuel) agrees with `r` unless `r` ran out of fuel -/
def Stable {α} (r r' : Res α) : Prop := r = .oof ∨ r' = r

theorem Stable.rfl' {α} (r : Res α) : Stable r r := Or.inr rfl

/-! one-step unfoldings (the fuel of the recursive calls is a variable, so they stay folded) -/

theorem evalExpr_arr (f : Nat) (c : Ctx) (env : Env) (t : Token) (elems : List Expr) :
    evalExpr (f + 1) c env (.arr t elems) =
      match evalExprs f c env elems with
      | .ok vs => .ok (.arr vs) | .err a l as => .err a l as | .panic w => .panic w | .oof => .oof := by
  simp only [evalExpr]
  try rfl

theorem evalExpr_obj (f : Nat) (c : Ctx) (env : Env) (t : Token) (pairs : List (Bytes × Expr)) :
    evalExpr (f + 1) c env (.obj t pairs) =
      match evalPairs f c env (sortByKey pairs) with
      | .ok kvs => .ok (.obj kvs) | .err a l as => .err a l as | .panic w => .panic w | .oof => .oof := by
  simp only [evalExpr]
  try rfl

theorem evalExpr_pre (f : Nat) (c : Ctx) (env : Env) (t : Token) (op : Bytes) (r : Expr) :
    evalExpr (f + 1) c env (.pre t op r) =
      match evalExpr f c env r with | .ok v => prefixOp op v t.errorLine | other => other := by
  simp only [evalExpr]
  try rfl

theorem evalExpr_post (f : Nat) (c : Ctx) (env : Env) (t : Token) (op : Bytes) (l : Expr) :
    evalExpr (f + 1) c env (.post t op l) =
      match evalExpr f c env l with | .ok v => postfixOp op v t.errorLine | other => other := by
  simp only [evalExpr]
  try rfl

theorem evalExpr_dot (f : Nat) (c : Ctx) (env : Env) (t : Token) (l : Expr) (key : Bytes) :
    evalExpr (f + 1) c env (.dot t l key) =
      match evalExpr f c env l with
      | .ok (.obj kvs) => objIndex kvs key t.errorLine
      | .ok lv => .err "ErrDotOperatorNotSupported" t.errorLine [lv.typeName]
      | other => other := by
  simp only [evalExpr]
  try rfl

theorem evalExpr_tern (f : Nat) (c : Ctx) (env : Env) (t : Token) (cnd a bb : Expr) :
    evalExpr (f + 1) c env (.tern t cnd a bb) =
      match evalExpr f c env cnd with
      | .ok v => if isTruthy v then evalExpr f c env a else evalExpr f c env bb
      | other => other := by
  simp only [evalExpr]
  try rfl

theorem evalExpr_inf (f : Nat) (c : Ctx) (env : Env) (t : Token) (op : Bytes) (l r : Expr) :
    evalExpr (f + 1) c env (.inf t op l r) =
      match evalExpr f c env l with
      | .ok lv => (match evalExpr f c env r with | .ok rv => infixOp op lv rv l.line | other => other)
      | other => other := by
  simp only [evalExpr]
  try rfl

theorem evalExpr_index (f : Nat) (c : Ctx) (env : Env) (t : Token) (l i : Expr) :
    evalExpr (f + 1) c env (.index t l i) =
      match evalExpr f c env l with
      | .ok lv =>
        (match evalExpr f c env i with
        | .ok iv =>
          (match lv, iv with
          | .arr xs, .int n => .ok (arrIndex xs n)
          | .obj kvs, .str k => objIndex kvs k i.line
          | _, _ => .err "ErrIndexNotSupported" t.errorLine [lv.typeName])
        | other => other)
      | other => other := by
  simp only [evalExpr]
  try rfl

theorem evalExpr_call (f : Nat) (c : Ctx) (env : Env) (t : Token) (recv : Expr) (fn : Bytes) (args : List Expr) :
    evalExpr (f + 1) c env (.call t recv fn args) =
      match evalExpr f c env recv with
      | .ok rv =>
        if !hasBuiltinTable rv.type then .err "ErrNoFuncForThisType" t.errorLine [fn, rv.typeName]
        else
          (match evalExprs f c env args with
          | .ok avs =>
            (match callBuiltin rv fn avs with
            | some (.ok v) => .ok v
            | some (.error (code, eargs)) => .err code t.errorLine eargs
            | none =>
              (match lookupCustom c rv.type fn with
              | some fid => .ok (callCustom fid rv avs)
              | none => .err "ErrNoFuncForThisType" t.errorLine [fn, rv.typeName]))
          | .err a l as => .err a l as
          | .panic w => .panic w
          | .oof => .oof)
      | other => other := by
  simp only [evalExpr]
  try rfl

theorem evalExprs_cons (f : Nat) (c : Ctx) (env : Env) (e : Expr) (r : List Expr) :
    evalExprs (f + 1) c env (e :: r) =
      match evalExpr f c env e with
      | .ok v => (match evalExprs f c env r with | .ok vs => .ok (v :: vs) | other => other)
      | .err a l as => .err a l as | .panic w => .panic w | .oof => .oof := by
  simp only [evalExprs]
  try rfl

theorem evalPairs_cons (f : Nat) (c : Ctx) (env : Env) (k : Bytes) (e : Expr) (r : List (Bytes × Expr)) :
    evalPairs (f + 1) c env ((k, e) :: r) =
      match evalExpr f c env e with
      | .ok v => (match evalPairs f c env r with | .ok kvs => .ok ((k, v) :: kvs) | other => other)
      | .err a l as => .err a l as | .panic w => .panic w | .oof => .oof := by
  simp only [evalPairs]
  try rfl

theorem monoExpr : ∀ fuel : Nat,
    (∀ c env e, Stable (evalExpr fuel c env e) (evalExpr (fuel + 1) c env e)) ∧
    (∀ c env es, Stable (evalExprs fuel c env es) (evalExprs (fuel + 1) c env es)) ∧
    (∀ c env ps, Stable (evalPairs fuel c env ps) (evalPairs (fuel + 1) c env ps)) := by
  intro fuel
  induction fuel with
  | zero => exact ⟨fun _ _ _ => Or.inl rfl, fun _ _ _ => Or.inl rfl, fun _ _ _ => Or.inl rfl⟩
  | succ n ih =>
    obtain ⟨ihE, ihL, ihP⟩ := ih
    refine ⟨?_, ?_, ?_⟩
    · intro c env e
      cases e with
      | bad => right; simp [evalExpr]
      | ident t name => right; simp [evalExpr]
      | int t v => right; simp [evalExpr]
      | float t v => right; simp [evalExpr]
      | str t v => right; simp [evalExpr]
      | nil t => right; simp [evalExpr]
      | bool t v => right; simp [evalExpr]
      | arr t elems =>
        rw [evalExpr_arr, evalExpr_arr]
        rcases ihL c env elems with h | h
        · left; simp [h]
        · right; rw [h]
      | obj t pairs =>
        rw [evalExpr_obj, evalExpr_obj]
        rcases ihP c env (sortByKey pairs) with h | h
        · left; simp [h]
        · right; rw [h]
      | pre t op r =>
        rw [evalExpr_pre, evalExpr_pre]
        rcases ihE c env r with h | h
        · left; simp [h]
        · right; rw [h]
      | post t op l =>
        rw [evalExpr_post, evalExpr_post]
        rcases ihE c env l with h | h
        · left; simp [h]
        · right; rw [h]
      | dot t l key =>
        rw [evalExpr_dot, evalExpr_dot]
        rcases ihE c env l with h | h
        · left; simp [h]
        · right; rw [h]
      | tern t cnd a bb =>
        rw [evalExpr_tern, evalExpr_tern]
        rcases ihE c env cnd with h | h
        · left; simp [h]
        · rw [h]
          cases hc : evalExpr n c env cnd with
          | ok v =>
            simp only []
            split
            · exact ihE c env a
            · exact ihE c env bb
          | err a l as => right; rfl
          | panic w => right; rfl
          | oof => left; rfl
      | inf t op l r =>
        rw [evalExpr_inf, evalExpr_inf]
        rcases ihE c env l with h | h
        · left; simp [h]
        · rw [h]
          cases hl : evalExpr n c env l with
          | ok lv =>
            simp only []
            rcases ihE c env r with h2 | h2
            · left; simp [h2]
            · right; rw [h2]
          | err a l as => right; rfl
          | panic w => right; rfl
          | oof => left; rfl
      | index t l i =>
        rw [evalExpr_index, evalExpr_index]
        rcases ihE c env l with h | h
        · left; simp [h]
        · rw [h]
          cases hl : evalExpr n c env l with
          | ok lv =>
            simp only []
            rcases ihE c env i with h2 | h2
            · left; simp [h2]
            · right; rw [h2]
          | err a l as => right; rfl
          | panic w => right; rfl
          | oof => left; rfl
      | call t recv fn args =>
        rw [evalExpr_call, evalExpr_call]
        rcases ihE c env recv with h | h
        · left; simp [h]
        · rw [h]
          cases hl : evalExpr n c env recv with
          | ok rv =>
            simp only []
            split
            · right; rfl
            · rcases ihL c env args with h2 | h2
              · left; simp [h2]
              · right; rw [h2]
          | err a l as => right; rfl
          | panic w => right; rfl
          | oof => left; rfl
    · intro c env es
      cases es with
      | nil => right; simp [evalExprs]
      | cons e r =>
        rw [evalExprs_cons, evalExprs_cons]
        rcases ihE c env e with h | h
        · left; simp [h]
        · rw [h]
          cases he : evalExpr n c env e with
          | ok v =>
            simp only []
            rcases ihL c env r with h2 | h2
            · left; simp [h2]
            · right; rw [h2]
          | err a l as => right; rfl
          | panic w => right; rfl
          | oof => left; rfl
    · intro c env ps
      cases ps with
      | nil => right; simp [evalPairs]
      | cons p r =>
        obtain ⟨k, e⟩ := p
        rw [evalPairs_cons, evalPairs_cons]
        rcases ihE c env e with h | h
        · left; simp [h]
        · rw [h]
          cases he : evalExpr n c env e with
          | ok v =>
            simp only []
            rcases ihP c env r with h2 | h2
            · left; simp [h2]
            · right; rw [h2]
          | err a l as => right; rfl
          | panic w => right; rfl
          | oof => left; rfl

/-- expressions: more fuel never changes a result that was not "out of fuel" -/
theorem evalExpr_mono (fuel k : Nat) (c : Ctx) (env : Env) (e : Expr) (h : evalExpr fuel c env e ≠ .oof) :
    evalExpr (fuel + k) c env e = evalExpr fuel c env e := by
  induction k with
  | zero => rfl
  | succ k ih =>
    rcases (monoExpr (fuel + k)).1 c env e with h2 | h2
    · rw [ih] at h2; exact absurd h2 h
    · rw [show fuel + (k + 1) = fuel + k + 1 from rfl, h2, ih]

end Tw

namespace Tw

theorem Stable.bind {α β} {r r' : Res α} {f f' : α → Res β} (h : Stable r r') (hf : ∀ a, Stable (f a) (f' a)) :
    Stable (r.bind f) (r'.bind f') := by
  rcases h with h | h
  · left; rw [h]; rfl
  · rw [h]
    cases r with
    | ok a => exact hf a
    | err e l as => right; rfl
    | panic w => right; rfl
    | oof => left; rfl

theorem Stable.ok {α} (a : α) : Stable (Res.ok a) (Res.ok a) := Or.inr rfl

/-- every function of `k'` agrees with the one of `k` wherever that one did not run out of fuel -/
structure KStable (k k' : Callees) : Prop where
  expr : ∀ c env e, Stable (k.expr c env e) (k'.expr c env e)
  exprs : ∀ c env es, Stable (k.exprs c env es) (k'.exprs c env es)
  pairs : ∀ c env ps, Stable (k.pairs c env ps) (k'.pairs c env ps)
  stmt : ∀ c env s, Stable (k.stmt c env s) (k'.stmt c env s)
  elseIfs : ∀ c env a b, Stable (k.elseIfs c env a b) (k'.elseIfs c env a b)
  block : ∀ c env ss, Stable (k.block c env ss) (k'.block c env ss)
  prog : ∀ c env ss acc, Stable (k.prog c env ss acc) (k'.prog c env ss acc)
  forL : ∀ c env t i cn p b acc, Stable (k.forL c env t i cn p b acc) (k'.forL c env t i cn p b acc)
  eachL : ∀ c env t v b xs i n acc, Stable (k.eachL c env t v b xs i n acc) (k'.eachL c env t v b xs i n acc)

theorem condTruth_stable {r r' : Res Val} (h : Stable r r') : Stable (condTruth r) (condTruth r') :=
  Stable.bind h fun _ => Or.inr rfl

theorem stmtBody_stable {k k' : Callees} (h : KStable k k') (c : Ctx) (env : Env) (s : Stmt) :
    Stable (stmtBody k c env s) (stmtBody k' c env s) := by
  cases s with
  | bad => right; rfl
  | html t => right; rfl
  | expr t e => exact Stable.bind (h.expr _ _ _) fun _ => Or.inr rfl
  | assign t name e => exact Stable.bind (h.expr _ _ _) fun _ => Or.inr rfl
  | ifS t cnd cons alts alt =>
    refine Stable.bind (h.expr _ _ _) fun v => ?_
    try dsimp only
    split
    · exact Stable.bind (h.block _ _ _) fun _ => Or.inr rfl
    · exact h.elseIfs _ _ _ _
  | forS t init cnd post body alt =>
    simp only [stmtBody]
    refine Stable.bind ?_ fun env1 => Stable.bind ?_ fun entry => ?_
    · cases init with
      | none => right; rfl
      | some i => exact Stable.bind (h.stmt _ _ _) fun _ => Or.inr rfl
    · cases cnd with
      | none => right; rfl
      | some ce => exact condTruth_stable (h.expr _ _ _)
    · split
      · exact Stable.bind (h.forL _ _ _ _ _ _ _ _) fun _ => Or.inr rfl
      · cases alt with
        | none => right; rfl
        | some ab => exact Stable.bind (h.block _ _ _) fun _ => Or.inr rfl
  | eachS t var arrE body alt =>
    simp only [stmtBody]
    refine Stable.bind (h.expr _ _ _) fun av => ?_
    cases av with
    | arr xs =>
      try dsimp only
      split
      · cases alt with
        | none => right; rfl
        | some ab => exact Stable.bind (h.block _ _ _) fun _ => Or.inr rfl
      · exact Stable.bind (h.eachL _ _ _ _ _ _ _ _ _) fun _ => Or.inr rfl
    | _ => right; rfl
  | use t name =>
    simp only [stmtBody]
    cases c.layout with
    | none => right; rfl
    | some prog =>
      try dsimp only
      split
      · right; rfl
      · exact Stable.bind (h.prog _ _ _ _) fun _ => Or.inr rfl
  | reserve t name rid =>
    simp only [stmtBody]
    cases lookupNat c.inserts rid with
    | none => right; rfl
    | some ins =>
      try dsimp only
      cases ins.block with
      | some blk => exact Stable.bind (h.block _ _ _) fun _ => Or.inr rfl
      | none =>
        try dsimp only
        cases ins.arg with
        | none => right; rfl
        | some ae => exact Stable.bind (h.expr _ _ _) fun _ => Or.inr rfl
  | insert t name arg block => right; rfl
  | breakIf t cnd => exact Stable.bind (h.expr _ _ _) fun _ => Or.inr rfl
  | continueIf t cnd => exact Stable.bind (h.expr _ _ _) fun _ => Or.inr rfl
  | component t name arg cid =>
    simp only [stmtBody]
    cases lookupNat c.comps cid with
    | none => right; rfl
    | some prog =>
      try dsimp only
      refine Stable.bind ?_ fun kvs => Stable.bind (Or.inr rfl) fun env1 => Stable.bind (h.prog _ _ _ _) fun _ => Or.inr rfl
      cases arg with
      | none => right; rfl
      | some pairs => exact h.pairs _ _ _
  | slot t name body =>
    simp only [stmtBody]
    cases body with
    | none => right; rfl
    | some blk => exact Stable.bind (h.block _ _ _) fun _ => Or.inr rfl
  | dump t args =>
    simp only [stmtBody]
    rcases h.exprs c env args with h1 | h1
    · left; rw [h1]
    · right; rw [h1]
  | brk t => right; rfl
  | cont t => right; rfl

theorem elseIfsBody_stable {k k' : Callees} (h : KStable k k') (c : Ctx) (env : Env) (alts : List (Expr × List Stmt))
    (alt : Option (List Stmt)) : Stable (elseIfsBody k c env alts alt) (elseIfsBody k' c env alts alt) := by
  cases alts with
  | nil =>
    cases alt with
    | none => right; rfl
    | some ab => exact Stable.bind (h.block _ _ _) fun _ => Or.inr rfl
  | cons p rest =>
    obtain ⟨ce, body⟩ := p
    refine Stable.bind (h.expr _ _ _) fun v => ?_
    try dsimp only
    split
    · exact Stable.bind (h.block _ _ _) fun _ => Or.inr rfl
    · exact h.elseIfs _ _ _ _

theorem blockBody_stable {k k' : Callees} (h : KStable k k') (c : Ctx) (env : Env) (ss : List Stmt) :
    Stable (blockBody k c env ss) (blockBody k' c env ss) := by
  cases ss with
  | nil => right; rfl
  | cons s r =>
    refine Stable.bind (h.stmt _ _ _) fun r1 => ?_
    try dsimp only
    split
    · right; rfl
    · exact Stable.bind (h.block _ _ _) fun _ => Or.inr rfl

theorem progBody_stable {k k' : Callees} (h : KStable k k') (c : Ctx) (env : Env) (ss : List Stmt) (acc : Bytes) :
    Stable (progBody k c env ss acc) (progBody k' c env ss acc) := by
  cases ss with
  | nil => right; rfl
  | cons s r => exact Stable.bind (h.stmt _ _ _) fun _ => h.prog _ _ _ _

theorem forBody_stable {k k' : Callees} (h : KStable k k') (c : Ctx) (env : Env) (t : Token) (init : Option Stmt)
    (cnd : Option Expr) (post : Option Stmt) (body : List Stmt) (acc : Bytes) :
    Stable (forBody k c env t init cnd post body acc) (forBody k' c env t init cnd post body acc) := by
  simp only [forBody]
  refine Stable.bind ?_ fun go => ?_
  · cases cnd with
    | none => right; rfl
    | some ce => exact condTruth_stable (h.expr _ _ _)
  · split
    · right; rfl
    · refine Stable.bind (h.block _ _ _) fun r => ?_
      try dsimp only
      split
      · right; rfl
      · cases post with
        | none => exact h.forL _ _ _ _ _ _ _ _
        | some ps =>
          cases ps with
          | expr t2 pe =>
            refine Stable.bind (h.expr _ _ _) fun pv => ?_
            cases init with
            | none => exact h.forL _ _ _ _ _ _ _ _
            | some i =>
              cases i with
              | assign t3 name e3 => exact Stable.bind (Or.inr rfl) fun _ => h.forL _ _ _ _ _ _ _ _
              | _ => exact h.forL _ _ _ _ _ _ _ _
          | _ => exact Stable.bind (h.stmt _ _ _) fun _ => h.forL _ _ _ _ _ _ _ _

theorem eachBody_stable {k k' : Callees} (h : KStable k k') (c : Ctx) (env : Env) (t : Token) (var : Bytes)
    (body : List Stmt) (xs : List Val) (i n : Nat) (acc : Bytes) :
    Stable (eachBody k c env t var body xs i n acc) (eachBody k' c env t var body xs i n acc) := by
  cases xs with
  | nil => right; rfl
  | cons x rest =>
    refine Stable.bind (Or.inr rfl) fun env1 => Stable.bind (h.block _ _ _) fun r => ?_
    try dsimp only
    split
    · right; rfl
    · exact h.eachL _ _ _ _ _ _ _ _ _

/-- the functions at fuel `n + 1` agree with those at fuel `n` wherever those did not run out -/
theorem calleesAt_stable : ∀ n : Nat, KStable (calleesAt n) (calleesAt (n + 1)) := by
  intro n
  induction n with
  | zero =>
    obtain ⟨e1, e2, e3⟩ := monoExpr 0
    exact ⟨e1, e2, e3, fun _ _ _ => Or.inl rfl, fun _ _ _ _ => Or.inl rfl, fun _ _ _ => Or.inl rfl,
      fun _ _ _ _ => Or.inl rfl, fun _ _ _ _ _ _ _ _ => Or.inl rfl, fun _ _ _ _ _ _ _ _ _ => Or.inl rfl⟩
  | succ n ih =>
    obtain ⟨e1, e2, e3⟩ := monoExpr (n + 1)
    exact ⟨e1, e2, e3,
      fun c env s => stmtBody_stable ih c env s,
      fun c env a b => elseIfsBody_stable ih c env a b,
      fun c env ss => blockBody_stable ih c env ss,
      fun c env ss acc => progBody_stable ih c env ss acc,
      fun c env t i cn p b acc => forBody_stable ih c env t i cn p b acc,
      fun c env t v b xs i n acc => eachBody_stable ih c env t v b xs i n acc⟩

/-- statements, blocks, programs: more fuel never changes a result that was not "out of fuel" -/
theorem evalProg_mono (fuel k : Nat) (c : Ctx) (env : Env) (ss : List Stmt) (acc : Bytes)
    (h : evalProg fuel c env ss acc ≠ .oof) : evalProg (fuel + k) c env ss acc = evalProg fuel c env ss acc := by
  induction k with
  | zero => rfl
  | succ k ih =>
    rcases (calleesAt_stable (fuel + k)).prog c env ss acc with h2 | h2
    · rw [show (calleesAt (fuel + k)).prog = evalProg (fuel + k) from rfl, ih] at h2; exact absurd h2 h
    · rw [show (calleesAt (fuel + k + 1)).prog = evalProg (fuel + k + 1) from rfl,
        show (calleesAt (fuel + k)).prog = evalProg (fuel + k) from rfl] at h2
      rw [show fuel + (k + 1) = fuel + k + 1 from rfl, h2, ih]

theorem evalBlock_mono (fuel k : Nat) (c : Ctx) (env : Env) (ss : List Stmt)
    (h : evalBlock fuel c env ss ≠ .oof) : evalBlock (fuel + k) c env ss = evalBlock fuel c env ss := by
  induction k with
  | zero => rfl
  | succ k ih =>
    rcases (calleesAt_stable (fuel + k)).block c env ss with h2 | h2
    · rw [show (calleesAt (fuel + k)).block = evalBlock (fuel + k) from rfl, ih] at h2; exact absurd h2 h
    · rw [show (calleesAt (fuel + k + 1)).block = evalBlock (fuel + k + 1) from rfl,
        show (calleesAt (fuel + k)).block = evalBlock (fuel + k) from rfl] at h2
      rw [show fuel + (k + 1) = fuel + k + 1 from rfl, h2, ih]

theorem evalStmt_mono (fuel k : Nat) (c : Ctx) (env : Env) (s : Stmt)
    (h : evalStmt fuel c env s ≠ .oof) : evalStmt (fuel + k) c env s = evalStmt fuel c env s := by
  induction k with
  | zero => rfl
  | succ k ih =>
    rcases (calleesAt_stable (fuel + k)).stmt c env s with h2 | h2
    · rw [show (calleesAt (fuel + k)).stmt = evalStmt (fuel + k) from rfl, ih] at h2; exact absurd h2 h
    · rw [show (calleesAt (fuel + k + 1)).stmt = evalStmt (fuel + k + 1) from rfl,
        show (calleesAt (fuel + k)).stmt = evalStmt (fuel + k) from rfl] at h2
      rw [show fuel + (k + 1) = fuel + k + 1 from rfl, h2, ih]

end Tw
