/-
  TwProofs.Lemmas.EvalMono — fuel monotonicity of the evaluator: a result that is not
  "out of fuel" is the same for every larger fuel.
-/
import TwModel

namespace Tw

/-- `r'` (computed with more fuel) agrees with `r` unless `r` ran out of fuel -/
def Stable {α} (r r' : Res α) : Prop := r = .oof ∨ r' = r

theorem Stable.rfl' {α} (r : Res α) : Stable r r := Or.inr rfl

/-! one-step unfoldings (the fuel of the recursive calls is a variable, so they stay folded) -/

theorem evalExpr_arr (f : Nat) (c : Ctx) (env : Env) (t : Token) (elems : List Expr) :
    evalExpr (f + 1) c env (.arr t elems) =
      match evalExprs f c env elems with
      | .ok vs => .ok (.arr vs) | .err a l as => .err a l as | .panic w => .panic w | .oof => .oof := by
  simp only [evalExpr]
  try rfl

theorem evalExpr_obj (f : Nat) (c : Ctx) (env : Env) (t : Token) (pairs : List (Bytes × Expr)) :
    evalExpr (f + 1) c env (.obj t pairs) =
      match evalPairs f c env (sortByKey pairs) with
      | .ok kvs => .ok (.obj kvs) | .err a l as => .err a l as | .panic w => .panic w | .oof => .oof := by
  simp only [evalExpr]
  try rfl

theorem evalExpr_pre (f : Nat) (c : Ctx) (env : Env) (t : Token) (op : Bytes) (r : Expr) :
    evalExpr (f + 1) c env (.pre t op r) =
      match evalExpr f c env r with | .ok v => prefixOp op v t.errorLine | other => other := by
  simp only [evalExpr]
  try rfl

theorem evalExpr_post (f : Nat) (c : Ctx) (env : Env) (t : Token) (op : Bytes) (l : Expr) :
    evalExpr (f + 1) c env (.post t op l) =
      match evalExpr f c env l with | .ok v => postfixOp op v t.errorLine | other => other := by
  simp only [evalExpr]
  try rfl

theorem evalExpr_dot (f : Nat) (c : Ctx) (env : Env) (t : Token) (l : Expr) (key : Bytes) :
    evalExpr (f + 1) c env (.dot t l key) =
      match evalExpr f c env l with
      | .ok (.obj kvs) => objIndex kvs key t.errorLine
      | .ok lv => .err "ErrDotOperatorNotSupported" t.errorLine [lv.typeName]
      | other => other := by
  simp only [evalExpr]
  try rfl

theorem evalExpr_tern (f : Nat) (c : Ctx) (env : Env) (t : Token) (cnd a bb : Expr) :
    evalExpr (f + 1) c env (.tern t cnd a bb) =
      match evalExpr f c env cnd with
      | .ok v => if isTruthy v then evalExpr f c env a else evalExpr f c env bb
      | other => other := by
  simp only [evalExpr]
  try rfl

theorem evalExpr_inf (f : Nat) (c : Ctx) (env : Env) (t : Token) (op : Bytes) (l r : Expr) :
    evalExpr (f + 1) c env (.inf t op l r) =
      match evalExpr f c env l with
      | .ok lv => (match evalExpr f c env r with | .ok rv => infixOp op lv rv l.line | other => other)
      | other => other := by
  simp only [evalExpr]
  try rfl

theorem evalExpr_index (f : Nat) (c : Ctx) (env : Env) (t : Token) (l i : Expr) :
    evalExpr (f + 1) c env (.index t l i) =
      match evalExpr f c env l with
      | .ok lv =>
        (match evalExpr f c env i with
        | .ok iv =>
          (match lv, iv with
          | .arr xs, .int n => .ok (arrIndex xs n)
          | .obj kvs, .str k => objIndex kvs k i.line
          | _, _ => .err "ErrIndexNotSupported" t.errorLine [lv.typeName])
        | other => other)
      | other => other := by
  simp only [evalExpr]
  try rfl

theorem evalExpr_call (f : Nat) (c : Ctx) (env : Env) (t : Token) (recv : Expr) (fn : Bytes) (args : List Expr) :
    evalExpr (f + 1) c env (.call t recv fn args) =
      match evalExpr f c env recv with
      | .ok rv =>
        if !hasBuiltinTable rv.type then .err "ErrNoFuncForThisType" t.errorLine [fn, rv.typeName]
        else
          (match evalExprs f c env args with
          | .ok avs =>
            (match callBuiltin rv fn avs with
            | some (.ok v) => .ok v
            | some (.error (code, eargs)) => .err code t.errorLine eargs
            | none =>
              (match lookupCustom c rv.type fn with
              | some fid => .ok (callCustom fid rv avs)
              | none => .err "ErrNoFuncForThisType" t.errorLine [fn, rv.typeName]))
          | .err a l as => .err a l as
          | .panic w => .panic w
          | .oof => .oof)
      | other => other := by
  simp only [evalExpr]
  try rfl

theorem evalExprs_cons (f : Nat) (c : Ctx) (env : Env) (e : Expr) (r : List Expr) :
    evalExprs (f + 1) c env (e :: r) =
      match evalExpr f c env e with
      | .ok v => (match evalExprs f c env r with | .ok vs => .ok (v :: vs) | other => other)
      | .err a l as => .err a l as | .panic w => .panic w | .oof => .oof := by
  simp only [evalExprs]
  try rfl

theorem evalPairs_cons (f : Nat) (c : Ctx) (env : Env) (k : Bytes) (e : Expr) (r : List (Bytes × Expr)) :
    evalPairs (f + 1) c env ((k, e) :: r) =
      match evalExpr f c env e with
      | .ok v => (match evalPairs f c env r with | .ok kvs => .ok ((k, v) :: kvs) | other => other)
      | .err a l as => .err a l as | .panic w => .panic w | .oof => .oof := by
  simp only [evalPairs]
  try rfl

theorem monoExpr : ∀ fuel : Nat,
    (∀ c env e, Stable (evalExpr fuel c env e) (evalExpr (fuel + 1) c env e)) ∧
    (∀ c env es, Stable (evalExprs fuel c env es) (evalExprs (fuel + 1) c env es)) ∧
    (∀ c env ps, Stable (evalPairs fuel c env ps) (evalPairs (fuel + 1) c env ps)) := by
  intro fuel
  induction fuel with
  | zero => exact ⟨fun _ _ _ => Or.inl rfl, fun _ _ _ => Or.inl rfl, fun _ _ _ => Or.inl rfl⟩
  | succ n ih =>
    obtain ⟨ihE, ihL, ihP⟩ := ih
    refine ⟨?_, ?_, ?_⟩
    · intro c env e
      cases e with
      | bad => right; simp [evalExpr]
      | ident t name => right; simp [evalExpr]
      | int t v => right; simp [evalExpr]
      | float t v => right; simp [evalExpr]
      | str t v => right; simp [evalExpr]
      | nil t => right; simp [evalExpr]
      | bool t v => right; simp [evalExpr]
      | arr t elems =>
        rw [evalExpr_arr, evalExpr_arr]
        rcases ihL c env elems with h | h
        · left; simp [h]
        · right; rw [h]
      | obj t pairs =>
        rw [evalExpr_obj, evalExpr_obj]
        rcases ihP c env (sortByKey pairs) with h | h
        · left; simp [h]
        · right; rw [h]
      | pre t op r =>
        rw [evalExpr_pre, evalExpr_pre]
        rcases ihE c env r with h | h
        · left; simp [h]
        · right; rw [h]
      | post t op l =>
        rw [evalExpr_post, evalExpr_post]
        rcases ihE c env l with h | h
        · left; simp [h]
        · right; rw [h]
      | dot t l key =>
        rw [evalExpr_dot, evalExpr_dot]
        rcases ihE c env l with h | h
        · left; simp [h]
        · right; rw [h]
      | tern t cnd a bb =>
        rw [evalExpr_tern, evalExpr_tern]
        rcases ihE c env cnd with h | h
        · left; simp [h]
        · rw [h]
          cases hc : evalExpr n c env cnd with
          | ok v =>
            simp only []
            split
            · exact ihE c env a
            · exact ihE c env bb
          | err a l as => right; rfl
          | panic w => right; rfl
          | oof => left; rfl
      | inf t op l r =>
        rw [evalExpr_inf, evalExpr_inf]
        rcases ihE c env l with h | h
        · left; simp [h]
        · rw [h]
          cases hl : evalExpr n c env l with
          | ok lv =>
            simp only []
            rcases ihE c env r with h2 | h2
            · left; simp [h2]
            · right; rw [h2]
          | err a l as => right; rfl
          | panic w => right; rfl
          | oof => left; rfl
      | index t l i =>
        rw [evalExpr_index, evalExpr_index]
        rcases ihE c env l with h | h
        · left; simp [h]
        · rw [h]
          cases hl : evalExpr n c env l with
          | ok lv =>
            simp only []
            rcases ihE c env i with h2 | h2
            · left; simp [h2]
            · right; rw [h2]
          | err a l as => right; rfl
          | panic w => right; rfl
          | oof => left; rfl
      | call t recv fn args =>
        rw [evalExpr_call, evalExpr_call]
        rcases ihE c env recv with h | h
        · left; simp [h]
        · rw [h]
          cases hl : evalExpr n c env recv with
          | ok rv =>
            simp only []
            split
            · right; rfl
            · rcases ihL c env args with h2 | h2
              · left; simp [h2]
              · right; rw [h2]
          | err a l as => right; rfl
          | panic w => right; rfl
          | oof => left; rfl
    · intro c env es
      cases es with
      | nil => right; simp [evalExprs]
      | cons e r =>
        rw [evalExprs_cons, evalExprs_cons]
        rcases ihE c env e with h | h
        · left; simp [h]
        · rw [h]
          cases he : evalExpr n c env e with
          | ok v =>
            simp only []
            rcases ihL c env r with h2 | h2
            · left; simp [h2]
            · right; rw [h2]
          | err a l as => right; rfl
          | panic w => right; rfl
          | oof => left; rfl
    · intro c env ps
      cases ps with
      | nil => right; simp [evalPairs]
      | cons p r =>
        obtain ⟨k, e⟩ := p
        rw [evalPairs_cons, evalPairs_cons]
        rcases ihE c env e with h | h
        · left; simp [h]
        · rw [h]
          cases he : evalExpr n c env e with
          | ok v =>
            simp only []
            rcases ihP c env r with h2 | h2
            · left; simp [h2]
            · right; rw [h2]
          | err a l as => right; rfl
          | panic w => right; rfl
          | oof => left; rfl

/-- expressions: more fuel never changes a result that was not "out of fuel" -/
theorem evalExpr_mono (fuel k : Nat) (c : Ctx) (env : Env) (e : Expr) (h : evalExpr fuel c env e ≠ .oof) :
    evalExpr (fuel + k) c env e = evalExpr fuel c env e := by
  induction k with
  | zero => rfl
  | succ k ih =>
    rcases (monoExpr (fuel + k)).1 c env e with h2 | h2
    · rw [ih] at h2; exact absurd h2 h
    · rw [show fuel + (k + 1) = fuel + k + 1 from rfl, h2, ih]

end Tw
