/-
  TwProofs.Lemmas.TextIndex — `{{ name[digits] }}` from the source bytes to the output: lexer, parser
  and evaluator composed (C12: an element of a slice of the data, by its decimal index).
-/
import TwProofs.Lemmas.TextDot
namespace Tw
open Lx

/-- a decimal number: one digit or more -/
def isDigits (d : Bytes) : Prop := d ≠ [] ∧ ∀ x ∈ d, isNumberCh x = true

instance instDecidableIsDigits (d : Bytes) : Decidable (isDigits d) := by unfold isDigits; exact inferInstance

theorem digit_not_special {c : Nat} (h : isNumberCh c = true) :
    simpleToken c = none ∧ c ≠ 123 ∧ c ≠ 125 ∧ c ≠ 40 ∧ c ≠ 41 ∧ c ≠ 34 ∧ c ≠ 39 ∧ c ≠ 60 ∧ c ≠ 62 ∧ c ≠ 33 ∧ c ≠ 45 ∧ c ≠ 43 ∧ c ≠ 61 ∧
      isWs c = false ∧ isIdentCh c = false := by
  have hc : 48 ≤ c ∧ c ≤ 57 := by
    simpa only [isNumberCh, Bool.and_eq_true, decide_eq_true_eq] using h
  refine ⟨?_, by omega, by omega, by omega, by omega, by omega, by omega, by omega, by omega, by omega, by omega, by omega, by omega, ?_, ?_⟩
  · unfold simpleToken simpleTokens
    have e : ∀ k : Nat, (k = 37 ∨ k = 42 ∨ k = 44 ∨ k = 46 ∨ k = 47 ∨ k = 58 ∨ k = 59 ∨ k = 63 ∨ k = 91 ∨ k = 93) → (k == c) = false := by
      intro k hk; simp only [beq_eq_false_iff_ne, ne_eq]; omega
    simp [List.find?, e]
  · have : c ≠ 32 ∧ c ≠ 9 ∧ c ≠ 10 ∧ c ≠ 13 := by omega
    simp [isWs, this.1, this.2.1, this.2.2.1, this.2.2.2]
  · cases hi : isIdentCh c with
    | false => rfl
    | true =>
      simp only [isIdentCh, Bool.or_eq_true, Bool.and_eq_true, decide_eq_true_eq, beq_iff_eq] at hi
      have hc' : (97 ≤ c ∧ c ≤ 122) ∨ (65 ≤ c ∧ c ≤ 90) ∨ c = 95 := by
        rcases hi with (h | h) | h
        · exact Or.inl h
        · exact Or.inr (Or.inl h)
        · exact Or.inr (Or.inr h)
      exfalso; omega

theorem numScan_digits (d x : Bytes) (hd : ∀ y ∈ d, isNumberCh y = true) (h0 : isNumberCh (x.headD 0) = false) (h1 : x.headD 0 ≠ 46) :
    numScan (d ++ x) = (d.length, true) := by
  induction d with
  | nil => simpa using numScan_stop x h0 (fun e => absurd e h1)
  | cons a t ih =>
    rw [List.cons_append, numScan_digit a _ (hd a List.mem_cons_self), ih (fun y hy => hd y (List.mem_cons_of_mem _ hy))]
    rfl

theorem codeStepDesc_int (s : Lx) (d x : Bytes) (hd : isDigits d) (hr : s.rest = d ++ x)
    (h0 : isNumberCh (x.headD 0) = false) (h1 : x.headD 0 ≠ 46) :
    (codeStepDesc s).n = d.length ∧ (codeStepDesc s).ty = .INT ∧ (codeStepDesc s).lit = d ∧ (codeStepDesc s).st = s := by
  obtain ⟨hne, hall⟩ := hd
  match d, hne, hall with
  | c :: v, _, hall =>
    have hc : isNumberCh c = true := hall c List.mem_cons_self
    obtain ⟨q1, q2, q3, q4, q5, q6, q7, q8, q9, q10, q11, q12, q13, _, qid⟩ := digit_not_special hc
    have hchar : s.char = c := by simp [Lx.char, hr]
    have hcd : codeStepDesc s = wordDesc s := by
      unfold codeStepDesc
      rw [if_neg (by rw [hchar]; simp [q3])]
      unfold codeDesc
      rw [hchar, q1]
      simp only []
      unfold bracketDesc
      rw [hchar]
      have q67 : (c == 34 || c == 39) = false := by simp [q6, q7]
      simp only [beq_iff_eq, q2, q3, q4, q5, q67, if_false, Bool.false_eq_true]
      unfold opDesc
      rw [hchar]
      simp only [beq_iff_eq, q8, q9, q10, q11, q12, q13, if_false]
    rw [hcd]
    unfold wordDesc
    rw [hchar, qid, hc, hr, numScan_digits (c :: v) x hall h0 h1]
    simp

/-- a decimal number after any white space, in code -/
theorem code_int_step (s : Lx) (g d x : Bytes) (hh : s.isHTML = false) (hg : allWs g) (hd : isDigits d)
    (hr : s.rest = g ++ (d ++ x)) (h0 : isNumberCh (x.headD 0) = false) (h1 : x.headD 0 ≠ 46) :
    ∃ t s1, nextStep s = (.tok t, s1) ∧ key t = (.INT, d) ∧ t.ty ≠ .EOF ∧ After s s1 x (d.reverse.headD 0) := by
  obtain ⟨hne, hall⟩ := hd
  have hdd : isDigits d := ⟨hne, hall⟩
  match d, hne, hall, hdd with
  | c :: v, hne, hall, hdd =>
    have hc : isNumberCh c = true := hall c List.mem_cons_self
    have qq := digit_not_special hc
    obtain ⟨k1, k2⟩ := skipWs_code s hh g _ hg hr (by simpa using qq.2.2.2.2.2.2.2.2.2.2.2.2.2.1)
    obtain ⟨e1, e2, e3, e4⟩ := codeStepDesc_int (skipWs s) (c :: v) x hdd k1 h0 h1
    have st := stepAt_code (skipWs s) (by rw [mode_html k2]; exact hh) (by rw [k1]; simp)
      (by
        intro ⟨e, _⟩
        have : (skipWs s).char = c := by simp [Lx.char, k1]
        rw [this] at e
        exact qq.2.1 e)
    obtain ⟨f1, f2, f3⟩ := emit_after (codeStepDesc (skipWs s)) (c :: v) x (by simp) (by rw [e4]; exact k1) e1
    refine ⟨(codeStepDesc (skipWs s)).emit.1, (codeStepDesc (skipWs s)).emit.2, by unfold nextStep; exact st, ?_, ?_, ⟨f1, ?_, f3⟩⟩
    · unfold TokDesc.emit; rw [emit_key, e2, e3]
    · unfold TokDesc.emit; rw [emit_ty, e2]; exact fun h => by cases h
    · rw [f2, e4, k2]

theorem codeStepDesc_simple (s : Lx) (c : Byte) (ty : TT) (x : Bytes) (hs : simpleToken c = some ty) (hr : s.rest = c :: x) :
    codeStepDesc s = { st := s, n := 1, ty := ty, lit := [c] } := by
  have hc : s.char = c := by simp [Lx.char, hr]
  have hne : c ≠ 125 := by
    intro e; rw [e, show simpleToken 125 = none from by decide] at hs; cases hs
  unfold codeStepDesc
  rw [if_neg (by rw [hc]; simp [hne])]
  unfold codeDesc
  rw [hc]
  simp only [hs]

/-- a one-byte token of the table (`[`, `]`, `,`, `.` …) after any white space, in code -/
theorem code_simple_step (s : Lx) (c : Byte) (ty : TT) (g x : Bytes) (hs : simpleToken c = some ty) (hh : s.isHTML = false) (hg : allWs g)
    (hr : s.rest = g ++ (c :: x)) :
    ∃ t s1, nextStep s = (.tok t, s1) ∧ key t = (ty, [c]) ∧ t.ty = ty ∧ After s s1 x c := by
  have hws : isWs c = false := by
    cases hw : isWs c with
    | false => rfl
    | true =>
      have hn : ∀ k : Byte, isWs k = true → simpleToken k = none := by
        intro k hk
        have : k = 32 ∨ k = 9 ∨ k = 10 ∨ k = 13 := by
          simp only [isWs, Bool.or_eq_true, beq_iff_eq] at hk
          rcases hk with ((h | h) | h) | h
          · exact Or.inl h
          · exact Or.inr (Or.inl h)
          · exact Or.inr (Or.inr (Or.inl h))
          · exact Or.inr (Or.inr (Or.inr h))
        rcases this with e | e | e | e <;> (rw [e]; decide)
      rw [hn c hw] at hs; cases hs
  have h123 : c ≠ 123 := by
    intro e; rw [e, show simpleToken 123 = none from by decide] at hs; cases hs
  obtain ⟨j1, j2⟩ := skipWs_code s hh g _ hg hr (by simpa using hws)
  have hd4 := codeStepDesc_simple (skipWs s) c ty x hs j1
  have st4 := stepAt_code (skipWs s) (by rw [mode_html j2]; exact hh) (by rw [j1]; simp) (by simp [Lx.char, j1, h123])
  obtain ⟨z1, z2, z3⟩ := emit_after (codeStepDesc (skipWs s)) [c] x (by simp) (by rw [hd4]; simpa using j1) (by rw [hd4]; rfl)
  refine ⟨(codeStepDesc (skipWs s)).emit.1, (codeStepDesc (skipWs s)).emit.2, by unfold nextStep; exact st4, ?_, ?_, ⟨z1, ?_, by rw [z3]; rfl⟩⟩
  · unfold TokDesc.emit; rw [emit_key, hd4]
  · unfold TokDesc.emit; rw [emit_ty, hd4]
  · rw [z2, hd4, j2]

/-- `{{ g1 k [ g3 d g4 ] g2 }}` -/
def idxSrc (g1 k g3 d g4 g2 : Bytes) : Bytes := [123, 123] ++ g1 ++ k ++ [91] ++ g3 ++ d ++ g4 ++ [93] ++ g2 ++ [125, 125]

def idxKeys (k d : Bytes) : List (TT × Bytes) :=
  [(.LBRACES, [123, 123]), (.IDENT, k), (.LBRACKET, [91]), (.INT, d), (.RBRACKET, [93]), (.RBRACES, [125, 125])]

theorem lex_index (s : Lx) (g1 k g3 d g4 g2 tl : Bytes) (hh : s.isHTML = true) (hb : s.braces = 0) (hg1 : allWs g1) (hg2 : allWs g2)
    (hg3 : allWs g3) (hg4 : allWs g4) (hk : isName k) (hd : isDigits d) (hr : s.rest = idxSrc g1 k g3 d g4 g2 ++ tl) :
    ∃ toks s6, Run s toks s6 ∧ toks.map key = idxKeys k d ∧ s6.rest = tl ∧ s6.prev = 125 ∧
      mode s6 = (true, s.isDirective, s.parens, 0, s.panicked) := by
  obtain ⟨⟨c, cv, hcv, hc⟩, hall, hkw⟩ := hk
  have hkn : isName k := ⟨⟨c, cv, hcv, hc⟩, hall, hkw⟩
  have hnot := identCh_not_special hc
  have hr' : s.rest = 123 :: 123 :: (g1 ++ (k ++ ([] ++ (91 :: (g3 ++ (d ++ (g4 ++ (93 :: (g2 ++ (125 :: 125 :: tl)))))))))) := by
    rw [hr]; simp [idxSrc, List.append_assoc]
  have hx1 : (g1 ++ (k ++ ([] ++ (91 :: (g3 ++ (d ++ (g4 ++ (93 :: (g2 ++ (125 :: 125 :: tl)))))))))).headD 0 ≠ 45 := by
    cases g1 with
    | nil => simp only [List.nil_append, hcv, List.cons_append, List.headD_cons]; exact hnot.2.2.2.2.2.2.2.2.2.2.1
    | cons w t =>
      have hw : isWs w = true := hg1 w List.mem_cons_self
      simp only [List.cons_append, List.headD_cons]
      intro e; rw [e] at hw; cases hw
  obtain ⟨t1, s1, st1, k1, ne1, r1, _, m1⟩ := lex_open s _ hh hr' hx1
  obtain ⟨a1, a2, a3, a4, a5⟩ := mode_fields m1
  obtain ⟨t2, s2, st2, k2, ne2, b2⟩ := code_word_step s1 g1 k _ a1 hg1 (isName_word hkn) r1 (by simp only [List.nil_append, List.headD_cons]; decide)
  have h2 : s2.isHTML = false := by rw [mode_html b2.md]; exact a1
  obtain ⟨t3, s3, st3, k3, ty3, b3⟩ := code_simple_step s2 91 .LBRACKET [] _ (by decide) h2 (fun _ h => by cases h) b2.rest
  have h3 : s3.isHTML = false := by rw [mode_html b3.md]; exact h2
  have hx4 : isNumberCh ((g4 ++ (93 :: (g2 ++ (125 :: 125 :: tl)))).headD 0) = false ∧ (g4 ++ (93 :: (g2 ++ (125 :: 125 :: tl)))).headD 0 ≠ 46 := by
    cases g4 with
    | nil => simp only [List.nil_append, List.headD_cons]; decide
    | cons w t =>
      have hw : isWs w = true := hg4 w List.mem_cons_self
      simp only [List.cons_append, List.headD_cons]
      exact ⟨ws_not_number hw, fun e => by rw [e] at hw; cases hw⟩
  obtain ⟨t4, s4, st4, k4, ne4, b4⟩ := code_int_step s3 g3 d _ h3 hg3 hd b3.rest hx4.1 hx4.2
  have h4 : s4.isHTML = false := by rw [mode_html b4.md]; exact h3
  obtain ⟨t5, s5, st5, k5, ty5, b5⟩ := code_simple_step s4 93 .RBRACKET g4 _ (by decide) h4 hg4 b4.rest
  have h5 : s5.isHTML = false := by rw [mode_html b5.md]; exact h4
  have br5 : s5.braces = 0 := by rw [mode_braces b5.md, mode_braces b4.md, mode_braces b3.md, mode_braces b2.md, a4]; exact hb
  obtain ⟨t6, s6, st6, k6, ne6, r6, pv6, m6⟩ := code_close_step s5 g2 tl h5 br5 hg2 b5.rest
  refine ⟨[t1, t2, t3, t4, t5, t6], s6, ?_, ?_, r6, pv6, ?_⟩
  · exact Run.cons _ _ _ _ _ st1 ne1 (Run.cons _ _ _ _ _ st2 ne2 (Run.cons _ _ _ _ _ st3 (by rw [ty3]; decide) (Run.cons _ _ _ _ _ st4 ne4
      (Run.cons _ _ _ _ _ st5 (by rw [ty5]; decide) (Run.cons _ _ _ _ _ st6 ne6 (Run.nil _))))))
  · have hk2 : key t2 = (.IDENT, k) := by rw [k2, hkw]
    simp [idxKeys, k1, hk2, k3, k4, k5, k6]
  · rw [m6, mode_dir b5.md, mode_dir b4.md, mode_dir b3.md, mode_dir b2.md, a2, mode_parens b5.md, mode_parens b4.md, mode_parens b3.md,
      mode_parens b2.md, a3, mode_pan b5.md, mode_pan b4.md, mode_pan b3.md, mode_pan b2.md, a5]

def idxCode (g1 k g3 d g4 g2 : Bytes) : Code := { src := idxSrc g1 k g3 d g4 g2, keys := idxKeys k d }

theorem idxCode_ok (g1 k g3 d g4 g2 : Bytes) (hg1 : allWs g1) (hg2 : allWs g2) (hg3 : allWs g3) (hg4 : allWs g4) (hk : isName k)
    (hd : isDigits d) : (idxCode g1 k g3 d g4 g2).OK := by
  refine ⟨?_, ?_, ?_⟩
  · intro tl
    exact Or.inr (Or.inl ⟨g1 ++ k ++ [91] ++ g3 ++ d ++ g4 ++ [93] ++ g2 ++ [125, 125] ++ tl, by simp [idxCode, idxSrc, List.append_assoc]⟩)
  · obtain ⟨⟨c, cv, hcv, _⟩, _, _⟩ := hk
    simp [idxCode, idxSrc, idxKeys, hcv]; omega
  · intro s tl hr hh hb hpa hdi _
    obtain ⟨toks, s6, run, hkeys, r6, pv6, m6⟩ := lex_index s g1 k g3 d g4 g2 tl hh hb hg1 hg2 hg3 hg4 hk hd hr
    obtain ⟨f1, f2, f3, f4, f5⟩ := mode_fields m6
    exact ⟨toks, s6, run, hkeys, r6, f1, f4, by rw [f3]; exact hpa, by rw [f2]; exact hdi, f5, by rw [pv6]; decide⟩

theorem parseInt64_digits (d : Bytes) (hd : isDigits d) (hb : digitsToNat d ≤ 9223372036854775807) :
    parseInt64 d = some (Int64.ofNat (digitsToNat d)) := by
  obtain ⟨hne, hall⟩ := hd
  unfold parseInt64
  have e1 : d.isEmpty = false := by cases d with
    | nil => exact absurd rfl hne
    | cons _ _ => rfl
  have e2 : d.all isNumberCh = true := List.all_eq_true.mpr hall
  simp [e1, e2, hb]

/-- `{{ k[d] }}` as a statement -/
theorem parse_index_stmt (g : Nat) (t1 t2 t3 t4 t5 t6 : Token) (tail : List Token) (v : Int64) (h1 : t1.ty = .LBRACES) (h2 : t2.ty = .IDENT)
    (h3 : t3.ty = .LBRACKET) (h4 : t4.ty = .INT) (h5 : t5.ty = .RBRACKET) (h6 : t6.ty = .RBRACES) (hv : parseInt64 t4.lit = some v)
    (hclean : ∀ x ∈ tail, x.ty ≠ .ILLEGAL) :
    parseStatement (g + 6) ({ toks := t1 :: t2 :: t3 :: t4 :: t5 :: t6 :: tail } : PS) =
      (.expr t5 (.index t3 (.ident t2 t2.lit) (.int t4 v)), { toks := t6 :: tail }) := by
  have c6 := noill_cons (t := t6) (by rw [h6]; decide) hclean
  have c5 := noill_cons (t := t5) (by rw [h5]; decide) c6
  have c4 := noill_cons (t := t4) (by rw [h4]; decide) c5
  have c3 := noill_cons (t := t3) (by rw [h3]; decide) c4
  have c2 := noill_cons (t := t2) (by rw [h2]; decide) c3
  have nx1 : ({ toks := t1 :: t2 :: t3 :: t4 :: t5 :: t6 :: tail } : PS).next = { toks := t2 :: t3 :: t4 :: t5 :: t6 :: tail } := ps_next_clean t1 t2 _ c2
  have nx2 : ({ toks := t2 :: t3 :: t4 :: t5 :: t6 :: tail } : PS).next = { toks := t3 :: t4 :: t5 :: t6 :: tail } := ps_next_clean t2 t3 _ c3
  have nx3 : ({ toks := t3 :: t4 :: t5 :: t6 :: tail } : PS).next = { toks := t4 :: t5 :: t6 :: tail } := ps_next_clean t3 t4 _ c4
  have nx4 : ({ toks := t4 :: t5 :: t6 :: tail } : PS).next = { toks := t5 :: t6 :: tail } := ps_next_clean t4 t5 _ c5
  have nx5 : ({ toks := t5 :: t6 :: tail } : PS).next = { toks := t6 :: tail } := ps_next_clean t5 t6 _ c6
  -- the index expression: the number, up to "]"
  have hin : parseExpression (g + 3) LOWEST ({ toks := t4 :: t5 :: t6 :: tail } : PS) = (.int t4 v, { toks := t4 :: t5 :: t6 :: tail }) := by
    rw [parseExpression_succ]
    have hp : prefixBody (parseExpression (g + 2)) (parseExprList (g + 2)) (parseObjLoop (g + 2))
        ({ toks := t4 :: t5 :: t6 :: tail } : PS) = some (.int t4 v, { toks := t4 :: t5 :: t6 :: tail }) := by
      unfold prefixBody
      simp [PS.cur, h4, hv]
    rw [hp]
    simp only []
    rw [prattLoop_succ]
    have e4 : ({ toks := t4 :: t5 :: t6 :: tail } : PS).peekPrecedence = LOWEST := by simp [PS.peekPrecedence, PS.peek, h5, precedence]
    simp [e4]
  have hex : parseExpression (g + 5) LOWEST ({ toks := t2 :: t3 :: t4 :: t5 :: t6 :: tail } : PS) =
      (.index t3 (.ident t2 t2.lit) (.int t4 v), { toks := t5 :: t6 :: tail }) := by
    rw [parseExpression_succ]
    have hp : prefixBody (parseExpression (g + 4)) (parseExprList (g + 4)) (parseObjLoop (g + 4))
        ({ toks := t2 :: t3 :: t4 :: t5 :: t6 :: tail } : PS) = some (.ident t2 t2.lit, { toks := t2 :: t3 :: t4 :: t5 :: t6 :: tail }) := by
      unfold prefixBody
      simp [PS.cur, h2]
    rw [hp]
    simp only []
    rw [prattLoop_succ]
    have e1 : ({ toks := t2 :: t3 :: t4 :: t5 :: t6 :: tail } : PS).peekIs .RBRACES = false := by simp [PS.peekIs, PS.peek, h3]
    have e2 : ({ toks := t2 :: t3 :: t4 :: t5 :: t6 :: tail } : PS).peekIs .SEMI = false := by simp [PS.peekIs, PS.peek, h3]
    have e3 : ({ toks := t2 :: t3 :: t4 :: t5 :: t6 :: tail } : PS).peekIs .RPAREN = false := by simp [PS.peekIs, PS.peek, h3]
    have e4 : ({ toks := t2 :: t3 :: t4 :: t5 :: t6 :: tail } : PS).peekPrecedence = INDEX := by simp [PS.peekPrecedence, PS.peek, h3, precedence]
    have e5 : ({ toks := t2 :: t3 :: t4 :: t5 :: t6 :: tail } : PS).peek.ty = .LBRACKET := by simp [PS.peek, h3]
    simp only [e1, e2, e3, e4, e5, Bool.or_self, show (!decide (LOWEST < INDEX)) = false from by decide,
      Bool.false_eq_true, if_false, show (!hasInfix .LBRACKET) = false from by decide, nx2]
    have hinf : infixBody (parseExpression (g + 3)) (parseExprList (g + 3)) (.ident t2 t2.lit) ({ toks := t3 :: t4 :: t5 :: t6 :: tail } : PS) =
        (.index t3 (.ident t2 t2.lit) (.int t4 v), { toks := t5 :: t6 :: tail }) := by
      unfold infixBody
      have c0 : ({ toks := t3 :: t4 :: t5 :: t6 :: tail } : PS).cur = t3 := rfl
      simp only [c0, h3, show isBinaryOp .LBRACKET = false from by decide, Bool.false_eq_true, if_false,
        show (TT.LBRACKET == TT.QUESTION) = false from by decide, show (TT.LBRACKET == TT.LBRACKET) = true from by decide, if_true, nx3, hin]
      have ep := expectPeek_ok ({ toks := t4 :: t5 :: t6 :: tail } : PS) .RBRACKET (by simp [PS.peekIs, PS.peek, h5])
      rw [ep, nx4]
      simp
    rw [hinf]
    simp only []
    rw [prattLoop_succ]
    have : ({ toks := t5 :: t6 :: tail } : PS).peekIs .RBRACES = true := by simp [PS.peekIs, PS.peek, h6]
    simp [this]
  show statementBody (parseExpression (g + 5)) (parseExprList (g + 5)) (parseBody (g + 5)) (parseIfTail (g + 5)) (parseSlots (g + 5))
    ({ toks := t1 :: t2 :: t3 :: t4 :: t5 :: t6 :: tail } : PS) = _
  have hc : ({ toks := t1 :: t2 :: t3 :: t4 :: t5 :: t6 :: tail } : PS).cur.ty = .LBRACES := by simp [PS.cur, h1]
  unfold statementBody
  simp only [hc]
  unfold parseEmbeddedCode
  simp only [nx1]
  have c1 : ({ toks := t2 :: t3 :: t4 :: t5 :: t6 :: tail } : PS).curIs .RBRACES = false := by simp [PS.curIs, PS.cur, h2]
  have c2' : ({ toks := t2 :: t3 :: t4 :: t5 :: t6 :: tail } : PS).peekIs .ASSIGN = false := by simp [PS.peekIs, PS.peek, h3]
  have c3' : ({ toks := t5 :: t6 :: tail } : PS).peekIs .RBRACES = true := by simp [PS.peekIs, PS.peek, h6]
  simp only [c1, c2', Bool.and_false, Bool.false_eq_true, if_false, hex, c3', if_true, nx5]
  simp [PS.cur]

/-- **`{{ k[d] }}`, parsed** -/
theorem parse_index_source (g1 k g3 d g4 g2 : Bytes) (hg1 : allWs g1) (hg2 : allWs g2) (hg3 : allWs g3) (hg4 : allWs g4) (hk : isName k)
    (hd : isDigits d) (hb : digitsToNat d ≤ 9223372036854775807) :
    ∃ prog t2 t3 t4 t5, parseSource (idxSrc g1 k g3 d g4 g2) = .ok prog ∧
      prog.stmts = [.expr t5 (.index t3 (.ident t2 k) (.int t4 (Int64.ofNat (digitsToNat d))))] := by
  have hok : GItemsOK [.code (idxCode g1 k g3 d g4 g2)] := ⟨idxCode_ok g1 k g3 d g4 g2 hg1 hg2 hg3 hg4 hk hd, trivial⟩
  obtain ⟨toks, e, htok, hkeys, he⟩ := tokenize_gitems _ hok
  have hsrc : gsrc [.code (idxCode g1 k g3 d g4 g2)] = idxSrc g1 k g3 d g4 g2 := by simp [gsrc, GItem.src, idxCode]
  rw [hsrc] at htok
  have hk' : toks.map key = idxKeys k d := by simpa [gkeys, idxCode] using hkeys
  match toks, hk' with
  | [], hk' => simp [idxKeys] at hk'
  | [_], hk' => simp [idxKeys] at hk'
  | [_, _], hk' => simp [idxKeys] at hk'
  | [_, _, _], hk' => simp [idxKeys] at hk'
  | [_, _, _, _], hk' => simp [idxKeys] at hk'
  | [_, _, _, _, _], hk' => simp [idxKeys] at hk'
  | _ :: _ :: _ :: _ :: _ :: _ :: _ :: _, hk' => simp [idxKeys] at hk'
  | [t1, t2, t3, t4, t5, t6], hk' =>
    simp only [idxKeys, List.map_cons, List.map_nil, List.cons.injEq, and_true] at hk'
    obtain ⟨hk1, hk2, hk3, hk4, hk5, hk6⟩ := hk'
    have ty1 : t1.ty = .LBRACES := congrArg Prod.fst hk1
    have ty2 : t2.ty = .IDENT := congrArg Prod.fst hk2
    have lit2 : t2.lit = k := congrArg Prod.snd hk2
    have ty3 : t3.ty = .LBRACKET := congrArg Prod.fst hk3
    have ty4 : t4.ty = .INT := congrArg Prod.fst hk4
    have lit4 : t4.lit = d := congrArg Prod.snd hk4
    have ty5 : t5.ty = .RBRACKET := congrArg Prod.fst hk5
    have ty6 : t6.ty = .RBRACES := congrArg Prod.fst hk6
    have hce : ∀ x ∈ [e], x.ty ≠ .ILLEGAL := by intro x hx; simp at hx; rw [hx, he]; decide
    have hcl : ∀ x ∈ [t1, t2, t3, t4, t5, t6] ++ [e], x.ty ≠ .ILLEGAL :=
      noill_cons (by rw [ty1]; decide) (noill_cons (by rw [ty2]; decide) (noill_cons (by rw [ty3]; decide)
        (noill_cons (by rw [ty4]; decide) (noill_cons (by rw [ty5]; decide) (noill_cons (by rw [ty6]; decide) hce)))))
    refine ⟨{ tok := t1, stmts := [.expr t5 (.index t3 (.ident t2 k) (.int t4 (Int64.ofNat (digitsToNat d))))] }, t2, t3, t4, t5, ?_, rfl⟩
    unfold parseSource
    rw [htok]
    simp only [Bool.false_eq_true, if_false]
    rw [initParser_clean _ hcl]
    have hfuel : parseFuel ([t1, t2, t3, t4, t5, t6] ++ [e]) = 38 + 6 := by simp [parseFuel]
    rw [hfuel]
    have hst := parse_index_stmt 37 t1 t2 t3 t4 t5 t6 [e] _ ty1 ty2 ty3 ty4 ty5 ty6 (by rw [lit4]; exact parseInt64_digits d hd hb) hce
    have hloop : parseProgramLoop (38 + 6) [] ({ toks := [t1, t2, t3, t4, t5, t6] ++ [e] } : PS) =
        (some [.expr t5 (.index t3 (.ident t2 t2.lit) (.int t4 (Int64.ofNat (digitsToNat d))))], { toks := [e] }) := by
      rw [show 38 + 6 = 43 + 1 from rfl, parseProgramLoop]
      have c0 : ({ toks := [t1, t2, t3, t4, t5, t6] ++ [e] } : PS).curIs .EOF = false := by simp [PS.curIs, PS.cur, ty1]
      simp only [c0, Bool.false_eq_true, if_false]
      simp only [List.cons_append, List.nil_append] at hst ⊢
      rw [show 43 = 37 + 6 from rfl, hst]
      have i5 : ({ toks := [t6, e] } : PS).curIs .ILLEGAL = false := by simp [PS.curIs, PS.cur, ty6]
      simp only [i5, Bool.false_eq_true, if_false, Stmt.isBad]
      have nx : ({ toks := [t6, e] } : PS).next = { toks := [e] } := ps_next_clean t6 e [] hce
      rw [nx, show 37 + 6 = 42 + 1 from rfl, parseProgramLoop]
      have ce : ({ toks := [e] } : PS).curIs .EOF = true := by simp [PS.curIs, PS.cur, he]
      simp [ce]
    rw [hloop]
    simp [finishParse, PS.cur, lit2]

end Tw
