/-
  TwProofs.Lemmas.PrattFullEval — parser and evaluator composed on the whole expression language:
  the trees the round trip returns satisfy `Expr.wf`, so the model evaluator's result on the
  parsed tokens is the denotation of the printed tree (C01).
-/
import TwProofs.Lemmas.SpecSim
import TwProofs.Lemmas.PrattFull
namespace Tw
open TwSpec

mutual
/-- the operator tokens carry their canonical literals (what the lexer produces for these types) -/
def FE.canon : FE → Prop
  | .atom _ => True
  | .pre op r => (op.ty = .SUB → op.lit = b "-") ∧ (op.ty = .NOT → op.lit = b "!") ∧ r.canon
  | .bin _ l r => l.canon ∧ r.canon
  | .tern _ _ cnd a bb => cnd.canon ∧ a.canon ∧ bb.canon
  | .post op l => (op.ty = .INC → op.lit = b "++") ∧ (op.ty = .DEC → op.lit = b "--") ∧ l.canon
  | .index _ l i => l.canon ∧ i.canon
  | .dot _ _ l => l.canon
  | .call _ _ l args => l.canon ∧ args.canon
  | .arr _ els => els.canon
  | .obj _ ps => ps.canon
def FEs.canon : FEs → Prop
  | .nil => True
  | .cons e r => e.canon ∧ r.canon
def FPs.canon : FPs → Prop
  | .nil => True
  | .cons _ _ v r => v.canon ∧ r.canon
end

theorem mapSet_keys {α} (l : List (Bytes × α)) (k : Bytes) (v : α) (y : Bytes × α) (hy : y ∈ mapSet l k v) :
    y.1 = k ∨ ∃ z ∈ l, z.1 = y.1 := by
  induction l with
  | nil => simp [mapSet] at hy; left; rw [hy]
  | cons x r ih =>
    obtain ⟨k', v'⟩ := x
    simp only [mapSet] at hy
    split at hy
    · rcases List.mem_cons.mp hy with h | h
      · left; rw [h]
      · right; exact ⟨y, List.mem_cons_of_mem _ h, rfl⟩
    · rcases List.mem_cons.mp hy with h | h
      · right; exact ⟨(k', v'), List.mem_cons_self, by rw [h]⟩
      · rcases ih h with h1 | ⟨z, hz, hz1⟩
        · left; exact h1
        · right; exact ⟨z, List.mem_cons_of_mem _ hz, hz1⟩

theorem mapSet_keysDistinct {α} (l : List (Bytes × α)) (k : Bytes) (v : α) (hd : KeysDistinct l) : KeysDistinct (mapSet l k v) := by
  induction l with
  | nil => simp [mapSet, KeysDistinct]
  | cons x r ih =>
    obtain ⟨k', v'⟩ := x
    unfold KeysDistinct at hd ⊢
    rw [List.pairwise_cons] at hd
    simp only [mapSet]
    split
    · rename_i hk
      have hkk : k' = k := by simpa using hk
      rw [List.pairwise_cons]
      exact ⟨fun y hy => by rw [← hkk]; exact hd.1 y hy, hd.2⟩
    · rename_i hk
      have hkk : k' ≠ k := by simpa using hk
      rw [List.pairwise_cons]
      refine ⟨fun y hy => ?_, ih hd.2⟩
      rcases mapSet_keys r k v y hy with h | ⟨z, hz, hz1⟩
      · rw [h]; exact hkk
      · rw [← hz1]; exact hd.1 z hz

theorem mapSet_wfPairs (l : List (Bytes × Expr)) (k : Bytes) (v : Expr) (hl : Expr.wfPairs l) (hv : v.wf) :
    Expr.wfPairs (mapSet l k v) := by
  induction l with
  | nil => simp [mapSet, Expr.wfPairs, hv]
  | cons x r ih =>
    obtain ⟨k', v'⟩ := x
    simp only [Expr.wfPairs] at hl
    simp only [mapSet]
    split
    · simp only [Expr.wfPairs]; exact ⟨hv, hl.2⟩
    · simp only [Expr.wfPairs]; exact ⟨hl.1, ih hl.2⟩

theorem atom_wf (t : Token) (a : Expr) (h : atomExpr t = some a) : a.wf := by
  unfold atomExpr at h
  cases hty : t.ty <;> rw [hty] at h <;> simp only [] at h <;> first | (cases h; done) | (cases h; simp [Expr.wf]) | skip
  · cases hv : parseInt64 t.lit with
    | none => rw [hv] at h; cases h
    | some v => rw [hv] at h; cases h; simp [Expr.wf]
  · cases hv : parseFloat64 t.lit with
    | none => rw [hv] at h; cases h
    | some v => rw [hv] at h; cases h; simp [Expr.wf]

mutual
theorem full_wf : ∀ (e : FE), e.ok → e.canon → Expr.wf e.toExpr
  | .atom t, hok, _ => by
    rw [FE.ok] at hok
    obtain ⟨a, ha⟩ := Option.isSome_iff_exists.mp hok
    rw [FE.toExpr, ha]
    exact atom_wf t a ha
  | .pre op r, hok, hc => by
    rw [FE.ok] at hok; rw [FE.canon] at hc
    rw [FE.toExpr, Expr.wf]
    refine ⟨?_, full_wf r hok.2 hc.2.2⟩
    rcases hok.1 with h | h
    · left; exact hc.1 h
    · right; exact hc.2.1 h
  | .bin op l r, hok, hc => by
    rw [FE.ok] at hok; rw [FE.canon] at hc
    rw [FE.toExpr, Expr.wf]
    exact ⟨full_wf l hok.2.1 hc.1, full_wf r hok.2.2 hc.2⟩
  | .tern q c cnd a bb, hok, hc => by
    rw [FE.ok] at hok; rw [FE.canon] at hc
    rw [FE.toExpr, Expr.wf]
    exact ⟨full_wf cnd hok.2.2.1 hc.1, full_wf a hok.2.2.2.1 hc.2.1, full_wf bb hok.2.2.2.2 hc.2.2⟩
  | .post op l, hok, hc => by
    rw [FE.ok] at hok; rw [FE.canon] at hc
    rw [FE.toExpr, Expr.wf]
    refine ⟨?_, full_wf l hok.2 hc.2.2⟩
    rcases hok.1 with h | h
    · left; exact hc.1 h
    · right; exact hc.2.1 h
  | .index lb l i, hok, hc => by
    rw [FE.ok] at hok; rw [FE.canon] at hc
    rw [FE.toExpr, Expr.wf]
    exact ⟨full_wf l hok.2.1 hc.1, full_wf i hok.2.2 hc.2⟩
  | .dot d name l, hok, hc => by
    rw [FE.ok] at hok; rw [FE.canon] at hc
    rw [FE.toExpr, Expr.wf]
    exact full_wf l hok.2.2 hc
  | .call d name l args, hok, hc => by
    rw [FE.ok] at hok; rw [FE.canon] at hc
    rw [FE.toExpr, Expr.wf]
    exact ⟨full_wf l hok.2.2.1 hc.1, full_wfList args hok.2.2.2 hc.2⟩
  | .arr lb els, hok, hc => by
    rw [FE.ok] at hok; rw [FE.canon] at hc
    rw [FE.toExpr, Expr.wf]
    exact full_wfList els hok.2 hc
  | .obj lbr ps, hok, hc => by
    rw [FE.ok] at hok; rw [FE.canon] at hc
    rw [FE.toExpr, Expr.wf]
    exact full_wfPairs ps hok.2 hc [] (by simp [Expr.wfPairs]) (by simp [KeysDistinct])
theorem full_wfList : ∀ (es : FEs), es.ok → es.canon → Expr.wfList es.toExprs
  | .nil, _, _ => by rw [FEs.toExprs]; simp [Expr.wfList]
  | .cons e r, hok, hc => by
    rw [FEs.ok] at hok; rw [FEs.canon] at hc
    rw [FEs.toExprs, Expr.wfList]
    exact ⟨full_wf e hok.1 hc.1, full_wfList r hok.2 hc.2⟩
theorem full_wfPairs : ∀ (ps : FPs), ps.ok → ps.canon → ∀ acc, Expr.wfPairs acc → KeysDistinct acc →
    Expr.wfPairs (ps.toPairs acc) ∧ KeysDistinct (ps.toPairs acc)
  | .nil, _, _ => by intro acc h1 h2; rw [FPs.toPairs]; exact ⟨h1, h2⟩
  | .cons key colon v r, hok, hc => by
    intro acc h1 h2
    rw [FPs.ok] at hok; rw [FPs.canon] at hc
    rw [FPs.toPairs]
    exact full_wfPairs r hok.2.2.2 hc.2 _ (mapSet_wfPairs acc key.lit v.toExpr h1 (full_wf v hok.2.2.1 hc.1))
      (mapSet_keysDistinct acc key.lit v.toExpr h2)
end

/-- **parser and evaluator together compute the denotation of the abstract tree** for the whole
    expression language: print any tree (minimal or redundant parentheses), let the model parse
    the tokens and evaluate the result in any environment — the value is `seval` of the token-free
    form of the tree that was printed, and where that has no value the result is an error -/
theorem Full.parse_then_eval_is_denotation (lp rp rbk rbr cm : Token) (hlp : lp.ty = .LPAREN) (hrp : rp.ty = .RPAREN)
    (hrbk : rbk.ty = .RBRACKET) (hrbr : rbr.ty = .RBRACE) (hcm : cm.ty = .COMMA)
    (extra : FE → Bool) (e : FE) (hok : e.ok) (hcanon : e.canon) (k : List Token) (hk : NoIll k) (hstop : StopR LOWEST k) :
    ∃ N, ∀ f, N ≤ f → ∀ p : PS, ∀ (fuel : Nat) (c : Ctx) (env : Env), c.custom = [] →
      Agrees (evalExpr fuel c env
          (parseExpression f LOWEST (p.withToks (Full.showAt lp rp rbk rbr cm extra (LOWEST + 1) e ++ k))).1)
        (seval env e.toExpr.toS) := by
  obtain ⟨N, hN⟩ := Full.parse_print lp rp rbk rbr cm hlp hrp hrbk hrbr hcm extra e hok k hk hstop
  refine ⟨N, fun f hf p fuel c env hc => ?_⟩
  rw [hN f hf p]
  exact (eval_sim fuel).1 c env e.toExpr hc (full_wf e hok hcanon)

end Tw
