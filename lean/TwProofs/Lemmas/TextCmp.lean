/-
  TwProofs.Lemmas.TextCmp — the one-byte comparisons `<` and `>` next to the arithmetic operators:
  `{{ a op1 b op2 d }}` for three integer literals and any two of `+ - * / % < >`, from the source bytes to
  the parsed program (C01: comparison binds looser than the additive and multiplicative levels).
-/
import TwProofs.Lemmas.TextMixed
namespace Tw
open Lx

/-- "<" or ">" that is not followed by "=" -/
def CmpOp (c : Byte) (ty : TT) : Prop := (c = 60 ∧ ty = .LTHAN) ∨ (c = 62 ∧ ty = .GTHAN)

theorem codeStepDesc_cmpop (s : Lx) (c : Byte) (ty : TT) (x : Bytes) (hop : CmpOp c ty) (hr : s.rest = c :: x) (hx : x.headD 0 ≠ 61) :
    codeStepDesc s = { st := s, n := 1, ty := ty, lit := [c] } := by
  have hchar : s.char = c := by simp [Lx.char, hr]
  have hpeek : s.peek = x.headD 0 := by
    cases x with
    | nil => simp [Lx.peek, hr]
    | cons a t => simp [Lx.peek, hr]
  have hp : (x.headD 0 == 61) = false := by simpa using hx
  rcases hop with ⟨rfl, rfl⟩ | ⟨rfl, rfl⟩
  · unfold codeStepDesc
    rw [if_neg (by rw [hchar]; simp)]
    unfold codeDesc
    rw [hchar, show simpleToken 60 = none from by decide]
    simp only []
    unfold bracketDesc
    rw [hchar]
    simp only [show ((60 : Byte) == 123) = false from by decide, show ((60 : Byte) == 125) = false from by decide,
      show ((60 : Byte) == 40) = false from by decide, show ((60 : Byte) == 41) = false from by decide,
      show ((60 : Byte) == 34 || (60 : Byte) == 39) = false from by decide, Bool.false_eq_true, if_false]
    unfold opDesc
    rw [hchar, hpeek]
    simp only [show ((60 : Byte) == 60) = true from by decide, if_true, hp, Bool.false_eq_true, if_false]
  · unfold codeStepDesc
    rw [if_neg (by rw [hchar]; simp)]
    unfold codeDesc
    rw [hchar, show simpleToken 62 = none from by decide]
    simp only []
    unfold bracketDesc
    rw [hchar]
    simp only [show ((62 : Byte) == 123) = false from by decide, show ((62 : Byte) == 125) = false from by decide,
      show ((62 : Byte) == 40) = false from by decide, show ((62 : Byte) == 41) = false from by decide,
      show ((62 : Byte) == 34 || (62 : Byte) == 39) = false from by decide, Bool.false_eq_true, if_false]
    unfold opDesc
    rw [hchar, hpeek]
    simp only [show ((62 : Byte) == 60) = false from by decide, show ((62 : Byte) == 62) = true from by decide, if_true, hp,
      Bool.false_eq_true, if_false]

/-- what the lexer and the parser need to know about a one-byte binary operator -/
structure Op1 (c : Byte) (ty : TT) (pr : Nat) : Prop where
  facts : isWs c = false ∧ isNumberCh c = false ∧ c ≠ 46 ∧ (ty == .RBRACES) = false ∧ (ty == .SEMI) = false ∧ (ty == .RPAREN) = false ∧
      precedence ty = pr ∧ hasInfix ty = true ∧ isBinaryOp ty = true ∧ ty ≠ .ILLEGAL ∧ ty ≠ .EOF ∧ (!decide (LOWEST < pr)) = false
  step : ∀ (s : Lx) (g x : Bytes), s.isHTML = false → allWs g → s.rest = g ++ (c :: x) → x.headD 0 ≠ c → x.headD 0 ≠ 61 →
    ∃ t s1, nextStep s = (.tok t, s1) ∧ key t = (ty, [c]) ∧ t.ty = ty ∧ After s s1 x c

theorem Op1.of_arith {c : Byte} {ty : TT} {pr : Nat} (h : ArithOp c ty pr) : Op1 c ty pr :=
  ⟨h.facts, fun s g x hh hg hr hx _ => code_arithop_step s c ty pr g x h hh hg hr hx⟩

theorem Op1.of_cmp {c : Byte} {ty : TT} (h : CmpOp c ty) : Op1 c ty LESS_GREATER := by
  refine ⟨?_, ?_⟩
  · rcases h with ⟨rfl, rfl⟩ | ⟨rfl, rfl⟩ <;> decide
  · intro s g x hh hg hr _ hx
    have hws : isWs c = false := by rcases h with ⟨rfl, _⟩ | ⟨rfl, _⟩ <;> decide
    have h123 : c ≠ 123 := by rcases h with ⟨rfl, _⟩ | ⟨rfl, _⟩ <;> decide
    obtain ⟨j1, j2⟩ := skipWs_code s hh g _ hg hr (by simpa using hws)
    have hd4 := codeStepDesc_cmpop (skipWs s) c ty x h j1 hx
    have st4 := stepAt_code (skipWs s) (by rw [mode_html j2]; exact hh) (by rw [j1]; simp) (by simp [Lx.char, j1, h123])
    obtain ⟨z1, z2, z3⟩ := emit_after (codeStepDesc (skipWs s)) [c] x (by simp) (by rw [hd4]; simpa using j1) (by rw [hd4]; rfl)
    refine ⟨(codeStepDesc (skipWs s)).emit.1, (codeStepDesc (skipWs s)).emit.2, by unfold nextStep; exact st4, ?_, ?_, ⟨z1, ?_, by rw [z3]; rfl⟩⟩
    · unfold TokDesc.emit; rw [emit_key, hd4]
    · unfold TokDesc.emit; rw [emit_ty, hd4]
    · rw [z2, hd4, j2]

theorem lex_bin3 (s : Lx) (g1 a g3 : Bytes) (c1 : Byte) (ty1 : TT) (pr1 : Nat) (g4 b' g5 : Bytes) (c2 : Byte) (ty2 : TT) (pr2 : Nat)
    (g6 d g2 tl : Bytes) (hh : s.isHTML = true) (hb : s.braces = 0)
    (hg1 : allWs g1) (hg2 : allWs g2) (hg3 : allWs g3) (hg4 : allWs g4) (hg5 : allWs g5) (hg6 : allWs g6)
    (ha : isDigits a) (hbd : isDigits b') (hdd : isDigits d) (hop1 : Op1 c1 ty1 pr1) (hop2 : Op1 c2 ty2 pr2)
    (hr : s.rest = arith3Src g1 a g3 c1 g4 b' g5 c2 g6 d g2 ++ tl) :
    ∃ toks s7, Run s toks s7 ∧ toks.map key = arith3Keys a c1 ty1 b' c2 ty2 d ∧ s7.rest = tl ∧ s7.prev = 125 ∧
      mode s7 = (true, s.isDirective, s.parens, 0, s.panicked) := by
  obtain ⟨p1, p2, p3, _, _, _, _, _, _, _, p11, _⟩ := hop1.facts
  obtain ⟨q1, q2, q3, _, _, _, _, _, _, _, q11, _⟩ := hop2.facts
  obtain ⟨hne, hall⟩ := ha
  have hda : isDigits a := ⟨hne, hall⟩
  have hr' : s.rest = 123 :: 123 :: (g1 ++ (a ++ (g3 ++ (c1 :: (g4 ++ (b' ++ (g5 ++ (c2 :: (g6 ++ (d ++ (g2 ++ (125 :: 125 :: tl)))))))))))) := by
    rw [hr]; simp [arith3Src, List.append_assoc]
  have hx1 : (g1 ++ (a ++ (g3 ++ (c1 :: (g4 ++ (b' ++ (g5 ++ (c2 :: (g6 ++ (d ++ (g2 ++ (125 :: 125 :: tl)))))))))))).headD 0 ≠ 45 := by
    cases g1 with
    | nil =>
      match a, hne, hall with
      | c0 :: v, _, hall =>
        simp only [List.nil_append, List.cons_append, List.headD_cons]
        exact (digit_not_special (hall c0 List.mem_cons_self)).2.2.2.2.2.2.2.2.2.2.1
    | cons w t =>
      have hw : isWs w = true := hg1 w List.mem_cons_self
      simp only [List.cons_append, List.headD_cons]
      intro e; rw [e] at hw; cases hw
  obtain ⟨t1, s1, st1, k1, ne1, r1, _, m1⟩ := lex_open s _ hh hr' hx1
  obtain ⟨a1, a2, a3, a4, a5⟩ := mode_fields m1
  have hx2 := ws_then_op_not_number g3 (g4 ++ (b' ++ (g5 ++ (c2 :: (g6 ++ (d ++ (g2 ++ (125 :: 125 :: tl)))))))) c1 hg3 p2 p3
  obtain ⟨t2, s2, st2, k2, ne2, b2⟩ := code_int_step s1 g1 a _ a1 hg1 hda r1 hx2.1 hx2.2
  have h2 : s2.isHTML = false := by rw [mode_html b2.md]; exact a1
  have hx3 := ws_then_digits_not_op g4 b' (g5 ++ (c2 :: (g6 ++ (d ++ (g2 ++ (125 :: 125 :: tl)))))) c1 hg4 hbd p1 p2
  obtain ⟨t3, s3, st3, k3, ty3, b3⟩ := hop1.step s2 g3 _ h2 hg3 b2.rest hx3 (ws_then_digits_not_op g4 b' _ 61 hg4 hbd (by decide) (by decide))
  have h3 : s3.isHTML = false := by rw [mode_html b3.md]; exact h2
  have hx4 := ws_then_op_not_number g5 (g6 ++ (d ++ (g2 ++ (125 :: 125 :: tl)))) c2 hg5 q2 q3
  obtain ⟨t4, s4, st4, k4, ne4, b4⟩ := code_int_step s3 g4 b' _ h3 hg4 hbd b3.rest hx4.1 hx4.2
  have h4 : s4.isHTML = false := by rw [mode_html b4.md]; exact h3
  have hx5 := ws_then_digits_not_op g6 d (g2 ++ (125 :: 125 :: tl)) c2 hg6 hdd q1 q2
  obtain ⟨t5, s5, st5, k5, ty5, b5⟩ := hop2.step s4 g5 _ h4 hg5 b4.rest hx5 (ws_then_digits_not_op g6 d _ 61 hg6 hdd (by decide) (by decide))
  have h5 : s5.isHTML = false := by rw [mode_html b5.md]; exact h4
  have hx6 := ws_or_brace_not_number g2 tl hg2
  obtain ⟨t6, s6, st6, k6, ne6, b6⟩ := code_int_step s5 g6 d _ h5 hg6 hdd b5.rest hx6.1 hx6.2
  have h6 : s6.isHTML = false := by rw [mode_html b6.md]; exact h5
  have br6 : s6.braces = 0 := by
    rw [mode_braces b6.md, mode_braces b5.md, mode_braces b4.md, mode_braces b3.md, mode_braces b2.md, a4]; exact hb
  obtain ⟨t7, s7, st7, k7, ne7, r7, pv7, m7⟩ := code_close_step s6 g2 tl h6 br6 hg2 b6.rest
  refine ⟨[t1, t2, t3, t4, t5, t6, t7], s7, ?_, ?_, r7, pv7, ?_⟩
  · exact Run.cons _ _ _ _ _ st1 ne1 (Run.cons _ _ _ _ _ st2 ne2 (Run.cons _ _ _ _ _ st3 (by rw [ty3]; exact p11) (Run.cons _ _ _ _ _ st4 ne4
      (Run.cons _ _ _ _ _ st5 (by rw [ty5]; exact q11) (Run.cons _ _ _ _ _ st6 ne6 (Run.cons _ _ _ _ _ st7 ne7 (Run.nil _)))))))
  · simp [arith3Keys, k1, k2, k3, k4, k5, k6, k7]
  · rw [m7, mode_dir b6.md, mode_dir b5.md, mode_dir b4.md, mode_dir b3.md, mode_dir b2.md, a2, mode_parens b6.md, mode_parens b5.md,
      mode_parens b4.md, mode_parens b3.md, mode_parens b2.md, a3, mode_pan b6.md, mode_pan b5.md, mode_pan b4.md, mode_pan b3.md,
      mode_pan b2.md, a5]

theorem bin3Code_ok (g1 a g3 : Bytes) (c1 : Byte) (ty1 : TT) (pr1 : Nat) (g4 b' g5 : Bytes) (c2 : Byte) (ty2 : TT) (pr2 : Nat) (g6 d g2 : Bytes)
    (hg1 : allWs g1) (hg2 : allWs g2) (hg3 : allWs g3) (hg4 : allWs g4) (hg5 : allWs g5) (hg6 : allWs g6)
    (ha : isDigits a) (hbd : isDigits b') (hdd : isDigits d) (hop1 : Op1 c1 ty1 pr1) (hop2 : Op1 c2 ty2 pr2) :
    (arith3Code g1 a g3 c1 ty1 g4 b' g5 c2 ty2 g6 d g2).OK := by
  refine ⟨?_, ?_, ?_⟩
  · intro tl
    exact Or.inr (Or.inl ⟨g1 ++ a ++ g3 ++ [c1] ++ g4 ++ b' ++ g5 ++ [c2] ++ g6 ++ d ++ g2 ++ [125, 125] ++ tl,
      by simp [arith3Code, arith3Src, List.append_assoc]⟩)
  · have la : 0 < a.length := List.length_pos_iff.mpr ha.1
    have lb : 0 < b'.length := List.length_pos_iff.mpr hbd.1
    simp [arith3Code, arith3Src, arith3Keys]; omega
  · intro s tl hr hh hb hpa hdi _
    obtain ⟨toks, s7, run, hkeys, r7, pv7, m7⟩ := lex_bin3 s g1 a g3 c1 ty1 pr1 g4 b' g5 c2 ty2 pr2 g6 d g2 tl hh hb hg1 hg2 hg3 hg4 hg5 hg6
      ha hbd hdd hop1 hop2 hr
    obtain ⟨f1, f2, f3, f4, f5⟩ := mode_fields m7
    exact ⟨toks, s7, run, hkeys, r7, f1, f4, by rw [f3]; exact hpa, by rw [f2]; exact hdi, f5, by rw [pv7]; decide⟩

/-- one step of the operator loop: an operator that binds tighter than the level, applied to the operand
    `right` that `parseExpression` returns for it -/
theorem prattLoop_bin_step (f prec : Nat) (left right : Expr) (t top tnext : Token) (rest rest' : List Token) (c : Byte) (ty : TT) (pr : Nat)
    (hop : Op1 c ty pr) (htop : top.ty = ty) (hlt : prec < pr) (hnext : tnext.ty ≠ .RBRACES)
    (hclean : ∀ x ∈ tnext :: rest, x.ty ≠ .ILLEGAL)
    (hright : parseExpression f pr ({ toks := tnext :: rest } : PS) = (right, { toks := rest' })) :
    prattLoop (f + 1) prec left ({ toks := t :: top :: tnext :: rest } : PS) =
      prattLoop f prec (.inf top top.lit left right) ({ toks := rest' } : PS) := by
  obtain ⟨_, _, _, f4, f5, f6, f7, f8, f9, f10, _, _⟩ := hop.facts
  have c3 := noill_cons (t := top) (by rw [htop]; exact f10) hclean
  have nx2 : ({ toks := t :: top :: tnext :: rest } : PS).next = { toks := top :: tnext :: rest } := ps_next_clean t top _ c3
  have nx3 : ({ toks := top :: tnext :: rest } : PS).next = { toks := tnext :: rest } := ps_next_clean top tnext _ hclean
  rw [prattLoop_succ]
  have e1 : ({ toks := t :: top :: tnext :: rest } : PS).peekIs .RBRACES = false := by simp [PS.peekIs, PS.peek, htop, f4]
  have e2 : ({ toks := t :: top :: tnext :: rest } : PS).peekIs .SEMI = false := by simp [PS.peekIs, PS.peek, htop, f5]
  have e3 : ({ toks := t :: top :: tnext :: rest } : PS).peekIs .RPAREN = false := by simp [PS.peekIs, PS.peek, htop, f6]
  have e4 : ({ toks := t :: top :: tnext :: rest } : PS).peekPrecedence = pr := by simp [PS.peekPrecedence, PS.peek, htop, f7]
  have e5 : ({ toks := t :: top :: tnext :: rest } : PS).peek.ty = ty := by simp [PS.peek, htop]
  have e6 : (!decide (prec < pr)) = false := by simp [hlt]
  simp only [e1, e2, e3, e4, e5, e6, Bool.or_self, Bool.false_eq_true, if_false, f8, Bool.not_true, nx2]
  have hinf : infixBody (parseExpression f) (parseExprList f) left ({ toks := top :: tnext :: rest } : PS) =
      (.inf top top.lit left right, { toks := rest' }) := by
    unfold infixBody
    have c0 : ({ toks := top :: tnext :: rest } : PS).cur = top := rfl
    have cp : ({ toks := top :: tnext :: rest } : PS).curPrecedence = pr := by simp [PS.curPrecedence, PS.cur, htop, f7]
    have cr : ({ toks := tnext :: rest } : PS).curIs .RBRACES = false := by simp [PS.curIs, PS.cur, hnext]
    simp only [c0, htop, f9, if_true, nx3, cr, Bool.false_eq_true, if_false, cp, hright]
  rw [hinf]

theorem parse_bin3_expr (k : Nat) (t2 t3 t4 t5 t6 t7 : Token) (tail : List Token) (va vb vd : Int64)
    (c1 : Byte) (ty1 : TT) (pr1 : Nat) (c2 : Byte) (ty2 : TT) (pr2 : Nat) (hop1 : Op1 c1 ty1 pr1) (hop2 : Op1 c2 ty2 pr2)
    (h2 : t2.ty = .INT) (h3 : t3.ty = ty1) (h4 : t4.ty = .INT) (h5 : t5.ty = ty2) (h6 : t6.ty = .INT) (h7 : t7.ty = .RBRACES)
    (hva : parseInt64 t2.lit = some va) (hvb : parseInt64 t4.lit = some vb) (hvd : parseInt64 t6.lit = some vd)
    (hclean : ∀ x ∈ tail, x.ty ≠ .ILLEGAL) :
    parseExpression (k + 6) LOWEST ({ toks := t2 :: t3 :: t4 :: t5 :: t6 :: t7 :: tail } : PS) =
      (arith3Tree pr1 pr2 t2 t3 t4 t5 t6 va vb vd, { toks := t6 :: t7 :: tail }) := by
  obtain ⟨_, _, _, _, _, _, p7, _, _, p10, _, p12⟩ := hop1.facts
  obtain ⟨_, _, _, _, _, _, q7, _, _, q10, _, q12⟩ := hop2.facts
  have l1 : LOWEST < pr1 := by simpa using p12
  have l2 : LOWEST < pr2 := by simpa using q12
  have c7 := noill_cons (t := t7) (by rw [h7]; decide) hclean
  have c6 := noill_cons (t := t6) (by rw [h6]; decide) c7
  have c5 := noill_cons (t := t5) (by rw [h5]; exact q10) c6
  have c4 := noill_cons (t := t4) (by rw [h4]; decide) c5
  rw [parseExpression_succ]
  have hp : prefixBody (parseExpression (k + 5)) (parseExprList (k + 5)) (parseObjLoop (k + 5))
      ({ toks := t2 :: t3 :: t4 :: t5 :: t6 :: t7 :: tail } : PS) = some (.int t2 va, { toks := t2 :: t3 :: t4 :: t5 :: t6 :: t7 :: tail }) := by
    unfold prefixBody
    simp [PS.cur, h2, hva]
  rw [hp]
  simp only []
  have n4 : t4.ty ≠ .RBRACES := by rw [h4]; decide
  have n6 : t6.ty ≠ .RBRACES := by rw [h6]; decide
  have hd : parseExpression (k + 2) pr2 ({ toks := t6 :: t7 :: tail } : PS) = (.int t6 vd, { toks := t6 :: t7 :: tail }) :=
    parse_int_operand k pr2 t6 t7 tail vd h6 hvd (Or.inl h7)
  by_cases hlt : pr1 < pr2
  · -- the second operator binds tighter: it takes `b`
    have hinner : parseExpression (k + 4) pr1 ({ toks := t4 :: t5 :: t6 :: t7 :: tail } : PS) =
        (.inf t5 t5.lit (.int t4 vb) (.int t6 vd), { toks := t6 :: t7 :: tail }) := by
      rw [parseExpression_succ]
      have hp4 : prefixBody (parseExpression (k + 3)) (parseExprList (k + 3)) (parseObjLoop (k + 3))
          ({ toks := t4 :: t5 :: t6 :: t7 :: tail } : PS) = some (.int t4 vb, { toks := t4 :: t5 :: t6 :: t7 :: tail }) := by
        unfold prefixBody
        simp [PS.cur, h4, hvb]
      rw [hp4]
      simp only []
      rw [prattLoop_bin_step (k + 2) pr1 (.int t4 vb) (.int t6 vd) t4 t5 t6 (t7 :: tail) (t6 :: t7 :: tail) c2 ty2 pr2 hop2 h5 hlt n6 c6 hd]
      exact prattLoop_stop_rbraces (k + 1) pr1 _ t6 t7 tail h7
    rw [prattLoop_bin_step (k + 4) LOWEST (.int t2 va) _ t2 t3 t4 (t5 :: t6 :: t7 :: tail) (t6 :: t7 :: tail) c1 ty1 pr1 hop1 h3 l1 n4 c4 hinner]
    rw [prattLoop_stop_rbraces (k + 3) LOWEST _ t6 t7 tail h7]
    simp [arith3Tree, hlt]
  · -- the first operator keeps `b`; the second one applies to the result
    have hb : parseExpression (k + 4) pr1 ({ toks := t4 :: t5 :: t6 :: t7 :: tail } : PS) = (.int t4 vb, { toks := t4 :: t5 :: t6 :: t7 :: tail }) :=
      parse_int_operand (k + 2) pr1 t4 t5 (t6 :: t7 :: tail) vb h4 hvb (Or.inr (by rw [h5, q7]; exact hlt))
    rw [prattLoop_bin_step (k + 4) LOWEST (.int t2 va) _ t2 t3 t4 (t5 :: t6 :: t7 :: tail) (t4 :: t5 :: t6 :: t7 :: tail) c1 ty1 pr1 hop1 h3 l1 n4 c4 hb]
    have hd3 : parseExpression (k + 3) pr2 ({ toks := t6 :: t7 :: tail } : PS) = (.int t6 vd, { toks := t6 :: t7 :: tail }) :=
      parse_int_operand (k + 1) pr2 t6 t7 tail vd h6 hvd (Or.inl h7)
    rw [prattLoop_bin_step (k + 3) LOWEST _ (.int t6 vd) t4 t5 t6 (t7 :: tail) (t6 :: t7 :: tail) c2 ty2 pr2 hop2 h5 l2 n6 c6 hd3]
    rw [prattLoop_stop_rbraces (k + 2) LOWEST _ t6 t7 tail h7]
    simp [arith3Tree, hlt]

/-- **`{{ a op1 b op2 d }}`, parsed** -/
theorem parse_bin3_source (g1 a g3 : Bytes) (c1 : Byte) (ty1 : TT) (pr1 : Nat) (g4 b' g5 : Bytes) (c2 : Byte) (ty2 : TT) (pr2 : Nat) (g6 d g2 : Bytes)
    (hg1 : allWs g1) (hg2 : allWs g2) (hg3 : allWs g3) (hg4 : allWs g4) (hg5 : allWs g5) (hg6 : allWs g6)
    (ha : isDigits a) (hbd : isDigits b') (hdd : isDigits d) (hop1 : Op1 c1 ty1 pr1) (hop2 : Op1 c2 ty2 pr2)
    (hba : digitsToNat a ≤ 9223372036854775807) (hbb : digitsToNat b' ≤ 9223372036854775807) (hbd' : digitsToNat d ≤ 9223372036854775807) :
    ∃ prog t2 t3 t4 t5 t6, parseSource (arith3Src g1 a g3 c1 g4 b' g5 c2 g6 d g2) = .ok prog ∧ t3.lit = [c1] ∧ t5.lit = [c2] ∧
      prog.stmts = [.expr t6 (arith3Tree pr1 pr2 t2 t3 t4 t5 t6 (Int64.ofNat (digitsToNat a)) (Int64.ofNat (digitsToNat b')) (Int64.ofNat (digitsToNat d)))] := by
  obtain ⟨_, _, _, _, _, _, _, _, _, p10, _, _⟩ := hop1.facts
  obtain ⟨_, _, _, _, _, _, _, _, _, q10, _, _⟩ := hop2.facts
  have hok : GItemsOK [.code (arith3Code g1 a g3 c1 ty1 g4 b' g5 c2 ty2 g6 d g2)] :=
    ⟨bin3Code_ok g1 a g3 c1 ty1 pr1 g4 b' g5 c2 ty2 pr2 g6 d g2 hg1 hg2 hg3 hg4 hg5 hg6 ha hbd hdd hop1 hop2, trivial⟩
  obtain ⟨toks, e, htok, hkeys, he⟩ := tokenize_gitems _ hok
  have hsrc : gsrc [.code (arith3Code g1 a g3 c1 ty1 g4 b' g5 c2 ty2 g6 d g2)] = arith3Src g1 a g3 c1 g4 b' g5 c2 g6 d g2 := by
    simp [gsrc, GItem.src, arith3Code]
  rw [hsrc] at htok
  have hk' : toks.map key = arith3Keys a c1 ty1 b' c2 ty2 d := by simpa [gkeys, arith3Code] using hkeys
  match toks, hk' with
  | [], hk' => simp [arith3Keys] at hk'
  | [_], hk' => simp [arith3Keys] at hk'
  | [_, _], hk' => simp [arith3Keys] at hk'
  | [_, _, _], hk' => simp [arith3Keys] at hk'
  | [_, _, _, _], hk' => simp [arith3Keys] at hk'
  | [_, _, _, _, _], hk' => simp [arith3Keys] at hk'
  | [_, _, _, _, _, _], hk' => simp [arith3Keys] at hk'
  | _ :: _ :: _ :: _ :: _ :: _ :: _ :: _ :: _, hk' => simp [arith3Keys] at hk'
  | [t1, t2, t3, t4, t5, t6, t7], hk' =>
    simp only [arith3Keys, List.map_cons, List.map_nil, List.cons.injEq, and_true] at hk'
    obtain ⟨hk1, hk2, hk3, hk4, hk5, hk6, hk7⟩ := hk'
    have ty1' : t1.ty = .LBRACES := congrArg Prod.fst hk1
    have ty2' : t2.ty = .INT := congrArg Prod.fst hk2
    have lit2 : t2.lit = a := congrArg Prod.snd hk2
    have ty3' : t3.ty = ty1 := congrArg Prod.fst hk3
    have lit3 : t3.lit = [c1] := congrArg Prod.snd hk3
    have ty4' : t4.ty = .INT := congrArg Prod.fst hk4
    have lit4 : t4.lit = b' := congrArg Prod.snd hk4
    have ty5' : t5.ty = ty2 := congrArg Prod.fst hk5
    have lit5 : t5.lit = [c2] := congrArg Prod.snd hk5
    have ty6' : t6.ty = .INT := congrArg Prod.fst hk6
    have lit6 : t6.lit = d := congrArg Prod.snd hk6
    have ty7' : t7.ty = .RBRACES := congrArg Prod.fst hk7
    have hce : ∀ x ∈ [e], x.ty ≠ .ILLEGAL := by intro x hx; simp at hx; rw [hx, he]; decide
    have c7 := noill_cons (t := t7) (by rw [ty7']; decide) hce
    have c6 := noill_cons (t := t6) (by rw [ty6']; decide) c7
    have c5 := noill_cons (t := t5) (by rw [ty5']; exact q10) c6
    have c4 := noill_cons (t := t4) (by rw [ty4']; decide) c5
    have c3 := noill_cons (t := t3) (by rw [ty3']; exact p10) c4
    have c2' := noill_cons (t := t2) (by rw [ty2']; decide) c3
    have hcl : ∀ x ∈ [t1, t2, t3, t4, t5, t6, t7] ++ [e], x.ty ≠ .ILLEGAL := noill_cons (by rw [ty1']; decide) c2'
    refine ⟨{ tok := t1, stmts := [.expr t6 (arith3Tree pr1 pr2 t2 t3 t4 t5 t6 (Int64.ofNat (digitsToNat a)) (Int64.ofNat (digitsToNat b'))
      (Int64.ofNat (digitsToNat d)))] }, t2, t3, t4, t5, t6, ?_, lit3, lit5, rfl⟩
    unfold parseSource
    rw [htok]
    simp only [Bool.false_eq_true, if_false]
    rw [initParser_clean _ hcl]
    have hfuel : parseFuel ([t1, t2, t3, t4, t5, t6, t7] ++ [e]) = 42 + 6 := by simp [parseFuel]
    rw [hfuel]
    have hex := parse_bin3_expr 40 t2 t3 t4 t5 t6 t7 [e] _ _ _ c1 ty1 pr1 c2 ty2 pr2 hop1 hop2 ty2' ty3' ty4' ty5' ty6' ty7'
      (by rw [lit2]; exact parseInt64_digits a ha hba) (by rw [lit4]; exact parseInt64_digits b' hbd hbb)
      (by rw [lit6]; exact parseInt64_digits d hdd hbd') hce
    have hst := parse_expr_stmt_of 46 t1 t2 t6 t7 [t3, t4, t5, t6, t7, e] [e] _ ty1' ty2' ty7' c2' c6 hex
    have hloop : parseProgramLoop (42 + 6) [] ({ toks := [t1, t2, t3, t4, t5, t6, t7] ++ [e] } : PS) =
        (some [.expr t6 (arith3Tree pr1 pr2 t2 t3 t4 t5 t6 (Int64.ofNat (digitsToNat a)) (Int64.ofNat (digitsToNat b'))
          (Int64.ofNat (digitsToNat d)))], { toks := [e] }) := by
      rw [show 42 + 6 = 47 + 1 from rfl, parseProgramLoop]
      have c0 : ({ toks := [t1, t2, t3, t4, t5, t6, t7] ++ [e] } : PS).curIs .EOF = false := by simp [PS.curIs, PS.cur, ty1']
      simp only [c0, Bool.false_eq_true, if_false]
      simp only [List.cons_append, List.nil_append] at hst ⊢
      rw [show 47 = 46 + 1 from rfl, hst]
      have i5 : ({ toks := [t7, e] } : PS).curIs .ILLEGAL = false := by simp [PS.curIs, PS.cur, ty7']
      simp only [i5, Bool.false_eq_true, if_false, Stmt.isBad]
      have nx : ({ toks := [t7, e] } : PS).next = { toks := [e] } := ps_next_clean t7 e [] hce
      rw [nx, show 46 + 1 = 46 + 1 from rfl, parseProgramLoop]
      have ce : ({ toks := [e] } : PS).curIs .EOF = true := by simp [PS.curIs, PS.cur, he]
      simp [ce]
    rw [hloop]
    simp [finishParse, PS.cur]


end Tw
