/-
  TwProofs.Lemmas.SimpleBlock — blocks made of text and plain variable prints: what they render
  is their text with the holes filled from the environment (used by C03 and C17).
-/
import TwModel
import TwProofs.Lemmas.EvalStep
namespace Tw

theorem env_push_get (env : Env) (k : Bytes) : env.push.get k = env.get k := by
  simp [Env.push, Env.get, mapGet]

/-- text and plain variables only -/
def simpleBlock : List Stmt → Bool
  | [] => true
  | .html _ :: r => simpleBlock r
  | .expr _ (.ident _ _) :: r => simpleBlock r
  | _ => false

/-- a piece of fixed text, or the place where a variable is printed -/
inductive Piece where
  | text (t : Bytes)
  | hole (name : Bytes)
  deriving DecidableEq

def piecesOf : List Stmt → List Piece
  | [] => []
  | .html t :: r => .text t.lit :: piecesOf r
  | .expr _ (.ident _ n) :: r => .hole n :: piecesOf r
  | _ :: r => piecesOf r

def holesBound (env : Env) : List Piece → Prop
  | [] => True
  | .text _ :: r => holesBound env r
  | .hole n :: r => (env.get n).isSome = true ∧ holesBound env r

instance (env : Env) : (ps : List Piece) → Decidable (holesBound env ps)
  | [] => isTrue trivial
  | .text _ :: r => by unfold holesBound; exact instDecidableHolesBound env r
  | .hole _ :: r => by
    have := instDecidableHolesBound env r
    unfold holesBound; exact inferInstance

/-- the text with every hole replaced by the printed value of its variable -/
def fill (env : Env) : List Piece → Bytes
  | [] => []
  | .text t :: r => t ++ fill env r
  | .hole n :: r => ((env.get n).map Val.toStr).getD [] ++ fill env r

theorem holesBound_append (env : Env) : ∀ (a c : List Piece), holesBound env (a ++ c) ↔ holesBound env a ∧ holesBound env c
  | [], c => by simp [holesBound]
  | .text _ :: r, c => by simp [holesBound, holesBound_append env r c]
  | .hole _ :: r, c => by simp [holesBound, holesBound_append env r c, and_assoc]

theorem fill_append (env : Env) : ∀ (a c : List Piece), fill env (a ++ c) = fill env a ++ fill env c
  | [], c => by simp [fill]
  | .text _ :: r, c => by simp [fill, fill_append env r c]
  | .hole _ :: r, c => by simp [fill, fill_append env r c]

theorem fill_push (env : Env) : ∀ ps : List Piece, fill env.push ps = fill env ps
  | [] => rfl
  | .text _ :: r => by simp [fill, fill_push env r]
  | .hole n :: r => by simp [fill, fill_push env r, env_push_get]

theorem holesBound_push (env : Env) : ∀ ps : List Piece, holesBound env ps → holesBound env.push ps
  | [], _ => trivial
  | .text _ :: r, h => holesBound_push env r h
  | .hole n :: r, h => ⟨by rw [env_push_get]; exact h.1, holesBound_push env r h.2⟩

theorem evalBlock_simple (c : Ctx) (env : Env) : ∀ (ss : List Stmt) (fuel : Nat), simpleBlock ss = true →
    holesBound env (piecesOf ss) → ss.length + 2 ≤ fuel →
    evalBlock (fuel + 1) c env ss = .ok ({ text := fill env (piecesOf ss) }, env) := by
  intro ss
  induction ss with
  | nil => intro fuel _ _ _; rw [evalBlock_nil]; simp [piecesOf, fill]
  | cons s r ih =>
    intro fuel hs hb hf
    obtain ⟨f, rfl⟩ : ∃ f, fuel = f + 2 := ⟨fuel - 2, by simp at hf; omega⟩
    cases s with
    | html t =>
      have := ih (f + 1) (by simpa [simpleBlock] using hs) (by simpa [piecesOf, holesBound] using hb) (by simp at hf; omega)
      rw [evalBlock_cons, show f + 2 = (f + 1) + 1 from rfl, evalStmt_html]
      simp only [Res.bind_ok, Bool.false_eq_true, Bool.or_self, if_false, this, piecesOf, fill]
    | expr t e =>
      cases e with
      | ident t2 n =>
        have hb' : (env.get n).isSome = true ∧ holesBound env (piecesOf r) := by simpa [piecesOf, holesBound] using hb
        obtain ⟨v, hv⟩ := Option.isSome_iff_exists.mp hb'.1
        have := ih (f + 1) (by simpa [simpleBlock] using hs) hb'.2 (by simp at hf; omega)
        rw [evalBlock_cons, show f + 2 = (f + 1) + 1 from rfl, evalStmt_succ]
        simp only [stmtBody, calleesAt_expr, evalExpr, hv, Res.bind_ok, Bool.false_eq_true, Bool.or_self, if_false]
        rw [show f + 1 + 1 = (f + 1) + 1 from rfl, this]
        simp [piecesOf, fill, hv]
      | _ => simp [simpleBlock] at hs
    | _ => simp [simpleBlock] at hs


end Tw
