/-
  TwProofs.Lemmas.GenItems — templates as text runs and pieces of code, generically: a piece of
  code is described by its source bytes, the kinds and literals of its tokens and the fact that the
  lexer, started in text mode at its first byte, reads exactly these tokens and is back in text
  mode behind it.  The token list of a whole template made of such items follows by one induction
  (used for layouts and for pages that use a layout, C06).
-/
import TwProofs.Lemmas.CodeSteps
import TwProofs.Lemmas.LexStrPlain
namespace Tw
open Lx

/-- a piece of code: source and the keys (kind, literal) of its tokens -/
structure Code where
  src : Bytes
  keys : List (TT × Bytes)

/-- what lexing the piece does, from text mode, whatever follows it -/
def Code.Lexes (c : Code) : Prop :=
  ∀ (s : Lx) (tl : Bytes), s.rest = c.src ++ tl → s.isHTML = true → s.braces = 0 → s.parens = 0 → s.isDirective = false →
    s.prev ≠ 92 →
    ∃ toks s1, Run s toks s1 ∧ toks.map key = c.keys ∧ s1.rest = tl ∧ s1.isHTML = true ∧ s1.braces = 0 ∧ s1.parens = 0 ∧
      s1.isDirective = false ∧ s1.panicked = s.panicked ∧ s1.prev ≠ 92

structure Code.OK (c : Code) : Prop where
  stops : ∀ tl, Stops (c.src ++ tl)
  short : c.keys.length ≤ c.src.length
  lexes : c.Lexes

inductive GItem where
  | text (segs : List Seg)
  | code (c : Code)

def GItem.src : GItem → Bytes
  | .text segs => segsSrc segs
  | .code c => c.src

def gsrc : List GItem → Bytes
  | [] => []
  | i :: r => i.src ++ gsrc r

def gkeys : List GItem → List (TT × Bytes)
  | [] => []
  | .text segs :: r => (.HTML, segsLit segs) :: gkeys r
  | .code c :: r => c.keys ++ gkeys r

/-- a run is followed by the end or by code, and then does not end in a backslash -/
def afterRunG (segs : List Seg) : List GItem → Prop
  | [] => True
  | .text _ :: _ => False
  | .code _ :: _ => lastOr (segsSrc segs) 0 ≠ 92

def GItemsOK : List GItem → Prop
  | [] => True
  | .text segs :: r => startsRun segs ∧ SegsOK segs (gsrc r) ∧ afterRunG segs r ∧ GItemsOK r
  | .code c :: r => c.OK ∧ GItemsOK r

def gfuel : List GItem → Nat
  | [] => 0
  | .text _ :: r => 1 + gfuel r
  | .code c :: r => c.keys.length + gfuel r

theorem afterRunG_stops (segs : List Seg) (r : List GItem) (hok : GItemsOK r) (h : afterRunG segs r) :
    Stops (gsrc r) ∧ (gsrc r ≠ [] → lastOr (segsSrc segs) 0 ≠ 92) := by
  cases r with
  | nil => exact ⟨Or.inl rfl, fun h => absurd rfl h⟩
  | cons it r' =>
    cases it with
    | text _ => exact absurd h (by simp [afterRunG])
    | code c => exact ⟨hok.1.stops _, fun _ => h⟩

/-- the byte before a piece of code is no backslash -/
def PrevOKG (s : Lx) : List GItem → Prop
  | .code _ :: _ => s.prev ≠ 92
  | _ => True

theorem prevOKG_of (s : Lx) (r : List GItem) (h : s.prev ≠ 92) : PrevOKG s r := by
  cases r with
  | nil => trivial
  | cons it _ => cases it <;> first | trivial | exact h

theorem lexAll_gitems : ∀ (items : List GItem), GItemsOK items → ∀ (s : Lx) (fuel : Nat), s.rest = gsrc items →
    s.isHTML = true → s.panicked = false → s.braces = 0 → s.parens = 0 → s.isDirective = false → PrevOKG s items →
    gfuel items + 1 ≤ fuel →
    ∃ toks e sf, lexAll fuel s = some (toks ++ [e], sf) ∧ toks.map key = gkeys items ∧ e.ty = .EOF ∧
      sf.isHTML = true ∧ sf.panicked = false
  | [], _, s, fuel, hr, hh, hp, _, _, _, _, hf => by
    obtain ⟨g, rfl⟩ : ∃ g, fuel = g + 1 := ⟨fuel - 1, by omega⟩
    have hst := nextStep_eof s hh (by simpa [gsrc] using hr)
    refine ⟨[], s.tokenBegins.newToken .EOF [], s.tokenBegins, ?_, rfl, by simp [newToken],
      by simpa [Lx.tokenBegins] using hh, by simpa [Lx.tokenBegins] using hp⟩
    rw [lexAll, hst]
    simp [newToken]
  | .text segs :: r, hok, s, fuel, hr, hh, hp, hb, hpa, hd, _, hf => by
    obtain ⟨hstart, hsegs, hafter, hokr⟩ := hok
    obtain ⟨g, rfl⟩ : ∃ g, fuel = g + 1 := ⟨fuel - 1, by omega⟩
    have hr' : s.rest = segsSrc segs ++ gsrc r := by rw [hr]; simp [gsrc, GItem.src]
    obtain ⟨hstop, hlast⟩ := afterRunG_stops segs r hokr hafter
    obtain ⟨t, s1, hst1, hk1, hne1, hr1, hh1, hp1, hb1, hpa1, hd1, hprev1⟩ := lex_run s segs (gsrc r) hh hstart hsegs hr' hstop hlast
    have hpo : PrevOKG s1 r := by
      cases r with
      | nil => trivial
      | cons it r' =>
        cases it with
        | code c => show s1.prev ≠ 92; rw [hprev1]; exact hafter
        | text _ => trivial
    obtain ⟨toks, e, sf, hl, hm, he, hhf, hpf⟩ := lexAll_gitems r hokr s1 g hr1 hh1 (by rw [hp1]; exact hp)
      (by rw [hb1]; exact hb) (by rw [hpa1]; exact hpa) (by rw [hd1]; exact hd) hpo (by simp [gfuel] at hf; omega)
    refine ⟨t :: toks, e, sf, ?_, by simp [gkeys, hk1, hm], he, hhf, hpf⟩
    rw [lexAll, hst1]
    simp only []
    have : (t.ty == TT.EOF) = false := by simpa using hne1
    rw [this, hl]
    rfl
  | .code c :: r, hok, s, fuel, hr, hh, hp, hb, hpa, hd, hpv, hf => by
    obtain ⟨hc, hokr⟩ := hok
    obtain ⟨ts, s1, hrun, hk, r1, h1, b1, pa1, d1, p1, pv1⟩ := hc.lexes s (gsrc r) (by rw [hr]; simp [gsrc, GItem.src]) hh hb hpa hd hpv
    have hlen : ts.length = c.keys.length := by rw [← hk]; simp
    obtain ⟨g, hg⟩ : ∃ g, fuel = ts.length + g := ⟨fuel - ts.length, by simp [gfuel] at hf; omega⟩
    obtain ⟨toks, e, sf, hl, hm, he, hhf, hpf⟩ := lexAll_gitems r hokr s1 g r1 h1 (by rw [p1]; exact hp) b1 pa1 d1
      (prevOKG_of s1 r pv1) (by simp [gfuel] at hf; omega)
    have := lexAll_run_forward hrun g (toks ++ [e], sf) hl
    refine ⟨ts ++ toks, e, sf, ?_, by simp [gkeys, hk, hm], he, hhf, hpf⟩
    rw [hg]
    simpa [List.append_assoc] using this

theorem gfuel_le_src : ∀ (items : List GItem), GItemsOK items → gfuel items ≤ (gsrc items).length
  | [], _ => by simp [gfuel]
  | .code c :: r, hok => by
    have := gfuel_le_src r hok.2
    have := hok.1.short
    simp [gsrc, GItem.src, gfuel]; omega
  | .text segs :: r, hok => by
    have := gfuel_le_src r hok.2.2.2
    have hne : (segsSrc segs).length ≠ 0 := by
      obtain ⟨hst, _⟩ := hok
      cases segs with
      | nil => exact absurd hst (by simp [startsRun])
      | cons sg r' =>
        cases sg with
        | esc c => simp [segsSrc, Seg.src]
        | plain p =>
          cases p with
          | nil => exact absurd hst (by simp [startsRun])
          | cons c p' => simp [segsSrc, Seg.src]
    simp [gsrc, GItem.src, gfuel]; omega

/-- **the token list of a template of text runs and pieces of code** -/
theorem tokenize_gitems (items : List GItem) (hok : GItemsOK items) :
    ∃ toks e, tokenize (gsrc items) = some { toks := toks ++ [e], insideCode := false, panicked := false } ∧
      toks.map key = gkeys items ∧ e.ty = .EOF := by
  have hlen := gfuel_le_src items hok
  have hpo : PrevOKG (Lx.init (gsrc items)) items := prevOKG_of _ _ (by simp [Lx.prev, Lx.init])
  obtain ⟨toks, e, sf, hl, hm, he, hhf, hpf⟩ := lexAll_gitems items hok (Lx.init (gsrc items)) (lexFuel (gsrc items))
    rfl rfl rfl rfl rfl rfl hpo (by unfold lexFuel; omega)
  refine ⟨toks, e, ?_, hm, he⟩
  unfold tokenize
  rw [hl]
  simp [hhf, hpf]

/-! ### more single steps in code -/

/-- a string literal without its own quote and without backslash, after any white space, in code -/
theorem code_str_step (s : Lx) (g : Bytes) (q : Byte) (c x : Bytes) (hh : s.isHTML = false) (hg : allWs g)
    (hq : q = 34 ∨ q = 39) (hp : PlainStr q c) (hr : s.rest = g ++ (q :: (c ++ q :: x))) :
    ∃ t s1, nextStep s = (.tok t, s1) ∧ key t = (.STR, c) ∧ t.ty ≠ .EOF ∧ After s s1 x q := by
  have hqws : isWs q = false := by rcases hq with h | h <;> subst h <;> decide
  obtain ⟨k1, k2⟩ := skipWs_code s hh g _ hg hr (by simpa using hqws)
  obtain ⟨d1, d2, d3, d4⟩ := strDesc_plain (skipWs s) q c x k1 hp
  have hc2 : (skipWs s).char = q := by simp [Lx.char, k1]
  have hcs2 : codeStepDesc (skipWs s) = strDesc (skipWs s) := by
    unfold codeStepDesc
    rw [if_neg (by rw [hc2]; rcases hq with h | h <;> subst h <;> simp)]
    exact codeDesc_string _ (by rw [hc2]; exact hq)
  have step2 := stepAt_code (skipWs s) (by rw [mode_html k2]; exact hh) (by rw [k1]; simp)
    (by rw [hc2]; rcases hq with h | h <;> subst h <;> simp)
  obtain ⟨a1, a2, a3⟩ := emit_after (codeStepDesc (skipWs s)) (q :: (c ++ [q])) x (by simp)
    (by rw [hcs2, d4, k1]; simp) (by rw [hcs2, d1]; simp)
  refine ⟨(codeStepDesc (skipWs s)).emit.1, (codeStepDesc (skipWs s)).emit.2, by unfold nextStep; exact step2, ?_, ?_, ⟨a1, ?_, ?_⟩⟩
  · unfold TokDesc.emit; rw [emit_key, hcs2, d2, d3]
  · unfold TokDesc.emit; rw [emit_ty, hcs2, d2]; decide
  · rw [a2, hcs2, d4, k2]
  · rw [a3]; simp

theorem codeStepDesc_comma (s : Lx) (x : Bytes) (hr : s.rest = 44 :: x) :
    codeStepDesc s = { st := s, n := 1, ty := .COMMA, lit := [44] } := by
  have hc : s.char = 44 := by simp [Lx.char, hr]
  unfold codeStepDesc
  rw [if_neg (by rw [hc]; simp)]
  unfold codeDesc
  rw [hc]
  have : simpleToken 44 = some .COMMA := by decide
  simp only [this]

/-- a comma after any white space, in code -/
theorem code_comma_step (s : Lx) (g x : Bytes) (hh : s.isHTML = false) (hg : allWs g) (hr : s.rest = g ++ (44 :: x)) :
    ∃ t s1, nextStep s = (.tok t, s1) ∧ key t = (.COMMA, [44]) ∧ t.ty ≠ .EOF ∧ After s s1 x 44 := by
  obtain ⟨j1, j2⟩ := skipWs_code s hh g _ hg hr (by simp only [List.headD_cons]; decide)
  have hd4 := codeStepDesc_comma (skipWs s) x j1
  have st4 := stepAt_code (skipWs s) (by rw [mode_html j2]; exact hh) (by rw [j1]; simp) (by simp [Lx.char, j1])
  obtain ⟨z1, z2, z3⟩ := emit_after (codeStepDesc (skipWs s)) [44] x (by simp) (by rw [hd4]; simpa using j1) (by rw [hd4]; rfl)
  refine ⟨(codeStepDesc (skipWs s)).emit.1, (codeStepDesc (skipWs s)).emit.2, by unfold nextStep; exact st4, ?_, ?_, ⟨z1, ?_, by rw [z3]; rfl⟩⟩
  · unfold TokDesc.emit; rw [emit_key, hd4]
  · unfold TokDesc.emit; rw [emit_ty, hd4]; exact fun h => by cases h
  · rw [z2, hd4, j2]

end Tw
