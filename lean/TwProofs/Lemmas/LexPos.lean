/-
  TwProofs.Lemmas.LexPos — the lexer's line / column bookkeeping equals the position
  function of the statement (C19), for `readChar` and `advance`.
-/
import TwModel

namespace Tw
open Lx

/-- number of line feeds among the consumed bytes = zero-based line of the next byte -/
def lineOf (pre : Bytes) : Nat := pre.count 10

/-- bytes since the last line feed (the consumed bytes are kept reversed) = zero-based column -/
def colOf (pre : Bytes) : Nat := (pre.takeWhile (· != 10)).length

/-- the lexer state agrees with the position function -/
structure PosInv (s : Lx) : Prop where
  line : s.line = lineOf s.pre
  col : s.col = colOf s.pre
  reset : s.reset = (s.rest.headD 0 == 10 && !s.rest.isEmpty)

theorem posInv_init (inp : Bytes) : PosInv (Lx.init inp) := by
  constructor <;> simp [Lx.init, lineOf, colOf]

@[simp] theorem lineOf_cons_lf (pre : Bytes) : lineOf (10 :: pre) = lineOf pre + 1 := by
  simp [lineOf]

theorem lineOf_cons_ne (c : Byte) (pre : Bytes) (h : c ≠ 10) : lineOf (c :: pre) = lineOf pre := by
  simp [lineOf, h]

@[simp] theorem colOf_cons_lf (pre : Bytes) : colOf (10 :: pre) = 0 := by
  simp [colOf]

theorem colOf_cons_ne (c : Byte) (pre : Bytes) (h : c ≠ 10) : colOf (c :: pre) = colOf pre + 1 := by
  simp [colOf, h]

/-- one `readChar`: the invariant is kept, and `prevLine` / `prevCol` are the position of the
    byte that was current -/
theorem posInv_readChar (s : Lx) (h : PosInv s) :
    PosInv (readChar s) ∧
    (s.rest ≠ [] → (readChar s).prevLine = lineOf s.pre ∧ (readChar s).prevCol = colOf s.pre) := by
  obtain ⟨hl, hc, hr⟩ := h
  cases hrest : s.rest with
  | nil =>
    refine ⟨?_, fun hne => absurd rfl hne⟩
    have : readChar s = s := by simp [readChar, hrest]
    rw [this]; exact ⟨hl, hc, hr⟩
  | cons c r =>
    have hres : s.reset = (c == 10) := by simpa [hrest] using hr
    by_cases hc10 : c = 10
    · subst hc10
      have hreset : s.reset = true := by simpa using hres
      refine ⟨⟨?_, ?_, ?_⟩, fun _ => ⟨?_, ?_⟩⟩ <;> simp [readChar, hrest, hreset, hl, hc]
    · have hreset : s.reset = false := by rw [hres]; simp [hc10]
      refine ⟨⟨?_, ?_, ?_⟩, fun _ => ⟨?_, ?_⟩⟩ <;>
        simp [readChar, hrest, hreset, hl, hc, lineOf_cons_ne _ _ hc10, colOf_cons_ne _ _ hc10]

theorem readChar_pre_rest (s : Lx) :
    (readChar s).pre = (s.rest.take 1).reverse ++ s.pre ∧ (readChar s).rest = s.rest.drop 1 := by
  cases hrest : s.rest with
  | nil => simp [readChar, hrest]
  | cons c r => by_cases hb : s.reset <;> simp [readChar, hrest, hb]

theorem advance_pre_rest (n : Nat) : ∀ s : Lx,
    (advance s n).pre = (s.rest.take n).reverse ++ s.pre ∧ (advance s n).rest = s.rest.drop n := by
  induction n with
  | zero => intro s; simp [advance]
  | succ n ih =>
    intro s
    obtain ⟨h1, h2⟩ := readChar_pre_rest s
    obtain ⟨i1, i2⟩ := ih (readChar s)
    refine ⟨?_, ?_⟩
    · rw [advance, i1, h1, h2]
      cases hrest : s.rest with
      | nil => simp
      | cons c r => simp [List.take_succ_cons]
    · rw [advance, i2, h2]; simp

theorem posInv_advance (n : Nat) : ∀ s : Lx, PosInv s → PosInv (advance s n) := by
  induction n with
  | zero => intro s h; simpa [advance] using h
  | succ n ih => intro s h; exact ih _ (posInv_readChar s h).1

/-- other fields are not touched by `readChar` / `advance` -/
theorem readChar_frame (s : Lx) :
    (readChar s).startLine = s.startLine ∧ (readChar s).startCol = s.startCol ∧
    (readChar s).isHTML = s.isHTML ∧ (readChar s).isDirective = s.isDirective ∧
    (readChar s).parens = s.parens ∧ (readChar s).braces = s.braces ∧ (readChar s).panicked = s.panicked := by
  cases hrest : s.rest with
  | nil => simp [readChar, hrest]
  | cons c r => by_cases hb : s.reset <;> simp [readChar, hrest, hb]

theorem advance_frame (n : Nat) : ∀ s : Lx,
    (advance s n).startLine = s.startLine ∧ (advance s n).startCol = s.startCol ∧
    (advance s n).isHTML = s.isHTML ∧ (advance s n).isDirective = s.isDirective ∧
    (advance s n).parens = s.parens ∧ (advance s n).braces = s.braces ∧ (advance s n).panicked = s.panicked := by
  induction n with
  | zero => intro s; simp [advance]
  | succ n ih =>
    intro s
    obtain ⟨a1, a2, a3, a4, a5, a6, a7⟩ := ih (readChar s)
    obtain ⟨b1, b2, b3, b4, b5, b6, b7⟩ := readChar_frame s
    simp [advance, *]

/-- after consuming `n ≥ 1` available bytes, `prevLine` / `prevCol` are the position of the
    last consumed byte -/
theorem advance_prev (n : Nat) : ∀ s : Lx, PosInv s → n + 1 ≤ s.rest.length →
    (advance s (n + 1)).prevLine = lineOf ((s.rest.take n).reverse ++ s.pre) ∧
    (advance s (n + 1)).prevCol = colOf ((s.rest.take n).reverse ++ s.pre) := by
  induction n with
  | zero =>
    intro s h hlen
    have hne : s.rest ≠ [] := by intro h0; simp [h0] at hlen
    simpa [advance] using (posInv_readChar s h).2 hne
  | succ n ih =>
    intro s h hlen
    obtain ⟨p1, p2⟩ := readChar_pre_rest s
    have hlen' : n + 1 ≤ (readChar s).rest.length := by rw [p2]; simp; omega
    have := ih (readChar s) (posInv_readChar s h).1 hlen'
    rw [p1, p2] at this
    cases hrest : s.rest with
    | nil => simp [hrest] at hlen
    | cons c r =>
      simp only [hrest, List.take_succ_cons, List.take_zero, List.reverse_cons, List.reverse_nil, List.nil_append,
        List.drop_succ_cons, List.drop_zero, List.append_assoc, List.singleton_append] at this ⊢
      rw [show advance s (n + 1 + 1) = advance (readChar s) (n + 1) from rfl]
      exact this

end Tw
