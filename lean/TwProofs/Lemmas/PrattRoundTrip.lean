/-
  TwProofs.Lemmas.PrattRoundTrip — the model's Pratt parser inverts the minimal-parenthesis
  printer on the fragment "identifiers, prefix - and !, binary operators, the ternary, parentheses" (C01).
-/
import TwModel.Parser

namespace Tw

/-! ### parser states that differ in the token list only -/

def PS.withToks (p : PS) (ts : List Token) : PS := { p with toks := ts }

def NoIll (ts : List Token) : Prop := ∀ t ∈ ts, t.ty ≠ .ILLEGAL

theorem NoIll.tail {t : Token} {ts : List Token} (h : NoIll (t :: ts)) : NoIll ts := fun x hx => h x (List.mem_cons_of_mem _ hx)
theorem NoIll.head {t : Token} {ts : List Token} (h : NoIll (t :: ts)) : t.ty ≠ .ILLEGAL := h t List.mem_cons_self
theorem NoIll.append {a c : List Token} (h1 : NoIll a) (h2 : NoIll c) : NoIll (a ++ c) := by
  intro t ht; rcases List.mem_append.mp ht with h | h
  · exact h1 t h
  · exact h2 t h

@[simp] theorem withToks_withToks (p : PS) (a c : List Token) : (p.withToks a).withToks c = p.withToks c := rfl
@[simp] theorem withToks_cur (p : PS) (a : Token) (r : List Token) : (p.withToks (a :: r)).cur = a := rfl
@[simp] theorem withToks_peek (p : PS) (a c : Token) (r : List Token) : (p.withToks (a :: c :: r)).peek = c := rfl

theorem withToks_next (p : PS) (a c : Token) (r : List Token) (h : NoIll r) :
    (p.withToks (a :: c :: r)).next = p.withToks (c :: r) := by
  unfold PS.next PS.withToks
  cases r with
  | nil => rfl
  | cons n r' =>
    simp only [PS.noteIllegal]
    have : (n.ty == TT.ILLEGAL) = false := by simpa using h.head
    simp [this]

theorem withToks_expectPeek (p : PS) (a c : Token) (r : List Token) (h : NoIll r) :
    (p.withToks (a :: c :: r)).expectPeek c.ty = (true, p.withToks (c :: r)) := by
  unfold PS.expectPeek
  simp [PS.peekIs, withToks_next p a c r h]

end Tw

namespace Tw

/-! ### the fragment and its printer -/

inductive BE where
  | ident (t : Token)
  | pre (op : Token) (r : BE)
  | bin (op : Token) (l r : BE)
  | tern (q c : Token) (cnd a b : BE)

def BE.ok : BE → Prop
  | .ident t => t.ty = .IDENT
  | .pre op r => (op.ty = .SUB ∨ op.ty = .NOT) ∧ r.ok
  | .bin op l r => isBinaryOp op.ty = true ∧ l.ok ∧ r.ok
  | .tern q c cnd a b => q.ty = .QUESTION ∧ c.ty = .COLON ∧ cnd.ok ∧ a.ok ∧ b.ok

/-- the tree the parser is expected to build -/
def BE.toExpr : BE → Expr
  | .ident t => .ident t t.lit
  | .pre op r => .pre op op.lit r.toExpr
  | .bin op l r => .inf op op.lit l.toExpr r.toExpr
  | .tern q _ cnd a b => .tern q cnd.toExpr a.toExpr b.toExpr

def opPrec (op : Token) : Nat := precedence op.ty

/-- may `e` stand without parentheses where level `m` is required -/
def BE.tight (m : Nat) : BE → Bool
  | .ident _ => true
  | .pre _ _ => m ≤ PREFIX
  | .bin op _ _ => m ≤ opPrec op
  | .tern _ _ _ _ _ => m ≤ TERNARY

/-- the printer: parentheses where the precedence order requires them, and wherever `extra`
    asks for a redundant pair -/
def showAt (lp rp : Token) (extra : BE → Bool) (m : Nat) : BE → List Token
  | .ident t => if extra (.ident t) then [lp, t, rp] else [t]
  | .pre op r =>
    if m ≤ PREFIX && !extra (.pre op r) then [op] ++ showAt lp rp extra (PREFIX + 1) r
    else [lp] ++ ([op] ++ showAt lp rp extra (PREFIX + 1) r) ++ [rp]
  | .bin op l r =>
    if m ≤ opPrec op && !extra (.bin op l r) then
      showAt lp rp extra (opPrec op) l ++ [op] ++ showAt lp rp extra (opPrec op + 1) r
    else [lp] ++ (showAt lp rp extra (opPrec op) l ++ [op] ++ showAt lp rp extra (opPrec op + 1) r) ++ [rp]
  | .tern q c cnd a b =>
    if m ≤ TERNARY && !extra (.tern q c cnd a b) then
      showAt lp rp extra (TERNARY + 1) cnd ++ [q] ++ showAt lp rp extra (TERNARY + 1) a ++ [c] ++ showAt lp rp extra (LOWEST + 1) b
    else [lp] ++ (showAt lp rp extra (TERNARY + 1) cnd ++ [q] ++ showAt lp rp extra (TERNARY + 1) a ++ [c] ++
      showAt lp rp extra (LOWEST + 1) b) ++ [rp]

/-- the bare form (no outer parentheses) -/
def body (lp rp : Token) (extra : BE → Bool) : BE → List Token
  | .ident t => [t]
  | .pre op r => [op] ++ showAt lp rp extra (PREFIX + 1) r
  | .bin op l r => showAt lp rp extra (opPrec op) l ++ [op] ++ showAt lp rp extra (opPrec op + 1) r
  | .tern q c cnd a b =>
    showAt lp rp extra (TERNARY + 1) cnd ++ [q] ++ showAt lp rp extra (TERNARY + 1) a ++ [c] ++ showAt lp rp extra (LOWEST + 1) b

/-! ### "parses to" with explicit fuel bounds -/

/-- from every state whose tokens are `ts`, with enough fuel, `parseExpression prec` returns the
    tree `ex` and leaves the tokens `ts'` (first of them the last token of the expression),
    recording nothing -/
def RParses (prec : Nat) (ts : List Token) (ex : Expr) (ts' : List Token) : Prop :=
  ∃ N, ∀ f, N ≤ f → ∀ p : PS, parseExpression f prec (p.withToks ts) = (ex, p.withToks ts')

def RLoops (prec : Nat) (left : Expr) (ts : List Token) (ex : Expr) (ts' : List Token) : Prop :=
  ∃ N, ∀ f, N ≤ f → ∀ p : PS, prattLoop f prec left (p.withToks ts) = (ex, p.withToks ts')

/-- the loop at level `prec` stops in front of `k` -/
def StopR (prec : Nat) : List Token → Prop
  | [] => False
  | t :: _ => t.ty = .RBRACES ∨ t.ty = .SEMI ∨ t.ty = .RPAREN ∨ precedence t.ty ≤ prec

theorem parseExpression_succ (f prec : Nat) (p : PS) :
    parseExpression (f + 1) prec p =
      match prefixBody (parseExpression f) (parseExprList f) (parseObjLoop f) p with
      | none => (.bad, p.err p.cur.errorLine "ErrNoPrefixParseFunc" [b (tokenString p.cur.ty)])
      | some r => prattLoop f prec r.1 r.2 := rfl

theorem prattLoop_succ (f prec : Nat) (left : Expr) (p : PS) :
    prattLoop (f + 1) prec left p =
      if p.peekIs .RBRACES || p.peekIs .SEMI || p.peekIs .RPAREN || !(prec < p.peekPrecedence) then (left, p)
      else if !hasInfix p.peek.ty then (left, p)
      else prattLoop f prec (infixBody (parseExpression f) (parseExprList f) left p.next).1
        (infixBody (parseExpression f) (parseExprList f) left p.next).2 := rfl

theorem loops_stop {prec : Nat} {l : Expr} {x : Token} {k : List Token} (h : StopR prec k) :
    RLoops prec l (x :: k) l (x :: k) := by
  refine ⟨1, fun f hf p => ?_⟩
  obtain ⟨g, rfl⟩ : ∃ g, f = g + 1 := ⟨f - 1, by omega⟩
  rw [prattLoop_succ]
  cases k with
  | nil => exact absurd h (by simp [StopR])
  | cons t r =>
    have : ((p.withToks (x :: t :: r)).peekIs .RBRACES || (p.withToks (x :: t :: r)).peekIs .SEMI ||
        (p.withToks (x :: t :: r)).peekIs .RPAREN || !(decide (prec < (p.withToks (x :: t :: r)).peekPrecedence))) = true := by
      simp only [PS.peekIs, withToks_peek, PS.peekPrecedence]
      rcases h with h | h | h | h
      · simp [h]
      · simp [h]
      · simp [h]
      · have : ¬ prec < precedence t.ty := by omega
        simp [this]
    rw [if_pos this]

theorem parses_ident {prec : Nat} {t : Token} {k : List Token} {ex : Expr} {ts' : List Token} (ht : t.ty = .IDENT)
    (h : RLoops prec (.ident t t.lit) (t :: k) ex ts') : RParses prec (t :: k) ex ts' := by
  obtain ⟨N, hN⟩ := h
  refine ⟨N + 1, fun f hf p => ?_⟩
  obtain ⟨g, rfl⟩ : ∃ g, f = g + 1 := ⟨f - 1, by omega⟩
  rw [parseExpression_succ]
  have : prefixBody (parseExpression g) (parseExprList g) (parseObjLoop g) (p.withToks (t :: k)) =
      some (.ident t t.lit, p.withToks (t :: k)) := by
    unfold prefixBody
    simp [ht]
  rw [this]
  exact hN g (by omega) p

theorem parses_paren {prec : Nat} {lp rp x : Token} {rest k : List Token} {e ex : Expr} {ts' : List Token}
    (hlp : lp.ty = .LPAREN) (hrp : rp.ty = .RPAREN) (hrest : NoIll rest.tail) (hk : NoIll k)
    (hin : RParses LOWEST rest e (x :: rp :: k)) (h : RLoops prec e (rp :: k) ex ts') (hne : rest ≠ []) :
    RParses prec (lp :: rest) ex ts' := by
  obtain ⟨N1, h1⟩ := hin
  obtain ⟨N2, h2⟩ := h
  refine ⟨max N1 N2 + 1, fun f hf p => ?_⟩
  obtain ⟨g, rfl⟩ : ∃ g, f = g + 1 := ⟨f - 1, by omega⟩
  rw [parseExpression_succ]
  obtain ⟨r0, rr, hr0⟩ : ∃ r0 rr, rest = r0 :: rr := by
    cases rest with
    | nil => exact absurd rfl hne
    | cons a c => exact ⟨a, c, rfl⟩
  subst hr0
  have hnext : (p.withToks (lp :: r0 :: rr)).next = p.withToks (r0 :: rr) := withToks_next p lp r0 rr hrest
  have hpe := h1 g (by omega) p
  have hexp := withToks_expectPeek p x rp k hk
  rw [hrp] at hexp
  have : prefixBody (parseExpression g) (parseExprList g) (parseObjLoop g) (p.withToks (lp :: r0 :: rr)) =
      some (e, p.withToks (rp :: k)) := by
    unfold prefixBody
    simp only [withToks_cur, hlp, hnext, hpe, hexp, if_true]
  rw [this]
  exact h2 g (by omega) p

theorem parses_pre {prec : Nat} {op : Token} {rest : List Token} {r ex : Expr} {ts' ts'' : List Token}
    (hop : op.ty = .SUB ∨ op.ty = .NOT) (hrest : NoIll rest.tail) (hne : rest ≠ [])
    (hin : RParses PREFIX rest r ts') (h : RLoops prec (.pre op op.lit r) ts' ex ts'') :
    RParses prec (op :: rest) ex ts'' := by
  obtain ⟨N1, h1⟩ := hin
  obtain ⟨N2, h2⟩ := h
  refine ⟨max N1 N2 + 1, fun f hf p => ?_⟩
  obtain ⟨g, rfl⟩ : ∃ g, f = g + 1 := ⟨f - 1, by omega⟩
  rw [parseExpression_succ]
  obtain ⟨r0, rr, hr0⟩ : ∃ r0 rr, rest = r0 :: rr := by
    cases rest with
    | nil => exact absurd rfl hne
    | cons a c => exact ⟨a, c, rfl⟩
  subst hr0
  have hnext : (p.withToks (op :: r0 :: rr)).next = p.withToks (r0 :: rr) := withToks_next p op r0 rr hrest
  have hpe := h1 g (by omega) p
  have : prefixBody (parseExpression g) (parseExprList g) (parseObjLoop g) (p.withToks (op :: r0 :: rr)) =
      some (.pre op op.lit r, p.withToks ts') := by
    unfold prefixBody
    rcases hop with ho | ho <;> simp only [withToks_cur, ho, hnext, hpe]
  rw [this]
  exact h2 g (by omega) p

theorem loops_op {prec : Nat} {l r : Expr} {x op : Token} {rest : List Token} {ts' : List Token} {ex : Expr} {ts'' : List Token}
    (hop : isBinaryOp op.ty = true) (hlt : prec < precedence op.ty) (hrest : NoIll rest) (hne : rest ≠ [])
    (hnb : ∀ t, rest.head? = some t → t.ty ≠ .RBRACES)
    (hr : RParses (precedence op.ty) rest r ts') (h : RLoops prec (.inf op op.lit l r) ts' ex ts'') :
    RLoops prec l (x :: op :: rest) ex ts'' := by
  obtain ⟨N1, h1⟩ := hr
  obtain ⟨N2, h2⟩ := h
  refine ⟨max N1 N2 + 1, fun f hf p => ?_⟩
  obtain ⟨g, rfl⟩ : ∃ g, f = g + 1 := ⟨f - 1, by omega⟩
  rw [prattLoop_succ]
  obtain ⟨r0, rr, hr0⟩ : ∃ r0 rr, rest = r0 :: rr := by
    cases rest with
    | nil => exact absurd rfl hne
    | cons a c => exact ⟨a, c, rfl⟩
  subst hr0
  have hbin : op.ty ≠ .RBRACES ∧ op.ty ≠ .SEMI ∧ op.ty ≠ .RPAREN := by
    refine ⟨?_, ?_, ?_⟩ <;> (intro he; rw [he] at hop; simp [isBinaryOp] at hop)
  have hstop : ((p.withToks (x :: op :: r0 :: rr)).peekIs .RBRACES || (p.withToks (x :: op :: r0 :: rr)).peekIs .SEMI ||
      (p.withToks (x :: op :: r0 :: rr)).peekIs .RPAREN || !(decide (prec < (p.withToks (x :: op :: r0 :: rr)).peekPrecedence))) = false := by
    simp only [PS.peekIs, withToks_peek, PS.peekPrecedence]
    simp [hbin.1, hbin.2.1, hbin.2.2, hlt]
  rw [if_neg (by rw [hstop]; simp)]
  have hinf : hasInfix op.ty = true := by simp [hasInfix, hop]
  rw [if_neg (by simp [withToks_peek, hinf])]
  have hnext1 : (p.withToks (x :: op :: r0 :: rr)).next = p.withToks (op :: r0 :: rr) := withToks_next p x op _ hrest
  have hnext2 : (p.withToks (op :: r0 :: rr)).next = p.withToks (r0 :: rr) := withToks_next p op r0 _ hrest.tail
  have hr0b : (p.withToks (r0 :: rr)).curIs .RBRACES = false := by
    have := hnb r0 rfl
    simp [PS.curIs, this]
  have hinfix : infixBody (parseExpression g) (parseExprList g) l (p.withToks (op :: r0 :: rr)) =
      (.inf op op.lit l r, p.withToks ts') := by
    unfold infixBody
    simp only [withToks_cur, hop, if_true, hnext2, hr0b, Bool.false_eq_true, if_false, PS.curPrecedence]
    rw [h1 g (by omega) p]
  rw [hnext1, hinfix]
  exact h2 g (by omega) p

theorem loops_tern {prec : Nat} {l a bb : Expr} {y q x c : Token} {restA restB : List Token} {ts' : List Token} {ex : Expr}
    {ts'' : List Token} (hq : q.ty = .QUESTION) (hc : c.ty = .COLON) (hlt : prec < TERNARY)
    (hA : NoIll restA) (hneA : restA ≠ []) (hB : NoIll restB) (hneB : restB ≠ [])
    (ha : RParses TERNARY restA a (x :: c :: restB)) (hb : RParses LOWEST restB bb ts')
    (h : RLoops prec (.tern q l a bb) ts' ex ts'') :
    RLoops prec l (y :: q :: restA) ex ts'' := by
  obtain ⟨N1, h1⟩ := ha
  obtain ⟨N2, h2⟩ := hb
  obtain ⟨N3, h3⟩ := h
  refine ⟨max N1 (max N2 N3) + 1, fun f hf p => ?_⟩
  obtain ⟨g, rfl⟩ : ∃ g, f = g + 1 := ⟨f - 1, by omega⟩
  rw [prattLoop_succ]
  obtain ⟨a0, ar, ha0⟩ : ∃ r0 rr, restA = r0 :: rr := by
    cases restA with
    | nil => exact absurd rfl hneA
    | cons u v => exact ⟨u, v, rfl⟩
  obtain ⟨b0, br, hb0⟩ : ∃ r0 rr, restB = r0 :: rr := by
    cases restB with
    | nil => exact absurd rfl hneB
    | cons u v => exact ⟨u, v, rfl⟩
  subst ha0 hb0
  have hstop : ((p.withToks (y :: q :: a0 :: ar)).peekIs .RBRACES || (p.withToks (y :: q :: a0 :: ar)).peekIs .SEMI ||
      (p.withToks (y :: q :: a0 :: ar)).peekIs .RPAREN || !(decide (prec < (p.withToks (y :: q :: a0 :: ar)).peekPrecedence))) = false := by
    simp only [PS.peekIs, withToks_peek, PS.peekPrecedence, hq]
    have : prec < precedence TT.QUESTION := hlt
    simp [this]
  rw [if_neg (by rw [hstop]; simp)]
  rw [if_neg (by simp [withToks_peek, hq, hasInfix])]
  have hnext1 : (p.withToks (y :: q :: a0 :: ar)).next = p.withToks (q :: a0 :: ar) := withToks_next p y q _ hA
  have hnext2 : (p.withToks (q :: a0 :: ar)).next = p.withToks (a0 :: ar) := withToks_next p q a0 _ hA.tail
  have hexp := withToks_expectPeek p x c (b0 :: br) hB
  rw [hc] at hexp
  have hnext3 : (p.withToks (c :: b0 :: br)).next = p.withToks (b0 :: br) := withToks_next p c b0 _ hB.tail
  have hinfix : infixBody (parseExpression g) (parseExprList g) l (p.withToks (q :: a0 :: ar)) =
      (.tern q l a bb, p.withToks ts') := by
    unfold infixBody
    have hnb : isBinaryOp TT.QUESTION = false := rfl
    simp only [withToks_cur, hq, hnb, Bool.false_eq_true, if_false, beq_self_eq_true, if_true, hnext2,
      h1 g (by omega) p, hexp, Bool.not_true, hnext3, h2 g (by omega) p]
  rw [hnext1, hinfix]
  exact h3 g (by omega) p

end Tw

namespace Tw

def lastTok (ts : List Token) : Token := ts.getLastD eofTok

theorem lastTok_append_singleton (a : List Token) (x : Token) : lastTok (a ++ [x]) = x := by simp [lastTok]
theorem lastTok_append (a c : List Token) (h : c ≠ []) : lastTok (a ++ c) = lastTok c := by
  unfold lastTok
  cases c with
  | nil => exact absurd rfl h
  | cons x r =>
    rw [List.getLastD_eq_getLast?, List.getLastD_eq_getLast?, List.getLast?_append]
    cases hl : (x :: r).getLast? with
    | none => simp at hl
    | some y => simp
theorem lastTok_cons (x : Token) (c : List Token) (h : c ≠ []) : lastTok (x :: c) = lastTok c :=
  lastTok_append [x] c h

theorem stopR_mono {p q : Nat} {k : List Token} (h : StopR p k) (hpq : p ≤ q) : StopR q k := by
  cases k with
  | nil => exact h
  | cons t r =>
    rcases h with h | h | h | h
    · exact Or.inl h
    · exact Or.inr (Or.inl h)
    · exact Or.inr (Or.inr (Or.inl h))
    · exact Or.inr (Or.inr (Or.inr (by omega)))

section
variable (lp rp : Token) (extra : BE → Bool)

theorem body_ne_nil (e : BE) : body lp rp extra e ≠ [] := by
  cases e with
  | ident t => simp [body]
  | pre op r => simp [body]
  | bin op l r => simp [body]
  | tern q c cnd a b => simp [body]

/-- the printer gives the bare form (and it may stand bare), or the bare form in parentheses -/
theorem showAt_cases (m : Nat) (e : BE) :
    (showAt lp rp extra m e = body lp rp extra e ∧ e.tight m = true) ∨
    showAt lp rp extra m e = [lp] ++ body lp rp extra e ++ [rp] := by
  cases e with
  | ident t =>
    unfold showAt
    split
    · right; simp [body]
    · left; exact ⟨rfl, rfl⟩
  | pre op r =>
    unfold showAt
    split
    · rename_i h
      left
      refine ⟨rfl, ?_⟩
      simp only [Bool.and_eq_true, decide_eq_true_eq] at h
      simp [BE.tight, h.1]
    · right; rfl
  | bin op l r =>
    unfold showAt
    split
    · rename_i h
      left
      refine ⟨rfl, ?_⟩
      simp only [Bool.and_eq_true, decide_eq_true_eq] at h
      simp [BE.tight, h.1]
    · right; rfl
  | tern q c cnd a b =>
    unfold showAt
    split
    · rename_i h
      left
      refine ⟨rfl, ?_⟩
      simp only [Bool.and_eq_true, decide_eq_true_eq] at h
      simp [BE.tight, h.1]
    · right; rfl

theorem showAt_ne_nil (m : Nat) (e : BE) : showAt lp rp extra m e ≠ [] := by
  rcases showAt_cases lp rp extra m e with ⟨h, _⟩ | h
  · rw [h]; exact body_ne_nil lp rp extra e
  · rw [h]; simp

omit lp rp extra in
theorem binop_not_ill {op : Token} (h : isBinaryOp op.ty = true) : op.ty ≠ .ILLEGAL := by
  intro he; rw [he] at h; simp [isBinaryOp] at h

variable (hlp : lp.ty = .LPAREN) (hrp : rp.ty = .RPAREN)
include hlp hrp

theorem noIll_show : ∀ (e : BE), e.ok → (∀ m, NoIll (showAt lp rp extra m e)) ∧ NoIll (body lp rp extra e)
  | .ident t, hok => by
    have ht : t.ty = .IDENT := hok
    constructor
    · intro m
      unfold showAt
      split
      · intro x hx
        simp at hx
        rcases hx with h | h | h
        · rw [h, hlp]; decide
        · rw [h, ht]; decide
        · rw [h, hrp]; decide
      · intro x hx; simp at hx; rw [hx, ht]; decide
    · intro x hx; simp [body] at hx; rw [hx, ht]; decide
  | .pre op r, hok => by
    obtain ⟨hop, hr⟩ := hok
    have ir := noIll_show r hr
    have hopI : op.ty ≠ .ILLEGAL := by rcases hop with h | h <;> rw [h] <;> decide
    have hb : NoIll (body lp rp extra (.pre op r)) := by
      unfold body
      have h0 : NoIll [op] := fun x hx => by simp at hx; rw [hx]; exact hopI
      exact h0.append (ir.1 _)
    refine ⟨fun m => ?_, hb⟩
    rcases showAt_cases lp rp extra m (.pre op r) with ⟨h, _⟩ | h
    · rw [h]; exact hb
    · rw [h]
      have h1 : NoIll [lp] := fun x hx => by simp at hx; rw [hx, hlp]; decide
      have h2 : NoIll [rp] := fun x hx => by simp at hx; rw [hx, hrp]; decide
      exact (h1.append hb).append h2
  | .bin op l r, hok => by
    obtain ⟨hop, hl, hr⟩ := hok
    have il := noIll_show l hl
    have ir := noIll_show r hr
    have hb : NoIll (body lp rp extra (.bin op l r)) := by
      unfold body
      exact ((il.1 _).append (fun x hx => by simp at hx; rw [hx]; exact binop_not_ill hop)).append (ir.1 _)
    refine ⟨fun m => ?_, hb⟩
    rcases showAt_cases lp rp extra m (.bin op l r) with ⟨h, _⟩ | h
    · rw [h]; exact hb
    · rw [h]
      have h1 : NoIll [lp] := fun x hx => by simp at hx; rw [hx, hlp]; decide
      have h2 : NoIll [rp] := fun x hx => by simp at hx; rw [hx, hrp]; decide
      exact (h1.append hb).append h2

  | .tern q c cnd a b, hok => by
    obtain ⟨hq, hc, hcnd, ha, hb'⟩ := hok
    have ic := noIll_show cnd hcnd
    have ia := noIll_show a ha
    have ib := noIll_show b hb'
    have hqI : NoIll [q] := fun x hx => by simp at hx; rw [hx, hq]; decide
    have hcI : NoIll [c] := fun x hx => by simp at hx; rw [hx, hc]; decide
    have hb : NoIll (body lp rp extra (.tern q c cnd a b)) := by
      unfold body
      exact (((((ic.1 _).append hqI).append (ia.1 _)).append hcI).append (ib.1 _))
    refine ⟨fun m => ?_, hb⟩
    rcases showAt_cases lp rp extra m (.tern q c cnd a b) with ⟨h, _⟩ | h
    · rw [h]; exact hb
    · rw [h]
      have h1 : NoIll [lp] := fun x hx => by simp at hx; rw [hx, hlp]; decide
      have h2 : NoIll [rp] := fun x hx => by simp at hx; rw [hx, hrp]; decide
      exact (h1.append hb).append h2

/-- an expression starts with an identifier or an opening parenthesis -/
theorem head_show : ∀ (e : BE), e.ok →
    (∀ m t, (showAt lp rp extra m e).head? = some t → t.ty ≠ .RBRACES) ∧
    (∀ t, (body lp rp extra e).head? = some t → t.ty ≠ .RBRACES)
  | .ident t, hok => by
    have ht : t.ty = .IDENT := hok
    constructor
    · intro m x hx
      unfold showAt at hx
      split at hx
      · simp at hx; rw [← hx, hlp]; decide
      · simp at hx; rw [← hx, ht]; decide
    · intro x hx; simp [body] at hx; rw [← hx, ht]; decide
  | .pre op r, hok => by
    obtain ⟨hop, hr⟩ := hok
    have hb : ∀ t, (body lp rp extra (.pre op r)).head? = some t → t.ty ≠ .RBRACES := by
      intro x hx
      simp [body] at hx
      rw [← hx]
      rcases hop with h | h <;> rw [h] <;> decide
    refine ⟨fun m x hx => ?_, hb⟩
    rcases showAt_cases lp rp extra m (.pre op r) with ⟨h, _⟩ | h
    · rw [h] at hx; exact hb x hx
    · rw [h] at hx; simp at hx; rw [← hx, hlp]; decide
  | .bin op l r, hok => by
    obtain ⟨hop, hl, hr⟩ := hok
    have il := head_show l hl
    have hb : ∀ t, (body lp rp extra (.bin op l r)).head? = some t → t.ty ≠ .RBRACES := by
      intro x hx
      simp only [body] at hx
      have hne := showAt_ne_nil lp rp extra (opPrec op) l
      cases hs : showAt lp rp extra (opPrec op) l with
      | nil => exact absurd hs hne
      | cons a c =>
        rw [hs] at hx
        simp at hx
        exact il.1 (opPrec op) x (by rw [hs]; simp [hx])
    refine ⟨fun m x hx => ?_, hb⟩
    rcases showAt_cases lp rp extra m (.bin op l r) with ⟨h, _⟩ | h
    · rw [h] at hx; exact hb x hx
    · rw [h] at hx; simp at hx; rw [← hx, hlp]; decide
  | .tern q c cnd a b, hok => by
    obtain ⟨hq, hc, hcnd, ha, hb'⟩ := hok
    have ic := head_show cnd hcnd
    have hb : ∀ t, (body lp rp extra (.tern q c cnd a b)).head? = some t → t.ty ≠ .RBRACES := by
      intro x hx
      simp only [body] at hx
      have hne := showAt_ne_nil lp rp extra (TERNARY + 1) cnd
      cases hs : showAt lp rp extra (TERNARY + 1) cnd with
      | nil => exact absurd hs hne
      | cons u v =>
        rw [hs] at hx
        simp at hx
        exact ic.1 (TERNARY + 1) x (by rw [hs]; simp [hx])
    refine ⟨fun m x hx => ?_, hb⟩
    rcases showAt_cases lp rp extra m (.tern q c cnd a b) with ⟨h, _⟩ | h
    · rw [h] at hx; exact hb x hx
    · rw [h] at hx; simp at hx; rw [← hx, hlp]; decide

end
end Tw

namespace Tw

def StopTop (e : BE) (k : List Token) : Prop :=
  match e with
  | .ident _ => k ≠ []
  | .pre _ _ => StopR PREFIX k
  | .bin op _ _ => StopR (opPrec op) k
  | .tern _ _ _ _ _ => StopR LOWEST k

theorem binop_prec_ge {op : Token} (h : isBinaryOp op.ty = true) : 3 ≤ opPrec op := by
  unfold opPrec
  cases hty : op.ty <;> rw [hty] at h <;> simp [isBinaryOp] at h <;> decide

theorem binop_prec_le {op : Token} (h : isBinaryOp op.ty = true) : opPrec op ≤ 6 := by
  unfold opPrec
  cases hty : op.ty <;> rw [hty] at h <;> simp [isBinaryOp] at h <;> decide

section
variable (lp rp : Token) (extra : BE → Bool) (hlp : lp.ty = .LPAREN) (hrp : rp.ty = .RPAREN)
include hlp hrp

/-- **the Pratt parser inverts the printer** (main induction).  `P`: the bare form followed by a
    continuation; `Q`: the printed form at a level. -/
theorem pratt_main : ∀ (e : BE), e.ok →
    (∀ prec k ex ts', e.tight (prec + 1) = true → StopTop e k → NoIll k →
        RLoops prec e.toExpr (lastTok (body lp rp extra e) :: k) ex ts' →
        RParses prec (body lp rp extra e ++ k) ex ts') ∧
    (∀ prec k, prec ≤ PREFIX → StopR prec k → NoIll k →
        RParses prec (showAt lp rp extra (prec + 1) e ++ k) e.toExpr (lastTok (showAt lp rp extra (prec + 1) e) :: k))
  | .ident t, hok => by
    have ht : t.ty = .IDENT := hok
    have P : ∀ prec k ex ts', (BE.ident t).tight (prec + 1) = true → StopTop (.ident t) k → NoIll k →
        RLoops prec (BE.ident t).toExpr (lastTok (body lp rp extra (.ident t)) :: k) ex ts' →
        RParses prec (body lp rp extra (.ident t) ++ k) ex ts' := by
      intro prec k ex ts' _ _ _ hl
      simp only [body, List.singleton_append]
      exact parses_ident ht (by simpa [body, lastTok, BE.toExpr] using hl)
    refine ⟨P, ?_⟩
    intro prec k hple hs hk
    have hkne : k ≠ [] := by cases k with | nil => exact absurd hs (by simp [StopR]) | cons _ _ => simp
    rcases showAt_cases lp rp extra (prec + 1) (.ident t) with ⟨h, _⟩ | h
    · rw [h]
      exact P prec k _ _ rfl hkne hk (loops_stop hs)
    · rw [h]
      have hl : lastTok ([lp] ++ body lp rp extra (.ident t) ++ [rp]) = rp := lastTok_append_singleton _ _
      rw [hl]
      simp only [body, List.append_assoc, List.cons_append, List.nil_append]
      have hrk : NoIll (rp :: k) := fun x hx => by
        rcases List.mem_cons.mp hx with h | h
        · rw [h, hrp]; decide
        · exact hk x h
      refine parses_paren (x := t) hlp hrp hrk hk ?_ (loops_stop hs) (by simp)
      exact parses_ident ht (loops_stop (Or.inr (Or.inr (Or.inl hrp))))
  | .pre op r, hok => by
    obtain ⟨hop, hr⟩ := hok
    have ihr := pratt_main r hr
    have hopI : op.ty ≠ .ILLEGAL := by rcases hop with h | h <;> rw [h] <;> decide
    have hrpIll : ∀ k, NoIll k → NoIll (rp :: k) := fun k hk x hx => by
      rcases List.mem_cons.mp hx with h | h
      · rw [h, hrp]; decide
      · exact hk x h
    have hshowR := showAt_ne_nil lp rp extra (PREFIX + 1) r
    have hbodyLast : lastTok (body lp rp extra (.pre op r)) = lastTok (showAt lp rp extra (PREFIX + 1) r) := by
      simp only [body]
      exact lastTok_append _ _ hshowR
    have P : ∀ prec k ex ts', (BE.pre op r).tight (prec + 1) = true → StopTop (.pre op r) k → NoIll k →
        RLoops prec (BE.pre op r).toExpr (lastTok (body lp rp extra (.pre op r)) :: k) ex ts' →
        RParses prec (body lp rp extra (.pre op r) ++ k) ex ts' := by
      intro prec k ex ts' _ hst hk hloopE
      have hR := ihr.2 PREFIX k (Nat.le_refl _) hst hk
      rw [hbodyLast] at hloopE
      simp only [body, List.append_assoc, List.singleton_append]
      refine parses_pre hop ?_ (by simp [hshowR]) hR hloopE
      have : NoIll (showAt lp rp extra (PREFIX + 1) r ++ k) := ((noIll_show lp rp extra hlp hrp r hr).1 _).append hk
      intro x hx
      exact this x (List.mem_of_mem_tail hx)
    refine ⟨P, ?_⟩
    intro prec k hple hs hk
    rcases showAt_cases lp rp extra (prec + 1) (.pre op r) with ⟨h, ht⟩ | h
    · rw [h]
      exact P prec k _ _ ht (stopR_mono hs hple) hk (loops_stop hs)
    · rw [h]
      have hl2 : lastTok ([lp] ++ body lp rp extra (.pre op r) ++ [rp]) = rp := lastTok_append_singleton _ _
      rw [hl2]
      simp only [List.append_assoc, List.cons_append, List.nil_append, List.singleton_append]
      refine parses_paren (x := lastTok (body lp rp extra (.pre op r))) hlp hrp ?_ hk ?_ (loops_stop hs) (by simp [body_ne_nil])
      · have : NoIll (body lp rp extra (.pre op r) ++ rp :: k) :=
          ((noIll_show lp rp extra hlp hrp (.pre op r) ⟨hop, hr⟩).2).append (hrpIll _ hk)
        intro x hx
        exact this x (List.mem_of_mem_tail hx)
      · refine P LOWEST (rp :: k) _ _ ?_ (Or.inr (Or.inr (Or.inl hrp))) (hrpIll _ hk)
          (loops_stop (Or.inr (Or.inr (Or.inl hrp))))
        simp only [BE.tight, decide_eq_true_eq]
        unfold LOWEST PREFIX
        omega
  | .bin op l r, hok => by
    obtain ⟨hop, hl, hr⟩ := hok
    have ihl := pratt_main l hl
    have ihr := pratt_main r hr
    have hge := binop_prec_ge hop
    have hrpIll : ∀ k, NoIll k → NoIll (rp :: k) := fun k hk x hx => by
      rcases List.mem_cons.mp hx with h | h
      · rw [h, hrp]; decide
      · exact hk x h
    have hopIll : ∀ k, NoIll k → NoIll (op :: k) := fun k hk x hx => by
      rcases List.mem_cons.mp hx with h | h
      · rw [h]; exact binop_not_ill hop
      · exact hk x h
    have hshowR := showAt_ne_nil lp rp extra (opPrec op + 1) r
    have hbodyLast : lastTok (body lp rp extra (.bin op l r)) = lastTok (showAt lp rp extra (opPrec op + 1) r) := by
      simp only [body]
      exact lastTok_append _ _ hshowR
    have P : ∀ prec k ex ts', (BE.bin op l r).tight (prec + 1) = true → StopTop (.bin op l r) k → NoIll k →
        RLoops prec (BE.bin op l r).toExpr (lastTok (body lp rp extra (.bin op l r)) :: k) ex ts' →
        RParses prec (body lp rp extra (.bin op l r) ++ k) ex ts' := by
      intro prec k ex ts' ht hst hk hloopE
      have hq : prec < opPrec op := by simp [BE.tight] at ht; omega
      -- the right operand
      have hR := ihr.2 (opPrec op) k (by have := binop_prec_le hop; unfold PREFIX; omega) hst hk
      rw [hbodyLast] at hloopE
      have hrestIll : NoIll (showAt lp rp extra (opPrec op + 1) r ++ k) :=
        ((noIll_show lp rp extra hlp hrp r hr).1 _).append hk
      have hrestNe : showAt lp rp extra (opPrec op + 1) r ++ k ≠ [] := by simp [hshowR]
      have hnb : ∀ t, (showAt lp rp extra (opPrec op + 1) r ++ k).head? = some t → t.ty ≠ .RBRACES := by
        intro t ht
        have : (showAt lp rp extra (opPrec op + 1) r).head? = some t := by
          cases hs : showAt lp rp extra (opPrec op + 1) r with
          | nil => exact absurd hs hshowR
          | cons a c => rw [hs] at ht; simpa using ht
        exact (head_show lp rp extra hlp hrp r hr).1 _ t this
      have hloopL : ∀ x, RLoops prec l.toExpr (x :: op :: (showAt lp rp extra (opPrec op + 1) r ++ k)) ex ts' :=
        fun x => loops_op hop hq hrestIll hrestNe hnb hR hloopE
      simp only [body, List.append_assoc, List.singleton_append]
      -- the left operand, at the caller's level
      rcases showAt_cases lp rp extra (opPrec op) l with ⟨hs, htl⟩ | hs
      · rw [hs]
        refine ihl.1 prec _ ex ts' ?_ ?_ (hopIll _ hrestIll) (hloopL _)
        · cases l with
          | ident _ => rfl
          | pre _ _ =>
            have := binop_prec_le hop
            simp only [BE.tight, decide_eq_true_eq]; unfold PREFIX; omega
          | bin o2 _ _ => simp [BE.tight] at htl ⊢; omega
          | tern _ _ _ _ _ => simp only [BE.tight, decide_eq_true_eq] at htl; unfold TERNARY at htl; omega
        · cases l with
          | ident _ => simp [StopTop]
          | pre _ _ =>
            have := binop_prec_le hop
            exact Or.inr (Or.inr (Or.inr (by show precedence op.ty ≤ PREFIX; unfold opPrec at this; unfold PREFIX; omega)))
          | bin o2 _ _ =>
            simp [BE.tight] at htl
            exact Or.inr (Or.inr (Or.inr htl))
          | tern _ _ _ _ _ => simp only [BE.tight, decide_eq_true_eq] at htl; unfold TERNARY at htl; omega
      · rw [hs]
        simp only [List.append_assoc, List.cons_append, List.nil_append]
        refine parses_paren (x := lastTok (body lp rp extra l)) hlp hrp ?_ (hopIll _ hrestIll) ?_ (hloopL rp) (by simp [body_ne_nil])
        · -- tokens after the first one of the inner part
          have : NoIll (body lp rp extra l ++ rp :: op :: (showAt lp rp extra (opPrec op + 1) r ++ k)) :=
            ((noIll_show lp rp extra hlp hrp l hl).2).append (hrpIll _ (hopIll _ hrestIll))
          intro x hx
          exact this x (List.mem_of_mem_tail hx)
        · -- the inner expression at the lowest level, up to the closing parenthesis
          have hstopRp : ∀ q, StopR q (rp :: op :: (showAt lp rp extra (opPrec op + 1) r ++ k)) :=
            fun q => Or.inr (Or.inr (Or.inl hrp))
          refine ihl.1 LOWEST _ _ _ ?_ ?_ (hrpIll _ (hopIll _ hrestIll)) (loops_stop (hstopRp _))
          · cases l with
            | ident _ => rfl
            | pre _ _ => simp only [BE.tight, decide_eq_true_eq]; unfold LOWEST PREFIX; omega
            | bin o2 _ _ =>
              have := binop_prec_ge hl.1
              simp only [BE.tight, decide_eq_true_eq]
              unfold LOWEST
              omega
            | tern _ _ _ _ _ => simp only [BE.tight, decide_eq_true_eq]; unfold LOWEST TERNARY; omega
          · cases l with
            | ident _ => simp [StopTop]
            | pre _ _ => exact hstopRp _
            | bin o2 _ _ => exact hstopRp _
            | tern _ _ _ _ _ => exact hstopRp _
    refine ⟨P, ?_⟩
    intro prec k hple hs hk
    rcases showAt_cases lp rp extra (prec + 1) (.bin op l r) with ⟨h, ht⟩ | h
    · rw [h]
      have hq : prec + 1 ≤ opPrec op := by simpa [BE.tight] using ht
      exact P prec k _ _ ht (stopR_mono hs (by omega)) hk (loops_stop hs)
    · rw [h]
      have hl2 : lastTok ([lp] ++ body lp rp extra (.bin op l r) ++ [rp]) = rp := lastTok_append_singleton _ _
      rw [hl2]
      simp only [List.append_assoc, List.cons_append, List.nil_append, List.singleton_append]
      refine parses_paren (x := lastTok (body lp rp extra (.bin op l r))) hlp hrp ?_ hk ?_ (loops_stop hs) (by simp [body_ne_nil])
      · have : NoIll (body lp rp extra (.bin op l r) ++ rp :: k) :=
          ((noIll_show lp rp extra hlp hrp (.bin op l r) ⟨hop, hl, hr⟩).2).append (hrpIll _ hk)
        intro x hx
        exact this x (List.mem_of_mem_tail hx)
      · refine P LOWEST (rp :: k) _ _ ?_ (Or.inr (Or.inr (Or.inl hrp))) (hrpIll _ hk)
          (loops_stop (Or.inr (Or.inr (Or.inl hrp))))
        simp only [BE.tight, decide_eq_true_eq]
        unfold LOWEST
        omega

  | .tern q c cnd a b, hok => by
    obtain ⟨hq, hc, hcnd, ha, hb'⟩ := hok
    have ihc := pratt_main cnd hcnd
    have iha := pratt_main a ha
    have ihb := pratt_main b hb'
    have hrpIll : ∀ k, NoIll k → NoIll (rp :: k) := fun k hk x hx => by
      rcases List.mem_cons.mp hx with h | h
      · rw [h, hrp]; decide
      · exact hk x h
    have hqIll : ∀ k, NoIll k → NoIll (q :: k) := fun k hk x hx => by
      rcases List.mem_cons.mp hx with h | h
      · rw [h, hq]; decide
      · exact hk x h
    have hcIll : ∀ k, NoIll k → NoIll (c :: k) := fun k hk x hx => by
      rcases List.mem_cons.mp hx with h | h
      · rw [h, hc]; decide
      · exact hk x h
    have hshowB := showAt_ne_nil lp rp extra (LOWEST + 1) b
    have hshowA := showAt_ne_nil lp rp extra (TERNARY + 1) a
    have hbodyLast : lastTok (body lp rp extra (.tern q c cnd a b)) = lastTok (showAt lp rp extra (LOWEST + 1) b) := by
      simp only [body]
      exact lastTok_append _ _ hshowB
    have P : ∀ prec k ex ts', (BE.tern q c cnd a b).tight (prec + 1) = true → StopTop (.tern q c cnd a b) k → NoIll k →
        RLoops prec (BE.tern q c cnd a b).toExpr (lastTok (body lp rp extra (.tern q c cnd a b)) :: k) ex ts' →
        RParses prec (body lp rp extra (.tern q c cnd a b) ++ k) ex ts' := by
      intro prec k ex ts' ht hst hk hloopE
      have hq2 : prec < TERNARY := by simp only [BE.tight, decide_eq_true_eq] at ht; omega
      have hB := ihb.2 LOWEST k (by decide) hst hk
      have hBI : NoIll (showAt lp rp extra (LOWEST + 1) b ++ k) := ((noIll_show lp rp extra hlp hrp b hb').1 _).append hk
      have hcStop : StopR TERNARY (c :: (showAt lp rp extra (LOWEST + 1) b ++ k)) :=
        Or.inr (Or.inr (Or.inr (by rw [hc]; decide)))
      have hA := iha.2 TERNARY (c :: (showAt lp rp extra (LOWEST + 1) b ++ k)) (by decide) hcStop (hcIll _ hBI)
      have hAI : NoIll (showAt lp rp extra (TERNARY + 1) a ++ c :: (showAt lp rp extra (LOWEST + 1) b ++ k)) :=
        ((noIll_show lp rp extra hlp hrp a ha).1 _).append (hcIll _ hBI)
      rw [hbodyLast] at hloopE
      have hloopC : ∀ y, RLoops prec cnd.toExpr
          (y :: q :: (showAt lp rp extra (TERNARY + 1) a ++ c :: (showAt lp rp extra (LOWEST + 1) b ++ k))) ex ts' :=
        fun y => loops_tern hq hc hq2 hAI (by simp [hshowA]) hBI (by simp [hshowB]) hA hB hloopE
      simp only [body, List.append_assoc, List.singleton_append]
      rcases showAt_cases lp rp extra (TERNARY + 1) cnd with ⟨hs, htl⟩ | hs
      · rw [hs]
        refine ihc.1 prec _ ex ts' ?_ ?_ (hqIll _ hAI) (hloopC _)
        · cases cnd with
          | ident _ => rfl
          | pre _ _ => simp only [BE.tight, decide_eq_true_eq]; unfold TERNARY at hq2; unfold PREFIX; omega
          | bin o2 _ _ =>
            simp only [BE.tight, decide_eq_true_eq] at htl ⊢; unfold TERNARY at hq2 htl; omega
          | tern _ _ _ _ _ => simp only [BE.tight, decide_eq_true_eq] at htl; omega
        · cases cnd with
          | ident _ => simp [StopTop]
          | pre _ _ => exact Or.inr (Or.inr (Or.inr (by rw [hq]; decide)))
          | bin o2 _ _ =>
            simp only [BE.tight, decide_eq_true_eq] at htl
            exact Or.inr (Or.inr (Or.inr (by rw [hq]; show TERNARY ≤ opPrec o2; omega)))
          | tern _ _ _ _ _ => simp only [BE.tight, decide_eq_true_eq] at htl; omega
      · rw [hs]
        simp only [List.append_assoc, List.cons_append, List.nil_append]
        refine parses_paren (x := lastTok (body lp rp extra cnd)) hlp hrp ?_ (hqIll _ hAI) ?_ (hloopC rp) (by simp [body_ne_nil])
        · have : NoIll (body lp rp extra cnd ++ rp :: q :: (showAt lp rp extra (TERNARY + 1) a ++ c :: (showAt lp rp extra (LOWEST + 1) b ++ k))) :=
            ((noIll_show lp rp extra hlp hrp cnd hcnd).2).append (hrpIll _ (hqIll _ hAI))
          intro x hx
          exact this x (List.mem_of_mem_tail hx)
        · have hstopRp : ∀ n, StopR n (rp :: q :: (showAt lp rp extra (TERNARY + 1) a ++ c :: (showAt lp rp extra (LOWEST + 1) b ++ k))) :=
            fun n => Or.inr (Or.inr (Or.inl hrp))
          refine ihc.1 LOWEST _ _ _ ?_ ?_ (hrpIll _ (hqIll _ hAI)) (loops_stop (hstopRp _))
          · cases cnd with
            | ident _ => rfl
            | pre _ _ => simp only [BE.tight, decide_eq_true_eq]; unfold LOWEST PREFIX; omega
            | bin o2 _ _ =>
              have := binop_prec_ge hcnd.1
              simp only [BE.tight, decide_eq_true_eq]; unfold LOWEST; omega
            | tern _ _ _ _ _ => simp only [BE.tight, decide_eq_true_eq]; unfold LOWEST TERNARY; omega
          · cases cnd with
            | ident _ => simp [StopTop]
            | pre _ _ => exact hstopRp _
            | bin o2 _ _ => exact hstopRp _
            | tern _ _ _ _ _ => exact hstopRp _
    refine ⟨P, ?_⟩
    intro prec k hple hs hk
    rcases showAt_cases lp rp extra (prec + 1) (.tern q c cnd a b) with ⟨h, ht⟩ | h
    · rw [h]
      have hq2 : prec + 1 ≤ TERNARY := by simpa [BE.tight] using ht
      refine P prec k _ _ ht ?_ hk (loops_stop hs)
      -- the loop at the (lower) level of the caller stops here, so the one at LOWEST does too
      cases k with
      | nil => exact hs
      | cons t0 r0 =>
        rcases hs with h1 | h1 | h1 | h1
        · exact Or.inl h1
        · exact Or.inr (Or.inl h1)
        · exact Or.inr (Or.inr (Or.inl h1))
        · exact Or.inr (Or.inr (Or.inr (by unfold TERNARY at hq2; unfold LOWEST; omega)))
    · rw [h]
      have hl2 : lastTok ([lp] ++ body lp rp extra (.tern q c cnd a b) ++ [rp]) = rp := lastTok_append_singleton _ _
      rw [hl2]
      simp only [List.append_assoc, List.cons_append, List.nil_append, List.singleton_append]
      refine parses_paren (x := lastTok (body lp rp extra (.tern q c cnd a b))) hlp hrp ?_ hk ?_ (loops_stop hs) (by simp [body_ne_nil])
      · have : NoIll (body lp rp extra (.tern q c cnd a b) ++ rp :: k) :=
          ((noIll_show lp rp extra hlp hrp (.tern q c cnd a b) ⟨hq, hc, hcnd, ha, hb'⟩).2).append (hrpIll _ hk)
        intro x hx
        exact this x (List.mem_of_mem_tail hx)
      · refine P LOWEST (rp :: k) _ _ ?_ (Or.inr (Or.inr (Or.inl hrp))) (hrpIll _ hk)
          (loops_stop (Or.inr (Or.inr (Or.inl hrp))))
        simp only [BE.tight, decide_eq_true_eq]
        unfold LOWEST TERNARY
        omega

end
end Tw

namespace Tw

/-- **round trip**: for every tree of identifiers and binary operators, every placement of
    redundant parentheses, every continuation at which the loop stops and every parser state,
    the model's `parseExpression(LOWEST)` on the printed tokens returns exactly the tree, leaves
    the parser on the expression's last token and records no error.  Hence operators group by
    the precedence table, equal levels group to the left, and parentheses beyond the necessary
    ones change nothing. -/
theorem parse_print (lp rp : Token) (hlp : lp.ty = .LPAREN) (hrp : rp.ty = .RPAREN) (extra : BE → Bool)
    (e : BE) (hok : e.ok) (k : List Token) (hk : NoIll k) (hstop : StopR LOWEST k) :
    RParses LOWEST (showAt lp rp extra (LOWEST + 1) e ++ k) e.toExpr
      (lastTok (showAt lp rp extra (LOWEST + 1) e) :: k) :=
  (pratt_main lp rp extra hlp hrp e hok).2 LOWEST k (by decide) hstop hk

/-- two printings of one tree that differ only in redundant parentheses parse to the same tree -/
theorem redundant_parentheses_irrelevant (lp rp : Token) (hlp : lp.ty = .LPAREN) (hrp : rp.ty = .RPAREN)
    (extra1 extra2 : BE → Bool) (e : BE) (hok : e.ok) (k : List Token) (hk : NoIll k) (hstop : StopR LOWEST k) :
    ∃ N, ∀ f, N ≤ f → ∀ p : PS,
      (parseExpression f LOWEST (p.withToks (showAt lp rp extra1 (LOWEST + 1) e ++ k))).1 =
      (parseExpression f LOWEST (p.withToks (showAt lp rp extra2 (LOWEST + 1) e ++ k))).1 := by
  obtain ⟨N1, h1⟩ := parse_print lp rp hlp hrp extra1 e hok k hk hstop
  obtain ⟨N2, h2⟩ := parse_print lp rp hlp hrp extra2 e hok k hk hstop
  exact ⟨max N1 N2, fun f hf p => by rw [h1 f (by omega) p, h2 f (by omega) p]⟩

/-- the printer is injective on trees (with the minimal parentheses): different trees print
    differently — because both parse back to themselves -/
theorem print_injective (lp rp : Token) (hlp : lp.ty = .LPAREN) (hrp : rp.ty = .RPAREN)
    (e1 e2 : BE) (h1 : e1.ok) (h2 : e2.ok) (k : List Token) (hk : NoIll k) (hstop : StopR LOWEST k)
    (heq : showAt lp rp (fun _ => false) (LOWEST + 1) e1 = showAt lp rp (fun _ => false) (LOWEST + 1) e2) :
    e1.toExpr = e2.toExpr := by
  obtain ⟨N1, p1⟩ := parse_print lp rp hlp hrp (fun _ => false) e1 h1 k hk hstop
  obtain ⟨N2, p2⟩ := parse_print lp rp hlp hrp (fun _ => false) e2 h2 k hk hstop
  have a := p1 (max N1 N2) (by omega) default
  have c := p2 (max N1 N2) (by omega) default
  rw [heq] at a
  rw [a] at c
  exact (Prod.mk.inj c).1

end Tw

namespace Tw

/-- the tokens carry their canonical literals (what the lexer produces for these types) -/
def BE.canon : BE → Prop
  | .ident _ => True
  | .pre op r => (op.ty = .SUB → op.lit = b "-") ∧ (op.ty = .NOT → op.lit = b "!") ∧ r.canon
  | .bin _ l r => l.canon ∧ r.canon
  | .tern _ _ cnd a bb => cnd.canon ∧ a.canon ∧ bb.canon

end Tw
