/-
  TwProofs.Lemmas.LexStrPlain — a string literal without its own quote character and without a
  backslash inside is one STR token whose literal is the text between the quotes.
-/
import TwProofs.Lemmas.LexStr
import TwProofs.Lemmas.TextVars
namespace Tw
open Lx

/-- neither the quote nor a backslash -/
def PlainStr (q : Byte) (c : Bytes) : Prop := ∀ y ∈ c, y ≠ q ∧ y ≠ 92

instance (q : Byte) (c : Bytes) : Decidable (PlainStr q c) := by unfold PlainStr; exact inferInstance

theorem strScan_plain (q : Byte) : ∀ (c : Bytes) (x : Bytes), c ≠ [] → PlainStr q c → strScan q (c ++ q :: x) = c.length
  | [], _, h, _ => absurd rfl h
  | [a], x, _, hp => by
    have ha : a ≠ 92 := (hp a (by simp)).2
    simp only [List.cons_append, List.nil_append, List.length_cons, List.length_nil]
    rw [strScan_cons2]
    simp [ha]
  | a :: d :: t, x, _, hp => by
    have hd : d ≠ q := (hp d (by simp)).1
    simp only [List.cons_append, List.length_cons]
    rw [strScan_cons2]
    have : (d == q && a != 92) = false := by simp [hd]
    rw [this]
    simp only [Bool.false_eq_true, if_false]
    have := strScan_plain q (d :: t) x (by simp) (fun y hy => hp y (List.mem_cons_of_mem _ hy))
    simp only [List.cons_append, List.length_cons] at this
    rw [this]; omega

theorem strSpan_plain (q : Byte) (c x : Bytes) (hp : PlainStr q c) : strSpan (q :: (c ++ q :: x)) = (c.length + 2, c) := by
  unfold strSpan
  simp only [List.headD_cons, List.drop_succ_cons, List.drop_zero]
  cases c with
  | nil => simp
  | cons a t =>
    have ha : a ≠ q := (hp a (by simp)).1
    have : ((a :: t ++ q :: x).headD 0 == q && !(a :: t ++ q :: x).isEmpty) = false := by simp [ha]
    rw [this]
    simp only [Bool.false_eq_true, if_false]
    rw [strScan_plain q (a :: t) x (by simp) hp]
    simp

theorem replaceGo_none (old new : Bytes) (hold : 2 ≤ old.length) (q : Byte) (hq : old.getLast? = some q) :
    ∀ c : Bytes, (∀ y ∈ c, y ≠ q) → replaceGo old new 0 c = c
  | [], _ => rfl
  | a :: t, h => by
    rw [replaceGo]
    have hnp : isPrefixOf old (a :: t) = false := by
      cases hpre : isPrefixOf old (a :: t) with
      | false => rfl
      | true =>
        -- a prefix that ends in `q` would put `q` into the text
        exfalso
        have hmem : ∀ (o l : Bytes), isPrefixOf o l = true → ∀ z ∈ o, z ∈ l := by
          intro o
          induction o with
          | nil => intro l _ z hz; cases hz
          | cons u v ih =>
            intro l hl z hz
            cases l with
            | nil => simp [isPrefixOf] at hl
            | cons w r =>
              simp only [isPrefixOf, Bool.and_eq_true, beq_iff_eq] at hl
              rcases List.mem_cons.mp hz with e | e
              · rw [e, hl.1]; simp
              · exact List.mem_cons_of_mem _ (ih r hl.2 z e)
        have hqo : q ∈ old := List.mem_of_getLast? hq
        exact h q (hmem old (a :: t) hpre q hqo) rfl
    rw [hnp]
    simp only [Bool.false_eq_true, if_false]
    rw [replaceGo_none old new hold q hq t (fun y hy => h y (List.mem_cons_of_mem _ hy))]

theorem strDesc_plain (s : Lx) (q : Byte) (c x : Bytes) (hr : s.rest = q :: (c ++ q :: x)) (hp : PlainStr q c) :
    (strDesc s).n = c.length + 2 ∧ (strDesc s).ty = .STR ∧ (strDesc s).lit = c ∧ (strDesc s).st = s := by
  have hc : s.char = q := by simp [Lx.char, hr]
  unfold strDesc
  simp only []
  rw [hr, strSpan_plain q c x hp, hc]
  refine ⟨by simp, by simp, ?_, by simp⟩
  unfold replaceAll
  simp only [List.isEmpty_cons, Bool.false_eq_true, if_false]
  exact replaceGo_none [92, q] [q] (by simp) q (by simp) c (fun y hy => (hp y hy).1)

/-- **the three tokens of `{{ "text" }}`** (either quote, any white space around the literal) -/
theorem lex_lit (s : Lx) (g1 : Bytes) (q : Byte) (c g2 tl : Bytes) (hh : s.isHTML = true) (hb : s.braces = 0)
    (hg1 : allWs g1) (hg2 : allWs g2) (hq : q = 34 ∨ q = 39) (hp : PlainStr q c)
    (hr : s.rest = [123, 123] ++ g1 ++ (q :: (c ++ [q])) ++ g2 ++ [125, 125] ++ tl) :
    ∃ t1 t2 t3 s3, Run s [t1, t2, t3] s3 ∧ key t1 = (.LBRACES, [123, 123]) ∧ key t2 = (.STR, c) ∧ key t3 = (.RBRACES, [125, 125]) ∧
      s3.rest = tl ∧ s3.isHTML = true ∧ s3.braces = 0 ∧ s3.panicked = s.panicked ∧ s3.prev = 125 ∧
      s3.isDirective = s.isDirective ∧ s3.parens = s.parens := by
  have hqws : isWs q = false := by rcases hq with h | h <;> subst h <;> decide
  have hq45 : q ≠ 45 := by rcases hq with h | h <;> subst h <;> decide
  -- step 1: "{{"
  have hws : skipWs s = s := by simp [skipWs, hh]
  have hchar : s.char = 123 := by simp [Lx.char, hr]
  have hpeek : s.peek = 123 := by simp [Lx.peek, hr]
  obtain ⟨b1, b2, b3⟩ := emit_after ({ st := { s with isHTML := false }, n := 2, ty := .LBRACES, lit := [123, 123] } : TokDesc)
    [123, 123] (g1 ++ (q :: (c ++ [q])) ++ g2 ++ [125, 125] ++ tl) (by simp) (by simp [hr]) rfl
  have hbt : bracesToken s .LBRACES [123, 123] =
      ({ st := { s with isHTML := false }, n := 2, ty := .LBRACES, lit := [123, 123] } : TokDesc).emit := rfl
  have hnc : ¬ (((bracesToken s .LBRACES [123, 123]).2.char == 45 && (bracesToken s .LBRACES [123, 123]).2.peek == 45) = true) := by
    rw [hbt]
    simp only [Lx.char, b1]
    intro h
    simp only [Bool.and_eq_true, beq_iff_eq] at h
    cases g1 with
    | nil => simp only [List.nil_append, List.cons_append, List.headD_cons] at h; exact hq45 h.1
    | cons w t =>
      have hw : isWs w = true := hg1 w List.mem_cons_self
      simp only [List.cons_append, List.headD_cons] at h
      rw [h.1] at hw; cases hw
  have step1 : nextStep s = (.tok (bracesToken s .LBRACES [123, 123]).1, (bracesToken s .LBRACES [123, 123]).2) := by
    unfold nextStep; rw [hws]; unfold stepAt
    rw [if_neg (by simp [Lx.isEOF, hr]), if_pos (by simp [hchar, hpeek]), if_neg hnc]
  -- step 2: the literal
  let s1 := (bracesToken s .LBRACES [123, 123]).2
  have r1 : s1.rest = g1 ++ (q :: (c ++ q :: (g2 ++ [125, 125] ++ tl))) := by
    show (bracesToken s .LBRACES [123, 123]).2.rest = _; rw [hbt, b1]; simp
  have m1 : mode s1 = (false, s.isDirective, s.parens, s.braces, s.panicked) := by
    show mode (bracesToken s .LBRACES [123, 123]).2 = _; rw [hbt, b2]; rfl
  have h1 : s1.isHTML = false := by have := congrArg (·.1) m1; simpa [mode] using this
  obtain ⟨k1, k2⟩ := skipWs_code s1 h1 g1 _ hg1 r1 (by simpa using hqws)
  obtain ⟨d1, d2, d3, d4⟩ := strDesc_plain (skipWs s1) q c (g2 ++ [125, 125] ++ tl) k1 hp
  have hc2 : (skipWs s1).char = q := by simp [Lx.char, k1]
  have hcs2 : codeStepDesc (skipWs s1) = strDesc (skipWs s1) := by
    unfold codeStepDesc
    rw [if_neg (by rw [hc2]; rcases hq with h | h <;> subst h <;> simp)]
    exact codeDesc_string _ (by rw [hc2]; exact hq)
  have step2 := stepAt_code (skipWs s1) (by rw [mode_html k2]; exact h1) (by rw [k1]; simp)
    (by rw [hc2]; rcases hq with h | h <;> subst h <;> simp)
  obtain ⟨a1, a2, a3⟩ := emit_after (codeStepDesc (skipWs s1)) (q :: (c ++ [q])) (g2 ++ [125, 125] ++ tl) (by simp)
    (by rw [hcs2, d4, k1]; simp) (by rw [hcs2, d1]; simp)
  let s2 := (codeStepDesc (skipWs s1)).emit.2
  have m2 : mode s2 = mode s1 := by show mode (codeStepDesc (skipWs s1)).emit.2 = _; rw [a2, hcs2, d4, k2]
  have h2 : s2.isHTML = false := by rw [mode_html m2]; exact h1
  -- step 3: "}}"
  have r2 : s2.rest = g2 ++ ([125, 125] ++ tl) := by show (codeStepDesc (skipWs s1)).emit.2.rest = _; rw [a1]; simp
  obtain ⟨j1, j2⟩ := skipWs_code s2 h2 g2 _ hg2 r2 (by simp only [List.cons_append, List.headD_cons]; decide)
  have hbr : (skipWs s2).braces = 0 := by
    rw [mode_braces j2, mode_braces m2]; have := congrArg (·.2.2.2.1) m1; simp only [mode] at this; rw [this]; exact hb
  have hc3 : (skipWs s2).char = 125 := by simp [Lx.char, j1]
  have hp3 : (skipWs s2).peek = 125 := by simp [Lx.peek, j1]
  have step3 := stepAt_code (skipWs s2) (by rw [mode_html j2]; exact h2) (by rw [j1]; simp) (by rw [hc3]; simp)
  have hcs3 : codeStepDesc (skipWs s2) = { st := { skipWs s2 with isHTML := true }, n := 2, ty := .RBRACES, lit := [125, 125] } := by
    unfold codeStepDesc
    rw [if_pos (by simp [hc3, hp3, hbr])]
  obtain ⟨e1, e2, e3⟩ := emit_after (codeStepDesc (skipWs s2)) [125, 125] tl (by simp) (by rw [hcs3]; simpa using j1) (by rw [hcs3]; rfl)
  refine ⟨(bracesToken s .LBRACES [123, 123]).1, (codeStepDesc (skipWs s1)).emit.1, (codeStepDesc (skipWs s2)).emit.1,
    (codeStepDesc (skipWs s2)).emit.2, ?_, ?_, ?_, ?_, e1, ?_, ?_, ?_, ?_, ?_, ?_⟩
  · refine Run.cons _ _ _ _ _ step1 (by unfold bracesToken; rw [emit_ty]; decide) ?_
    refine Run.cons s1 s2 _ _ _ (by unfold nextStep; exact step2) (by unfold TokDesc.emit; rw [emit_ty, hcs2, d2]; decide) ?_
    exact Run.cons s2 _ _ _ _ (by unfold nextStep; exact step3) (by unfold TokDesc.emit; rw [emit_ty, hcs3]; exact fun h => by cases h) (Run.nil _)
  · unfold bracesToken; rw [emit_key]
  · unfold TokDesc.emit; rw [emit_key, hcs2, d2, d3]
  · unfold TokDesc.emit; rw [emit_key, hcs3]
  · rw [mode_html e2, hcs3]
  · rw [mode_braces e2, hcs3]; exact hbr
  · rw [mode_pan e2, hcs3]
    show (skipWs s2).panicked = _
    rw [mode_pan j2, mode_pan m2]
    have := congrArg (·.2.2.2.2) m1; simpa [mode] using this
  · rw [e3]; rfl
  · rw [mode_dir e2, hcs3]
    show (skipWs s2).isDirective = _
    rw [mode_dir j2, mode_dir m2]
    have := congrArg (·.2.1) m1; simpa [mode] using this
  · rw [mode_parens e2, hcs3]
    show (skipWs s2).parens = _
    rw [mode_parens j2, mode_parens m2]
    have := congrArg (·.2.2.1) m1; simpa [mode] using this

end Tw
