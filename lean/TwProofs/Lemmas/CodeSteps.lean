/-
  TwProofs.Lemmas.CodeSteps — single `NextToken` bodies in code, as reusable steps: a word
  (identifier or keyword), "(" and ")" in a directive's argument list.
-/
import TwProofs.Lemmas.TextIf
namespace Tw
open Lx

/-- letters, digits, underscores, beginning with a letter or an underscore -/
def isWord (n : Bytes) : Prop :=
  (∃ c v, n = c :: v ∧ isIdentCh c = true) ∧ (∀ x ∈ n, (isIdentCh x || isNumberCh x) = true)

instance (n : Bytes) : Decidable (isWord n) := by
  unfold isWord
  have : Decidable (∃ c v, n = c :: v ∧ isIdentCh c = true) := by
    cases n with
    | nil => exact isFalse (by simp)
    | cons c v => exact if h : isIdentCh c = true then isTrue ⟨c, v, rfl, h⟩ else isFalse (by simpa using h)
  exact inferInstance

theorem isName_word {n : Bytes} (h : isName n) : isWord n := ⟨h.1, h.2.1⟩

theorem codeStepDesc_word (s : Lx) (n x : Bytes) (hn : isWord n) (hr : s.rest = n ++ x)
    (hx : (isIdentCh (x.headD 0) || isNumberCh (x.headD 0)) = false) :
    (codeStepDesc s).n = n.length ∧ (codeStepDesc s).ty = lookupIdent n ∧ (codeStepDesc s).lit = n ∧ (codeStepDesc s).st = s := by
  obtain ⟨⟨c, v, hcv, hc⟩, hall⟩ := hn
  obtain ⟨q1, q2, q3, q4, q5, q6, q7, q8, q9, q10, q11, q12, q13, _⟩ := identCh_not_special hc
  have hchar : s.char = c := by simp [Lx.char, hr, hcv]
  have htw : s.rest.takeWhile (fun x => isIdentCh x || isNumberCh x) = n := by
    rw [hr]
    have : ∀ (l : Bytes), (∀ y ∈ l, (isIdentCh y || isNumberCh y) = true) → (l ++ x).takeWhile (fun x => isIdentCh x || isNumberCh x) = l := by
      intro l
      induction l with
      | nil =>
        intro _
        cases x with
        | nil => rfl
        | cons a t => simp only [List.headD_cons] at hx; simp [hx]
      | cons a t ih =>
        intro hl
        have ha := hl a List.mem_cons_self
        simp only [List.cons_append, List.takeWhile_cons, ha, if_true]
        rw [ih (fun y hy => hl y (List.mem_cons_of_mem _ hy))]
    exact this n hall
  have hcd : codeStepDesc s = wordDesc s := by
    unfold codeStepDesc
    rw [if_neg (by rw [hchar]; simp [q3])]
    unfold codeDesc
    rw [hchar, q1]
    simp only []
    unfold bracketDesc
    rw [hchar]
    have q67 : (c == 34 || c == 39) = false := by simp [q6, q7]
    simp only [beq_iff_eq, q2, q3, q4, q5, q67, if_false, Bool.false_eq_true]
    unfold opDesc
    rw [hchar]
    simp only [beq_iff_eq, q8, q9, q10, q11, q12, q13, if_false]
  rw [hcd]
  unfold wordDesc
  rw [hchar, if_pos hc, htw]
  exact ⟨rfl, rfl, rfl, rfl⟩

/-- what a code step leaves: the rest, the mode, the previous byte -/
structure After (s s1 : Lx) (x : Bytes) (last : Byte) : Prop where
  rest : s1.rest = x
  md : mode s1 = mode s
  prev : s1.prev = last

/-- a word after any white space, in code -/
theorem code_word_step (s : Lx) (g n x : Bytes) (hh : s.isHTML = false) (hg : allWs g) (hn : isWord n)
    (hr : s.rest = g ++ (n ++ x)) (hx : (isIdentCh (x.headD 0) || isNumberCh (x.headD 0)) = false) :
    ∃ t s1, nextStep s = (.tok t, s1) ∧ key t = (lookupIdent n, n) ∧ t.ty ≠ .EOF ∧ After s s1 x (n.reverse.headD 0) := by
  obtain ⟨⟨c, v, hcv, hc⟩, hall⟩ := hn
  have hw : isWord n := ⟨⟨c, v, hcv, hc⟩, hall⟩
  have qws := (identCh_not_special hc).2.2.2.2.2.2.2.2.2.2.2.2.2
  obtain ⟨k1, k2⟩ := skipWs_code s hh g _ hg hr (by rw [hcv]; simpa using qws)
  obtain ⟨e1, e2, e3, e4⟩ := codeStepDesc_word (skipWs s) n x hw k1 hx
  have st := stepAt_code (skipWs s) (by rw [mode_html k2]; exact hh) (by rw [k1, hcv]; simp)
    (by
      intro ⟨e, _⟩
      have : (skipWs s).char = c := by simp [Lx.char, k1, hcv]
      rw [this] at e
      exact (identCh_not_special hc).2.1 e)
  obtain ⟨f1, f2, f3⟩ := emit_after (codeStepDesc (skipWs s)) n x (by rw [hcv]; simp) (by rw [e4]; exact k1) e1
  refine ⟨(codeStepDesc (skipWs s)).emit.1, (codeStepDesc (skipWs s)).emit.2, by unfold nextStep; exact st, ?_, ?_, ⟨f1, ?_, f3⟩⟩
  · unfold TokDesc.emit; rw [emit_key, e2, e3]
  · unfold TokDesc.emit; rw [emit_ty, e2]; exact lookupIdent_ne_eof n
  · rw [f2, e4, k2]

/-- "(" right after a directive keyword (the directive flag is set): the counter goes up -/
theorem code_lparen_step (s : Lx) (x : Bytes) (hh : s.isHTML = false) (hd : s.isDirective = true) (hr : s.rest = 40 :: x) :
    ∃ t s1, nextStep s = (.tok t, s1) ∧ key t = (.LPAREN, [40]) ∧ t.ty ≠ .EOF ∧ s1.rest = x ∧ s1.prev = 40 ∧
      mode s1 = (false, true, s.parens + 1, s.braces, s.panicked) := by
  have hr' : s.rest = [] ++ (40 :: x) := by rw [hr]; rfl
  obtain ⟨w1, w2⟩ := skipWs_code s hh [] _ (fun _ h => by cases h) hr' (by simp only [List.headD_cons]; decide)
  have hd2 := codeStepDesc_lparen (skipWs s) _ w1
  have hdir2 : (skipWs s).isDirective = true := by rw [mode_dir w2]; exact hd
  rw [hdir2] at hd2
  simp only [if_true] at hd2
  have st2 := stepAt_code (skipWs s) (by rw [mode_html w2]; exact hh) (by rw [w1]; simp) (by simp [Lx.char, w1])
  obtain ⟨a1, a2, a3⟩ := emit_after (codeStepDesc (skipWs s)) [40] x (by simp) (by rw [hd2]; simpa using w1) (by rw [hd2]; rfl)
  refine ⟨(codeStepDesc (skipWs s)).emit.1, (codeStepDesc (skipWs s)).emit.2, by unfold nextStep; exact st2, ?_, ?_, a1, by rw [a3]; rfl, ?_⟩
  · unfold TokDesc.emit; rw [emit_key, hd2]
  · unfold TokDesc.emit; rw [emit_ty, hd2]; exact fun h => by cases h
  · rw [a2, hd2]
    simp only [mode]
    rw [mode_html w2, mode_parens w2, mode_braces w2, mode_pan w2, hh]

/-- the ")" that closes the argument list: back to text mode -/
theorem code_rparen_close (s : Lx) (g x : Bytes) (hh : s.isHTML = false) (hd : s.isDirective = true) (hp : s.parens = 1)
    (hg : allWs g) (hr : s.rest = g ++ (41 :: x)) :
    ∃ t s1, nextStep s = (.tok t, s1) ∧ key t = (.RPAREN, [41]) ∧ t.ty ≠ .EOF ∧ s1.rest = x ∧ s1.prev = 41 ∧
      mode s1 = (true, false, 0, s.braces, s.panicked) := by
  obtain ⟨j1, j2⟩ := skipWs_code s hh g _ hg hr (by simp only [List.headD_cons]; decide)
  have hd4 := codeStepDesc_rparen (skipWs s) x j1
  have hdir4 : (skipWs s).isDirective = true := by rw [mode_dir j2]; exact hd
  have hpar4 : (skipWs s).parens = 1 := by rw [mode_parens j2]; exact hp
  rw [hdir4, hpar4] at hd4
  simp only [Bool.true_and, show ((1 : Int) - 1 == 0) = true from by decide, if_true] at hd4
  have st4 := stepAt_code (skipWs s) (by rw [mode_html j2]; exact hh) (by rw [j1]; simp) (by simp [Lx.char, j1])
  obtain ⟨z1, z2, z3⟩ := emit_after (codeStepDesc (skipWs s)) [41] x (by simp) (by rw [hd4]; simpa using j1) (by rw [hd4]; rfl)
  refine ⟨(codeStepDesc (skipWs s)).emit.1, (codeStepDesc (skipWs s)).emit.2, by unfold nextStep; exact st4, ?_, ?_, z1, by rw [z3]; rfl, ?_⟩
  · unfold TokDesc.emit; rw [emit_key, hd4]
  · unfold TokDesc.emit; rw [emit_ty, hd4]; exact fun h => by cases h
  · rw [z2, hd4]
    simp only [mode]
    rw [mode_braces j2, mode_pan j2]
    rfl

end Tw
