/-
  TwProofs.Lemmas.ScopeLex — templates of text, `{{ name }}`, `{{ name = "text" }}` and
  `@if(name) body @end` whose body is plain text, prints and assignments: the token list (C04).
-/
import TwProofs.Lemmas.LexAssign
import TwProofs.Lemmas.LexIfChain
namespace Tw
open Lx

/-- the items of a body -/
inductive AItem where
  | text (t : Bytes)
  | print (g1 n g2 : Bytes)
  | assign (g1 n g2 g3 : Bytes) (q : Byte) (v g4 : Bytes)

def AItem.src : AItem → Bytes
  | .text t => t
  | .print g1 n g2 => [123, 123] ++ g1 ++ n ++ g2 ++ [125, 125]
  | .assign g1 n g2 g3 q v g4 => assignSrc g1 n g2 g3 q v g4

def asrc : List AItem → Bytes
  | [] => []
  | i :: r => i.src ++ asrc r

def akeys : List AItem → List (TT × Bytes)
  | [] => []
  | .text t :: r => (.HTML, t) :: akeys r
  | .print _ n _ :: r => (.LBRACES, [123, 123]) :: (.IDENT, n) :: (.RBRACES, [125, 125]) :: akeys r
  | .assign _ n _ _ _ v _ :: r => assignKeys n v ++ akeys r

def noTextFirst : List AItem → Prop
  | .text _ :: _ => False
  | _ => True

instance : (r : List AItem) → Decidable (noTextFirst r)
  | [] => isTrue trivial
  | .text _ :: _ => isFalse (fun h => h)
  | .print _ _ _ :: _ => isTrue trivial
  | .assign _ _ _ _ _ _ _ :: _ => isTrue trivial

def AOK : List AItem → Prop
  | [] => True
  | .text t :: r => VeryPlain t ∧ t ≠ [] ∧ noTextFirst r ∧ AOK r
  | .print g1 n g2 :: r => allWs g1 ∧ allWs g2 ∧ isName n ∧ AOK r
  | .assign g1 n g2 g3 q v g4 :: r =>
    allWs g1 ∧ allWs g2 ∧ allWs g3 ∧ allWs g4 ∧ isName n ∧ (q = 34 ∨ q = 39) ∧ PlainStr q v ∧ AOK r

instance : (body : List AItem) → Decidable (AOK body)
  | [] => isTrue trivial
  | .text t :: r => by have := instDecidableAOK r; unfold AOK; exact inferInstance
  | .print g1 n g2 :: r => by have := instDecidableAOK r; unfold AOK; exact inferInstance
  | .assign g1 n g2 g3 q v g4 :: r => by have := instDecidableAOK r; unfold AOK; exact inferInstance

theorem stops_abody (tl : Bytes) (hs : Stops tl) : ∀ r : List AItem, noTextFirst r → Stops (asrc r ++ tl)
  | [], _ => by simpa [asrc] using hs
  | .text _ :: _, h => h.elim
  | .print g1 n g2 :: r, _ => Or.inr (Or.inl ⟨g1 ++ n ++ g2 ++ [125, 125] ++ asrc r ++ tl, by simp [asrc, AItem.src]⟩)
  | .assign g1 n g2 g3 q v g4 :: r, _ =>
    Or.inr (Or.inl ⟨g1 ++ n ++ g2 ++ [61] ++ g3 ++ strLit q v ++ g4 ++ [125, 125] ++ asrc r ++ tl, by simp [asrc, AItem.src, assignSrc, List.append_assoc]⟩)

/-- the tokens of a body in front of any tail that ends a run, and the state behind it -/
theorem lexRun_abody (tl : Bytes) (hs : Stops tl) : ∀ (body : List AItem), AOK body → ∀ (s : Lx), s.rest = asrc body ++ tl →
    s.isHTML = true → s.braces = 0 → s.isDirective = false → s.prev ≠ 92 →
    ∃ ts sf, Run s ts sf ∧ ts.map key = akeys body ∧ sf.rest = tl ∧ sf.isHTML = true ∧ sf.braces = 0 ∧ sf.isDirective = false ∧
      sf.prev ≠ 92 ∧ sf.panicked = s.panicked ∧ sf.parens = s.parens
  | [], _, s, hr, hh, hb, hd, hpv => ⟨[], s, Run.nil s, rfl, by simpa [asrc] using hr, hh, hb, hd, hpv, rfl, rfl⟩
  | .text t :: r, hok, s, hr, hh, hb, hd, _ => by
    obtain ⟨hvp, hne, hnt, hokr⟩ := hok
    have hr' : s.rest = t ++ (asrc r ++ tl) := by rw [hr]; simp [asrc, AItem.src]
    obtain ⟨tk, s1, st1, k1, ne1, r1, pv1, m1⟩ := lex_vplain s t _ hh hvp hne hr' (stops_abody tl hs r hnt)
    obtain ⟨ts, sf, run, hk, rf, hf, bf, df, pvf, pf, paf⟩ := lexRun_abody tl hs r hokr s1 r1 (by rw [mode_html m1]; exact hh)
      (by rw [mode_braces m1]; exact hb) (by rw [mode_dir m1]; exact hd) pv1
    exact ⟨tk :: ts, sf, Run.cons _ _ _ _ _ st1 ne1 run, by simp [akeys, k1, hk], rf, hf, bf, df, pvf, by rw [pf, mode_pan m1], by rw [paf, mode_parens m1]⟩
  | .print g1 n g2 :: r, hok, s, hr, hh, hb, hd, _ => by
    obtain ⟨hg1, hg2, hn, hokr⟩ := hok
    obtain ⟨t1, t2, t3, s3, run3, k1, k2, k3, r3, h3, b3, p3, pv3, d3, pa3⟩ := lex_print s g1 n g2 (asrc r ++ tl) hh hb hg1 hg2 hn
      (by rw [hr]; simp [asrc, AItem.src])
    obtain ⟨ts, sf, run, hk, rf, hf, bf, df, pvf, pf, paf⟩ := lexRun_abody tl hs r hokr s3 r3 h3 b3 (by rw [d3]; exact hd) (by rw [pv3]; decide)
    exact ⟨t1 :: t2 :: t3 :: ts, sf, Run.append run3 run, by simp [akeys, k1, k2, k3, hk], rf, hf, bf, df, pvf, by rw [pf, p3], by rw [paf, pa3]⟩
  | .assign g1 n g2 g3 q v g4 :: r, hok, s, hr, hh, hb, hd, _ => by
    obtain ⟨hg1, hg2, hg3, hg4, hn, hq, hp, hokr⟩ := hok
    obtain ⟨toks, s5, run5, k5, r5, pv5, m5⟩ := lex_assign s g1 n g2 g3 q v g4 (asrc r ++ tl) hh hb hg1 hg2 hg3 hg4 hn hq hp
      (by rw [hr]; simp [asrc, AItem.src])
    obtain ⟨f1, f2, f3, f4, f5⟩ := mode_fields m5
    obtain ⟨ts, sf, run, hk, rf, hf, bf, df, pvf, pf, paf⟩ := lexRun_abody tl hs r hokr s5 r5 f1 f4 (by rw [f2]; exact hd) (by rw [pv5]; decide)
    exact ⟨toks ++ ts, sf, Run.append run5 run, by simp [akeys, k5, hk], rf, hf, bf, df, pvf, by rw [pf, f5], by rw [paf, f3]⟩

/-! ### as pieces of code -/

def printCode (g1 n g2 : Bytes) : Code :=
  { src := [123, 123] ++ g1 ++ n ++ g2 ++ [125, 125], keys := [(.LBRACES, [123, 123]), (.IDENT, n), (.RBRACES, [125, 125])] }

theorem printCode_ok (g1 n g2 : Bytes) (hg1 : allWs g1) (hg2 : allWs g2) (hn : isName n) : (printCode g1 n g2).OK := by
  refine ⟨?_, ?_, ?_⟩
  · intro tl
    exact Or.inr (Or.inl ⟨g1 ++ n ++ g2 ++ [125, 125] ++ tl, by simp [printCode, List.append_assoc]⟩)
  · obtain ⟨⟨c, cv, hcv, _⟩, _, _⟩ := hn
    simp [printCode, hcv]; omega
  · intro s tl hr hh hb hpa hd _
    obtain ⟨t1, t2, t3, s3, run3, k1, k2, k3, r3, h3, b3, p3, pv3, d3, pa3⟩ := lex_print s g1 n g2 tl hh hb hg1 hg2 hn
      (by rw [hr]; simp [printCode, List.append_assoc])
    exact ⟨[t1, t2, t3], s3, run3, by simp [printCode, k1, k2, k3], r3, h3, b3, by rw [pa3]; exact hpa, by rw [d3]; exact hd, p3, by rw [pv3]; decide⟩

def assignCode (g1 n g2 g3 : Bytes) (q : Byte) (v g4 : Bytes) : Code := { src := assignSrc g1 n g2 g3 q v g4, keys := assignKeys n v }

theorem assignCode_ok (g1 n g2 g3 : Bytes) (q : Byte) (v g4 : Bytes) (hg1 : allWs g1) (hg2 : allWs g2) (hg3 : allWs g3) (hg4 : allWs g4)
    (hn : isName n) (hq : q = 34 ∨ q = 39) (hp : PlainStr q v) : (assignCode g1 n g2 g3 q v g4).OK := by
  refine ⟨?_, ?_, ?_⟩
  · intro tl
    exact Or.inr (Or.inl ⟨g1 ++ n ++ g2 ++ [61] ++ g3 ++ strLit q v ++ g4 ++ [125, 125] ++ tl, by simp [assignCode, assignSrc, List.append_assoc]⟩)
  · obtain ⟨⟨c, cv, hcv, _⟩, _, _⟩ := hn
    simp [assignCode, assignSrc, assignKeys, strLit, hcv]; omega
  · intro s tl hr hh hb hpa hd _
    obtain ⟨toks, s5, run5, k5, r5, pv5, m5⟩ := lex_assign s g1 n g2 g3 q v g4 tl hh hb hg1 hg2 hg3 hg4 hn hq hp hr
    obtain ⟨f1, f2, f3, f4, f5⟩ := mode_fields m5
    exact ⟨toks, s5, run5, k5, r5, f1, f4, by rw [f3]; exact hpa, by rw [f2]; exact hd, f5, by rw [pv5]; decide⟩

/-- `@if( g1 c g2 ) body @end` -/
def ifbCode (g1 c g2 : Bytes) (body : List AItem) : Code :=
  { src := kwIf ++ (40 :: (g1 ++ (c ++ (g2 ++ (41 :: (asrc body ++ kwEnd)))))),
    keys := [(.IF, kwIf), (.LPAREN, [40]), (.IDENT, c), (.RPAREN, [41])] ++ (akeys body ++ [(.END, kwEnd)]) }

theorem akeys_length (body : List AItem) (hok : AOK body) : (akeys body).length ≤ (asrc body).length := by
  induction body with
  | nil => simp [akeys, asrc]
  | cons it r ih =>
    cases it with
    | text t =>
      have := ih hok.2.2.2
      have hne : t.length ≠ 0 := by intro h; exact hok.2.1 (List.length_eq_zero_iff.mp h)
      simp [akeys, asrc, AItem.src]; omega
    | print g1 n g2 =>
      have := ih hok.2.2.2
      simp [akeys, asrc, AItem.src]; omega
    | assign g1 n g2 g3 q v g4 =>
      have := ih hok.2.2.2.2.2.2.2
      obtain ⟨⟨c, cv, hcv, _⟩, _, _⟩ := hok.2.2.2.2.1
      simp [akeys, asrc, AItem.src, assignKeys, assignSrc, strLit, hcv]; omega

theorem ifbCode_ok (g1 c g2 : Bytes) (body : List AItem) (hg1 : allWs g1) (hg2 : allWs g2) (hc : isName c) (hbody : AOK body) :
    (ifbCode g1 c g2 body).OK := by
  refine ⟨?_, ?_, ?_⟩
  · intro tl
    have := stops_kw kwIf ((40 :: (g1 ++ (c ++ (g2 ++ (41 :: (asrc body ++ kwEnd)))))) ++ tl) rfl (by decide) (by decide) (by decide)
    simpa [ifbCode, List.append_assoc] using this
  · have := akeys_length body hbody
    simp [ifbCode, kwIf, kwEnd]; omega
  · intro s tl hr hh hb hpa hd hpv
    have hr' : s.rest = kwIf ++ (40 :: (g1 ++ (c ++ (g2 ++ (41 :: (asrc body ++ (kwEnd ++ tl))))))) := by
      rw [hr]; simp [ifbCode, List.append_assoc]
    obtain ⟨t1, t2, t3, t4, s4, run4, k1, k2, k3, k4, r4, pv4, m4⟩ := lex_cond_header kwIf .IF dirKw_if s g1 c g2 _ hh hpv hpa hg1 hg2 hc hr'
    obtain ⟨f1, f2, f3, f4, f5⟩ := mode_fields m4
    have hstopE : Stops (kwEnd ++ tl) := stops_kw kwEnd tl rfl (by decide) (by decide) (by decide)
    obtain ⟨ts, sb, runb, kb, rb, hhb, bb, db, pvb, pb, pab⟩ := lexRun_abody _ hstopE body hbody s4 r4 f1 (by rw [f4]; exact hb) f2 (by rw [pv4]; decide)
    obtain ⟨t7, s7, st7, k7, ne7, r7, h7, d7, pa7, b7, p7, pv7⟩ := lex_keyword sb kwEnd tl .END hhb pvb rb
      rfl (by decide) (by decide) (dirScan_end _) (by decide) (by decide) (by decide)
    refine ⟨[t1, t2, t3, t4] ++ ts ++ [t7], s7, run_snoc (Run.append run4 runb) st7 ne7, ?_, r7, by rw [h7]; rfl, by rw [b7, bb], ?_, by rw [d7]; rfl, ?_,
      by rw [pv7]; decide⟩
    · simp [ifbCode, k1, k2, k3, k4, kb, k7]
    · rw [pa7, pab, f3]
    · rw [p7, pb, f5]

end Tw
