/-
  TwProofs.Lemmas.TextIfChain — templates of text runs and `@if … @elseif … [@else …] @end` chains
  with plain texts: the statement loop and the evaluation (C02).
-/
import TwProofs.Lemmas.ParseIfChain
import TwProofs.Lemmas.TextLayout
namespace Tw
open Lx

inductive KItem where
  | text (segs : List Seg)
  | chain (ch : Chain)

def KItem.g : KItem → GItem
  | .text segs => .text segs
  | .chain ch => .code ch.code

/-- the template -/
def chainTplSrc (items : List KItem) : Bytes := gsrc (items.map KItem.g)

def afterRunK (segs : List Seg) : List KItem → Prop
  | [] => True
  | .text _ :: _ => False
  | .chain _ :: _ => lastOr (segsSrc segs) 0 ≠ 92

def KItemsOK : List KItem → Prop
  | [] => True
  | .text segs :: r => startsRun segs ∧ SegsOK segs (chainTplSrc r) ∧ afterRunK segs r ∧ KItemsOK r
  | .chain ch :: r => ch.OK ∧ KItemsOK r

instance (segs : List Seg) : (r : List KItem) → Decidable (afterRunK segs r)
  | [] => isTrue trivial
  | .text _ :: _ => isFalse (by simp [afterRunK])
  | .chain _ :: _ => by unfold afterRunK; exact inferInstance

instance : (items : List KItem) → Decidable (KItemsOK items)
  | [] => isTrue trivial
  | .text segs :: r => by have := instDecidableKItemsOK r; unfold KItemsOK; exact inferInstance
  | .chain ch :: r => by have := instDecidableKItemsOK r; unfold KItemsOK; exact inferInstance

theorem kitems_ok : ∀ items : List KItem, KItemsOK items → GItemsOK (items.map KItem.g)
  | [], _ => trivial
  | .text segs :: r, h => by
    refine ⟨h.1, h.2.1, ?_, kitems_ok r h.2.2.2⟩
    cases r with
    | nil => trivial
    | cons it r' =>
      cases it with
      | text _ => exact absurd h.2.2.1 (by simp [afterRunK])
      | chain ch => exact h.2.2.1
  | .chain ch :: r, h => ⟨chain_ok ch h.1, kitems_ok r h.2⟩

def kkeys : List KItem → List (TT × Bytes)
  | [] => []
  | .text segs :: r => (.HTML, segsLit segs) :: kkeys r
  | .chain ch :: r => chainKeys ch ++ kkeys r

theorem gkeys_kitems : ∀ items : List KItem, gkeys (items.map KItem.g) = kkeys items
  | [] => rfl
  | .text segs :: r => by simp [gkeys, kkeys, KItem.g, gkeys_kitems r]
  | .chain ch :: r => by simp [gkeys, kkeys, KItem.g, chainKeys, gkeys_kitems r]

theorem chainKeys_clean (ch : Chain) (x : TT × Bytes) (h : x ∈ chainKeys ch) : x.1 ≠ .ILLEGAL ∧ x.1 ≠ .EOF := by
  simp only [chainKeys, Chain.code, List.cons_append, List.nil_append, List.mem_cons, List.mem_append] at h
  rcases h with h | h | h | h | h | h | h
  · rw [h]; exact ⟨by simp, by simp⟩
  · rw [h]; exact ⟨by simp, by simp⟩
  · rw [h]; exact ⟨by simp, by simp⟩
  · rw [h]; exact ⟨by simp, by simp⟩
  · rw [h]; exact ⟨by simp, by simp⟩
  · exact altsKeys_clean ch.alts x h
  · exact tailKeys_clean ch.els x h

theorem kkeys_clean : ∀ (items : List KItem) (x : TT × Bytes), x ∈ kkeys items → x.1 ≠ .ILLEGAL ∧ x.1 ≠ .EOF
  | [], x, h => by simp [kkeys] at h
  | .text _ :: r, x, h => by
    simp only [kkeys, List.mem_cons] at h
    rcases h with h | h
    · rw [h]; exact ⟨by simp, by simp⟩
    · exact kkeys_clean r x h
  | .chain ch :: r, x, h => by
    simp only [kkeys, List.mem_append] at h
    rcases h with h | h
    · exact chainKeys_clean ch x h
    · exact kkeys_clean r x h

/-- the statement a chain becomes -/
def ChainStmt (ch : Chain) (st : Stmt) : Prop :=
  ∃ t1 t3 t5 alts' alt', st = .ifS t1 (.ident t3 ch.c) [.html t5] alts' alt' ∧ t5.lit = ch.t ∧ AltsMatch alts' ch.alts ∧ ElseMatch alt' ch.els

inductive KMatch : List Stmt → List KItem → Prop
  | nil : KMatch [] []
  | text (t : Token) (segs : List Seg) (ss : List Stmt) (r : List KItem) : t.lit = segsLit segs → KMatch ss r →
      KMatch (.html t :: ss) (.text segs :: r)
  | chain (st : Stmt) (ch : Chain) (ss : List Stmt) (r : List KItem) : ChainStmt ch st → KMatch ss r → KMatch (st :: ss) (.chain ch :: r)

def kpfuel : List KItem → Nat
  | [] => 1
  | .text _ :: r => 2 + kpfuel r
  | .chain ch :: r => ch.alts.length + 9 + kpfuel r

theorem parseLoop_kitems : ∀ (items : List KItem) (toks : List Token) (e : Token) (acc : List Stmt) (f : Nat),
    toks.map key = kkeys items → e.ty = .EOF → kpfuel items ≤ f →
    ∃ stmts, parseProgramLoop f acc ({ toks := toks ++ [e] } : PS) = (some (acc ++ stmts), { toks := [e] }) ∧ KMatch stmts items
  | [], toks, e, acc, f, hk, he, hf => by
    have : toks = [] := by simpa [kkeys] using hk
    subst this
    obtain ⟨g, rfl⟩ : ∃ g, f = g + 1 := ⟨f - 1, by simp [kpfuel] at hf; omega⟩
    refine ⟨[], ?_, .nil⟩
    rw [parseProgramLoop]
    have c : ({ toks := [e] } : PS).curIs .EOF = true := by simp [PS.curIs, PS.cur, he]
    simp [c]
  | .text segs :: r, toks, e, acc, f, hk, he, hf => by
    cases toks with
    | nil => simp [kkeys] at hk
    | cons t rest =>
      simp only [kkeys, List.map_cons, List.cons.injEq] at hk
      obtain ⟨hkt, hkr⟩ := hk
      have ht : t.ty = .HTML := congrArg Prod.fst hkt
      have hlit : t.lit = segsLit segs := congrArg Prod.snd hkt
      have hcl : Clean (rest ++ [e]) := clean_of_keys hkr (kkeys_clean r) he
      obtain ⟨g, rfl⟩ : ∃ g, f = g + 2 := ⟨f - 2, by simp [kpfuel] at hf; omega⟩
      cases hr : rest ++ [e] with
      | nil => simp at hr
      | cons tn rest' =>
        rw [hr] at hcl
        have hloop := loop_html g acc ({ toks := t :: rest ++ [e] } : PS) t tn rest' (by simp [hr]) ht hcl.tail
        obtain ⟨stmts, h1, h2⟩ := parseLoop_kitems r rest e (acc ++ [.html t]) (g + 1) hkr he (by simp [kpfuel] at hf; omega)
        refine ⟨.html t :: stmts, ?_, .text t segs stmts r hlit h2⟩
        rw [hloop]
        have : ({ ({ toks := t :: rest ++ [e] } : PS) with toks := tn :: rest' } : PS) = { toks := rest ++ [e] } := by rw [hr]
        rw [this, h1]
        simp
  | .chain ch :: r, toks, e, acc, f, hk, he, hf => by
    simp only [kkeys] at hk
    obtain ⟨ctoks, rest, rfl, hkc, hkr⟩ := take_map_key hk
    have hcl : Clean (rest ++ [e]) := clean_of_keys hkr (kkeys_clean r) he
    obtain ⟨g, rfl⟩ : ∃ g, f = g + 1 := ⟨f - 1, by simp [kpfuel] at hf; omega⟩
    obtain ⟨t1, t3, t5, alts', alt', tEnd, hst, hEnd, hl5, hm1, hm2⟩ := parse_chain_stmt ch ctoks (rest ++ [e]) hkc hcl g (by simp [kpfuel] at hf; omega)
    obtain ⟨stmts, h1, h2⟩ := parseLoop_kitems r rest e (acc ++ [.ifS t1 (.ident t3 ch.c) [.html t5] alts' alt']) g hkr he
      (by simp [kpfuel] at hf; omega)
    refine ⟨.ifS t1 (.ident t3 ch.c) [.html t5] alts' alt' :: stmts, ?_, .chain _ ch stmts r ⟨t1, t3, t5, alts', alt', rfl, hl5, hm1, hm2⟩ h2⟩
    rw [parseProgramLoop]
    have hne : ctoks ≠ [] := by
      intro h0; rw [h0] at hkc; simp [chainKeys, Chain.code] at hkc
    have c0 : ({ toks := ctoks ++ rest ++ [e] } : PS).curIs .EOF = false := by
      cases ctoks with
      | nil => exact absurd rfl hne
      | cons c0 cr =>
        have : key c0 ∈ chainKeys ch := by rw [← hkc]; simp
        have := (chainKeys_clean ch _ this).2
        simp only [key] at this
        simp [PS.curIs, PS.cur]
        exact this
    simp only [c0, Bool.false_eq_true, if_false]
    rw [List.append_assoc, hst]
    have i1 : ({ toks := tEnd :: (rest ++ [e]) } : PS).curIs .ILLEGAL = false := by simp [PS.curIs, PS.cur, hEnd]
    simp only [i1, Bool.false_eq_true, if_false, Stmt.isBad]
    have nx : ({ toks := tEnd :: (rest ++ [e]) } : PS).next = { toks := rest ++ [e] } := by
      cases hr : rest ++ [e] with
      | nil => simp at hr
      | cons t2 r2 =>
        have := ps_next_clean tEnd t2 r2 (by rw [← hr]; exact hcl)
        simpa [hr] using this
    rw [nx, h1]
    simp

/-- **the template, parsed** -/
theorem parse_kitems (items : List KItem) (hok : KItemsOK items) :
    ∃ prog, parseSource (chainTplSrc items) = .ok prog ∧ KMatch prog.stmts items := by
  obtain ⟨toks, e, htok, hk, he⟩ := tokenize_gitems _ (kitems_ok items hok)
  rw [gkeys_kitems] at hk
  have hcl : Clean (toks ++ [e]) := clean_of_keys hk (kkeys_clean items) he
  have hfuel : kpfuel items ≤ parseFuel (toks ++ [e]) := by
    have hlen : toks.length = (kkeys items).length := by rw [← hk]; simp
    have : kpfuel items ≤ 4 * (kkeys items).length + 1 := by
      clear hok htok hk hcl hlen
      induction items with
      | nil => simp [kpfuel, kkeys]
      | cons it r ih =>
        cases it with
        | text _ => simp [kpfuel, kkeys]; omega
        | chain ch =>
          have : 5 * ch.alts.length ≤ (altsKeys ch.alts).length := by
            generalize ch.alts = al
            induction al with
            | nil => simp [altsKeys]
            | cons a r' ih' => simp [altsKeys, Alt.keys]; omega
          have h2 : 1 ≤ (tailKeys ch.els).length := by cases ch.els <;> simp [tailKeys]
          simp [kpfuel, kkeys, chainKeys, Chain.code]; omega
    unfold parseFuel
    simp
    omega
  obtain ⟨stmts, h1, h2⟩ := parseLoop_kitems items toks e [] (parseFuel (toks ++ [e])) hk he hfuel
  refine ⟨{ tok := (toks ++ [e]).headD e, stmts := stmts }, ?_, h2⟩
  unfold chainTplSrc parseSource
  rw [htok]
  simp only [Bool.false_eq_true, if_false]
  rw [initParser_clean _ hcl, h1]
  have hcur : ({ toks := toks ++ [e] } : PS).cur = (toks ++ [e]).headD e := by
    cases toks with
    | nil => rfl
    | cons t r => rfl
  rw [hcur]
  simp [finishParse]

/-! ### evaluation -/

def truthyOf (env : Env) (c : Bytes) : Bool := match env.get c with | some v => isTruthy v | none => false

/-- what the `@elseif` branches and the `@else` give: the text of the first branch whose name is truthy -/
def altsOut (env : Env) : List Alt → Option Bytes → Bytes
  | [], els => els.getD []
  | a :: r, els => if truthyOf env a.c then a.t else altsOut env r els

def chainOut (env : Env) (ch : Chain) : Bytes := if truthyOf env ch.c then ch.t else altsOut env ch.alts ch.els

/-- the names that are looked at — up to the first truthy one — are bound; the later ones need not be -/
def altsBound (env : Env) : List Alt → Prop
  | [] => True
  | a :: r => (env.get a.c).isSome = true ∧ (truthyOf env a.c = false → altsBound env r)

def chainBound (env : Env) (ch : Chain) : Prop := (env.get ch.c).isSome = true ∧ (truthyOf env ch.c = false → altsBound env ch.alts)

theorem evalBlock_text2 (f : Nat) (c : Ctx) (env : Env) (t : Token) :
    evalBlock (f + 2) c env [.html t] = .ok ({ text := t.lit }, env) := by
  rw [evalBlock_cons, evalStmt_html, Res.bind_ok]
  simp [evalBlock_nil]

theorem evalElseIfs_alts (c : Ctx) (env : Env) (els : Option Bytes) (alt' : Option (List Stmt)) (hel : ElseMatch alt' els) :
    ∀ (alts' : List (Expr × List Stmt)) (alts : List Alt), AltsMatch alts' alts → altsBound env alts → ∀ f, alts.length + 4 ≤ f →
      evalElseIfs f c env alts' alt' = .ok ({ text := altsOut env alts els }, env) := by
  intro alts' alts hm
  induction hm with
  | nil =>
    intro _ f hf
    obtain ⟨g, rfl⟩ : ∃ g, f = g + 3 := ⟨f - 3, by simp at hf; omega⟩
    rw [show g + 3 = (g + 2) + 1 from rfl, evalElseIfs_nil]
    cases els with
    | none =>
      have : alt' = none := hel
      subst this
      simp [altsOut]
    | some te =>
      obtain ⟨th, h1, h2⟩ := hel
      subst h1
      simp only []
      rw [evalBlock_text2, Res.bind_ok]
      simp [altsOut, h2]
  | cons tc th a xs as hlit _ ih =>
    intro hb f hf
    obtain ⟨g, rfl⟩ : ∃ g, f = g + 4 := ⟨f - 4, by simp at hf; omega⟩
    obtain ⟨hbound, hrest⟩ := hb
    obtain ⟨v, hv⟩ := Option.isSome_iff_exists.mp hbound
    rw [show g + 4 = (g + 3) + 1 from rfl, evalElseIfs_cons]
    have he : evalExpr (g + 3) c env (.ident tc a.c) = .ok v := by simp [evalExpr, hv]
    rw [he, Res.bind_ok]
    by_cases ht : isTruthy v = true
    · rw [if_pos ht, show g + 3 = (g + 1) + 2 from rfl, evalBlock_text2, Res.bind_ok]
      simp [altsOut, truthyOf, hv, ht, hlit]
    · rw [if_neg ht]
      have htf : truthyOf env a.c = false := by simp [truthyOf, hv]; simpa using ht
      rw [ih (hrest htf) (g + 3) (by simp at hf; omega)]
      simp [altsOut, htf]

/-- **one chain**: exactly the text of the first branch whose name is truthy (the `@else` text when
    none is, nothing when there is no `@else`); the environment is handed back -/
theorem chain_renders (c : Ctx) (env : Env) (ch : Chain) (st : Stmt) (hst : ChainStmt ch st) (hb : chainBound env ch)
    (f : Nat) (hf : ch.alts.length + 5 ≤ f) :
    evalStmt (f + 1) c env st = .ok ({ text := chainOut env ch }, env) := by
  obtain ⟨t1, t3, t5, alts', alt', rfl, hl5, hm1, hm2⟩ := hst
  obtain ⟨hbound, hrest⟩ := hb
  obtain ⟨v, hv⟩ := Option.isSome_iff_exists.mp hbound
  obtain ⟨g, rfl⟩ : ∃ g, f = g + 2 := ⟨f - 2, by omega⟩
  rw [evalStmt_ifS]
  have he : evalExpr (g + 2) c env (.ident t3 ch.c) = .ok v := by simp [evalExpr, hv]
  rw [he, Res.bind_ok]
  by_cases ht : isTruthy v = true
  · rw [if_pos ht, evalBlock_text2, Res.bind_ok]
    simp [chainOut, truthyOf, hv, ht, hl5]
  · rw [if_neg ht]
    have htf : truthyOf env ch.c = false := by simp [truthyOf, hv]; simpa using ht
    rw [evalElseIfs_alts c env ch.els alt' hm2 alts' ch.alts hm1 (hrest htf) (g + 2) (by omega)]
    simp [chainOut, htf]

def krender (env : Env) : List KItem → Bytes
  | [] => []
  | .text segs :: r => segsLit segs ++ krender env r
  | .chain ch :: r => chainOut env ch ++ krender env r

def kbound (env : Env) : List KItem → Prop
  | [] => True
  | .text _ :: r => kbound env r
  | .chain ch :: r => chainBound env ch ∧ kbound env r

def kneed : List KItem → Nat
  | [] => 1
  | .text _ :: r => 1 + max 1 (kneed r)
  | .chain ch :: r => 1 + max (ch.alts.length + 6) (kneed r)

theorem evalProg_kitems (c : Ctx) (env : Env) : ∀ (ss : List Stmt) (items : List KItem), KMatch ss items → kbound env items →
    ∀ (fuel : Nat) (acc : Bytes), kneed items ≤ fuel → evalProg fuel c env ss acc = .ok (acc ++ krender env items, env) := by
  intro ss items hm
  induction hm with
  | nil =>
    intro _ fuel acc hf
    obtain ⟨f, rfl⟩ : ∃ f, fuel = f + 1 := ⟨fuel - 1, by simp [kneed] at hf; omega⟩
    rw [evalProg_nil]; simp [krender]
  | text t segs ss r hlit _ ih =>
    intro hb fuel acc hf
    obtain ⟨f, rfl⟩ : ∃ f, fuel = f + 2 := ⟨fuel - 2, by simp [kneed] at hf; omega⟩
    have := ih (by simpa [kbound] using hb) (f + 1) (acc ++ t.lit) (by simp [kneed] at hf; omega)
    rw [show f + 2 = (f + 1) + 1 from rfl, evalProg_cons, evalStmt_html, Res.bind_ok, this]
    simp [krender, hlit, List.append_assoc]
  | chain st ch ss r hst _ ih =>
    intro hb fuel acc hf
    obtain ⟨f, rfl⟩ : ∃ f, fuel = f + 2 := ⟨fuel - 2, by simp [kneed] at hf; omega⟩
    have := ih hb.2 (f + 1) (acc ++ chainOut env ch) (by simp [kneed] at hf; omega)
    rw [show f + 2 = (f + 1) + 1 from rfl, evalProg_cons, chain_renders c env ch st hst hb.1 f (by simp [kneed] at hf; omega), Res.bind_ok, this]
    simp [krender, List.append_assoc]

end Tw
