/-
  TwProofs.Lemmas.TextCallStr — `{{ name.fn("text") }}` from the source bytes to the parsed program: the
  call of a function with one string literal as its argument on a variable (C11).
-/
import TwProofs.Lemmas.TextCallNum
namespace Tw
open Lx

/-- `{{ g1 k . f ( g3 "d" g4 ) g2 }}` -/
def callStrSrc (g1 k f g3 : Bytes) (q : Byte) (d g4 g2 : Bytes) : Bytes :=
  [123, 123] ++ g1 ++ k ++ [46] ++ f ++ [40] ++ g3 ++ (q :: (d ++ [q])) ++ g4 ++ [41] ++ g2 ++ [125, 125]

def callStrKeys (k f d : Bytes) : List (TT × Bytes) :=
  [(.LBRACES, [123, 123]), (.IDENT, k), (.DOT, [46]), (.IDENT, f), (.LPAREN, [40]), (.STR, d), (.RPAREN, [41]), (.RBRACES, [125, 125])]

theorem lex_callStr (s : Lx) (g1 k f g3 : Bytes) (q : Byte) (d g4 g2 tl : Bytes) (hh : s.isHTML = true) (hb : s.braces = 0) (hdir : s.isDirective = false)
    (hg1 : allWs g1) (hg2 : allWs g2) (hg3 : allWs g3) (hg4 : allWs g4) (hk : isName k) (hf : isName f) (hq : q = 34 ∨ q = 39) (hdg : PlainStr q d)
    (hr : s.rest = callStrSrc g1 k f g3 q d g4 g2 ++ tl) :
    ∃ toks s8, Run s toks s8 ∧ toks.map key = callStrKeys k f d ∧ s8.rest = tl ∧ s8.prev = 125 ∧
      mode s8 = (true, false, s.parens, 0, s.panicked) := by
  obtain ⟨⟨c, cv, hcv, hc⟩, hall, hkw⟩ := hk
  have hkn : isName k := ⟨⟨c, cv, hcv, hc⟩, hall, hkw⟩
  obtain ⟨⟨e, ev, hev, he⟩, hfall, hfkw⟩ := hf
  have hfn : isName f := ⟨⟨e, ev, hev, he⟩, hfall, hfkw⟩
  have hnot := identCh_not_special hc
  have hr' : s.rest = 123 :: 123 :: (g1 ++ (k ++ (46 :: ([] ++ (f ++ (40 :: (g3 ++ (q :: (d ++ q :: (g4 ++ (41 :: (g2 ++ (125 :: 125 :: tl))))))))))))) := by
    rw [hr]; simp [callStrSrc, List.append_assoc]
  have hx1 : (g1 ++ (k ++ (46 :: ([] ++ (f ++ (40 :: (g3 ++ (q :: (d ++ q :: (g4 ++ (41 :: (g2 ++ (125 :: 125 :: tl))))))))))))).headD 0 ≠ 45 := by
    cases g1 with
    | nil => simp only [List.nil_append, hcv, List.cons_append, List.headD_cons]; exact hnot.2.2.2.2.2.2.2.2.2.2.1
    | cons w t =>
      have hw : isWs w = true := hg1 w List.mem_cons_self
      simp only [List.cons_append, List.headD_cons]
      intro e; rw [e] at hw; cases hw
  obtain ⟨t1, s1, st1, k1, ne1, r1, _, m1⟩ := lex_open s _ hh hr' hx1
  obtain ⟨a1, a2, a3, a4, a5⟩ := mode_fields m1
  obtain ⟨t2, s2, st2, k2, ne2, b2⟩ := code_word_step s1 g1 k _ a1 hg1 (isName_word hkn) r1 (by simp only [List.headD_cons]; decide)
  have h2 : s2.isHTML = false := by rw [mode_html b2.md]; exact a1
  obtain ⟨t3, s3, st3, k3, ne3, b3⟩ := code_dot_step s2 _ h2 b2.rest
  have h3 : s3.isHTML = false := by rw [mode_html b3.md]; exact h2
  obtain ⟨t4, s4, st4, k4, ne4, b4⟩ := code_word_step s3 [] f (40 :: (g3 ++ (q :: (d ++ q :: (g4 ++ (41 :: (g2 ++ (125 :: 125 :: tl)))))))) h3
    (fun _ h => by cases h) (isName_word hfn) b3.rest (by simp only [List.headD_cons]; decide)
  have h4 : s4.isHTML = false := by rw [mode_html b4.md]; exact h3
  have d4 : s4.isDirective = false := by rw [mode_dir b4.md, mode_dir b3.md, mode_dir b2.md, a2]; exact hdir
  obtain ⟨t5, s5, st5, k5, ne5, b5⟩ := code_lparen_plain_step s4 _ h4 d4 b4.rest
  have h5 : s5.isHTML = false := by rw [mode_html b5.md]; exact h4
  have d5 : s5.isDirective = false := by rw [mode_dir b5.md]; exact d4
  obtain ⟨t6, s6, st6, k6, ne6, b6⟩ := code_str_step s5 g3 q d _ h5 hg3 hq hdg b5.rest
  have h6 : s6.isHTML = false := by rw [mode_html b6.md]; exact h5
  have d6 : s6.isDirective = false := by rw [mode_dir b6.md]; exact d5
  obtain ⟨t7, s7, st7, k7, ne7, b7⟩ := code_rparen_plain_ws_step s6 g4 _ h6 d6 hg4 b6.rest
  have h7 : s7.isHTML = false := by rw [mode_html b7.md]; exact h6
  have br7 : s7.braces = 0 := by
    rw [mode_braces b7.md, mode_braces b6.md, mode_braces b5.md, mode_braces b4.md, mode_braces b3.md, mode_braces b2.md, a4]; exact hb
  obtain ⟨t8, s8, st8, k8, ne8, r8, pv8, m8⟩ := code_close_step s7 g2 tl h7 br7 hg2 b7.rest
  refine ⟨[t1, t2, t3, t4, t5, t6, t7, t8], s8, ?_, ?_, r8, pv8, ?_⟩
  · exact Run.cons _ _ _ _ _ st1 ne1 (Run.cons _ _ _ _ _ st2 ne2 (Run.cons _ _ _ _ _ st3 ne3 (Run.cons _ _ _ _ _ st4 ne4
      (Run.cons _ _ _ _ _ st5 ne5 (Run.cons _ _ _ _ _ st6 ne6 (Run.cons _ _ _ _ _ st7 ne7 (Run.cons _ _ _ _ _ st8 ne8 (Run.nil _))))))))
  · have hk2 : key t2 = (.IDENT, k) := by rw [k2, hkw]
    have hk4 : key t4 = (.IDENT, f) := by rw [k4, hfkw]
    simp [callStrKeys, k1, hk2, k3, hk4, k5, k6, k7, k8]
  · rw [m8, mode_dir b7.md, d6, mode_parens b7.md, mode_parens b6.md, mode_parens b5.md, mode_parens b4.md, mode_parens b3.md,
      mode_parens b2.md, a3, mode_pan b7.md, mode_pan b6.md, mode_pan b5.md, mode_pan b4.md, mode_pan b3.md, mode_pan b2.md, a5]

def callStrCode (g1 k f g3 : Bytes) (q : Byte) (d g4 g2 : Bytes) : Code := { src := callStrSrc g1 k f g3 q d g4 g2, keys := callStrKeys k f d }

theorem callStrCode_ok (g1 k f g3 : Bytes) (q : Byte) (d g4 g2 : Bytes) (hg1 : allWs g1) (hg2 : allWs g2) (hg3 : allWs g3) (hg4 : allWs g4)
    (hk : isName k) (hf : isName f) (hq : q = 34 ∨ q = 39) (hdg : PlainStr q d) : (callStrCode g1 k f g3 q d g4 g2).OK := by
  refine ⟨?_, ?_, ?_⟩
  · intro tl
    exact Or.inr (Or.inl ⟨g1 ++ k ++ [46] ++ f ++ [40] ++ g3 ++ (q :: (d ++ [q])) ++ g4 ++ [41] ++ g2 ++ [125, 125] ++ tl,
      by simp [callStrCode, callStrSrc, List.append_assoc]⟩)
  · obtain ⟨⟨c, cv, hcv, _⟩, _, _⟩ := hk
    simp [callStrCode, callStrSrc, callStrKeys, hcv]; omega
  · intro s tl hr hh hb hpa hd _
    obtain ⟨toks, s8, run, hkeys, r8, pv8, m8⟩ := lex_callStr s g1 k f g3 q d g4 g2 tl hh hb hd hg1 hg2 hg3 hg4 hk hf hq hdg hr
    obtain ⟨f1, f2, f3, f4, f5⟩ := mode_fields m8
    exact ⟨toks, s8, run, hkeys, r8, f1, f4, by rw [f3]; exact hpa, f2, f5, by rw [pv8]; decide⟩

/-- `{{ k.f(d) }}` as a statement -/
theorem parse_callStr_stmt (g : Nat) (t1 t2 t3 t4 t5 t6 t7 t8 : Token) (tail : List Token) (h1 : t1.ty = .LBRACES)
    (h2 : t2.ty = .IDENT) (h3 : t3.ty = .DOT) (h4 : t4.ty = .IDENT) (h5 : t5.ty = .LPAREN) (h6 : t6.ty = .STR) (h7 : t7.ty = .RPAREN)
    (h8 : t8.ty = .RBRACES) (hclean : ∀ x ∈ tail, x.ty ≠ .ILLEGAL) :
    parseStatement (g + 6) ({ toks := t1 :: t2 :: t3 :: t4 :: t5 :: t6 :: t7 :: t8 :: tail } : PS) =
      (.expr t7 (.call t4 (.ident t2 t2.lit) t4.lit [.str t6 t6.lit]), { toks := t8 :: tail }) := by
  have c8 := noill_cons (t := t8) (by rw [h8]; decide) hclean
  have c7 := noill_cons (t := t7) (by rw [h7]; decide) c8
  have c6 := noill_cons (t := t6) (by rw [h6]; decide) c7
  have c5 := noill_cons (t := t5) (by rw [h5]; decide) c6
  have c4 := noill_cons (t := t4) (by rw [h4]; decide) c5
  have c3 := noill_cons (t := t3) (by rw [h3]; decide) c4
  have c2 := noill_cons (t := t2) (by rw [h2]; decide) c3
  have nx1 : ({ toks := t1 :: t2 :: t3 :: t4 :: t5 :: t6 :: t7 :: t8 :: tail } : PS).next = { toks := t2 :: t3 :: t4 :: t5 :: t6 :: t7 :: t8 :: tail } := ps_next_clean t1 t2 _ c2
  have nx2 : ({ toks := t2 :: t3 :: t4 :: t5 :: t6 :: t7 :: t8 :: tail } : PS).next = { toks := t3 :: t4 :: t5 :: t6 :: t7 :: t8 :: tail } := ps_next_clean t2 t3 _ c3
  have nx3 : ({ toks := t3 :: t4 :: t5 :: t6 :: t7 :: t8 :: tail } : PS).next = { toks := t4 :: t5 :: t6 :: t7 :: t8 :: tail } := ps_next_clean t3 t4 _ c4
  have nx4 : ({ toks := t4 :: t5 :: t6 :: t7 :: t8 :: tail } : PS).next = { toks := t5 :: t6 :: t7 :: t8 :: tail } := ps_next_clean t4 t5 _ c5
  have nx5 : ({ toks := t5 :: t6 :: t7 :: t8 :: tail } : PS).next = { toks := t6 :: t7 :: t8 :: tail } := ps_next_clean t5 t6 _ c6
  have nx6 : ({ toks := t6 :: t7 :: t8 :: tail } : PS).next = { toks := t7 :: t8 :: tail } := ps_next_clean t6 t7 _ c7
  have nx7 : ({ toks := t7 :: t8 :: tail } : PS).next = { toks := t8 :: tail } := ps_next_clean t7 t8 _ c8
  -- the argument: the number, up to ")"
  have harg : parseExpression (g + 2) LOWEST ({ toks := t6 :: t7 :: t8 :: tail } : PS) = (.str t6 t6.lit, { toks := t6 :: t7 :: t8 :: tail }) := by
    rw [parseExpression_succ]
    have hp : prefixBody (parseExpression (g + 1)) (parseExprList (g + 1)) (parseObjLoop (g + 1))
        ({ toks := t6 :: t7 :: t8 :: tail } : PS) = some (.str t6 t6.lit, { toks := t6 :: t7 :: t8 :: tail }) := by
      unfold prefixBody
      simp [PS.cur, h6]
    rw [hp]
    simp only []
    rw [prattLoop_succ]
    have e3 : ({ toks := t6 :: t7 :: t8 :: tail } : PS).peekIs .RPAREN = true := by simp [PS.peekIs, PS.peek, h7]
    simp [e3]
  have hex : parseExpression (g + 5) LOWEST ({ toks := t2 :: t3 :: t4 :: t5 :: t6 :: t7 :: t8 :: tail } : PS) =
      (.call t4 (.ident t2 t2.lit) t4.lit [.str t6 t6.lit], { toks := t7 :: t8 :: tail }) := by
    rw [parseExpression_succ]
    have hp : prefixBody (parseExpression (g + 4)) (parseExprList (g + 4)) (parseObjLoop (g + 4))
        ({ toks := t2 :: t3 :: t4 :: t5 :: t6 :: t7 :: t8 :: tail } : PS) =
          some (.ident t2 t2.lit, { toks := t2 :: t3 :: t4 :: t5 :: t6 :: t7 :: t8 :: tail }) := by
      unfold prefixBody
      simp [PS.cur, h2]
    rw [hp]
    simp only []
    rw [prattLoop_succ]
    have e1 : ({ toks := t2 :: t3 :: t4 :: t5 :: t6 :: t7 :: t8 :: tail } : PS).peekIs .RBRACES = false := by simp [PS.peekIs, PS.peek, h3]
    have e2 : ({ toks := t2 :: t3 :: t4 :: t5 :: t6 :: t7 :: t8 :: tail } : PS).peekIs .SEMI = false := by simp [PS.peekIs, PS.peek, h3]
    have e3 : ({ toks := t2 :: t3 :: t4 :: t5 :: t6 :: t7 :: t8 :: tail } : PS).peekIs .RPAREN = false := by simp [PS.peekIs, PS.peek, h3]
    have e4 : ({ toks := t2 :: t3 :: t4 :: t5 :: t6 :: t7 :: t8 :: tail } : PS).peekPrecedence = MEMBER_ACCESS := by simp [PS.peekPrecedence, PS.peek, h3, precedence]
    have e5 : ({ toks := t2 :: t3 :: t4 :: t5 :: t6 :: t7 :: t8 :: tail } : PS).peek.ty = .DOT := by simp [PS.peek, h3]
    simp only [e1, e2, e3, e4, e5, Bool.or_self, show (!decide (LOWEST < MEMBER_ACCESS)) = false from by decide,
      Bool.false_eq_true, if_false, show (!hasInfix .DOT) = false from by decide, nx2]
    have hinf : infixBody (parseExpression (g + 3)) (parseExprList (g + 3)) (.ident t2 t2.lit)
        ({ toks := t3 :: t4 :: t5 :: t6 :: t7 :: t8 :: tail } : PS) =
        (.call t4 (.ident t2 t2.lit) t4.lit [.str t6 t6.lit], { toks := t7 :: t8 :: tail }) := by
      unfold infixBody
      have c0 : ({ toks := t3 :: t4 :: t5 :: t6 :: t7 :: t8 :: tail } : PS).cur = t3 := rfl
      simp only [c0, h3, show isBinaryOp .DOT = false from by decide, Bool.false_eq_true, if_false,
        show (TT.DOT == TT.QUESTION) = false from by decide, show (TT.DOT == TT.LBRACKET) = false from by decide,
        show (TT.DOT == TT.INC || TT.DOT == TT.DEC) = false from by decide]
      have ep := expectPeek_ok ({ toks := t3 :: t4 :: t5 :: t6 :: t7 :: t8 :: tail } : PS) .IDENT (by simp [PS.peekIs, PS.peek, h4])
      rw [ep, nx3]
      have pk : ({ toks := t4 :: t5 :: t6 :: t7 :: t8 :: tail } : PS).peekIs .LPAREN = true := by simp [PS.peekIs, PS.peek, h5]
      have ep2 := expectPeek_ok ({ toks := t4 :: t5 :: t6 :: t7 :: t8 :: tail } : PS) .LPAREN pk
      simp only [Bool.not_true, Bool.false_eq_true, if_false, pk, if_true, ep2, nx4]
      rw [parseExprList_succ]
      have pk2 : ({ toks := t5 :: t6 :: t7 :: t8 :: tail } : PS).peekIs .RPAREN = false := by simp [PS.peekIs, PS.peek, h6]
      simp only [pk2, Bool.false_eq_true, if_false, nx5, harg]
      rw [exprListLoop_succ]
      have pk3 : ({ toks := t6 :: t7 :: t8 :: tail } : PS).peekIs .COMMA = false := by simp [PS.peekIs, PS.peek, h7]
      have ep3 := expectPeek_ok ({ toks := t6 :: t7 :: t8 :: tail } : PS) .RPAREN (by simp [PS.peekIs, PS.peek, h7])
      simp [pk3, ep3, nx6, PS.cur]
    rw [hinf]
    simp only []
    rw [prattLoop_succ]
    have : ({ toks := t7 :: t8 :: tail } : PS).peekIs .RBRACES = true := by simp [PS.peekIs, PS.peek, h8]
    simp [this]
  show statementBody (parseExpression (g + 5)) (parseExprList (g + 5)) (parseBody (g + 5)) (parseIfTail (g + 5)) (parseSlots (g + 5))
    ({ toks := t1 :: t2 :: t3 :: t4 :: t5 :: t6 :: t7 :: t8 :: tail } : PS) = _
  have hc : ({ toks := t1 :: t2 :: t3 :: t4 :: t5 :: t6 :: t7 :: t8 :: tail } : PS).cur.ty = .LBRACES := by simp [PS.cur, h1]
  unfold statementBody
  simp only [hc]
  unfold parseEmbeddedCode
  simp only [nx1]
  have c1 : ({ toks := t2 :: t3 :: t4 :: t5 :: t6 :: t7 :: t8 :: tail } : PS).curIs .RBRACES = false := by simp [PS.curIs, PS.cur, h2]
  have c2' : ({ toks := t2 :: t3 :: t4 :: t5 :: t6 :: t7 :: t8 :: tail } : PS).peekIs .ASSIGN = false := by simp [PS.peekIs, PS.peek, h3]
  have c3' : ({ toks := t7 :: t8 :: tail } : PS).peekIs .RBRACES = true := by simp [PS.peekIs, PS.peek, h8]
  simp only [c1, c2', Bool.and_false, Bool.false_eq_true, if_false, hex, c3', if_true, nx7]
  simp [PS.cur]

/-- **`{{ k.f(d) }}`, parsed** -/
theorem parse_callStr_source (g1 k f g3 : Bytes) (q : Byte) (d g4 g2 : Bytes) (hg1 : allWs g1) (hg2 : allWs g2) (hg3 : allWs g3) (hg4 : allWs g4)
    (hk : isName k) (hf : isName f) (hq : q = 34 ∨ q = 39) (hdg : PlainStr q d) :
    ∃ prog t2 t4 t6 t7, parseSource (callStrSrc g1 k f g3 q d g4 g2) = .ok prog ∧
      prog.stmts = [.expr t7 (.call t4 (.ident t2 k) f [.str t6 d])] := by
  have hok : GItemsOK [.code (callStrCode g1 k f g3 q d g4 g2)] := ⟨callStrCode_ok g1 k f g3 q d g4 g2 hg1 hg2 hg3 hg4 hk hf hq hdg, trivial⟩
  obtain ⟨toks, e, htok, hkeys, he⟩ := tokenize_gitems _ hok
  have hsrc : gsrc [.code (callStrCode g1 k f g3 q d g4 g2)] = callStrSrc g1 k f g3 q d g4 g2 := by simp [gsrc, GItem.src, callStrCode]
  rw [hsrc] at htok
  have hk' : toks.map key = callStrKeys k f d := by simpa [gkeys, callStrCode] using hkeys
  match toks, hk' with
  | [], hk' => simp [callStrKeys] at hk'
  | [_], hk' => simp [callStrKeys] at hk'
  | [_, _], hk' => simp [callStrKeys] at hk'
  | [_, _, _], hk' => simp [callStrKeys] at hk'
  | [_, _, _, _], hk' => simp [callStrKeys] at hk'
  | [_, _, _, _, _], hk' => simp [callStrKeys] at hk'
  | [_, _, _, _, _, _], hk' => simp [callStrKeys] at hk'
  | [_, _, _, _, _, _, _], hk' => simp [callStrKeys] at hk'
  | _ :: _ :: _ :: _ :: _ :: _ :: _ :: _ :: _ :: _, hk' => simp [callStrKeys] at hk'
  | [t1, t2, t3, t4, t5, t6, t7, t8], hk' =>
    simp only [callStrKeys, List.map_cons, List.map_nil, List.cons.injEq, and_true] at hk'
    obtain ⟨hk1, hk2, hk3, hk4, hk5, hk6, hk7, hk8⟩ := hk'
    have ty1 : t1.ty = .LBRACES := congrArg Prod.fst hk1
    have ty2 : t2.ty = .IDENT := congrArg Prod.fst hk2
    have lit2 : t2.lit = k := congrArg Prod.snd hk2
    have ty3 : t3.ty = .DOT := congrArg Prod.fst hk3
    have ty4 : t4.ty = .IDENT := congrArg Prod.fst hk4
    have lit4 : t4.lit = f := congrArg Prod.snd hk4
    have ty5 : t5.ty = .LPAREN := congrArg Prod.fst hk5
    have ty6 : t6.ty = .STR := congrArg Prod.fst hk6
    have lit6 : t6.lit = d := congrArg Prod.snd hk6
    have ty7 : t7.ty = .RPAREN := congrArg Prod.fst hk7
    have ty8 : t8.ty = .RBRACES := congrArg Prod.fst hk8
    have hce : ∀ x ∈ [e], x.ty ≠ .ILLEGAL := by intro x hx; simp at hx; rw [hx, he]; decide
    have hcl : ∀ x ∈ [t1, t2, t3, t4, t5, t6, t7, t8] ++ [e], x.ty ≠ .ILLEGAL :=
      noill_cons (by rw [ty1]; decide) (noill_cons (by rw [ty2]; decide) (noill_cons (by rw [ty3]; decide)
        (noill_cons (by rw [ty4]; decide) (noill_cons (by rw [ty5]; decide) (noill_cons (by rw [ty6]; decide)
          (noill_cons (by rw [ty7]; decide) (noill_cons (by rw [ty8]; decide) hce)))))))
    refine ⟨{ tok := t1, stmts := [.expr t7 (.call t4 (.ident t2 k) f [.str t6 d])] }, t2, t4, t6, t7, ?_, rfl⟩
    unfold parseSource
    rw [htok]
    simp only [Bool.false_eq_true, if_false]
    rw [initParser_clean _ hcl]
    have hfuel : parseFuel ([t1, t2, t3, t4, t5, t6, t7, t8] ++ [e]) = 46 + 6 := by simp [parseFuel]
    rw [hfuel]
    have hst := parse_callStr_stmt 45 t1 t2 t3 t4 t5 t6 t7 t8 [e] ty1 ty2 ty3 ty4 ty5 ty6 ty7 ty8 hce
    have hloop : parseProgramLoop (46 + 6) [] ({ toks := [t1, t2, t3, t4, t5, t6, t7, t8] ++ [e] } : PS) =
        (some [.expr t7 (.call t4 (.ident t2 t2.lit) t4.lit [.str t6 t6.lit])], { toks := [e] }) := by
      rw [show 46 + 6 = 51 + 1 from rfl, parseProgramLoop]
      have c0 : ({ toks := [t1, t2, t3, t4, t5, t6, t7, t8] ++ [e] } : PS).curIs .EOF = false := by simp [PS.curIs, PS.cur, ty1]
      simp only [c0, Bool.false_eq_true, if_false]
      simp only [List.cons_append, List.nil_append] at hst ⊢
      rw [show 51 = 45 + 6 from rfl, hst]
      have i5 : ({ toks := [t8, e] } : PS).curIs .ILLEGAL = false := by simp [PS.curIs, PS.cur, ty8]
      simp only [i5, Bool.false_eq_true, if_false, Stmt.isBad]
      have nx : ({ toks := [t8, e] } : PS).next = { toks := [e] } := ps_next_clean t8 e [] hce
      rw [nx, show 45 + 6 = 50 + 1 from rfl, parseProgramLoop]
      have ce : ({ toks := [e] } : PS).curIs .EOF = true := by simp [PS.curIs, PS.cur, he]
      simp [ce]
    rw [hloop]
    simp [finishParse, PS.cur, lit2, lit4, lit6]

end Tw
