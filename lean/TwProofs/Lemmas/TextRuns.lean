/-
  TwProofs.Lemmas.TextRuns — templates made of text and comments, in general (C05): any number of
  text runs, each with any number of escaped "{{" and escaped directives, separated by comments
  with arbitrary bodies.  The lexer yields one HTML token per run whose literal is the run with
  the escaping backslashes removed, the parser one text statement per token, and the render is
  the concatenation of the literals.
-/
import TwProofs.Lemmas.TextPieces
namespace Tw
open Lx

/-! ### one run of text -/

/-- a piece of a run: bytes without syntax in them, or a backslash in front of something that
    would otherwise start a code block or a directive -/
inductive Seg where
  | plain (p : Bytes)
  | esc (c : Byte)

def Seg.src : Seg → Bytes
  | .plain p => p
  | .esc c => [92, c]

def Seg.lit : Seg → Bytes
  | .plain p => p
  | .esc c => [c]

def segsSrc : List Seg → Bytes
  | [] => []
  | s :: r => s.src ++ segsSrc r

def segsLit : List Seg → Bytes
  | [] => []
  | s :: r => s.lit ++ segsLit r

/-- `c` followed by `rest` is where a code block or a directive would start -/
def isSyn (c : Byte) (rest : Bytes) : Bool :=
  (c == 123 && rest.headD 0 == 123) || (c == 64 && hasDirectivePrefix (c :: rest))

/-- the run is what it says: nothing in its plain pieces starts syntax (given what follows the run),
    and every escape stands in front of something that does -/
def SegsOK : List Seg → Bytes → Prop
  | [], _ => True
  | .plain p :: r, tl => PlainBefore p (segsSrc r ++ tl) ∧ SegsOK r tl
  | .esc c :: r, tl => isSyn c (segsSrc r ++ tl) = true ∧ SegsOK r tl

theorem htmlScan_esc (prev : Byte) (out : Bytes) (n : Nat) (pan : Bool) (c : Byte) (rest : Bytes) (h : isSyn c rest = true) :
    htmlScan prev out n pan (92 :: c :: rest) = htmlScan c (c :: out) (n + 2) pan rest := by
  rw [htmlScan]
  have h1 : ((92 : Byte) == 64) = false := by decide
  have h2 : ((92 : Byte) == 123) = false := by decide
  simp only [h1, h2, Bool.false_and, Bool.or_self, Bool.false_eq_true, if_false]
  rw [htmlScan]
  have hs : ((c == 123 && rest.headD 0 == 123) || (c == 64 && hasDirectivePrefix (c :: rest))) = true := h
  simp only [hs, beq_self_eq_true, Bool.not_true, Bool.and_false, Bool.false_eq_true, if_false, if_true, List.tail_cons,
    List.isEmpty_cons, Bool.or_false]

/-- `readHTML` over a whole run: the buffer receives the literal, the count the source length -/
theorem htmlScan_run : ∀ (segs : List Seg) (tl : Bytes) (prev : Byte) (out : Bytes) (n : Nat) (pan : Bool), SegsOK segs tl →
    htmlScan prev out n pan (segsSrc segs ++ tl) =
      htmlScan (lastOr (segsSrc segs) prev) ((segsLit segs).reverse ++ out) (n + (segsSrc segs).length) pan tl
  | [], tl, prev, out, n, pan, _ => by simp [segsSrc, segsLit, lastOr]
  | .plain p :: r, tl, prev, out, n, pan, h => by
    obtain ⟨hp, hr⟩ := h
    simp only [segsSrc, segsLit, Seg.src, Seg.lit, List.append_assoc]
    rw [htmlScan_plainBefore p (segsSrc r ++ tl) prev out n pan hp]
    rw [htmlScan_run r tl _ _ _ pan hr]
    have hl : lastOr (segsSrc r) ((p.reverse ++ [prev]).headD 0) = lastOr (p ++ segsSrc r) prev := by
      unfold lastOr
      cases hrr : (segsSrc r).reverse with
      | nil =>
        have : segsSrc r = [] := by simpa using hrr
        simp [this]
      | cons x xs => simp [hrr]
    rw [hl]
    simp [Nat.add_assoc]
  | .esc c :: r, tl, prev, out, n, pan, h => by
    obtain ⟨hs, hr⟩ := h
    simp only [segsSrc, segsLit, Seg.src, Seg.lit, List.cons_append, List.nil_append]
    rw [htmlScan_esc prev out n pan c (segsSrc r ++ tl) hs]
    rw [htmlScan_run r tl _ _ _ pan hr]
    have hl : lastOr (segsSrc r) c = lastOr (92 :: c :: segsSrc r) prev := by
      unfold lastOr
      cases hrr : (segsSrc r).reverse with
      | nil =>
        have : segsSrc r = [] := by simpa using hrr
        simp [this]
      | cons x xs => simp [hrr]
    rw [hl]
    simp [Nat.add_assoc, Nat.add_comm 2]


/-! ### templates of runs and comments -/

inductive Item where
  | text (segs : List Seg)
  | comment (cm : Bytes)

def Item.src : Item → Bytes
  | .text segs => segsSrc segs
  | .comment cm => [123, 123, 45, 45] ++ cm ++ [45, 45, 125, 125]

def itemsSrc : List Item → Bytes
  | [] => []
  | i :: r => i.src ++ itemsSrc r

/-- the literals of the runs, in order -/
def itemsLits : List Item → List Bytes
  | [] => []
  | .text segs :: r => segsLit segs :: itemsLits r
  | .comment _ :: r => itemsLits r

/-- a run begins with a byte -/
def startsRun : List Seg → Prop
  | .plain (_ :: _) :: _ => True
  | .esc _ :: _ => True
  | _ => False

/-- what may follow a run: the end of the template, or a comment (and then the run does not end in a backslash) -/
def afterRun (segs : List Seg) : List Item → Prop
  | [] => True
  | .comment _ :: _ => lastOr (segsSrc segs) 0 ≠ 92
  | .text _ :: _ => False

def ItemsOK : List Item → Prop
  | [] => True
  | .comment cm :: r => commentScan (cm ++ [45, 45, 125, 125] ++ itemsSrc r) = cm.length ∧ ItemsOK r
  | .text segs :: r => startsRun segs ∧ SegsOK segs (itemsSrc r) ∧ afterRun segs r ∧ ItemsOK r

instance : (segs : List Seg) → (tl : Bytes) → Decidable (SegsOK segs tl)
  | [], _ => isTrue trivial
  | .plain p :: r, tl =>
    have : Decidable (SegsOK r tl) := instDecidableSegsOK r tl
    by unfold SegsOK; exact inferInstance
  | .esc c :: r, tl =>
    have : Decidable (SegsOK r tl) := instDecidableSegsOK r tl
    by unfold SegsOK; exact inferInstance

instance : (segs : List Seg) → Decidable (startsRun segs)
  | [] => isFalse (by simp [startsRun])
  | .plain [] :: _ => isFalse (by simp [startsRun])
  | .plain (_ :: _) :: _ => isTrue trivial
  | .esc _ :: _ => isTrue trivial

instance (segs : List Seg) : (r : List Item) → Decidable (afterRun segs r)
  | [] => isTrue trivial
  | .comment _ :: _ => by unfold afterRun; exact inferInstance
  | .text _ :: _ => isFalse (by simp [afterRun])

instance : (items : List Item) → Decidable (ItemsOK items)
  | [] => isTrue trivial
  | .comment cm :: r =>
    have : Decidable (ItemsOK r) := instDecidableItemsOK r
    by unfold ItemsOK; exact inferInstance
  | .text segs :: r =>
    have : Decidable (ItemsOK r) := instDecidableItemsOK r
    by unfold ItemsOK; exact inferInstance

theorem lastOr_nonempty (a : Bytes) (x y : Byte) (h : a ≠ []) : lastOr a x = lastOr a y := by
  unfold lastOr
  cases hr : a.reverse with
  | nil => exact absurd (by simpa using hr) h
  | cons c r => simp

/-- at the start of a run the lexer sees neither "{{" nor a directive -/
theorem run_head (segs : List Seg) (tl : Bytes) (s : Lx) (hst : startsRun segs) (hok : SegsOK segs tl) (hr : s.rest = segsSrc segs ++ tl) :
    segsSrc segs ≠ [] ∧ (s.char == 123 && s.peek == 123) = false ∧ (isDirectiveToken s).1 = false := by
  cases segs with
  | nil => exact absurd hst (by simp [startsRun])
  | cons sg r =>
    cases sg with
    | esc c =>
      have hrest : s.rest = 92 :: c :: (segsSrc r ++ tl) := by rw [hr]; simp [segsSrc, Seg.src]
      have hc : s.char = 92 := by simp [Lx.char, hrest]
      refine ⟨by simp [segsSrc, Seg.src], by rw [hc]; rfl, ?_⟩
      unfold isDirectiveToken
      have : (s.char != 64) = true := by rw [hc]; rfl
      rw [this]; rfl
    | plain p =>
      cases p with
      | nil => exact absurd hst (by simp [startsRun])
      | cons c p' =>
        obtain ⟨hp, _⟩ := hok
        obtain ⟨h1, h2, _⟩ := hp
        have hrest : s.rest = c :: (p' ++ (segsSrc r ++ tl)) := by rw [hr]; simp [segsSrc, Seg.src]
        have hc : s.char = c := by simp [Lx.char, hrest]
        have hp : s.peek = (p' ++ (segsSrc r ++ tl)).headD 0 := by simp [Lx.peek, hrest]
        refine ⟨by simp [segsSrc, Seg.src], ?_, ?_⟩
        · rw [hc, hp]
          cases hbb : (c == 123 && (p' ++ (segsSrc r ++ tl)).headD 0 == 123) with
          | false => rfl
          | true => simp only [Bool.and_eq_true, beq_iff_eq] at hbb; exact absurd hbb h1
        · unfold isDirectiveToken
          by_cases h64 : c = 64
          · have hnp : hasDirectivePrefix s.rest = false := by
              rw [hrest]
              cases hpx : hasDirectivePrefix (c :: (p' ++ (segsSrc r ++ tl))) with
              | false => rfl
              | true => exact absurd ⟨h64, hpx⟩ h2
            have hneof : s.isEOF = false := by simp [Lx.isEOF, hrest]
            rw [hc, h64, hneof, hnp]; rfl
          · have : (s.char != 64) = true := by rw [hc]; simpa using h64
            rw [this]; rfl

/-- **the token list of a template of runs and comments**: one HTML token per run, whose literal is
    the run without its escaping backslashes; comments leave nothing; then EOF -/
theorem lexAll_items : ∀ (items : List Item), ItemsOK items → ∀ (s : Lx) (fuel : Nat), s.rest = itemsSrc items →
    s.isHTML = true → s.panicked = false → items.length + 1 ≤ fuel →
    ∃ toks e sf, lexAll fuel s = some (toks ++ [e], sf) ∧ toks.map (·.lit) = itemsLits items ∧
      (∀ t ∈ toks, t.ty = .HTML) ∧ e.ty = .EOF ∧ sf.isHTML = true ∧ sf.panicked = false
  | [], _, s, fuel, hr, hh, hp, hf => by
    obtain ⟨g, rfl⟩ : ∃ g, fuel = g + 1 := ⟨fuel - 1, by omega⟩
    have hst := nextStep_eof s hh (by simpa [itemsSrc] using hr)
    refine ⟨[], s.tokenBegins.newToken .EOF [], s.tokenBegins, ?_, rfl, by simp, by simp [newToken], by simpa [Lx.tokenBegins] using hh,
      by simpa [Lx.tokenBegins] using hp⟩
    rw [lexAll, hst]
    simp [newToken]
  | .comment cm :: r, hok, s, fuel, hr, hh, hp, hf => by
    obtain ⟨hcm, hokr⟩ := hok
    obtain ⟨g, rfl⟩ : ∃ g, fuel = g + 1 := ⟨fuel - 1, by omega⟩
    obtain ⟨s2, hst2, hr2, hh2, hp2, _⟩ := nextStep_comment s cm (itemsSrc r) hh
      (by rw [hr]; simp [itemsSrc, Item.src]) hcm
    obtain ⟨toks, e, sf, hl, hm, hty, he, hhf, hpf⟩ := lexAll_items r hokr s2 g hr2 hh2 (by rw [hp2]; exact hp)
      (by simp at hf; omega)
    refine ⟨toks, e, sf, ?_, by simpa [itemsLits] using hm, hty, he, hhf, hpf⟩
    rw [lexAll, hst2]
    exact hl
  | .text segs :: r, hok, s, fuel, hr, hh, hp, hf => by
    obtain ⟨hstart, hsegs, hafter, hokr⟩ := hok
    obtain ⟨g, rfl⟩ : ∃ g, fuel = g + 1 := ⟨fuel - 1, by omega⟩
    have hr' : s.rest = segsSrc segs ++ itemsSrc r := by rw [hr]; simp [itemsSrc, Item.src]
    obtain ⟨hne, hnb, hnd⟩ := run_head segs (itemsSrc r) s hstart hsegs hr'
    have hscan : htmlScan s.prev [] 0 false s.rest = ((segsLit segs).reverse, (segsSrc segs).length, false) := by
      rw [hr', htmlScan_run segs (itemsSrc r) s.prev [] 0 false hsegs]
      cases r with
      | nil => simp [itemsSrc, htmlScan]
      | cons it r' =>
        cases it with
        | text _ => exact absurd hafter (by simp [afterRun])
        | comment cm =>
          have hl : lastOr (segsSrc segs) s.prev ≠ 92 := by
            rw [lastOr_nonempty _ s.prev 0 hne]; exact hafter
          simp only [itemsSrc, Item.src, List.append_assoc, List.cons_append, List.nil_append]
          rw [htmlScan_stop_braces _ _ _ _ _ hl]
          simp
    obtain ⟨t, s1, hst1, ht1, hl1, hr1, hh1, hp1⟩ := nextStep_text' s (segsSrc segs) (itemsSrc r) (segsLit segs) hh hr' hne hnb hnd hscan
    obtain ⟨toks, e, sf, hl, hm, hty, he, hhf, hpf⟩ := lexAll_items r hokr s1 g hr1 hh1 (by rw [hp1]; exact hp)
      (by simp at hf; omega)
    refine ⟨t :: toks, e, sf, ?_, by simp [itemsLits, hl1, hm], ?_, he, hhf, hpf⟩
    · rw [lexAll, hst1]
      simp only [ht1]
      rw [if_neg (by decide), hl]
      rfl
    · intro x hx
      rcases List.mem_cons.mp hx with h | h
      · rw [h]; exact ht1
      · exact hty x h


/-! ### tokens, program, render -/

theorem items_length_le : ∀ (items : List Item), ItemsOK items → items.length ≤ (itemsSrc items).length
  | [], _ => by simp
  | .comment cm :: r, hok => by
    have := items_length_le r hok.2
    simp [itemsSrc, Item.src]; omega
  | .text segs :: r, hok => by
    have := items_length_le r hok.2.2.2
    have hne : (segsSrc segs).length ≠ 0 := by
      obtain ⟨hst, _⟩ := hok
      cases segs with
      | nil => exact absurd hst (by simp [startsRun])
      | cons sg r' =>
        cases sg with
        | esc c => simp [segsSrc, Seg.src]
        | plain p =>
          cases p with
          | nil => exact absurd hst (by simp [startsRun])
          | cons c p' => simp [segsSrc, Seg.src]
    simp [itemsSrc, Item.src]; omega

theorem tokenize_items (items : List Item) (hok : ItemsOK items) :
    ∃ toks e, tokenize (itemsSrc items) = some { toks := toks ++ [e], insideCode := false, panicked := false } ∧
      toks.map (·.lit) = itemsLits items ∧ (∀ t ∈ toks, t.ty = .HTML) ∧ e.ty = .EOF := by
  have hlen := items_length_le items hok
  obtain ⟨toks, e, sf, hl, hm, hty, he, hhf, hpf⟩ := lexAll_items items hok (Lx.init (itemsSrc items)) (lexFuel (itemsSrc items))
    rfl rfl rfl (by unfold lexFuel; omega)
  refine ⟨toks, e, ?_, hm, hty, he⟩
  unfold tokenize
  rw [hl]
  simp [hhf, hpf]

theorem ps_next_html (t t2 : Token) (r : List Token) (h : ∀ x ∈ t2 :: r, x.ty ≠ .ILLEGAL) :
    ({ toks := t :: t2 :: r } : PS).next = { toks := t2 :: r } := by
  unfold PS.next
  cases r with
  | nil => rfl
  | cons n r' =>
    have : (n.ty == TT.ILLEGAL) = false := by simpa using h n (by simp)
    simp [PS.noteIllegal, this]

/-- the statement loop over text tokens: one text statement per token -/
theorem parseLoop_texts : ∀ (toks : List Token) (e : Token) (acc : List Stmt) (f : Nat), (∀ t ∈ toks, t.ty = .HTML) → e.ty = .EOF →
    toks.length + 2 ≤ f →
    parseProgramLoop f acc ({ toks := toks ++ [e] } : PS) = (some (acc ++ toks.map Stmt.html), { toks := [e] })
  | [], e, acc, f, _, he, hf => by
    obtain ⟨g, rfl⟩ : ∃ g, f = g + 1 := ⟨f - 1, by omega⟩
    rw [parseProgramLoop]
    have c : ({ toks := [e] } : PS).curIs .EOF = true := by simp [PS.curIs, PS.cur, he]
    simp [c]
  | t :: r, e, acc, f, hty, he, hf => by
    obtain ⟨g, rfl⟩ : ∃ g, f = g + 1 + 1 := ⟨f - 2, by simp at hf; omega⟩
    have ht : t.ty = .HTML := hty t (by simp)
    rw [parseProgramLoop]
    have c1 : ({ toks := t :: r ++ [e] } : PS).curIs .EOF = false := by simp [PS.curIs, PS.cur, ht]
    have i1 : ({ toks := t :: r ++ [e] } : PS).curIs .ILLEGAL = false := by simp [PS.curIs, PS.cur, ht]
    have hs1 : parseStatement (g + 1) ({ toks := t :: r ++ [e] } : PS) = (.html t, { toks := t :: r ++ [e] }) := by
      show statementBody (parseExpression g) (parseExprList g) (parseBody g) (parseIfTail g) (parseSlots g)
        ({ toks := t :: r ++ [e] } : PS) = _
      simp [statementBody, PS.cur, ht]
    have hnill : ∀ x ∈ r ++ [e], x.ty ≠ .ILLEGAL := by
      intro x hx
      rcases List.mem_append.mp hx with h | h
      · rw [hty x (by simp [h])]; decide
      · simp at h; rw [h, he]; decide
    have nx : ({ toks := t :: r ++ [e] } : PS).next = { toks := r ++ [e] } := by
      cases hr : r ++ [e] with
      | nil => simp at hr
      | cons t2 r2 =>
        have := ps_next_html t t2 r2 (by rw [← hr]; exact hnill)
        simpa [hr] using this
    simp only [List.cons_append] at c1 i1 hs1 nx ⊢
    simp only [c1, Bool.false_eq_true, if_false, hs1, i1, Stmt.isBad, nx]
    rw [parseLoop_texts r e (acc ++ [Stmt.html t]) (g + 1) (fun x hx => hty x (by simp [hx])) he (by simp at hf; omega)]
    simp

theorem initParser_texts (toks : List Token) (e : Token) (hty : ∀ t ∈ toks, t.ty = .HTML) (he : e.ty = .EOF) :
    initParser (toks ++ [e]) 0 = { toks := toks ++ [e] } := by
  have hn : ∀ x ∈ toks ++ [e], (x.ty == TT.ILLEGAL) = false := by
    intro x hx
    rcases List.mem_append.mp hx with h | h
    · rw [hty x h]; rfl
    · simp at h; rw [h, he]; rfl
  cases toks with
  | nil =>
    have := hn e (by simp)
    simp [initParser, PS.noteIllegal, PS.cur, this]
  | cons t r =>
    have h1 := hn t (by simp)
    cases hr : r ++ [e] with
    | nil => simp at hr
    | cons t2 r2 =>
      have h2 := hn t2 (by simp only [List.cons_append, hr]; simp)
      simp [initParser, PS.noteIllegal, PS.cur, PS.peek, h1, h2, hr]

/-- the program of a list of text tokens -/
theorem parse_texts (src : Bytes) (toks : List Token) (e : Token)
    (htok : tokenize src = some { toks := toks ++ [e], insideCode := false, panicked := false })
    (hty : ∀ t ∈ toks, t.ty = .HTML) (he : e.ty = .EOF) :
    parseSource src = .ok { tok := (toks ++ [e]).headD e, stmts := toks.map Stmt.html } := by
  unfold parseSource
  rw [htok]
  simp only [Bool.false_eq_true, if_false]
  rw [initParser_texts toks e hty he]
  rw [parseLoop_texts toks e [] (parseFuel (toks ++ [e])) hty he (by simp [parseFuel]; omega)]
  have hcur : ({ toks := toks ++ [e] } : PS).cur = (toks ++ [e]).headD e := by
    cases toks with
    | nil => rfl
    | cons t r => rfl
  rw [hcur]
  simp [finishParse]

/-- text statements render their literals, one after the other -/
theorem evalProg_texts (c : Ctx) (env : Env) : ∀ (toks : List Token) (acc : Bytes) (f : Nat), toks.length + 1 ≤ f →
    evalProg f c env (toks.map Stmt.html) acc = .ok (acc ++ (toks.map (·.lit)).flatten, env)
  | [], acc, f, hf => by
    obtain ⟨g, rfl⟩ : ∃ g, f = g + 1 := ⟨f - 1, by omega⟩
    simp [evalProg_nil]
  | t :: r, acc, f, hf => by
    obtain ⟨g, rfl⟩ : ∃ g, f = g + 1 + 1 := ⟨f - 2, by simp at hf; omega⟩
    simp only [List.map_cons]
    rw [evalProg_cons, evalStmt_html, Res.bind_ok]
    rw [evalProg_texts c env r _ (g + 1) (by simp at hf; omega)]
    simp

/-- **text and comments, in general**: a template made of any number of text runs (each with any
    number of escaped "{{" and escaped directives) separated by comments with arbitrary bodies
    renders as the concatenation of the runs with their escaping backslashes removed — for every
    data map and every set of custom functions; nothing in it is evaluated. -/
theorem items_render (custom : List ((VType × Bytes) × Nat)) (items : List Item) (hok : ItemsOK items)
    (hsize : (itemsLits items).length + 1 ≤ evalFuel)
    (data : List (Bytes × GoVal)) (env : Env) (henv : envFromMap data = .ok env) :
    evaluateStringPure custom (itemsSrc items) data = .ok (itemsLits items).flatten := by
  obtain ⟨toks, e, htok, hm, hty, he⟩ := tokenize_items items hok
  unfold evaluateStringPure
  rw [parse_texts _ toks e htok hty he]
  simp only [envOrFail, henv]
  have hlen : toks.length = (itemsLits items).length := by rw [← hm]; simp
  rw [evalProg_texts { custom := custom } env toks [] evalFuel (by rw [hlen]; exact hsize)]
  simp [resToOut, hm]

end Tw
