/-
  TwProofs.Lemmas.LexStr — a terminated string token covers its two quotes and the text between
  them, and its literal is that text with the escaped quotes unescaped (C19).
-/
import TwProofs.Lemmas.LexWs
namespace Tw
open Lx

/-- where the scan stops short of the end, the next byte is the closing quote -/
theorem strScan_stops (q : Byte) : ∀ l : Bytes, strScan q l < l.length → (l.drop (strScan q l)).headD 0 = q
  | [], h => by simp at h
  | [c], h => by simp [strScan] at h
  | c :: d :: t, h => by
    rw [strScan_cons2] at h ⊢
    by_cases hq : (d == q && c != 92) = true
    · simp only [hq, if_true]
      have : d = q := by simp only [Bool.and_eq_true, beq_iff_eq] at hq; exact hq.1
      simp [this]
    · simp only [hq, Bool.false_eq_true, if_false] at h ⊢
      have ih := strScan_stops q (d :: t) (by simp only [List.length_cons] at h ⊢; omega)
      rw [show 1 + strScan q (d :: t) = strScan q (d :: t) + 1 by omega, List.drop_succ_cons]
      exact ih

theorem take_succ_of_head {l : Bytes} {n : Nat} {q : Byte} (hn : n < l.length) (h : (l.drop n).headD 0 = q) :
    l.take (n + 1) = l.take n ++ [q] := by
  have hd : l.drop n = l[n] :: l.drop (n + 1) := List.drop_eq_getElem_cons hn
  rw [hd, List.headD_cons] at h
  rw [List.take_add_one, List.getElem?_eq_getElem hn, h]
  rfl

/-- **a terminated string**: the bytes `strSpan` covers are the quote, the raw text, the quote -/
theorem strSpan_shape (q : Byte) (after : Bytes) (h : (strSpan (q :: after)).1 ≤ (q :: after).length) :
    (q :: after).take (strSpan (q :: after)).1 = q :: ((strSpan (q :: after)).2 ++ [q]) := by
  unfold strSpan at h ⊢
  simp only [List.headD_cons, List.drop_succ_cons, List.drop_zero] at h ⊢
  by_cases he : (after.headD 0 == q && !after.isEmpty) = true
  · simp only [he, if_true]
    cases after with
    | nil => simp at he
    | cons c t =>
      have : c = q := by simpa using he
      simp [this]
  · simp only [he, Bool.false_eq_true, if_false, List.length_cons] at h ⊢
    have hlt : strScan q after < after.length := by omega
    have hs := strScan_stops q after hlt
    rw [show strScan q after + 2 = (strScan q after + 1) + 1 from rfl, List.take_succ_cons, take_succ_of_head hlt hs]

/-- the token the lexer makes of it: kind STR, the covered bytes are quote + raw + quote, the
    literal is the raw text with `\q` replaced by `q` -/
theorem strDesc_shape (s : Lx) (q : Byte) (after : Bytes) (hr : s.rest = q :: after)
    (hterm : (strSpan s.rest).1 ≤ s.rest.length) :
    (strDesc s).ty = .STR ∧ s.rest.take (strDesc s).n = q :: ((strSpan s.rest).2 ++ [q]) ∧
    (strDesc s).lit = replaceAll (strSpan s.rest).2 [92, q] [q] := by
  have hc : s.char = q := by simp [Lx.char, hr]
  refine ⟨rfl, ?_, ?_⟩
  · show s.rest.take (strSpan s.rest).1 = _
    rw [hr] at hterm ⊢
    exact strSpan_shape q after hterm
  · show replaceAll (strSpan s.rest).2 [92, s.char] [s.char] = _
    rw [hc]

theorem strScan_le (q : Byte) : ∀ l : Bytes, strScan q l ≤ l.length
  | [] => by simp [strScan]
  | [c] => by simp [strScan]
  | c :: d :: t => by
    rw [strScan_cons2]
    have := strScan_le q (d :: t)
    split <;> simp only [List.length_cons] at this ⊢ <;> omega

/-- **an unterminated string**: no closing quote before the end of the input — the scan covers
    everything that is left and the raw text is all of it after the opening quote -/
theorem strSpan_unterminated (q : Byte) (after : Bytes) (h : (q :: after).length < (strSpan (q :: after)).1) :
    (q :: after).take (strSpan (q :: after)).1 = q :: after ∧ (strSpan (q :: after)).2 = after := by
  unfold strSpan at h ⊢
  simp only [List.headD_cons, List.drop_succ_cons, List.drop_zero] at h ⊢
  by_cases he : (after.headD 0 == q && !after.isEmpty) = true
  · simp only [he, if_true, List.length_cons] at h
    cases after with
    | nil => simp at he
    | cons c t => simp only [List.length_cons] at h; omega
  · simp only [he, Bool.false_eq_true, if_false, List.length_cons] at h ⊢
    have hle := strScan_le q after
    have : strScan q after = after.length := by omega
    rw [this]
    constructor
    · rw [List.take_of_length_le (by simp)]
    · simp

theorem strDesc_unterminated (s : Lx) (q : Byte) (after : Bytes) (hr : s.rest = q :: after)
    (hopen : s.rest.length < (strSpan s.rest).1) :
    (strDesc s).ty = .STR ∧ s.rest.take (strDesc s).n = s.rest ∧ (strDesc s).lit = replaceAll after [92, q] [q] := by
  have hc : s.char = q := by simp [Lx.char, hr]
  rw [hr] at hopen
  obtain ⟨h1, h2⟩ := strSpan_unterminated q after hopen
  refine ⟨rfl, ?_, ?_⟩
  · show s.rest.take (strSpan s.rest).1 = _
    rw [hr]; exact h1
  · show replaceAll (strSpan s.rest).2 [92, s.char] [s.char] = _
    rw [hc, hr, h2]

/-- in code, at a quote, `NextToken` returns that token -/
theorem codeDesc_string (s : Lx) (h : s.char = 34 ∨ s.char = 39) : codeDesc s = strDesc s := by
  unfold codeDesc
  have hs : simpleToken s.char = none := by rcases h with h | h <;> rw [h] <;> decide
  simp only [hs]
  unfold bracketDesc
  rcases h with h | h <;> simp [h]

end Tw
