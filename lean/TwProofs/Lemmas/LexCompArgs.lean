/-
  TwProofs.Lemmas.LexCompArgs — `@component("name", { key: "text" })`, lexed from text mode back to
  text mode: ten tokens, the brace counter up and down again.
-/
import TwProofs.Lemmas.LexDirArgs
namespace Tw
open Lx

def kwComponent : Bytes := [64, 99, 111, 109, 112, 111, 110, 101, 110, 116]

theorem dirScan_component (x : Bytes) : dirScan [] .ILLEGAL (kwComponent ++ x) = (kwComponent, .COMPONENT) := by
  have h1 : lookupDirective [64] = .ILLEGAL := by decide
  have h2 : lookupDirective [64, 99] = .ILLEGAL := by decide
  have h3 : lookupDirective [64, 99, 111] = .ILLEGAL := by decide
  have h4 : lookupDirective [64, 99, 111, 109] = .ILLEGAL := by decide
  have h5 : lookupDirective [64, 99, 111, 109, 112] = .ILLEGAL := by decide
  have h6 : lookupDirective [64, 99, 111, 109, 112, 111] = .ILLEGAL := by decide
  have h7 : lookupDirective [64, 99, 111, 109, 112, 111, 110] = .ILLEGAL := by decide
  have h8 : lookupDirective [64, 99, 111, 109, 112, 111, 110, 101] = .ILLEGAL := by decide
  have h9 : lookupDirective [64, 99, 111, 109, 112, 111, 110, 101, 110] = .ILLEGAL := by decide
  have h10 : lookupDirective [64, 99, 111, 109, 112, 111, 110, 101, 110, 116] = .COMPONENT := by decide
  have l1 : isLetterWord 64 = true := by decide
  have l2 : isLetterWord 99 = true := by decide
  have l3 : isLetterWord 111 = true := by decide
  have l4 : isLetterWord 109 = true := by decide
  have l5 : isLetterWord 112 = true := by decide
  have l6 : isLetterWord 110 = true := by decide
  have l7 : isLetterWord 101 = true := by decide
  have l8 : isLetterWord 116 = true := by decide
  simp only [kwComponent, List.cons_append, List.nil_append, dirScan, l1, l2, l3, l4, l5, l6, l7, l8, if_true,
    h1, h2, h3, h4, h5, h6, h7, h8, h9, h10]
  simp [isPotentiallyLong]

theorem dirKw_component : DirKw kwComponent .COMPONENT :=
  ⟨rfl, by decide, by decide, dirScan_component, by decide, by decide, by decide, by decide⟩

theorem codeStepDesc_lbrace (s : Lx) (x : Bytes) (hr : s.rest = 123 :: x) (hx : x.headD 0 ≠ 123) :
    codeStepDesc s = { st := { s with braces := s.braces + 1 }, n := 1, ty := .LBRACE, lit := [123] } := by
  have hc : s.char = 123 := by simp [Lx.char, hr]
  unfold codeStepDesc
  rw [if_neg (by rw [hc]; simp)]
  unfold codeDesc
  rw [hc]
  have : simpleToken 123 = none := by decide
  simp only [this]
  unfold bracketDesc
  rw [hc]
  simp

theorem codeStepDesc_rbrace (s : Lx) (x : Bytes) (hr : s.rest = 125 :: x) (hx : x.headD 0 ≠ 125) :
    codeStepDesc s = { st := { s with braces := s.braces - 1 }, n := 1, ty := .RBRACE, lit := [125] } := by
  have hc : s.char = 125 := by simp [Lx.char, hr]
  have hp : s.peek = x.headD 0 := by
    cases x with
    | nil => simp [Lx.peek, hr]
    | cons a t => simp [Lx.peek, hr]
  unfold codeStepDesc
  rw [if_neg (by rw [hc, hp]; intro h; simp only [Bool.and_eq_true, beq_iff_eq] at h; exact hx h.1.2)]
  unfold codeDesc
  rw [hc]
  have : simpleToken 125 = none := by decide
  simp only [this]
  unfold bracketDesc
  rw [hc]
  simp

theorem codeStepDesc_colon (s : Lx) (x : Bytes) (hr : s.rest = 58 :: x) :
    codeStepDesc s = { st := s, n := 1, ty := .COLON, lit := [58] } := by
  have hc : s.char = 58 := by simp [Lx.char, hr]
  unfold codeStepDesc
  rw [if_neg (by rw [hc]; simp)]
  unfold codeDesc
  rw [hc]
  have : simpleToken 58 = some .COLON := by decide
  simp only [this]

/-- "{" after any white space, in code (not the first half of "{{") -/
theorem code_lbrace_step (s : Lx) (g x : Bytes) (hh : s.isHTML = false) (hg : allWs g) (hr : s.rest = g ++ (123 :: x))
    (hx : x.headD 0 ≠ 123) :
    ∃ t s1, nextStep s = (.tok t, s1) ∧ key t = (.LBRACE, [123]) ∧ t.ty ≠ .EOF ∧ s1.rest = x ∧ s1.prev = 123 ∧
      mode s1 = (s.isHTML, s.isDirective, s.parens, s.braces + 1, s.panicked) := by
  obtain ⟨j1, j2⟩ := skipWs_code s hh g _ hg hr (by simp only [List.headD_cons]; decide)
  have hd4 := codeStepDesc_lbrace (skipWs s) x j1 hx
  have hpk : (skipWs s).peek = x.headD 0 := by
    cases x with
    | nil => simp [Lx.peek, j1]
    | cons a t => simp [Lx.peek, j1]
  have st4 := stepAt_code (skipWs s) (by rw [mode_html j2]; exact hh) (by rw [j1]; simp)
    (by intro ⟨_, e⟩; rw [hpk] at e; exact hx e)
  obtain ⟨z1, z2, z3⟩ := emit_after (codeStepDesc (skipWs s)) [123] x (by simp) (by rw [hd4]; simpa using j1) (by rw [hd4]; rfl)
  refine ⟨(codeStepDesc (skipWs s)).emit.1, (codeStepDesc (skipWs s)).emit.2, by unfold nextStep; exact st4, ?_, ?_, z1, by rw [z3]; rfl, ?_⟩
  · unfold TokDesc.emit; rw [emit_key, hd4]
  · unfold TokDesc.emit; rw [emit_ty, hd4]; exact fun h => by cases h
  · rw [z2, hd4]
    simp only [mode]
    rw [mode_html j2, mode_dir j2, mode_parens j2, mode_braces j2, mode_pan j2]

/-- "}" after any white space, in code (not the first half of "}}") -/
theorem code_rbrace_step (s : Lx) (g x : Bytes) (hh : s.isHTML = false) (hg : allWs g) (hr : s.rest = g ++ (125 :: x))
    (hx : x.headD 0 ≠ 125) :
    ∃ t s1, nextStep s = (.tok t, s1) ∧ key t = (.RBRACE, [125]) ∧ t.ty ≠ .EOF ∧ s1.rest = x ∧ s1.prev = 125 ∧
      mode s1 = (s.isHTML, s.isDirective, s.parens, s.braces - 1, s.panicked) := by
  obtain ⟨j1, j2⟩ := skipWs_code s hh g _ hg hr (by simp only [List.headD_cons]; decide)
  have hd4 := codeStepDesc_rbrace (skipWs s) x j1 hx
  have st4 := stepAt_code (skipWs s) (by rw [mode_html j2]; exact hh) (by rw [j1]; simp) (by simp [Lx.char, j1])
  obtain ⟨z1, z2, z3⟩ := emit_after (codeStepDesc (skipWs s)) [125] x (by simp) (by rw [hd4]; simpa using j1) (by rw [hd4]; rfl)
  refine ⟨(codeStepDesc (skipWs s)).emit.1, (codeStepDesc (skipWs s)).emit.2, by unfold nextStep; exact st4, ?_, ?_, z1, by rw [z3]; rfl, ?_⟩
  · unfold TokDesc.emit; rw [emit_key, hd4]
  · unfold TokDesc.emit; rw [emit_ty, hd4]; exact fun h => by cases h
  · rw [z2, hd4]
    simp only [mode]
    rw [mode_html j2, mode_dir j2, mode_parens j2, mode_braces j2, mode_pan j2]

/-- ":" after any white space, in code -/
theorem code_colon_step (s : Lx) (g x : Bytes) (hh : s.isHTML = false) (hg : allWs g) (hr : s.rest = g ++ (58 :: x)) :
    ∃ t s1, nextStep s = (.tok t, s1) ∧ key t = (.COLON, [58]) ∧ t.ty ≠ .EOF ∧ After s s1 x 58 := by
  obtain ⟨j1, j2⟩ := skipWs_code s hh g _ hg hr (by simp only [List.headD_cons]; decide)
  have hd4 := codeStepDesc_colon (skipWs s) x j1
  have st4 := stepAt_code (skipWs s) (by rw [mode_html j2]; exact hh) (by rw [j1]; simp) (by simp [Lx.char, j1])
  obtain ⟨z1, z2, z3⟩ := emit_after (codeStepDesc (skipWs s)) [58] x (by simp) (by rw [hd4]; simpa using j1) (by rw [hd4]; rfl)
  refine ⟨(codeStepDesc (skipWs s)).emit.1, (codeStepDesc (skipWs s)).emit.2, by unfold nextStep; exact st4, ?_, ?_, ⟨z1, ?_, by rw [z3]; rfl⟩⟩
  · unfold TokDesc.emit; rw [emit_key, hd4]
  · unfold TokDesc.emit; rw [emit_ty, hd4]; exact fun h => by cases h
  · rw [z2, hd4, j2]

/-- `@component(q n q, g3 { g4 k : g6 q2 v q2 g7 })` -/
def compSrc (q : Byte) (n g3 g4 k g6 : Bytes) (q2 : Byte) (v g7 : Bytes) : Bytes :=
  kwComponent ++ [40] ++ strLit q n ++ [44] ++ g3 ++ [123] ++ g4 ++ k ++ [58] ++ g6 ++ strLit q2 v ++ g7 ++ [125, 41]

theorem allWs_nil' : allWs [] := fun _ h => by cases h

def compKeys (n k v : Bytes) : List (TT × Bytes) :=
  [(.COMPONENT, kwComponent), (.LPAREN, [40]), (.STR, n), (.COMMA, [44]), (.LBRACE, [123]), (.IDENT, k), (.COLON, [58]),
   (.STR, v), (.RBRACE, [125]), (.RPAREN, [41])]

theorem lex_comp (s : Lx) (q : Byte) (n g3 g4 k g6 : Bytes) (q2 : Byte) (v g7 tl : Bytes)
    (hh : s.isHTML = true) (hprev : s.prev ≠ 92) (hp0 : s.parens = 0) (hb0 : s.braces = 0)
    (hg3 : allWs g3) (hg4 : allWs g4) (hg6 : allWs g6) (hg7 : allWs g7)
    (hq : q = 34 ∨ q = 39) (hpn : PlainStr q n) (hq2 : q2 = 34 ∨ q2 = 39) (hpv : PlainStr q2 v) (hk : isName k)
    (hr : s.rest = compSrc q n g3 g4 k g6 q2 v g7 ++ tl) :
    ∃ toks s10, Run s toks s10 ∧ toks.map key = compKeys n k v ∧ s10.rest = tl ∧ s10.prev = 41 ∧
      mode s10 = (true, false, 0, 0, s.panicked) := by
  have hr' : s.rest = kwComponent ++ (40 :: ([] ++ (strLit q n ++ (44 :: (g3 ++ (123 :: (g4 ++ (k ++ (58 :: (g6 ++ (strLit q2 v ++ (g7 ++ (125 :: 41 :: tl))))))))))))) := by
    rw [hr]; simp [compSrc, List.append_assoc]
  obtain ⟨t1, t2, s2, run2, k1, k2, r2, m2⟩ := lex_dir_open kwComponent .COMPONENT dirKw_component s _ hh hprev hp0 hr'
  obtain ⟨f1, f2, f3, f4, f5⟩ := mode_fields m2
  -- the name
  obtain ⟨t3, s3, st3, k3, ne3, a3⟩ := code_str_step s2 [] q n (44 :: (g3 ++ (123 :: (g4 ++ (k ++ (58 :: (g6 ++ (strLit q2 v ++ (g7 ++ (125 :: 41 :: tl)))))))))) f1 allWs_nil' hq hpn (by rw [r2]; simp [strLit])
  have h3 : s3.isHTML = false := by rw [mode_html a3.md]; exact f1
  -- ","
  obtain ⟨t4, s4, st4, k4, ne4, a4⟩ := code_comma_step s3 [] (g3 ++ (123 :: (g4 ++ (k ++ (58 :: (g6 ++ (strLit q2 v ++ (g7 ++ (125 :: 41 :: tl))))))))) h3 allWs_nil' (by rw [a3.rest]; rfl)
  have h4 : s4.isHTML = false := by rw [mode_html a4.md]; exact h3
  -- "{"
  obtain ⟨⟨c, cv, hcv, hc⟩, hall, hkw⟩ := hk
  have hkn : isName k := ⟨⟨c, cv, hcv, hc⟩, hall, hkw⟩
  have hnot := identCh_not_special hc
  have hx5 : (g4 ++ (k ++ (58 :: (g6 ++ (strLit q2 v ++ (g7 ++ (125 :: 41 :: tl))))))).headD 0 ≠ 123 := by
    cases g4 with
    | nil => simp only [List.nil_append, hcv, List.cons_append, List.headD_cons]; exact hnot.2.1
    | cons w t =>
      have hw : isWs w = true := hg4 w List.mem_cons_self
      simp only [List.cons_append, List.headD_cons]
      intro e; rw [e] at hw; cases hw
  obtain ⟨t5, s5, st5, k5, ne5, r5, _, m5⟩ := code_lbrace_step s4 g3 (g4 ++ (k ++ (58 :: (g6 ++ (strLit q2 v ++ (g7 ++ (125 :: 41 :: tl))))))) h4 hg3 a4.rest hx5
  have m5' : mode s5 = (false, true, 1, 1, s.panicked) := by
    rw [m5, h4, mode_dir a4.md, mode_dir a3.md, f2, mode_parens a4.md, mode_parens a3.md, f3, mode_braces a4.md, mode_braces a3.md, f4,
      mode_pan a4.md, mode_pan a3.md, f5, hb0]
    rfl
  obtain ⟨e1, e2, e3, e4, e5⟩ := mode_fields m5'
  -- the key
  have hx6 : (isIdentCh ((58 :: (g6 ++ (strLit q2 v ++ (g7 ++ (125 :: 41 :: tl))))).headD 0) ||
      isNumberCh ((58 :: (g6 ++ (strLit q2 v ++ (g7 ++ (125 :: 41 :: tl))))).headD 0)) = false := by
    simp only [List.headD_cons]; decide
  obtain ⟨t6, s6, st6, k6, ne6, a6⟩ := code_word_step s5 g4 k (58 :: (g6 ++ (strLit q2 v ++ (g7 ++ (125 :: 41 :: tl))))) e1 hg4 (isName_word hkn) r5 hx6
  have h6 : s6.isHTML = false := by rw [mode_html a6.md]; exact e1
  -- ":"
  obtain ⟨t7, s7, st7, k7, ne7, a7⟩ := code_colon_step s6 [] (g6 ++ (strLit q2 v ++ (g7 ++ (125 :: 41 :: tl)))) h6 allWs_nil' (by rw [a6.rest]; rfl)
  have h7 : s7.isHTML = false := by rw [mode_html a7.md]; exact h6
  -- the value
  obtain ⟨t8, s8, st8, k8, ne8, a8⟩ := code_str_step s7 g6 q2 v (g7 ++ (125 :: 41 :: tl)) h7 hg6 hq2 hpv (by rw [a7.rest]; simp [strLit])
  have h8 : s8.isHTML = false := by rw [mode_html a8.md]; exact h7
  -- "}"
  obtain ⟨t9, s9, st9, k9, ne9, r9, _, m9⟩ := code_rbrace_step s8 g7 (41 :: tl) h8 hg7 a8.rest (by simp only [List.headD_cons]; decide)
  have m9' : mode s9 = (false, true, 1, 0, s.panicked) := by
    rw [m9, h8, mode_dir a8.md, mode_dir a7.md, mode_dir a6.md, e2, mode_parens a8.md, mode_parens a7.md, mode_parens a6.md, e3,
      mode_braces a8.md, mode_braces a7.md, mode_braces a6.md, e4, mode_pan a8.md, mode_pan a7.md, mode_pan a6.md, e5]
    rfl
  obtain ⟨u1, u2, u3, u4, u5⟩ := mode_fields m9'
  -- ")"
  obtain ⟨t10, s10, st10, k10, ne10, r10, pv10, m10⟩ := code_rparen_close s9 [] tl u1 u2 u3 allWs_nil' r9
  refine ⟨[t1, t2, t3, t4, t5, t6, t7, t8, t9, t10], s10, ?_, ?_, r10, pv10, ?_⟩
  · have := run_snoc (run_snoc (run_snoc (run_snoc (run_snoc (run_snoc (run_snoc (run_snoc run2 st3 ne3) st4 ne4) st5 ne5) st6 ne6) st7 ne7) st8 ne8) st9 ne9) st10 ne10
    simpa using this
  · have hk6 : key t6 = (.IDENT, k) := by rw [k6, hkw]
    simp [compKeys, k1, k2, k3, k4, k5, hk6, k7, k8, k9, k10]
  · rw [m10, u4, u5]

/-- as a piece of code -/
def compCode (q : Byte) (n g3 g4 k g6 : Bytes) (q2 : Byte) (v g7 : Bytes) : Code :=
  { src := compSrc q n g3 g4 k g6 q2 v g7, keys := compKeys n k v }

theorem compCode_ok (q : Byte) (n g3 g4 k g6 : Bytes) (q2 : Byte) (v g7 : Bytes)
    (hg3 : allWs g3) (hg4 : allWs g4) (hg6 : allWs g6) (hg7 : allWs g7)
    (hq : q = 34 ∨ q = 39) (hpn : PlainStr q n) (hq2 : q2 = 34 ∨ q2 = 39) (hpv : PlainStr q2 v) (hk : isName k) :
    (compCode q n g3 g4 k g6 q2 v g7).OK := by
  refine ⟨?_, ?_, ?_⟩
  · intro tl
    have := stops_kw kwComponent ([40] ++ strLit q n ++ [44] ++ g3 ++ [123] ++ g4 ++ k ++ [58] ++ g6 ++ strLit q2 v ++ g7 ++ [125, 41] ++ tl)
      rfl (by decide) (by decide) (by decide)
    simpa [compCode, compSrc, List.append_assoc] using this
  · obtain ⟨⟨c, cv, hcv, _⟩, _, _⟩ := hk
    simp [compCode, compSrc, compKeys, strLit, kwComponent, hcv]
  · intro s tl hr hh hb hpa hd hpv'
    obtain ⟨toks, s10, run, hkeys, r10, pv10, m10⟩ := lex_comp s q n g3 g4 k g6 q2 v g7 tl hh hpv' hpa hb hg3 hg4 hg6 hg7 hq hpn hq2 hpv hk hr
    obtain ⟨f1, f2, f3, f4, f5⟩ := mode_fields m10
    exact ⟨toks, s10, run, hkeys, r10, f1, f4, f3, f2, f5, by rw [pv10]; decide⟩

end Tw
