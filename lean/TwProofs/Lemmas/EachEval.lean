/-
  TwProofs.Lemmas.EachEval — the evaluation of `@each` statements, for use by the end-to-end
  theorems (the same statements as in C03.lean, outside its namespace).
-/
import TwProofs.Lemmas.Loops
import TwProofs.Lemmas.EachSimple
namespace Tw

theorem each_renders_passes' (f : Nat) (c : Ctx) (env : Env) (t : Token) (var : Bytes) (arrE : Expr) (body : List Stmt)
    (alt : Option (List Stmt)) (xs : List Val) (out : Bytes)
    (harr : evalExpr f c env.push arrE = .ok (.arr xs)) (hne : xs ≠ [])
    (hp : EachPasses f c t var body xs.length env.push xs 0 out) :
    evalStmt (f + xs.length + 1 + 1) c env (.eachS t var arrE body alt) = .ok ({ text := out }, env) := by
  rw [evalStmt_succ]
  simp only [stmtBody, calleesAt_expr, calleesAt_eachL]
  rw [show f + xs.length + 1 = f + (xs.length + 1) from rfl, evalExpr_lift harr, Res.bind_ok]
  have hemp : xs.isEmpty = false := by cases xs with | nil => exact absurd rfl hne | cons _ _ => rfl
  simp only [hemp, Bool.false_eq_true, if_false]
  rw [show f + (xs.length + 1) = f + xs.length + 1 from rfl, eachLoop_passes hp, Res.bind_ok]
  simp

/-- **the passes computed**: for a body of text and plain variable prints — the loop variable,
    `loop`, variables visible outside — and an array of `n ≥ 1` elements of one type, `@each`
    renders, element after element in order, the body's text with the holes filled from the
    environment of that pass (`passEnv`: the element bound to the variable, `loop` = the metadata
    of position `i` of `n`, everything else as outside), and hands back the environment it was
    given.  No hypothesis about passes: they are constructed. -/
theorem each_of_text_and_variables' (f : Nat) (c : Ctx) (env : Env) (t : Token) (var : Bytes) (arrE : Expr) (body : List Stmt)
    (alt : Option (List Stmt)) (xs : List Val) (ty : VType)
    (harr : evalExpr f c env.push arrE = .ok (.arr xs)) (hne : xs ≠ [])
    (hv : (var == b "loop") = false) (hfresh : ∀ old, env.get var = some old → old.type = ty)
    (hty : ∀ x ∈ xs, x.type = ty) (hsb : simpleBlock body = true) (hvis : holesVisible env var (piecesOf body)) :
    evalStmt (max f (body.length + 3) + xs.length + 1 + 1) c env (.eachS t var arrE body alt) =
      .ok ({ text := passTexts env var (piecesOf body) xs.length xs 0 }, env) := by
  have hp := eachPasses_simple c env t var body ty xs.length hv hfresh hsb hvis xs 0 [] hty (Or.inl rfl)
  have hp' : EachPasses (max f (body.length + 3)) c t var body xs.length env.push xs 0
      (passTexts env var (piecesOf body) xs.length xs 0) := by
    obtain ⟨k, hk⟩ : ∃ k, max f (body.length + 3) = (body.length + 3) + k := ⟨max f (body.length + 3) - (body.length + 3), by omega⟩
    rw [hk]
    exact eachPasses_lift hp k
  obtain ⟨k2, hk2⟩ : ∃ k, max f (body.length + 3) = f + k := ⟨max f (body.length + 3) - f, by omega⟩
  exact each_renders_passes' (max f (body.length + 3)) c env t var arrE body alt xs _ (by rw [hk2]; exact evalExpr_lift harr k2) hne hp'



theorem each_empty_no_else' (f : Nat) (c : Ctx) (env : Env) (t : Token) (var : Bytes) (arrE : Expr) (body : List Stmt)
    (harr : evalExpr f c env.push arrE = .ok (.arr [])) :
    evalStmt (f + 1) c env (.eachS t var arrE body none) = .ok ({}, env) := by
  rw [evalStmt_succ]
  simp only [stmtBody, calleesAt_expr]
  rw [harr, Res.bind_ok]
  rfl


end Tw
