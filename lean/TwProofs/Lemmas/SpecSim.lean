/-
  TwProofs.Lemmas.SpecSim — the token-based evaluator of the model computes the values of the
  token-free denotational semantics `TwSpec.seval` (C01).
-/
import TwSpec.ExprSem
import TwProofs.Lemmas.NoPanic
namespace Tw
open TwSpec

/-- the model's result agrees with the specification's: a value is that value, an error is "no value" -/
def Agrees {α} (r : Res α) (o : Option α) : Prop :=
  match r with
  | .ok v => o = some v
  | .err _ _ _ => o = none
  | .oof => True
  | .panic _ => True

theorem agrees_intInfix (op : Bytes) (a c : Int64) (line : Nat) : Agrees (intInfix op a c line) (intOp op a c) := by
  unfold intInfix intOp Agrees
  by_cases h1 : op = b "+"; · subst h1; simp (config := { decide := true })
  by_cases h2 : op = b "-"; · subst h2; simp (config := { decide := true })
  by_cases h3 : op = b "*"; · subst h3; simp (config := { decide := true })
  by_cases h4 : op = b "/"
  · subst h4; by_cases hz : c = 0 <;> simp (config := { decide := true }) [hz]
  by_cases h5 : op = b "%"
  · subst h5; by_cases hz : c = 0 <;> simp (config := { decide := true }) [hz]
  by_cases h6 : op = b "=="; · subst h6; simp (config := { decide := true }) [boolV]
  by_cases h7 : op = b "!="; · subst h7; simp (config := { decide := true }) [boolV]
  by_cases h8 : op = b ">"; · subst h8; simp (config := { decide := true }) [boolV]
  by_cases h9 : op = b "<"; · subst h9; simp (config := { decide := true }) [boolV]
  by_cases h10 : op = b ">="; · subst h10; simp (config := { decide := true }) [boolV]
  by_cases h11 : op = b "<="; · subst h11; simp (config := { decide := true }) [boolV]
  simp [h1, h2, h3, h4, h5, h6, h7, h8, h9, h10, h11]

theorem agrees_floatInfix (op : Bytes) (a c : Float) (line : Nat) : Agrees (floatInfix op a c line) (floatOp op a c) := by
  unfold floatInfix floatOp Agrees
  by_cases h1 : op = b "+"; · subst h1; simp (config := { decide := true })
  by_cases h2 : op = b "-"; · subst h2; simp (config := { decide := true })
  by_cases h3 : op = b "*"; · subst h3; simp (config := { decide := true })
  by_cases h4 : op = b "/"; · subst h4; simp (config := { decide := true })
  by_cases h6 : op = b "=="; · subst h6; simp (config := { decide := true }) [boolV]
  by_cases h7 : op = b "!="; · subst h7; simp (config := { decide := true }) [boolV]
  by_cases h8 : op = b ">"; · subst h8; simp (config := { decide := true }) [boolV]
  by_cases h9 : op = b "<"; · subst h9; simp (config := { decide := true }) [boolV]
  by_cases h10 : op = b ">="; · subst h10; simp (config := { decide := true }) [boolV]
  by_cases h11 : op = b "<="; · subst h11; simp (config := { decide := true }) [boolV]
  simp [h1, h2, h3, h4, h6, h7, h8, h9, h10, h11]

theorem agrees_strInfix (op : Bytes) (a c : Bytes) (line : Nat) : Agrees (strInfix op a c line) (strOp op a c) := by
  unfold strInfix strOp Agrees
  by_cases h1 : op = b "=="; · subst h1; simp (config := { decide := true }) [boolV]
  by_cases h2 : op = b "!="; · subst h2; simp (config := { decide := true }) [boolV]
  by_cases h3 : op = b "+"; · subst h3; simp (config := { decide := true })
  simp [h1, h2, h3]

theorem agrees_infixOp (op : Bytes) (l r : Val) (line : Nat) : Agrees (infixOp op l r line) (binOp op l r) := by
  unfold infixOp
  split
  · rename_i hty
    have : binOp op l r = none := by
      cases l <;> cases r <;> simp_all [binOp, Val.type]
    rw [this]; trivial
  · cases l <;> cases r <;> simp only [binOp] <;>
      first
        | exact agrees_intInfix _ _ _ _
        | exact agrees_floatInfix _ _ _ _
        | exact agrees_strInfix _ _ _ _
        | trivial

end Tw

namespace Tw
open TwSpec

theorem agrees_prefix_neg (r : Val) (line : Nat) :
    Agrees (prefixOp (b "-") r line) (match r with | .int v => some (.int (-v)) | .float v => some (.float (-v)) | _ => none) := by
  unfold prefixOp Agrees
  cases r <;> simp (config := { decide := true })

theorem agrees_prefix_not (r : Val) (line : Nat) :
    Agrees (prefixOp (b "!") r line) (match r with | .bool v => some (.bool (!v)) | .nil => some (.bool true) | _ => none) := by
  unfold prefixOp Agrees
  cases r <;> simp (config := { decide := true })

theorem agrees_postfix_inc (l : Val) (line : Nat) :
    Agrees (postfixOp (b "++") l line)
      (match l with | .int v => some (.int (v + 1)) | .float v => some (.float (v + 1.0)) | _ => none) := by
  unfold postfixOp Agrees
  cases l <;> simp (config := { decide := true })

theorem agrees_postfix_dec (l : Val) (line : Nat) :
    Agrees (postfixOp (b "--") l line)
      (match l with | .int v => some (.int (v - 1)) | .float v => some (.float (floatDec v)) | _ => none) := by
  unfold postfixOp Agrees
  cases l <;> simp (config := { decide := true })

theorem agrees_objIndex (kvs : List (Bytes × Val)) (k : Bytes) (line : Nat) : Agrees (objIndex kvs k line) (getProp kvs k) := by
  unfold objIndex getProp
  cases mapGet kvs k with
  | some v => simp [Agrees]
  | none =>
    simp only []
    by_cases hk : k.isEmpty = true
    · simp [hk, Agrees]
    · simp only [hk, Bool.false_eq_true, if_false]
      cases mapGet kvs (toUpper (List.take 1 k) ++ List.drop 1 k) <;> simp [Agrees]

mutual
/-- forget the tokens -/
def Expr.toS : Expr → SExpr
  | .bad => .nil
  | .ident _ n => .var n
  | .int _ v => .int v
  | .float _ v => .float v
  | .str _ v => .str v
  | .nil _ => .nil
  | .bool _ v => .bool v
  | .arr _ es => .arr (Expr.toSList es)
  | .obj _ ps => .obj (Expr.toSPairs ps)
  | .pre _ op r => if op == b "-" then .neg r.toS else .not r.toS
  | .inf _ op l r => .bin op l.toS r.toS
  | .post _ op l => if op == b "++" then .inc l.toS else .dec l.toS
  | .tern _ c a bb => .tern c.toS a.toS bb.toS
  | .index _ l i => .idx l.toS i.toS
  | .dot _ l k => .dot l.toS k
  | .call _ r fn args => .call r.toS fn (Expr.toSList args)
def Expr.toSList : List Expr → List SExpr
  | [] => []
  | e :: r => e.toS :: Expr.toSList r
def Expr.toSPairs : List (Bytes × Expr) → List (Bytes × SExpr)
  | [] => []
  | (k, e) :: r => (k, e.toS) :: Expr.toSPairs r
end

mutual
/-- what the parser produces: no nil node, the operators of the prefix / postfix nodes are the
    ones that have such parse functions, object literals have distinct keys -/
def Expr.wf : Expr → Prop
  | .bad => False
  | .ident _ _ | .int _ _ | .float _ _ | .str _ _ | .nil _ | .bool _ _ => True
  | .arr _ es => Expr.wfList es
  | .obj _ ps => Expr.wfPairs ps ∧ KeysDistinct ps
  | .pre _ op r => (op = b "-" ∨ op = b "!") ∧ r.wf
  | .inf _ _ l r => l.wf ∧ r.wf
  | .post _ op l => (op = b "++" ∨ op = b "--") ∧ l.wf
  | .tern _ c a bb => c.wf ∧ a.wf ∧ bb.wf
  | .index _ l i => l.wf ∧ i.wf
  | .dot _ l _ => l.wf
  | .call _ r _ args => r.wf ∧ Expr.wfList args
def Expr.wfList : List Expr → Prop
  | [] => True
  | e :: r => e.wf ∧ Expr.wfList r
def Expr.wfPairs : List (Bytes × Expr) → Prop
  | [] => True
  | (_, e) :: r => e.wf ∧ Expr.wfPairs r
end

end Tw

namespace Tw
open TwSpec

/-! ### pairs, sorting, duplicates -/

theorem sevalPairs_cons (env : Env) (k : Bytes) (e : SExpr) (r : List (Bytes × SExpr)) :
    sevalPairs env ((k, e) :: r) =
      match seval env e with
      | some v => (sevalPairs env r).map ((k, v) :: ·)
      | none => none := by
  rw [sevalPairs]
  cases seval env e <;> rfl

theorem sevalPairs_insert (env : Env) (k : Bytes) (e : SExpr) (l : List (Bytes × SExpr)) :
    sevalPairs env (insertByKey (k, e) l) =
      match seval env e, sevalPairs env l with
      | some v, some vs => some (insertByKey (k, v) vs)
      | _, _ => none := by
  induction l with
  | nil =>
    simp only [insertByKey, sevalPairs_cons]
    cases seval env e <;> simp [sevalPairs, insertByKey]
  | cons x r ih =>
    obtain ⟨k2, e2⟩ := x
    simp only [insertByKey]
    split
    · simp only [sevalPairs_cons]
      cases seval env e with
      | none => simp
      | some v =>
        cases seval env e2 with
        | none => simp
        | some v2 =>
          cases sevalPairs env r with
          | none => simp
          | some vs => simp [insertByKey, *]
    · rename_i hlt
      simp only [sevalPairs_cons, ih]
      cases seval env e2 with
      | none => cases seval env e <;> simp
      | some v2 =>
        cases seval env e with
        | none => simp
        | some v =>
          cases sevalPairs env r with
          | none => simp
          | some vs => simp [insertByKey, hlt]

theorem sevalPairs_sort (env : Env) (l : List (Bytes × SExpr)) :
    sevalPairs env (sortByKey l) = (sevalPairs env l).map sortByKey := by
  induction l with
  | nil => simp [sortByKey, sevalPairs]
  | cons x r ih =>
    obtain ⟨k, e⟩ := x
    have hs : sortByKey ((k, e) :: r) = insertByKey (k, e) (sortByKey r) := rfl
    rw [hs, sevalPairs_insert, ih, sevalPairs_cons]
    cases seval env e with
    | none => simp
    | some v =>
      cases sevalPairs env r with
      | none => simp
      | some vs => simp [sortByKey]

theorem toSPairs_insert (k : Bytes) (e : Expr) (l : List (Bytes × Expr)) :
    Expr.toSPairs (insertByKey (k, e) l) = insertByKey (k, e.toS) (Expr.toSPairs l) := by
  induction l with
  | nil => simp [insertByKey, Expr.toSPairs]
  | cons x r ih =>
    obtain ⟨k2, e2⟩ := x
    simp only [insertByKey, Expr.toSPairs]
    split <;> simp [Expr.toSPairs, ih]

theorem toSPairs_sort (l : List (Bytes × Expr)) : Expr.toSPairs (sortByKey l) = sortByKey (Expr.toSPairs l) := by
  induction l with
  | nil => simp [sortByKey, Expr.toSPairs]
  | cons x r ih =>
    obtain ⟨k, e⟩ := x
    have hs : sortByKey ((k, e) :: r) = insertByKey (k, e) (sortByKey r) := rfl
    have hs2 : sortByKey ((k, e.toS) :: Expr.toSPairs r) = insertByKey (k, e.toS) (sortByKey (Expr.toSPairs r)) := rfl
    rw [hs, toSPairs_insert, ih, Expr.toSPairs, hs2]

theorem sevalPairs_keys (env : Env) : ∀ (l : List (Bytes × Expr)) (vs : List (Bytes × Val)),
    sevalPairs env (Expr.toSPairs l) = some vs → vs.map Prod.fst = l.map Prod.fst
  | [], vs, h => by simp [Expr.toSPairs, sevalPairs] at h; simp [← h]
  | (k, e) :: r, vs, h => by
    simp only [Expr.toSPairs, sevalPairs_cons] at h
    cases hv : seval env e.toS with
    | none => simp [hv] at h
    | some v =>
      cases hr : sevalPairs env (Expr.toSPairs r) with
      | none => simp [hv, hr] at h
      | some vr =>
        simp [hv, hr] at h
        rw [← h]
        simp [sevalPairs_keys env r vr hr]

theorem keysDistinct_of_keys {α β} (l : List (Bytes × α)) (m : List (Bytes × β)) (h : m.map Prod.fst = l.map Prod.fst)
    (hd : KeysDistinct l) : KeysDistinct m := by
  unfold KeysDistinct at *
  have h1 : (l.map Prod.fst).Pairwise (· ≠ ·) := List.pairwise_map.mpr hd
  rw [← h] at h1
  exact List.pairwise_map.mp h1

theorem mapSet_fresh {α} (acc : List (Bytes × α)) (k : Bytes) (v : α) (h : ∀ a ∈ acc, a.1 ≠ k) :
    mapSet acc k v = acc ++ [(k, v)] := by
  induction acc with
  | nil => rfl
  | cons x r ih =>
    obtain ⟨k', v'⟩ := x
    have hne : (k' == k) = false := by simpa using h (k', v') List.mem_cons_self
    simp only [mapSet, hne, Bool.false_eq_true, if_false, List.cons_append]
    rw [ih (fun a ha => h a (List.mem_cons_of_mem _ ha))]

theorem dedupe_distinct {α} : ∀ (vs acc : List (Bytes × α)), KeysDistinct vs → (∀ x ∈ vs, ∀ a ∈ acc, a.1 ≠ x.1) →
    vs.foldl (fun m kv => mapSet m kv.1 kv.2) acc = acc ++ vs
  | [], acc, _, _ => by simp
  | x :: r, acc, hd, hfresh => by
    have hd' := List.pairwise_cons.mp hd
    simp only [List.foldl_cons]
    rw [mapSet_fresh acc x.1 x.2 (fun a ha => hfresh x List.mem_cons_self a ha)]
    rw [dedupe_distinct r (acc ++ [(x.1, x.2)]) hd'.2 ?_]
    · simp
    · intro y hy a ha
      rcases List.mem_append.mp ha with ha | ha
      · exact hfresh y (List.mem_cons_of_mem _ hy) a ha
      · rw [List.mem_singleton.mp ha]; exact hd'.1 y hy

theorem wfPairs_iff (ps : List (Bytes × Expr)) : Expr.wfPairs ps ↔ ∀ p ∈ ps, p.2.wf := by
  induction ps with
  | nil => simp [Expr.wfPairs]
  | cons x r ih => obtain ⟨k, e⟩ := x; simp [Expr.wfPairs, ih]

end Tw

namespace Tw
open TwSpec

theorem Agrees.oof' {α} (o : Option α) : Agrees (Res.oof : Res α) o := trivial

theorem sevalList_cons (env : Env) (e : SExpr) (r : List SExpr) :
    sevalList env (e :: r) = match seval env e with | some v => (sevalList env r).map (v :: ·) | none => none := by
  rw [sevalList]
  cases seval env e <;> rfl

/-- **the evaluator computes the denotational semantics**: wherever the model's evaluator returns
    a value it is the value `seval` assigns to the token-free tree, and wherever it returns an
    error `seval` assigns no value (expressions, expression lists, object-literal pairs) -/
theorem eval_sim : ∀ fuel : Nat,
    (∀ c env e, c.custom = [] → Expr.wf e → Agrees (evalExpr fuel c env e) (seval env e.toS)) ∧
    (∀ c env es, c.custom = [] → Expr.wfList es → Agrees (evalExprs fuel c env es) (sevalList env (Expr.toSList es))) ∧
    (∀ c env ps, c.custom = [] → Expr.wfPairs ps → Agrees (evalPairs fuel c env ps) (sevalPairs env (Expr.toSPairs ps))) := by
  intro fuel
  induction fuel with
  | zero => exact ⟨fun _ _ _ _ _ => trivial, fun _ _ _ _ _ => trivial, fun _ _ _ _ _ => trivial⟩
  | succ n ih =>
    obtain ⟨ihE, ihL, ihP⟩ := ih
    refine ⟨?_, ?_, ?_⟩
    · intro c env e hc hw
      cases e with
      | bad => simp [Expr.wf] at hw
      | ident t name =>
        simp only [evalExpr, Expr.toS, seval]
        cases env.get name <;> simp [Agrees]
      | int t v => simp [evalExpr, Expr.toS, seval, Agrees]
      | float t v => simp [evalExpr, Expr.toS, seval, Agrees]
      | str t v => simp [evalExpr, Expr.toS, seval, Agrees]
      | nil t => simp [evalExpr, Expr.toS, seval, Agrees]
      | bool t v => simp [evalExpr, Expr.toS, seval, Agrees]
      | arr t es =>
        have := ihL c env es hc (by simpa [Expr.wf] using hw)
        rw [evalExpr_arr]
        simp only [Expr.toS, seval]
        cases hr : evalExprs n c env es with
        | ok vs => rw [hr] at this; simp only [Agrees] at this ⊢; rw [this]; rfl
        | err a l as => rw [hr] at this; simp only [Agrees] at this ⊢; rw [this]; rfl
        | panic w => trivial
        | oof => trivial
      | obj t ps =>
        have hw' : Expr.wfPairs ps ∧ KeysDistinct ps := by simpa [Expr.wf] using hw
        have hws : Expr.wfPairs (sortByKey ps) := by
          rw [wfPairs_iff] at hw' ⊢
          intro p hp
          exact hw'.1 p ((sortByKey_perm ps).subset hp)
        have := ihP c env (sortByKey ps) hc hws
        rw [toSPairs_sort, sevalPairs_sort] at this
        rw [evalExpr_obj]
        simp only [Expr.toS, seval]
        cases hs : sevalPairs env (Expr.toSPairs ps) with
        | none =>
          rw [hs] at this
          cases hr : evalPairs n c env (sortByKey ps) with
          | ok kvs => rw [hr] at this; simp [Agrees] at this
          | err a l as => simp [Agrees]
          | panic w => trivial
          | oof => trivial
        | some vs =>
          rw [hs] at this
          have hkd : KeysDistinct vs := keysDistinct_of_keys ps vs (sevalPairs_keys env ps vs hs) hw'.2
          have hdd : vs.foldl (fun m kv => mapSet m kv.1 kv.2) [] = vs := by
            have := dedupe_distinct vs [] hkd (fun _ _ a ha => by cases ha)
            simpa using this
          cases hr : evalPairs n c env (sortByKey ps) with
          | ok kvs =>
            rw [hr] at this
            simp only [Agrees, Option.map_some, Option.some.injEq] at this ⊢
            rw [hdd, this]
          | err a l as => rw [hr] at this; simp [Agrees] at this
          | panic w => trivial
          | oof => trivial
      | pre t op r =>
        have hw' : (op = b "-" ∨ op = b "!") ∧ r.wf := by simpa [Expr.wf] using hw
        have := ihE c env r hc hw'.2
        rw [evalExpr_pre]
        rcases hw'.1 with hop | hop
        · subst hop
          simp only [Expr.toS, beq_self_eq_true, if_true, seval]
          cases hr : evalExpr n c env r with
          | ok v =>
            rw [hr] at this; simp only [Agrees] at this
            rw [this]; cases v <;> exact agrees_prefix_neg _ _
          | err a l as => rw [hr] at this; simp only [Agrees] at this ⊢; rw [this]
          | panic w => trivial
          | oof => trivial
        · subst hop
          have hne : (b "!" == b "-") = false := by decide
          simp only [Expr.toS, hne, Bool.false_eq_true, if_false, seval]
          cases hr : evalExpr n c env r with
          | ok v =>
            rw [hr] at this; simp only [Agrees] at this
            rw [this]; cases v <;> exact agrees_prefix_not _ _
          | err a l as => rw [hr] at this; simp only [Agrees] at this ⊢; rw [this]
          | panic w => trivial
          | oof => trivial
      | post t op l =>
        have hw' : (op = b "++" ∨ op = b "--") ∧ l.wf := by simpa [Expr.wf] using hw
        have := ihE c env l hc hw'.2
        rw [evalExpr_post]
        rcases hw'.1 with hop | hop
        · subst hop
          simp only [Expr.toS, beq_self_eq_true, if_true, seval]
          cases hr : evalExpr n c env l with
          | ok v =>
            rw [hr] at this; simp only [Agrees] at this
            rw [this]; cases v <;> exact agrees_postfix_inc _ _
          | err a l as => rw [hr] at this; simp only [Agrees] at this ⊢; rw [this]
          | panic w => trivial
          | oof => trivial
        · subst hop
          have hne : (b "--" == b "++") = false := by decide
          simp only [Expr.toS, hne, Bool.false_eq_true, if_false, seval]
          cases hr : evalExpr n c env l with
          | ok v =>
            rw [hr] at this; simp only [Agrees] at this
            rw [this]; cases v <;> exact agrees_postfix_dec _ _
          | err a l as => rw [hr] at this; simp only [Agrees] at this ⊢; rw [this]
          | panic w => trivial
          | oof => trivial
      | inf t op l r =>
        have hw' : l.wf ∧ r.wf := by simpa [Expr.wf] using hw
        have h1 := ihE c env l hc hw'.1
        have h2 := ihE c env r hc hw'.2
        rw [evalExpr_inf]
        simp only [Expr.toS, seval]
        cases hl : evalExpr n c env l with
        | ok lv =>
          rw [hl] at h1; simp only [Agrees] at h1
          rw [h1]
          cases hr : evalExpr n c env r with
          | ok rv =>
            rw [hr] at h2; simp only [Agrees] at h2
            rw [h2]; exact agrees_infixOp op lv rv _
          | err a l as => rw [hr] at h2; simp only [Agrees] at h2 ⊢; rw [h2]
          | panic w => trivial
          | oof => trivial
        | err a l2 as => rw [hl] at h1; simp only [Agrees] at h1 ⊢; rw [h1]
        | panic w => trivial
        | oof => trivial
      | tern t cnd a bb =>
        have hw' : cnd.wf ∧ a.wf ∧ bb.wf := by simpa [Expr.wf] using hw
        have h1 := ihE c env cnd hc hw'.1
        rw [evalExpr_tern]
        simp only [Expr.toS, seval]
        cases hl : evalExpr n c env cnd with
        | ok cv =>
          rw [hl] at h1; simp only [Agrees] at h1
          rw [h1]
          simp only []
          split
          · exact ihE c env a hc hw'.2.1
          · exact ihE c env bb hc hw'.2.2
        | err a2 l2 as => rw [hl] at h1; simp only [Agrees] at h1 ⊢; rw [h1]
        | panic w => trivial
        | oof => trivial
      | index t l i =>
        have hw' : l.wf ∧ i.wf := by simpa [Expr.wf] using hw
        have h1 := ihE c env l hc hw'.1
        have h2 := ihE c env i hc hw'.2
        rw [evalExpr_index]
        simp only [Expr.toS, seval]
        cases hl : evalExpr n c env l with
        | ok lv =>
          rw [hl] at h1; simp only [Agrees] at h1
          rw [h1]
          cases hr : evalExpr n c env i with
          | ok iv =>
            rw [hr] at h2; simp only [Agrees] at h2
            rw [h2]
            cases lv with
            | arr xs => cases iv <;> simp [Agrees, arrIndex]
            | obj kvs =>
              cases iv with
              | str k => exact agrees_objIndex kvs k _
              | _ => simp [Agrees]
            | _ => simp [Agrees]
          | err a l2 as =>
            rw [hr] at h2; simp only [Agrees] at h2 ⊢
            rw [h2]
            cases lv <;> simp
          | panic w => trivial
          | oof => trivial
        | err a l2 as => rw [hl] at h1; simp only [Agrees] at h1 ⊢; rw [h1]
        | panic w => trivial
        | oof => trivial
      | dot t l key =>
        have hw' : l.wf := by simpa [Expr.wf] using hw
        have h1 := ihE c env l hc hw'
        rw [evalExpr_dot]
        simp only [Expr.toS, seval]
        cases hl : evalExpr n c env l with
        | ok lv =>
          rw [hl] at h1; simp only [Agrees] at h1
          rw [h1]
          cases lv with
          | obj kvs => exact agrees_objIndex kvs key _
          | _ => simp [Agrees]
        | err a l2 as => rw [hl] at h1; simp only [Agrees] at h1 ⊢; rw [h1]
        | panic w => trivial
        | oof => trivial
      | call t recv fn args =>
        have hw' : recv.wf ∧ Expr.wfList args := by simpa [Expr.wf] using hw
        have h1 := ihE c env recv hc hw'.1
        have h2 := ihL c env args hc hw'.2
        rw [evalExpr_call]
        simp only [Expr.toS, seval]
        cases hl : evalExpr n c env recv with
        | ok rv =>
          rw [hl] at h1; simp only [Agrees] at h1
          rw [h1]
          simp only []
          split
          · simp [Agrees]
          · cases hr : evalExprs n c env args with
            | ok avs =>
              rw [hr] at h2; simp only [Agrees] at h2
              rw [h2]
              simp only []
              cases hcb : callBuiltin rv fn avs with
              | none =>
                have : lookupCustom c rv.type fn = none := by simp [lookupCustom, hc]
                simp [this, Agrees]
              | some res =>
                cases res with
                | ok v => simp [Agrees]
                | error e => obtain ⟨code, eargs⟩ := e; simp [Agrees]
            | err a l2 as => rw [hr] at h2; simp only [Agrees] at h2 ⊢; rw [h2]
            | panic w => trivial
            | oof => trivial
        | err a l2 as => rw [hl] at h1; simp only [Agrees] at h1 ⊢; rw [h1]
        | panic w => trivial
        | oof => trivial
    · intro c env es hc hw
      cases es with
      | nil => simp [evalExprs, Expr.toSList, sevalList, Agrees]
      | cons e r =>
        have hw' : e.wf ∧ Expr.wfList r := by simpa [Expr.wfList] using hw
        have h1 := ihE c env e hc hw'.1
        have h2 := ihL c env r hc hw'.2
        rw [evalExprs_cons]
        simp only [Expr.toSList, sevalList_cons]
        cases hl : evalExpr n c env e with
        | ok v =>
          rw [hl] at h1; simp only [Agrees] at h1
          rw [h1]
          cases hr : evalExprs n c env r with
          | ok vs => rw [hr] at h2; simp only [Agrees] at h2 ⊢; rw [h2]; rfl
          | err a l2 as => rw [hr] at h2; simp only [Agrees] at h2 ⊢; rw [h2]; rfl
          | panic w => trivial
          | oof => trivial
        | err a l2 as => rw [hl] at h1; simp only [Agrees] at h1 ⊢; rw [h1]
        | panic w => trivial
        | oof => trivial
    · intro c env ps hc hw
      cases ps with
      | nil => simp [evalPairs, Expr.toSPairs, sevalPairs, Agrees]
      | cons p r =>
        obtain ⟨k, e⟩ := p
        have hw' : e.wf ∧ Expr.wfPairs r := by simpa [Expr.wfPairs] using hw
        have h1 := ihE c env e hc hw'.1
        have h2 := ihP c env r hc hw'.2
        rw [evalPairs_cons]
        simp only [Expr.toSPairs, sevalPairs_cons]
        cases hl : evalExpr n c env e with
        | ok v =>
          rw [hl] at h1; simp only [Agrees] at h1
          rw [h1]
          cases hr : evalPairs n c env r with
          | ok vs => rw [hr] at h2; simp only [Agrees] at h2 ⊢; rw [h2]; rfl
          | err a l2 as => rw [hr] at h2; simp only [Agrees] at h2 ⊢; rw [h2]; rfl
          | panic w => trivial
          | oof => trivial
        | err a l2 as => rw [hl] at h1; simp only [Agrees] at h1 ⊢; rw [h1]
        | panic w => trivial
        | oof => trivial

end Tw
