/-
  TwProofs.Lemmas.NoPanic — evaluation never yields the `panic` outcome on programs without
  `bad` (Go nil) nodes: every unchecked Go operation of the pinned revision is guarded (C09).
-/
import TwProofs.Lemmas.EvalStep
import TwProofs.Lemmas.EvalMono
import TwProofs.Lemmas.Sort

namespace Tw

mutual
def Expr.badFree : Expr → Bool
  | .bad => false
  | .ident _ _ | .int _ _ | .float _ _ | .str _ _ | .nil _ | .bool _ _ => true
  | .arr _ es => Expr.badFreeList es
  | .obj _ ps => Expr.badFreePairs ps
  | .pre _ _ r => r.badFree
  | .inf _ _ l r => l.badFree && r.badFree
  | .post _ _ l => l.badFree
  | .tern _ c a b => c.badFree && a.badFree && b.badFree
  | .index _ l i => l.badFree && i.badFree
  | .dot _ l _ => l.badFree
  | .call _ r _ args => r.badFree && Expr.badFreeList args
def Expr.badFreeList : List Expr → Bool
  | [] => true
  | e :: r => e.badFree && Expr.badFreeList r
def Expr.badFreePairs : List (Bytes × Expr) → Bool
  | [] => true
  | (_, e) :: r => e.badFree && Expr.badFreePairs r
end

def optBF {α} (f : α → Bool) : Option α → Bool
  | none => true
  | some a => f a

mutual
def Stmt.badFree : Stmt → Bool
  | .bad => false
  | .html _ | .use _ _ | .reserve _ _ _ | .brk _ | .cont _ => true
  | .expr _ e => e.badFree
  | .assign _ _ e => e.badFree
  | .ifS _ c cons alts alt => c.badFree && Stmt.badFreeList cons && Stmt.badFreeAlts alts && Stmt.badFreeOpt alt
  | .forS _ init cnd post body alt =>
    Stmt.badFreeOptS init && optBF Expr.badFree cnd && Stmt.badFreeOptS post && Stmt.badFreeList body && Stmt.badFreeOpt alt
  | .eachS _ _ arr body alt => arr.badFree && Stmt.badFreeList body && Stmt.badFreeOpt alt
  | .insert _ _ arg block => optBF Expr.badFree arg && Stmt.badFreeOpt block
  | .breakIf _ c => c.badFree
  | .continueIf _ c => c.badFree
  | .component _ _ arg _ => optBF Expr.badFreePairs arg
  | .slot _ _ body => Stmt.badFreeOpt body
  | .dump _ args => Expr.badFreeList args
def Stmt.badFreeList : List Stmt → Bool
  | [] => true
  | s :: r => s.badFree && Stmt.badFreeList r
def Stmt.badFreeOpt : Option (List Stmt) → Bool
  | none => true
  | some ss => Stmt.badFreeList ss
def Stmt.badFreeOptS : Option Stmt → Bool
  | none => true
  | some s => s.badFree
def Stmt.badFreeAlts : List (Expr × List Stmt) → Bool
  | [] => true
  | (e, ss) :: r => e.badFree && Stmt.badFreeList ss && Stmt.badFreeAlts r
end

end Tw

namespace Tw

/-- the result is not the `panic` outcome -/
def NP {α} (r : Res α) : Prop := r.isPanic = false

theorem NP.ok {α} (a : α) : NP (Res.ok a) := rfl
theorem NP.err {α} (e : String) (l : Nat) (as : List Bytes) : NP (Res.err e l as : Res α) := rfl
theorem NP.oof {α} : NP (Res.oof : Res α) := rfl

theorem NP.bind {α β} {r : Res α} {f : α → Res β} (h : NP r) (hf : ∀ a, NP (f a)) : NP (r.bind f) := by
  cases r with
  | ok a => exact hf a
  | err e l as => rfl
  | panic w => exact absurd h (by simp [NP, Res.isPanic])
  | oof => rfl

theorem np_intInfix (op : Bytes) (l r : Int64) (line : Nat) : NP (intInfix op l r line) := by
  unfold intInfix
  repeat' split
  all_goals rfl

theorem np_floatInfix (op : Bytes) (l r : Float) (line : Nat) : NP (floatInfix op l r line) := by
  unfold floatInfix
  repeat' split
  all_goals rfl

theorem np_strInfix (op : Bytes) (l r : Bytes) (line : Nat) : NP (strInfix op l r line) := by
  unfold strInfix
  repeat' split
  all_goals rfl

theorem np_infixOp (op : Bytes) (l r : Val) (line : Nat) : NP (infixOp op l r line) := by
  unfold infixOp
  split
  · rfl
  · split
    · exact np_intInfix _ _ _ _
    · exact np_floatInfix _ _ _ _
    · exact np_strInfix _ _ _ _
    · rfl

theorem np_prefixOp (op : Bytes) (r : Val) (line : Nat) : NP (prefixOp op r line) := by
  unfold prefixOp
  repeat' split
  all_goals rfl

theorem np_postfixOp (op : Bytes) (l : Val) (line : Nat) : NP (postfixOp op l line) := by
  unfold postfixOp
  repeat' split
  all_goals rfl

theorem np_objIndex (kvs : List (Bytes × Val)) (idx : Bytes) (line : Nat) : NP (objIndex kvs idx line) := by
  unfold objIndex
  repeat' split
  all_goals rfl

/-- expressions without `bad` nodes never panic, for every fuel, context and environment -/
theorem np_expr : ∀ fuel : Nat,
    (∀ c env e, Expr.badFree e = true → NP (evalExpr fuel c env e)) ∧
    (∀ c env es, Expr.badFreeList es = true → NP (evalExprs fuel c env es)) ∧
    (∀ c env ps, Expr.badFreePairs ps = true → NP (evalPairs fuel c env ps)) := by
  intro fuel
  induction fuel with
  | zero => exact ⟨fun _ _ _ _ => rfl, fun _ _ _ _ => rfl, fun _ _ _ _ => rfl⟩
  | succ n ih =>
    obtain ⟨ihE, ihL, ihP⟩ := ih
    refine ⟨?_, ?_, ?_⟩
    · intro c env e hb
      cases e with
      | bad => simp [Expr.badFree] at hb
      | ident t name => simp only [evalExpr]; split <;> rfl
      | int t v => rfl
      | float t v => rfl
      | str t v => rfl
      | nil t => rfl
      | bool t v => rfl
      | arr t elems =>
        rw [evalExpr_arr]
        have := ihL c env elems (by simpa [Expr.badFree] using hb)
        cases h : evalExprs n c env elems with
        | ok vs => rfl
        | err a l as => rfl
        | panic w => rw [h] at this; exact absurd this (by simp [NP, Res.isPanic])
        | oof => rfl
      | obj t pairs =>
        rw [evalExpr_obj]
        have hbf : Expr.badFreePairs (sortByKey pairs) = true := by
          have hb' : Expr.badFreePairs pairs = true := by simpa [Expr.badFree] using hb
          -- sorting permutes the pairs; bad-freeness is a property of the members
          have mem : ∀ (l : List (Bytes × Expr)), Expr.badFreePairs l = true ↔ ∀ p ∈ l, p.2.badFree = true := by
            intro l
            induction l with
            | nil => simp [Expr.badFreePairs]
            | cons p r ihl => obtain ⟨k, e⟩ := p; simp [Expr.badFreePairs, ihl]
          rw [mem] at hb' ⊢
          intro p hp
          exact hb' p ((sortByKey_perm pairs).subset hp)
        have := ihP c env (sortByKey pairs) hbf
        cases h : evalPairs n c env (sortByKey pairs) with
        | ok vs => rfl
        | err a l as => rfl
        | panic w => rw [h] at this; exact absurd this (by simp [NP, Res.isPanic])
        | oof => rfl
      | pre t op r =>
        rw [evalExpr_pre]
        have := ihE c env r (by simpa [Expr.badFree] using hb)
        cases h : evalExpr n c env r with
        | ok v => exact np_prefixOp _ _ _
        | err a l as => rfl
        | panic w => rw [h] at this; exact absurd this (by simp [NP, Res.isPanic])
        | oof => rfl
      | post t op l =>
        rw [evalExpr_post]
        have := ihE c env l (by simpa [Expr.badFree] using hb)
        cases h : evalExpr n c env l with
        | ok v => exact np_postfixOp _ _ _
        | err a l as => rfl
        | panic w => rw [h] at this; exact absurd this (by simp [NP, Res.isPanic])
        | oof => rfl
      | dot t l key =>
        rw [evalExpr_dot]
        have := ihE c env l (by simpa [Expr.badFree] using hb)
        cases h : evalExpr n c env l with
        | ok v => cases v <;> first | exact np_objIndex _ _ _ | rfl
        | err a l as => rfl
        | panic w => rw [h] at this; exact absurd this (by simp [NP, Res.isPanic])
        | oof => rfl
      | tern t cnd a bb =>
        rw [evalExpr_tern]
        have hb' : (cnd.badFree = true ∧ a.badFree = true) ∧ bb.badFree = true := by simpa [Expr.badFree] using hb
        have := ihE c env cnd hb'.1.1
        cases h : evalExpr n c env cnd with
        | ok v =>
          simp only []
          split
          · exact ihE c env a hb'.1.2
          · exact ihE c env bb hb'.2
        | err a l as => rfl
        | panic w => rw [h] at this; exact absurd this (by simp [NP, Res.isPanic])
        | oof => rfl
      | inf t op l r =>
        rw [evalExpr_inf]
        have hb' : l.badFree = true ∧ r.badFree = true := by simpa [Expr.badFree] using hb
        have h1 := ihE c env l hb'.1
        cases hl : evalExpr n c env l with
        | ok lv =>
          simp only []
          have h2 := ihE c env r hb'.2
          cases hr : evalExpr n c env r with
          | ok rv => exact np_infixOp _ _ _ _
          | err a l as => rfl
          | panic w => rw [hr] at h2; exact absurd h2 (by simp [NP, Res.isPanic])
          | oof => rfl
        | err a l as => rfl
        | panic w => rw [hl] at h1; exact absurd h1 (by simp [NP, Res.isPanic])
        | oof => rfl
      | index t l i =>
        rw [evalExpr_index]
        have hb' : l.badFree = true ∧ i.badFree = true := by simpa [Expr.badFree] using hb
        have h1 := ihE c env l hb'.1
        cases hl : evalExpr n c env l with
        | ok lv =>
          simp only []
          have h2 := ihE c env i hb'.2
          cases hr : evalExpr n c env i with
          | ok iv =>
            simp only []
            split
            · rfl
            · exact np_objIndex _ _ _
            · rfl
          | err a l as => rfl
          | panic w => rw [hr] at h2; exact absurd h2 (by simp [NP, Res.isPanic])
          | oof => rfl
        | err a l as => rfl
        | panic w => rw [hl] at h1; exact absurd h1 (by simp [NP, Res.isPanic])
        | oof => rfl
      | call t recv fn args =>
        rw [evalExpr_call]
        have hb' : recv.badFree = true ∧ Expr.badFreeList args = true := by simpa [Expr.badFree] using hb
        have h1 := ihE c env recv hb'.1
        cases hl : evalExpr n c env recv with
        | ok rv =>
          simp only []
          split
          · rfl
          · have h2 := ihL c env args hb'.2
            cases hr : evalExprs n c env args with
            | ok avs =>
              simp only []
              split
              · rfl
              · rfl
              · split <;> rfl
            | err a l as => rfl
            | panic w => rw [hr] at h2; exact absurd h2 (by simp [NP, Res.isPanic])
            | oof => rfl
        | err a l as => rfl
        | panic w => rw [hl] at h1; exact absurd h1 (by simp [NP, Res.isPanic])
        | oof => rfl
    · intro c env es hb
      cases es with
      | nil => rfl
      | cons e r =>
        rw [evalExprs_cons]
        have hb' : e.badFree = true ∧ Expr.badFreeList r = true := by simpa [Expr.badFreeList] using hb
        have h1 := ihE c env e hb'.1
        cases he : evalExpr n c env e with
        | ok v =>
          simp only []
          have h2 := ihL c env r hb'.2
          cases hr : evalExprs n c env r with
          | ok vs => rfl
          | err a l as => rfl
          | panic w => rw [hr] at h2; exact absurd h2 (by simp [NP, Res.isPanic])
          | oof => rfl
        | err a l as => rfl
        | panic w => rw [he] at h1; exact absurd h1 (by simp [NP, Res.isPanic])
        | oof => rfl
    · intro c env ps hb
      cases ps with
      | nil => rfl
      | cons p r =>
        obtain ⟨k, e⟩ := p
        rw [evalPairs_cons]
        have hb' : e.badFree = true ∧ Expr.badFreePairs r = true := by simpa [Expr.badFreePairs] using hb
        have h1 := ihE c env e hb'.1
        cases he : evalExpr n c env e with
        | ok v =>
          simp only []
          have h2 := ihP c env r hb'.2
          cases hr : evalPairs n c env r with
          | ok vs => rfl
          | err a l as => rfl
          | panic w => rw [hr] at h2; exact absurd h2 (by simp [NP, Res.isPanic])
          | oof => rfl
        | err a l as => rfl
        | panic w => rw [he] at h1; exact absurd h1 (by simp [NP, Res.isPanic])
        | oof => rfl

end Tw

namespace Tw

def InsertDef.badFree (i : InsertDef) : Bool := optBF Expr.badFree i.arg && Stmt.badFreeOpt i.block

/-- everything the loader attached to the page is free of `bad` nodes -/
def Ctx.badFree (c : Ctx) : Bool :=
  Stmt.badFreeOpt c.layout && c.inserts.all (fun p => p.2.badFree) && c.comps.all (fun p => Stmt.badFreeList p.2)

theorem lookupNat_mem {α} (m : List (Nat × α)) (k : Nat) (v : α) (h : lookupNat m k = some v) : ∃ p ∈ m, p.2 = v := by
  unfold lookupNat at h
  cases hf : m.find? (fun p => p.1 == k) with
  | none => simp [hf] at h
  | some p => simp [hf] at h; exact ⟨p, List.mem_of_find?_eq_some hf, h⟩

theorem np_setVar (env : Env) (k : Bytes) (v : Val) (line : Nat) : NP (setVar env k v line) := by
  unfold setVar; split <;> rfl

theorem np_bindArgs : ∀ (kvs : List (Bytes × Val)) (env : Env) (line : Nat), NP (bindArgs env kvs line)
  | [], _, _ => rfl
  | (k, v) :: r, env, line => by
    unfold bindArgs
    split
    · exact np_bindArgs r _ line
    · rfl

theorem np_condTruth {r : Res Val} (h : NP r) : NP (condTruth r) := NP.bind h fun _ => rfl

/-- the functions `k` never panic on `bad`-free arguments in a `bad`-free context -/
structure KNP (k : Callees) : Prop where
  expr : ∀ c env e, Expr.badFree e = true → NP (k.expr c env e)
  exprs : ∀ c env es, Expr.badFreeList es = true → NP (k.exprs c env es)
  pairs : ∀ c env ps, Expr.badFreePairs ps = true → NP (k.pairs c env ps)
  stmt : ∀ c env s, Ctx.badFree c = true → Stmt.badFree s = true → NP (k.stmt c env s)
  elseIfs : ∀ c env a b, Ctx.badFree c = true → Stmt.badFreeAlts a = true → Stmt.badFreeOpt b = true → NP (k.elseIfs c env a b)
  block : ∀ c env ss, Ctx.badFree c = true → Stmt.badFreeList ss = true → NP (k.block c env ss)
  prog : ∀ c env ss acc, Ctx.badFree c = true → Stmt.badFreeList ss = true → NP (k.prog c env ss acc)
  forL : ∀ c env t i cn p b acc, Ctx.badFree c = true → Stmt.badFreeOptS i = true → optBF Expr.badFree cn = true →
    Stmt.badFreeOptS p = true → Stmt.badFreeList b = true → NP (k.forL c env t i cn p b acc)
  eachL : ∀ c env t v b xs i n acc, Ctx.badFree c = true → Stmt.badFreeList b = true → NP (k.eachL c env t v b xs i n acc)

theorem stmtBody_np {k : Callees} (h : KNP k) (c : Ctx) (env : Env) (s : Stmt) (hc : Ctx.badFree c = true)
    (hs : Stmt.badFree s = true) : NP (stmtBody k c env s) := by
  have hctx : Stmt.badFreeOpt c.layout = true ∧ (c.inserts.all fun p => p.2.badFree) = true ∧
      (c.comps.all fun p => Stmt.badFreeList p.2) = true := by
    simpa [Ctx.badFree, Bool.and_assoc] using hc
  cases s with
  | bad => simp [Stmt.badFree] at hs
  | html t => rfl
  | expr t e => exact NP.bind (h.expr _ _ _ (by simpa [Stmt.badFree] using hs)) fun _ => rfl
  | assign t name e =>
    exact NP.bind (h.expr _ _ _ (by simpa [Stmt.badFree] using hs)) fun _ => NP.bind (np_setVar _ _ _ _) fun _ => rfl
  | ifS t cnd cons alts alt =>
    have hb : ((cnd.badFree = true ∧ Stmt.badFreeList cons = true) ∧ Stmt.badFreeAlts alts = true) ∧ Stmt.badFreeOpt alt = true := by
      simpa [Stmt.badFree] using hs
    refine NP.bind (h.expr _ _ _ hb.1.1.1) fun v => ?_
    try dsimp only
    split
    · exact NP.bind (h.block _ _ _ hc hb.1.1.2) fun _ => rfl
    · exact h.elseIfs _ _ _ _ hc hb.1.2 hb.2
  | forS t init cnd post body alt =>
    have hb : (((Stmt.badFreeOptS init = true ∧ optBF Expr.badFree cnd = true) ∧ Stmt.badFreeOptS post = true) ∧
        Stmt.badFreeList body = true) ∧ Stmt.badFreeOpt alt = true := by simpa [Stmt.badFree] using hs
    simp only [stmtBody]
    refine NP.bind ?_ fun env1 => NP.bind ?_ fun entry => ?_
    · cases init with
      | none => rfl
      | some i => exact NP.bind (h.stmt _ _ _ hc (by simpa [Stmt.badFreeOptS] using hb.1.1.1.1)) fun _ => rfl
    · cases cnd with
      | none => rfl
      | some ce => exact np_condTruth (h.expr _ _ _ (by simpa [optBF] using hb.1.1.1.2))
    · split
      · exact NP.bind (h.forL _ _ _ _ _ _ _ _ hc hb.1.1.1.1 hb.1.1.1.2 hb.1.1.2 hb.1.2) fun _ => rfl
      · cases alt with
        | none => rfl
        | some ab => exact NP.bind (h.block _ _ _ hc (by simpa [Stmt.badFreeOpt] using hb.2)) fun _ => rfl
  | eachS t var arrE body alt =>
    have hb : (arrE.badFree = true ∧ Stmt.badFreeList body = true) ∧ Stmt.badFreeOpt alt = true := by
      simpa [Stmt.badFree] using hs
    simp only [stmtBody]
    refine NP.bind (h.expr _ _ _ hb.1.1) fun av => ?_
    cases av with
    | arr xs =>
      try dsimp only
      split
      · cases alt with
        | none => rfl
        | some ab => exact NP.bind (h.block _ _ _ hc (by simpa [Stmt.badFreeOpt] using hb.2)) fun _ => rfl
      · exact NP.bind (h.eachL _ _ _ _ _ _ _ _ _ hc hb.1.2) fun _ => rfl
    | _ => rfl
  | use t name =>
    simp only [stmtBody]
    cases hl : c.layout with
    | none => rfl
    | some prog =>
      try dsimp only
      split
      · rfl
      · exact NP.bind (h.prog _ _ _ _ hc (by rw [hl] at hctx; simpa [Stmt.badFreeOpt] using hctx.1)) fun _ => rfl
  | reserve t name rid =>
    simp only [stmtBody]
    cases hl : lookupNat c.inserts rid with
    | none => rfl
    | some ins =>
      obtain ⟨p, hp, hp2⟩ := lookupNat_mem _ _ _ hl
      have hins : ins.badFree = true := by
        have := List.all_eq_true.mp hctx.2.1 p hp
        rw [← hp2]; exact this
      have hins' : optBF Expr.badFree ins.arg = true ∧ Stmt.badFreeOpt ins.block = true := by
        simpa [InsertDef.badFree] using hins
      try dsimp only
      cases hb : ins.block with
      | some blk => exact NP.bind (h.block _ _ _ hc (by rw [hb] at hins'; simpa [Stmt.badFreeOpt] using hins'.2)) fun _ => rfl
      | none =>
        try dsimp only
        cases ha : ins.arg with
        | none => rfl
        | some ae => exact NP.bind (h.expr _ _ _ (by rw [ha] at hins'; simpa [optBF] using hins'.1)) fun _ => rfl
  | insert t name arg block => rfl
  | breakIf t cnd => exact NP.bind (h.expr _ _ _ (by simpa [Stmt.badFree] using hs)) fun _ => rfl
  | continueIf t cnd => exact NP.bind (h.expr _ _ _ (by simpa [Stmt.badFree] using hs)) fun _ => rfl
  | component t name arg cid =>
    simp only [stmtBody]
    cases hl : lookupNat c.comps cid with
    | none => rfl
    | some prog =>
      obtain ⟨p, hp, hp2⟩ := lookupNat_mem _ _ _ hl
      have hprog : Stmt.badFreeList prog = true := by
        have := List.all_eq_true.mp hctx.2.2 p hp
        rw [← hp2]; exact this
      try dsimp only
      refine NP.bind ?_ fun kvs => NP.bind (np_bindArgs _ _ _) fun env1 => NP.bind (h.prog _ _ _ _ hc hprog) fun _ => rfl
      cases arg with
      | none => rfl
      | some pairs =>
        have hb : Expr.badFreePairs pairs = true := by simpa [Stmt.badFree, optBF] using hs
        have mem : ∀ (l : List (Bytes × Expr)), Expr.badFreePairs l = true ↔ ∀ p ∈ l, p.2.badFree = true := by
          intro l
          induction l with
          | nil => simp [Expr.badFreePairs]
          | cons p r ihl => obtain ⟨k, e⟩ := p; simp [Expr.badFreePairs, ihl]
        apply h.pairs
        rw [mem] at hb ⊢
        intro p hp
        exact hb p ((sortByKey_perm pairs).subset hp)
  | slot t name body =>
    simp only [stmtBody]
    cases body with
    | none => rfl
    | some blk => exact NP.bind (h.block _ _ _ hc (by simpa [Stmt.badFree, Stmt.badFreeOpt] using hs)) fun _ => rfl
  | dump t args =>
    simp only [stmtBody]
    have := h.exprs c env args (by simpa [Stmt.badFree] using hs)
    cases he : k.exprs c env args with
    | ok vs => rfl
    | err a l as => rfl
    | panic w => rw [he] at this; exact absurd this (by simp [NP, Res.isPanic])
    | oof => rfl
  | brk t => rfl
  | cont t => rfl

theorem elseIfsBody_np {k : Callees} (h : KNP k) (c : Ctx) (env : Env) (alts : List (Expr × List Stmt))
    (alt : Option (List Stmt)) (hc : Ctx.badFree c = true) (ha : Stmt.badFreeAlts alts = true) (hb : Stmt.badFreeOpt alt = true) :
    NP (elseIfsBody k c env alts alt) := by
  cases alts with
  | nil =>
    cases alt with
    | none => rfl
    | some ab => exact NP.bind (h.block _ _ _ hc (by simpa [Stmt.badFreeOpt] using hb)) fun _ => rfl
  | cons p rest =>
    obtain ⟨ce, body⟩ := p
    have ha' : (ce.badFree = true ∧ Stmt.badFreeList body = true) ∧ Stmt.badFreeAlts rest = true := by
      simpa [Stmt.badFreeAlts] using ha
    refine NP.bind (h.expr _ _ _ ha'.1.1) fun v => ?_
    try dsimp only
    split
    · exact NP.bind (h.block _ _ _ hc ha'.1.2) fun _ => rfl
    · exact h.elseIfs _ _ _ _ hc ha'.2 hb

theorem blockBody_np {k : Callees} (h : KNP k) (c : Ctx) (env : Env) (ss : List Stmt) (hc : Ctx.badFree c = true)
    (hs : Stmt.badFreeList ss = true) : NP (blockBody k c env ss) := by
  cases ss with
  | nil => rfl
  | cons s r =>
    have hs' : s.badFree = true ∧ Stmt.badFreeList r = true := by simpa [Stmt.badFreeList] using hs
    refine NP.bind (h.stmt _ _ _ hc hs'.1) fun r1 => ?_
    try dsimp only
    split
    · rfl
    · exact NP.bind (h.block _ _ _ hc hs'.2) fun _ => rfl

theorem progBody_np {k : Callees} (h : KNP k) (c : Ctx) (env : Env) (ss : List Stmt) (acc : Bytes)
    (hc : Ctx.badFree c = true) (hs : Stmt.badFreeList ss = true) : NP (progBody k c env ss acc) := by
  cases ss with
  | nil => rfl
  | cons s r =>
    have hs' : s.badFree = true ∧ Stmt.badFreeList r = true := by simpa [Stmt.badFreeList] using hs
    exact NP.bind (h.stmt _ _ _ hc hs'.1) fun _ => h.prog _ _ _ _ hc hs'.2

theorem forBody_np {k : Callees} (h : KNP k) (c : Ctx) (env : Env) (t : Token) (init : Option Stmt) (cnd : Option Expr)
    (post : Option Stmt) (body : List Stmt) (acc : Bytes) (hc : Ctx.badFree c = true) (hi : Stmt.badFreeOptS init = true)
    (hcn : optBF Expr.badFree cnd = true) (hp : Stmt.badFreeOptS post = true) (hb : Stmt.badFreeList body = true) :
    NP (forBody k c env t init cnd post body acc) := by
  simp only [forBody]
  refine NP.bind ?_ fun go => ?_
  · cases cnd with
    | none => rfl
    | some ce => exact np_condTruth (h.expr _ _ _ (by simpa [optBF] using hcn))
  · split
    · rfl
    · refine NP.bind (h.block _ _ _ hc hb) fun r => ?_
      try dsimp only
      split
      · rfl
      · cases post with
        | none => exact h.forL _ _ _ _ _ _ _ _ hc hi hcn hp hb
        | some ps =>
          have hps : ps.badFree = true := by simpa [Stmt.badFreeOptS] using hp
          cases ps with
          | expr t2 pe =>
            refine NP.bind (h.expr _ _ _ (by simpa [Stmt.badFree] using hps)) fun pv => ?_
            cases init with
            | none => exact h.forL _ _ _ _ _ _ _ _ hc hi hcn hp hb
            | some i =>
              cases i with
              | assign t3 name e3 => exact NP.bind (np_setVar _ _ _ _) fun _ => h.forL _ _ _ _ _ _ _ _ hc hi hcn hp hb
              | _ => exact h.forL _ _ _ _ _ _ _ _ hc hi hcn hp hb
          | _ => exact NP.bind (h.stmt _ _ _ hc hps) fun _ => h.forL _ _ _ _ _ _ _ _ hc hi hcn hp hb

theorem eachBody_np {k : Callees} (h : KNP k) (c : Ctx) (env : Env) (t : Token) (var : Bytes) (body : List Stmt)
    (xs : List Val) (i n : Nat) (acc : Bytes) (hc : Ctx.badFree c = true) (hb : Stmt.badFreeList body = true) :
    NP (eachBody k c env t var body xs i n acc) := by
  cases xs with
  | nil => rfl
  | cons x rest =>
    refine NP.bind (np_setVar _ _ _ _) fun env1 => NP.bind (h.block _ _ _ hc hb) fun r => ?_
    try dsimp only
    split
    · rfl
    · exact h.eachL _ _ _ _ _ _ _ _ _ hc hb

/-- the evaluator at every fuel never panics on `bad`-free programs -/
theorem calleesAt_np : ∀ n : Nat, KNP (calleesAt n) := by
  intro n
  induction n with
  | zero =>
    obtain ⟨e1, e2, e3⟩ := np_expr 0
    exact ⟨e1, e2, e3, fun _ _ _ _ _ => rfl, fun _ _ _ _ _ _ _ => rfl, fun _ _ _ _ _ => rfl, fun _ _ _ _ _ _ => rfl,
      fun _ _ _ _ _ _ _ _ _ _ _ _ _ => rfl, fun _ _ _ _ _ _ _ _ _ _ _ => rfl⟩
  | succ n ih =>
    obtain ⟨e1, e2, e3⟩ := np_expr (n + 1)
    exact ⟨e1, e2, e3,
      fun c env s hc hs => stmtBody_np ih c env s hc hs,
      fun c env a b hc ha hb => elseIfsBody_np ih c env a b hc ha hb,
      fun c env ss hc hs => blockBody_np ih c env ss hc hs,
      fun c env ss acc hc hs => progBody_np ih c env ss acc hc hs,
      fun c env t i cn p b acc hc hi hcn hp hb => forBody_np ih c env t i cn p b acc hc hi hcn hp hb,
      fun c env t v b xs i n acc hc hb => eachBody_np ih c env t v b xs i n acc hc hb⟩

end Tw
