/-
  TwProofs.Lemmas.TextNeg — `{{ -digits }}`: the prefix minus on an integer literal, from the source bytes
  to the parsed program (C01).
-/
import TwProofs.Lemmas.TextConcat
namespace Tw
open Lx

/-- `{{ w g1 - g3 d g2 }}` (at least one white-space byte after the braces: `{{--` opens a comment) -/
def negSrc (w : Byte) (g1 g3 d g2 : Bytes) : Bytes := [123, 123] ++ (w :: g1) ++ [45] ++ g3 ++ d ++ g2 ++ [125, 125]

def negKeys (d : Bytes) : List (TT × Bytes) := [(.LBRACES, [123, 123]), (.SUB, [45]), (.INT, d), (.RBRACES, [125, 125])]

theorem subOp : ArithOp 45 .SUB SUM := Or.inr ⟨Or.inr ⟨rfl, rfl⟩, rfl⟩

theorem lex_neg (s : Lx) (w : Byte) (g1 g3 d g2 tl : Bytes) (hh : s.isHTML = true) (hb : s.braces = 0) (hw : isWs w = true)
    (hg1 : allWs g1) (hg2 : allWs g2) (hg3 : allWs g3) (hd : isDigits d) (hr : s.rest = negSrc w g1 g3 d g2 ++ tl) :
    ∃ toks s4, Run s toks s4 ∧ toks.map key = negKeys d ∧ s4.rest = tl ∧ s4.prev = 125 ∧
      mode s4 = (true, s.isDirective, s.parens, 0, s.panicked) := by
  have hgw : allWs (w :: g1) := by
    intro x hx
    rcases List.mem_cons.mp hx with h | h
    · rw [h]; exact hw
    · exact hg1 x h
  have hr' : s.rest = 123 :: 123 :: ((w :: g1) ++ (45 :: (g3 ++ (d ++ (g2 ++ (125 :: 125 :: tl)))))) := by
    rw [hr]; simp [negSrc, List.append_assoc]
  have hx1 : ((w :: g1) ++ (45 :: (g3 ++ (d ++ (g2 ++ (125 :: 125 :: tl)))))).headD 0 ≠ 45 := by
    simp only [List.cons_append, List.headD_cons]
    intro e; rw [e] at hw; cases hw
  obtain ⟨t1, s1, st1, k1, ne1, r1, _, m1⟩ := lex_open s _ hh hr' hx1
  obtain ⟨a1, a2, a3, a4, a5⟩ := mode_fields m1
  have hx2 := ws_then_digits_not_op g3 d (g2 ++ (125 :: 125 :: tl)) 45 hg3 hd (by decide) (by decide)
  obtain ⟨t2, s2, st2, k2, ty2, b2⟩ := code_arithop_step s1 45 .SUB SUM (w :: g1) _ subOp a1 hgw r1 hx2
  have h2 : s2.isHTML = false := by rw [mode_html b2.md]; exact a1
  have hx3 := ws_or_brace_not_number g2 tl hg2
  obtain ⟨t3, s3, st3, k3, ne3, b3⟩ := code_int_step s2 g3 d _ h2 hg3 hd b2.rest hx3.1 hx3.2
  have h3 : s3.isHTML = false := by rw [mode_html b3.md]; exact h2
  have br3 : s3.braces = 0 := by rw [mode_braces b3.md, mode_braces b2.md, a4]; exact hb
  obtain ⟨t4, s4, st4, k4, ne4, r4, pv4, m4⟩ := code_close_step s3 g2 tl h3 br3 hg2 b3.rest
  refine ⟨[t1, t2, t3, t4], s4, ?_, ?_, r4, pv4, ?_⟩
  · exact Run.cons _ _ _ _ _ st1 ne1 (Run.cons _ _ _ _ _ st2 (by rw [ty2]; decide) (Run.cons _ _ _ _ _ st3 ne3
      (Run.cons _ _ _ _ _ st4 ne4 (Run.nil _))))
  · simp [negKeys, k1, k2, k3, k4]
  · rw [m4, mode_dir b3.md, mode_dir b2.md, a2, mode_parens b3.md, mode_parens b2.md, a3, mode_pan b3.md, mode_pan b2.md, a5]

def negCode (w : Byte) (g1 g3 d g2 : Bytes) : Code := { src := negSrc w g1 g3 d g2, keys := negKeys d }

theorem negCode_ok (w : Byte) (g1 g3 d g2 : Bytes) (hw : isWs w = true) (hg1 : allWs g1) (hg2 : allWs g2) (hg3 : allWs g3) (hd : isDigits d) :
    (negCode w g1 g3 d g2).OK := by
  refine ⟨?_, ?_, ?_⟩
  · intro tl
    exact Or.inr (Or.inl ⟨(w :: g1) ++ [45] ++ g3 ++ d ++ g2 ++ [125, 125] ++ tl, by simp [negCode, negSrc, List.append_assoc]⟩)
  · simp [negCode, negSrc, negKeys]; omega
  · intro s tl hr hh hb hpa hdi _
    obtain ⟨toks, s4, run, hkeys, r4, pv4, m4⟩ := lex_neg s w g1 g3 d g2 tl hh hb hw hg1 hg2 hg3 hd hr
    obtain ⟨f1, f2, f3, f4, f5⟩ := mode_fields m4
    exact ⟨toks, s4, run, hkeys, r4, f1, f4, by rw [f3]; exact hpa, by rw [f2]; exact hdi, f5, by rw [pv4]; decide⟩

/-- `-d` -/
theorem parse_neg_expr (k : Nat) (t2 t3 t4 : Token) (tail : List Token) (v : Int64) (h2 : t2.ty = .SUB) (h3 : t3.ty = .INT) (h4 : t4.ty = .RBRACES)
    (hv : parseInt64 t3.lit = some v) (hclean : ∀ x ∈ tail, x.ty ≠ .ILLEGAL) :
    parseExpression (k + 3) LOWEST ({ toks := t2 :: t3 :: t4 :: tail } : PS) = (.pre t2 t2.lit (.int t3 v), { toks := t3 :: t4 :: tail }) := by
  have c4 := noill_cons (t := t4) (by rw [h4]; decide) hclean
  have c3 := noill_cons (t := t3) (by rw [h3]; decide) c4
  have nx2 : ({ toks := t2 :: t3 :: t4 :: tail } : PS).next = { toks := t3 :: t4 :: tail } := ps_next_clean t2 t3 _ c3
  have hop : parseExpression (k + 2) PREFIX ({ toks := t3 :: t4 :: tail } : PS) = (.int t3 v, { toks := t3 :: t4 :: tail }) :=
    parse_int_operand k PREFIX t3 t4 tail v h3 hv (Or.inl h4)
  rw [parseExpression_succ]
  have hp : prefixBody (parseExpression (k + 2)) (parseExprList (k + 2)) (parseObjLoop (k + 2))
      ({ toks := t2 :: t3 :: t4 :: tail } : PS) = some (.pre t2 t2.lit (.int t3 v), { toks := t3 :: t4 :: tail }) := by
    unfold prefixBody
    have c0 : ({ toks := t2 :: t3 :: t4 :: tail } : PS).cur = t2 := rfl
    simp only [c0, h2, nx2, hop]
  rw [hp]
  simp only []
  exact prattLoop_stop_rbraces (k + 1) LOWEST _ t3 t4 tail h4

/-- **`{{ -d }}`, parsed** -/
theorem parse_neg_source (w : Byte) (g1 g3 d g2 : Bytes) (hw : isWs w = true) (hg1 : allWs g1) (hg2 : allWs g2) (hg3 : allWs g3) (hd : isDigits d)
    (hb : digitsToNat d ≤ 9223372036854775807) :
    ∃ prog t2 t3, parseSource (negSrc w g1 g3 d g2) = .ok prog ∧ prog.stmts = [.expr t3 (.pre t2 [45] (.int t3 (Int64.ofNat (digitsToNat d))))] := by
  have hok : GItemsOK [.code (negCode w g1 g3 d g2)] := ⟨negCode_ok w g1 g3 d g2 hw hg1 hg2 hg3 hd, trivial⟩
  obtain ⟨toks, e, htok, hkeys, he⟩ := tokenize_gitems _ hok
  have hsrc : gsrc [.code (negCode w g1 g3 d g2)] = negSrc w g1 g3 d g2 := by simp [gsrc, GItem.src, negCode]
  rw [hsrc] at htok
  have hk' : toks.map key = negKeys d := by simpa [gkeys, negCode] using hkeys
  match toks, hk' with
  | [], hk' => simp [negKeys] at hk'
  | [_], hk' => simp [negKeys] at hk'
  | [_, _], hk' => simp [negKeys] at hk'
  | [_, _, _], hk' => simp [negKeys] at hk'
  | _ :: _ :: _ :: _ :: _ :: _, hk' => simp [negKeys] at hk'
  | [t1, t2, t3, t4], hk' =>
    simp only [negKeys, List.map_cons, List.map_nil, List.cons.injEq, and_true] at hk'
    obtain ⟨hk1, hk2, hk3, hk4⟩ := hk'
    have ty1 : t1.ty = .LBRACES := congrArg Prod.fst hk1
    have ty2 : t2.ty = .SUB := congrArg Prod.fst hk2
    have lit2 : t2.lit = [45] := congrArg Prod.snd hk2
    have ty3 : t3.ty = .INT := congrArg Prod.fst hk3
    have lit3 : t3.lit = d := congrArg Prod.snd hk3
    have ty4 : t4.ty = .RBRACES := congrArg Prod.fst hk4
    have hce : ∀ x ∈ [e], x.ty ≠ .ILLEGAL := by intro x hx; simp at hx; rw [hx, he]; decide
    have c4 := noill_cons (t := t4) (by rw [ty4]; decide) hce
    have c3 := noill_cons (t := t3) (by rw [ty3]; decide) c4
    have c2' := noill_cons (t := t2) (by rw [ty2]; decide) c3
    have hcl : ∀ x ∈ [t1, t2, t3, t4] ++ [e], x.ty ≠ .ILLEGAL := noill_cons (by rw [ty1]; decide) c2'
    refine ⟨{ tok := t1, stmts := [.expr t3 (.pre t2 [45] (.int t3 (Int64.ofNat (digitsToNat d))))] }, t2, t3, ?_, rfl⟩
    unfold parseSource
    rw [htok]
    simp only [Bool.false_eq_true, if_false]
    rw [initParser_clean _ hcl]
    have hfuel : parseFuel ([t1, t2, t3, t4] ++ [e]) = 30 + 6 := by simp [parseFuel]
    rw [hfuel]
    have hex := parse_neg_expr 31 t2 t3 t4 [e] _ ty2 ty3 ty4 (by rw [lit3]; exact parseInt64_digits d hd hb) hce
    have hst := parse_expr_stmt_of' 34 t1 t2 t3 t4 [t3, t4, e] [e] _ ty1 (by rw [ty2]; decide) (by rw [ty2]; decide) ty4 c2' c3 hex
    have hloop : parseProgramLoop (30 + 6) [] ({ toks := [t1, t2, t3, t4] ++ [e] } : PS) =
        (some [.expr t3 (.pre t2 t2.lit (.int t3 (Int64.ofNat (digitsToNat d))))], { toks := [e] }) := by
      rw [show 30 + 6 = 35 + 1 from rfl, parseProgramLoop]
      have c0 : ({ toks := [t1, t2, t3, t4] ++ [e] } : PS).curIs .EOF = false := by simp [PS.curIs, PS.cur, ty1]
      simp only [c0, Bool.false_eq_true, if_false]
      simp only [List.cons_append, List.nil_append] at hst ⊢
      rw [show 35 = 34 + 1 from rfl, hst]
      have i5 : ({ toks := [t4, e] } : PS).curIs .ILLEGAL = false := by simp [PS.curIs, PS.cur, ty4]
      simp only [i5, Bool.false_eq_true, if_false, Stmt.isBad]
      have nx : ({ toks := [t4, e] } : PS).next = { toks := [e] } := ps_next_clean t4 e [] hce
      rw [nx, parseProgramLoop]
      have ce : ({ toks := [e] } : PS).curIs .EOF = true := by simp [PS.curIs, PS.cur, he]
      simp [ce]
    rw [hloop]
    simp [finishParse, PS.cur, lit2]

end Tw
