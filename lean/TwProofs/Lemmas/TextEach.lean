/-
  TwProofs.Lemmas.TextEach — templates of text, `{{ name }}` blocks and
  `@each(x in xs) body @end` loops whose body is text and `{{ name }}` blocks, from the source
  bytes to the rendered output (C03, C05).
-/
import TwProofs.Lemmas.CodeSteps
import TwProofs.Lemmas.EachSimple
import TwProofs.Lemmas.EachEval
namespace Tw
open Lx

def kwEach : Bytes := [64, 101, 97, 99, 104]
def kwIn : Bytes := [105, 110]

theorem dirScan_each (x : Bytes) : dirScan [] .ILLEGAL (kwEach ++ x) = (kwEach, .EACH) := by
  have h1 : lookupDirective [64] = .ILLEGAL := by decide
  have h2 : lookupDirective [64, 101] = .ILLEGAL := by decide
  have h3 : lookupDirective [64, 101, 97] = .ILLEGAL := by decide
  have h4 : lookupDirective [64, 101, 97, 99] = .ILLEGAL := by decide
  have h5 : lookupDirective [64, 101, 97, 99, 104] = .EACH := by decide
  have l1 : isLetterWord 64 = true := by decide
  have l2 : isLetterWord 101 = true := by decide
  have l3 : isLetterWord 97 = true := by decide
  have l4 : isLetterWord 99 = true := by decide
  have l5 : isLetterWord 104 = true := by decide
  simp only [kwEach, List.cons_append, List.nil_append, dirScan, l1, l2, l3, l4, l5, if_true, h1, h2, h3, h4, h5]
  simp [isPotentiallyLong]

theorem ws_head_not_word (g x : Bytes) (hg : allWs g) (hne : g ≠ []) :
    (isIdentCh ((g ++ x).headD 0) || isNumberCh ((g ++ x).headD 0)) = false := by
  cases g with
  | nil => exact absurd rfl hne
  | cons w t =>
    have hw : isWs w = true := hg w List.mem_cons_self
    simp only [List.cons_append, List.headD_cons]
    rw [ws_not_ident hw, ws_not_number hw]; rfl

/-- **the six tokens of `@each( x in xs )`**: EACH, LPAREN, IDENT, IN, IDENT, RPAREN, and the lexer
    is back in text mode behind the parenthesis -/
theorem lex_each_header (s : Lx) (g1 x g2 g3 xs g4 tl : Bytes) (hh : s.isHTML = true) (hprev : s.prev ≠ 92) (hp0 : s.parens = 0)
    (hg1 : allWs g1) (hg2 : allWs g2) (hg2n : g2 ≠ []) (hg3 : allWs g3) (hg3n : g3 ≠ []) (hg4 : allWs g4)
    (hx : isName x) (hxs : isName xs)
    (hr : s.rest = kwEach ++ ([40] ++ (g1 ++ (x ++ (g2 ++ (kwIn ++ (g3 ++ (xs ++ (g4 ++ (41 :: tl)))))))))) :
    ∃ t1 t2 t3 t4 t5 t6 s6, Run s [t1, t2, t3, t4, t5, t6] s6 ∧ key t1 = (.EACH, kwEach) ∧ key t2 = (.LPAREN, [40]) ∧
      key t3 = (.IDENT, x) ∧ key t4 = (.IN, kwIn) ∧ key t5 = (.IDENT, xs) ∧ key t6 = (.RPAREN, [41]) ∧
      s6.rest = tl ∧ s6.prev = 41 ∧ mode s6 = (true, false, 0, s.braces, s.panicked) := by
  -- "@each"
  obtain ⟨t1, s1, st1, k1, ne1, r1, h1, d1, p1, b1, pa1, _⟩ := lex_keyword s kwEach _ .EACH hh hprev hr rfl (by decide) (by decide)
    (dirScan_each _) (by decide) (by decide) (by decide)
  have h1' : s1.isHTML = false := by rw [h1]; rfl
  have d1' : s1.isDirective = true := by rw [d1]; rfl
  -- "("
  obtain ⟨t2, s2, st2, k2, ne2, r2, _, m2⟩ := code_lparen_step s1 _ h1' d1' (by rw [r1]; rfl)
  have h2 : s2.isHTML = false := by have := congrArg (·.1) m2; simpa [mode] using this
  -- x
  obtain ⟨t3, s3, st3, k3, ne3, a3⟩ := code_word_step s2 g1 x _ h2 hg1 (isName_word hx) r2 (ws_head_not_word g2 _ hg2 hg2n)
  have h3 : s3.isHTML = false := by rw [mode_html a3.md]; exact h2
  -- in
  obtain ⟨t4, s4, st4, k4, ne4, a4⟩ := code_word_step s3 g2 kwIn _ h3 hg2 (by decide) a3.rest (ws_head_not_word g3 _ hg3 hg3n)
  have h4 : s4.isHTML = false := by rw [mode_html a4.md]; exact h3
  -- xs
  have hx5 : (isIdentCh ((g4 ++ (41 :: tl)).headD 0) || isNumberCh ((g4 ++ (41 :: tl)).headD 0)) = false := by
    cases g4 with
    | nil => simp only [List.nil_append, List.headD_cons]; decide
    | cons w t => exact ws_head_not_word (w :: t) _ hg4 (by simp)
  obtain ⟨t5, s5, st5, k5, ne5, a5⟩ := code_word_step s4 g3 xs _ h4 hg3 (isName_word hxs) a4.rest hx5
  have h5 : s5.isHTML = false := by rw [mode_html a5.md]; exact h4
  have m5 : mode s5 = mode s2 := by rw [a5.md, a4.md, a3.md]
  -- ")"
  have d5 : s5.isDirective = true := by rw [mode_dir m5]; have := congrArg (·.2.1) m2; simpa [mode] using this
  have p5 : s5.parens = 1 := by
    rw [mode_parens m5]; have := congrArg (·.2.2.1) m2; simp only [mode] at this; rw [this, p1, hp0]; rfl
  obtain ⟨t6, s6, st6, k6, ne6, r6, pv6, m6⟩ := code_rparen_close s5 g4 tl h5 d5 p5 hg4 a5.rest
  have hk3 : key t3 = (.IDENT, x) := by rw [k3, hx.2.2]
  have hk4 : key t4 = (.IN, kwIn) := by rw [k4]; rfl
  have hk5 : key t5 = (.IDENT, xs) := by rw [k5, hxs.2.2]
  refine ⟨t1, t2, t3, t4, t5, t6, s6, ?_, k1, k2, hk3, hk4, hk5, k6, r6, pv6, ?_⟩
  · exact Run.cons _ _ _ _ _ st1 ne1 (Run.cons _ _ _ _ _ st2 ne2 (Run.cons _ _ _ _ _ st3 ne3 (Run.cons _ _ _ _ _ st4 ne4
      (Run.cons _ _ _ _ _ st5 ne5 (Run.cons _ _ _ _ _ st6 ne6 (Run.nil _))))))
  · rw [m6, mode_braces m5, mode_pan m5]
    have e1 := congrArg (·.2.2.2.1) m2
    have e2 := congrArg (·.2.2.2.2) m2
    simp only [mode] at e1 e2
    rw [e1, e2, b1, pa1]


/-! ### the body of a loop: text and `{{ name }}` blocks, in Run form -/

theorem Run.append {s sm sf : Lx} {a c : List Token} (h1 : Run s a sm) (h2 : Run sm c sf) : Run s (a ++ c) sf := by
  induction h1 with
  | nil s => exact h2
  | cons s s1 sm t ts h0 n0 _ ih => exact Run.cons _ _ _ _ _ h0 n0 (ih h2)

inductive BItem where
  | text (segs : List Seg)
  | print (g1 n g2 : Bytes)

def BItem.src : BItem → Bytes
  | .text segs => segsSrc segs
  | .print g1 n g2 => [123, 123] ++ g1 ++ n ++ g2 ++ [125, 125]

def bodySrc : List BItem → Bytes
  | [] => []
  | i :: r => i.src ++ bodySrc r

def bkeys : List BItem → List (TT × Bytes)
  | [] => []
  | .text segs :: r => (.HTML, segsLit segs) :: bkeys r
  | .print _ n _ :: r => (.LBRACES, [123, 123]) :: (.IDENT, n) :: (.RBRACES, [125, 125]) :: bkeys r

def notTextFirst : List BItem → Prop
  | .text _ :: _ => False
  | _ => True

instance : (r : List BItem) → Decidable (notTextFirst r)
  | [] => isTrue trivial
  | .text _ :: _ => isFalse (fun h => h)
  | .print _ _ _ :: _ => isTrue trivial

/-- the body is well formed in front of `tl` (which ends a run: see `Stops`) -/
def BodyOK (tl : Bytes) : List BItem → Prop
  | [] => True
  | .text segs :: r => startsRun segs ∧ SegsOK segs (bodySrc r ++ tl) ∧ notTextFirst r ∧ lastOr (segsSrc segs) 0 ≠ 92 ∧ BodyOK tl r
  | .print g1 n g2 :: r => allWs g1 ∧ allWs g2 ∧ isName n ∧ BodyOK tl r

instance (tl : Bytes) : (body : List BItem) → Decidable (BodyOK tl body)
  | [] => isTrue trivial
  | .text segs :: r => by
    have := instDecidableBodyOK tl r
    unfold BodyOK; exact inferInstance
  | .print g1 n g2 :: r => by
    have := instDecidableBodyOK tl r
    unfold BodyOK; exact inferInstance

theorem stops_body (tl : Bytes) (hs : Stops tl) : ∀ r : List BItem, notTextFirst r → Stops (bodySrc r ++ tl)
  | [], _ => by simpa [bodySrc] using hs
  | .text _ :: _, h => h.elim
  | .print g1 n g2 :: r, _ => Or.inr (Or.inl ⟨g1 ++ n ++ g2 ++ [125, 125] ++ bodySrc r ++ tl, by simp [bodySrc, BItem.src]⟩)

/-- the tokens of a body, and the state behind it -/
theorem lexRun_body (tl : Bytes) (hs : Stops tl) : ∀ (body : List BItem), BodyOK tl body → ∀ (s : Lx), s.rest = bodySrc body ++ tl →
    s.isHTML = true → s.braces = 0 → s.prev ≠ 92 →
    ∃ ts sf, Run s ts sf ∧ ts.map key = bkeys body ∧ sf.rest = tl ∧ sf.isHTML = true ∧ sf.braces = 0 ∧ sf.prev ≠ 92 ∧
      sf.panicked = s.panicked ∧ sf.parens = s.parens ∧ sf.isDirective = s.isDirective
  | [], _, s, hr, hh, hb, hpv => ⟨[], s, Run.nil s, rfl, by simpa [bodySrc] using hr, hh, hb, hpv, rfl, rfl, rfl⟩
  | .text segs :: r, hok, s, hr, hh, hb, _ => by
    obtain ⟨hst, hsegs, hnt, hl, hokr⟩ := hok
    have hr' : s.rest = segsSrc segs ++ (bodySrc r ++ tl) := by rw [hr]; simp [bodySrc, BItem.src]
    obtain ⟨t, s1, st1, k1, ne1, r1, h1, p1, b1, pa1, d1, pv1⟩ := lex_run s segs _ hh hst hsegs hr' (stops_body tl hs r hnt) (fun _ => hl)
    obtain ⟨ts, sf, run, hk, rf, hf, bf, pvf, pf, paf, df⟩ := lexRun_body tl hs r hokr s1 r1 h1 (by rw [b1]; exact hb) (by rw [pv1]; exact hl)
    exact ⟨t :: ts, sf, Run.cons _ _ _ _ _ st1 ne1 run, by simp [bkeys, k1, hk], rf, hf, bf, pvf, by rw [pf, p1], by rw [paf, pa1], by rw [df, d1]⟩
  | .print g1 n g2 :: r, hok, s, hr, hh, hb, _ => by
    obtain ⟨hg1, hg2, hn, hokr⟩ := hok
    obtain ⟨t1, t2, t3, s3, run3, k1, k2, k3, r3, h3, b3, p3, pv3, d3, pa3⟩ := lex_print s g1 n g2 (bodySrc r ++ tl) hh hb hg1 hg2 hn
      (by rw [hr]; simp [bodySrc, BItem.src])
    obtain ⟨ts, sf, run, hk, rf, hf, bf, pvf, pf, paf, df⟩ := lexRun_body tl hs r hokr s3 r3 h3 b3 (by rw [pv3]; decide)
    exact ⟨t1 :: t2 :: t3 :: ts, sf, Run.append run3 run, by simp [bkeys, k1, k2, k3, hk], rf, hf, bf, pvf, by rw [pf, p3], by rw [paf, pa3], by rw [df, d3]⟩


/-! ### the templates: text, `{{ name }}` and `@each` loops -/

inductive XItem where
  | text (segs : List Seg)
  | print (g1 n g2 : Bytes)
  | each (g1 x g2 g3 xs g4 : Bytes) (body : List BItem)

def XItem.src : XItem → Bytes
  | .text segs => segsSrc segs
  | .print g1 n g2 => [123, 123] ++ g1 ++ n ++ g2 ++ [125, 125]
  | .each g1 x g2 g3 xs g4 body =>
    kwEach ++ ([40] ++ (g1 ++ (x ++ (g2 ++ (kwIn ++ (g3 ++ (xs ++ (g4 ++ (41 :: (bodySrc body ++ kwEnd))))))))))

def xitemsSrc : List XItem → Bytes
  | [] => []
  | i :: r => i.src ++ xitemsSrc r

def xkeys : List XItem → List (TT × Bytes)
  | [] => []
  | .text segs :: r => (.HTML, segsLit segs) :: xkeys r
  | .print _ n _ :: r => (.LBRACES, [123, 123]) :: (.IDENT, n) :: (.RBRACES, [125, 125]) :: xkeys r
  | .each _ x _ _ xs _ body :: r =>
    (.EACH, kwEach) :: (.LPAREN, [40]) :: (.IDENT, x) :: (.IN, kwIn) :: (.IDENT, xs) :: (.RPAREN, [41]) :: (bkeys body ++ ((.END, kwEnd) :: xkeys r))

def afterRunX (segs : List Seg) : List XItem → Prop
  | [] => True
  | .text _ :: _ => False
  | _ :: _ => lastOr (segsSrc segs) 0 ≠ 92

def XItemsOK : List XItem → Prop
  | [] => True
  | .text segs :: r => startsRun segs ∧ SegsOK segs (xitemsSrc r) ∧ afterRunX segs r ∧ XItemsOK r
  | .print g1 n g2 :: r => allWs g1 ∧ allWs g2 ∧ isName n ∧ XItemsOK r
  | .each g1 x g2 g3 xs g4 body :: r =>
    allWs g1 ∧ allWs g2 ∧ g2 ≠ [] ∧ allWs g3 ∧ g3 ≠ [] ∧ allWs g4 ∧ isName x ∧ isName xs ∧ BodyOK (kwEnd ++ xitemsSrc r) body ∧ XItemsOK r

instance (segs : List Seg) : (r : List XItem) → Decidable (afterRunX segs r)
  | [] => isTrue trivial
  | .text _ :: _ => isFalse (by simp [afterRunX])
  | .print _ _ _ :: _ => by unfold afterRunX; exact inferInstance
  | .each _ _ _ _ _ _ _ :: _ => by unfold afterRunX; exact inferInstance

instance : (items : List XItem) → Decidable (XItemsOK items)
  | [] => isTrue trivial
  | .text segs :: r => by have := instDecidableXItemsOK r; unfold XItemsOK; exact inferInstance
  | .print g1 n g2 :: r => by have := instDecidableXItemsOK r; unfold XItemsOK; exact inferInstance
  | .each g1 x g2 g3 xs g4 body :: r => by have := instDecidableXItemsOK r; unfold XItemsOK; exact inferInstance

def xfuel : List XItem → Nat
  | [] => 0
  | .text _ :: r => 1 + xfuel r
  | .print _ _ _ :: r => 3 + xfuel r
  | .each _ _ _ _ _ _ body :: r => 7 + (bkeys body).length + xfuel r

theorem stops_xitems : ∀ (r : List XItem), (∀ segs r', r = .text segs :: r' → False) → Stops (xitemsSrc r)
  | [], _ => Or.inl rfl
  | .text segs :: r', h => (h segs r' rfl).elim
  | .print g1 n g2 :: r', _ => Or.inr (Or.inl ⟨g1 ++ n ++ g2 ++ [125, 125] ++ xitemsSrc r', by simp [xitemsSrc, XItem.src]⟩)
  | .each g1 x g2 g3 xs g4 body :: r', _ => by
    have := stops_kw kwEach ([40] ++ (g1 ++ (x ++ (g2 ++ (kwIn ++ (g3 ++ (xs ++ (g4 ++ (41 :: (bodySrc body ++ kwEnd))))))))) ++ xitemsSrc r')
      rfl (by decide) (by decide) (by decide)
    simpa [xitemsSrc, XItem.src, List.append_assoc] using this

theorem afterRunX_stops (segs : List Seg) (r : List XItem) (h : afterRunX segs r) :
    Stops (xitemsSrc r) ∧ (xitemsSrc r ≠ [] → lastOr (segsSrc segs) 0 ≠ 92) := by
  cases r with
  | nil => exact ⟨Or.inl rfl, fun h => absurd rfl h⟩
  | cons it r' =>
    cases it with
    | text _ => exact absurd h (by simp [afterRunX])
    | print g1 n g2 => exact ⟨stops_xitems _ (fun _ _ e => by cases e), fun _ => h⟩
    | each g1 x g2 g3 xs g4 body => exact ⟨stops_xitems _ (fun _ _ e => by cases e), fun _ => h⟩

/-- the byte before an `@each` is no backslash -/
def PrevOKX (s : Lx) : List XItem → Prop
  | .each _ _ _ _ _ _ _ :: _ => s.prev ≠ 92
  | _ => True

theorem prevOKX_of (s : Lx) (r : List XItem) (h : s.prev ≠ 92) : PrevOKX s r := by
  cases r with
  | nil => trivial
  | cons it _ => cases it <;> first | trivial | exact h

theorem lexAll_xitems : ∀ (items : List XItem), XItemsOK items → ∀ (s : Lx) (fuel : Nat), s.rest = xitemsSrc items →
    s.isHTML = true → s.panicked = false → s.braces = 0 → s.parens = 0 → s.isDirective = false → PrevOKX s items →
    xfuel items + 1 ≤ fuel →
    ∃ toks e sf, lexAll fuel s = some (toks ++ [e], sf) ∧ toks.map key = xkeys items ∧ e.ty = .EOF ∧
      sf.isHTML = true ∧ sf.panicked = false
  | [], _, s, fuel, hr, hh, hp, _, _, _, _, hf => by
    obtain ⟨g, rfl⟩ : ∃ g, fuel = g + 1 := ⟨fuel - 1, by omega⟩
    have hst := nextStep_eof s hh (by simpa [xitemsSrc] using hr)
    refine ⟨[], s.tokenBegins.newToken .EOF [], s.tokenBegins, ?_, rfl, by simp [newToken],
      by simpa [Lx.tokenBegins] using hh, by simpa [Lx.tokenBegins] using hp⟩
    rw [lexAll, hst]
    simp [newToken]
  | .text segs :: r, hok, s, fuel, hr, hh, hp, hb, hpa, hd, _, hf => by
    obtain ⟨hstart, hsegs, hafter, hokr⟩ := hok
    obtain ⟨g, rfl⟩ : ∃ g, fuel = g + 1 := ⟨fuel - 1, by omega⟩
    have hr' : s.rest = segsSrc segs ++ xitemsSrc r := by rw [hr]; simp [xitemsSrc, XItem.src]
    obtain ⟨hstop, hlast⟩ := afterRunX_stops segs r hafter
    obtain ⟨t, s1, hst1, hk1, hne1, hr1, hh1, hp1, hb1, hpa1, hd1, hprev1⟩ := lex_run s segs (xitemsSrc r) hh hstart hsegs hr' hstop hlast
    have hpo : PrevOKX s1 r := by
      cases r with
      | nil => trivial
      | cons it r' =>
        cases it with
        | each g1 x g2 g3 xs g4 body => show s1.prev ≠ 92; rw [hprev1]; exact hafter
        | _ => trivial
    obtain ⟨toks, e, sf, hl, hm, he, hhf, hpf⟩ := lexAll_xitems r hokr s1 g hr1 hh1 (by rw [hp1]; exact hp)
      (by rw [hb1]; exact hb) (by rw [hpa1]; exact hpa) (by rw [hd1]; exact hd) hpo (by simp [xfuel] at hf; omega)
    refine ⟨t :: toks, e, sf, ?_, by simp [xkeys, hk1, hm], he, hhf, hpf⟩
    rw [lexAll, hst1]
    simp only []
    have : (t.ty == TT.EOF) = false := by simpa using hne1
    rw [this, hl]
    rfl
  | .print g1 n g2 :: r, hok, s, fuel, hr, hh, hp, hb, hpa, hd, _, hf => by
    obtain ⟨hg1, hg2, hn, hokr⟩ := hok
    obtain ⟨g, rfl⟩ : ∃ g, fuel = 3 + g := ⟨fuel - 3, by simp [xfuel] at hf; omega⟩
    obtain ⟨t1, t2, t3, s3, hrun, k1, k2, k3, r3, h3, b3, p3, pv3, d3, pa3⟩ := lex_print s g1 n g2 (xitemsSrc r) hh hb hg1 hg2 hn
      (by rw [hr]; simp [xitemsSrc, XItem.src])
    obtain ⟨toks, e, sf, hl, hm, he, hhf, hpf⟩ := lexAll_xitems r hokr s3 g r3 h3 (by rw [p3]; exact hp) b3
      (by rw [pa3]; exact hpa) (by rw [d3]; exact hd) (prevOKX_of s3 r (by rw [pv3]; decide)) (by simp [xfuel] at hf; omega)
    have := lexAll_run_forward hrun g (toks ++ [e], sf) hl
    refine ⟨t1 :: t2 :: t3 :: toks, e, sf, ?_, by simp [xkeys, k1, k2, k3, hm], he, hhf, hpf⟩
    simpa using this
  | .each g1 x g2 g3 xs g4 body :: r, hok, s, fuel, hr, hh, hp, hb, hpa, hd, hpv, hf => by
    obtain ⟨hg1, hg2, hg2n, hg3, hg3n, hg4, hx, hxs, hbody, hokr⟩ := hok
    have hr0 : s.rest = kwEach ++ ([40] ++ (g1 ++ (x ++ (g2 ++ (kwIn ++ (g3 ++ (xs ++ (g4 ++ (41 :: (bodySrc body ++ (kwEnd ++ xitemsSrc r))))))))))) := by
      rw [hr]; simp [xitemsSrc, XItem.src, List.append_assoc]
    obtain ⟨t1, t2, t3, t4, t5, t6, s6, run6, k1, k2, k3, k4, k5, k6, r6, pv6, m6⟩ :=
      lex_each_header s g1 x g2 g3 xs g4 _ hh hpv hpa hg1 hg2 hg2n hg3 hg3n hg4 hx hxs hr0
    have h6 : s6.isHTML = true := by have := congrArg (·.1) m6; simpa [mode] using this
    have b6 : s6.braces = 0 := by have := congrArg (·.2.2.2.1) m6; simp only [mode] at this; rw [this]; exact hb
    have hstopE : Stops (kwEnd ++ xitemsSrc r) := stops_kw kwEnd (xitemsSrc r) rfl (by decide) (by decide) (by decide)
    obtain ⟨tsb, sb, runb, kb, rb, hhb, bb, pvb, pab, parb, db⟩ := lexRun_body _ hstopE body hbody s6 r6 h6 b6 (by rw [pv6]; decide)
    obtain ⟨t7, s7, st7, k7, ne7, r7, h7, d7, pa7, b7, p7, pv7⟩ := lex_keyword sb kwEnd (xitemsSrc r) .END hhb pvb rb
      rfl (by decide) (by decide) (dirScan_end _) (by decide) (by decide) (by decide)
    have hlenb : tsb.length = (bkeys body).length := by rw [← kb]; simp
    obtain ⟨g, hg⟩ : ∃ g, fuel = (6 + tsb.length + 1) + g := ⟨fuel - (6 + tsb.length + 1), by simp [xfuel] at hf; omega⟩
    have pan6 : s6.panicked = false := by have := congrArg (·.2.2.2.2) m6; simp only [mode] at this; rw [this]; exact hp
    have par6 : s6.parens = 0 := by have := congrArg (·.2.2.1) m6; simpa [mode] using this
    have dir6 : s6.isDirective = false := by have := congrArg (·.2.1) m6; simpa [mode] using this
    obtain ⟨toks, e, sf, hl, hm, he, hhf, hpf⟩ := lexAll_xitems r hokr s7 g r7 (by rw [h7]; rfl) (by rw [p7, pab]; exact pan6)
      (by rw [b7, bb]) (by rw [pa7, parb]; exact par6) (by rw [d7]; rfl) (prevOKX_of s7 r (by rw [pv7]; decide))
      (by simp [xfuel] at hf; omega)
    have runAll : Run s ([t1, t2, t3, t4, t5, t6] ++ tsb ++ [t7]) s7 := run_snoc (Run.append run6 runb) st7 ne7
    have := lexAll_run_forward runAll g (toks ++ [e], sf) hl
    refine ⟨[t1, t2, t3, t4, t5, t6] ++ tsb ++ [t7] ++ toks, e, sf, ?_, ?_, he, hhf, hpf⟩
    · rw [hg]
      have hlen : ([t1, t2, t3, t4, t5, t6] ++ tsb ++ [t7]).length = 6 + tsb.length + 1 := by simp; omega
      rw [← hlen]
      simpa [List.append_assoc] using this
    · simp [xkeys, k1, k2, k3, k4, k5, k6, k7, kb, hm, List.append_assoc]



theorem ps_next_any (t t2 : Token) (r : List Token) (h : ∀ x ∈ r, x.ty ≠ .ILLEGAL) :
    ({ toks := t :: t2 :: r } : PS).next = { toks := t2 :: r } := by
  unfold PS.next
  cases r with
  | nil => rfl
  | cons n r' =>
    have : (n.ty == TT.ILLEGAL) = false := by simpa using h n (by simp)
    simp [PS.noteIllegal, this]

/-! ### the parser on a loop -/

def bpieces : List BItem → List Piece
  | [] => []
  | .text segs :: r => .text (segsLit segs) :: bpieces r
  | .print _ n _ :: r => .hole n :: bpieces r

theorem bkeys_clean : ∀ (body : List BItem) (x : TT × Bytes), x ∈ bkeys body →
    x.1 ≠ .ILLEGAL ∧ x.1 ≠ .EOF ∧ x.1 ≠ .END ∧ x.1 ≠ .ELSE ∧ x.1 ≠ .ELSE_IF
  | [], x, h => by simp [bkeys] at h
  | .text _ :: r, x, h => by
    simp only [bkeys, List.mem_cons] at h
    rcases h with h | h
    · rw [h]; simp
    · exact bkeys_clean r x h
  | .print _ _ _ :: r, x, h => by
    simp only [bkeys, List.mem_cons] at h
    rcases h with h | h | h | h
    · rw [h]; simp
    · rw [h]; simp
    · rw [h]; simp
    · exact bkeys_clean r x h

theorem bkeys_ne_nil : ∀ body : List BItem, body ≠ [] → bkeys body ≠ []
  | [], h => absurd rfl h
  | .text _ :: _, _ => by simp [bkeys]
  | .print _ _ _ :: _, _ => by simp [bkeys]

/-- `{{ name }}` as a statement: LBRACES IDENT RBRACES -/
theorem parse_print_stmt (k : Nat) (t1 t2 t3 : Token) (tail : List Token) (h1 : t1.ty = .LBRACES) (h2 : t2.ty = .IDENT) (h3 : t3.ty = .RBRACES)
    (hclean : ∀ x ∈ tail, x.ty ≠ .ILLEGAL) :
    parseStatement (k + 3) ({ toks := t1 :: t2 :: t3 :: tail } : PS) = (.expr t2 (.ident t2 t2.lit), { toks := t3 :: tail }) := by
  have hn3 : ∀ x ∈ t3 :: tail, x.ty ≠ .ILLEGAL := by
    intro x hx
    rcases List.mem_cons.mp hx with h | h
    · rw [h, h3]; decide
    · exact hclean x h
  have hn2 : ∀ x ∈ t2 :: t3 :: tail, x.ty ≠ .ILLEGAL := by
    intro x hx
    rcases List.mem_cons.mp hx with h | h
    · rw [h, h2]; decide
    · exact hn3 x h
  have nx1 : ({ toks := t1 :: t2 :: t3 :: tail } : PS).next = { toks := t2 :: t3 :: tail } := ps_next_clean t1 t2 _ hn2
  have nx2 : ({ toks := t2 :: t3 :: tail } : PS).next = { toks := t3 :: tail } := ps_next_clean t2 t3 _ hn3
  have hex : parseExpression (k + 2) LOWEST ({ toks := t2 :: t3 :: tail } : PS) = (.ident t2 t2.lit, { toks := t2 :: t3 :: tail }) := by
    rw [parseExpression_succ]
    have hp : prefixBody (parseExpression (k + 1)) (parseExprList (k + 1)) (parseObjLoop (k + 1))
        ({ toks := t2 :: t3 :: tail } : PS) = some (.ident t2 t2.lit, { toks := t2 :: t3 :: tail }) := by
      unfold prefixBody
      simp [PS.cur, h2]
    rw [hp]
    simp only []
    rw [prattLoop_succ]
    have : ({ toks := t2 :: t3 :: tail } : PS).peekIs .RBRACES = true := by simp [PS.peekIs, PS.peek, h3]
    simp [this]
  show statementBody (parseExpression (k + 2)) (parseExprList (k + 2)) (parseBody (k + 2)) (parseIfTail (k + 2)) (parseSlots (k + 2))
    ({ toks := t1 :: t2 :: t3 :: tail } : PS) = _
  have hc : ({ toks := t1 :: t2 :: t3 :: tail } : PS).cur.ty = .LBRACES := by simp [PS.cur, h1]
  unfold statementBody
  simp only [hc]
  unfold parseEmbeddedCode
  simp only [nx1]
  have c1 : ({ toks := t2 :: t3 :: tail } : PS).curIs .RBRACES = false := by simp [PS.curIs, PS.cur, h2]
  have c2 : ({ toks := t2 :: t3 :: tail } : PS).peekIs .ASSIGN = false := by simp [PS.peekIs, PS.peek, h3]
  have c3 : ({ toks := t2 :: t3 :: tail } : PS).peekIs .RBRACES = true := by simp [PS.peekIs, PS.peek, h3]
  simp only [c1, c2, Bool.and_false, Bool.false_eq_true, if_false, hex, c3, if_true, nx2]
  simp [PS.cur]

/-- does the block end after the statement whose last token is `last`? -/
theorem peek_block_end (last tEnd : Token) (rest : List Token) (hEnd : tEnd.ty = .END) :
    (({ toks := last :: tEnd :: rest } : PS).peekIs .ELSE || ({ toks := last :: tEnd :: rest } : PS).peekIs .ELSE_IF ||
      ({ toks := last :: tEnd :: rest } : PS).peekIs .END) = true := by
  simp [PS.peekIs, PS.peek, hEnd]

theorem peek_block_goes_on (last nxt : Token) (tail : List Token) (h1 : nxt.ty ≠ .END) (h2 : nxt.ty ≠ .ELSE) (h3 : nxt.ty ≠ .ELSE_IF) :
    (({ toks := last :: nxt :: tail } : PS).peekIs .ELSE || ({ toks := last :: nxt :: tail } : PS).peekIs .ELSE_IF ||
      ({ toks := last :: nxt :: tail } : PS).peekIs .END) = false := by
  simp [PS.peekIs, PS.peek, h1, h2, h3]

/-- the statements of a non-empty body, parsed up to (not including) `@end` -/
theorem parseBlock_simple (tEnd : Token) (rest : List Token) (hEnd : tEnd.ty = .END) (hrest : ∀ x ∈ rest, x.ty ≠ .ILLEGAL) :
    ∀ (body : List BItem) (bt : List Token) (acc : List Stmt) (f : Nat), body ≠ [] → bt.map key = bkeys body → body.length + 4 ≤ f →
      ∃ stmts last, parseBlockStmt f acc ({ toks := bt ++ tEnd :: rest } : PS) = (acc ++ stmts, { toks := last :: tEnd :: rest }) ∧
        simpleBlock stmts = true ∧ piecesOf stmts = bpieces body
  | [], _, _, _, h, _, _ => absurd rfl h
  | .text segs :: r, bt, acc, f, _, hk, hf => by
    cases bt with
    | nil => simp [bkeys] at hk
    | cons t bt' =>
      simp only [bkeys, List.map_cons, List.cons.injEq] at hk
      obtain ⟨hkt, hkr⟩ := hk
      have ht : t.ty = .HTML := congrArg Prod.fst hkt
      have hlit : t.lit = segsLit segs := congrArg Prod.snd hkt
      obtain ⟨g, rfl⟩ : ∃ g, f = g + 2 := ⟨f - 2, by simp at hf; omega⟩
      have hcl : ∀ x ∈ bt' ++ tEnd :: rest, x.ty ≠ .ILLEGAL := by
        intro x hx
        rcases List.mem_append.mp hx with h | h
        · have : key x ∈ bkeys r := by rw [← hkr]; exact List.mem_map_of_mem h
          exact (bkeys_clean r _ this).1
        · rcases List.mem_cons.mp h with h | h
          · rw [h, hEnd]; decide
          · exact hrest x h
      have hs : parseStatement (g + 1) ({ toks := t :: (bt' ++ tEnd :: rest) } : PS) = (.html t, { toks := t :: (bt' ++ tEnd :: rest) }) := by
        show statementBody (parseExpression g) (parseExprList g) (parseBody g) (parseIfTail g) (parseSlots g) _ = _
        simp [statementBody, PS.cur, ht]
      have ck : ∀ ty : TT, ty ≠ .HTML → ({ toks := t :: (bt' ++ tEnd :: rest) } : PS).curIs ty = false := by
        intro ty hty; simp [PS.curIs, PS.cur, ht]; exact fun e => hty e.symm
      have hbody : parseBlockStmt (g + 2) acc ({ toks := t :: (bt' ++ tEnd :: rest) } : PS) =
          (if (({ toks := t :: (bt' ++ tEnd :: rest) } : PS).peekIs .ELSE || ({ toks := t :: (bt' ++ tEnd :: rest) } : PS).peekIs .ELSE_IF ||
              ({ toks := t :: (bt' ++ tEnd :: rest) } : PS).peekIs .END) = true
           then (acc ++ [.html t], ({ toks := t :: (bt' ++ tEnd :: rest) } : PS))
           else parseBlockStmt (g + 1) (acc ++ [.html t]) ({ toks := t :: (bt' ++ tEnd :: rest) } : PS).next) := by
        show blockStmtBody (parseStatement (g + 1)) (parseBlockStmt (g + 1)) acc ({ toks := t :: (bt' ++ tEnd :: rest) } : PS) = _
        unfold blockStmtBody
        rw [ck .END (by decide), ck .EOF (by decide), ck .ILLEGAL (by decide)]
        simp only [Bool.false_eq_true, if_false, hs, Stmt.isBad]
      simp only [List.cons_append]
      rw [hbody]
      cases r with
      | nil =>
        have hb0 : bt' = [] := by simpa [bkeys] using hkr
        subst hb0
        refine ⟨[.html t], t, ?_, rfl, by simp [piecesOf, bpieces, hlit]⟩
        simp only [List.nil_append]
        rw [peek_block_end t tEnd rest hEnd]
        simp
      | cons it r' =>
        cases bt' with
        | nil => exact absurd hkr.symm (by simpa using bkeys_ne_nil (it :: r') (by simp))
        | cons t' bt'' =>
          have hk' : key t' ∈ bkeys (it :: r') := by rw [← hkr]; simp
          obtain ⟨_, _, e1, e2, e3⟩ := bkeys_clean (it :: r') _ hk'
          obtain ⟨stmts, last, h1, h2, h3⟩ := parseBlock_simple tEnd rest hEnd hrest (it :: r') (t' :: bt'') (acc ++ [.html t]) (g + 1)
            (by simp) hkr (by simp at hf ⊢; omega)
          refine ⟨.html t :: stmts, last, ?_, by simpa [simpleBlock] using h2, by simp [piecesOf, bpieces, hlit, h3]⟩
          simp only [List.cons_append]
          rw [peek_block_goes_on t t' _ e1 e2 e3]
          simp only [Bool.false_eq_true, if_false]
          rw [ps_next_any t t' _ (fun x hx => hcl x (by simp only [List.cons_append]; exact List.mem_cons_of_mem _ hx))]
          simp only [List.cons_append] at h1
          rw [h1]
          simp
  | .print g1 n g2 :: r, bt, acc, f, _, hk, hf => by
    match bt, hk with
    | [], hk => simp [bkeys] at hk
    | [_], hk => simp [bkeys] at hk
    | [_, _], hk => simp [bkeys] at hk
    | t1 :: t2 :: t3 :: bt', hk =>
      simp only [bkeys, List.map_cons, List.cons.injEq] at hk
      obtain ⟨hk1, hk2, hk3, hkr⟩ := hk
      have ty1 : t1.ty = .LBRACES := congrArg Prod.fst hk1
      have ty2 : t2.ty = .IDENT := congrArg Prod.fst hk2
      have lit2 : t2.lit = n := congrArg Prod.snd hk2
      have ty3 : t3.ty = .RBRACES := congrArg Prod.fst hk3
      obtain ⟨g, rfl⟩ : ∃ g, f = g + 4 := ⟨f - 4, by simp at hf; omega⟩
      have hcl : ∀ x ∈ bt' ++ tEnd :: rest, x.ty ≠ .ILLEGAL := by
        intro x hx
        rcases List.mem_append.mp hx with h | h
        · have : key x ∈ bkeys r := by rw [← hkr]; exact List.mem_map_of_mem h
          exact (bkeys_clean r _ this).1
        · rcases List.mem_cons.mp h with h | h
          · rw [h, hEnd]; decide
          · exact hrest x h
      have hs := parse_print_stmt g t1 t2 t3 (bt' ++ tEnd :: rest) ty1 ty2 ty3 hcl
      have ck : ∀ ty : TT, ty ≠ .LBRACES → ({ toks := t1 :: t2 :: t3 :: (bt' ++ tEnd :: rest) } : PS).curIs ty = false := by
        intro ty hty; simp [PS.curIs, PS.cur, ty1]; exact fun e => hty e.symm
      have hbody : parseBlockStmt (g + 4) acc ({ toks := t1 :: t2 :: t3 :: (bt' ++ tEnd :: rest) } : PS) =
          (if (({ toks := t3 :: (bt' ++ tEnd :: rest) } : PS).peekIs .ELSE || ({ toks := t3 :: (bt' ++ tEnd :: rest) } : PS).peekIs .ELSE_IF ||
              ({ toks := t3 :: (bt' ++ tEnd :: rest) } : PS).peekIs .END) = true
           then (acc ++ [.expr t2 (.ident t2 t2.lit)], ({ toks := t3 :: (bt' ++ tEnd :: rest) } : PS))
           else parseBlockStmt (g + 3) (acc ++ [.expr t2 (.ident t2 t2.lit)]) ({ toks := t3 :: (bt' ++ tEnd :: rest) } : PS).next) := by
        show blockStmtBody (parseStatement (g + 3)) (parseBlockStmt (g + 3)) acc ({ toks := t1 :: t2 :: t3 :: (bt' ++ tEnd :: rest) } : PS) = _
        unfold blockStmtBody
        rw [ck .END (by decide), ck .EOF (by decide), ck .ILLEGAL (by decide)]
        simp only [Bool.false_eq_true, if_false, hs, Stmt.isBad]
      simp only [List.cons_append]
      rw [hbody]
      cases r with
      | nil =>
        have hb0 : bt' = [] := by simpa [bkeys] using hkr
        subst hb0
        refine ⟨[.expr t2 (.ident t2 t2.lit)], t3, ?_, rfl, by simp [piecesOf, bpieces, lit2]⟩
        simp only [List.nil_append]
        rw [peek_block_end t3 tEnd rest hEnd]
        simp
      | cons it r' =>
        cases bt' with
        | nil => exact absurd hkr.symm (by simpa using bkeys_ne_nil (it :: r') (by simp))
        | cons t' bt'' =>
          have hk' : key t' ∈ bkeys (it :: r') := by rw [← hkr]; simp
          obtain ⟨_, _, e1, e2, e3⟩ := bkeys_clean (it :: r') _ hk'
          obtain ⟨stmts, last, h1, h2, h3⟩ := parseBlock_simple tEnd rest hEnd hrest (it :: r') (t' :: bt'') (acc ++ [.expr t2 (.ident t2 t2.lit)]) (g + 3)
            (by simp) hkr (by simp at hf ⊢; omega)
          refine ⟨.expr t2 (.ident t2 t2.lit) :: stmts, last, ?_, by simpa [simpleBlock] using h2, by simp [piecesOf, bpieces, lit2, h3]⟩
          simp only [List.cons_append]
          rw [peek_block_goes_on t3 t' _ e1 e2 e3]
          simp only [Bool.false_eq_true, if_false]
          rw [ps_next_any t3 t' _ (fun x hx => hcl x (by simp only [List.cons_append]; exact List.mem_cons_of_mem _ hx))]
          simp only [List.cons_append] at h1
          rw [h1]
          simp


theorem noill_cons {t : Token} {l : List Token} (ht : t.ty ≠ .ILLEGAL) (hl : ∀ x ∈ l, x.ty ≠ .ILLEGAL) : ∀ x ∈ t :: l, x.ty ≠ .ILLEGAL := by
  intro x hx
  rcases List.mem_cons.mp hx with h | h
  · rw [h]; exact ht
  · exact hl x h

/-- `@each(x in xs) body @end` as a statement -/
theorem parse_each_stmt (g : Nat) (t1 t2 t3 t4 t5 t6 tEnd : Token) (body : List BItem) (bt rest : List Token)
    (h1 : t1.ty = .EACH) (h2 : t2.ty = .LPAREN) (h3 : t3.ty = .IDENT) (h4 : t4.ty = .IN) (h5 : t5.ty = .IDENT) (h6 : t6.ty = .RPAREN)
    (hEnd : tEnd.ty = .END) (hb : bt.map key = bkeys body) (hrest : ∀ x ∈ rest, x.ty ≠ .ILLEGAL) :
    ∃ stmts, parseStatement (g + body.length + 8) ({ toks := t1 :: t2 :: t3 :: t4 :: t5 :: t6 :: (bt ++ tEnd :: rest) } : PS) =
        (.eachS t1 t3.lit (.ident t5 t5.lit) stmts none, { toks := tEnd :: rest }) ∧
      simpleBlock stmts = true ∧ piecesOf stmts = bpieces body := by
  have cE : ∀ x ∈ tEnd :: rest, x.ty ≠ .ILLEGAL := noill_cons (by rw [hEnd]; decide) hrest
  have cB : ∀ x ∈ bt ++ tEnd :: rest, x.ty ≠ .ILLEGAL := by
    intro x hx
    rcases List.mem_append.mp hx with h | h
    · have : key x ∈ bkeys body := by rw [← hb]; exact List.mem_map_of_mem h
      exact (bkeys_clean body _ this).1
    · exact cE x h
  have c6 := noill_cons (t := t6) (by rw [h6]; decide) cB
  have c5 := noill_cons (t := t5) (by rw [h5]; decide) c6
  have c4 := noill_cons (t := t4) (by rw [h4]; decide) c5
  have c3 := noill_cons (t := t3) (by rw [h3]; decide) c4
  have c2 := noill_cons (t := t2) (by rw [h2]; decide) c3
  -- the block, and the state after it
  have hblock : ∃ stmts last, parseBody (g + body.length + 7) ({ toks := t6 :: (bt ++ tEnd :: rest) } : PS) =
      (stmts, ({ toks := last :: tEnd :: rest } : PS)) ∧ simpleBlock stmts = true ∧ piecesOf stmts = bpieces body := by
    show ∃ stmts last, bodyBody (parseBlockStmt (g + body.length + 6)) ({ toks := t6 :: (bt ++ tEnd :: rest) } : PS) = _ ∧ _
    unfold bodyBody
    cases body with
    | nil =>
      have : bt = [] := by simpa [bkeys] using hb
      subst this
      refine ⟨[], t6, ?_, rfl, rfl⟩
      simp only [List.nil_append]
      rw [peek_block_end t6 tEnd rest hEnd]
      simp
    | cons it r =>
      cases bt with
      | nil => exact absurd hb.symm (by simpa using bkeys_ne_nil (it :: r) (by simp))
      | cons t' bt' =>
        have hk' : key t' ∈ bkeys (it :: r) := by rw [← hb]; simp
        obtain ⟨_, _, e1, e2, e3⟩ := bkeys_clean (it :: r) _ hk'
        obtain ⟨stmts, last, q1, q2, q3⟩ := parseBlock_simple tEnd rest hEnd hrest (it :: r) (t' :: bt') [] (g + (it :: r).length + 6)
          (by simp) hb (by omega)
        refine ⟨stmts, last, ?_, q2, q3⟩
        simp only [List.cons_append]
        rw [peek_block_goes_on t6 t' _ e1 e2 e3]
        simp only [Bool.false_eq_true, if_false]
        rw [ps_next_any t6 t' _ (fun x hx => cB x (by simp only [List.cons_append]; exact List.mem_cons_of_mem _ hx))]
        simp only [List.cons_append, List.nil_append] at q1
        rw [q1]
  obtain ⟨stmts, last, hbl, hs1, hs2⟩ := hblock
  refine ⟨stmts, ?_, hs1, hs2⟩
  show statementBody (parseExpression (g + body.length + 7)) (parseExprList (g + body.length + 7)) (parseBody (g + body.length + 7))
    (parseIfTail (g + body.length + 7)) (parseSlots (g + body.length + 7)) _ = _
  have hc : ({ toks := t1 :: t2 :: t3 :: t4 :: t5 :: t6 :: (bt ++ tEnd :: rest) } : PS).cur.ty = .EACH := by simp [PS.cur, h1]
  unfold statementBody
  simp only [hc]
  unfold parseEachStmt
  have e1 := expectPeek_ok ({ toks := t1 :: t2 :: t3 :: t4 :: t5 :: t6 :: (bt ++ tEnd :: rest) } : PS) .LPAREN (by simp [PS.peekIs, PS.peek, h2])
  rw [e1, ps_next_clean t1 t2 _ c2]
  simp only [Bool.not_true, Bool.false_eq_true, if_false, ps_next_clean t2 t3 _ c3]
  have e2 := expectPeek_ok ({ toks := t3 :: t4 :: t5 :: t6 :: (bt ++ tEnd :: rest) } : PS) .IN (by simp [PS.peekIs, PS.peek, h4])
  rw [e2, ps_next_clean t3 t4 _ c4]
  simp only [Bool.not_true, Bool.false_eq_true, if_false, ps_next_clean t4 t5 _ c5]
  rw [show g + body.length + 7 = (g + body.length + 5) + 2 from rfl, parse_ident_rparen (g + body.length + 5) t5 t6 _ h5 h6]
  simp only []
  have e3 := expectPeek_ok ({ toks := t5 :: t6 :: (bt ++ tEnd :: rest) } : PS) .RPAREN (by simp [PS.peekIs, PS.peek, h6])
  rw [e3, ps_next_clean t5 t6 _ c6]
  simp only [Bool.not_true, Bool.false_eq_true, if_false]
  unfold parseLoopBody
  rw [show g + body.length + 5 + 2 = g + body.length + 7 from rfl, hbl]
  simp only []
  unfold loopElse
  have k1 : ({ toks := last :: tEnd :: rest } : PS).peekIs .ELSE = false := by simp [PS.peekIs, PS.peek, hEnd]
  simp only [k1, Bool.false_eq_true, if_false]
  have e4 := expectPeek_ok ({ toks := last :: tEnd :: rest } : PS) .END (by simp [PS.peekIs, PS.peek, hEnd])
  rw [e4]
  simp only [if_true, PS.cur, List.headD_cons]
  congr 1
  cases rest with
  | nil => rfl
  | cons t9 r9 => exact ps_next_clean last tEnd _ cE


/-! ### the statement loop, the evaluation, and the render -/

inductive XSpec where
  | text (t : Bytes)
  | hole (n : Bytes)
  | loop (var xs : Bytes) (ps : List Piece)

def specOfX : Stmt → Option XSpec
  | .html t => some (.text t.lit)
  | .expr _ (.ident _ n) => some (.hole n)
  | .eachS _ var (.ident _ xs) body none => if simpleBlock body = true then some (.loop var xs (piecesOf body)) else none
  | _ => none

def xspec : List XItem → List XSpec
  | [] => []
  | .text segs :: r => .text (segsLit segs) :: xspec r
  | .print _ n _ :: r => .hole n :: xspec r
  | .each _ x _ _ xs _ body :: r => .loop x xs (bpieces body) :: xspec r

theorem xkeys_clean : ∀ (items : List XItem) (x : TT × Bytes), x ∈ xkeys items → x.1 ≠ .ILLEGAL ∧ x.1 ≠ .EOF
  | [], x, h => by simp [xkeys] at h
  | .text _ :: r, x, h => by
    simp only [xkeys, List.mem_cons] at h
    rcases h with h | h
    · rw [h]; exact ⟨by simp, by simp⟩
    · exact xkeys_clean r x h
  | .print _ _ _ :: r, x, h => by
    simp only [xkeys, List.mem_cons] at h
    rcases h with h | h | h | h
    · rw [h]; exact ⟨by simp, by simp⟩
    · rw [h]; exact ⟨by simp, by simp⟩
    · rw [h]; exact ⟨by simp, by simp⟩
    · exact xkeys_clean r x h
  | .each _ _ _ _ _ _ body :: r, x, h => by
    simp only [xkeys, List.mem_cons, List.mem_append] at h
    rcases h with h | h | h | h | h | h | h | h | h
    · rw [h]; exact ⟨by simp, by simp⟩
    · rw [h]; exact ⟨by simp, by simp⟩
    · rw [h]; exact ⟨by simp, by simp⟩
    · rw [h]; exact ⟨by simp, by simp⟩
    · rw [h]; exact ⟨by simp, by simp⟩
    · rw [h]; exact ⟨by simp, by simp⟩
    · have := bkeys_clean body x h; exact ⟨this.1, this.2.1⟩
    · rw [h]; exact ⟨by simp, by simp⟩
    · exact xkeys_clean r x h

/-- how much fuel the parser needs for the statements -/
def xpfuel : List XItem → Nat
  | [] => 1
  | .text _ :: r => 2 + xpfuel r
  | .print _ _ _ :: r => 4 + xpfuel r
  | .each _ _ _ _ _ _ body :: r => body.length + 9 + xpfuel r

theorem bkeys_length (body : List BItem) : body.length ≤ (bkeys body).length := by
  induction body with
  | nil => simp [bkeys]
  | cons it r ih => cases it <;> simp [bkeys] <;> omega

theorem xpfuel_le : ∀ items : List XItem, xpfuel items ≤ 4 * (xkeys items).length + 1
  | [] => by simp [xpfuel, xkeys]
  | .text _ :: r => by have := xpfuel_le r; simp [xpfuel, xkeys]; omega
  | .print _ _ _ :: r => by have := xpfuel_le r; simp [xpfuel, xkeys]; omega
  | .each _ _ _ _ _ _ body :: r => by
    have := xpfuel_le r
    have hb := bkeys_length body
    simp [xpfuel, xkeys]; omega

theorem take_map_key {l : List Token} {a c : List (TT × Bytes)} (h : l.map key = a ++ c) :
    ∃ l1 l2, l = l1 ++ l2 ∧ l1.map key = a ∧ l2.map key = c := by
  refine ⟨l.take a.length, l.drop a.length, (List.take_append_drop _ _).symm, ?_, ?_⟩
  · rw [List.map_take, h]; simp
  · rw [List.map_drop, h]; simp

theorem parseLoop_xitems : ∀ (items : List XItem) (toks : List Token) (e : Token) (acc : List Stmt) (f : Nat),
    toks.map key = xkeys items → e.ty = .EOF → xpfuel items ≤ f →
    ∃ stmts, parseProgramLoop f acc ({ toks := toks ++ [e] } : PS) = (some (acc ++ stmts), { toks := [e] }) ∧
      stmts.map specOfX = (xspec items).map some
  | [], toks, e, acc, f, hk, he, hf => by
    have : toks = [] := by simpa [xkeys] using hk
    subst this
    obtain ⟨g, rfl⟩ : ∃ g, f = g + 1 := ⟨f - 1, by simp [xpfuel] at hf; omega⟩
    refine ⟨[], ?_, rfl⟩
    rw [parseProgramLoop]
    have c : ({ toks := [e] } : PS).curIs .EOF = true := by simp [PS.curIs, PS.cur, he]
    simp [c]
  | .text segs :: r, toks, e, acc, f, hk, he, hf => by
    cases toks with
    | nil => simp [xkeys] at hk
    | cons t rest =>
      simp only [xkeys, List.map_cons, List.cons.injEq] at hk
      obtain ⟨hkt, hkr⟩ := hk
      have ht : t.ty = .HTML := congrArg Prod.fst hkt
      have hlit : t.lit = segsLit segs := congrArg Prod.snd hkt
      obtain ⟨g, rfl⟩ : ∃ g, f = g + 1 + 1 := ⟨f - 2, by simp [xpfuel] at hf; omega⟩
      have hnill : ∀ x ∈ rest ++ [e], x.ty ≠ .ILLEGAL := by
        intro x hx
        rcases List.mem_append.mp hx with h | h
        · have : key x ∈ xkeys r := by rw [← hkr]; exact List.mem_map_of_mem h
          exact (xkeys_clean r _ this).1
        · simp at h; rw [h, he]; decide
      obtain ⟨stmts, h1, h2⟩ := parseLoop_xitems r rest e (acc ++ [Stmt.html t]) (g + 1) hkr he (by simp [xpfuel] at hf; omega)
      refine ⟨Stmt.html t :: stmts, ?_, by simp [specOfX, xspec, hlit, h2]⟩
      rw [parseProgramLoop]
      have c1 : ({ toks := t :: rest ++ [e] } : PS).curIs .EOF = false := by simp [PS.curIs, PS.cur, ht]
      have i1 : ({ toks := t :: rest ++ [e] } : PS).curIs .ILLEGAL = false := by simp [PS.curIs, PS.cur, ht]
      have hs1 : parseStatement (g + 1) ({ toks := t :: rest ++ [e] } : PS) = (.html t, { toks := t :: rest ++ [e] }) := by
        show statementBody (parseExpression g) (parseExprList g) (parseBody g) (parseIfTail g) (parseSlots g)
          ({ toks := t :: rest ++ [e] } : PS) = _
        simp [statementBody, PS.cur, ht]
      have nx : ({ toks := t :: rest ++ [e] } : PS).next = { toks := rest ++ [e] } := by
        cases hr : rest ++ [e] with
        | nil => simp at hr
        | cons t2 r2 =>
          have := ps_next_clean t t2 r2 (by rw [← hr]; exact hnill)
          simpa [hr] using this
      simp only [List.cons_append] at c1 i1 hs1 nx ⊢
      simp only [c1, Bool.false_eq_true, if_false, hs1, i1, Stmt.isBad, nx]
      rw [h1]
      simp
  | .print g1 n g2 :: r, toks, e, acc, f, hk, he, hf => by
    match toks, hk with
    | [], hk => simp [xkeys] at hk
    | [_], hk => simp [xkeys] at hk
    | [_, _], hk => simp [xkeys] at hk
    | t1 :: t2 :: t3 :: rest, hk =>
      simp only [xkeys, List.map_cons, List.cons.injEq] at hk
      obtain ⟨hk1, hk2, hk3, hkr⟩ := hk
      have ty1 : t1.ty = .LBRACES := congrArg Prod.fst hk1
      have ty2 : t2.ty = .IDENT := congrArg Prod.fst hk2
      have lit2 : t2.lit = n := congrArg Prod.snd hk2
      have ty3 : t3.ty = .RBRACES := congrArg Prod.fst hk3
      obtain ⟨g, rfl⟩ : ∃ g, f = g + 4 := ⟨f - 4, by simp [xpfuel] at hf; omega⟩
      have hnill : ∀ x ∈ rest ++ [e], x.ty ≠ .ILLEGAL := by
        intro x hx
        rcases List.mem_append.mp hx with h | h
        · have : key x ∈ xkeys r := by rw [← hkr]; exact List.mem_map_of_mem h
          exact (xkeys_clean r _ this).1
        · simp at h; rw [h, he]; decide
      have hst := parse_print_stmt g t1 t2 t3 (rest ++ [e]) ty1 ty2 ty3 hnill
      obtain ⟨stmts, h1, h2⟩ := parseLoop_xitems r rest e (acc ++ [Stmt.expr t2 (.ident t2 t2.lit)]) (g + 3) hkr he
        (by simp [xpfuel] at hf; omega)
      refine ⟨Stmt.expr t2 (.ident t2 t2.lit) :: stmts, ?_, by simp [specOfX, xspec, lit2, h2]⟩
      rw [show g + 4 = (g + 3) + 1 from rfl, parseProgramLoop]
      have c0 : ({ toks := t1 :: t2 :: t3 :: rest ++ [e] } : PS).curIs .EOF = false := by simp [PS.curIs, PS.cur, ty1]
      have i3 : ({ toks := t3 :: (rest ++ [e]) } : PS).curIs .ILLEGAL = false := by simp [PS.curIs, PS.cur, ty3]
      have nx3 : ({ toks := t3 :: (rest ++ [e]) } : PS).next = { toks := rest ++ [e] } := by
        cases hr : rest ++ [e] with
        | nil => simp at hr
        | cons t4 r4 =>
          have := ps_next_clean t3 t4 r4 (by rw [← hr]; exact hnill)
          simpa [hr] using this
      simp only [List.cons_append] at c0 hst ⊢
      simp only [c0, Bool.false_eq_true, if_false, hst, i3, Stmt.isBad, nx3]
      rw [h1]
      simp
  | .each g1 x g2 g3 xs g4 body :: r, toks, e, acc, f, hk, he, hf => by
    match toks, hk with
    | [], hk => simp [xkeys] at hk
    | [_], hk => simp [xkeys] at hk
    | [_, _], hk => simp [xkeys] at hk
    | [_, _, _], hk => simp [xkeys] at hk
    | [_, _, _, _], hk => simp [xkeys] at hk
    | [_, _, _, _, _], hk => simp [xkeys] at hk
    | t1 :: t2 :: t3 :: t4 :: t5 :: t6 :: tail, hk =>
      simp only [xkeys, List.map_cons, List.cons.injEq] at hk
      obtain ⟨hk1, hk2, hk3, hk4, hk5, hk6, hkt⟩ := hk
      obtain ⟨bt, tail2, rfl, hkb, hk2'⟩ := take_map_key hkt
      cases tail2 with
      | nil => simp at hk2'
      | cons tEnd rest =>
        simp only [List.map_cons, List.cons.injEq] at hk2'
        obtain ⟨hkE, hkr⟩ := hk2'
        have hEnd : tEnd.ty = .END := congrArg Prod.fst hkE
        have hnill : ∀ y ∈ rest ++ [e], y.ty ≠ .ILLEGAL := by
          intro y hy
          rcases List.mem_append.mp hy with h | h
          · have : key y ∈ xkeys r := by rw [← hkr]; exact List.mem_map_of_mem h
            exact (xkeys_clean r _ this).1
          · simp at h; rw [h, he]; decide
        obtain ⟨g, rfl⟩ : ∃ g, f = (g + body.length + 8) + 1 := ⟨f - (body.length + 9), by simp [xpfuel] at hf; omega⟩
        obtain ⟨bstmts, hst, hs1, hs2⟩ := parse_each_stmt g t1 t2 t3 t4 t5 t6 tEnd body bt (rest ++ [e]) (congrArg Prod.fst hk1) (congrArg Prod.fst hk2)
          (congrArg Prod.fst hk3) (congrArg Prod.fst hk4) (congrArg Prod.fst hk5) (congrArg Prod.fst hk6) hEnd hkb hnill
        obtain ⟨stmts, h1, h2⟩ := parseLoop_xitems r rest e (acc ++ [Stmt.eachS t1 t3.lit (.ident t5 t5.lit) bstmts none]) (g + body.length + 8) hkr he
          (by simp [xpfuel] at hf; omega)
        refine ⟨Stmt.eachS t1 t3.lit (.ident t5 t5.lit) bstmts none :: stmts, ?_, ?_⟩
        · rw [parseProgramLoop]
          have ty1 : t1.ty = .EACH := congrArg Prod.fst hk1
          have c0 : ({ toks := t1 :: t2 :: t3 :: t4 :: t5 :: t6 :: (bt ++ tEnd :: rest) ++ [e] } : PS).curIs .EOF = false := by
            simp [PS.curIs, PS.cur, ty1]
          have iE : ({ toks := tEnd :: (rest ++ [e]) } : PS).curIs .ILLEGAL = false := by simp [PS.curIs, PS.cur, hEnd]
          have nxE : ({ toks := tEnd :: (rest ++ [e]) } : PS).next = { toks := rest ++ [e] } := by
            cases hr : rest ++ [e] with
            | nil => simp at hr
            | cons t9 r9 =>
              have := ps_next_clean tEnd t9 r9 (by rw [← hr]; exact hnill)
              simpa [hr] using this
          have e0 : t1 :: t2 :: t3 :: t4 :: t5 :: t6 :: (bt ++ tEnd :: rest) ++ [e] = t1 :: t2 :: t3 :: t4 :: t5 :: t6 :: (bt ++ tEnd :: (rest ++ [e])) := by simp
          rw [e0] at c0 ⊢
          simp only [c0, Bool.false_eq_true, if_false, hst, iE, Stmt.isBad, nxE]
          rw [h1]
          simp
        · have l3 : t3.lit = x := congrArg Prod.snd hk3
          have l5 : t5.lit = xs := congrArg Prod.snd hk5
          simp [specOfX, xspec, l3, l5, hs1, hs2, h2]


/-- the array a name is bound to (empty when it is bound to something else) -/
def arrOf (env : Env) (xs : Bytes) : List Val :=
  match env.get xs with
  | some (.arr vs) => vs
  | _ => []

/-- every printed name is bound; every loop runs over an array of elements of one type, its
    variable is not `loop` and does not clash with a visible name of another type, and the names
    its body prints are the variable, `loop`, or visible outside -/
def xbound (env : Env) : List XSpec → Prop
  | [] => True
  | .text _ :: r => xbound env r
  | .hole n :: r => (env.get n).isSome = true ∧ xbound env r
  | .loop var xs ps :: r =>
    (∃ vs ty, env.get xs = some (.arr vs) ∧ (∀ v ∈ vs, v.type = ty) ∧ (∀ old, env.get var = some old → old.type = ty)) ∧
      (var == b "loop") = false ∧ holesVisible env var ps ∧ xbound env r

/-- the render: a loop contributes, element after element, its body filled from the environment of the pass -/
def xrender (env : Env) : List XSpec → Bytes
  | [] => []
  | .text t :: r => t ++ xrender env r
  | .hole n :: r => ((env.get n).map Val.toStr).getD [] ++ xrender env r
  | .loop var xs ps :: r => passTexts env var ps (arrOf env xs).length (arrOf env xs) 0 ++ xrender env r

/-- evaluation fuel that suffices -/
def xneed (env : Env) : List XSpec → Nat
  | [] => 1
  | .text _ :: r => 1 + max 1 (xneed env r)
  | .hole _ :: r => 1 + max 2 (xneed env r)
  | .loop _ xs ps :: r => 1 + max (ps.length + (arrOf env xs).length + 6) (xneed env r)

theorem evalProg_xspec (c : Ctx) (env : Env) : ∀ (specs : List XSpec) (ss : List Stmt) (fuel : Nat) (acc : Bytes),
    ss.map specOfX = specs.map some → xbound env specs → xneed env specs ≤ fuel →
    evalProg fuel c env ss acc = .ok (acc ++ xrender env specs, env) := by
  intro specs
  induction specs with
  | nil =>
    intro ss fuel acc hs _ hf
    have : ss = [] := by simpa using hs
    subst this
    obtain ⟨f, rfl⟩ : ∃ f, fuel = f + 1 := ⟨fuel - 1, by simp [xneed] at hf; omega⟩
    rw [evalProg_nil]; simp [xrender]
  | cons sp r ih =>
    intro ss fuel acc hs hb hf
    cases ss with
    | nil => simp at hs
    | cons st rest =>
      simp only [List.map_cons, List.cons.injEq] at hs
      obtain ⟨hs1, hsr⟩ := hs
      cases st with
      | html t =>
        simp only [specOfX, Option.some.injEq] at hs1
        subst hs1
        obtain ⟨f, rfl⟩ : ∃ f, fuel = f + 2 := ⟨fuel - 2, by simp [xneed] at hf; omega⟩
        have := ih rest (f + 1) (acc ++ t.lit) hsr (by simpa [xbound] using hb) (by simp [xneed] at hf; omega)
        rw [show f + 2 = (f + 1) + 1 from rfl, evalProg_cons, evalStmt_html, Res.bind_ok, this]
        simp [xrender, List.append_assoc]
      | expr t e =>
        cases e with
        | ident t2 n =>
          simp only [specOfX, Option.some.injEq] at hs1
          subst hs1
          have hb' : (env.get n).isSome = true ∧ xbound env r := by simpa [xbound] using hb
          obtain ⟨v, hv⟩ := Option.isSome_iff_exists.mp hb'.1
          obtain ⟨f, rfl⟩ : ∃ f, fuel = f + 3 := ⟨fuel - 3, by simp [xneed] at hf; omega⟩
          have := ih rest (f + 2) (acc ++ v.toStr) hsr hb'.2 (by simp [xneed] at hf; omega)
          rw [show f + 3 = (f + 2) + 1 from rfl, evalProg_cons, show f + 2 = (f + 1) + 1 from rfl, evalStmt_succ]
          simp only [stmtBody, calleesAt_expr, evalExpr, hv, Res.bind_ok]
          rw [show f + 1 + 1 = f + 2 from rfl, this]
          simp [xrender, hv, List.append_assoc]
        | _ => simp [specOfX] at hs1
      | eachS t var arrE body alt =>
        cases arrE with
        | ident t5 xs =>
          cases alt with
          | some _ => simp [specOfX] at hs1
          | none =>
            by_cases hsb : simpleBlock body = true
            · simp only [specOfX, hsb, if_true, Option.some.injEq] at hs1
              subst hs1
              obtain ⟨⟨vs, ty, hget, hty, hfresh⟩, hvl, hvis, hbr⟩ := hb
              have harr : arrOf env xs = vs := by simp [arrOf, hget]
              have hlen : body.length = (piecesOf body).length := simple_length body hsb
              have hex : evalExpr 1 c env.push (.ident t5 xs) = .ok (.arr vs) := by
                simp [evalExpr, env_push_get, hget]
              simp only [xneed, harr] at hf
              -- the statement
              have hstmt : ∀ F, (piecesOf body).length + vs.length + 5 ≤ F →
                  evalStmt F c env (.eachS t var (.ident t5 xs) body none) = .ok ({ text := passTexts env var (piecesOf body) vs.length vs 0 }, env) := by
                intro F hF
                by_cases hne : vs = []
                · subst hne
                  have h0 := each_empty_no_else' 1 c env t var (.ident t5 xs) body hex
                  obtain ⟨k, rfl⟩ : ∃ k, F = (1 + 1) + k := ⟨F - 2, by omega⟩
                  rw [evalStmt_lift h0 k]
                  simp [passTexts]
                · have h0 := each_of_text_and_variables' 1 c env t var (.ident t5 xs) body none vs ty hex hne hvl hfresh hty hsb hvis
                  have hm : max 1 (body.length + 3) = body.length + 3 := by omega
                  rw [hm] at h0
                  obtain ⟨k, rfl⟩ : ∃ k, F = (body.length + 3 + vs.length + 1 + 1) + k := ⟨F - (body.length + 3 + vs.length + 1 + 1), by omega⟩
                  exact evalStmt_lift h0 k
              obtain ⟨f, rfl⟩ : ∃ f, fuel = f + 1 := ⟨fuel - 1, by omega⟩
              rw [evalProg_cons, hstmt f (by omega), Res.bind_ok]
              have := ih rest f (acc ++ passTexts env var (piecesOf body) vs.length vs 0) hsr hbr (by omega)
              simp only []
              rw [this]
              simp [xrender, harr, List.append_assoc]
            · simp [specOfX, hsb] at hs1
        | _ => simp [specOfX] at hs1
      | _ => simp [specOfX] at hs1

theorem xfuel_le_src : ∀ (items : List XItem), XItemsOK items → xfuel items ≤ (xitemsSrc items).length
  | [], _ => by simp [xfuel]
  | .print g1 n g2 :: r, hok => by
    have := xfuel_le_src r hok.2.2.2
    simp [xitemsSrc, XItem.src, xfuel]; omega
  | .text segs :: r, hok => by
    have := xfuel_le_src r hok.2.2.2
    have hne : (segsSrc segs).length ≠ 0 := by
      obtain ⟨hst, _⟩ := hok
      cases segs with
      | nil => exact absurd hst (by simp [startsRun])
      | cons sg r' =>
        cases sg with
        | esc c => simp [segsSrc, Seg.src]
        | plain p =>
          cases p with
          | nil => exact absurd hst (by simp [startsRun])
          | cons c p' => simp [segsSrc, Seg.src]
    simp [xitemsSrc, XItem.src, xfuel]; omega
  | .each g1 x g2 g3 xs g4 body :: r, hok => by
    have := xfuel_le_src r hok.2.2.2.2.2.2.2.2.2
    have hb : ∀ (body : List BItem) (tl : Bytes), BodyOK tl body → (bkeys body).length ≤ (bodySrc body).length := by
      intro body
      induction body with
      | nil => intro _ _; simp [bkeys]
      | cons it rb ihb =>
        intro tl hbo
        cases it with
        | text segs =>
          have := ihb tl hbo.2.2.2.2
          have hne : (segsSrc segs).length ≠ 0 := by
            obtain ⟨hst, _⟩ := hbo
            cases segs with
            | nil => exact absurd hst (by simp [startsRun])
            | cons sg r' =>
              cases sg with
              | esc c => simp [segsSrc, Seg.src]
              | plain p =>
                cases p with
                | nil => exact absurd hst (by simp [startsRun])
                | cons c p' => simp [segsSrc, Seg.src]
          simp [bkeys, bodySrc, BItem.src]; omega
        | print g1 n g2 =>
          have := ihb tl hbo.2.2.2
          simp [bkeys, bodySrc, BItem.src]; omega
    have hbl := hb body _ hok.2.2.2.2.2.2.2.2.1
    simp [xitemsSrc, XItem.src, xfuel, kwEach, kwIn, kwEnd]; omega

theorem tokenize_xitems (items : List XItem) (hok : XItemsOK items) :
    ∃ toks e, tokenize (xitemsSrc items) = some { toks := toks ++ [e], insideCode := false, panicked := false } ∧
      toks.map key = xkeys items ∧ e.ty = .EOF := by
  have hlen := xfuel_le_src items hok
  have hpo : PrevOKX (Lx.init (xitemsSrc items)) items := prevOKX_of _ _ (by simp [Lx.prev, Lx.init])
  obtain ⟨toks, e, sf, hl, hm, he, hhf, hpf⟩ := lexAll_xitems items hok (Lx.init (xitemsSrc items)) (lexFuel (xitemsSrc items))
    rfl rfl rfl rfl rfl rfl hpo (by unfold lexFuel; omega)
  refine ⟨toks, e, ?_, hm, he⟩
  unfold tokenize
  rw [hl]
  simp [hhf, hpf]

theorem parse_xitems (items : List XItem) (hok : XItemsOK items) :
    ∃ prog, parseSource (xitemsSrc items) = .ok prog ∧ prog.stmts.map specOfX = (xspec items).map some := by
  obtain ⟨toks, e, htok, hk, he⟩ := tokenize_xitems items hok
  have hnill : ∀ x ∈ toks ++ [e], x.ty ≠ .ILLEGAL := by
    intro x hx
    rcases List.mem_append.mp hx with h | h
    · have : key x ∈ xkeys items := by rw [← hk]; exact List.mem_map_of_mem h
      exact (xkeys_clean items _ this).1
    · simp at h; rw [h, he]; decide
  have hlen : toks.length = (xkeys items).length := by rw [← hk]; simp
  have hfuel : xpfuel items ≤ parseFuel (toks ++ [e]) := by
    unfold parseFuel
    have := xpfuel_le items
    simp
    omega
  obtain ⟨stmts, h1, h2⟩ := parseLoop_xitems items toks e [] (parseFuel (toks ++ [e])) hk he hfuel
  refine ⟨{ tok := (toks ++ [e]).headD e, stmts := stmts }, ?_, h2⟩
  unfold parseSource
  rw [htok]
  simp only [Bool.false_eq_true, if_false]
  rw [initParser_clean _ hnill, h1]
  have hcur : ({ toks := toks ++ [e] } : PS).cur = (toks ++ [e]).headD e := by
    cases toks with
    | nil => rfl
    | cons t r => rfl
  rw [hcur]
  simp [finishParse]

/-- **text, `{{ name }}` and `@each(x in xs) body @end`, from the source to the output**: each loop
    renders its body once per element of the array bound to `xs`, in order, with `x` bound to the
    element and `loop` to the metadata of its position; the loop variable is gone afterwards
    (the text and prints after the loop see the outer environment) -/
theorem xitems_render (custom : List ((VType × Bytes) × Nat)) (items : List XItem) (hok : XItemsOK items)
    (data : List (Bytes × GoVal)) (env : Env) (henv : envFromMap data = .ok env) (hb : xbound env (xspec items))
    (hsize : xneed env (xspec items) ≤ evalFuel) :
    evaluateStringPure custom (xitemsSrc items) data = .ok (xrender env (xspec items)) := by
  obtain ⟨prog, hp, hs⟩ := parse_xitems items hok
  unfold evaluateStringPure envOrFail
  rw [hp]
  simp only [henv]
  rw [evalProg_xspec _ env (xspec items) prog.stmts evalFuel [] hs hb hsize]
  simp [resToOut]

end Tw
