/-
  TwProofs.Lemmas.TextComp — a page of text and `@component("name", { key: "text" })` uses, from
  the bytes of the page file to the parsed program and the recorded uses (C07).
-/
import TwProofs.Lemmas.LexCompArgs
import TwProofs.Lemmas.ParseSimpleGen
namespace Tw
open Lx

/-- one use: `@component(q n q, g3 { g4 k : g6 q2 v q2 g7 })` -/
structure Use where
  q : Byte
  n : Bytes
  g3 : Bytes
  g4 : Bytes
  k : Bytes
  g6 : Bytes
  q2 : Byte
  v : Bytes
  g7 : Bytes

def Use.code (u : Use) : Code := compCode u.q u.n u.g3 u.g4 u.k u.g6 u.q2 u.v u.g7

def Use.OK (u : Use) : Prop :=
  allWs u.g3 ∧ allWs u.g4 ∧ allWs u.g6 ∧ allWs u.g7 ∧ (u.q = 34 ∨ u.q = 39) ∧ PlainStr u.q u.n ∧ (u.q2 = 34 ∨ u.q2 = 39) ∧
    PlainStr u.q2 u.v ∧ isName u.k ∧ u.n ≠ []

instance (u : Use) : Decidable u.OK := by unfold Use.OK; exact inferInstance

inductive PItem where
  | text (segs : List Seg)
  | use (u : Use)

def PItem.g : PItem → GItem
  | .text segs => .text segs
  | .use u => .code u.code

/-- the page file -/
def compPageSrc (items : List PItem) : Bytes := gsrc (items.map PItem.g)

def afterRunP (segs : List Seg) : List PItem → Prop
  | [] => True
  | .text _ :: _ => False
  | .use _ :: _ => lastOr (segsSrc segs) 0 ≠ 92

def PItemsOK : List PItem → Prop
  | [] => True
  | .text segs :: r => startsRun segs ∧ SegsOK segs (compPageSrc r) ∧ afterRunP segs r ∧ PItemsOK r
  | .use u :: r => u.OK ∧ PItemsOK r

instance (segs : List Seg) : (r : List PItem) → Decidable (afterRunP segs r)
  | [] => isTrue trivial
  | .text _ :: _ => isFalse (by simp [afterRunP])
  | .use _ :: _ => by unfold afterRunP; exact inferInstance

instance : (items : List PItem) → Decidable (PItemsOK items)
  | [] => isTrue trivial
  | .text segs :: r => by have := instDecidablePItemsOK r; unfold PItemsOK; exact inferInstance
  | .use u :: r => by have := instDecidablePItemsOK r; unfold PItemsOK; exact inferInstance

theorem pitems_ok : ∀ items : List PItem, PItemsOK items → GItemsOK (items.map PItem.g)
  | [], _ => trivial
  | .text segs :: r, h => by
    refine ⟨h.1, h.2.1, ?_, pitems_ok r h.2.2.2⟩
    cases r with
    | nil => trivial
    | cons it r' =>
      cases it with
      | text _ => exact absurd h.2.2.1 (by simp [afterRunP])
      | use u => exact h.2.2.1
  | .use u :: r, h => by
    obtain ⟨a1, a2, a3, a4, a5, a6, a7, a8, a9, _⟩ := h.1
    exact ⟨compCode_ok u.q u.n u.g3 u.g4 u.k u.g6 u.q2 u.v u.g7 a1 a2 a3 a4 a5 a6 a7 a8 a9, pitems_ok r h.2⟩

def pkeys : List PItem → List (TT × Bytes)
  | [] => []
  | .text segs :: r => (.HTML, segsLit segs) :: pkeys r
  | .use u :: r => compKeys u.n u.k u.v ++ pkeys r

theorem gkeys_pitems : ∀ items : List PItem, gkeys (items.map PItem.g) = pkeys items
  | [] => rfl
  | .text segs :: r => by simp [gkeys, pkeys, PItem.g, gkeys_pitems r]
  | .use u :: r => by simp [gkeys, pkeys, PItem.g, Use.code, compCode, gkeys_pitems r]

theorem pkeys_clean : ∀ (items : List PItem) (x : TT × Bytes), x ∈ pkeys items → x.1 ≠ .ILLEGAL ∧ x.1 ≠ .EOF ∧ x.1 ≠ .SLOT
  | [], x, h => by simp [pkeys] at h
  | .text _ :: r, x, h => by
    simp only [pkeys, List.mem_cons] at h
    rcases h with h | h
    · rw [h]; exact ⟨by simp, by simp, by simp⟩
    · exact pkeys_clean r x h
  | .use u :: r, x, h => by
    simp only [pkeys, compKeys, List.mem_append, List.mem_cons, List.not_mem_nil, or_false] at h
    rcases h with (h | h | h | h | h | h | h | h | h | h) | h
    · rw [h]; exact ⟨by simp, by simp, by simp⟩
    · rw [h]; exact ⟨by simp, by simp, by simp⟩
    · rw [h]; exact ⟨by simp, by simp, by simp⟩
    · rw [h]; exact ⟨by simp, by simp, by simp⟩
    · rw [h]; exact ⟨by simp, by simp, by simp⟩
    · rw [h]; exact ⟨by simp, by simp, by simp⟩
    · rw [h]; exact ⟨by simp, by simp, by simp⟩
    · rw [h]; exact ⟨by simp, by simp, by simp⟩
    · rw [h]; exact ⟨by simp, by simp, by simp⟩
    · rw [h]; exact ⟨by simp, by simp, by simp⟩
    · exact pkeys_clean r x h

theorem noSlot_of_keys {rest : List Token} {e : Token} {ks : List (TT × Bytes)} (hk : rest.map key = ks)
    (hc : ∀ x ∈ ks, x.1 ≠ .ILLEGAL ∧ x.1 ≠ .EOF ∧ x.1 ≠ .SLOT) (he : e.ty = .EOF) : NoSlot (rest ++ [e]) := by
  intro x hx
  rcases List.mem_append.mp hx with h | h
  · have : key x ∈ ks := by rw [← hk]; exact List.mem_map_of_mem h
    exact (hc _ this).2.2
  · simp at h; rw [h, he]; decide

/-! ### the statement loop -/

inductive PSpec where
  | text (t : Bytes)
  | use (name k v : Bytes) (cid : Nat)

def pspecOf : Stmt → Option PSpec
  | .html t => some (.text t.lit)
  | .component _ name (some [(k, .str _ v)]) cid => some (.use name k v cid)
  | _ => none

/-- the statements of the page: the uses get the allocation numbers `base`, `base + 1`, … -/
def pspec (base : Nat) : List PItem → List PSpec
  | [] => []
  | .text segs :: r => .text (segsLit segs) :: pspec base r
  | .use u :: r => .use (compName u.n) u.k u.v base :: pspec (base + 1) r

/-- name and allocation number of the recorded uses, in order -/
def usesOf (base : Nat) : List PItem → List (Bytes × Nat)
  | [] => []
  | .text _ :: r => usesOf base r
  | .use u :: r => (compName u.n, base) :: usesOf (base + 1) r

theorem parseLoop_pitems : ∀ (items : List PItem) (toks : List Token) (e : Token) (p : PS) (acc : List Stmt) (f : Nat),
    toks.map key = pkeys items → e.ty = .EOF → p.toks = toks ++ [e] → (∀ u, PItem.use u ∈ items → u.n ≠ []) →
    items.length + 6 ≤ f →
    ∃ stmts p' cus, parseProgramLoop f acc p = (some (acc ++ stmts), p') ∧ p'.toks = [e] ∧ p'.errors = p.errors ∧ p'.oof = p.oof ∧
      p'.useName = p.useName ∧ p'.inserts = p.inserts ∧ p'.reserves = p.reserves ∧
      p'.components = p.components ++ cus ∧ cus.map (fun cu => (cu.name, cu.cid)) = usesOf p.nextId items ∧
      (∀ cu ∈ cus, cu.slots = []) ∧ stmts.map pspecOf = (pspec p.nextId items).map some
  | [], toks, e, p, acc, f, hk, he, hp, _, hf => by
    have : toks = [] := by simpa [pkeys] using hk
    subst this
    obtain ⟨g, rfl⟩ : ∃ g, f = g + 1 := ⟨f - 1, by omega⟩
    refine ⟨[], p, [], ?_, by simpa using hp, rfl, rfl, rfl, rfl, rfl, by simp, rfl, fun _ h => (by cases h), rfl⟩
    rw [parseProgramLoop]
    have c : p.curIs .EOF = true := by rw [curIs_of p e [] (by simpa using hp)]; simp [he]
    simp [c]
  | .text segs :: r, toks, e, p, acc, f, hk, he, hp, hne, hf => by
    cases toks with
    | nil => simp [pkeys] at hk
    | cons t rest =>
      simp only [pkeys, List.map_cons, List.cons.injEq] at hk
      obtain ⟨hkt, hkr⟩ := hk
      have ht : t.ty = .HTML := congrArg Prod.fst hkt
      have hlit : t.lit = segsLit segs := congrArg Prod.snd hkt
      have hcl : Clean (rest ++ [e]) := clean_of_keys hkr (fun x hx => ⟨(pkeys_clean r x hx).1, (pkeys_clean r x hx).2.1⟩) he
      obtain ⟨g, rfl⟩ : ∃ g, f = g + 2 := ⟨f - 2, by simp at hf; omega⟩
      cases hr : rest ++ [e] with
      | nil => simp at hr
      | cons tn rest' =>
        rw [hr] at hcl
        have hp' : p.toks = t :: tn :: rest' := by rw [hp]; simp [hr]
        have hloop := loop_html g acc p t tn rest' hp' ht hcl.tail
        obtain ⟨stmts, p', cus, h1, h2, h3, h4, h5, h6, h7, h8, h9, h10, h11⟩ := parseLoop_pitems r rest e { p with toks := tn :: rest' }
          (acc ++ [.html t]) (g + 1) hkr he (by simpa using hr.symm) (fun u hu => hne u (List.mem_cons_of_mem _ hu)) (by simp at hf; omega)
        refine ⟨.html t :: stmts, p', cus, ?_, h2, h3, h4, h5, h6, h7, h8, by simpa [usesOf] using h9, h10, ?_⟩
        · rw [hloop, h1]; simp
        · simp only [List.map_cons, pspec, pspecOf, hlit]
          simp only [] at h11
          rw [h11]
  | .use u :: r, toks, e, p, acc, f, hk, he, hp, hne, hf => by
    match toks, hk with
    | [], hk => simp [pkeys, compKeys] at hk
    | [_], hk => simp [pkeys, compKeys] at hk
    | [_, _], hk => simp [pkeys, compKeys] at hk
    | [_, _, _], hk => simp [pkeys, compKeys] at hk
    | [_, _, _, _], hk => simp [pkeys, compKeys] at hk
    | [_, _, _, _, _], hk => simp [pkeys, compKeys] at hk
    | [_, _, _, _, _, _], hk => simp [pkeys, compKeys] at hk
    | [_, _, _, _, _, _, _], hk => simp [pkeys, compKeys] at hk
    | [_, _, _, _, _, _, _, _], hk => simp [pkeys, compKeys] at hk
    | [_, _, _, _, _, _, _, _, _], hk => simp [pkeys, compKeys] at hk
    | t1 :: t2 :: t3 :: t4 :: t5 :: t6 :: t7 :: t8 :: t9 :: t10 :: rest, hk =>
      simp only [pkeys, compKeys, List.cons_append, List.nil_append, List.map_cons, List.cons.injEq] at hk
      obtain ⟨hk1, hk2, hk3, hk4, hk5, hk6, hk7, hk8, hk9, hk10, hkr⟩ := hk
      have ty1 : t1.ty = .COMPONENT := congrArg Prod.fst hk1
      have ty2 : t2.ty = .LPAREN := congrArg Prod.fst hk2
      have ty3 : t3.ty = .STR := congrArg Prod.fst hk3
      have lit3 : t3.lit = u.n := congrArg Prod.snd hk3
      have ty4 : t4.ty = .COMMA := congrArg Prod.fst hk4
      have ty5 : t5.ty = .LBRACE := congrArg Prod.fst hk5
      have ty6 : t6.ty = .IDENT := congrArg Prod.fst hk6
      have lit6 : t6.lit = u.k := congrArg Prod.snd hk6
      have ty7 : t7.ty = .COLON := congrArg Prod.fst hk7
      have ty8 : t8.ty = .STR := congrArg Prod.fst hk8
      have lit8 : t8.lit = u.v := congrArg Prod.snd hk8
      have ty9 : t9.ty = .RBRACE := congrArg Prod.fst hk9
      have ty10 : t10.ty = .RPAREN := congrArg Prod.fst hk10
      have hcl : Clean (rest ++ [e]) := clean_of_keys hkr (fun x hx => ⟨(pkeys_clean r x hx).1, (pkeys_clean r x hx).2.1⟩) he
      have hns : NoSlot (rest ++ [e]) := noSlot_of_keys hkr (pkeys_clean r) he
      obtain ⟨g, rfl⟩ : ∃ g, f = g + 6 := ⟨f - 6, by simp at hf; omega⟩
      have hp' : p.toks = t1 :: t2 :: t3 :: t4 :: t5 :: t6 :: t7 :: t8 :: t9 :: t10 :: (rest ++ [e]) := by simpa using hp
      have hst := parse_component_stmt g p t1 t2 t3 t4 t5 t6 t7 t8 t9 t10 (rest ++ [e]) hp' ty1 ty2 ty3 ty4 ty5 ty6 ty7 ty8 ty9 ty10 hcl
        (by rw [lit3]; exact hne u (by simp)) (by simp) hns
      cases hr : rest ++ [e] with
      | nil => simp at hr
      | cons tn rest' =>
        rw [hr] at hst hcl
        have hloop := loop_stmt_last (g + 4) acc p _ _ t1 t10 tn _ rest' hp' (by rw [ty1]; decide) hst rfl rfl (by rw [ty10]; decide) hcl.tail
        obtain ⟨stmts, p', cus, h1, h2, h3, h4, h5, h6, h7, h8, h9, h10, h11⟩ := parseLoop_pitems r rest e
          { p with toks := tn :: rest',
                   components := p.components ++ [{ tok := t1, name := compName t3.lit, cid := p.nextId, slots := [] }],
                   nextId := p.nextId + 1 }
          (acc ++ [.component t1 (compName t3.lit) (some [(t6.lit, .str t8 t8.lit)]) p.nextId]) (g + 5) hkr he
          (by simpa using hr.symm) (fun u' hu => hne u' (List.mem_cons_of_mem _ hu)) (by simp at hf; omega)
        refine ⟨.component t1 (compName t3.lit) (some [(t6.lit, .str t8 t8.lit)]) p.nextId :: stmts, p',
          { tok := t1, name := compName t3.lit, cid := p.nextId, slots := [] } :: cus, ?_, h2, h3, h4, h5, h6, h7, ?_, ?_, ?_, ?_⟩
        · rw [show g + 6 = (g + 4) + 2 from rfl, hloop]
          simp only [] at h1 ⊢
          rw [h1]; simp
        · rw [h8]; simp
        · simp only [List.map_cons, usesOf, lit3]
          simp only [] at h9
          rw [h9]
        · intro cu hcu
          rcases List.mem_cons.mp hcu with h | h
          · rw [h]
          · exact h10 cu h
        · simp only [List.map_cons, pspec, pspecOf, lit3, lit6, lit8]
          simp only [] at h11
          rw [h11]

/-- **the page file, parsed** -/
theorem parse_comp_page (items : List PItem) (hok : PItemsOK items) :
    ∃ prog, parseSource (compPageSrc items) 0 = .ok prog ∧ prog.useName = none ∧ prog.reserves = [] ∧
      prog.components.map (fun cu => (cu.name, cu.cid)) = usesOf 0 items ∧ (∀ cu ∈ prog.components, cu.slots = []) ∧
      prog.stmts.map pspecOf = (pspec 0 items).map some := by
  obtain ⟨toks, e, htok, hk, he⟩ := tokenize_gitems _ (pitems_ok items hok)
  rw [gkeys_pitems] at hk
  have hcl : Clean (toks ++ [e]) := clean_of_keys hk (fun x hx => ⟨(pkeys_clean items x hx).1, (pkeys_clean items x hx).2.1⟩) he
  have hne : ∀ u, PItem.use u ∈ items → u.n ≠ [] := by
    intro u hu
    clear htok hk hcl
    induction items with
    | nil => cases hu
    | cons it r ih =>
      rcases List.mem_cons.mp hu with h | h
      · subst h; exact hok.1.2.2.2.2.2.2.2.2.2
      · cases it with
        | text _ => exact ih hok.2.2.2 h
        | use _ => exact ih hok.2 h
  have hfuel : items.length + 6 ≤ parseFuel (toks ++ [e]) := by
    have hlen : toks.length = (pkeys items).length := by rw [← hk]; simp
    have : items.length ≤ (pkeys items).length := by
      clear hok htok hk hcl hlen hne
      induction items with
      | nil => simp
      | cons it r ih => cases it <;> simp [pkeys, compKeys] <;> omega
    unfold parseFuel
    simp
    omega
  obtain ⟨stmts, p', cus, h1, h2, h3, h4, h5, h6, h7, h8, h9, h10, h11⟩ := parseLoop_pitems items toks e ({ toks := toks ++ [e] } : PS) []
    (parseFuel (toks ++ [e])) hk he rfl hne hfuel
  refine ⟨{ tok := (toks ++ [e]).headD e, stmts := stmts, useName := none, components := cus, inserts := p'.inserts,
            reserves := [], nextId := p'.nextId }, ?_, rfl, rfl, h9, h10, h11⟩
  unfold compPageSrc parseSource
  rw [htok]
  simp only [Bool.false_eq_true, if_false]
  rw [initParser_clean _ hcl, h1]
  have hcur : ({ toks := toks ++ [e] } : PS).cur = (toks ++ [e]).headD e := by
    cases toks with
    | nil => rfl
    | cons t r => rfl
  rw [hcur]
  simp only [List.nil_append]
  rw [finishParse_clean _ _ _ (by rw [h3]) (by rw [h4]), h5, h7, h8]
  simp

end Tw
