/-
  TwProofs.Lemmas.Loops — fuel monotonicity of the loop functions, and the big-step description
  of `@each` and `@for`: the sequence of passes (C03).
-/
import TwProofs.Lemmas.EvalStep
import TwProofs.Lemmas.EvalMono

namespace Tw

theorem eachLoop_mono (fuel k : Nat) (c : Ctx) (env : Env) (t : Token) (var : Bytes) (body : List Stmt) (xs : List Val)
    (i n : Nat) (acc : Bytes) (h : eachLoop fuel c env t var body xs i n acc ≠ .oof) :
    eachLoop (fuel + k) c env t var body xs i n acc = eachLoop fuel c env t var body xs i n acc := by
  induction k with
  | zero => rfl
  | succ k ih =>
    rcases (calleesAt_stable (fuel + k)).eachL c env t var body xs i n acc with h2 | h2
    · rw [show (calleesAt (fuel + k)).eachL = eachLoop (fuel + k) from rfl, ih] at h2; exact absurd h2 h
    · rw [show (calleesAt (fuel + k + 1)).eachL = eachLoop (fuel + k + 1) from rfl,
        show (calleesAt (fuel + k)).eachL = eachLoop (fuel + k) from rfl] at h2
      rw [show fuel + (k + 1) = fuel + k + 1 from rfl, h2, ih]

theorem forLoop_mono (fuel k : Nat) (c : Ctx) (env : Env) (t : Token) (init : Option Stmt) (cnd : Option Expr)
    (post : Option Stmt) (body : List Stmt) (acc : Bytes) (h : forLoop fuel c env t init cnd post body acc ≠ .oof) :
    forLoop (fuel + k) c env t init cnd post body acc = forLoop fuel c env t init cnd post body acc := by
  induction k with
  | zero => rfl
  | succ k ih =>
    rcases (calleesAt_stable (fuel + k)).forL c env t init cnd post body acc with h2 | h2
    · rw [show (calleesAt (fuel + k)).forL = forLoop (fuel + k) from rfl, ih] at h2; exact absurd h2 h
    · rw [show (calleesAt (fuel + k + 1)).forL = forLoop (fuel + k + 1) from rfl,
        show (calleesAt (fuel + k)).forL = forLoop (fuel + k) from rfl] at h2
      rw [show fuel + (k + 1) = fuel + k + 1 from rfl, h2, ih]

/-- lift a result obtained at fuel `f` to any fuel `f + k` -/
theorem evalBlock_lift {f : Nat} {c : Ctx} {env : Env} {ss : List Stmt} {r : Out × Env} (h : evalBlock f c env ss = .ok r)
    (k : Nat) : evalBlock (f + k) c env ss = .ok r := by
  rw [evalBlock_mono f k c env ss (by rw [h]; simp), h]
theorem evalExpr_lift {f : Nat} {c : Ctx} {env : Env} {e : Expr} {v : Val} (h : evalExpr f c env e = .ok v)
    (k : Nat) : evalExpr (f + k) c env e = .ok v := by
  rw [evalExpr_mono f k c env e (by rw [h]; simp), h]
theorem evalStmt_lift {f : Nat} {c : Ctx} {env : Env} {s : Stmt} {r : Out × Env} (h : evalStmt f c env s = .ok r)
    (k : Nat) : evalStmt (f + k) c env s = .ok r := by
  rw [evalStmt_mono f k c env s (by rw [h]; simp), h]

/-! ### `@each` -/

/-- the passes of an `@each` over the remaining elements `xs`, the next one at position `i` of
    `n`: each pass binds the element, sets `loop` to the metadata of position `i`, and evaluates
    the body; a pass that ends with a break flag is the last one.  `out` is the text emitted. -/
inductive EachPasses (f : Nat) (c : Ctx) (t : Token) (var : Bytes) (body : List Stmt) (n : Nat) :
    Env → List Val → Nat → Bytes → Prop
  | done (env : Env) (i : Nat) : EachPasses f c t var body n env [] i []
  | pass (env : Env) (x : Val) (rest : List Val) (i : Nat) (env1 : Env) (r : Out × Env) (out : Bytes) :
      setVar env var x t.errorLine = .ok env1 →
      evalBlock f c (env1.setLoop (loopObj i n)) body = .ok r →
      r.1.brk = false →
      EachPasses f c t var body n r.2 rest (i + 1) out →
      EachPasses f c t var body n env (x :: rest) i (r.1.text ++ out)
  | brk (env : Env) (x : Val) (rest : List Val) (i : Nat) (env1 : Env) (r : Out × Env) :
      setVar env var x t.errorLine = .ok env1 →
      evalBlock f c (env1.setLoop (loopObj i n)) body = .ok r →
      r.1.brk = true →
      EachPasses f c t var body n env (x :: rest) i r.1.text

/-- the loop of `@each` emits exactly the text of its passes, in order -/
theorem eachLoop_passes {f : Nat} {c : Ctx} {t : Token} {var : Bytes} {body : List Stmt} {n : Nat}
    {env : Env} {xs : List Val} {i : Nat} {out : Bytes} (h : EachPasses f c t var body n env xs i out) :
    ∀ acc, eachLoop (f + xs.length + 1) c env t var body xs i n acc = .ok (acc ++ out) := by
  induction h with
  | done env i => intro acc; rw [eachLoop_succ]; simp [eachBody]
  | pass env x rest i env1 r out hs hb hbrk _ ih =>
    intro acc
    rw [List.length_cons, show f + (rest.length + 1) + 1 = (f + rest.length + 1) + 1 from rfl, eachLoop_succ]
    simp only [eachBody, calleesAt_block, calleesAt_eachL]
    rw [hs, Res.bind_ok, show f + rest.length + 1 = f + (rest.length + 1) from rfl, evalBlock_lift hb, Res.bind_ok]
    simp only [hbrk, Bool.false_eq_true, if_false]
    rw [show f + (rest.length + 1) = f + rest.length + 1 from rfl, ih, List.append_assoc]
  | brk env x rest i env1 r hs hb hbrk =>
    intro acc
    rw [List.length_cons, show f + (rest.length + 1) + 1 = (f + rest.length + 1) + 1 from rfl, eachLoop_succ]
    simp only [eachBody, calleesAt_block, calleesAt_eachL]
    rw [hs, Res.bind_ok, show f + rest.length + 1 = f + (rest.length + 1) from rfl, evalBlock_lift hb, Res.bind_ok]
    simp only [hbrk, if_true]

end Tw

namespace Tw

/-! ### `@for` -/

/-- the value of the loop condition (absent = true) -/
def CondIs (f : Nat) (c : Ctx) (env : Env) (cnd : Option Expr) (bv : Bool) : Prop :=
  match cnd with
  | none => bv = true
  | some ce => ∃ v, evalExpr f c env ce = .ok v ∧ isTruthy v = bv

/-- what the post clause does to the environment after a pass -/
def postRes (f : Nat) (c : Ctx) (t : Token) (init post : Option Stmt) (env : Env) : Res Env :=
  match post with
  | none => .ok env
  | some (.expr _ pe) =>
    (evalExpr f c env pe).bind fun pv =>
      match init with
      | some (.assign _ name _) => setVar env name pv t.errorLine
      | _ => .ok env
  | some ps => (evalStmt f c env ps).bind fun r2 => .ok r2.2

theorem condTruth_of {f : Nat} {c : Ctx} {env : Env} {cnd : Option Expr} {bv : Bool} (h : CondIs f c env cnd bv) (k : Nat) :
    loopCond (evalExpr (f + k)) c env cnd = .ok bv := by
  cases cnd with
  | none => simp only [CondIs] at h; rw [h]; rfl
  | some ce =>
    obtain ⟨v, hv, hb⟩ := h
    simp only [loopCond, condTruth]
    rw [evalExpr_lift hv, Res.bind_ok, hb]

theorem forLoop_step (F : Nat) (c : Ctx) (env : Env) (t : Token) (init : Option Stmt) (cnd : Option Expr)
    (post : Option Stmt) (body : List Stmt) (acc : Bytes) (r : Out × Env)
    (hc : loopCond (evalExpr F) c env cnd = .ok true)
    (hb : evalBlock F c env body = .ok r) (hbrk : r.1.brk = false) :
    forLoop (F + 1) c env t init cnd post body acc =
      (postRes F c t init post r.2).bind fun env2 => forLoop F c env2 t init cnd post body (acc ++ r.1.text) := by
  rw [forLoop_succ]
  simp only [forBody, calleesAt_expr, calleesAt_block, calleesAt_forL, calleesAt_stmt]
  rw [hc, Res.bind_ok]
  simp only [Bool.not_true, Bool.false_eq_true, if_false]
  rw [hb, Res.bind_ok]
  simp only [hbrk, Bool.false_eq_true, if_false]
  cases post with
  | none => simp [postRes]
  | some ps =>
    cases ps with
    | expr t2 pe =>
      simp only [postRes]
      cases evalExpr F c r.2 pe with
      | ok pv =>
        simp only [Res.bind_ok]
        cases init with
        | none => simp
        | some i => cases i <;> simp
      | err a l as => simp
      | panic w => simp
      | oof => simp
    | _ =>
      simp only [postRes]
      cases evalStmt F c r.2 _ with
      | ok r2 => simp
      | err a l as => simp
      | panic w => simp
      | oof => simp

/-- the passes of a `@for` loop from environment `env`: `m` is their number, `out` their text -/
inductive ForPasses (f : Nat) (c : Ctx) (t : Token) (init : Option Stmt) (cnd : Option Expr) (post : Option Stmt)
    (body : List Stmt) : Env → Nat → Bytes → Prop
  | stop (env : Env) : CondIs f c env cnd false → ForPasses f c t init cnd post body env 0 []
  | pass (env : Env) (r : Out × Env) (env2 : Env) (m : Nat) (out : Bytes) :
      CondIs f c env cnd true →
      evalBlock f c env body = .ok r →
      r.1.brk = false →
      postRes f c t init post r.2 = .ok env2 →
      ForPasses f c t init cnd post body env2 m out →
      ForPasses f c t init cnd post body env (m + 1) (r.1.text ++ out)
  | brk (env : Env) (r : Out × Env) :
      CondIs f c env cnd true →
      evalBlock f c env body = .ok r →
      r.1.brk = true →
      ForPasses f c t init cnd post body env 1 r.1.text

theorem postRes_lift {f : Nat} {c : Ctx} {t : Token} {init post : Option Stmt} {env env2 : Env}
    (h : postRes f c t init post env = .ok env2) (k : Nat) : postRes (f + k) c t init post env = .ok env2 := by
  cases post with
  | none => exact h
  | some ps =>
    cases ps with
    | expr t2 pe =>
      simp only [postRes] at h ⊢
      cases hv : evalExpr f c env pe with
      | ok pv => rw [evalExpr_lift hv]; rw [hv] at h; exact h
      | err a l as => rw [hv] at h; simp at h
      | panic w => rw [hv] at h; simp at h
      | oof => rw [hv] at h; simp at h
    | _ =>
      simp only [postRes] at h ⊢
      cases hv : evalStmt f c env _ with
      | ok r2 => rw [evalStmt_lift hv]; rw [hv] at h; exact h
      | err a l as => rw [hv] at h; simp at h
      | panic w => rw [hv] at h; simp at h
      | oof => rw [hv] at h; simp at h

/-- the loop of `@for` emits exactly the text of its passes, in order -/
theorem forLoop_passes {f : Nat} {c : Ctx} {t : Token} {init : Option Stmt} {cnd : Option Expr} {post : Option Stmt}
    {body : List Stmt} {env : Env} {m : Nat} {out : Bytes} (h : ForPasses f c t init cnd post body env m out) :
    ∀ acc, forLoop (f + m + 1) c env t init cnd post body acc = .ok (acc ++ out) := by
  induction h with
  | stop env hc =>
    intro acc
    rw [forLoop_succ]
    simp only [forBody, calleesAt_expr]
    have := condTruth_of hc 0
    rw [Nat.add_zero] at this
    rw [this, Res.bind_ok]
    simp
  | pass env r env2 m out hc hb hbrk hp _ ih =>
    intro acc
    rw [show f + (m + 1) + 1 = (f + (m + 1)) + 1 from rfl,
      forLoop_step (f + (m + 1)) c env t init cnd post body acc r (condTruth_of hc _) (evalBlock_lift hb _) hbrk,
      postRes_lift hp, Res.bind_ok, show f + (m + 1) = f + m + 1 from rfl, ih, List.append_assoc]
  | brk env r hc hb hbrk =>
    intro acc
    rw [show f + 1 + 1 = (f + 1) + 1 from rfl, forLoop_succ]
    simp only [forBody, calleesAt_expr, calleesAt_block]
    rw [condTruth_of hc 1, Res.bind_ok]
    simp only [Bool.not_true, Bool.false_eq_true, if_false]
    rw [evalBlock_lift hb, Res.bind_ok]
    simp only [hbrk, if_true]

end Tw
