/-
  TwProofs.Lemmas.ScopeEval — evaluation of text, prints, assignments and `@if` blocks with their
  scopes: an assignment writes into the innermost scope, a block evaluates its body in a new
  scope and hands the caller's environment back (C04).
-/
import TwProofs.Lemmas.ScopeTop
import TwProofs.Lemmas.TextIfChain
namespace Tw

/-- `Env.Set` when it succeeds: the innermost scope gets the binding -/
def setTop (env : Env) (n : Bytes) (v : Val) : Env :=
  match env with
  | [] => [[(n, v)]]
  | s :: o => mapSet s n v :: o

/-- text and final environment of a body -/
def aeval (env : Env) : List AItem → Bytes × Env
  | [] => ([], env)
  | .text t :: r => (t ++ (aeval env r).1, (aeval env r).2)
  | .print _ n _ :: r => (((env.get n).map Val.toStr).getD [] ++ (aeval env r).1, (aeval env r).2)
  | .assign _ n _ _ _ v _ :: r => aeval (setTop env n (.str (literalValue v))) r

/-- printed names are bound where they are printed; assigned names are not `loop` and hold a string
    (or nothing) where they are assigned -/
def abound (env : Env) : List AItem → Prop
  | [] => True
  | .text _ :: r => abound env r
  | .print _ n _ :: r => (env.get n).isSome = true ∧ abound env r
  | .assign _ n _ _ _ v _ :: r =>
    (n == b "loop") = false ∧ (∀ old, env.get n = some old → old.type = .STRING) ∧ abound (setTop env n (.str (literalValue v))) r

theorem evalStmt_assign_str (f : Nat) (c : Ctx) (env : Env) (t tv : Token) (n v : Bytes) (hn : (n == b "loop") = false)
    (hty : ∀ old, env.get n = some old → old.type = .STRING) :
    evalStmt (f + 2) c env (.assign t n (.str tv v)) = .ok ({}, setTop env n (.str (literalValue v))) := by
  rw [show f + 2 = (f + 1) + 1 from rfl, evalStmt_succ]
  simp only [stmtBody, calleesAt_expr, evalExpr, Res.bind_ok]
  have hset : setVar env n (.str (literalValue v)) t.errorLine = .ok (setTop env n (.str (literalValue v))) := by
    unfold setVar Env.set
    rw [if_neg (by simpa using hn)]
    cases hg : env.get n with
    | none => cases env <;> rfl
    | some old =>
      have := hty old hg
      simp only []
      rw [this]
      cases env <;> simp [Val.type, setTop]
  rw [hset]
  rfl

theorem evalStmt_print (f : Nat) (c : Ctx) (env : Env) (t t2 : Token) (n : Bytes) (v : Val) (hv : env.get n = some v) :
    evalStmt (f + 2) c env (.expr t (.ident t2 n)) = .ok ({ text := v.toStr }, env) := by
  rw [show f + 2 = (f + 1) + 1 from rfl, evalStmt_succ]
  simp only [stmtBody, calleesAt_expr, evalExpr, hv, Res.bind_ok]

theorem evalBlock_abody (c : Ctx) : ∀ (stmts : List Stmt) (body : List AItem), AMatch stmts body → ∀ (env : Env) (fuel : Nat),
    abound env body → body.length + 3 ≤ fuel →
    evalBlock fuel c env stmts = .ok ({ text := (aeval env body).1 }, (aeval env body).2) := by
  intro stmts body hm
  induction hm with
  | nil =>
    intro env fuel _ hf
    obtain ⟨f, rfl⟩ : ∃ f, fuel = f + 1 := ⟨fuel - 1, by omega⟩
    rw [evalBlock_nil]; rfl
  | text t txt ss r hlit _ ih =>
    intro env fuel hb hf
    obtain ⟨f, rfl⟩ : ∃ f, fuel = f + 2 := ⟨fuel - 2, by simp at hf; omega⟩
    have := ih env (f + 1) (by simpa [abound] using hb) (by simp at hf; omega)
    rw [show f + 2 = (f + 1) + 1 from rfl, evalBlock_cons, evalStmt_html, Res.bind_ok]
    simp only [Bool.or_self, Bool.false_eq_true, if_false]
    rw [this, Res.bind_ok]
    simp [aeval, hlit]
  | print t t2 g1 n g2 ss r _ ih =>
    intro env fuel hb hf
    obtain ⟨f, rfl⟩ : ∃ f, fuel = f + 3 := ⟨fuel - 3, by simp at hf; omega⟩
    obtain ⟨hbn, hbr⟩ := hb
    obtain ⟨v, hv⟩ := Option.isSome_iff_exists.mp hbn
    have := ih env (f + 2) hbr (by simp at hf; omega)
    rw [show f + 3 = (f + 2) + 1 from rfl, evalBlock_cons, evalStmt_print f c env t t2 n v hv, Res.bind_ok]
    simp only [Bool.or_self, Bool.false_eq_true, if_false]
    rw [this, Res.bind_ok]
    simp [aeval, hv]
  | assign t tv g1 n g2 g3 q v g4 ss r _ ih =>
    intro env fuel hb hf
    obtain ⟨f, rfl⟩ : ∃ f, fuel = f + 3 := ⟨fuel - 3, by simp at hf; omega⟩
    obtain ⟨hn, hty, hbr⟩ := hb
    have := ih (setTop env n (.str (literalValue v))) (f + 2) hbr (by simp at hf; omega)
    rw [show f + 3 = (f + 2) + 1 from rfl, evalBlock_cons, evalStmt_assign_str f c env t tv n v hn hty, Res.bind_ok]
    simp only [Bool.or_self, Bool.false_eq_true, if_false]
    rw [this, Res.bind_ok]
    simp [aeval]

/-- text and final environment of a template: an `@if` block contributes the text of its body,
    evaluated in a new scope, when its name is truthy — and never changes the environment -/
def seval (env : Env) : List SItem → Bytes × Env
  | [] => ([], env)
  | .text segs :: r => (segsLit segs ++ (seval env r).1, (seval env r).2)
  | .print _ n _ :: r => (((env.get n).map Val.toStr).getD [] ++ (seval env r).1, (seval env r).2)
  | .assign _ n _ _ _ v _ :: r => seval (setTop env n (.str (literalValue v))) r
  | .ifb _ c _ body :: r => ((if truthyOf env c then (aeval env.push body).1 else []) ++ (seval env r).1, (seval env r).2)

def sbound (env : Env) : List SItem → Prop
  | [] => True
  | .text _ :: r => sbound env r
  | .print _ n _ :: r => (env.get n).isSome = true ∧ sbound env r
  | .assign _ n _ _ _ v _ :: r =>
    (n == b "loop") = false ∧ (∀ old, env.get n = some old → old.type = .STRING) ∧ sbound (setTop env n (.str (literalValue v))) r
  | .ifb _ c _ body :: r => (env.get c).isSome = true ∧ (truthyOf env c = true → abound env.push body) ∧ sbound env r

def sneed : List SItem → Nat
  | [] => 1
  | .text _ :: r => 1 + max 1 (sneed r)
  | .print _ _ _ :: r => 1 + max 2 (sneed r)
  | .assign _ _ _ _ _ _ _ :: r => 1 + max 2 (sneed r)
  | .ifb _ _ _ body :: r => 1 + max (body.length + 5) (sneed r)

theorem evalProg_sitems (c : Ctx) : ∀ (ss : List Stmt) (items : List SItem), SMatch ss items → ∀ (env : Env) (fuel : Nat) (acc : Bytes),
    sbound env items → sneed items ≤ fuel → evalProg fuel c env ss acc = .ok (acc ++ (seval env items).1, (seval env items).2) := by
  intro ss items hm
  induction hm with
  | nil =>
    intro env fuel acc _ hf
    obtain ⟨f, rfl⟩ : ∃ f, fuel = f + 1 := ⟨fuel - 1, by simp [sneed] at hf; omega⟩
    rw [evalProg_nil]; simp [seval]
  | text t segs ss r hlit _ ih =>
    intro env fuel acc hb hf
    obtain ⟨f, rfl⟩ : ∃ f, fuel = f + 2 := ⟨fuel - 2, by simp [sneed] at hf; omega⟩
    have := ih env (f + 1) (acc ++ t.lit) (by simpa [sbound] using hb) (by simp [sneed] at hf; omega)
    rw [show f + 2 = (f + 1) + 1 from rfl, evalProg_cons, evalStmt_html, Res.bind_ok, this]
    simp [seval, hlit, List.append_assoc]
  | print t t2 g1 n g2 ss r _ ih =>
    intro env fuel acc hb hf
    obtain ⟨f, rfl⟩ : ∃ f, fuel = f + 3 := ⟨fuel - 3, by simp [sneed] at hf; omega⟩
    obtain ⟨hbn, hbr⟩ := hb
    obtain ⟨v, hv⟩ := Option.isSome_iff_exists.mp hbn
    have := ih env (f + 2) (acc ++ v.toStr) hbr (by simp [sneed] at hf; omega)
    rw [show f + 3 = (f + 2) + 1 from rfl, evalProg_cons, evalStmt_print f c env t t2 n v hv, Res.bind_ok, this]
    simp [seval, hv, List.append_assoc]
  | assign t tv g1 n g2 g3 q v g4 ss r _ ih =>
    intro env fuel acc hb hf
    obtain ⟨f, rfl⟩ : ∃ f, fuel = f + 3 := ⟨fuel - 3, by simp [sneed] at hf; omega⟩
    obtain ⟨hn, hty, hbr⟩ := hb
    have := ih (setTop env n (.str (literalValue v))) (f + 2) acc hbr (by simp [sneed] at hf; omega)
    rw [show f + 3 = (f + 2) + 1 from rfl, evalProg_cons, evalStmt_assign_str f c env t tv n v hn hty, Res.bind_ok]
    simp only [List.append_nil]
    rw [this]
    simp [seval]
  | ifb t1 t3 g1 cn g2 body bs ss r hbm _ ih =>
    intro env fuel acc hb hf
    obtain ⟨f, rfl⟩ : ∃ f, fuel = f + 3 := ⟨fuel - 3, by simp [sneed] at hf; omega⟩
    obtain ⟨hbc, hbb, hbr⟩ := hb
    obtain ⟨v, hv⟩ := Option.isSome_iff_exists.mp hbc
    rw [show f + 3 = (f + 2) + 1 from rfl, evalProg_cons, show f + 2 = (f + 1) + 1 from rfl, evalStmt_ifS]
    have he : evalExpr (f + 1) c env (.ident t3 cn) = .ok v := by simp [evalExpr, hv]
    rw [he, Res.bind_ok]
    by_cases ht : isTruthy v = true
    · have htt : truthyOf env cn = true := by simp [truthyOf, hv, ht]
      rw [if_pos ht, evalBlock_abody c bs body hbm env.push (f + 1) (hbb htt) (by simp [sneed] at hf; omega), Res.bind_ok, Res.bind_ok]
      have := ih env (f + 1 + 1) (acc ++ (aeval env.push body).1) hbr (by simp [sneed] at hf; omega)
      simp only []
      rw [this]
      simp [seval, htt, List.append_assoc]
    · have htf : truthyOf env cn = false := by simp [truthyOf, hv]; simpa using ht
      rw [if_neg ht, evalElseIfs_nil, Res.bind_ok]
      have := ih env (f + 1 + 1) acc hbr (by simp [sneed] at hf; omega)
      simp only [List.append_nil]
      rw [this]
      simp [seval, htf]

/-- **an `@if` block never changes the environment of what follows it**, whatever it assigns -/
theorem seval_ifb_env (env : Env) (g1 c g2 : Bytes) (body : List AItem) (r : List SItem) :
    (seval env (.ifb g1 c g2 body :: r)).2 = (seval env r).2 := rfl

end Tw
