/-
  TwProofs.Lemmas.ParseEval — parser and evaluator composed: on the fragment of the Pratt
  round trip the value of the parsed tokens is the denotation of the printed tree (C01).
-/
import TwProofs.Lemmas.SpecSim
import TwProofs.Lemmas.PrattRoundTrip
namespace Tw
open TwSpec

/-- the token-free tree of a fragment expression -/
def BE.toS : BE → SExpr
  | .ident t => .var t.lit
  | .pre op r => if op.ty == .SUB then .neg r.toS else .not r.toS
  | .bin op l r => .bin op.lit l.toS r.toS
  | .tern _ _ cnd a bb => .tern cnd.toS a.toS bb.toS

theorem fragment_wf : ∀ (e : BE), e.ok → e.canon → Expr.wf e.toExpr ∧ e.toExpr.toS = e.toS
  | .ident t, _, _ => by simp [BE.toExpr, Expr.wf, Expr.toS, BE.toS]
  | .pre op r, hok, hc => by
    obtain ⟨hop, hr⟩ := hok
    obtain ⟨h1, h2, hcr⟩ := hc
    obtain ⟨ihw, ihs⟩ := fragment_wf r hr hcr
    rcases hop with ho | ho
    · have hl := h1 ho
      simp [BE.toExpr, Expr.wf, Expr.toS, BE.toS, hl, ho, ihw, ihs]
    · have hl := h2 ho
      have hne : (b "!" == b "-") = false := by decide
      simp [BE.toExpr, Expr.wf, Expr.toS, BE.toS, hl, ho, ihw, ihs, hne]
  | .bin op l r, hok, hc => by
    obtain ⟨_, hl, hr⟩ := hok
    obtain ⟨il, ils⟩ := fragment_wf l hl hc.1
    obtain ⟨ir, irs⟩ := fragment_wf r hr hc.2
    simp [BE.toExpr, Expr.wf, Expr.toS, BE.toS, il, ir, ils, irs]
  | .tern q c cnd a bb, hok, hc => by
    obtain ⟨_, _, h1, h2, h3⟩ := hok
    obtain ⟨i1, s1⟩ := fragment_wf cnd h1 hc.1
    obtain ⟨i2, s2⟩ := fragment_wf a h2 hc.2.1
    obtain ⟨i3, s3⟩ := fragment_wf bb h3 hc.2.2
    simp [BE.toExpr, Expr.wf, Expr.toS, BE.toS, i1, i2, i3, s1, s2, s3]

/-- **parser and evaluator together compute the denotation of the abstract tree**: print any tree
    of the fragment (identifiers, `-` `!`, the binary operators, the ternary; minimal or redundant
    parentheses), let the model parse the tokens and evaluate the result in any environment —
    the value is `seval` of the tree that was printed, and where there is no value the result
    is an error -/
theorem parse_then_eval_is_denotation (lp rp : Token) (hlp : lp.ty = .LPAREN) (hrp : rp.ty = .RPAREN)
    (extra : BE → Bool) (e : BE) (hok : e.ok) (hcanon : e.canon) (k : List Token) (hk : NoIll k) (hstop : StopR LOWEST k) :
    ∃ N, ∀ f, N ≤ f → ∀ p : PS, ∀ (fuel : Nat) (c : Ctx) (env : Env), c.custom = [] →
      Agrees (evalExpr fuel c env (parseExpression f LOWEST (p.withToks (showAt lp rp extra (LOWEST + 1) e ++ k))).1)
        (seval env e.toS) := by
  obtain ⟨N, hN⟩ := parse_print lp rp hlp hrp extra e hok k hk hstop
  refine ⟨N, fun f hf p fuel c env hc => ?_⟩
  rw [hN f hf p]
  obtain ⟨hw, hs⟩ := fragment_wf e hok hcanon
  have := (eval_sim fuel).1 c env e.toExpr hc hw
  rw [hs] at this
  exact this

end Tw
