/-
  TwProofs.Lemmas.TextMixed — `{{ digits + "text" }}`: an integer and a string joined with "+", from the
  source bytes to the parsed program (C01: mixed operand types are an error).
-/
import TwProofs.Lemmas.TextNeg
namespace Tw
open Lx

/-- `{{ g1 d g3 + g4 "c" g2 }}` -/
def mixedSrc (g1 d g3 g4 : Bytes) (q : Byte) (c g2 : Bytes) : Bytes :=
  [123, 123] ++ g1 ++ d ++ g3 ++ [43] ++ g4 ++ (q :: (c ++ [q])) ++ g2 ++ [125, 125]

def mixedKeys (d c : Bytes) : List (TT × Bytes) :=
  [(.LBRACES, [123, 123]), (.INT, d), (.ADD, [43]), (.STR, c), (.RBRACES, [125, 125])]

theorem lex_mixed (s : Lx) (g1 d g3 g4 : Bytes) (q : Byte) (c g2 tl : Bytes) (hh : s.isHTML = true) (hb : s.braces = 0)
    (hg1 : allWs g1) (hg2 : allWs g2) (hg3 : allWs g3) (hg4 : allWs g4) (hd : isDigits d) (hq : q = 34 ∨ q = 39) (hp : PlainStr q c)
    (hr : s.rest = mixedSrc g1 d g3 g4 q c g2 ++ tl) :
    ∃ toks s5, Run s toks s5 ∧ toks.map key = mixedKeys d c ∧ s5.rest = tl ∧ s5.prev = 125 ∧
      mode s5 = (true, s.isDirective, s.parens, 0, s.panicked) := by
  have hr' : s.rest = 123 :: 123 :: (g1 ++ (d ++ (g3 ++ (43 :: (g4 ++ (q :: (c ++ q :: (g2 ++ (125 :: 125 :: tl))))))))) := by
    rw [hr]; simp [mixedSrc, List.append_assoc]
  obtain ⟨t1, s1, st1, k1, ne1, r1, _, m1⟩ := lex_open s _ hh hr' (ws_then_digits_not_op g1 d _ 45 hg1 hd (by decide) (by decide))
  obtain ⟨a1, a2, a3, a4, a5⟩ := mode_fields m1
  have hx2 := ws_then_op_not_number g3 (g4 ++ (q :: (c ++ q :: (g2 ++ (125 :: 125 :: tl))))) 43 hg3 (by decide) (by decide)
  obtain ⟨t2, s2, st2, k2, ne2, b2⟩ := code_int_step s1 g1 d _ a1 hg1 hd r1 hx2.1 hx2.2
  have h2 : s2.isHTML = false := by rw [mode_html b2.md]; exact a1
  have hx3 : (g4 ++ (q :: (c ++ q :: (g2 ++ (125 :: 125 :: tl))))).headD 0 ≠ 43 := by
    cases g4 with
    | nil => simp only [List.nil_append, List.headD_cons]; rcases hq with h | h <;> (rw [h]; decide)
    | cons w t =>
      have hw : isWs w = true := hg4 w List.mem_cons_self
      simp only [List.cons_append, List.headD_cons]
      intro e; rw [e] at hw; cases hw
  obtain ⟨t3, s3, st3, k3, ty3, b3⟩ := code_arithop_step s2 43 .ADD SUM g3 _ addOp h2 hg3 b2.rest hx3
  have h3 : s3.isHTML = false := by rw [mode_html b3.md]; exact h2
  obtain ⟨t4, s4, st4, k4, ne4, b4⟩ := code_str_step s3 g4 q c _ h3 hg4 hq hp b3.rest
  have h4 : s4.isHTML = false := by rw [mode_html b4.md]; exact h3
  have br4 : s4.braces = 0 := by rw [mode_braces b4.md, mode_braces b3.md, mode_braces b2.md, a4]; exact hb
  obtain ⟨t5, s5, st5, k5, ne5, r5, pv5, m5⟩ := code_close_step s4 g2 tl h4 br4 hg2 b4.rest
  refine ⟨[t1, t2, t3, t4, t5], s5, ?_, ?_, r5, pv5, ?_⟩
  · exact Run.cons _ _ _ _ _ st1 ne1 (Run.cons _ _ _ _ _ st2 ne2 (Run.cons _ _ _ _ _ st3 (by rw [ty3]; decide) (Run.cons _ _ _ _ _ st4 ne4
      (Run.cons _ _ _ _ _ st5 ne5 (Run.nil _)))))
  · simp [mixedKeys, k1, k2, k3, k4, k5]
  · rw [m5, mode_dir b4.md, mode_dir b3.md, mode_dir b2.md, a2, mode_parens b4.md, mode_parens b3.md, mode_parens b2.md, a3,
      mode_pan b4.md, mode_pan b3.md, mode_pan b2.md, a5]

def mixedCode (g1 d g3 g4 : Bytes) (q : Byte) (c g2 : Bytes) : Code := { src := mixedSrc g1 d g3 g4 q c g2, keys := mixedKeys d c }

theorem mixedCode_ok (g1 d g3 g4 : Bytes) (q : Byte) (c g2 : Bytes) (hg1 : allWs g1) (hg2 : allWs g2) (hg3 : allWs g3) (hg4 : allWs g4)
    (hd : isDigits d) (hq : q = 34 ∨ q = 39) (hp : PlainStr q c) : (mixedCode g1 d g3 g4 q c g2).OK := by
  refine ⟨?_, ?_, ?_⟩
  · intro tl
    exact Or.inr (Or.inl ⟨g1 ++ d ++ g3 ++ [43] ++ g4 ++ (q :: (c ++ [q])) ++ g2 ++ [125, 125] ++ tl, by simp [mixedCode, mixedSrc, List.append_assoc]⟩)
  · simp [mixedCode, mixedSrc, mixedKeys]; omega
  · intro s tl hr hh hb hpa hdi _
    obtain ⟨toks, s5, run, hkeys, r5, pv5, m5⟩ := lex_mixed s g1 d g3 g4 q c g2 tl hh hb hg1 hg2 hg3 hg4 hd hq hp hr
    obtain ⟨f1, f2, f3, f4, f5⟩ := mode_fields m5
    exact ⟨toks, s5, run, hkeys, r5, f1, f4, by rw [f3]; exact hpa, by rw [f2]; exact hdi, f5, by rw [pv5]; decide⟩

/-- **`{{ d + "c" }}`, parsed** -/
theorem parse_mixed_source (g1 d g3 g4 : Bytes) (q : Byte) (c g2 : Bytes) (hg1 : allWs g1) (hg2 : allWs g2) (hg3 : allWs g3) (hg4 : allWs g4)
    (hd : isDigits d) (hq : q = 34 ∨ q = 39) (hp : PlainStr q c) (hb : digitsToNat d ≤ 9223372036854775807) :
    ∃ prog t2 t3 t4, parseSource (mixedSrc g1 d g3 g4 q c g2) = .ok prog ∧
      prog.stmts = [.expr t4 (.inf t3 [43] (.int t2 (Int64.ofNat (digitsToNat d))) (.str t4 c))] := by
  have hok : GItemsOK [.code (mixedCode g1 d g3 g4 q c g2)] := ⟨mixedCode_ok g1 d g3 g4 q c g2 hg1 hg2 hg3 hg4 hd hq hp, trivial⟩
  obtain ⟨toks, e, htok, hkeys, he⟩ := tokenize_gitems _ hok
  have hsrc : gsrc [.code (mixedCode g1 d g3 g4 q c g2)] = mixedSrc g1 d g3 g4 q c g2 := by simp [gsrc, GItem.src, mixedCode]
  rw [hsrc] at htok
  have hk' : toks.map key = mixedKeys d c := by simpa [gkeys, mixedCode] using hkeys
  match toks, hk' with
  | [], hk' => simp [mixedKeys] at hk'
  | [_], hk' => simp [mixedKeys] at hk'
  | [_, _], hk' => simp [mixedKeys] at hk'
  | [_, _, _], hk' => simp [mixedKeys] at hk'
  | [_, _, _, _], hk' => simp [mixedKeys] at hk'
  | _ :: _ :: _ :: _ :: _ :: _ :: _, hk' => simp [mixedKeys] at hk'
  | [t1, t2, t3, t4, t5], hk' =>
    simp only [mixedKeys, List.map_cons, List.map_nil, List.cons.injEq, and_true] at hk'
    obtain ⟨hk1, hk2, hk3, hk4, hk5⟩ := hk'
    have ty1 : t1.ty = .LBRACES := congrArg Prod.fst hk1
    have ty2 : t2.ty = .INT := congrArg Prod.fst hk2
    have lit2 : t2.lit = d := congrArg Prod.snd hk2
    have ty3 : t3.ty = .ADD := congrArg Prod.fst hk3
    have lit3 : t3.lit = [43] := congrArg Prod.snd hk3
    have ty4 : t4.ty = .STR := congrArg Prod.fst hk4
    have lit4 : t4.lit = c := congrArg Prod.snd hk4
    have ty5 : t5.ty = .RBRACES := congrArg Prod.fst hk5
    have hce : ∀ x ∈ [e], x.ty ≠ .ILLEGAL := by intro x hx; simp at hx; rw [hx, he]; decide
    have c5 := noill_cons (t := t5) (by rw [ty5]; decide) hce
    have c4 := noill_cons (t := t4) (by rw [ty4]; decide) c5
    have c3 := noill_cons (t := t3) (by rw [ty3]; decide) c4
    have c2' := noill_cons (t := t2) (by rw [ty2]; decide) c3
    have hcl : ∀ x ∈ [t1, t2, t3, t4, t5] ++ [e], x.ty ≠ .ILLEGAL := noill_cons (by rw [ty1]; decide) c2'
    refine ⟨{ tok := t1, stmts := [.expr t4 (.inf t3 [43] (.int t2 (Int64.ofNat (digitsToNat d))) (.str t4 c))] }, t2, t3, t4, ?_, rfl⟩
    unfold parseSource
    rw [htok]
    simp only [Bool.false_eq_true, if_false]
    rw [initParser_clean _ hcl]
    have hfuel : parseFuel ([t1, t2, t3, t4, t5] ++ [e]) = 34 + 6 := by simp [parseFuel]
    rw [hfuel]
    have hva : parseInt64 t2.lit = some (Int64.ofNat (digitsToNat d)) := by rw [lit2]; exact parseInt64_digits d hd hb
    have hright : parseExpression 36 SUM ({ toks := [t4, t5, e] } : PS) = (.str t4 t4.lit, { toks := [t4, t5, e] }) :=
      parse_str_operand 34 SUM t4 t5 [e] ty4 (Or.inl ty5)
    have hex : parseExpression 38 LOWEST ({ toks := [t2, t3, t4, t5, e] } : PS) =
        (.inf t3 t3.lit (.int t2 (Int64.ofNat (digitsToNat d))) (.str t4 t4.lit), { toks := [t4, t5, e] }) := by
      rw [show 38 = 37 + 1 from rfl, parseExpression_succ]
      have hp2 : prefixBody (parseExpression 37) (parseExprList 37) (parseObjLoop 37)
          ({ toks := [t2, t3, t4, t5, e] } : PS) = some (.int t2 (Int64.ofNat (digitsToNat d)), { toks := [t2, t3, t4, t5, e] }) := by
        unfold prefixBody
        simp [PS.cur, ty2, hva]
      rw [hp2]
      simp only []
      rw [show 37 = 36 + 1 from rfl,
        prattLoop_arith_step 36 LOWEST _ (.str t4 t4.lit) t2 t3 t4 [t5, e] [t4, t5, e] 43 .ADD SUM addOp ty3 (by decide)
          (by rw [ty4]; decide) c4 hright]
      exact prattLoop_stop_rbraces 35 LOWEST _ t4 t5 [e] ty5
    have hst := parse_expr_stmt_of 38 t1 t2 t4 t5 [t3, t4, t5, e] [e] _ ty1 ty2 ty5 c2' c4 hex
    have hloop : parseProgramLoop (34 + 6) [] ({ toks := [t1, t2, t3, t4, t5] ++ [e] } : PS) =
        (some [.expr t4 (.inf t3 t3.lit (.int t2 (Int64.ofNat (digitsToNat d))) (.str t4 t4.lit))], { toks := [e] }) := by
      rw [show 34 + 6 = 39 + 1 from rfl, parseProgramLoop]
      have c0 : ({ toks := [t1, t2, t3, t4, t5] ++ [e] } : PS).curIs .EOF = false := by simp [PS.curIs, PS.cur, ty1]
      simp only [c0, Bool.false_eq_true, if_false]
      simp only [List.cons_append, List.nil_append] at hst ⊢
      rw [show 39 = 38 + 1 from rfl, hst]
      have i5 : ({ toks := [t5, e] } : PS).curIs .ILLEGAL = false := by simp [PS.curIs, PS.cur, ty5]
      simp only [i5, Bool.false_eq_true, if_false, Stmt.isBad]
      have nx : ({ toks := [t5, e] } : PS).next = { toks := [e] } := ps_next_clean t5 e [] hce
      rw [nx, parseProgramLoop]
      have ce : ({ toks := [e] } : PS).curIs .EOF = true := by simp [PS.curIs, PS.cur, he]
      simp [ce]
    rw [hloop]
    simp [finishParse, PS.cur, lit3, lit4]

end Tw
